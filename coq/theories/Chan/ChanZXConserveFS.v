(* SLOT CONSERVATION for the zero-copy FULL-SYNC Uni channel WITH its reserve API (Chan/ChanZX.v over Chan/ChanZ.v over Alloc/ZcUni.v over
   two full-sync rings; the port of Chan/ChanZXConserve.v to the full-sync rings, on top of Alloc/ZcConserveFS.v): in every state of every
   WELL-FORMED run `zxf_run N M k ws wr evs` each of the N slot ids 0..N-1 is in exactly one of FIVE places:
     1. the free list A                      positions fhead A <= i < ftail A of `fpublished A`   (ZcConserveFS.finring)
     2. the id ring B                        likewise
     3. held by a consumer                   `uheld t = Some id`                                   (ZcConserveFS.fheldl)
     4. in transit inside a composite operation
          of the base machine                ZcConserveFS.ftransl (composite pc AND pc inside the full-sync ring, see the table there)
          of the layer                       `ltranslF`:
                                               ZRes k v   / A at FCU (Some id)       id   (taken out of A, table entry not yet written)
                                               ZSRes k id / B at FPL id              id   (not yet in B)
                                               ZSRes k id / B at FPU id (Some _)     -    (ALREADY in B; the entry of k is still in the table)
                                               ZCRes k    / A at FPL id              id   (not yet back in A)
                                               ZCRes k    / A at FPU id (Some _)     -    (ALREADY in A; the entry of k is still in the table)
     5. RESERVED                             `zres s k = Some id` and no thread stands at `ZSRes k _` / `ZCRes k`   (at_rest / resl)
   Cut points.  The full-sync rings move their counters under the flag, one step BEFORE the operation returns, and the layer (ChanZX.zxstep)
   writes / clears the table entry only when the ring operation has returned.  So between the flag-CAS step of a publication of a
   reserved id and its flag-store step the id is in the ring AND its entry is still in the table: internally the invariant (`XC`) counts
   all table entries and balances that with a per-thread DEBT (`ldebtF`) on the left-hand side of the permutation; `xc_five` then turns
   entries-of-names-in-progress minus debts into the custody of the threads that carry them, as ChanZXConserve.split_busy does.
   The name discipline (`zxfwf`, `zxf_wf`) is ChanZXConserve's, restated for this instance.
   One more ring-level invariant is carried (`RD`): the value of a thread standing at the flag store of an ACCEPTED publish is in the
   ring (nobody can consume it before the flag is stored: FInv.f_flag / f_mutex); with it the table is injective in EVERY state
   (`zxfs_entries_exclusive`), also for the names whose entry is already in a ring.
   Results (end of the file): zxfs_slots_conserved (the five places), zxfs_no_leak, zxfs_reserved_exclusive (a reserved id AT REST is in
   no ring, not held, not in transit - for a name in progress past its cut point the id IS in the ring, see above),
   zxfs_entries_exclusive (two names never hold the same id; an entry's id is never held / in transit in the base machine),
   zxfs_sendres_never_full / zxfs_cancel_never_full (the publication / give-back of a reserved id never sees its ring full) with
   their step-by-step forms zxfs_sendres_steps / zxfs_cancel_steps, the checker zxf_wf_check and vm_compute snapshots. *)
From Coq Require Import Permutation.
From RM Require Import RingModel FullSync Chan ZeroCopy PoolRun ZcUni ChanZ ChanX ChanZProps ZcSolo ZcView ChanZInst ZcConserve ZcConserveFS
                       ChanZX ChanZXProps ChanZXConserve.
Import ZC.

Ltac perm_count :=
  apply (proj2 (Permutation_count_occ Z.eq_dec _ _)); let z := fresh "z" in intro z;
  repeat match goal with H : Permutation _ _ |- _ => let H' := fresh in pose proof (proj1 (Permutation_count_occ Z.eq_dec _ _) H z) as H'; clear H end;
  rewrite ?count_occ_app in *; cbn [count_occ] in *; repeat destruct (Z.eq_dec _ _); try lia.

Lemma flat_map_perm_ext {A B} (f g : A -> list B) l : (forall a, Permutation (f a) (g a)) -> Permutation (flat_map f l) (flat_map g l).
Proof. intros H. induction l as [|a l IH]; [constructor|]. cbn [flat_map]. apply Permutation_app; [apply H|exact IH]. Qed.
Lemma in_len {A} (x : A) l : In x l -> (1 <= length l)%nat.
Proof. destruct l; cbn; [tauto|lia]. Qed.

(* ------------------------------------------------------------------------------------------------ conservation with the table, on lists *)
Section XCF.
Variable N : Z.

(* ra / rb the contents of the two rings, own t the ids thread t has custody of, debt t the table entry thread t has already put into a
   ring, opn t the name whose entry thread t carries, rs the table *)
Definition XC (ra rb : list Z) (own debt : nat -> list Z) (opn : nat -> option nat) (rs : nat -> option Z) : Prop :=
  exists ths ks, NoDup ths /\ NoDup ks /\
    (forall t, ~ In t ths -> own t = [] /\ debt t = [] /\ opn t = None) /\
    (forall k, ~ In k ks -> rs k = None) /\
    Permutation (ids_upto N ++ flat_map debt ths) (ra ++ rb ++ flat_map own ths ++ flat_map (resl rs) ks).

Lemma xc_move ra rb own debt opn rs ra' rb' own' debt' opn' rs' t j : XC ra rb own debt opn rs ->
  (forall u, u <> t -> own' u = own u /\ debt' u = debt u /\ opn' u = opn u) ->
  (forall k, k <> j -> rs' k = rs k) ->
  Permutation (debt' t ++ ra ++ rb ++ own t ++ resl rs j) (debt t ++ ra' ++ rb' ++ own' t ++ resl rs' j) ->
  XC ra' rb' own' debt' opn' rs'.
Proof.
  intros (ths0 & ks0 & Hn0 & Hk0 & Ho0 & Hr0 & Hp0) Hou Hrk Hperm.
  assert (G1 : exists ths, NoDup ths /\ In t ths /\ (forall u, ~ In u ths -> own u = [] /\ debt u = [] /\ opn u = None) /\
                 Permutation (ids_upto N ++ flat_map debt ths) (ra ++ rb ++ flat_map own ths ++ flat_map (resl rs) ks0)).
  { destruct (in_dec Nat.eq_dec t ths0) as [Hin|Hnin]; [exists ths0; auto|].
    exists (t :: ths0). split; [now constructor|]. split; [now left|]. split.
    - intros u Hu. apply Ho0. intros Hin. apply Hu. now right.
    - cbn [flat_map]. destruct (Ho0 t Hnin) as (E1 & E2 & _). rewrite E1, E2. exact Hp0. }
  clear ths0 Hn0 Ho0 Hp0. destruct G1 as (ths & Hn & Hin & Ho & Hp1).
  assert (G2 : exists ks, NoDup ks /\ In j ks /\ (forall k, ~ In k ks -> rs k = None) /\
                 Permutation (ids_upto N ++ flat_map debt ths) (ra ++ rb ++ flat_map own ths ++ flat_map (resl rs) ks)).
  { destruct (in_dec Nat.eq_dec j ks0) as [Hjn|Hnin]; [exists ks0; auto|].
    exists (j :: ks0). split; [now constructor|]. split; [now left|]. split.
    - intros k Hk. apply Hr0. intros Hi. apply Hk. now right.
    - cbn [flat_map]. unfold resl at 1. rewrite (Hr0 j Hnin). exact Hp1. }
  clear ks0 Hk0 Hr0 Hp1. destruct G2 as (ks & Hk & Hjn & Hr & Hp).
  exists ths, ks. split; [exact Hn|]. split; [exact Hk|]. split; [|split].
  - intros u Hu. assert (Hne : u <> t) by (intros ->; contradiction). destruct (Hou u Hne) as (-> & -> & ->). now apply Ho.
  - intros k Hkn. assert (Hne : k <> j) by (intros ->; contradiction). rewrite (Hrk k Hne). now apply Hr.
  - destruct (flat_map_change own own' ths t Hn Hin (fun u Hu => proj1 (Hou u Hu))) as (R1 & A1 & A2).
    destruct (flat_map_change debt debt' ths t Hn Hin (fun u Hu => proj1 (proj2 (Hou u Hu)))) as (R3 & C1 & C2).
    assert (Hrl : forall k, k <> j -> resl rs' k = resl rs k) by (intros k Hne; unfold resl; now rewrite (Hrk k Hne)).
    destruct (flat_map_change (resl rs) (resl rs') ks j Hk Hjn Hrl) as (R2 & B1 & B2).
    rewrite A2, B2, C2. rewrite A1, B1, C1 in Hp. perm_count.
Qed.

(* the FIVE-place form: the entries of the names in progress, minus the debts, are in transit with the threads that carry them *)
Lemma xc_five ra rb own debt opn rs (ltr : nat -> list Z) : XC ra rb own debt opn rs ->
  (forall t t' j, opn t = Some j -> opn t' = Some j -> t = t') ->
  (forall t j, opn t = Some j -> exists id, rs j = Some id) ->
  (forall t, Permutation (match opn t with Some j => resl rs j | None => [] end) (ltr t ++ debt t)) ->
  exists ths ks, NoDup ths /\ NoDup ks /\
    (forall t, ~ In t ths -> own t = [] /\ ltr t = []) /\
    (forall k, In k ks <-> (exists id, rs k = Some id) /\ forall t, opn t <> Some k) /\
    Permutation (ids_upto N) (ra ++ rb ++ flat_map own ths ++ flat_map ltr ths ++ flat_map (resl rs) ks).
Proof.
  intros (ths & ks & Hn & Hk & Ho & Hr & Hp) Hinj Hent Hltr.
  assert (Hin : forall t j, In t ths -> opn t = Some j -> In j ks).
  { intros t j _ H. destruct (in_dec Nat.eq_dec j ks) as [|Hnin]; [assumption|]. destruct (Hent t j H) as [id E]. rewrite (Hr j Hnin) in E. discriminate. }
  destruct (split_busy opn (resl rs) Hinj ths ks Hn Hk Hin) as (ks' & Hk' & Hm & Hs).
  exists ths, (filter (has_entry rs) ks'). split; [exact Hn|]. split; [now apply NoDup_filter|]. split; [|split].
  - intros t Ht. destruct (Ho t Ht) as (E1 & E2 & E3). split; [exact E1|].
    specialize (Hltr t). rewrite E3 in Hltr. apply Permutation_nil in Hltr. apply app_eq_nil in Hltr. tauto.
  - intros k. rewrite filter_In, Hm. unfold has_entry. split.
    + intros [[H1 H2] H3]. split; [destruct (rs k); [eauto|discriminate]|].
      intros t. destruct (in_dec Nat.eq_dec t ths) as [Hi|Hni]; [now apply H2|]. destruct (Ho t Hni) as (_ & _ & ->). discriminate.
    + intros [[id E] H2]. split; [split|]; [|intros t _; apply H2|now rewrite E].
      destruct (in_dec Nat.eq_dec k ks) as [|Hnin]; [assumption|]. rewrite (Hr k Hnin) in E. discriminate.
  - rewrite flat_map_resl_filter.
    pose proof (flat_map_perm_ext _ _ ths Hltr) as H3. rewrite flat_map_app_perm in H3.
    perm_count.
Qed.

Lemma perm_room (ra rb X : list Z) v : Permutation (ids_upto N) (ra ++ rb ++ X) -> In v X ->
  Z.of_nat (length ra) + Z.of_nat (length rb) < N /\ 0 <= v < N /\ ~ In v ra /\ ~ In v rb.
Proof.
  intros Hp Hin. pose proof (Permutation_NoDup Hp (ids_upto_nodup N)) as Hd. split; [|split; [|split]].
  - apply in_len in Hin. apply Permutation_length in Hp. rewrite !app_length in Hp. unfold ids_upto in Hp. rewrite map_length, seq_length in Hp. lia.
  - apply ids_upto_in. apply (Permutation_in _ (Permutation_sym Hp)). apply in_or_app; right. apply in_or_app; now right.
  - intros Ha. apply (nodup_app_disj _ _ v Hd Ha). apply in_or_app; now right.
  - intros Hb. apply nodup_app_r in Hd. exact (nodup_app_disj _ _ v Hd Hb Hin).
Qed.
End XCF.

(* ------------------------------------------------------------------------------------------------ a ring-level fact
   whoever stands at the flag store of an ACCEPTED publish: its value is in the ring (nobody can consume it before the flag is stored) *)
Definition RD (x : fsst) : Prop := forall t w len, fthr x t = FPU w (Some len) -> In w (finring x).

Lemma rd_step N x t : FInv N x -> (forall v, fthr x t = FPL v -> ftail x - fhead x < N) -> RD x -> RD (fstepZ N x t).
Proof.
  intros I Hroom D u w len E'. destruct (Nat.eq_dec u t) as [->|Hn].
  - destruct (fthr x t) as [|v|v r| |r|] eqn:E.
    + rewrite (fstp_idle_noop N x t E) in E'. congruence.
    + destruct (flock x) eqn:El; [rewrite (fstep_PL_locked N x t v E El) in E'; congruence|].
      destruct (fstep_PL_ok N x t v E El (Hroom v eq_refl)) as (Ht & Hp & Hh & _). rewrite Ht, upd_same in E'. injection E' as -> _.
      rewrite (finring_pub N x _ w I Hp Hh). apply in_or_app. right. now left.
    + destruct (fstep_PU N x t v r E) as (Ht & _). rewrite Ht, upd_same in E'. discriminate.
    + destruct (flock x) eqn:El; [rewrite (fstep_CL_locked N x t E El) in E'; congruence|].
      destruct (Z_lt_le_dec 0 (ftail x - fhead x)) as [Hlt|Hle].
      * destruct (fstep_CL_got N x t I E El Hlt) as (Ht & _). rewrite Ht, upd_same in E'. discriminate.
      * destruct (fstep_CL_empty N x t E El Hle) as (Ht & _). rewrite Ht, upd_same in E'. discriminate.
    + destruct (fstep_CU N x t r E) as (Ht & _). rewrite Ht, upd_same in E'. discriminate.
    + revert E'. unfold fstepZ, fstep, idz. rewrite E. cbn [fhead ftail flock fbuf fthr fpublished fdelivered flog fset]. rewrite upd_same. discriminate.
  - rewrite (fstp_other N) in E' by assumption. pose proof (D u w len E') as Hin.
    assert (Hlk : flock x = true) by (apply (f_flag _ _ I u); rewrite E'; reflexivity).
    destruct (fthr x t) as [|v|v r| |r|] eqn:E.
    + now rewrite (fstp_idle_noop N x t E).
    + now rewrite (fstep_PL_locked N x t v E Hlk).
    + exfalso. apply Hn. apply (f_mutex _ _ I u t); [rewrite E'|rewrite E]; reflexivity.
    + now rewrite (fstep_CL_locked N x t E Hlk).
    + exfalso. apply Hn. apply (f_mutex _ _ I u t); [rewrite E'|rewrite E]; reflexivity.
    + assert (Hs : fpublished (fstepZ N x t) = fpublished x /\ fhead (fstepZ N x t) = fhead x) by (unfold fstepZ, fstep, idz; rewrite E; auto).
      rewrite (finring_same _ _ (proj1 Hs) (proj2 Hs)). exact Hin.
Qed.
Lemma rd_start x t o : RD x -> RD (fstart x t o).
Proof.
  intros D u w len E'. destruct (fstart_frame x t o) as [Sp Sh]. rewrite (finring_same _ _ Sp Sh).
  destruct (Nat.eq_dec u t) as [->|Hn]; [|rewrite fstart_other in E' by assumption; exact (D _ _ _ E')].
  destruct (fthr x t) eqn:E; [rewrite (fstart_idle x t o E) in E'; destruct o; discriminate| | | | |];
    (unfold fstart in E'; rewrite E in E'; exact (D _ _ _ E')).
Qed.

(* ------------------------------------------------------------------------------------------------ the invariant of the queue component *)
Section PUFInv.
Variable N : Z.
Hypothesis Npos : 0 < N.
Local Notation ust := (ust fsst).
Local Notation fstp := (fstepZ N).
Local Notation zstep := (ZcSolo.zstep N).
Local Notation zstart := ZcSolo.zstart.
Local Notation zrelease := ZcSolo.zrelease.
Local Notation lastres := (lastres fsst flog).

(* the id a thread inside the allocation of a reservation has taken out of the free list (the table entry is written when the ring
   operation has returned) *)
Definition lcarF (lt : nat -> zxpc) (x : ust) (t : nat) : list Z :=
  match lt t with ZRes _ _ => match fthr (ua _ x) t with FCU (Some id) => [id] | _ => [] end | _ => [] end.
(* the table entry a thread has ALREADY put into a ring (the entry is cleared when the ring operation has returned) *)
Definition ldebtF (lt : nat -> zxpc) (x : ust) (t : nat) : list Z :=
  match lt t with
  | ZSRes _ id => match fthr (ub _ x) t with FPU _ (Some _) => [id] | _ => [] end
  | ZCRes _ => match fthr (ua _ x) t with FPU v (Some _) => [v] | _ => [] end
  | _ => []
  end.
(* the table entry a thread carries towards a ring and has not yet put there *)
Definition lentF (lt : nat -> zxpc) (rs : nat -> option Z) (x : ust) (t : nat) : list Z :=
  match lt t with
  | ZSRes _ id => match fthr (ub _ x) t with FPU _ (Some _) => [] | _ => [id] end
  | ZCRes j => match fthr (ua _ x) t with FPU _ (Some _) => [] | _ => resl rs j end
  | _ => []
  end.
Definition custF (lt : nat -> zxpc) (x : ust) (t : nat) : list Z := fowned x t ++ lcarF lt x t.

Definition lphaseF (p : zxpc) (rs : nat -> option Z) (c : upc) (pa pb : fpc) : Prop :=
  match p with
  | ZN => fphase_of c pa pb
  | ZRes j _ => c = UIdle /\ is_fcons pa = true /\ pb = FIdle /\ rs j = None
  | ZSRes j id => c = UIdle /\ pa = FIdle /\ fpval pb = Some id /\ rs j = Some id
  | ZCRes j => c = UIdle /\ (exists id, fpval pa = Some id /\ rs j = Some id) /\ pb = FIdle
  | ZSResW _ _ | ZNop _ => c = UIdle /\ pa = FIdle /\ pb = FIdle
  end.

Lemma lphaseF_rs p rs rs' c pa pb : (forall k, busy_on p k -> rs' k = rs k) -> lphaseF p rs c pa pb -> lphaseF p rs' c pa pb.
Proof.
  intros H. destruct p; cbn [lphaseF busy_on] in *; auto.
  - rewrite (H k eq_refl). auto.
  - rewrite (H k eq_refl). auto.
  - rewrite (H k eq_refl). auto.
Qed.

Record PUF (lt : nat -> zxpc) (rs : nat -> option Z) (x : ust) : Prop := {
  pf_ia  : FInv N (ua _ x);
  pf_ib  : FInv N (ub _ x);
  pf_ph  : forall t, lphaseF (lt t) rs (uthr _ x t) (fthr (ua _ x) t) (fthr (ub _ x) t);
  pf_2a  : noFull (ua _ x);
  pf_2b  : noFull (ub _ x);
  pf_da  : RD (ua _ x);
  pf_db  : RD (ub _ x);
  pf_now : forall t, uthr _ x t = UDeqB -> uheld _ x t = None;
  pf_cons : XC N (finring (ua _ x)) (finring (ub _ x)) (custF lt x) (ldebtF lt x) (fun t => opname (lt t)) rs
}.

Lemma lent_debt lt rs x t : PUF lt rs x ->
  Permutation (match opname (lt t) with Some j => resl rs j | None => [] end) (lentF lt rs x t ++ ldebtF lt x t).
Proof.
  intros Z. pose proof (pf_ph _ _ _ Z t) as P. unfold lentF, ldebtF. destruct (lt t); cbn [opname lphaseF] in *; try reflexivity.
  - destruct P as (_ & _ & _ & E). unfold resl. rewrite E. destruct (fthr (ub _ x) t) as [| |w [len|]| | |]; reflexivity.
  - destruct P as (_ & (id & P1 & E) & _). unfold resl. rewrite E.
    destruct (fthr (ua _ x) t) as [|w|w [len|]| | |]; cbn in P1; try discriminate; injection P1 as ->; reflexivity.
Qed.

(* the FIVE-place form *)
Lemma puf_five lt rs x : PUF lt rs x -> uniq lt ->
  exists ths ks, NoDup ths /\ NoDup ks /\
    (forall t, ~ In t ths -> custF lt x t = [] /\ lentF lt rs x t = []) /\
    (forall k, In k ks <-> (exists id, rs k = Some id) /\ at_rest lt k) /\
    Permutation (ids_upto N) (finring (ua _ x) ++ finring (ub _ x) ++ flat_map (custF lt x) ths ++ flat_map (lentF lt rs x) ths ++ flat_map (resl rs) ks).
Proof.
  intros Z U. apply (xc_five N _ _ _ _ _ _ (lentF lt rs x) (pf_cons _ _ _ Z)).
  - intros t t' j H1 H2. exact (U t t' j (opname_busy _ _ H1) (opname_busy _ _ H2)).
  - intros t j H. pose proof (pf_ph _ _ _ Z t) as P. destruct (lt t); cbn in H; try discriminate; injection H as ->; cbn [lphaseF] in P.
    + exists id. tauto.
    + destruct P as (_ & (id & _ & E) & _). eauto.
  - intros t. now apply lent_debt.
Qed.

(* a thread about to try the flag of a publish finds room in the ring it publishes into, and its id is not there *)
Lemma puf_room lt rs x t : PUF lt rs x -> uniq lt ->
  (forall v, fthr (ua _ x) t = FPL v -> ftail (ua _ x) - fhead (ua _ x) < N /\ ~ In v (finring (ua _ x))) /\
  (forall v, fthr (ub _ x) t = FPL v -> ftail (ub _ x) - fhead (ub _ x) < N /\ ~ In v (finring (ub _ x))).
Proof.
  intros Z U. destruct (puf_five lt rs x Z U) as (ths & ks & Hn & Hk & Ho & _ & Hp).
  pose proof (pf_ph _ _ _ Z t) as P.
  pose proof (finring_length N _ (pf_ia _ _ _ Z)) as La. pose proof (finring_length N _ (pf_ib _ _ _ Z)) as Lb.
  pose proof (f_ord _ _ (pf_ia _ _ _ Z)) as Oa. pose proof (f_ord _ _ (pf_ib _ _ _ Z)) as Ob.
  assert (G : forall v, In v (custF lt x t ++ lentF lt rs x t) ->
            Z.of_nat (length (finring (ua _ x))) + Z.of_nat (length (finring (ub _ x))) < N /\ ~ In v (finring (ua _ x)) /\ ~ In v (finring (ub _ x))).
  { intros v Hin.
    assert (Ht : In t ths).
    { destruct (in_dec Nat.eq_dec t ths) as [|Hnin]; [assumption|]. destruct (Ho t Hnin) as [E1 E2]. rewrite E1, E2 in Hin. destruct Hin. }
    assert (Hin' : In v (flat_map (custF lt x) ths ++ flat_map (lentF lt rs x) ths ++ flat_map (resl rs) ks)).
    { apply in_app_or in Hin. destruct Hin as [Hin|Hin]; [apply in_or_app; left|apply in_or_app; right; apply in_or_app; left];
        apply in_flat_map; eauto. }
    destruct (perm_room N _ _ _ v Hp Hin') as (H1 & _ & H2 & H3). auto. }
  split; intros v Ev.
  - assert (Hin : In v (custF lt x t ++ lentF lt rs x t)).
    { unfold custF, fowned, ftransl, lentF, lcarF. rewrite Ev in *.
      destruct (lt t); cbn [lphaseF] in P.
      + apply in_or_app; left. apply in_or_app; left. apply in_or_app; right.
        destruct (uthr _ x t); cbn in P; destruct P as [P1 P2]; try discriminate. injection P1 as ->. now left.
      + destruct P as (_ & P1 & _). discriminate.
      + destruct P as (_ & P1 & _). discriminate.
      + destruct P as (_ & P1 & _). discriminate.
      + destruct P as (_ & (id & P1 & E) & _). cbn in P1. injection P1 as ->. apply in_or_app; right. unfold resl. rewrite E. now left.
      + destruct P as (_ & P1 & _). discriminate. }
    destruct (G v Hin) as (H1 & H2 & _). split; [lia|exact H2].
  - assert (Hin : In v (custF lt x t ++ lentF lt rs x t)).
    { unfold custF, fowned, ftransl, lentF, lcarF. rewrite Ev in *.
      destruct (lt t); cbn [lphaseF] in P.
      + apply in_or_app; left. apply in_or_app; left. apply in_or_app; right.
        destruct (uthr _ x t); cbn in P; destruct P as [P1 P2]; try discriminate. injection P2 as ->. now left.
      + destruct P as (_ & _ & P1 & _). discriminate.
      + destruct P as (_ & _ & P1 & _). cbn in P1. injection P1 as ->. apply in_or_app; right. now left.
      + destruct P as (_ & _ & P1). discriminate.
      + destruct P as (_ & _ & P1). discriminate.
      + destruct P as (_ & _ & P1). discriminate. }
    destruct (G v Hin) as (H1 & _ & H2). split; [lia|exact H2].
Qed.

(* re-establishing the invariant after a move of thread t that may also change its layer pc and the entry of name j *)
Lemma puf_update lt rs x lt' rs' a' b' p' th' l' h' t j : PUF lt rs x ->
  FInv N a' -> FInv N b' -> noFull a' -> noFull b' -> RD a' -> RD b' ->
  (forall u, u <> t -> fthr a' u = fthr (ua _ x) u /\ fthr b' u = fthr (ub _ x) u /\ th' u = uthr _ x u /\ h' u = uheld _ x u /\ lt' u = lt u) ->
  (forall k, k <> j -> rs' k = rs k) ->
  ((forall u, u <> t -> ~ busy_on (lt u) j) \/ rs' j = rs j) ->
  lphaseF (lt' t) rs' (th' t) (fthr a' t) (fthr b' t) ->
  (th' t = UDeqB -> h' t = None) ->
  Permutation (ldebtF lt' (umk fsst a' b' p' th' l' h') t ++ finring (ua _ x) ++ finring (ub _ x) ++ custF lt x t ++ resl rs j)
              (ldebtF lt x t ++ finring a' ++ finring b' ++ custF lt' (umk fsst a' b' p' th' l' h') t ++ resl rs' j) ->
  PUF lt' rs' (umk fsst a' b' p' th' l' h').
Proof.
  intros Z Ia Ib H2a H2b Da Db Ho Hrk Hj Hph Hnow Hperm. constructor; cbn [ua ub uthr uheld umk]; auto.
  - intros u. destruct (Nat.eq_dec u t) as [->|Hn]; [exact Hph|].
    destruct (Ho u Hn) as (-> & -> & -> & _ & ->). apply (lphaseF_rs _ rs); [|apply (pf_ph _ _ _ Z u)].
    intros k Hb. destruct (Nat.eq_dec k j) as [->|Hk]; [|now apply Hrk]. destruct Hj as [Hj|Hj]; [|exact Hj]. exfalso. exact (Hj u Hn Hb).
  - intros u. destruct (Nat.eq_dec u t) as [->|Hn]; [exact Hnow|].
    destruct (Ho u Hn) as (_ & _ & -> & -> & _). apply (pf_now _ _ _ Z u).
  - apply (xc_move N _ _ _ _ _ _ _ _ _ _ _ _ t j (pf_cons _ _ _ Z)); [|exact Hrk|exact Hperm].
    intros u Hn. unfold custF, fowned, fheldl, ftransl, lcarF, ldebtF. cbn [ua ub uthr uheld umk].
    destruct (Ho u Hn) as (-> & -> & -> & -> & ->). auto.
Qed.

(* ... of a thread outside the layer, the layer's data untouched *)
Lemma puf_update0 lt rs x a' b' p' th' l' h' t : PUF lt rs x -> lt t = ZN ->
  FInv N a' -> FInv N b' -> noFull a' -> noFull b' -> RD a' -> RD b' ->
  (forall u, u <> t -> fthr a' u = fthr (ua _ x) u /\ fthr b' u = fthr (ub _ x) u /\ th' u = uthr _ x u /\ h' u = uheld _ x u) ->
  fphase_of (th' t) (fthr a' t) (fthr b' t) ->
  (th' t = UDeqB -> h' t = None) ->
  Permutation (finring (ua _ x) ++ finring (ub _ x) ++ fowned x t) (finring a' ++ finring b' ++ fowned (umk fsst a' b' p' th' l' h') t) ->
  PUF lt rs (umk fsst a' b' p' th' l' h').
Proof.
  intros Z Lt Ia Ib H2a H2b Da Db Ho Hph Hnow Hperm.
  apply (puf_update lt rs x lt rs a' b' p' th' l' h' t 0%nat Z); auto.
  - intros u Hu. destruct (Ho u Hu) as (? & ? & ? & ?). auto.
  - rewrite Lt. exact Hph.
  - unfold ldebtF, custF, lcarF. rewrite Lt. cbn [app]. rewrite !app_nil_r. now apply perm_tail3.
Qed.

Ltac others := intros u Hu; cbn [ua ub upool uthr ulog uheld umk];
  rewrite ?(fstp_other N), ?fstart_other, ?upd_other by assumption; auto.
Ltac own := unfold fowned, fheldl, ftransl; cbn [ua ub upool uthr ulog uheld umk]; rewrite ?upd_same.
Ltac upd_at Ht := rewrite Ht, upd_same.

(* ---- the three moves of the base machine, by a thread that is not inside a layer operation (ZcConserveFS.zif_step / _start / _release) ---- *)
Theorem puf_step lt rs s t : PUF lt rs s -> uniq lt -> lt t = ZN -> PUF lt rs (zstep s t).
Proof.
  intros Z U Lt. destruct (puf_room lt rs s t Z U) as [RoomA' RoomB'].
  assert (RoomA : forall v, fthr (ua _ s) t = FPL v -> ftail (ua _ s) - fhead (ua _ s) < N) by (intros v Hv; apply (RoomA' v Hv)).
  assert (RoomB : forall v, fthr (ub _ s) t = FPL v -> ftail (ub _ s) - fhead (ub _ s) < N) by (intros v Hv; apply (RoomB' v Hv)).
  clear RoomA' RoomB'.
  pose proof (pf_ia _ _ _ Z) as Ia. pose proof (pf_ib _ _ _ Z) as Ib.
  pose proof (pf_ph _ _ _ Z t) as P. rewrite Lt in P. cbn [lphaseF] in P.
  pose proof (pf_2a _ _ _ Z) as H2a. pose proof (pf_2b _ _ _ Z) as H2b. pose proof (pf_now _ _ _ Z t) as Hnow.
  pose proof (pf_da _ _ _ Z) as Da. pose proof (pf_db _ _ _ Z) as Db.
  destruct s as [a b p th l h]. cbn [ua ub upool uthr ulog uheld] in *. fold (umk fsst a b p th l h) in *.
  assert (Ia' : FInv N (fstp a t)) by now apply finv_step.
  assert (Ib' : FInv N (fstp b t)) by now apply finv_step.
  assert (H2a' : noFull (fstp a t)) by (apply noFull_step; [intros w Hw _; exact (RoomA w Hw)|exact H2a]).
  assert (H2b' : noFull (fstp b t)) by (apply noFull_step; [intros w Hw _; exact (RoomB w Hw)|exact H2b]).
  assert (Da' : RD (fstp a t)) by (apply (rd_step N); assumption).
  assert (Db' : RD (fstp b t)) by (apply (rd_step N); assumption).
  destruct (th t) eqn:E; cbn [fphase_of] in P; destruct P as [P1 P2].
  - (* UIdle *) rewrite (z_idle N _ _ _ _ _ _ _ E). exact Z.
  - (* UEnqA v *)
    destruct (fthr a t) as [| | | |r|] eqn:Ea; cbn in P1; try discriminate.
    + destruct (flock a) eqn:El.
      { rewrite (z_enqA_busy N a b p th l h t v E); rewrite (fstep_CL_locked N a t Ea El); [exact Z|rewrite Ea; discriminate]. }
      destruct (Z_lt_le_dec 0 (ftail a - fhead a)) as [Hlt|Hle].
      * destruct (fstep_CL_got N a t Ia Ea El Hlt) as (Ht & Hp & Hh & Hl).
        rewrite (z_enqA_busy N a b p th l h t v E) by (upd_at Ht; discriminate).
        apply (puf_update0 lt rs _ _ _ _ _ _ _ t Z Lt); cbn [ua ub upool uthr ulog uheld umk]; try assumption; [others| | |].
        -- upd_at Ht. rewrite E. cbn. auto.
        -- rewrite E. discriminate.
        -- rewrite (finring_cons N a _ Ia Hp Hh ltac:(lia)). own. rewrite E, Ea. upd_at Ht. perm_count.
      * destruct (fstep_CL_empty N a t Ea El Hle) as (Ht & Hp & Hh & Hl).
        rewrite (z_enqA_busy N a b p th l h t v E) by (upd_at Ht; discriminate).
        apply (puf_update0 lt rs _ _ _ _ _ _ _ t Z Lt); cbn [ua ub upool uthr ulog uheld umk]; try assumption; [others| | |].
        -- upd_at Ht. rewrite E. cbn. auto.
        -- rewrite E. discriminate.
        -- rewrite (finring_same _ _ Hp Hh). own. rewrite E, Ea. upd_at Ht. reflexivity.
    + destruct (fstep_CU N a t r Ea) as (Ht & Hp & Hh & Hl & _).
      assert (Hi : fthr (fstp a t) t = FIdle) by (now upd_at Ht).
      destruct r as [id|]; cbn [cons_res] in Hl.
      * rewrite (z_enqA_got N a b p th l h t v id E Hi (ZcSolo.lastres_snoc _ _ _ _ Hl)).
        destruct (fstart_frame b t (OpPub id)) as [Sp Sh].
        apply (puf_update0 lt rs _ _ _ _ _ _ _ t Z Lt); cbn [ua ub upool uthr ulog uheld umk]; try assumption;
          [now apply finv_start|now apply noFull_start|now apply rd_start|others| | |].
        -- rewrite upd_same, Hi, (fstart_idle b t _ P2). cbn. auto.
        -- rewrite upd_same. discriminate.
        -- rewrite (finring_same _ _ Hp Hh), (finring_same _ _ Sp Sh). own. rewrite E, Ea, (fstart_idle b t _ P2). reflexivity.
      * rewrite (z_enqA_none N a b p th l h t v E Hi (ZcSolo.lastres_snoc _ _ _ _ Hl)).
        apply (puf_update0 lt rs _ _ _ _ _ _ _ t Z Lt); cbn [ua ub upool uthr ulog uheld umk]; try assumption; [others| | |].
        -- rewrite upd_same, Hi, P2. cbn. auto.
        -- rewrite upd_same. discriminate.
        -- rewrite (finring_same _ _ Hp Hh). own. rewrite E, Ea. reflexivity.
  - (* UEnqB v id *)
    destruct (fthr b t) as [|w|w r| | |] eqn:Eb; cbn in P2; try discriminate; injection P2 as ->.
    + destruct (flock b) eqn:El.
      { rewrite (z_enqB_busy N a b p th l h t v id E); rewrite (fstep_PL_locked N b t id Eb El); [exact Z|rewrite Eb; discriminate]. }
      destruct (fstep_PL_ok N b t id Eb El (RoomB id eq_refl)) as (Ht & Hp & Hh & Hl).
      rewrite (z_enqB_busy N a b p th l h t v id E) by (upd_at Ht; discriminate).
      apply (puf_update0 lt rs _ _ _ _ _ _ _ t Z Lt); cbn [ua ub upool uthr ulog uheld umk]; try assumption; [others| | |].
      * upd_at Ht. rewrite E. cbn. auto.
      * rewrite E. discriminate.
      * rewrite (finring_pub N b _ id Ib Hp Hh). own. rewrite E, Eb. upd_at Ht. perm_count.
    + destruct r as [len|]; [|exfalso; exact (H2b t _ Eb)].
      destruct (fstep_PU N b t id _ Eb) as (Ht & Hp & Hh & Hl & _). cbn [pub_res] in Hl.
      assert (Hi : fthr (fstp b t) t = FIdle) by (now upd_at Ht).
      rewrite (z_enqB_ok N a b p th l h t v id _ _ E Hi (ZcSolo.lastres_snoc _ _ _ _ Hl)).
      apply (puf_update0 lt rs _ _ _ _ _ _ _ t Z Lt); cbn [ua ub upool uthr ulog uheld umk]; try assumption; [others| | |].
      * rewrite upd_same, Hi, P1. cbn. auto.
      * rewrite upd_same. discriminate.
      * rewrite (finring_same _ _ Hp Hh). own. rewrite E, Eb. reflexivity.
  - (* UDeqB *)
    destruct (fthr b t) as [| | | |r|] eqn:Eb; cbn in P2; try discriminate.
    + destruct (flock b) eqn:El.
      { rewrite (z_deqB_busy N a b p th l h t E); rewrite (fstep_CL_locked N b t Eb El); [exact Z|rewrite Eb; discriminate]. }
      destruct (Z_lt_le_dec 0 (ftail b - fhead b)) as [Hlt|Hle].
      * destruct (fstep_CL_got N b t Ib Eb El Hlt) as (Ht & Hp & Hh & Hl).
        rewrite (z_deqB_busy N a b p th l h t E) by (upd_at Ht; discriminate).
        apply (puf_update0 lt rs _ _ _ _ _ _ _ t Z Lt); cbn [ua ub upool uthr ulog uheld umk]; try assumption; [others| | |].
        -- upd_at Ht. rewrite E. cbn. auto.
        -- intros _. now apply Hnow.
        -- rewrite (finring_cons N b _ Ib Hp Hh ltac:(lia)). own. rewrite E, Eb. upd_at Ht. perm_count.
      * destruct (fstep_CL_empty N b t Eb El Hle) as (Ht & Hp & Hh & Hl).
        rewrite (z_deqB_busy N a b p th l h t E) by (upd_at Ht; discriminate).
        apply (puf_update0 lt rs _ _ _ _ _ _ _ t Z Lt); cbn [ua ub upool uthr ulog uheld umk]; try assumption; [others| | |].
        -- upd_at Ht. rewrite E. cbn. auto.
        -- intros _. now apply Hnow.
        -- rewrite (finring_same _ _ Hp Hh). own. rewrite E, Eb. upd_at Ht. reflexivity.
    + destruct (fstep_CU N b t r Eb) as (Ht & Hp & Hh & Hl & _).
      assert (Hi : fthr (fstp b t) t = FIdle) by (now upd_at Ht).
      destruct r as [id|]; cbn [cons_res] in Hl.
      * rewrite (z_deqB_got N a b p th l h t id E Hi (ZcSolo.lastres_snoc _ _ _ _ Hl)).
        apply (puf_update0 lt rs _ _ _ _ _ _ _ t Z Lt); cbn [ua ub upool uthr ulog uheld umk]; try assumption; [others| | |].
        -- rewrite upd_same, Hi, P1. cbn. auto.
        -- rewrite upd_same. discriminate.
        -- rewrite (finring_same _ _ Hp Hh). own. rewrite E, Eb, (Hnow eq_refl). reflexivity.
      * rewrite (z_deqB_empty N a b p th l h t E Hi (ZcSolo.lastres_snoc _ _ _ _ Hl)).
        apply (puf_update0 lt rs _ _ _ _ _ _ _ t Z Lt); cbn [ua ub upool uthr ulog uheld umk]; try assumption; [others| | |].
        -- rewrite upd_same, Hi, P1. cbn. auto.
        -- rewrite upd_same. discriminate.
        -- rewrite (finring_same _ _ Hp Hh). own. rewrite E, Eb. reflexivity.
  - (* URel id *)
    destruct (fthr a t) as [|w|w r| | |] eqn:Ea; cbn in P1; try discriminate; injection P1 as ->.
    + destruct (flock a) eqn:El.
      { rewrite (z_rel_busy N a b p th l h t id E); rewrite (fstep_PL_locked N a t id Ea El); [exact Z|rewrite Ea; discriminate]. }
      destruct (fstep_PL_ok N a t id Ea El (RoomA id eq_refl)) as (Ht & Hp & Hh & Hl).
      rewrite (z_rel_busy N a b p th l h t id E) by (upd_at Ht; discriminate).
      apply (puf_update0 lt rs _ _ _ _ _ _ _ t Z Lt); cbn [ua ub upool uthr ulog uheld umk]; try assumption; [others| | |].
      * upd_at Ht. rewrite E. cbn. auto.
      * rewrite E. discriminate.
      * rewrite (finring_pub N a _ id Ia Hp Hh). own. rewrite E, Ea. upd_at Ht. perm_count.
    + destruct r as [len|]; [|exfalso; exact (H2a t _ Ea)].
      destruct (fstep_PU N a t id _ Ea) as (Ht & Hp & Hh & Hl & _).
      assert (Hi : fthr (fstp a t) t = FIdle) by (now upd_at Ht).
      rewrite (z_rel_done N a b p th l h t id E Hi).
      apply (puf_update0 lt rs _ _ _ _ _ _ _ t Z Lt); cbn [ua ub upool uthr ulog uheld umk]; try assumption; [others| | |].
      * rewrite upd_same, Hi, P2. cbn. auto.
      * rewrite upd_same. discriminate.
      * rewrite (finring_same _ _ Hp Hh). own. rewrite E, Ea. reflexivity.
  - (* ULenB *)
    rewrite (z_len N a b p th l h t E).
    apply (puf_update0 lt rs _ _ _ _ _ _ _ t Z Lt); cbn [ua ub upool uthr ulog uheld umk]; try assumption; [others| | |].
    + rewrite upd_same, P1, P2. cbn. auto.
    + rewrite upd_same. discriminate.
    + own. rewrite E. reflexivity.
Qed.

Theorem puf_start lt rs s t o : PUF lt rs s -> lt t = ZN -> (o = OpCons -> uheld _ s t = None) -> PUF lt rs (zstart s t o).
Proof.
  intros Z Lt Hnone. pose proof (pf_ph _ _ _ Z t) as P. rewrite Lt in P. cbn [lphaseF] in P.
  pose proof (pf_ia _ _ _ Z) as Ia. pose proof (pf_ib _ _ _ Z) as Ib.
  pose proof (pf_2a _ _ _ Z) as H2a. pose proof (pf_2b _ _ _ Z) as H2b. pose proof (pf_da _ _ _ Z) as Da. pose proof (pf_db _ _ _ Z) as Db.
  unfold zstart, ustart. destruct s as [a b p th l h]. cbn [ua ub upool uthr ulog uheld] in *. fold (umk fsst a b p th l h) in *.
  destruct (th t) eqn:E; try exact Z. cbn [fphase_of] in P. destruct P as [P1 P2]. destruct o.
  - destruct (fstart_frame a t OpCons) as [Sp Sh].
    apply (puf_update0 lt rs _ _ _ _ _ _ _ t Z Lt); cbn [ua ub upool uthr ulog uheld umk]; try assumption;
      [now apply finv_start|now apply noFull_start|now apply rd_start|others| | |].
    + rewrite upd_same, (fstart_idle a t _ P1), P2. cbn. auto.
    + rewrite upd_same. discriminate.
    + rewrite (finring_same _ _ Sp Sh). own. rewrite E, (fstart_idle a t _ P1). reflexivity.
  - destruct (fstart_frame b t OpCons) as [Sp Sh].
    apply (puf_update0 lt rs _ _ _ _ _ _ _ t Z Lt); cbn [ua ub upool uthr ulog uheld umk]; try assumption;
      [now apply finv_start|now apply noFull_start|now apply rd_start|others| | |].
    + rewrite upd_same, (fstart_idle b t _ P2), P1. cbn. auto.
    + intros _. now apply Hnone.
    + rewrite (finring_same _ _ Sp Sh). own. rewrite E, (fstart_idle b t _ P2). reflexivity.
  - apply (puf_update0 lt rs _ _ _ _ _ _ _ t Z Lt); cbn [ua ub upool uthr ulog uheld umk]; try assumption; [others| | |].
    + rewrite upd_same, P1, P2. cbn. auto.
    + rewrite upd_same. discriminate.
    + own. rewrite E. reflexivity.
Qed.

Theorem puf_release lt rs s t : PUF lt rs s -> lt t = ZN -> PUF lt rs (zrelease s t).
Proof.
  intros Z Lt. pose proof (pf_ph _ _ _ Z t) as P. rewrite Lt in P. cbn [lphaseF] in P.
  pose proof (pf_ia _ _ _ Z) as Ia. pose proof (pf_ib _ _ _ Z) as Ib.
  pose proof (pf_2a _ _ _ Z) as H2a. pose proof (pf_2b _ _ _ Z) as H2b. pose proof (pf_da _ _ _ Z) as Da. pose proof (pf_db _ _ _ Z) as Db.
  unfold zrelease, urelease. destruct s as [a b p th l h]. cbn [ua ub upool uthr ulog uheld] in *. fold (umk fsst a b p th l h) in *.
  destruct (th t) eqn:E; try exact Z. destruct (h t) as [id|] eqn:Eh; [|exact Z]. cbn [fphase_of] in P. destruct P as [P1 P2].
  destruct (fstart_frame a t (OpPub id)) as [Sp Sh].
  apply (puf_update0 lt rs _ _ _ _ _ _ _ t Z Lt); cbn [ua ub upool uthr ulog uheld umk]; try assumption;
    [now apply finv_start|now apply noFull_start|now apply rd_start|others| | |].
  - rewrite upd_same, (fstart_idle a t _ P1), P2. cbn. auto.
  - rewrite upd_same. discriminate.
  - rewrite (finring_same _ _ Sp Sh). own. rewrite E, Eh, (fstart_idle a t _ P1). reflexivity.
Qed.

End PUFInv.
Section BaseMovesF.
Variable N : Z.
Variable M k : nat.
Variable ws : Z -> option nat.
Local Notation ust := (ust fsst).
Local Notation austep := (ustep fsst (fstepZ N) fstart fsidle flog false (fun b => ftail b - fhead b)).
Local Notation austart := (ustart fsst fstart false).
Local Notation aurel := (urelease fsst fstart).
Local Notation acexec := (cexec ust austep austart (uidle fsst) (ulog fsst) aurel M k ws).


Inductive tmvF (t : nat) (x : ust) : ust -> Prop :=
| tm_reflF : tmvF t x x
| tm_stepF y : tmvF t x y -> tmvF t x (ZcSolo.zstep N y t)
| tm_startF y o : tmvF t x y -> uheld _ y t = None -> tmvF t x (ZcSolo.zstart y t o)
| tm_relF y : tmvF t x y -> tmvF t x (ZcSolo.zrelease y t).

Ltac tm As := repeat first [ apply tm_reflF | apply tm_relF | apply tm_stepF | (apply tm_startF; [|apply As]) ].

Lemma tmv_cexecF (b : cst ust) e : allnone fsst (q _ b) -> tmvF (ev_thread e) (q _ b) (q _ (acexec b e)).
Proof.
  intros As. destruct e as [t|t o]; cbn [ev_thread cexec].
  - unfold cstep. destruct (cthr ust b t) eqn:E.
    + tm As.
    + destruct (uidle fsst _ t); [unfold after_send; destruct (qres _ _ _); try destruct (ws _)|]; cbn [q mk]; tm As.
    + destruct (wstep (m ust b) w) as [m' [w'|]]; cbn [q mk]; tm As.
    + destruct (uidle fsst _ t); [unfold after_cons; destruct (qres _ _ _)|]; cbn [q mk]; tm As.
    + destruct (uidle fsst _ t); [unfold after_cons; destruct (qres _ _ _)|]; cbn [q mk]; tm As.
    + destruct (keep _ _); cbn; tm As.
    + destruct r; cbn; try (tm As); [destruct (wakers _ _)|destruct (wlock _)]; cbn; tm As.
    + destruct (notified _ _); cbn; tm As.
    + destruct (j <? k)%nat; cbn; tm As.
    + cbn. tm As.
    + destruct (wstep (m ust b) w) as [m' [w'|]]; cbn [q mk]; [tm As|]. rewrite q_cancel_nextZ. tm As.
    + destruct (uidle fsst _ t); [destruct (qres _ _ _)|]; cbn [q mk]; tm As.
    + destruct (uidle fsst _ t); cbn [q mk]; tm As.
  - unfold cstart. destruct (cthr ust b t); try (tm As).
    destruct o; cbn [q mk setpc]; try (tm As). rewrite q_cancel_nextZ. tm As.
Qed.

Lemma ustep_uthr_otherF (x : ust) t u : u <> t -> uthr _ (austep x t) u = uthr _ x u.
Proof.
  intros Hn. unfold ustep. destruct (uthr _ x t); try reflexivity; cbv beta iota;
  repeat match goal with
         | |- context[if ?b then _ else _] => destruct b
         | |- context[match lastres ?A ?B ?C with _ => _ end] => destruct (lastres A B C)
         end; cbn [uthr umk]; rewrite ?upd_other by assumption; reflexivity.
Qed.
Lemma ustart_uthr_otherF (x : ust) t o u : u <> t -> uthr _ (austart x t o) u = uthr _ x u.
Proof.
  intros Hn. unfold ustart. destruct (uthr _ x t); try reflexivity. destruct o; cbn [uthr umk]; now rewrite upd_other.
Qed.
Lemma urel_uthr_otherF (x : ust) t u : u <> t -> uthr _ (aurel x t) u = uthr _ x u.
Proof.
  intros Hn. unfold urelease. destruct (uthr _ x t); try reflexivity. destruct (uheld _ x t); try reflexivity. cbn [uthr umk]. now rewrite upd_other.
Qed.
Lemma tmv_uthr_otherF t x y u : tmvF t x y -> u <> t -> uthr _ y u = uthr _ x u.
Proof.
  intros H Hn. induction H as [|y H IH|y o H IH _|y H IH]; [reflexivity| | |]; rewrite <- IH.
  - now apply ustep_uthr_otherF.
  - now apply ustart_uthr_otherF.
  - now apply urel_uthr_otherF.
Qed.

Lemma cthr_cancel_next_otherF (s : cst ust) t j u : u <> t -> cthr _ (cancel_next ust M s t j) u = cthr _ s u.
Proof. intros Hn. unfold cancel_next, finish, setpc. destruct (M <=? j)%nat; cbn [cthr mk]; now rewrite upd_other. Qed.
Lemma cthr_cexec_otherF (b : cst ust) e u : u <> ev_thread e -> cthr _ (acexec b e) u = cthr _ b u.
Proof.
  intros Hn. destruct e as [t|t o]; cbn [ev_thread cexec] in *.
  - unfold cstep. destruct (cthr ust b t) eqn:E; try reflexivity.
    + destruct (uidle fsst _ t); [unfold after_send; destruct (qres _ _ _); try destruct (ws _)|]; cbn [cthr mk]; rewrite ?upd_other by assumption; reflexivity.
    + destruct (wstep (m ust b) w) as [m' [w'|]]; cbn [cthr mk]; now rewrite upd_other.
    + destruct (uidle fsst _ t); [unfold after_cons; destruct (qres _ _ _)|]; cbn [cthr mk]; rewrite ?upd_other by assumption; reflexivity.
    + destruct (uidle fsst _ t); [unfold after_cons; destruct (qres _ _ _)|]; cbn [cthr mk]; rewrite ?upd_other by assumption; reflexivity.
    + destruct (keep _ _); unfold setpc, finish; cbn [cthr mk]; now rewrite upd_other.
    + destruct r; [destruct (wakers _ _)|destruct (wlock _)| | |]; unfold setpc, finish; cbn [cthr mk]; rewrite ?upd_other by assumption; reflexivity.
    + destruct (notified _ _); cbn [cthr mk]; rewrite ?upd_other by assumption; reflexivity.
    + destruct (j <? k)%nat; unfold setpc, finish; cbn [cthr mk]; now rewrite upd_other.
    + cbn [cthr mk]. now rewrite upd_other.
    + destruct (wstep (m ust b) w) as [m' [w'|]]; [cbn [cthr mk]; now rewrite upd_other|]. now rewrite cthr_cancel_next_otherF.
    + destruct (uidle fsst _ t); [destruct (qres _ _ _)|]; cbn [cthr mk]; rewrite ?upd_other by assumption; reflexivity.
    + destruct (uidle fsst _ t); cbn [cthr mk]; rewrite ?upd_other by assumption; reflexivity.
  - unfold cstart. destruct (cthr ust b t); try reflexivity.
    destruct o; unfold setpc; cbn [cthr mk]; rewrite ?upd_other by assumption; try reflexivity. now rewrite cthr_cancel_next_otherF.
Qed.

(* channel pcs outside a queue operation *)
Definition KcF (x : ust) (cth : nat -> cpc) : Prop :=
  allnone fsst x /\ (forall t, uthr _ x t = UDeqB -> is_poll (cth t)) /\ (forall t, cquiet (cth t) -> uthr _ x t = UIdle).
Definition KF (b : cst ust) : Prop := KcF (q _ b) (cthr _ b).

Lemma Kc_extF x x' cth : uthr _ x' = uthr _ x -> uheld _ x' = uheld _ x -> KcF x cth -> KcF x' cth.
Proof. unfold KcF, allnone. intros -> ->. auto. Qed.

Lemma quiet_cexec_tF (b : cst ust) e : (forall u, cquiet (cthr _ b u) -> uthr _ (q _ b) u = UIdle) ->
  let t := ev_thread e in cquiet (cthr _ (acexec b e) t) -> uthr _ (q _ (acexec b e)) t = UIdle.
Proof.
  intros Kq. destruct e as [t|t o]; cbn [ev_thread cexec]; cbn zeta.
  - unfold cstep. destruct (cthr ust b t) eqn:E; try (rewrite E; intros _; apply Kq; rewrite E; exact I).
    + destruct (uidle fsst _ t) eqn:Hi; [unfold after_send; destruct (qres _ _ _); try destruct (ws _)|]; cbn [q cthr mk];
        rewrite ?upd_same, ?E; intros Hq; try contradiction; apply (uidle_true_inv _ _ _ Hi).
    + destruct (wstep (m ust b) w) as [m' [w'|]]; cbn [q cthr mk]; intros _; apply Kq; rewrite E; exact I.
    + destruct (uidle fsst _ t) eqn:Hi; [unfold after_cons; destruct (qres _ _ _)|]; cbn [q cthr mk];
        rewrite ?upd_same, ?E; intros Hq; try contradiction; apply (uidle_true_inv _ _ _ Hi).
    + destruct (uidle fsst _ t) eqn:Hi; [unfold after_cons; destruct (qres _ _ _)|]; cbn [q cthr mk];
        rewrite ?upd_same, ?E; intros Hq; try contradiction; apply (uidle_true_inv _ _ _ Hi).
    + destruct (keep _ _); unfold setpc, finish; cbn [q cthr mk]; intros _; apply Kq; rewrite E; exact I.
    + destruct r; [destruct (wakers _ _)|destruct (wlock _)| | |]; unfold setpc, finish; cbn [q cthr mk]; intros _; apply Kq; rewrite E; exact I.
    + destruct (notified _ _); cbn [q cthr mk]; intros _; apply Kq; rewrite E; exact I.
    + destruct (j <? k)%nat; unfold setpc, finish; cbn [q cthr mk]; intros _; apply Kq; rewrite E; exact I.
    + cbn [q cthr mk]. intros _; apply Kq; rewrite E; exact I.
    + destruct (wstep (m ust b) w) as [m' [w'|]]; [cbn [q cthr mk]; intros _; apply Kq; rewrite E; exact I|].
      rewrite q_cancel_nextZ. cbn [q mk]. intros _; apply Kq; rewrite E; exact I.
    + destruct (uidle fsst _ t) eqn:Hi; [destruct (qres _ _ _)|]; cbn [q cthr mk];
        rewrite ?upd_same, ?E; intros Hq; try contradiction; apply (uidle_true_inv _ _ _ Hi).
    + destruct (uidle fsst _ t) eqn:Hi; cbn [q cthr mk]; rewrite ?upd_same, ?E; intros Hq; try contradiction; apply (uidle_true_inv _ _ _ Hi).
  - unfold cstart. destruct (cthr ust b t) eqn:E; try (rewrite E; intros Hq; first [contradiction | apply Kq; rewrite E; exact I]).
    destruct o; unfold setpc; cbn [q cthr mk]; rewrite ?upd_same; intros Hq; try contradiction.
    + apply Kq. rewrite E. exact I.
    + rewrite q_cancel_nextZ. apply Kq. rewrite E. exact I.
Qed.

Theorem k_cexecF (b : cst ust) e : KF b ->
  KF (acexec b e) /\ tmvF (ev_thread e) (q _ b) (q _ (acexec b e)) /\ (forall u, u <> ev_thread e -> cthr _ (acexec b e) u = cthr _ b u).
Proof.
  intros (As & Hp & Kq).
  pose proof (tmv_cexecF b e As) as T. pose proof (cthr_cexec_otherF b e) as Co.
  assert (Gb : G fsst (fun _ => True) b) by (split; [exact I|]; split; assumption).
  pose proof (g_cexec fsst (fstepZ N) fstart fsidle flog false (fun b => ftail b - fhead b) M k ws (fun _ => True)
                (fun _ _ _ => I) (fun _ _ _ _ _ => I) (fun _ _ _ => I) b e Gb) as (_ & As' & Hp').
  split; [|split; assumption]. split; [exact As'|]. split; [exact Hp'|].
  intros u Hq. destruct (Nat.eq_dec u (ev_thread e)) as [->|Hn]; [now apply quiet_cexec_tF|].
  rewrite (tmv_uthr_otherF _ _ _ u T Hn). apply Kq. now rewrite <- (Co u Hn).
Qed.

End BaseMovesF.

(* ------------------------------------------------------------------------------------------------ the full-sync instance of the layered machine
   (ghost = unbounded Z counters, as Chan/ChanZInst.zcf_run is for the channel without the reserve API) *)
Definition zxf_run (N : Z) (M k : nat) (ws wr : Z -> option nat) (evs : list zxev) : zxst fsst :=
  fold_left (zxexec fsst (fstepZ N) fstart fsidle flog false (fun b => ftail b - fhead b) M k ws wr) evs (zxinit fsst k (zcf_q0 N)).

(* the id a thread of the layer carries (custody 4, layer part): taken out of the free list and not yet in the table (ZRes), or the
   table entry of its name, not yet put into the ring (ZSRes / ZCRes before the flag-CAS step of the publication) *)
Definition ltranslF (s : zxst fsst) (t : nat) : list Z :=
  lcarF (zthr _ s) (zq _ s) t ++ lentF (zthr _ s) (zres _ s) (zq _ s) t.

Section ZXFConserve.
Variable N : Z.
Hypothesis Npos : 0 < N.
Variable M k : nat.
Variables ws wr : Z -> option nat.
Local Notation ust := (ust fsst).
Local Notation zxst := (zxst fsst).
Local Notation fstp := (fstepZ N).
Local Notation lastres := (lastres fsst flog).
Local Notation zstep := (zxstep fsst (fstepZ N) fstart fsidle flog false (fun b => ftail b - fhead b) M k ws wr).
Local Notation zstart := (zxstart fsst fstart false M).
Local Notation zexec := (zxexec fsst (fstepZ N) fstart fsidle flog false (fun b => ftail b - fhead b) M k ws wr).
Local Notation acexec := (cexec ust (ustep fsst (fstepZ N) fstart fsidle flog false (fun b => ftail b - fhead b)) (ustart fsst fstart false)
                                (uidle fsst) (ulog fsst) (urelease fsst fstart) M k ws).

(* THE DISCIPLINE on reservation names (ChanZXConserve.zxwf, for this instance) *)
Definition zxfwf (s : zxst) (e : zxev) : Prop :=
  match e with
  | ZStart _ (ZoReserve j _) => zres _ s j = None /\ forall u, ~ busy_on (zthr _ s u) j
  | ZStart _ (ZoSendRes j) | ZStart _ (ZoCancelRes j) => at_rest (zthr _ s) j
  | _ => True
  end.
Fixpoint zxfwf_run (s : zxst) (evs : list zxev) : Prop :=
  match evs with [] => True | e :: rest => zxfwf s e /\ zxfwf_run (zexec s e) rest end.
Definition zxf_wf (evs : list zxev) : Prop := zxfwf_run (zxinit fsst k (zcf_q0 N)) evs.

Inductive zxfreach : zxst -> Prop :=
| zxfr_init : zxfreach (zxinit fsst k (zcf_q0 N))
| zxfr_exec s e : zxfreach s -> zxfwf s e -> zxfreach (zexec s e).

Lemma zxfwf_run_reach evs : forall s, zxfreach s -> zxfwf_run s evs -> zxfreach (fold_left zexec evs s).
Proof. induction evs as [|e evs IH]; intros s R W; [exact R|]. destruct W as [W1 W2]. cbn [fold_left]. apply IH; [now apply zxfr_exec|exact W2]. Qed.
Lemma zxf_wf_reach evs : zxf_wf evs -> zxfreach (zxf_run N M k ws wr evs).
Proof. intros W. unfold zxf_run. apply zxfwf_run_reach; [apply zxfr_init|exact W]. Qed.

Definition zmk a b p th l h mm cth cl lt rs lg : zxst :=
  {| zb := mk ust (umk fsst a b p th l h) mm cth cl; zthr := lt; zres := rs; zlog := lg |}.

Record XIF (s : zxst) : Prop := {
  xf_pu : PUF N (zthr _ s) (zres _ s) (zq _ s);
  xf_k : KF (zb _ s);
  xf_lx : forall t, zthr _ s t <> ZN -> cthr _ (zb _ s) t = XIdle;
  xf_uniq : uniq (zthr _ s);
  xf_log : forall t j, ~ In (t, XNotSent j) (zlog _ s)
}.

Ltac zsimp := cbn [zb zthr zres zlog zmk zq q m cthr clog mk ua ub upool uthr ulog uheld umk] in *.

(* a move of thread t inside the layer *)
Lemma xif_layer a b p th l h mm cth cl lt rs lg a' b' p' mm' lt' rs' lg' t j :
  XIF (zmk a b p th l h mm cth cl lt rs lg) ->
  FInv N a' -> FInv N b' -> noFull a' -> noFull b' -> RD a' -> RD b' ->
  (forall u, u <> t -> fthr a' u = fthr a u /\ fthr b' u = fthr b u) ->
  (forall u, u <> t -> lt' u = lt u) ->
  (forall i, i <> j -> rs' i = rs i) ->
  ((forall u, u <> t -> ~ busy_on (lt u) j) \/ rs' j = rs j) ->
  lphaseF (lt' t) rs' (th t) (fthr a' t) (fthr b' t) ->
  Permutation (ldebtF lt' (umk fsst a' b' p' th l h) t ++ finring a ++ finring b ++ lcarF lt (umk fsst a b p th l h) t ++ resl rs j)
              (ldebtF lt (umk fsst a b p th l h) t ++ finring a' ++ finring b' ++ lcarF lt' (umk fsst a' b' p' th l h) t ++ resl rs' j) ->
  th t = UIdle -> cth t = XIdle -> uniq lt' -> (forall u i, ~ In (u, XNotSent i) lg') ->
  XIF (zmk a' b' p' th l h mm' cth cl lt' rs' lg').
Proof.
  intros [Zp Zk Zl Zu Zg] Ia Ib H2a H2b Da Db Hthr Hlt Hrk Hj Hph Hperm Hth Hc Hu Hlog. unfold zq in *. zsimp.
  constructor; unfold zq; zsimp; auto.
  - apply (puf_update N lt rs (umk fsst a b p th l h) lt' rs' a' b' p' th l h t j Zp); zsimp; auto.
    + intros u Hn. destruct (Hthr u Hn). repeat split; auto.
    + intros E. exact (pf_now _ _ _ _ Zp t E).
    + unfold custF, fowned, fheldl, ftransl. zsimp. rewrite Hth. perm_count.
  - intros u Hne. destruct (Nat.eq_dec u t) as [->|Hn]; [exact Hc|]. apply Zl. now rewrite <- (Hlt u Hn).
Qed.

(* an event of the base machine by a thread that is not inside a layer operation *)
Lemma xif_base s e : XIF s -> zthr _ s (ev_thread e) = ZN ->
  XIF {| zb := acexec (zb _ s) e; zthr := zthr _ s; zres := zres _ s; zlog := zlog _ s |}.
Proof.
  intros [Zp Zk Zl Zu Zg] Lt. destruct (k_cexecF N M k ws (zb _ s) e Zk) as (Zk' & T & Co).
  constructor; unfold zq in *; cbn [zb zthr zres zlog]; auto.
  - clear Zk' Co. induction T as [|y T IH|y o T IH Hn|y T IH]; [exact Zp| | |].
    + now apply (puf_step N Npos).
    + apply puf_start; auto.
    + now apply puf_release.
  - intros u Hne. rewrite Co; [now apply Zl|]. intros ->. contradiction.
Qed.

(* ---- the steps of the layer, as rewriting lemmas ---- *)
Ltac zopen E := unfold zxstep, zmk; cbn [zb zthr zres zlog q m cthr clog mk ua ub upool uthr ulog uheld umk]; rewrite E;
  cbn [zb zthr zres zlog q m cthr clog mk ua ub upool uthr ulog uheld umk].
Lemma zf_res_busy a b p th l h mm cth cl lt rs lg t j v : lt t = ZRes j v -> fthr (fstp a t) t <> FIdle ->
  zstep (zmk a b p th l h mm cth cl lt rs lg) t = zmk (fstp a t) b p th l h mm cth cl (upd lt t (ZRes j v)) rs lg.
Proof. intros E Hb. zopen E. rewrite (fsidle_false _ _ Hb). reflexivity. Qed.
Lemma zf_res_got a b p th l h mm cth cl lt rs lg t j v id : lt t = ZRes j v -> fthr (fstp a t) t = FIdle -> lastres (fstp a t) = RGot id ->
  zstep (zmk a b p th l h mm cth cl lt rs lg) t
  = zmk (fstp a t) b (updz p id v) th l h mm cth cl (upd lt t ZN) (upd rs j (Some id)) (lg ++ [(t, XSlot j)]).
Proof. intros E Hb Hl. zopen E. rewrite (fsidle_true' _ _ Hb), Hl. reflexivity. Qed.
Lemma zf_res_none a b p th l h mm cth cl lt rs lg t j v : lt t = ZRes j v -> fthr (fstp a t) t = FIdle -> lastres (fstp a t) = REmpty ->
  zstep (zmk a b p th l h mm cth cl lt rs lg) t = zmk (fstp a t) b p th l h mm cth cl (upd lt t ZN) rs (lg ++ [(t, XNoSlot j)]).
Proof. intros E Hb Hl. zopen E. rewrite (fsidle_true' _ _ Hb), Hl. reflexivity. Qed.
Lemma zf_sres_busy a b p th l h mm cth cl lt rs lg t j id : lt t = ZSRes j id -> fthr (fstp b t) t <> FIdle ->
  zstep (zmk a b p th l h mm cth cl lt rs lg) t = zmk a (fstp b t) p th l h mm cth cl (upd lt t (ZSRes j id)) rs lg.
Proof. intros E Hb. zopen E. rewrite (fsidle_false _ _ Hb). reflexivity. Qed.
Lemma zf_sres_ok a b p th l h mm cth cl lt rs lg t j id w len : lt t = ZSRes j id -> fthr (fstp b t) t = FIdle -> lastres (fstp b t) = ROk w len ->
  zstep (zmk a b p th l h mm cth cl lt rs lg) t
  = match wr len with
    | Some i => zmk a (fstp b t) p th l h mm cth cl (upd lt t (ZSResW j (W0 i))) (upd rs j None) lg
    | None => zmk a (fstp b t) p th l h mm cth cl (upd lt t ZN) (upd rs j None) (lg ++ [(t, XSent j)])
    end.
Proof. intros E Hb Hl. zopen E. rewrite (fsidle_true' _ _ Hb), Hl. destruct (wr len); reflexivity. Qed.
Lemma zf_cres_busy a b p th l h mm cth cl lt rs lg t j : lt t = ZCRes j -> fthr (fstp a t) t <> FIdle ->
  zstep (zmk a b p th l h mm cth cl lt rs lg) t = zmk (fstp a t) b p th l h mm cth cl (upd lt t (ZCRes j)) rs lg.
Proof. intros E Hb. zopen E. rewrite (fsidle_false _ _ Hb). reflexivity. Qed.
Lemma zf_cres_done a b p th l h mm cth cl lt rs lg t j : lt t = ZCRes j -> fthr (fstp a t) t = FIdle ->
  zstep (zmk a b p th l h mm cth cl lt rs lg) t
  = zmk (fstp a t) b p th l h mm cth cl (upd lt t ZN) (upd rs j None) (lg ++ [(t, XCancelled j)]).
Proof. intros E Hb. zopen E. rewrite (fsidle_true' _ _ Hb). reflexivity. Qed.
Lemma zf_wake a b p th l h mm cth cl lt rs lg t j w : lt t = ZSResW j w ->
  zstep (zmk a b p th l h mm cth cl lt rs lg) t
  = match wstep mm w with
    | (m', Some w') => zmk a b p th l h m' cth cl (upd lt t (ZSResW j w')) rs lg
    | (m', None) => zmk a b p th l h m' cth cl (upd lt t ZN) rs (lg ++ [(t, XSent j)])
    end.
Proof. intros E. zopen E. destruct (wstep mm w) as [m' [w'|]]; reflexivity. Qed.
Lemma zf_nop a b p th l h mm cth cl lt rs lg t j : lt t = ZNop j ->
  zstep (zmk a b p th l h mm cth cl lt rs lg) t = zmk a b p th l h mm cth cl (upd lt t ZN) rs (lg ++ [(t, XNone j)]).
Proof. intros E. zopen E. reflexivity. Qed.

Ltac others2 := intros u Hu; rewrite ?(fstp_other N), ?fstart_other, ?upd_other by assumption; auto.
Ltac keepbusy Lt := apply uniq_release; [assumption|intros j' Hj'; rewrite Lt; exact Hj'].
Ltac dropbusy := apply uniq_release; [assumption|intros j' Hj'; destruct Hj'].
Ltac logt Zg := first [exact Zg | apply log_snoc; [exact Zg|discriminate]].
Ltac upd_at Ht := rewrite Ht, upd_same.
Ltac lopen := unfold ldebtF, lcarF, resl; cbn [ua ub umk]; rewrite ?upd_same.
Ltac layer X t j := apply (xif_layer _ _ _ _ _ _ _ _ _ _ _ _ _ _ _ _ _ _ _ t j X).

Theorem xif_step s t : XIF s -> XIF (zstep s t).
Proof.
  intros X. destruct (zthr _ s t) as [|j v|j id|j w|j|j] eqn:Lt.
  - unfold zxstep. rewrite Lt. exact (xif_base s (CStep t) X Lt).
  - (* ZRes j v: inside the allocation *)
    destruct s as [[[a b p th l h] mm cth cl] lt rs lg]. change (XIF (zmk a b p th l h mm cth cl lt rs lg)) in X.
    change (XIF (zstep (zmk a b p th l h mm cth cl lt rs lg) t)). pose proof X as [Zp Zk Zl Zu Zg]. unfold zq in *. zsimp.
    destruct (puf_room N _ _ _ t Zp Zu) as [RoomA RoomB]. zsimp.
    pose proof (pf_ia _ _ _ _ Zp) as Ia. pose proof (pf_ib _ _ _ _ Zp) as Ib. pose proof (pf_ph _ _ _ _ Zp t) as P.
    pose proof (pf_2a _ _ _ _ Zp) as H2a. pose proof (pf_2b _ _ _ _ Zp) as H2b. pose proof (pf_da _ _ _ _ Zp) as Da. pose proof (pf_db _ _ _ _ Zp) as Db. zsimp. rewrite Lt in P. cbn [lphaseF] in P.
    assert (Hc : cth t = XIdle) by (apply Zl; rewrite Lt; discriminate).
    assert (Ia' : FInv N (fstp a t)) by now apply finv_step.
    assert (H2a' : noFull (fstp a t)) by (apply noFull_step; [intros w Hw _; exact (proj1 (RoomA w Hw))|exact H2a]).
    assert (Da' : RD (fstp a t)) by (apply (rd_step N); [exact Ia|intros w Hw; exact (proj1 (RoomA w Hw))|exact Da]).
    destruct P as (Pc & P1 & P2 & P3).
    destruct (fthr a t) as [| | | |r|] eqn:Ea; cbn in P1; try discriminate.
    + destruct (flock a) eqn:El.
      { rewrite (zf_res_busy _ _ _ _ _ _ _ _ _ _ _ _ _ _ _ Lt) by (rewrite (fstep_CL_locked N a t Ea El), Ea; discriminate).
        rewrite (fstep_CL_locked N a t Ea El).
        layer X t j; [assumption|assumption|assumption|assumption|assumption|assumption|auto|others2|auto|now right| | |assumption|assumption|keepbusy Lt|logt Zg].
        - rewrite upd_same. cbn [lphaseF]. rewrite Ea. auto.
        - lopen. rewrite Lt, Ea. reflexivity. }
      destruct (Z_lt_le_dec 0 (ftail a - fhead a)) as [Hlt|Hle].
      * destruct (fstep_CL_got N a t Ia Ea El Hlt) as (Ht & Hp & Hh & Hl).
        rewrite (zf_res_busy _ _ _ _ _ _ _ _ _ _ _ _ _ _ _ Lt) by (upd_at Ht; discriminate).
        layer X t j; [assumption|assumption|assumption|assumption|assumption|assumption|others2|others2|auto|now right| | |assumption|assumption|keepbusy Lt|logt Zg].
        -- rewrite upd_same. cbn [lphaseF]. upd_at Ht. auto.
        -- rewrite (finring_cons N a _ Ia Hp Hh ltac:(lia)). lopen. rewrite Lt, Ea. upd_at Ht. perm_count.
      * destruct (fstep_CL_empty N a t Ea El Hle) as (Ht & Hp & Hh & Hl).
        rewrite (zf_res_busy _ _ _ _ _ _ _ _ _ _ _ _ _ _ _ Lt) by (upd_at Ht; discriminate).
        layer X t j; [assumption|assumption|assumption|assumption|assumption|assumption|others2|others2|auto|now right| | |assumption|assumption|keepbusy Lt|logt Zg].
        -- rewrite upd_same. cbn [lphaseF]. upd_at Ht. auto.
        -- rewrite (finring_same _ _ Hp Hh). lopen. rewrite Lt, Ea. upd_at Ht. reflexivity.
    + destruct (fstep_CU N a t r Ea) as (Ht & Hp & Hh & Hl & _).
      assert (Hi : fthr (fstp a t) t = FIdle) by (now upd_at Ht).
      destruct r as [id|]; cbn [cons_res] in Hl.
      * rewrite (zf_res_got _ _ _ _ _ _ _ _ _ _ _ _ _ _ _ _ Lt Hi (ZcSolo.lastres_snoc _ _ _ _ Hl)).
        layer X t j; [assumption|assumption|assumption|assumption|assumption|assumption|others2|others2|others2| | | |assumption|assumption|dropbusy|logt Zg].
        -- left. intros u Hn Hb. apply Hn. apply (Zu u t j Hb). rewrite Lt. reflexivity.
        -- rewrite upd_same. cbn [lphaseF]. rewrite Pc, Hi, P2. cbn. auto.
        -- rewrite (finring_same _ _ Hp Hh). lopen. rewrite Lt, Ea, P3. perm_count.
      * rewrite (zf_res_none _ _ _ _ _ _ _ _ _ _ _ _ _ _ _ Lt Hi (ZcSolo.lastres_snoc _ _ _ _ Hl)).
        layer X t j; [assumption|assumption|assumption|assumption|assumption|assumption|others2|others2|auto|now right| | |assumption|assumption|dropbusy|logt Zg].
        -- rewrite upd_same. cbn [lphaseF]. rewrite Pc, Hi, P2. cbn. auto.
        -- rewrite (finring_same _ _ Hp Hh). lopen. rewrite Lt, Ea. reflexivity.
  - (* ZSRes j id: inside the publication of the reserved id *)
    destruct s as [[[a b p th l h] mm cth cl] lt rs lg]. change (XIF (zmk a b p th l h mm cth cl lt rs lg)) in X.
    change (XIF (zstep (zmk a b p th l h mm cth cl lt rs lg) t)). pose proof X as [Zp Zk Zl Zu Zg]. unfold zq in *. zsimp.
    destruct (puf_room N _ _ _ t Zp Zu) as [RoomA RoomB]. zsimp.
    pose proof (pf_ia _ _ _ _ Zp) as Ia. pose proof (pf_ib _ _ _ _ Zp) as Ib. pose proof (pf_ph _ _ _ _ Zp t) as P.
    pose proof (pf_2a _ _ _ _ Zp) as H2a. pose proof (pf_2b _ _ _ _ Zp) as H2b. pose proof (pf_da _ _ _ _ Zp) as Da. pose proof (pf_db _ _ _ _ Zp) as Db. zsimp. rewrite Lt in P. cbn [lphaseF] in P.
    assert (Hc : cth t = XIdle) by (apply Zl; rewrite Lt; discriminate).
    assert (Ib' : FInv N (fstp b t)) by now apply finv_step.
    assert (H2b' : noFull (fstp b t)) by (apply noFull_step; [intros w Hw _; exact (proj1 (RoomB w Hw))|exact H2b]).
    assert (Db' : RD (fstp b t)) by (apply (rd_step N); [exact Ib|intros w Hw; exact (proj1 (RoomB w Hw))|exact Db]).
    destruct P as (Pc & P1 & P2 & P3).
    destruct (fthr b t) as [|w|w r| | |] eqn:Eb; cbn in P2; try discriminate; injection P2 as ->.
    + destruct (flock b) eqn:El.
      { rewrite (zf_sres_busy _ _ _ _ _ _ _ _ _ _ _ _ _ _ _ Lt) by (rewrite (fstep_PL_locked N b t id Eb El), Eb; discriminate).
        rewrite (fstep_PL_locked N b t id Eb El).
        layer X t j; [assumption|assumption|assumption|assumption|assumption|assumption|auto|others2|auto|now right| | |assumption|assumption|keepbusy Lt|logt Zg].
        - rewrite upd_same. cbn [lphaseF]. rewrite Eb. auto.
        - lopen. rewrite Lt, Eb. reflexivity. }
      destruct (fstep_PL_ok N b t id Eb El (proj1 (RoomB id eq_refl))) as (Ht & Hp & Hh & Hl).
      rewrite (zf_sres_busy _ _ _ _ _ _ _ _ _ _ _ _ _ _ _ Lt) by (upd_at Ht; discriminate).
      layer X t j; [assumption|assumption|assumption|assumption|assumption|assumption|others2|others2|auto|now right| | |assumption|assumption|keepbusy Lt|logt Zg].
      * rewrite upd_same. cbn [lphaseF]. upd_at Ht. auto.
      * rewrite (finring_pub N b _ id Ib Hp Hh). lopen. rewrite Lt, Eb. upd_at Ht. perm_count.
    + destruct r as [len|]; [|exfalso; exact (H2b t _ Eb)].
      destruct (fstep_PU N b t id _ Eb) as (Ht & Hp & Hh & Hl & _). cbn [pub_res] in Hl.
      assert (Hi : fthr (fstp b t) t = FIdle) by (now upd_at Ht).
      rewrite (zf_sres_ok _ _ _ _ _ _ _ _ _ _ _ _ _ _ _ _ _ Lt Hi (ZcSolo.lastres_snoc _ _ _ _ Hl)).
      destruct (wr len) as [i|].
      * layer X t j; [assumption|assumption|assumption|assumption|assumption|assumption|others2|others2|others2| | | |assumption|assumption|dropbusy|logt Zg].
        -- left. intros u Hn Hb. apply Hn. apply (Zu u t j Hb). rewrite Lt. reflexivity.
        -- rewrite upd_same. cbn [lphaseF]. auto.
        -- rewrite (finring_same _ _ Hp Hh). lopen. rewrite Lt, Eb, P3. perm_count.
      * layer X t j; [assumption|assumption|assumption|assumption|assumption|assumption|others2|others2|others2| | | |assumption|assumption|dropbusy|logt Zg].
        -- left. intros u Hn Hb. apply Hn. apply (Zu u t j Hb). rewrite Lt. reflexivity.
        -- rewrite upd_same. cbn [lphaseF]. rewrite Pc. cbn. auto.
        -- rewrite (finring_same _ _ Hp Hh). lopen. rewrite Lt, Eb, P3. perm_count.
  - (* ZSResW j w: inside wake_stream *)
    destruct s as [[[a b p th l h] mm cth cl] lt rs lg]. change (XIF (zmk a b p th l h mm cth cl lt rs lg)) in X.
    change (XIF (zstep (zmk a b p th l h mm cth cl lt rs lg) t)). pose proof X as [Zp Zk Zl Zu Zg]. unfold zq in *. zsimp.
    pose proof (pf_ia _ _ _ _ Zp) as Ia. pose proof (pf_ib _ _ _ _ Zp) as Ib. pose proof (pf_ph _ _ _ _ Zp t) as P.
    pose proof (pf_2a _ _ _ _ Zp) as H2a. pose proof (pf_2b _ _ _ _ Zp) as H2b. pose proof (pf_da _ _ _ _ Zp) as Da. pose proof (pf_db _ _ _ _ Zp) as Db. zsimp. rewrite Lt in P. cbn [lphaseF] in P.
    assert (Hc : cth t = XIdle) by (apply Zl; rewrite Lt; discriminate).
    destruct P as (Pc & P1 & P2).
    rewrite (zf_wake _ _ _ _ _ _ _ _ _ _ _ _ _ _ _ Lt). destruct (wstep mm w) as [m' [w'|]].
    + layer X t j; [assumption|assumption|assumption|assumption|assumption|assumption|auto|others2|auto|now right| | |assumption|assumption|dropbusy|logt Zg].
      * rewrite upd_same. cbn [lphaseF]. auto.
      * lopen. rewrite Lt. reflexivity.
    + layer X t j; [assumption|assumption|assumption|assumption|assumption|assumption|auto|others2|auto|now right| | |assumption|assumption|dropbusy|logt Zg].
      * rewrite upd_same. cbn [lphaseF]. rewrite Pc. cbn. auto.
      * lopen. rewrite Lt. reflexivity.
  - (* ZCRes j: inside the give-back of the reserved id *)
    destruct s as [[[a b p th l h] mm cth cl] lt rs lg]. change (XIF (zmk a b p th l h mm cth cl lt rs lg)) in X.
    change (XIF (zstep (zmk a b p th l h mm cth cl lt rs lg) t)). pose proof X as [Zp Zk Zl Zu Zg]. unfold zq in *. zsimp.
    destruct (puf_room N _ _ _ t Zp Zu) as [RoomA RoomB]. zsimp.
    pose proof (pf_ia _ _ _ _ Zp) as Ia. pose proof (pf_ib _ _ _ _ Zp) as Ib. pose proof (pf_ph _ _ _ _ Zp t) as P.
    pose proof (pf_2a _ _ _ _ Zp) as H2a. pose proof (pf_2b _ _ _ _ Zp) as H2b. pose proof (pf_da _ _ _ _ Zp) as Da. pose proof (pf_db _ _ _ _ Zp) as Db. zsimp. rewrite Lt in P. cbn [lphaseF] in P.
    assert (Hc : cth t = XIdle) by (apply Zl; rewrite Lt; discriminate).
    assert (Ia' : FInv N (fstp a t)) by now apply finv_step.
    assert (H2a' : noFull (fstp a t)) by (apply noFull_step; [intros w Hw _; exact (proj1 (RoomA w Hw))|exact H2a]).
    assert (Da' : RD (fstp a t)) by (apply (rd_step N); [exact Ia|intros w Hw; exact (proj1 (RoomA w Hw))|exact Da]).
    destruct P as (Pc & (id & P1 & P3) & P2).
    destruct (fthr a t) as [|w|w r| | |] eqn:Ea; cbn in P1; try discriminate; injection P1 as ->.
    + destruct (flock a) eqn:El.
      { rewrite (zf_cres_busy _ _ _ _ _ _ _ _ _ _ _ _ _ _ Lt) by (rewrite (fstep_PL_locked N a t id Ea El), Ea; discriminate).
        rewrite (fstep_PL_locked N a t id Ea El).
        layer X t j; [assumption|assumption|assumption|assumption|assumption|assumption|auto|others2|auto|now right| | |assumption|assumption|keepbusy Lt|logt Zg].
        - rewrite upd_same. cbn [lphaseF]. rewrite Ea. cbn [fpval]. eauto 6.
        - lopen. rewrite Lt, Ea. reflexivity. }
      destruct (fstep_PL_ok N a t id Ea El (proj1 (RoomA id eq_refl))) as (Ht & Hp & Hh & Hl).
      rewrite (zf_cres_busy _ _ _ _ _ _ _ _ _ _ _ _ _ _ Lt) by (upd_at Ht; discriminate).
      layer X t j; [assumption|assumption|assumption|assumption|assumption|assumption|others2|others2|auto|now right| | |assumption|assumption|keepbusy Lt|logt Zg].
      * rewrite upd_same. cbn [lphaseF]. upd_at Ht. cbn [fpval]. eauto 6.
      * rewrite (finring_pub N a _ id Ia Hp Hh). lopen. rewrite Lt, Ea. upd_at Ht. perm_count.
    + destruct r as [len|]; [|exfalso; exact (H2a t _ Ea)].
      destruct (fstep_PU N a t id _ Ea) as (Ht & Hp & Hh & Hl & _).
      assert (Hi : fthr (fstp a t) t = FIdle) by (now upd_at Ht).
      rewrite (zf_cres_done _ _ _ _ _ _ _ _ _ _ _ _ _ _ Lt Hi).
      layer X t j; [assumption|assumption|assumption|assumption|assumption|assumption|others2|others2|others2| | | |assumption|assumption|dropbusy|logt Zg].
      * left. intros u Hn Hb. apply Hn. apply (Zu u t j Hb). rewrite Lt. reflexivity.
      * rewrite upd_same. cbn [lphaseF]. rewrite Pc, Hi, P2. cbn. auto.
      * rewrite (finring_same _ _ Hp Hh). lopen. rewrite Lt, Ea, P3. perm_count.
  - (* ZNop j *)
    destruct s as [[[a b p th l h] mm cth cl] lt rs lg]. change (XIF (zmk a b p th l h mm cth cl lt rs lg)) in X.
    change (XIF (zstep (zmk a b p th l h mm cth cl lt rs lg) t)). pose proof X as [Zp Zk Zl Zu Zg]. unfold zq in *. zsimp.
    pose proof (pf_ia _ _ _ _ Zp) as Ia. pose proof (pf_ib _ _ _ _ Zp) as Ib. pose proof (pf_ph _ _ _ _ Zp t) as P.
    pose proof (pf_2a _ _ _ _ Zp) as H2a. pose proof (pf_2b _ _ _ _ Zp) as H2b. pose proof (pf_da _ _ _ _ Zp) as Da. pose proof (pf_db _ _ _ _ Zp) as Db. zsimp. rewrite Lt in P. cbn [lphaseF] in P.
    assert (Hc : cth t = XIdle) by (apply Zl; rewrite Lt; discriminate).
    destruct P as (Pc & P1 & P2).
    rewrite (zf_nop _ _ _ _ _ _ _ _ _ _ _ _ _ _ Lt).
    layer X t j; [assumption|assumption|assumption|assumption|assumption|assumption|auto|others2|auto|now right| | |assumption|assumption|dropbusy|logt Zg].
    + rewrite upd_same. cbn [lphaseF]. rewrite Pc. cbn. auto.
    + lopen. rewrite Lt. reflexivity.
Qed.

(* a name at rest with an entry: nobody is operating on it at all *)
Lemma rest_freeF lt rs x j id : PUF N lt rs x -> at_rest lt j -> rs j = Some id -> forall u, ~ busy_on (lt u) j.
Proof.
  intros Zp Hr E u Hb. pose proof (pf_ph _ _ _ _ Zp u) as P. specialize (Hr u).
  destruct (lt u); cbn [busy_on opname lphaseF] in *; try contradiction; subst.
  - destruct P as (_ & _ & _ & P). congruence.
  - now apply Hr.
  - now apply Hr.
Qed.

(* ---- the beginning of an operation, under the discipline ---- *)
Theorem xif_start s t o : XIF s -> zxfwf s (ZStart t o) -> XIF (zstart s t o).
Proof.
  intros X W. unfold zxstart. destruct (zthr _ s t) eqn:Lt; try exact X. destruct (cthr _ (zb _ s) t) eqn:Ec; try exact X.
  destruct o as [o'|j v|j|j]; [exact (xif_base s (CStart t o') X Lt)| | |].
  all: destruct s as [[[a b p th l h] mm cth cl] lt rs lg]; change (XIF (zmk a b p th l h mm cth cl lt rs lg)) in X;
    pose proof X as [Zp Zk Zl Zu Zg]; unfold zq, zxfwf in *; zsimp;
    pose proof (pf_ph _ _ _ _ Zp t) as P; pose proof (pf_ia _ _ _ _ Zp) as Ia; pose proof (pf_ib _ _ _ _ Zp) as Ib;
    pose proof (pf_2a _ _ _ _ Zp) as H2a; pose proof (pf_2b _ _ _ _ Zp) as H2b; pose proof (pf_da _ _ _ _ Zp) as Da; pose proof (pf_db _ _ _ _ Zp) as Db; zsimp; rewrite Lt in P; cbn [lphaseF] in P;
    assert (Pc : th t = UIdle) by (destruct Zk as (_ & _ & Kq); apply Kq; cbn [cthr mk]; rewrite Ec; exact I);
    rewrite Pc in P; cbn [fphase_of] in P; destruct P as [P1 P2].
  - (* reserve j v: the allocation begins *)
    destruct W as [Wn Wf].
    change (XIF (zmk (fstart a t OpCons) b p th l h mm cth cl (upd lt t (ZRes j v)) rs lg)).
    pose proof (fstart_idle a t OpCons P1) as S0. destruct (fstart_frame a t OpCons) as [Sp Sh].
    layer X t j; [now apply finv_start|assumption|now apply noFull_start|assumption|now apply rd_start|assumption|others2|others2|auto|now right| | |assumption|assumption| |exact Zg].
    + rewrite upd_same. cbn [lphaseF]. rewrite S0. auto.
    + rewrite (finring_same _ _ Sp Sh). lopen. rewrite Lt, S0. reflexivity.
    + apply uniq_acquire; [assumption|]. intros j' Hb. cbn in Hb. subst j'. exact Wf.
  - (* send j *)
    cbn [zgoto zsetq with_b zb zthr zres zlog q m cthr clog mk ua ub upool uthr ulog uheld umk].
    destruct (rs j) as [id|] eqn:Er.
    + change (XIF (zmk a (fstart b t (OpPub id)) p th l h mm cth cl (upd lt t (ZSRes j id)) rs lg)).
      pose proof (fstart_idle b t (OpPub id) P2) as S0. destruct (fstart_frame b t (OpPub id)) as [Sp Sh].
      layer X t j; [assumption|now apply finv_start|assumption|now apply noFull_start|assumption|now apply rd_start|others2|others2|auto|now right| | |assumption|assumption| |exact Zg].
      * rewrite upd_same. cbn [lphaseF]. rewrite S0. auto.
      * rewrite (finring_same _ _ Sp Sh). lopen. rewrite Lt, S0. reflexivity.
      * apply uniq_acquire; [assumption|]. intros j' Hb. cbn in Hb. subst j'. exact (rest_freeF _ _ _ _ _ Zp W Er).
    + change (XIF (zmk a b p th l h mm cth cl (upd lt t (ZNop j)) rs lg)).
      layer X t j; [assumption|assumption|assumption|assumption|assumption|assumption|auto|others2|auto|now right| | |assumption|assumption|dropbusy|exact Zg].
      * rewrite upd_same. cbn [lphaseF]. auto.
      * lopen. rewrite Lt. reflexivity.
  - (* cancel j *)
    cbn [zgoto zsetq with_a zb zthr zres zlog q m cthr clog mk ua ub upool uthr ulog uheld umk].
    destruct (rs j) as [id|] eqn:Er.
    + change (XIF (zmk (fstart a t (OpPub id)) b p th l h mm cth cl (upd lt t (ZCRes j)) rs lg)).
      pose proof (fstart_idle a t (OpPub id) P1) as S0. destruct (fstart_frame a t (OpPub id)) as [Sp Sh].
      layer X t j; [now apply finv_start|assumption|now apply noFull_start|assumption|now apply rd_start|assumption|others2|others2|auto|now right| | |assumption|assumption| |exact Zg].
      * rewrite upd_same. cbn [lphaseF]. rewrite S0. split; [assumption|]. split; [exists id; auto|assumption].
      * rewrite (finring_same _ _ Sp Sh). lopen. rewrite Lt, S0. reflexivity.
      * apply uniq_acquire; [assumption|]. intros j' Hb. cbn in Hb. subst j'. exact (rest_freeF _ _ _ _ _ Zp W Er).
    + change (XIF (zmk a b p th l h mm cth cl (upd lt t (ZNop j)) rs lg)).
      layer X t j; [assumption|assumption|assumption|assumption|assumption|assumption|auto|others2|auto|now right| | |assumption|assumption|dropbusy|exact Zg].
      * rewrite upd_same. cbn [lphaseF]. auto.
      * lopen. rewrite Lt. reflexivity.
Qed.

(* ---- the initial state ---- *)
Lemma puf_of_zif x : ZIF N x -> RD (ua _ x) -> RD (ub _ x) -> PUF N (fun _ => ZN) (fun _ => None) x.
Proof.
  intros Z Da Db. constructor; [apply Z|apply Z|intros t; exact (zf_ph _ _ Z t)|apply Z|apply Z|exact Da|exact Db|apply Z|].
  destruct (zf_cons _ _ Z) as (ths & Hn & Ho & Hp).
  exists ths, []. split; [exact Hn|]. split; [constructor|]. split; [|split; [reflexivity|]].
  - intros t Ht. destruct (Ho t Ht) as [E1 E2]. unfold custF, fowned, lcarF. rewrite E1, E2. auto.
  - rewrite (flat_map_nil (ldebtF (fun _ => ZN) x) ths) by reflexivity. cbn [flat_map]. rewrite !app_nil_r.
    rewrite Hp. do 2 apply Permutation_app_head.
    change (flat_map (custF (fun _ => ZN) x) ths) with (flat_map (fun t => (fheldl x t ++ ftransl x t) ++ []) ths).
    rewrite (flat_map_ext (fun t => (fheldl x t ++ ftransl x t) ++ []) (fun t => fheldl x t ++ ftransl x t)) by (intros; apply app_nil_r).
    symmetry. apply flat_map_app_perm.
Qed.

Theorem xif_init : XIF (zxinit fsst k (zcf_q0 N)).
Proof.
  constructor; unfold zxinit, zq; cbn [zb zthr zres zlog cinit q cthr].
  - apply puf_of_zif; [apply (zif_init N Npos)| |].
    + destruct (fl0_state_fs N Npos) as (_ & [A2 _] & _ & _). intros t w len E. cbn [ua zcf_q0] in E. rewrite A2 in E. discriminate.
    + intros t w len E. cbn in E. discriminate.
  - split; [intros t; reflexivity|]. split; [intros t E; discriminate|intros t _; reflexivity].
  - intros t H. contradiction.
  - intros t t' j H. destruct H.
  - intros t j [].
Qed.

Theorem zxfreach_XIF s : zxfreach s -> XIF s.
Proof. induction 1 as [|s e R IH W]; [exact xif_init|]. destruct e as [t|t o]; cbn [zxexec]; [now apply xif_step|now apply xif_start]. Qed.

(* ------------------------------------------------------------------------------------------------ results, for the states of well-formed runs *)
Local Notation A s := (ua fsst (zq fsst s)).
Local Notation B s := (ub fsst (zq fsst s)).

(* MAIN: the five places *)
Theorem xif_five s : XIF s ->
  exists ths ks, NoDup ths /\ NoDup ks /\
    (forall t, ~ In t ths -> fheldl (zq _ s) t = [] /\ ftransl (zq _ s) t = [] /\ ltranslF s t = []) /\
    (forall j, In j ks <-> (exists id, zres _ s j = Some id) /\ at_rest (zthr _ s) j) /\
    Permutation (ids_upto N)
      (finring (A s) ++ finring (B s) ++ flat_map (fheldl (zq _ s)) ths ++ flat_map (ftransl (zq _ s)) ths
       ++ flat_map (ltranslF s) ths ++ flat_map (resl (zres _ s)) ks).
Proof.
  intros [Zp Zk Zl Zu Zg]. destruct (puf_five N _ _ _ Zp Zu) as (ths & ks & Hn & Hk & Ho & Hm & Hp).
  exists ths, ks. split; [exact Hn|]. split; [exact Hk|]. split; [|split; [exact Hm|]].
  - intros t Ht. destruct (Ho t Ht) as [E1 E2]. unfold custF, fowned in E1. apply app_eq_nil in E1. destruct E1 as [E1 E3].
    apply app_eq_nil in E1. destruct E1 as [E0 E1]. split; [exact E0|]. split; [exact E1|]. unfold ltranslF. now rewrite E3, E2.
  - set (x := zq _ s) in *. set (lt := zthr _ s) in *. set (rs := zres _ s) in *.
    pose proof (flat_map_app_perm (fowned x) (lcarF lt x) ths) as H1.
    pose proof (flat_map_app_perm (fheldl x) (ftransl x) ths) as H2.
    pose proof (flat_map_app_perm (lcarF lt x) (lentF lt rs x) ths) as H3.
    change (flat_map (custF lt x) ths) with (flat_map (fun t => fowned x t ++ lcarF lt x t) ths) in Hp.
    change (flat_map (fun t => fheldl x t ++ ftransl x t) ths) with (flat_map (fowned x) ths) in H2.
    change (flat_map (ltranslF s) ths) with (flat_map (fun t => lcarF lt x t ++ lentF lt rs x t) ths).
    perm_count.
Qed.

Lemma xif_allnone s : XIF s -> forall t, uheld _ (zq _ s) t = None.
Proof. intros X. exact (proj1 (xf_k _ X)). Qed.

(* the id of a name RESERVED AND AT REST: in range, in neither ring, in nobody's custody, not the entry of another name at rest; and
   the two rings together hold fewer than N ids *)
Lemma rest_entry_exclusive s j id : XIF s -> zres _ s j = Some id -> at_rest (zthr _ s) j ->
  0 <= id < N /\ (ftail (A s) - fhead (A s)) + (ftail (B s) - fhead (B s)) < N /\
  ~ In id (finring (A s)) /\ ~ In id (finring (B s)) /\
  (forall t, ~ In id (fheldl (zq _ s) t)) /\ (forall t, ~ In id (ftransl (zq _ s) t)) /\ (forall t, ~ In id (ltranslF s t)) /\
  (forall j', zres _ s j' = Some id -> at_rest (zthr _ s) j' -> j' = j).
Proof.
  intros X E Hrest. destruct (xif_five s X) as (ths & ks & Hn & Hk & Ho & Hm & Hp). pose proof X as [Zp _ _ _ _].
  pose proof (finring_length N _ (pf_ia _ _ _ _ Zp)) as La. pose proof (finring_length N _ (pf_ib _ _ _ _ Zp)) as Lb.
  assert (Hks : forall i, zres _ s i = Some id -> at_rest (zthr _ s) i -> In i ks) by (intros i Ei Ri; apply Hm; eauto).
  assert (HR : In id (flat_map (resl (zres _ s)) ks)).
  { apply in_flat_map. exists j. split; [now apply Hks|]. unfold resl. rewrite E. now left. }
  pose proof (Permutation_NoDup Hp (ids_upto_nodup N)) as Hd.
  set (Hl := flat_map (fheldl (zq _ s)) ths) in *. set (Tl := flat_map (ftransl (zq _ s)) ths) in *.
  set (Ll := flat_map (ltranslF s) ths) in *. set (R := flat_map (resl (zres _ s)) ks) in *.
  assert (Hin : In id (Hl ++ Tl ++ Ll ++ R)) by (apply in_or_app; right; apply in_or_app; right; apply in_or_app; now right).
  destruct (perm_room N _ _ _ id Hp Hin) as (H1 & H2 & H3 & H4).
  pose proof (nodup_app_r _ _ (nodup_app_r _ _ Hd)) as Hd3. pose proof (nodup_app_r _ _ Hd3) as Hd4. pose proof (nodup_app_r _ _ Hd4) as Hd5.
  split; [exact H2|]. split; [lia|]. split; [exact H3|]. split; [exact H4|]. split; [|split; [|split]].
  - intros t Ht. apply (nodup_app_disj _ _ id Hd3); [|apply in_or_app; right; apply in_or_app; now right].
    apply in_flat_map. exists t. split; [|exact Ht].
    destruct (in_dec Nat.eq_dec t ths) as [|Hnin]; [assumption|]. rewrite (proj1 (Ho t Hnin)) in Ht. destruct Ht.
  - intros t Ht. apply (nodup_app_disj _ _ id Hd4); [|apply in_or_app; now right].
    apply in_flat_map. exists t. split; [|exact Ht].
    destruct (in_dec Nat.eq_dec t ths) as [|Hnin]; [assumption|]. rewrite (proj1 (proj2 (Ho t Hnin))) in Ht. destruct Ht.
  - intros t Ht. apply (nodup_app_disj _ _ id Hd5); [|exact HR].
    apply in_flat_map. exists t. split; [|exact Ht].
    destruct (in_dec Nat.eq_dec t ths) as [|Hnin]; [assumption|]. rewrite (proj2 (proj2 (Ho t Hnin))) in Ht. destruct Ht.
  - intros j' E' R'. apply nodup_app_r in Hd5.
    apply (nodup_flat_map_owner (resl (zres _ s)) ks j' j id Hd5 (Hks _ E' R') (Hks _ E Hrest)); unfold resl; [rewrite E'|rewrite E]; now left.
Qed.

(* COROLLARY 1: no leak.  Nothing in progress: the two rings hold all the ids but the reserved ones *)
Theorem xif_no_leak s : XIF s -> (forall t, cthr _ (zb _ s) t = XIdle) -> (forall t, zthr _ s t = ZN) ->
  exists ks, NoDup ks /\ (forall j, In j ks <-> exists id, zres _ s j = Some id) /\
    (ftail (A s) - fhead (A s)) + (ftail (B s) - fhead (B s)) = N - Z.of_nat (length ks) /\
    Permutation (ids_upto N) (finring (A s) ++ finring (B s) ++ flat_map (resl (zres _ s)) ks).
Proof.
  intros X Hc Hl. destruct (xif_five s X) as (ths & ks & Hn & Hk & Ho & Hm & Hp). pose proof X as [Zp Zk _ _ _].
  pose proof (finring_length N _ (pf_ia _ _ _ _ Zp)) as La. pose proof (finring_length N _ (pf_ib _ _ _ _ Zp)) as Lb.
  assert (Hm' : forall j, In j ks <-> exists id, zres _ s j = Some id).
  { intros j. rewrite Hm. split; [intros [H _]; exact H|]. intros H. split; [exact H|]. intros t. rewrite Hl. discriminate. }
  assert (Hp' : Permutation (ids_upto N) (finring (A s) ++ finring (B s) ++ flat_map (resl (zres _ s)) ks)).
  { rewrite (flat_map_nil (fheldl (zq _ s)) ths), (flat_map_nil (ftransl (zq _ s)) ths), (flat_map_nil (ltranslF s) ths) in Hp; [exact Hp| | |].
    - intros t. unfold ltranslF, lcarF, lentF. now rewrite Hl.
    - intros t. unfold ftransl. destruct Zk as (_ & _ & Kq). unfold zq. rewrite (Kq t); [reflexivity|]. rewrite Hc. exact I.
    - intros t. unfold fheldl. now rewrite (xif_allnone s X t). }
  exists ks. split; [exact Hk|]. split; [exact Hm'|]. split; [|exact Hp'].
  pose proof (length_entries (zres _ s) ks (fun j Hj => proj1 (Hm' j) Hj)) as Hlen.
  apply Permutation_length in Hp'. rewrite !app_length, Hlen in Hp'. unfold ids_upto in Hp'. rewrite map_length, seq_length in Hp'. lia.
Qed.

(* COROLLARY 2: a reservation at rest is exclusive *)
Theorem xif_reserved_exclusive s : XIF s ->
  (forall j j' id, zres _ s j = Some id -> zres _ s j' = Some id -> at_rest (zthr _ s) j -> at_rest (zthr _ s) j' -> j = j') /\
  (forall j id, zres _ s j = Some id -> at_rest (zthr _ s) j ->
     0 <= id < N /\ ~ In id (finring (A s)) /\ ~ In id (finring (B s)) /\
     (forall t, uheld _ (zq _ s) t <> Some id) /\ (forall t, ~ In id (ftransl (zq _ s) t)) /\ (forall t, ~ In id (ltranslF s t))).
Proof.
  intros X. split.
  - intros j j' id E E' R R'. destruct (rest_entry_exclusive s j' id X E' R') as (_ & _ & _ & _ & _ & _ & _ & H). exact (H j E R).
  - intros j id E R. destruct (rest_entry_exclusive s j id X E R) as (Hr & _ & Ha & Hb & Hh & Ht & Hl & _).
    split; [exact Hr|]. split; [exact Ha|]. split; [exact Hb|]. split; [|split; assumption].
    intros t. rewrite (xif_allnone s X t). discriminate.
Qed.

(* where the id of a name with an entry is: reserved at rest / carried by the thread operating on the name / already put into a ring by it *)
Lemma find_opn (opn : nat -> option nat) ths j : (exists t, In t ths /\ opn t = Some j) \/ (forall t, In t ths -> opn t <> Some j).
Proof.
  induction ths as [|a ths IH]; [right; intros t []|]. destruct IH as [(t & Ht & E)|IH]; [left; exists t; split; [now right|exact E]|].
  destruct (opn a) as [i|] eqn:Ea.
  - destruct (Nat.eq_dec i j) as [->|Hn]; [left; exists a; split; [now left|exact Ea]|].
    right. intros t [<-|Ht]; [rewrite Ea; congruence|now apply IH].
  - right. intros t [<-|Ht]; [rewrite Ea; discriminate|now apply IH].
Qed.

Lemma entry_where s j id : XIF s -> zres _ s j = Some id ->
  at_rest (zthr _ s) j \/
  (exists t, opname (zthr _ s t) = Some j /\ (In id (lentF (zthr _ s) (zres _ s) (zq _ s) t) \/ In id (ldebtF (zthr _ s) (zq _ s) t))).
Proof.
  intros X E. pose proof X as [Zp _ _ _ _]. destruct (pf_cons _ _ _ _ Zp) as (ths & ks & _ & _ & Ho & _ & _).
  destruct (find_opn (fun t => opname (zthr _ s t)) ths j) as [(t & _ & Et)|Hno].
  - right. exists t. split; [exact Et|]. pose proof (lent_debt N _ _ _ t Zp) as Hp. rewrite Et in Hp. unfold resl in Hp. rewrite E in Hp.
    apply in_app_or. apply (Permutation_in _ Hp). now left.
  - left. intros t. destruct (in_dec Nat.eq_dec t ths) as [Hi|Hni]; [now apply Hno|]. destruct (Ho t Hni) as (_ & _ & ->). discriminate.
Qed.

(* COROLLARY 2': two names never hold the same id, and the id of ANY name with an entry (at rest or in progress) is a slot id that is
   neither held nor in transit in the base machine *)
Theorem xif_entries_exclusive s : XIF s ->
  (forall j j' id, zres _ s j = Some id -> zres _ s j' = Some id -> j = j') /\
  (forall j id, zres _ s j = Some id ->
     0 <= id < N /\ (forall t, uheld _ (zq _ s) t <> Some id) /\ (forall t, ~ In id (ftransl (zq _ s) t))).
Proof.
  intros X. destruct (xif_five s X) as (ths & ks & Hn & Hk & Ho & Hm & Hp). pose proof X as [Zp _ _ Zu _].
  pose proof (Permutation_NoDup Hp (ids_upto_nodup N)) as Hd.
  set (lt := zthr _ s) in *. set (rs := zres _ s) in *. set (x := zq _ s) in *.
  set (Hl := flat_map (fheldl x) ths) in *. set (Tl := flat_map (ftransl x) ths) in *.
  set (Ll := flat_map (ltranslF s) ths) in *. set (R := flat_map (resl rs) ks) in *.
  pose proof (nodup_app_r _ _ (nodup_app_r _ _ (nodup_app_r _ _ (nodup_app_r _ _ Hd)))) as HdL.
  pose proof (nodup_app_r _ _ HdL) as HdR. pose proof (nodup_app_l _ _ HdL) as HdLl.
  assert (Hths : forall t v, In v (ltranslF s t) -> In t ths).
  { intros t v Hv. destruct (in_dec Nat.eq_dec t ths) as [|Hnin]; [assumption|]. rewrite (proj2 (proj2 (Ho t Hnin))) in Hv. destruct Hv. }
  (* the three locations *)
  assert (W1 : forall j id, rs j = Some id -> at_rest lt j -> In j ks /\ In id R).
  { intros j id E Hr. assert (Hj : In j ks) by (apply Hm; eauto). split; [exact Hj|]. apply in_flat_map. exists j. split; [exact Hj|]. unfold resl. rewrite E. now left. }
  assert (W2 : forall t id, In id (lentF lt rs x t) -> In t ths /\ In id (ltranslF s t) /\ In id Ll).
  { intros t id Hi. assert (Hi' : In id (ltranslF s t)) by (unfold ltranslF; apply in_or_app; now right).
    split; [exact (Hths _ _ Hi')|]. split; [exact Hi'|]. apply in_flat_map. exists t. split; [exact (Hths _ _ Hi')|exact Hi']. }
  assert (W3 : forall t id, In id (ldebtF lt x t) ->
             (In id (finring (ua _ x)) /\ holds_lock (fthr (ua _ x) t) = true /\ holds_lock (fthr (ub _ x) t) = false) \/
             (In id (finring (ub _ x)) /\ holds_lock (fthr (ub _ x) t) = true /\ holds_lock (fthr (ua _ x) t) = false)).
  { intros t id Hi. pose proof (pf_ph _ _ _ _ Zp t) as P. fold lt rs x in P. unfold ldebtF in Hi.
    destruct (lt t); cbn [lphaseF] in P; try (destruct Hi; fail).
    - right. destruct P as (_ & P1 & P2 & _). destruct (fthr (ub _ x) t) as [| |w [len|]| | |] eqn:Eb; try (destruct Hi; fail).
      destruct Hi as [<-|[]]. cbn in P2. injection P2 as ->. split; [exact (pf_db _ _ _ _ Zp t _ _ Eb)|]. rewrite P1. auto.
    - left. destruct P as (_ & _ & P2). destruct (fthr (ua _ x) t) as [| |w [len|]| | |] eqn:Ea; try (destruct Hi; fail).
      destruct Hi as [<-|[]]. split; [exact (pf_da _ _ _ _ Zp t _ _ Ea)|]. rewrite P2. auto. }
  pose proof (fun id => proj1 (NoDup_count_occ Z.eq_dec _) Hd id) as Hc.
  assert (Hpos : forall (l : list Z) v, In v l -> (0 < count_occ Z.eq_dec l v)%nat) by (intros l v; apply (count_occ_In Z.eq_dec)).
  split.
  - intros j j' id E E'. specialize (Hc id). rewrite !count_occ_app in Hc.
    destruct (entry_where s j id X E) as [Hr|(t & Et & Hw)]; destruct (entry_where s j' id X E') as [Hr'|(t' & Et' & Hw')].
    + destruct (W1 _ _ E Hr) as [Hj _]. destruct (W1 _ _ E' Hr') as [Hj' _].
      apply (nodup_flat_map_owner (resl rs) ks j j' id HdR Hj Hj'); unfold resl; [rewrite E|rewrite E']; now left.
    + exfalso. destruct (W1 _ _ E Hr) as [_ H1]. apply Hpos in H1. destruct Hw' as [Hw'|Hw'].
      * destruct (W2 _ _ Hw') as (_ & _ & H2). apply Hpos in H2. lia.
      * destruct (W3 _ _ Hw') as [(H2 & _)|(H2 & _)]; apply Hpos in H2; lia.
    + exfalso. destruct (W1 _ _ E' Hr') as [_ H1]. apply Hpos in H1. destruct Hw as [Hw|Hw].
      * destruct (W2 _ _ Hw) as (_ & _ & H2). apply Hpos in H2. lia.
      * destruct (W3 _ _ Hw) as [(H2 & _)|(H2 & _)]; apply Hpos in H2; lia.
    + assert (Hsame : t = t' -> j = j') by (intros ->; rewrite Et in Et'; now injection Et').
      destruct Hw as [Hw|Hw]; destruct Hw' as [Hw'|Hw'].
      * destruct (W2 _ _ Hw) as (Ht & Hi & _). destruct (W2 _ _ Hw') as (Ht' & Hi' & _).
        apply Hsame. exact (nodup_flat_map_owner (ltranslF s) ths t t' id HdLl Ht Ht' Hi Hi').
      * exfalso. destruct (W2 _ _ Hw) as (_ & _ & H1). apply Hpos in H1. destruct (W3 _ _ Hw') as [(H2 & _)|(H2 & _)]; apply Hpos in H2; lia.
      * exfalso. destruct (W2 _ _ Hw') as (_ & _ & H1). apply Hpos in H1. destruct (W3 _ _ Hw) as [(H2 & _)|(H2 & _)]; apply Hpos in H2; lia.
      * apply Hsame. destruct (W3 _ _ Hw) as [(H1 & L1 & _)|(H1 & L1 & _)]; destruct (W3 _ _ Hw') as [(H2 & L2 & _)|(H2 & L2 & _)].
        -- exact (f_mutex _ _ (pf_ia _ _ _ _ Zp) t t' L1 L2).
        -- exfalso. apply Hpos in H1. apply Hpos in H2. lia.
        -- exfalso. apply Hpos in H1. apply Hpos in H2. lia.
        -- exact (f_mutex _ _ (pf_ib _ _ _ _ Zp) t t' L1 L2).
  - intros j id E. specialize (Hc id). rewrite !count_occ_app in Hc.
    assert (Hin : In id (finring (ua _ x) ++ finring (ub _ x) ++ Hl ++ Tl ++ Ll ++ R)).
    { destruct (entry_where s j id X E) as [Hr|(t & Et & [Hw|Hw])].
      - destruct (W1 _ _ E Hr) as [_ H1]. do 5 (apply in_or_app; right). exact H1.
      - destruct (W2 _ _ Hw) as (_ & _ & H1). do 4 (apply in_or_app; right). apply in_or_app; now left.
      - destruct (W3 _ _ Hw) as [(H1 & _)|(H1 & _)]; [apply in_or_app; now left|apply in_or_app; right; apply in_or_app; now left]. }
    split; [apply ids_upto_in; exact (Permutation_in _ (Permutation_sym Hp) Hin)|]. split.
    + intros t Hh'. pose proof (xif_allnone s X t) as Hh. unfold x in Hh'. congruence.
    + intros t Ht. assert (HT : In id Tl).
      { apply in_flat_map. exists t. split; [|exact Ht]. destruct (in_dec Nat.eq_dec t ths) as [|Hnin]; [assumption|].
        rewrite (proj1 (proj2 (Ho t Hnin))) in Ht. destruct Ht. }
      apply Hpos in HT.
      destruct (entry_where s j id X E) as [Hr|(u & Et & [Hw|Hw])].
      * destruct (W1 _ _ E Hr) as [_ H1]. apply Hpos in H1. lia.
      * destruct (W2 _ _ Hw) as (_ & _ & H1). apply Hpos in H1. lia.
      * destruct (W3 _ _ Hw) as [(H1 & _)|(H1 & _)]; apply Hpos in H1; lia.
Qed.

(* COROLLARY 3: the publication of a reserved id never finds the id ring full: a thread inside it either still has to get the flag - then
   the ring has room and does not contain the id - or stands at the flag store with the ACCEPTED answer *)
Theorem xif_sendres_never_full s t j id : XIF s -> zthr _ s t = ZSRes j id ->
  zres _ s j = Some id /\
  (   (fthr (B s) t = FPL id /\ ftail (B s) - fhead (B s) < N /\ ~ In id (finring (B s)))
   \/ (exists len, fthr (B s) t = FPU id (Some len))).
Proof.
  intros X Lt. pose proof X as [Zp Zk Zl Zu Zg]. destruct (puf_room N _ _ _ t Zp Zu) as [_ RoomB].
  pose proof (pf_ph _ _ _ _ Zp t) as P. rewrite Lt in P. cbn [lphaseF] in P. destruct P as (Pc & P1 & P2 & P3).
  split; [exact P3|]. unfold zq in *.
  destruct (fthr (ub _ (q _ (zb _ s))) t) as [|w|w r| | |] eqn:Eb; cbn in P2; try discriminate; injection P2 as ->.
  - left. destruct (RoomB id eq_refl). auto.
  - right. destruct r as [len|]; [eauto|]. exfalso. exact (pf_2b _ _ _ _ Zp t _ Eb).
Qed.

(* COROLLARY 4: the give-back of a reserved id never finds the free list full *)
Theorem xif_cancel_never_full s t j : XIF s -> zthr _ s t = ZCRes j ->
  exists id, zres _ s j = Some id /\
  (   (fthr (A s) t = FPL id /\ ftail (A s) - fhead (A s) < N /\ ~ In id (finring (A s)))
   \/ (exists len, fthr (A s) t = FPU id (Some len))).
Proof.
  intros X Lt. pose proof X as [Zp Zk Zl Zu Zg]. destruct (puf_room N _ _ _ t Zp Zu) as [RoomA _].
  pose proof (pf_ph _ _ _ _ Zp t) as P. rewrite Lt in P. cbn [lphaseF] in P. destruct P as (Pc & (id & P1 & P3) & P2).
  exists id. split; [exact P3|]. unfold zq in *.
  destruct (fthr (ua _ (q _ (zb _ s))) t) as [|w|w r| | |] eqn:Ea; cbn in P1; try discriminate; injection P1 as ->.
  - left. destruct (RoomA id eq_refl). auto.
  - right. destruct r as [len|]; [eauto|]. exfalso. exact (pf_2a _ _ _ _ Zp t _ Ea).
Qed.

(* COROLLARIES 3' / 4': what the next step of such a thread does (the cut points, step by step) *)
Theorem xif_sendres_step s t j id : XIF s -> zthr _ s t = ZSRes j id ->
  let s' := zstep s t in
  (   (* the flag is taken: nothing moves *)
      (fthr (B s) t = FPL id /\ flock (B s) = true /\
       zthr _ s' t = ZSRes j id /\ zres _ s' j = Some id /\ zlog _ s' = zlog _ s /\ finring (B s') = finring (B s))
   \/ (* the flag CAS succeeds: the id enters the ring HERE; the operation has not returned, the entry stays in the table *)
      (fthr (B s) t = FPL id /\ flock (B s) = false /\
       finring (B s') = finring (B s) ++ [id] /\ (exists len, fthr (B s') t = FPU id (Some len)) /\
       zthr _ s' t = ZSRes j id /\ zres _ s' j = Some id /\ zlog _ s' = zlog _ s)
   \/ (* the flag store: the operation returns ACCEPTED, the entry is cleared in that same step *)
      (exists len, fthr (B s) t = FPU id (Some len) /\
         finring (B s') = finring (B s) /\ zres _ s' j = None /\ lastres (B s') = ROk id len /\
         (   (zthr _ s' t = ZN /\ zlog _ s' = zlog _ s ++ [(t, XSent j)])
          \/ (exists i, zthr _ s' t = ZSResW j (W0 i) /\ zlog _ s' = zlog _ s)))).
Proof.
  intros X Lt. pose proof X as [Zp Zk Zl Zu Zg]. destruct (puf_room N _ _ _ t Zp Zu) as [_ RoomB].
  pose proof (pf_ph _ _ _ _ Zp t) as P. rewrite Lt in P. cbn [lphaseF] in P. destruct P as (Pc & P1 & P2 & P3).
  pose proof (pf_ib _ _ _ _ Zp) as Ib. pose proof (pf_2b _ _ _ _ Zp) as H2b. cbn zeta.
  remember (zstep s t) as s' eqn:Es'. destruct s as [[[a b p th l h] mm cth cl] lt rs lg]. unfold zq in *. zsimp.
  change (s' = zstep (zmk a b p th l h mm cth cl lt rs lg) t) in Es'.
  destruct (fthr b t) as [|w|w r| | |] eqn:Eb; cbn in P2; try discriminate; injection P2 as ->.
  - destruct (flock b) eqn:El.
    + left. subst s'.
      rewrite (zf_sres_busy _ _ _ _ _ _ _ _ _ _ _ _ _ _ _ Lt) by (rewrite (fstep_PL_locked N b t id Eb El), Eb; discriminate).
      rewrite (fstep_PL_locked N b t id Eb El). zsimp. rewrite upd_same. repeat split; auto.
    + right; left. destruct (fstep_PL_ok N b t id Eb El (proj1 (RoomB id eq_refl))) as (Ht & Hp & Hh & Hl). subst s'.
      rewrite (zf_sres_busy _ _ _ _ _ _ _ _ _ _ _ _ _ _ _ Lt) by (upd_at Ht; discriminate). zsimp. rewrite upd_same.
      split; [reflexivity|]. split; [reflexivity|]. split; [exact (finring_pub N b _ id Ib Hp Hh)|].
      split; [eexists; rewrite Ht, upd_same; reflexivity|]. auto.
  - destruct r as [len|]; [|exfalso; exact (H2b t _ Eb)]. right; right. exists len.
    destruct (fstep_PU N b t id _ Eb) as (Ht & Hp & Hh & Hl & _). cbn [pub_res] in Hl.
    assert (Hi : fthr (fstp b t) t = FIdle) by (now upd_at Ht). subst s'.
    rewrite (zf_sres_ok _ _ _ _ _ _ _ _ _ _ _ _ _ _ _ _ _ Lt Hi (ZcSolo.lastres_snoc _ _ _ _ Hl)).
    destruct (wr len) as [i|]; zsimp; rewrite !upd_same; (split; [reflexivity|]); (split; [exact (finring_same _ _ Hp Hh)|]);
      (split; [reflexivity|]); (split; [exact (ZcSolo.lastres_snoc _ _ _ _ Hl)|]); [right; eauto|left; auto].
Qed.

Theorem xif_cancel_step s t j : XIF s -> zthr _ s t = ZCRes j ->
  exists id, zres _ s j = Some id /\
  let s' := zstep s t in
  (   (fthr (A s) t = FPL id /\ flock (A s) = true /\
       zthr _ s' t = ZCRes j /\ zres _ s' j = Some id /\ zlog _ s' = zlog _ s /\ finring (A s') = finring (A s))
   \/ (fthr (A s) t = FPL id /\ flock (A s) = false /\
       finring (A s') = finring (A s) ++ [id] /\ (exists len, fthr (A s') t = FPU id (Some len)) /\
       zthr _ s' t = ZCRes j /\ zres _ s' j = Some id /\ zlog _ s' = zlog _ s)
   \/ (exists len, fthr (A s) t = FPU id (Some len) /\
         finring (A s') = finring (A s) /\ zres _ s' j = None /\ lastres (A s') = ROk id len /\   (* the free list ACCEPTED the id *)
         zthr _ s' t = ZN /\ zlog _ s' = zlog _ s ++ [(t, XCancelled j)])).
Proof.
  intros X Lt. pose proof X as [Zp Zk Zl Zu Zg]. destruct (puf_room N _ _ _ t Zp Zu) as [RoomA _].
  pose proof (pf_ph _ _ _ _ Zp t) as P. rewrite Lt in P. cbn [lphaseF] in P. destruct P as (Pc & (id & P1 & P3) & P2).
  pose proof (pf_ia _ _ _ _ Zp) as Ia. pose proof (pf_2a _ _ _ _ Zp) as H2a. exists id. split; [exact P3|]. cbn zeta.
  remember (zstep s t) as s' eqn:Es'. destruct s as [[[a b p th l h] mm cth cl] lt rs lg]. unfold zq in *. zsimp.
  change (s' = zstep (zmk a b p th l h mm cth cl lt rs lg) t) in Es'.
  destruct (fthr a t) as [|w|w r| | |] eqn:Ea; cbn in P1; try discriminate; injection P1 as ->.
  - destruct (flock a) eqn:El.
    + left. subst s'.
      rewrite (zf_cres_busy _ _ _ _ _ _ _ _ _ _ _ _ _ _ Lt) by (rewrite (fstep_PL_locked N a t id Ea El), Ea; discriminate).
      rewrite (fstep_PL_locked N a t id Ea El). zsimp. rewrite upd_same. repeat split; auto.
    + right; left. destruct (fstep_PL_ok N a t id Ea El (proj1 (RoomA id eq_refl))) as (Ht & Hp & Hh & Hl). subst s'.
      rewrite (zf_cres_busy _ _ _ _ _ _ _ _ _ _ _ _ _ _ Lt) by (upd_at Ht; discriminate). zsimp. rewrite upd_same.
      split; [reflexivity|]. split; [reflexivity|]. split; [exact (finring_pub N a _ id Ia Hp Hh)|].
      split; [eexists; rewrite Ht, upd_same; reflexivity|]. auto.
  - destruct r as [len|]; [|exfalso; exact (H2a t _ Ea)]. right; right. exists len.
    destruct (fstep_PU N a t id _ Ea) as (Ht & Hp & Hh & Hl & _). cbn [pub_res] in Hl.
    assert (Hi : fthr (fstp a t) t = FIdle) by (now upd_at Ht). subst s'.
    rewrite (zf_cres_done _ _ _ _ _ _ _ _ _ _ _ _ _ _ Lt Hi). zsimp. rewrite !upd_same.
    split; [reflexivity|]. split; [exact (finring_same _ _ Hp Hh)|]. split; [reflexivity|]. split; [exact (ZcSolo.lastres_snoc _ _ _ _ Hl)|]. auto.
Qed.

End ZXFConserve.

Section CheckerF.
Variable N : Z.
Variable M k : nat.
Variables ws wr : Z -> option nat.
Local Notation zxst := (zxst fsst).
Local Notation zexec := (zxexec fsst (fstepZ N) fstart fsidle flog false (fun b => ftail b - fhead b) M k ws wr).

Definition zxfwf_b (ths : list nat) (s : zxst) (e : zxev) : bool :=
  match e with
  | ZStart _ (ZoReserve j _) => match zres _ s j with None => forallb (fun u => negb (busy_onb (zthr _ s u) j)) ths | Some _ => false end
  | ZStart _ (ZoSendRes j) | ZStart _ (ZoCancelRes j) => forallb (fun u => negb (opnameb (zthr _ s u) j)) ths
  | _ => true
  end.
Fixpoint zxfwf_run_b (ths : list nat) (s : zxst) (evs : list zxev) : bool :=
  match evs with
  | [] => true
  | e :: rest => existsb (Nat.eqb (ev_thr e)) ths && zxfwf_b ths s e && zxfwf_run_b ths (zexec s e) rest
  end.


Lemma zthr_exec_otherF s e u : u <> ev_thr e -> zthr _ (zexec s e) u = zthr _ s u.
Proof.
  intros Hn. destruct e as [t|t o]; cbn [ev_thr zxexec] in *.
  - unfold zxstep. destruct (zthr _ s t) eqn:E; cbn [zb]; try reflexivity;
    repeat match goal with
           | |- context[if ?b then _ else _] => destruct b
           | |- context[match lastres ?A ?B ?C with _ => _ end] => destruct (lastres A B C)
           | |- context[match wr ?l with _ => _ end] => destruct (wr l)
           | |- context[wstep ?a ?b] => destruct (wstep a b) as [? [?|]]
           end; unfold zfinish, zgoto; cbn [zthr]; rewrite ?upd_other by assumption; reflexivity.
  - unfold zxstart. destruct (zthr _ s t); try reflexivity. destruct (cthr _ (zb _ s) t); try reflexivity.
    destruct o as [o'|j v|j|j]; [reflexivity| |destruct (zres _ s j)|destruct (zres _ s j)]; unfold zgoto; cbn [zthr]; now rewrite upd_other.
Qed.

Lemma zxfwf_b_sound ths s e : (forall u, ~ In u ths -> zthr _ s u = ZN) -> zxfwf_b ths s e = true -> zxfwf s e.
Proof.
  intros Ho. destruct e as [t|t [o|j v|j|j]]; cbn [zxfwf_b zxfwf]; auto.
  - destruct (zres _ s j); [discriminate|]. intros H. split; [reflexivity|]. intros u Hb.
    destruct (in_dec Nat.eq_dec u ths) as [Hi|Hni]; [|rewrite (Ho u Hni) in Hb; exact Hb].
    rewrite forallb_forall in H. specialize (H u Hi). rewrite (busy_onb_spec _ _ Hb) in H. discriminate.
  - intros H u E. destruct (in_dec Nat.eq_dec u ths) as [Hi|Hni]; [|rewrite (Ho u Hni) in E; discriminate].
    rewrite forallb_forall in H. specialize (H u Hi). rewrite (opnameb_spec _ _ E) in H. discriminate.
  - intros H u E. destruct (in_dec Nat.eq_dec u ths) as [Hi|Hni]; [|rewrite (Ho u Hni) in E; discriminate].
    rewrite forallb_forall in H. specialize (H u Hi). rewrite (opnameb_spec _ _ E) in H. discriminate.
Qed.

Lemma zxfwf_run_b_sound ths evs : forall s, (forall u, ~ In u ths -> zthr _ s u = ZN) -> zxfwf_run_b ths s evs = true -> zxfwf_run N M k ws wr s evs.
Proof.
  induction evs as [|e evs IH]; intros s Ho H; [exact I|]. cbn [zxfwf_run_b zxfwf_run] in *.
  apply andb_true_iff in H. destruct H as [H H3]. apply andb_true_iff in H. destruct H as [H1 H2].
  split; [now apply (zxfwf_b_sound ths)|]. apply IH; [|exact H3].
  intros u Hu. rewrite zthr_exec_otherF; [now apply Ho|]. intros ->. apply Hu.
  apply existsb_exists in H1. destruct H1 as (w & Hw & Ew). apply Nat.eqb_eq in Ew. now rewrite Ew.
Qed.

Theorem zxf_wf_check ths evs : zxfwf_run_b ths (zxinit fsst k (zcf_q0 N)) evs = true -> zxf_wf N M k ws wr evs.
Proof. intros H. apply (zxfwf_run_b_sound ths); [intros u _; reflexivity|exact H]. Qed.
End CheckerF.

(* ================================================================================================ MAIN THEOREMS
   for every state of every well-formed run of the zero-copy FULL-SYNC Uni channel with its reserve API *)
Theorem zxfs_slots_conserved : forall N, 0 < N -> forall M k ws wr evs, zxf_wf N M k ws wr evs ->
  let s := zxf_run N M k ws wr evs in let x := zq fsst s in
  exists ths ks, NoDup ths /\ NoDup ks /\
    (forall t, ~ In t ths -> fheldl x t = [] /\ ftransl x t = [] /\ ltranslF s t = []) /\     (* ths: every thread with custody of an id *)
    (forall j, In j ks <-> (exists id, zres _ s j = Some id) /\ at_rest (zthr _ s) j) /\       (* ks: exactly the names RESERVED and at rest *)
    Permutation (ids_upto N)
      (finring (ua _ x) ++                     (* 1. the free list *)
       finring (ub _ x) ++                     (* 2. the id ring *)
       flat_map (fheldl x) ths ++              (* 3. held by a consumer *)
       flat_map (ftransl x) ths ++             (* 4. in transit in the base machine (composite pc AND full-sync pc, ZcConserveFS.ftransl) *)
       flat_map (ltranslF s) ths ++            (* 4. in transit in the layer (layer pc AND full-sync pc) *)
       flat_map (resl (zres _ s)) ks).         (* 5. reserved, at rest *)
Proof.
  intros N Npos M k ws wr evs W s x. apply (xif_five N). apply (zxfreach_XIF N Npos M k ws wr). now apply zxf_wf_reach.
Qed.

Theorem zxfs_no_leak : forall N, 0 < N -> forall M k ws wr evs, zxf_wf N M k ws wr evs ->
  let s := zxf_run N M k ws wr evs in let x := zq fsst s in
  (forall t, cthr _ (zb _ s) t = XIdle) -> (forall t, zthr _ s t = ZN) ->        (* nothing in progress ... *)
  (forall t, uheld _ x t = None) /\                                              (* ... (nobody holds a handle then: in fact never between two events) *)
  (exists ks, NoDup ks /\ (forall j, In j ks <-> exists id, zres _ s j = Some id) /\           (* ks: the outstanding reservations *)
     (ftail (ua _ x) - fhead (ua _ x)) + (ftail (ub _ x) - fhead (ub _ x)) = N - Z.of_nat (length ks) /\
     Permutation (ids_upto N) (finring (ua _ x) ++ finring (ub _ x) ++ flat_map (resl (zres _ s)) ks)) /\
  ((forall j, zres _ s j = None) ->                                              (* no reservation outstanding: all N slots are in the rings *)
     (ftail (ua _ x) - fhead (ua _ x)) + (ftail (ub _ x) - fhead (ub _ x)) = N /\
     Permutation (ids_upto N) (finring (ua _ x) ++ finring (ub _ x))).
Proof.
  intros N Npos M k ws wr evs W s x Hc Hl. subst x.
  assert (X : XIF N s) by (apply (zxfreach_XIF N Npos M k ws wr); now apply zxf_wf_reach).
  split; [exact (xif_allnone N s X)|]. destruct (xif_no_leak N Npos s X Hc Hl) as (ks & Hk & Hm & Hs & Hp).
  split; [exists ks; auto|]. intros Hnone.
  assert (E : ks = []). { destruct ks as [|j ks]; [reflexivity|]. destruct (proj1 (Hm j) (or_introl eq_refl)) as [id E]. rewrite Hnone in E. discriminate. }
  subst ks. cbn [length flat_map] in *. rewrite app_nil_r in Hp. split; [lia|exact Hp].
Qed.

Theorem zxfs_reserved_exclusive : forall N, 0 < N -> forall M k ws wr evs, zxf_wf N M k ws wr evs ->
  let s := zxf_run N M k ws wr evs in let x := zq fsst s in
  (forall j j' id, zres _ s j = Some id -> zres _ s j' = Some id ->
     at_rest (zthr _ s) j -> at_rest (zthr _ s) j' -> j = j') /\                               (* two names at rest never hold the same id *)
  (forall j id, zres _ s j = Some id -> at_rest (zthr _ s) j ->
     0 <= id < N /\ ~ In id (finring (ua _ x)) /\ ~ In id (finring (ub _ x)) /\                (* a reserved id is in neither ring, *)
     (forall t, uheld _ x t <> Some id) /\ (forall t, ~ In id (ftransl x t)) /\                (* not held, not in transit in the base machine, *)
     (forall t, ~ In id (ltranslF s t))).                                                      (* and not in transit in the layer *)
Proof.
  intros N Npos M k ws wr evs W s x. apply (xif_reserved_exclusive N). apply (zxfreach_XIF N Npos M k ws wr). now apply zxf_wf_reach.
Qed.

Theorem zxfs_entries_exclusive : forall N, 0 < N -> forall M k ws wr evs, zxf_wf N M k ws wr evs ->
  let s := zxf_run N M k ws wr evs in let x := zq fsst s in
  (forall j j' id, zres _ s j = Some id -> zres _ s j' = Some id -> j = j') /\                 (* two names never hold the same id *)
  (forall j id, zres _ s j = Some id ->                                                        (* the id of any name with an entry - at rest or in progress - *)
     0 <= id < N /\ (forall t, uheld _ x t <> Some id) /\ (forall t, ~ In id (ftransl x t))).  (* is a slot id, not held, not in transit in the base machine *)
Proof.
  intros N Npos M k ws wr evs W s x. apply (xif_entries_exclusive N). apply (zxfreach_XIF N Npos M k ws wr). now apply zxf_wf_reach.
Qed.

Theorem zxfs_sendres_never_full : forall N, 0 < N -> forall M k ws wr evs, zxf_wf N M k ws wr evs ->
  let s := zxf_run N M k ws wr evs in let x := zq fsst s in
  (* the answer "not sent" is never given ... *)
  (forall t j, ~ In (t, XNotSent j) (zlog _ s)) /\
  (* ... because a thread inside the publication of a reserved id either still has to get the flag of the id ring - which then has room
     and does not contain the id - or stands at the flag store with the ACCEPTED answer (never with "full") *)
  (forall t j id, zthr _ s t = ZSRes j id ->
     zres _ s j = Some id /\
     (   (fthr (ub _ x) t = FPL id /\ ftail (ub _ x) - fhead (ub _ x) < N /\ ~ In id (finring (ub _ x)))
      \/ (exists len, fthr (ub _ x) t = FPU id (Some len)))).
Proof.
  intros N Npos M k ws wr evs W s x.
  assert (X : XIF N s) by (apply (zxfreach_XIF N Npos M k ws wr); now apply zxf_wf_reach).
  split; [exact (xf_log _ _ X)|]. intros t j id Lt. exact (xif_sendres_never_full N s t j id X Lt).
Qed.

Theorem zxfs_cancel_never_full : forall N, 0 < N -> forall M k ws wr evs, zxf_wf N M k ws wr evs ->
  let s := zxf_run N M k ws wr evs in let x := zq fsst s in
  forall t j, zthr _ s t = ZCRes j ->
    exists id, zres _ s j = Some id /\
      (   (fthr (ua _ x) t = FPL id /\ ftail (ua _ x) - fhead (ua _ x) < N /\ ~ In id (finring (ua _ x)))
       \/ (exists len, fthr (ua _ x) t = FPU id (Some len))).
Proof.
  intros N Npos M k ws wr evs W s x t j Lt.
  assert (X : XIF N s) by (apply (zxfreach_XIF N Npos M k ws wr); now apply zxf_wf_reach).
  exact (xif_cancel_never_full N s t j X Lt).
Qed.

(* ... step by step: where the cut points of the two operations are on this kind *)
Theorem zxfs_sendres_steps : forall N, 0 < N -> forall M k ws wr evs, zxf_wf N M k ws wr evs ->
  let s := zxf_run N M k ws wr evs in
  forall t j id, zthr _ s t = ZSRes j id ->
    let s' := zxstep fsst (fstepZ N) fstart fsidle flog false (fun b => ftail b - fhead b) M k ws wr s t in
    let b := ub _ (zq fsst s) in let b' := ub _ (zq fsst s') in
    (   (fthr b t = FPL id /\ flock b = true /\                                       (* the flag is taken: nothing moves *)
         zthr _ s' t = ZSRes j id /\ zres _ s' j = Some id /\ zlog _ s' = zlog _ s /\ finring b' = finring b)
     \/ (fthr b t = FPL id /\ flock b = false /\                                      (* the flag CAS: the id enters the ring, the entry stays *)
         finring b' = finring b ++ [id] /\ (exists len, fthr b' t = FPU id (Some len)) /\
         zthr _ s' t = ZSRes j id /\ zres _ s' j = Some id /\ zlog _ s' = zlog _ s)
     \/ (exists len, fthr b t = FPU id (Some len) /\                                  (* the flag store: returns ACCEPTED, the entry is cleared *)
           finring b' = finring b /\ zres _ s' j = None /\ lastres fsst flog b' = ROk id len /\
           (   (zthr _ s' t = ZN /\ zlog _ s' = zlog _ s ++ [(t, XSent j)])
            \/ (exists i, zthr _ s' t = ZSResW j (W0 i) /\ zlog _ s' = zlog _ s)))).
Proof.
  intros N Npos M k ws wr evs W s t j id Lt.
  assert (X : XIF N s) by (apply (zxfreach_XIF N Npos M k ws wr); now apply zxf_wf_reach).
  exact (xif_sendres_step N M k ws wr s t j id X Lt).
Qed.

Theorem zxfs_cancel_steps : forall N, 0 < N -> forall M k ws wr evs, zxf_wf N M k ws wr evs ->
  let s := zxf_run N M k ws wr evs in
  forall t j, zthr _ s t = ZCRes j ->
    exists id, zres _ s j = Some id /\
    let s' := zxstep fsst (fstepZ N) fstart fsidle flog false (fun b => ftail b - fhead b) M k ws wr s t in
    let a := ua _ (zq fsst s) in let a' := ua _ (zq fsst s') in
    (   (fthr a t = FPL id /\ flock a = true /\
         zthr _ s' t = ZCRes j /\ zres _ s' j = Some id /\ zlog _ s' = zlog _ s /\ finring a' = finring a)
     \/ (fthr a t = FPL id /\ flock a = false /\
         finring a' = finring a ++ [id] /\ (exists len, fthr a' t = FPU id (Some len)) /\
         zthr _ s' t = ZCRes j /\ zres _ s' j = Some id /\ zlog _ s' = zlog _ s)
     \/ (exists len, fthr a t = FPU id (Some len) /\
           finring a' = finring a /\ zres _ s' j = None /\ lastres fsst flog a' = ROk id len /\
           zthr _ s' t = ZN /\ zlog _ s' = zlog _ s ++ [(t, XCancelled j)])).
Proof.
  intros N Npos M k ws wr evs W s t j Lt.
  assert (X : XIF N s) by (apply (zxfreach_XIF N Npos M k ws wr); now apply zxf_wf_reach).
  exact (xif_cancel_step N M k ws wr s t j X Lt).
Qed.

(* ------------------------------------------------------------------------------------------------ non-vacuity
   N = 4, MAX_STREAMS = 2, one stream.  A reservation takes 2 steps on this kind (flag CAS + the plain code under the flag; flag store).
   Snapshot 0: thread 1 has begun to reserve name 0 and made its flag-CAS step: slot 0 is out of the free list and NOT YET in the table.
   Then thread 1 reserves names 0 and 1 (slots 0 and 1, payloads 70 and 80), thread 3 name 2 (slot 2, 90).
   Snapshot 1: thread 1 has begun to cancel name 0, thread 2 to send name 1 (no step yet): both ids are carried (in transit in the layer).
   Snapshot 2: one step each (the flag-CAS steps): slot 0 IS back in the free list, slot 1 IS in the id ring, although both entries are
   still in the table (the operations have not returned): counted once, in the rings.
   Snapshot 3: both completed (with the wake-up of stream 0); thread 4 polled stream 0, was handed slot 1 (payload 80) and is dropping the
   handle: slot 1 is in transit in the base machine (URel 1 / A at FPL 1). *)
Definition exf_evs0 : list zxev := [ZStart 1 (ZoReserve 0 70)] ++ zsteps 1 1.
Definition exf_evsR : list zxev :=
  [ZStart 1 (ZoReserve 0 70)] ++ zsteps 1 2 ++ [ZStart 1 (ZoReserve 1 80)] ++ zsteps 1 2 ++ [ZStart 3 (ZoReserve 2 90)] ++ zsteps 3 2.
Definition exf_evs1 : list zxev := exf_evsR ++ [ZStart 1 (ZoCancelRes 0); ZStart 2 (ZoSendRes 1)].
Definition exf_evs2 : list zxev := exf_evs1 ++ [ZStep 1; ZStep 2].
Definition exf_evs3 : list zxev := exf_evs2 ++ zsteps 1 1 ++ zsteps 2 8 ++ [ZStart 4 (ZoBase (CoPoll 0))] ++ zsteps 4 2.
Definition exf_run := zxf_run 4 2 1 (wake_rule_fullsync 2) (wake_res_code 2).

Example exf_wf3 : zxf_wf 4 2 1 (wake_rule_fullsync 2) (wake_res_code 2) exf_evs3.
Proof. apply (zxf_wf_check 4 2 1 _ _ [1; 2; 3; 4]%nat). vm_compute. reflexivity. Qed.
Example exf_wf2 : zxf_wf 4 2 1 (wake_rule_fullsync 2) (wake_res_code 2) exf_evs2.
Proof. apply (zxf_wf_check 4 2 1 _ _ [1; 2; 3; 4]%nat). vm_compute. reflexivity. Qed.
Example exf_wf1 : zxf_wf 4 2 1 (wake_rule_fullsync 2) (wake_res_code 2) exf_evs1.
Proof. apply (zxf_wf_check 4 2 1 _ _ [1; 2; 3; 4]%nat). vm_compute. reflexivity. Qed.
Example exf_wf0 : zxf_wf 4 2 1 (wake_rule_fullsync 2) (wake_res_code 2) exf_evs0.
Proof. apply (zxf_wf_check 4 2 1 _ _ [1; 2; 3; 4]%nat). vm_compute. reflexivity. Qed.

Example exf_snapshot0 : let s := exf_run exf_evs0 in let x := zq fsst s in
  finring (ua _ x) = [1; 2; 3] /\ finring (ub _ x) = [] /\
  zthr _ s 1%nat = ZRes 0 70 /\ fthr (ua _ x) 1%nat = FCU (Some 0) /\ ltranslF s 1%nat = [0] /\   (* slot 0: out of A, not yet in the table *)
  map (zres _ s) [0; 1; 2; 3]%nat = [None; None; None; None].
Proof. vm_compute. repeat split; reflexivity. Qed.

Example exf_snapshot1 : let s := exf_run exf_evs1 in let x := zq fsst s in
  finring (ua _ x) = [3] /\ finring (ub _ x) = [] /\
  zthr _ s 1%nat = ZCRes 0 /\ fthr (ua _ x) 1%nat = FPL 0 /\ ltranslF s 1%nat = [0] /\            (* slot 0: being given back by thread 1 *)
  zthr _ s 2%nat = ZSRes 1 1 /\ fthr (ub _ x) 2%nat = FPL 1 /\ ltranslF s 2%nat = [1] /\          (* slot 1: being published by thread 2 *)
  map (zres _ s) [0; 1; 2; 3]%nat = [Some 0; Some 1; Some 2; None] /\
  flat_map (resl (zres _ s)) [2%nat] = [2] /\                                                     (* slot 2: RESERVED (name 2, at rest) *)
  map (upool _ x) [0; 1; 2] = [70; 80; 90].
Proof. vm_compute. repeat split; reflexivity. Qed.

Example exf_snapshot2 : let s := exf_run exf_evs2 in let x := zq fsst s in
  finring (ua _ x) = [3; 0] /\ finring (ub _ x) = [1] /\                                          (* slot 0 IS in A, slot 1 IS in B ... *)
  zthr _ s 1%nat = ZCRes 0 /\ fthr (ua _ x) 1%nat = FPU 0 (Some 2) /\ ltranslF s 1%nat = [] /\    (* ... the operations have not returned ... *)
  zthr _ s 2%nat = ZSRes 1 1 /\ fthr (ub _ x) 2%nat = FPU 1 (Some 1) /\ ltranslF s 2%nat = [] /\
  map (zres _ s) [0; 1; 2; 3]%nat = [Some 0; Some 1; Some 2; None] /\                              (* ... and their entries are still in the table *)
  zlog _ s = [(1, XSlot 0); (1, XSlot 1); (3, XSlot 2)]%nat.
Proof. vm_compute. repeat split; reflexivity. Qed.

Example exf_snapshot3 : let s := exf_run exf_evs3 in let x := zq fsst s in
  finring (ua _ x) = [3; 0] /\ finring (ub _ x) = [] /\
  map (zthr _ s) [1; 2; 3; 4]%nat = [ZN; ZN; ZN; ZN] /\
  map (zres _ s) [0; 1; 2; 3]%nat = [None; None; Some 2; None] /\
  zlog _ s = [(1, XSlot 0); (1, XSlot 1); (3, XSlot 2); (1, XCancelled 0); (2, XSent 1)]%nat /\
  cthr _ (zb _ s) 4%nat = XRel 0 false /\ uthr _ x 4%nat = URel 1 /\ fthr (ua _ x) 4%nat = FPL 1 /\ ftransl x 4%nat = [1] /\
  clog _ (zb _ s) = [(4%nat, CYield 0 80)].
Proof. vm_compute. repeat split; reflexivity. Qed.

(* the theorem, instantiated: the witnesses are ths = the threads 1..4 and ks = [2] (snapshots 1-3) resp. ks = [] (snapshot 0) *)
Ltac perm_closed := vm_compute; apply (proj2 (Permutation_count_occ Z.eq_dec _ _)); intro z; cbn [count_occ]; repeat destruct (Z.eq_dec _ _); lia.
Example exf_conserved0 : let s := exf_run exf_evs0 in let x := zq fsst s in
  Permutation (ids_upto 4)
    (finring (ua _ x) ++ finring (ub _ x) ++ flat_map (fheldl x) [1; 2; 3; 4]%nat ++ flat_map (ftransl x) [1; 2; 3; 4]%nat
     ++ flat_map (ltranslF s) [1; 2; 3; 4]%nat ++ flat_map (resl (zres _ s)) []).
Proof. perm_closed. Qed.
Example exf_conserved1 : let s := exf_run exf_evs1 in let x := zq fsst s in
  Permutation (ids_upto 4)
    (finring (ua _ x) ++ finring (ub _ x) ++ flat_map (fheldl x) [1; 2; 3; 4]%nat ++ flat_map (ftransl x) [1; 2; 3; 4]%nat
     ++ flat_map (ltranslF s) [1; 2; 3; 4]%nat ++ flat_map (resl (zres _ s)) [2%nat]).
Proof. perm_closed. Qed.
Example exf_conserved2 : let s := exf_run exf_evs2 in let x := zq fsst s in
  Permutation (ids_upto 4)
    (finring (ua _ x) ++ finring (ub _ x) ++ flat_map (fheldl x) [1; 2; 3; 4]%nat ++ flat_map (ftransl x) [1; 2; 3; 4]%nat
     ++ flat_map (ltranslF s) [1; 2; 3; 4]%nat ++ flat_map (resl (zres _ s)) [2%nat]).
Proof. perm_closed. Qed.
Example exf_conserved3 : let s := exf_run exf_evs3 in let x := zq fsst s in
  Permutation (ids_upto 4)
    (finring (ua _ x) ++ finring (ub _ x) ++ flat_map (fheldl x) [1; 2; 3; 4]%nat ++ flat_map (ftransl x) [1; 2; 3; 4]%nat
     ++ flat_map (ltranslF s) [1; 2; 3; 4]%nat ++ flat_map (resl (zres _ s)) [2%nat]).
Proof. perm_closed. Qed.

(* ------------------------------------------------------------------------------------------------ why the discipline (model-validity boundary),
   as in ChanZXConserve.v: (a) a second `reserve` of a name overwrites - and so loses - the id the first one got *)
Definition exf_evs_double : list zxev := [ZStart 1 (ZoReserve 0 70)] ++ zsteps 1 2 ++ [ZStart 1 (ZoReserve 0 71)] ++ zsteps 1 2.
Example exf_double_reserve_loses_a_slot : let s := exf_run exf_evs_double in let x := zq fsst s in
  finring (ua _ x) = [2; 3] /\ finring (ub _ x) = [] /\ map (zres _ s) [0; 1; 2]%nat = [Some 1; None; None] /\
  map (zthr _ s) [0; 1; 2]%nat = [ZN; ZN; ZN] /\ map (cthr _ (zb _ s)) [0; 1; 2]%nat = [XIdle; XIdle; XIdle] /\
  map (uthr _ x) [0; 1; 2]%nat = [UIdle; UIdle; UIdle] /\
  (ftail (ua _ x) - fhead (ua _ x)) + (ftail (ub _ x) - fhead (ub _ x)) = 2.
Proof. vm_compute. repeat split; reflexivity. Qed.
Example exf_double_reserve_not_wf : ~ zxf_wf 4 2 1 (wake_rule_fullsync 2) (wake_res_code 2) exf_evs_double.
Proof. intros W. unfold zxf_wf, exf_evs_double in W. cbn [app zsteps repeat zxfwf_run] in W. destruct W as (_ & _ & _ & (W & _) & _). vm_compute in W. discriminate. Qed.
(* (b) a cancel racing a send of the same name puts the id into BOTH rings *)
Definition exf_evs_race : list zxev :=
  [ZStart 1 (ZoReserve 0 70)] ++ zsteps 1 2 ++ [ZStart 1 (ZoSendRes 0); ZStart 2 (ZoCancelRes 0)] ++ zsteps 1 12 ++ zsteps 2 4.
Example exf_send_racing_cancel_duplicates_a_slot : let s := exf_run exf_evs_race in let x := zq fsst s in
  finring (ua _ x) = [1; 2; 3; 0] /\ finring (ub _ x) = [0] /\ map (zthr _ s) [0; 1; 2]%nat = [ZN; ZN; ZN] /\
  zlog _ s = [(1, XSlot 0); (1, XSent 0); (2, XCancelled 0)]%nat.
Proof. vm_compute. repeat split; reflexivity. Qed.
Example exf_race_not_wf : ~ zxf_wf 4 2 1 (wake_rule_fullsync 2) (wake_res_code 2) exf_evs_race.
Proof.
  intros W. unfold zxf_wf, exf_evs_race in W. cbn [app zsteps repeat zxfwf_run] in W. destruct W as (_ & _ & _ & _ & W & _).
  apply (W 1%nat). vm_compute. reflexivity.
Qed.

Print Assumptions zxfs_slots_conserved.
Print Assumptions zxfs_no_leak.
Print Assumptions zxfs_reserved_exclusive.
Print Assumptions zxfs_entries_exclusive.
Print Assumptions zxfs_sendres_never_full.
Print Assumptions zxfs_cancel_never_full.
Print Assumptions zxfs_sendres_steps.
Print Assumptions zxfs_cancel_steps.
Print Assumptions zxf_wf_check.
Print Assumptions exf_wf3.
Print Assumptions exf_conserved2.
Print Assumptions exf_double_reserve_not_wf.
Print Assumptions exf_race_not_wf.
