(* Stream-id bookkeeping (C10) of the arc / full-sync Multi channel machine (MultiFS.v): port of the BInv part of MultiProps.v.
   The streams manager of the two machines is the same, so are the invariant and the proofs (after st -> fsst, start -> fstart,
   step N idz idz -> fstep N idz); `stepped` (a predicate on the shared pc type) is MultiProps.v's, `mtid` is FanOutFS.v's,
   `atomic_ev` is restated for MultiFSProps.mev. *)
From RM Require Import RingModel FullSync Chan Multi MultiFS MultiFSProps.
From RM Require MultiProps FanOutFS.
Import MFS.

Section MultiFSBook.
Variable N : Z.
Variable M : nat.
Local Notation mexec := (MultiFSProps.mexec N M).
Local Notation stepped := MultiProps.stepped.
Local Notation mtid := FanOutFS.mtid.

(* ---- stream-id bookkeeping (C10) ---- *)
Record BInv (s : mst) : Prop := {
  b_nodup : NoDup (vacant s);
  b_range : forall i, In i (vacant s) -> (i < M)%nat;
  b_alive : forall i, alive s i = true <-> ((i < M)%nat /\ ~ In i (vacant s))
}.

Lemma binv_init : BInv (minit M).
Proof.
  constructor; cbn.
  - apply seq_NoDup.
  - intros i Hi. apply in_seq in Hi. lia.
  - intros i. split; [discriminate|]. intros [Hlt Hn]. exfalso. apply Hn. apply in_seq. lia.
Qed.

Lemma binv_send_next s t v j : BInv s -> BInv (send_next M s t v j).
Proof. intros [H1 H2 H3]. unfold send_next. destruct (M <=? j)%nat; constructor; cbn; auto. Qed.


(* the stepped creation / removal of listeners (C17) is excluded from the C10 bookkeeping theorems: C10's histories create and
   drop listeners between sends, as single steps *)
Definition atomic_ev (e : mev) : bool :=
  match e with MStart _ MoCreateS | MStart _ (MoDropS _) => false | _ => true end.

Lemma binv_exec s e : BInv s -> (forall t i, e = MStep t -> mthr s t = MDrop i -> alive s i = true) ->
  (forall t, e = MStep t -> stepped (mthr s t) = false) -> atomic_ev e = true -> BInv (mexec s e).
Proof.
  intros B Hd Hk Hat. pose proof B as [H1 H2 H3]. destruct e as [t|t o]; cbn.
  - unfold mstep. specialize (Hk t eq_refl). destruct (mthr s t) eqn:E; try discriminate Hk; try exact B; try (constructor; cbn; auto; fail).
    + destruct (used_at s j =? MAXID); constructor; cbn; auto.
    + destruct (ridle _ t); [destruct (rres _); try destruct (_ <=? 1)|]; try (constructor; cbn; auto; fail);
        apply binv_send_next; constructor; cbn; auto.
    + destruct (wstep (msm s) w) as [m' [w'|]]; [constructor; cbn; auto|].
      destruct full; [constructor; cbn; auto|apply binv_send_next; constructor; cbn; auto].
    + destruct (ridle _ t); [unfold after_mcons; destruct (rres _)|]; constructor; cbn; auto.
    + destruct (ridle _ t); [unfold after_mcons; destruct (rres _)|]; constructor; cbn; auto.
    + destruct (keep _ _); constructor; cbn; auto.
    + destruct r; try (constructor; cbn; auto; fail); [destruct (wakers _ _)|destruct (wlock _)]; try exact B; constructor; cbn; auto.
    + destruct (notified _ _); [constructor; cbn; auto|exact B].
    + (* create: pop the vacant FIFO *)
      destruct (vacant s) as [|id rest] eqn:Ev; [constructor; cbn; rewrite ?Ev; auto|].
      inversion H1 as [|? ? Hnin Hnd]; subst. constructor; cbn.
      * exact Hnd.
      * intros i Hi. apply H2. now right.
      * intros i. unfold upd. destruct (Nat.eqb_spec i id) as [->|Hne].
        -- split; [intros _; split; [apply H2; now left|exact Hnin]|reflexivity].
        -- rewrite H3. split; intros [Hl Hn]; (split; [assumption|]); intros Hin; apply Hn; [now right|destruct Hin; [congruence|assumption]].
    + (* drop: push the id back *)
      assert (Ha : alive s i = true) by (eapply Hd; eauto). apply H3 in Ha. destruct Ha as [Hl Hn].
      constructor; cbn.
      * apply NoDup_app_one; assumption.
      * intros j Hj. apply in_app_or in Hj. destruct Hj as [Hj|[<-|[]]]; [now apply H2|assumption].
      * intros j. unfold upd. destruct (Nat.eqb_spec j i) as [->|Hne].
        -- split; [discriminate|]. intros [_ Hx]. exfalso. apply Hx. apply in_or_app. right. now left.
        -- rewrite H3. split; intros [Hl' Hn']; (split; [assumption|]); intros Hin; apply Hn'.
           ++ apply in_app_or in Hin. destruct Hin as [Hin|[Hin|[]]]; [assumption|congruence].
           ++ apply in_or_app. now left.
  - unfold mstart. destruct (mthr s t); try exact B.
    destruct o; try discriminate Hat; try (constructor; cbn; auto; fail).
    + apply binv_send_next. exact B.
    + destruct (alive s i); constructor; cbn; auto.
    + destruct (alive s i); constructor; cbn; auto.
    + destruct (alive s i); constructor; cbn; auto.
    + destruct (last_created _ _) as [i|]; [destruct (alive s i)|]; constructor; cbn; auto.
Qed.


Record SInv1 (s : mst) : Prop := {
  s1_b : BInv s;
  s1_idle : forall t, t <> 0%nat -> mthr s t = MIdle;
  s1_drop : forall i, mthr s 0%nat = MDrop i -> alive s i = true;
  s1_k : stepped (mthr s 0%nat) = false
}.

Lemma mthr_send_next s t v j u : u <> t -> mthr (send_next M s t v j) u = mthr s u.
Proof. intros H. unfold send_next. destruct (M <=? j)%nat; cbn; now rewrite upd_other. Qed.
Lemma alive_send_next s t v j : alive (send_next M s t v j) = alive s.
Proof. unfold send_next. destruct (M <=? j)%nat; reflexivity. Qed.
Lemma mthr_send_next_same s t v j i : mthr (send_next M s t v j) t <> MDrop i.
Proof. unfold send_next. destruct (M <=? j)%nat; cbn; rewrite upd_same; discriminate. Qed.

Lemma sinv1_exec s e : mtid e = 0%nat -> atomic_ev e = true -> SInv1 s -> SInv1 (mexec s e).
Proof.
  intros Ht Hat [B Hi Hd Hk]. assert (B' : BInv (mexec s e)).
  { apply binv_exec; [exact B| | |exact Hat].
    - intros t i -> E. cbn in Ht. subst t. now apply Hd.
    - intros t ->. cbn in Ht. subst t. exact Hk. }
  constructor; [exact B'| | |].
  - (* other threads stay idle *)
    intros u Hu. destruct e as [t|t o]; cbn in Ht; subst t; cbn.
    + unfold mstep, after_mcons. destruct (mthr s 0%nat) eqn:E; try discriminate Hk; try (now apply Hi);
        repeat match goal with
               | |- context[send_next] => rewrite mthr_send_next by assumption
               | |- context[if ?b then _ else _] => destruct b
               | |- context[match ?x with _ => _ end] => destruct x
               end; cbn; rewrite ?mthr_send_next by assumption; cbn; rewrite ?upd_other by assumption; try (now apply Hi).
    + unfold mstart. destruct (mthr s 0%nat); try (now apply Hi).
      destruct o; try discriminate Hat; try destruct (alive s i); try (destruct (last_created _ _) as [i0|]; [destruct (alive s i0)|]);
        rewrite ?mthr_send_next by assumption; cbn; rewrite ?upd_other by assumption; now apply Hi.
  - (* a pending drop targets a live stream *)
    intros i. destruct e as [t|t o]; cbn in Ht; subst t; cbn.
    + unfold mstep, after_mcons. destruct (mthr s 0%nat) eqn:E; try discriminate Hk; try (now apply Hd);
        repeat match goal with
               | |- context[if ?b then _ else _] => destruct b
               | |- context[match ?x with _ => _ end] => destruct x
               end; cbn; rewrite ?upd_same; try discriminate; try (now apply Hd); try (rewrite E; discriminate); try (rewrite E; now apply Hd);
        try (intros H; exfalso; eapply mthr_send_next_same; eauto; fail).
    + unfold mstart. destruct (mthr s 0%nat) eqn:E; try (now apply Hd); try (rewrite E; discriminate); try (rewrite E; now apply Hd).
      destruct o; try discriminate Hat; try (destruct (alive s i0) eqn:Ea); try (destruct (last_created _ _) as [i1|]; [destruct (alive s i1)|]);
        cbn; rewrite ?upd_same; try discriminate;
        try (intros H; exfalso; eapply mthr_send_next_same; eauto; fail).
      intros H. injection H as <-. exact Ea.
  - (* no stepped creation / removal is ever in progress *)
    destruct e as [t|t o]; cbn in Ht; subst t; cbn.
    + unfold mstep, after_mcons, send_next. destruct (mthr s 0%nat) eqn:E; try discriminate Hk; try (rewrite E; reflexivity);
        repeat match goal with
               | |- context[if ?b then _ else _] => destruct b
               | |- context[match ?x with _ => _ end] => destruct x
               end; cbn; rewrite ?upd_same; try reflexivity; try (rewrite E; reflexivity).
    + unfold mstart, send_next. destruct (mthr s 0%nat) eqn:E; try (rewrite E; exact Hk); try (rewrite E; reflexivity).
      destruct o; try discriminate Hat; try (destruct (last_created _ _) as [i1|]);
        repeat match goal with |- context[if ?b then _ else _] => destruct b end; cbn; rewrite ?upd_same; reflexivity.
Qed.

Theorem bookkeeping_sequential mevs : Forall (fun e => mtid e = 0%nat /\ atomic_ev e = true) mevs -> BInv (fold_left mexec mevs (minit M)).
Proof.
  intros H. assert (G : forall s, SInv1 s -> SInv1 (fold_left mexec mevs s)).
  { induction H as [|e mevs [He Ha] Hr IH]; intros s I; [exact I|]. cbn [fold_left]. apply IH. now apply sinv1_exec. }
  apply G. constructor; [apply binv_init|reflexivity|discriminate|reflexivity].
Qed.

(* stream ids never run out: if some id below MAX_STREAMS is not alive, the vacant list is not empty (so create succeeds) *)
Theorem ids_never_exhausted s : BInv s -> (exists i, (i < M)%nat /\ alive s i = false) -> vacant s <> [].
Proof.
  intros B [i [Hl Ha]] Hv. assert (alive s i = true); [|congruence].
  apply (b_alive _ B). split; [assumption|]. rewrite Hv. intros [].
Qed.

End MultiFSBook.

Print Assumptions bookkeeping_sequential.
Print Assumptions ids_never_exhausted.
