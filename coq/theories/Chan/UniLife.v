(* C10, "the same create / drop bookkeeping for Uni channels": sequential histories (one thread) of create-stream / drop-stream / send /
   poll / count on a Uni channel - the streams manager's bookkeeping (`create_stream_id`, `report_stream_dropped`: the vacant-ids FIFO,
   the running-streams counter) over ONE queue shared by all the streams.  Operations are whole calls (the interleavings of the same
   manager code are C17's, on the Multi model); the model is compared with the five Uni channel kinds answer by answer.

     create    : an id from the head of the vacant FIFO; the counter goes up.  With no vacant id the call panics - after the repair of
                 finding F18 it first takes back what it had counted, so the failed call changes nothing.
     drop j    : the j-th stream created so far (if it is still alive): its id goes to the back of the vacant FIFO; the counter goes down.
     send v    : accepted iff fewer than N events are pending.
     poll j    : the j-th stream created (if alive) yields the oldest pending event, or answers Pending.
     count     : running_streams_count and pending_items_count *)
From RM Require Import Util.
From Coq Require Import Permutation.
Open Scope Z_scope.

Inductive lop := LoCreate | LoDrop (j : nat) | LoSend (v : Z) | LoPoll (j : nat) | LoCount.
Inductive lans :=
| LaCreated (id : nat) (cnt : Z) | LaExhausted (cnt : Z) | LaDropped (id : nat) (cnt : Z) | LaNotAlive (j : nat)
| LaSent (v : Z) | LaFull (v : Z) | LaYield (v : Z) (id : nat) | LaPending (id : nat) | LaCount (cnt pending : Z).

Record lst := {
  lvacant : list nat;            (* the vacant-ids FIFO *)
  lcount : Z;                    (* used_streams_count *)
  lstreams : list (option nat);  (* the streams created so far, in creation order: Some id while alive *)
  lqueue : list Z;               (* pending events, oldest first *)
  lanswers : list lans
}.

Section UniLife.
Variable N : Z.      (* BUFFER_SIZE *)
Variable M : nat.    (* MAX_STREAMS *)

Definition linit0 : lst := {| lvacant := seq 0 M; lcount := 0; lstreams := []; lqueue := []; lanswers := [] |}.

Definition set_nth {A} (l : list A) (j : nat) (x : A) : list A := firstn j l ++ x :: skipn (S j) l.

Definition lstep (s : lst) (o : lop) : lst :=
  match o with
  | LoCreate =>
      match lvacant s with
      | id :: rest => {| lvacant := rest; lcount := lcount s + 1; lstreams := lstreams s ++ [Some id]; lqueue := lqueue s;
                         lanswers := lanswers s ++ [LaCreated id (lcount s + 1)] |}
      | [] => {| lvacant := []; lcount := lcount s; lstreams := lstreams s ++ [None]; lqueue := lqueue s;
                 lanswers := lanswers s ++ [LaExhausted (lcount s)] |}
      end
  | LoDrop j =>
      match nth j (lstreams s) None with
      | Some id => {| lvacant := lvacant s ++ [id]; lcount := lcount s - 1; lstreams := set_nth (lstreams s) j None; lqueue := lqueue s;
                      lanswers := lanswers s ++ [LaDropped id (lcount s - 1)] |}
      | None => {| lvacant := lvacant s; lcount := lcount s; lstreams := lstreams s; lqueue := lqueue s; lanswers := lanswers s ++ [LaNotAlive j] |}
      end
  | LoSend v =>
      if Z.of_nat (length (lqueue s)) <? N
      then {| lvacant := lvacant s; lcount := lcount s; lstreams := lstreams s; lqueue := lqueue s ++ [v]; lanswers := lanswers s ++ [LaSent v] |}
      else {| lvacant := lvacant s; lcount := lcount s; lstreams := lstreams s; lqueue := lqueue s; lanswers := lanswers s ++ [LaFull v] |}
  | LoPoll j =>
      match nth j (lstreams s) None with
      | Some id =>
          match lqueue s with
          | v :: rest => {| lvacant := lvacant s; lcount := lcount s; lstreams := lstreams s; lqueue := rest; lanswers := lanswers s ++ [LaYield v id] |}
          | [] => {| lvacant := lvacant s; lcount := lcount s; lstreams := lstreams s; lqueue := []; lanswers := lanswers s ++ [LaPending id] |}
          end
      | None => {| lvacant := lvacant s; lcount := lcount s; lstreams := lstreams s; lqueue := lqueue s; lanswers := lanswers s ++ [LaNotAlive j] |}
      end
  | LoCount => {| lvacant := lvacant s; lcount := lcount s; lstreams := lstreams s; lqueue := lqueue s;
                  lanswers := lanswers s ++ [LaCount (lcount s) (Z.of_nat (length (lqueue s)))] |}
  end.

Definition lrun (ops : list lop) : lst := fold_left lstep ops linit0.

(* ------------------------------------------------------------------------------------------------ bookkeeping invariant *)
Definition live_ids (s : lst) : list nat := flat_map (fun o => match o with Some id => [id] | None => [] end) (lstreams s).

Record LifeInv (s : lst) : Prop := {
  li_perm : Permutation (lvacant s ++ live_ids s) (seq 0 M);     (* every id is vacant or alive, exactly once *)
  li_count : lcount s = Z.of_nat (length (live_ids s));           (* the running count is the number of live streams *)
  li_cap : lqueue s = [] \/ Z.of_nat (length (lqueue s)) <= N
}.

Lemma live_ids_app l1 l2 : flat_map (fun o : option nat => match o with Some id => [id] | None => [] end) (l1 ++ l2)
  = flat_map (fun o : option nat => match o with Some id => [id] | None => [] end) l1 ++ flat_map (fun o : option nat => match o with Some id => [id] | None => [] end) l2.
Proof. apply flat_map_app. Qed.

Lemma nth_split_some (l : list (option nat)) j id : nth j l None = Some id -> l = firstn j l ++ Some id :: skipn (S j) l.
Proof.
  revert j. induction l as [|x l IH]; intros j H; [destruct j; discriminate|].
  destruct j as [|j]; cbn in *; [now subst|]. f_equal. now apply IH.
Qed.

Lemma inv_step s o : LifeInv s -> LifeInv (lstep s o).
Proof.
  intros [Hp Hc Hq]. destruct o as [|j|v|j|]; unfold lstep.
  - destruct (lvacant s) as [|id rest] eqn:Ev.
    + constructor; cbn [lvacant lcount lstreams lqueue]; auto.
      * unfold live_ids. cbn [lstreams]. rewrite live_ids_app. cbn. rewrite app_nil_r. exact Hp.
      * unfold live_ids in *. cbn [lstreams]. rewrite live_ids_app. cbn. rewrite app_nil_r. exact Hc.
    + constructor; cbn [lvacant lcount lstreams lqueue]; auto.
      * unfold live_ids in *. cbn [lstreams]. rewrite live_ids_app. cbn [flat_map app].
        eapply Permutation_trans; [|exact Hp]. cbn [app].
        rewrite app_assoc. apply Permutation_sym, Permutation_cons_append.
      * unfold live_ids in *. cbn [lstreams]. rewrite live_ids_app, app_length. cbn. lia.
  - destruct (nth j (lstreams s) None) as [id|] eqn:En.
    + pose proof (nth_split_some _ _ _ En) as Hs.
      assert (Hl : live_ids s = flat_map (fun o : option nat => match o with Some i => [i] | None => [] end) (firstn j (lstreams s)) ++ id ::
                                flat_map (fun o : option nat => match o with Some i => [i] | None => [] end) (skipn (S j) (lstreams s))).
      { unfold live_ids. rewrite Hs at 1. rewrite live_ids_app. reflexivity. }
      assert (Hl' : flat_map (fun o : option nat => match o with Some i => [i] | None => [] end) (set_nth (lstreams s) j None) =
                    flat_map (fun o : option nat => match o with Some i => [i] | None => [] end) (firstn j (lstreams s)) ++
                    flat_map (fun o : option nat => match o with Some i => [i] | None => [] end) (skipn (S j) (lstreams s))).
      { unfold set_nth. rewrite live_ids_app. reflexivity. }
      constructor; cbn [lvacant lcount lstreams lqueue]; auto.
      * unfold live_ids at 1. cbn [lstreams]. rewrite Hl'. eapply Permutation_trans; [|exact Hp]. rewrite Hl.
        rewrite <- app_assoc. apply Permutation_app_head. cbn. apply Permutation_middle.
      * unfold live_ids at 1. cbn [lstreams]. rewrite Hl'. rewrite Hc, Hl, !app_length. cbn [length].
        generalize (length (flat_map (fun o : option nat => match o with Some i => [i] | None => [] end) (firstn j (lstreams s)))).
        generalize (length (flat_map (fun o : option nat => match o with Some i => [i] | None => [] end) (skipn (S j) (lstreams s)))). clear. intros a b. lia.
    + constructor; auto.
  - destruct (Z.ltb_spec (Z.of_nat (length (lqueue s))) N); constructor; cbn [lvacant lcount lstreams lqueue]; auto.
    right. rewrite app_length. cbn [length]. lia.
  - destruct (nth j (lstreams s) None) as [id|]; [destruct (lqueue s) as [|v rest] eqn:Eq|]; constructor; cbn [lvacant lcount lstreams lqueue]; auto.
    + destruct Hq as [Hq|Hq]; [discriminate|]. right. cbn [length] in Hq. lia.
  - constructor; auto.
Qed.

Lemma inv_init : LifeInv linit0.
Proof. constructor; cbn; [rewrite app_nil_r; apply Permutation_refl|reflexivity|now left]. Qed.

Theorem life_invariant ops : LifeInv (lrun ops).
Proof.
  unfold lrun. assert (G : forall s, LifeInv s -> LifeInv (fold_left lstep ops s)).
  { induction ops as [|o ops IH]; intros s I; [exact I|]. cbn [fold_left]. apply IH. now apply inv_step. }
  apply G, inv_init.
Qed.

Lemma nodup_app_parts {A} (l1 l2 : list A) : NoDup (l1 ++ l2) -> NoDup l1 /\ NoDup l2 /\ (forall x, In x l2 -> ~ In x l1).
Proof.
  induction l1 as [|a l1 IH]; cbn; intros H; [repeat split; [constructor|exact H|intros x _ []]|].
  inversion H as [|? ? Ha Hr]; subst. destruct (IH Hr) as (H1 & H2 & H3). repeat split; auto.
  - constructor; [|exact H1]. intros Hin. apply Ha. apply in_or_app. now left.
  - intros x Hx [->|Hin]; [apply Ha; apply in_or_app; now right|now apply (H3 x)].
Qed.

(* at most MAX_STREAMS streams exist, the running count is their number, and a creation succeeds whenever fewer than MAX_STREAMS are alive:
   creating and dropping any number of times never exhausts the ids *)
Theorem life_bookkeeping ops :
  let s := lrun ops in
  lcount s = Z.of_nat (length (live_ids s)) /\ (length (live_ids s) <= M)%nat /\ NoDup (live_ids s) /\ NoDup (lvacant s) /\
  (forall i, In i (live_ids s) -> ~ In i (lvacant s)) /\
  ((length (live_ids s) < M)%nat -> lvacant s <> []).
Proof.
  intros s. destruct (life_invariant ops) as [Hp Hc _]. fold s in Hp, Hc.
  pose proof (Permutation_length Hp) as Hlen. rewrite app_length, seq_length in Hlen.
  assert (Hnd : NoDup (lvacant s ++ live_ids s)) by (eapply Permutation_NoDup; [apply Permutation_sym; exact Hp|apply seq_NoDup]).
  destruct (nodup_app_parts _ _ Hnd) as (Hv & Hl & Hdis).
  split; [exact Hc|]. split; [lia|]. split; [exact Hl|]. split; [exact Hv|]. split; [exact Hdis|].
  intros Hlt E. rewrite E in Hlen. cbn in Hlen. lia.
Qed.

(* the events: what the streams yielded so far followed by what is pending is exactly what was accepted, in order - each accepted event
   goes to exactly one stream, at most once, nothing invented *)
Definition sent_of (l : list lans) : list Z := flat_map (fun a => match a with LaSent v => [v] | _ => [] end) l.
Definition yields_of (l : list lans) : list Z := flat_map (fun a => match a with LaYield v _ => [v] | _ => [] end) l.

Theorem life_events ops : let s := lrun ops in yields_of (lanswers s) ++ lqueue s = sent_of (lanswers s).
Proof.
  unfold lrun. assert (G : forall s, yields_of (lanswers s) ++ lqueue s = sent_of (lanswers s) ->
                                let s' := fold_left lstep ops s in yields_of (lanswers s') ++ lqueue s' = sent_of (lanswers s')).
  { induction ops as [|o ops IH]; intros s H; [exact H|]. cbn [fold_left]. apply IH.
    unfold yields_of, sent_of in *. destruct o as [|j|v|j|]; unfold lstep.
    - destruct (lvacant s); cbn [lanswers lqueue]; rewrite !flat_map_app; cbn; rewrite !app_nil_r; exact H.
    - destruct (nth j (lstreams s) None); cbn [lanswers lqueue]; rewrite !flat_map_app; cbn; rewrite !app_nil_r; exact H.
    - destruct (_ <? N); cbn [lanswers lqueue]; rewrite !flat_map_app; cbn; rewrite ?app_nil_r; [|exact H].
      rewrite app_assoc, H. reflexivity.
    - destruct (nth j (lstreams s) None); [destruct (lqueue s) as [|v rest] eqn:Eq|]; cbn [lanswers lqueue]; rewrite !flat_map_app; cbn [flat_map app];
        rewrite ?app_nil_r in *; try exact H.
      rewrite <- app_assoc. exact H.
    - cbn [lanswers lqueue]. rewrite !flat_map_app. cbn. rewrite !app_nil_r. exact H. }
  apply G. reflexivity.
Qed.

End UniLife.

(* ---- runner ---- *)
Definition lans_code (a : lans) : list Z :=
  match a with
  | LaCreated id c => [2; 0; 40; Z.of_nat id; c] | LaExhausted c => [2; 0; 41; 0; c] | LaDropped id c => [2; 0; 42; Z.of_nat id; c]
  | LaNotAlive j => [2; 0; 43; Z.of_nat j; 0] | LaSent v => [2; 0; 10; v; 0] | LaFull v => [2; 0; 11; v; 0]
  | LaYield v id => [2; 0; 12; v; Z.of_nat id] | LaPending id => [2; 0; 13; Z.of_nat id; 0] | LaCount c p => [2; 0; 15; c; p]
  end.
Definition run_unilife (N : Z) (M : nat) (ops : list lop) : list Z :=
  flat_map lans_code (lanswers (lrun N M ops)) ++ [9].
