(* Listener creation / removal at one shared access per step (the K.. pcs), racing with anything else, on the arc / full-sync
   Multi channel machine (MultiFS.v): port of Churn.v (same invariant J, same argument - the streams manager of the two machines
   is the same).  Once no creation / removal is between its change of the vacant queue and the end of its rebuild, the
   used_streams array is exactly the list of live ids - whatever the interleaving was, with any number of concurrent creators
   and removers.  `pending` / `writing` / `atomic_pc` (predicates on the shared pc type) are Churn.v's; P, consistent, stepped_ev
   are restated for MFS.mst / MultiFSProps.mev. *)
From RM Require Import RingModel FullSync Chan Multi MultiFS MultiFSProps.
From RM Require Churn.
Import MFS.

Section ChurnFS.
Variable N : Z.
Variable M : nat.
Hypothesis HM : (0 < M)%nat.
Local Notation mexec := (MultiFSProps.mexec N M).
Local Notation pending := Churn.pending.
Local Notation writing := Churn.writing.
Local Notation atomic_pc := Churn.atomic_pc.

Definition P (s : mst) : Prop := forall t, pending (mthr s t) = false.
Definition consistent (s : mst) : Prop := forall j, (j < M)%nat -> usedarr (mx s) j = arr_of M (vacant s) j.
(* the creations / removals of this file's theorem are the stepped ones *)
Definition stepped_ev (e : mev) : bool := match e with MStart _ MoCreate | MStart _ (MoDrop _) => false | _ => true end.

Record J (s : mst) : Prop := {
  j_w  : forall t r snap j, mthr s t = KSW r snap j ->
           slock (mx s) = true /\ (j < M)%nat /\ (forall j', (j' < j)%nat -> usedarr (mx s) j' = nth j' snap MAXID) /\
           (P s -> snap = used_list M (vacant s));
  j_u  : forall t r, mthr s t = KSU r -> slock (mx s) = true /\ (P s -> consistent s);
  j_mx : forall t u, writing (mthr s t) = true -> writing (mthr s u) = true -> t = u;
  j_fr : slock (mx s) = false -> forall t, writing (mthr s t) = false;
  j_q  : (forall t, writing (mthr s t) = false) -> P s -> consistent s;
  j_na : forall t, atomic_pc (mthr s t) = false
}.

Lemma arr_of_full j : arr_of M (seq 0 M) j = MAXID.
Proof.
  unfold arr_of, used_list.
  assert (E : filter (fun i => negb (existsb (Nat.eqb i) (seq 0 M))) (seq 0 M) = []).
  { assert (G : forall l, (forall x, In x l -> In x (seq 0 M)) -> filter (fun i => negb (existsb (Nat.eqb i) (seq 0 M))) l = []).
    { induction l as [|a l IH]; intros Hl; [reflexivity|]. cbn [filter].
      assert (Ha : existsb (Nat.eqb a) (seq 0 M) = true). { apply existsb_exists. exists a. split; [apply Hl; now left|apply Nat.eqb_refl]. }
      rewrite Ha. cbn [negb]. apply IH. intros x Hx. apply Hl. now right. }
    apply G. auto. }
  rewrite E. cbn [map length app]. rewrite Nat.sub_0_r.
  destruct (Nat.lt_ge_cases j M) as [Hj|Hj]; [apply nth_repeat|].
  apply nth_overflow. now rewrite repeat_length.
Qed.

Lemma j_init : J (minit M).
Proof.
  constructor; try (cbn; discriminate); try (cbn; auto; fail).
  intros _ _ j Hj. change (vacant (minit M)) with (seq 0 M). rewrite arr_of_full. reflexivity.
Qed.

(* steps that touch neither the vacant queue, nor used_streams, nor streams_lock, by a thread that is not rebuilding *)
Record Frame (s s' : mst) : Prop := {
  fr_u : usedarr (mx s') = usedarr (mx s);
  fr_l : slock (mx s') = slock (mx s);
  fr_v : vacant s' = vacant s;
  fr_w : forall u, (writing (mthr s u) = true \/ writing (mthr s' u) = true) -> mthr s' u = mthr s u;
  fr_p : forall u, pending (mthr s' u) = pending (mthr s u);
  fr_a : forall u, atomic_pc (mthr s' u) = false
}.

Lemma j_frame s s' : Frame s s' -> J s -> J s'.
Proof.
  intros [Fu Fl Fv Fw Fp Fa] [Hw Hu Hmx Hfr Hq Hna].
  assert (PP : P s' <-> P s). { unfold P. split; intros H t; [rewrite <- Fp|rewrite Fp]; apply H. }
  assert (WW : forall u, writing (mthr s' u) = writing (mthr s u)).
  { intros u. destruct (writing (mthr s u)) eqn:E1.
    - rewrite (Fw u) by (now left). exact E1.
    - destruct (writing (mthr s' u)) eqn:E2; [|reflexivity]. rewrite (Fw u) in E2 by (now right). congruence. }
  constructor.
  - intros t r snap j E. assert (E' : mthr s t = KSW r snap j). { rewrite <- (Fw t); [exact E|right; now rewrite E]. }
    destruct (Hw _ _ _ _ E') as (H1 & H2 & H3 & H4). rewrite Fl, Fu, Fv. repeat split; auto. intros HP. apply H4. now apply PP.
  - intros t r E. assert (E' : mthr s t = KSU r). { rewrite <- (Fw t); [exact E|right; now rewrite E]. }
    destruct (Hu _ _ E') as (H1 & H2). rewrite Fl. split; [exact H1|]. intros HP j Hj. rewrite Fu, Fv. apply H2; [now apply PP|exact Hj].
  - intros t u H1 H2. rewrite WW in H1, H2. eauto.
  - intros Hl t. rewrite WW. apply Hfr. now rewrite <- Fl.
  - intros Hn HP j Hj. rewrite Fu, Fv. apply Hq; [intros t; rewrite <- WW; apply Hn|now apply PP|exact Hj].
  - exact Fa.
Qed.

(* the usual shape: only thread t's pc changes, to a pc of the same kind *)
Lemma frame_upd s s' t p' :
  J s -> usedarr (mx s') = usedarr (mx s) -> slock (mx s') = slock (mx s) -> vacant s' = vacant s ->
  mthr s' = upd (mthr s) t p' ->
  writing (mthr s t) = false -> writing p' = false -> pending p' = pending (mthr s t) -> atomic_pc p' = false ->
  Frame s s'.
Proof.
  intros Js Hu Hl Hv Ht W1 W2 Pp Ap. constructor; auto; intros u; rewrite Ht; unfold upd; destruct (Nat.eqb_spec u t) as [->|Hne]; auto.
  - intros [H|H]; congruence.
  - apply (j_na _ Js).
Qed.

Lemma frame_same s s' :
  J s -> usedarr (mx s') = usedarr (mx s) -> slock (mx s') = slock (mx s) -> vacant s' = vacant s -> mthr s' = mthr s -> Frame s s'.
Proof. intros Js Hu Hl Hv Ht. constructor; auto; intros u; rewrite Ht; auto. apply (j_na _ Js). Qed.


(* a change of the vacant queue: the thread becomes `pending` *)
Lemma j_modify s s' t p' :
  J s -> usedarr (mx s') = usedarr (mx s) -> slock (mx s') = slock (mx s) -> mthr s' = upd (mthr s) t p' ->
  writing (mthr s t) = false -> writing p' = false -> pending p' = true -> atomic_pc p' = false -> J s'.
Proof.
  intros [Hw Hu Hmx Hfr Hq Hna] Eu El Et W1 W2 Pp Ap.
  assert (NP : ~ P s'). { intros HP. specialize (HP t). rewrite Et, upd_same in HP. congruence. }
  assert (WW : forall u, writing (mthr s' u) = writing (mthr s u)).
  { intros u. rewrite Et. unfold upd. destruct (Nat.eqb_spec u t) as [->|]; congruence. }
  assert (SW : forall u, writing (mthr s' u) = true -> mthr s' u = mthr s u).
  { intros u H. rewrite Et in H |- *. unfold upd in H |- *. destruct (Nat.eqb_spec u t) as [Heq|Hne]; [subst u; congruence|reflexivity]. }
  constructor.
  - intros u r snap j E. assert (E' : mthr s u = KSW r snap j) by (rewrite <- SW; [exact E|now rewrite E]).
    destruct (Hw _ _ _ _ E') as (H1 & H2 & H3 & _). rewrite El, Eu. repeat split; auto. intros HP. contradiction.
  - intros u r E. assert (E' : mthr s u = KSU r) by (rewrite <- SW; [exact E|now rewrite E]).
    destruct (Hu _ _ E') as (H1 & _). rewrite El. split; [exact H1|]. intros HP. contradiction.
  - intros a b H1 H2. rewrite WW in H1, H2. eauto.
  - intros Hl u. rewrite WW. apply Hfr. now rewrite <- El.
  - intros _ HP. contradiction.
  - intros u. rewrite Et. unfold upd. destruct (Nat.eqb_spec u t); auto.
Qed.

Lemma j_lock s s' t r :
  J s -> mthr s t = KSL r -> slock (mx s) = false ->
  usedarr (mx s') = usedarr (mx s) -> slock (mx s') = true -> vacant s' = vacant s ->
  mthr s' = upd (mthr s) t (KSW r (used_list M (vacant s)) 0) -> J s'.
Proof.
  intros [Hw Hu Hmx Hfr Hq Hna] E Hl Eu El Ev Et.
  assert (NW : forall u, u <> t -> writing (mthr s' u) = false). { intros u Hne. rewrite Et, upd_other by assumption. now apply Hfr. }
  assert (Wt : writing (mthr s' t) = true) by (rewrite Et, upd_same; reflexivity).
  constructor.
  - intros u r0 snap j E0. destruct (Nat.eq_dec u t) as [->|Hne].
    + rewrite Et, upd_same in E0. injection E0 as <- <- <-. rewrite Ev. repeat split; auto. intros j' Hj'. lia.
    + specialize (NW u Hne). rewrite E0 in NW. discriminate.
  - intros u r0 E0. destruct (Nat.eq_dec u t) as [->|Hne].
    + rewrite Et, upd_same in E0. discriminate.
    + specialize (NW u Hne). rewrite E0 in NW. discriminate.
  - intros a b H1 H2. destruct (Nat.eq_dec a t) as [->|Ha]; [|rewrite NW in H1 by assumption; discriminate].
    destruct (Nat.eq_dec b t) as [->|Hb]; [reflexivity|rewrite NW in H2 by assumption; discriminate].
  - rewrite El. discriminate.
  - intros Hn. specialize (Hn t). congruence.
  - intros u. rewrite Et. unfold upd. destruct (Nat.eqb_spec u t); auto.
Qed.

Lemma j_write s s' t r snap j :
  J s -> mthr s t = KSW r snap j ->
  usedarr (mx s') = upd (usedarr (mx s)) j (nth j snap MAXID) -> slock (mx s') = slock (mx s) -> vacant s' = vacant s ->
  mthr s' = upd (mthr s) t (if (S j <? M)%nat then KSW r snap (S j) else KSU r) -> J s'.
Proof.
  intros [Hw Hu Hmx Hfr Hq Hna] E Eu El Ev Et.
  destruct (Hw _ _ _ _ E) as (L & Hj & Hpre & Hsnap).
  assert (Wt : writing (mthr s t) = true) by (rewrite E; reflexivity).
  assert (Wt' : writing (mthr s' t) = true) by (rewrite Et, upd_same; destruct (S j <? M)%nat; reflexivity).
  assert (Only : forall u, u <> t -> writing (mthr s' u) = false).
  { intros u Hne. rewrite Et, upd_other by assumption. destruct (writing (mthr s u)) eqn:W; [|reflexivity]. exfalso. apply Hne. eauto. }
  assert (PP : P s' <-> P s).
  { unfold P. split; intros H u; specialize (H u); try rewrite Et in H; try rewrite Et; unfold upd in *; destruct (Nat.eqb_spec u t) as [Heq|Hne]; auto; subst u.
    - rewrite E. reflexivity.
    - destruct (S j <? M)%nat; reflexivity. }
  assert (Pre' : forall j', (j' < S j)%nat -> usedarr (mx s') j' = nth j' snap MAXID).
  { intros j' Hj'. rewrite Eu. unfold upd. destruct (Nat.eqb_spec j' j) as [->|Hne]; [reflexivity|]. apply Hpre. lia. }
  constructor.
  - intros u r0 snap0 j0 E0. destruct (Nat.eq_dec u t) as [->|Hne]; [|specialize (Only u Hne); rewrite E0 in Only; discriminate].
    rewrite Et, upd_same in E0. destruct (S j <? M)%nat eqn:Lt; [|discriminate]. injection E0 as <- <- <-.
    apply Nat.ltb_lt in Lt. rewrite El, Ev. repeat split; auto. intros HP. apply Hsnap. now apply PP.
  - intros u r0 E0. destruct (Nat.eq_dec u t) as [->|Hne]; [|specialize (Only u Hne); rewrite E0 in Only; discriminate].
    rewrite Et, upd_same in E0. destruct (S j <? M)%nat eqn:Lt; [discriminate|]. apply Nat.ltb_ge in Lt.
    rewrite El. split; [exact L|]. intros HP j' Hj'. rewrite Ev, Pre' by lia. rewrite (Hsnap (proj1 PP HP)). reflexivity.
  - intros a b H1 H2. destruct (Nat.eq_dec a t) as [->|Ha]; [|rewrite Only in H1 by assumption; discriminate].
    destruct (Nat.eq_dec b t) as [->|Hb]; [reflexivity|rewrite Only in H2 by assumption; discriminate].
  - rewrite El, L. discriminate.
  - intros Hn. specialize (Hn t). congruence.
  - intros u. rewrite Et. unfold upd. destruct (Nat.eqb_spec u t); auto. destruct (S j <? M)%nat; reflexivity.
Qed.

Lemma j_unlock s s' t r :
  J s -> mthr s t = KSU r ->
  usedarr (mx s') = usedarr (mx s) -> vacant s' = vacant s -> mthr s' = upd (mthr s) t MIdle -> J s'.
Proof.
  intros [Hw Hu Hmx Hfr Hq Hna] E Eu Ev Et.
  destruct (Hu _ _ E) as (L & Hc).
  assert (Wt : writing (mthr s t) = true) by (rewrite E; reflexivity).
  assert (None : forall u, writing (mthr s' u) = false).
  { intros u. rewrite Et. unfold upd. destruct (Nat.eqb_spec u t) as [->|Hne]; [reflexivity|].
    destruct (writing (mthr s u)) eqn:W; [|reflexivity]. exfalso. apply Hne. eauto. }
  assert (PP : P s' <-> P s).
  { unfold P. split; intros H u; specialize (H u); try rewrite Et in H; try rewrite Et; unfold upd in *; destruct (Nat.eqb_spec u t) as [Heq|Hne]; auto; subst u.
    rewrite E. reflexivity. }
  constructor.
  - intros u r0 snap j E0. specialize (None u). rewrite E0 in None. discriminate.
  - intros u r0 E0. specialize (None u). rewrite E0 in None. discriminate.
  - intros a b H1. rewrite None in H1. discriminate.
  - intros _. exact None.
  - intros _ HP j Hj. rewrite Eu, Ev. apply Hc; [now apply PP|exact Hj].
  - intros u. rewrite Et. unfold upd. destruct (Nat.eqb_spec u t); auto.
Qed.


Ltac splits := repeat match goal with
                      | |- context[if ?b then _ else _] => destruct b eqn:?
                      | |- context[match ?x with _ => _ end] => destruct x eqn:?
                      end.
Ltac frame_tac Js t E :=
  first [ exact Js
        | eapply j_frame; [eapply frame_upd with (t := t);
                            [exact Js|reflexivity|reflexivity|(cbn; congruence)|reflexivity|rewrite E; reflexivity|reflexivity|rewrite E; reflexivity|reflexivity]
                          |exact Js]
        | eapply j_frame; [eapply frame_same; [exact Js|reflexivity|reflexivity|reflexivity|reflexivity]|exact Js] ].

Lemma j_exec s e : stepped_ev e = true -> J s -> J (mexec s e).
Proof.
  intros He Js. destruct e as [t|t o]; cbn [MultiFSProps.mexec].
  - unfold mstep, after_mcons, send_next, msetpc, mfinish.
    destruct (mthr s t) eqn:E;
      try (pose proof (j_na _ Js t) as Hn; rewrite E in Hn; discriminate Hn);
      try (splits; frame_tac Js t E; fail).
    + (* KC3: the vacant queue is popped *)
      destruct (vlock (mx s)); [exact Js|]. destruct (vacant s) as [|id rest] eqn:Ev.
      * frame_tac Js t E.
      * eapply j_modify with (t := t); [exact Js|reflexivity|reflexivity|reflexivity|rewrite E; reflexivity|reflexivity|reflexivity|reflexivity].
    + (* KD6: the id goes back to the vacant queue *)
      destruct (vlock (mx s)); [exact Js|].
      eapply j_modify with (t := t); [exact Js|reflexivity|reflexivity|reflexivity|rewrite E; reflexivity|reflexivity|reflexivity|reflexivity].
    + (* KSL: streams_lock acquired, snapshot of the vacant queue *)
      destruct (slock (mx s)) eqn:L; [exact Js|].
      eapply j_lock with (t := t); [exact Js|exact E|exact L|reflexivity|reflexivity|reflexivity|reflexivity].
    + (* KSW: one cell of used_streams written *)
      eapply j_write with (t := t); [exact Js|exact E|reflexivity|reflexivity|reflexivity|reflexivity].
    + (* KSU: streams_lock released *)
      eapply j_unlock with (t := t); [exact Js|exact E|reflexivity|reflexivity|reflexivity].
  - unfold mstart, send_next, msetpc, mfinish. destruct (mthr s t) eqn:E; try exact Js.
    destruct o; try discriminate He; splits; frame_tac Js t E.
Qed.

(* C17's positive core: for every schedule of stepped creations / removals (any number of them at once) racing with sends and
   polls, whenever no creation / removal is between its change of the vacant queue and the end of its rebuild, used_streams
   holds exactly the live ids, in order, followed by the sentinel *)
Theorem live_list_consistent mevs :
  Forall (fun e => stepped_ev e = true) mevs ->
  let s := fold_left mexec mevs (minit M) in
  (forall t, pending (mthr s t) = false /\ writing (mthr s t) = false) -> consistent s.
Proof.
  intros H. assert (G : forall s0, J s0 -> J (fold_left mexec mevs s0)).
  { induction H as [|e mevs He Hr IH]; intros s0 J0; [exact J0|]. cbn [fold_left]. apply IH. now apply j_exec. }
  intros s Hq. assert (Js : J s) by (apply G, j_init).
  apply (j_q _ Js); intros t; apply Hq.
Qed.

End ChurnFS.

Print Assumptions live_list_consistent.
