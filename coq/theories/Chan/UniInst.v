(* The two movable Uni channels as instances of the generic channel machine, over the ghost (unbounded Z) queue machines;
   discharge of the component contract; channel-level exactly-once / FIFO statements. *)
From RM Require Import RingModel RingInv RingProps FullSync Chan ChanProps.

(* ------------------------------------------------------------------------------------------ ring instance *)
Section UniAtomic.
Variable N : Z.
Hypothesis Npos : 0 < N.
Variable M k : nat.

Definition ua_exec := cexec st (stepZ N) start ring_idle log M k (wake_rule_atomic M).
Definition ua_init := cinit st k init.
Definition ua_run (cevs : list cev) := fold_left ua_exec cevs ua_init.

Definition ring_qop (s : st) (t : nat) : option op := op_of_pc (thr s t).

Lemma ring_idle_spec x t : ring_idle x t = true <-> ring_qop x t = None.
Proof. unfold ring_idle, ring_qop. destruct (thr x t); cbn; split; intros; congruence. Qed.

Lemma ring_start_spec x t o : ring_qop x t = None ->
  ring_qop (start x t o) t = Some o /\ log (start x t o) = log x /\ forall u, u <> t -> ring_qop (start x t o) u = ring_qop x u.
Proof.
  unfold ring_qop. intros H. assert (E : thr x t = Idle) by (destruct (thr x t); cbn in H; congruence).
  unfold start. rewrite E. cbn. rewrite upd_same. split; [destruct o; reflexivity|]. split; [reflexivity|].
  intros u Hn. now rewrite upd_other.
Qed.

Lemma ring_step_spec x t o : ring_qop x t = Some o ->
  (ring_qop (stepZ N x t) t = Some o /\ log (stepZ N x t) = log x) \/
  (ring_qop (stepZ N x t) t = None /\ exists r, log (stepZ N x t) = log x ++ [(t, r)] /\ matches o r).
Proof.
  intros H. destruct (response_matches_call N x t o H) as [[H1 H2]|[H1 H2]]; [left; now split|right].
  split; [unfold ring_qop; now rewrite H1|exact H2].
Qed.

Lemma ring_step_other x t u : u <> t -> ring_qop (stepZ N x t) u = ring_qop x u.
Proof. intros Hn. unfold ring_qop. now rewrite step_other_threads. Qed.

Theorem ua_glue cevs : GI st log ring_qop (ua_run cevs).
Proof.
  apply (gi_reachable st (stepZ N) start ring_idle log M k (wake_rule_atomic M) ring_qop
           ring_idle_spec ring_start_spec ring_step_spec ring_step_other); reflexivity.
Qed.

Theorem ua_queue_reachable cevs : exists evs, q st (ua_run cevs) = fold_left (execZ N) evs init.
Proof.
  unfold ua_run, ua_exec, ua_init.
  destruct (q_reachable st (stepZ N) start ring_idle log M k (wake_rule_atomic M) init cevs) as [evs H].
  exists evs. rewrite H. clear H. generalize init.
  intros s. revert s. induction evs as [|e evs IH]; intros s; [reflexivity|].
  cbn [fold_left]. rewrite IH. destruct e; reflexivity.
Qed.

(* what the streams yielded is, in order, a prefix of what the ring accepted: exactly once, in order, nothing invented *)
Theorem ua_exactly_once cevs :
  let s := ua_run cevs in
  cyields (clog st s) = firstn (length (cyields (clog st s))) (accepted_of (log (q st s))).
Proof.
  cbn zeta. pose proof (ua_glue cevs) as G. destruct (ua_queue_reachable cevs) as [evs Hq].
  rewrite (g_yld _ _ _ _ G), Hq. apply yielded_prefix. exact Npos.
Qed.

(* a send answers Ok only for an event the ring accepted, and every accepted event is (or is about to be) answered Ok *)
Theorem ua_ok_iff_accepted cevs v :
  let s := ua_run cevs in
  In v (accepted_of (log (q st s))) <-> (In v (csendok (clog st s)) \/ inflight st s v).
Proof. cbn zeta. pose proof (ua_glue cevs) as G. split; [apply (g_acc _ _ _ _ G)|apply (g_ok _ _ _ _ G)]. Qed.

Theorem ua_full_iff_rejected cevs :
  let s := ua_run cevs in csendfull (clog st s) = rejected_of (log (q st s)).
Proof. cbn zeta. apply (g_full _ _ _ _ (ua_glue cevs)). Qed.

End UniAtomic.

(* --------------------------------------------------------------------------------------- full-sync instance *)
Section UniFullSync.
Variable N : Z.
Hypothesis Npos : 0 < N.
Variable M k : nat.

Definition uf_exec := cexec fsst (fstepZ N) fstart fs_idle flog M k (wake_rule_fullsync M).
Definition uf_init := cinit fsst k finit.
Definition uf_run (cevs : list cev) := fold_left uf_exec cevs uf_init.

Definition fs_op_of (p : fpc) : option op :=
  match p with
  | FIdle => None
  | FPL v | FPU v _ => Some (OpPub v)
  | FCL | FCU _ => Some OpCons
  | FLN => Some OpLen
  end.
Definition fs_qop (s : fsst) (t : nat) : option op := fs_op_of (fthr s t).

Lemma fs_idle_spec x t : fs_idle x t = true <-> fs_qop x t = None.
Proof. unfold fs_idle, fs_qop. destruct (fthr x t); cbn; split; intros; congruence. Qed.

Lemma fs_start_spec x t o : fs_qop x t = None ->
  fs_qop (fstart x t o) t = Some o /\ flog (fstart x t o) = flog x /\ forall u, u <> t -> fs_qop (fstart x t o) u = fs_qop x u.
Proof.
  unfold fs_qop. intros H. assert (E : fthr x t = FIdle) by (destruct (fthr x t); cbn in H; congruence).
  unfold fstart. rewrite E. cbn. rewrite upd_same. split; [destruct o; reflexivity|]. split; [reflexivity|].
  intros u Hn. now rewrite upd_other.
Qed.

Lemma fs_step_other x t u : u <> t -> fs_qop (fstepZ N x t) u = fs_qop x u.
Proof.
  intros Hn. unfold fs_qop, fstepZ, fstep, idz. destruct (fthr x t) eqn:E; try reflexivity;
  repeat match goal with |- context[if ?b then _ else _] => destruct b end; try reflexivity;
  cbn [fthr]; now rewrite upd_other.
Qed.

Lemma fs_step_spec x t o : fs_qop x t = Some o ->
  (fs_qop (fstepZ N x t) t = Some o /\ flog (fstepZ N x t) = flog x) \/
  (fs_qop (fstepZ N x t) t = None /\ exists r, flog (fstepZ N x t) = flog x ++ [(t, r)] /\ matches o r).
Proof.
  intros H. unfold fs_qop in *. unfold fstepZ, fstep, idz.
  destruct (fthr x t) as [|v|v r| |r|] eqn:E; cbn in H; try discriminate; injection H as <-.
  - left. destruct (flock x); [rewrite E; split; reflexivity|].
    destruct (_ <? N); cbn [fthr flog]; rewrite upd_same; split; reflexivity.
  - right. cbn [fthr flog]. rewrite upd_same. split; [reflexivity|]. eexists. split; [reflexivity|].
    destruct r; cbn; reflexivity.
  - left. destruct (flock x); [rewrite E; split; reflexivity|].
    destruct (0 <? _); cbn [fthr flog]; rewrite upd_same; split; reflexivity.
  - right. cbn [fthr flog]. rewrite upd_same. split; [reflexivity|]. eexists. split; [reflexivity|].
    destruct r; cbn; exact I.
  - right. cbn [fthr flog]. rewrite upd_same. split; [reflexivity|]. eexists. split; [reflexivity|]. exact I.
Qed.

Theorem uf_glue cevs : GI fsst flog fs_qop (uf_run cevs).
Proof.
  apply (gi_reachable fsst (fstepZ N) fstart fs_idle flog M k (wake_rule_fullsync M) fs_qop
           fs_idle_spec fs_start_spec fs_step_spec fs_step_other); reflexivity.
Qed.

Theorem uf_queue_reachable cevs : exists evs, q fsst (uf_run cevs) = fold_left (fexecZ N) evs finit.
Proof.
  unfold uf_run, uf_exec, uf_init.
  destruct (q_reachable fsst (fstepZ N) fstart fs_idle flog M k (wake_rule_fullsync M) finit cevs) as [evs H].
  exists evs. rewrite H. clear H. generalize finit.
  intros s. revert s. induction evs as [|e evs IH]; intros s; [reflexivity|].
  cbn [fold_left]. rewrite IH. destruct e; reflexivity.
Qed.

(* channel level: what the streams yielded is a prefix of what the queue accepted (in the order of acceptance) *)
Theorem uf_exactly_once cevs :
  let s := uf_run cevs in
  cyields (clog fsst s) = firstn (length (cyields (clog fsst s))) (fpublished (q fsst s)).
Proof.
  cbn zeta. pose proof (uf_glue cevs) as G. destruct (uf_queue_reachable cevs) as [evs Hq].
  rewrite (g_yld _ _ _ _ G), Hq. apply fs_yielded_prefix. exact Npos.
Qed.

Theorem uf_ok_iff_accepted cevs v :
  let s := uf_run cevs in
  In v (accepted_of (flog (q fsst s))) <-> (In v (csendok (clog fsst s)) \/ inflight fsst s v).
Proof. cbn zeta. pose proof (uf_glue cevs) as G. split; [apply (g_acc _ _ _ _ G)|apply (g_ok _ _ _ _ G)]. Qed.

Theorem uf_full_iff_rejected cevs :
  let s := uf_run cevs in csendfull (clog fsst s) = rejected_of (flog (q fsst s)).
Proof. cbn zeta. apply (g_full _ _ _ _ (uf_glue cevs)). Qed.

End UniFullSync.
