(* Executable model of a movable Uni channel: a queue component + `StreamsManagerBase`'s wake / cancel protocol
   (/repo/src/streams_manager.rs, /repo/src/mutiny_stream.rs, /repo/src/uni/channels/movable/{atomic,full_sync}.rs),
   one shared access (or hooked yield point) per step.

   The queue component is a parameter (Section variables): the lock-free ring (RingModel) and the full-sync ring
   (FullSync) are the two instances below.

   Thread-level operations:
     send v          publish_movable, then the channel's wake decision and `wake_stream`
     poll i          one `MutinyStream::poll_next` of stream i: consume, keep_stream_running, register_stream_waker
     drive i         what an executor does with stream i: poll; Ready(v) -> poll again; Pending -> park until the
                     task was notified (each grant while parked reads the task's `notified` flag); End -> stop
     cancel_all      `cancel_all_streams`: walk `used_streams`, clear keep flag, wake_stream
     len             `pending_items_count`
   Streams 0..k-1 are created before the run (by the unscheduled driver), so `used_streams = [0..k-1, MAX..]`.   *)
From RM Require Export RingModel FullSync.

Inductive wpc := W0 (i : nat) | W1 (i : nat) | WL (i : nat) | WR (i : nat) | WW (i : nat) | WU.
Inductive rpc := R0 | RL | RW | RU | RS.

Inductive cres := CSendOk (v : Z) | CSendFull (v : Z) | CYield (i : nat) (v : Z) | CPending (i : nat) | CEnd (i : nat)
                | CLen (n : Z) | CCancelled.
Inductive cop := CoSend (v : Z) | CoPoll (i : nat) | CoDrive (i : nat) | CoCancelAll | CoLen.

Inductive cpc :=
| XIdle
| XSendQ (v : Z)                          (* inside the queue's publish *)
| XSendW (v : Z) (w : wpc)                (* inside wake_stream after a successful publish *)
| XDrive (i : nat)                        (* a driven stream about to call poll_next *)
| XPollQ (i : nat) (drv : bool)           (* inside the queue's consume *)
| XPollK (i : nat) (drv : bool)           (* about to read keep_streams_running[i] *)
| XReg (i : nat) (r : rpc) (drv : bool)   (* inside register_stream_waker *)
| XParked (i : nat)                       (* task parked: each grant reads its `notified` flag *)
| XCancelU (j : nat)                      (* cancel_all_streams: about to read used_streams[j] *)
| XCancelK (j : nat)                      (* about to clear keep_streams_running[j] *)
| XCancelW (j : nat) (w : wpc)            (* inside wake_stream(j) *)
| XLenQ.

Record sm := { wakers : nat -> bool; keep : nat -> bool; wlock : bool; notified : nat -> bool }.

(* one step of wake_stream; None = the call returns *)
Definition wstep (m : sm) (w : wpc) : sm * option wpc :=
  match w with
  | W0 i => (m, Some (if wakers m i then W1 i else WL i))
  | W1 i => ({| wakers := wakers m; keep := keep m; wlock := wlock m; notified := upd (notified m) i true |}, None)
  | WL i => if wlock m then (m, Some (WL i))
            else ({| wakers := wakers m; keep := keep m; wlock := true; notified := notified m |}, Some (WR i))
  | WR i => (m, Some (if wakers m i then WW i else WU))
  | WW i => ({| wakers := wakers m; keep := keep m; wlock := wlock m; notified := upd (notified m) i true |}, Some WU)
  | WU => ({| wakers := wakers m; keep := keep m; wlock := false; notified := notified m |}, None)
  end.

Definition L_WAKERS := 200. Definition L_KEEP := 220. Definition L_USED := 240. Definition L_WLOCK := 260.
Definition L_NOTIFIED := 300.
Definition K_WAKE := 10. Definition K_PARKED := 11. Definition K_WAKERS_R := 12. Definition K_WAKERS_W := 13.
Definition K_KEEP_R := 14. Definition K_KEEP_W := 15. Definition K_USED_R := 16. Definition K_USED_W := 17.
Definition b2z (b : bool) : Z := if b then 1 else 0.

Definition wobs (m : sm) (t : nat) (w : wpc) : list Z :=
  match w with
  | W0 i | WR i => acc t (L_WAKERS + Z.of_nat i) K_WAKERS_R (b2z (wakers m i)) (-1) true
  | W1 i | WW i => acc t (L_NOTIFIED + Z.of_nat i) K_WAKE 0 (-1) true
  | WL i => if wlock m then acc t L_WLOCK K_CAS 1 (-1) false else acc t L_WLOCK K_CAS 0 1 true
  | WU => acc t L_WLOCK K_STORE 0 0 true
  end.

Section Chan.
Variable Q : Type.
Variable qstep : Q -> nat -> Q.
Variable qstart : Q -> nat -> op -> Q.
Variable qidle : Q -> nat -> bool.
Variable qlog : Q -> list (nat * res).
Variable qobs : Q -> nat -> list Z.
Variable M : nat.                          (* MAX_STREAMS *)
Variable k : nat.                          (* streams created: ids 0..k-1 *)
Variable wake_rule : Z -> option nat.      (* len_after -> stream to wake *)

Record cst := { q : Q; m : sm; cthr : nat -> cpc; clog : list (nat * cres) }.

Definition qres (x : Q) : res := snd (last (qlog x) (0%nat, REmpty)).

Definition mk (x : Q) (y : sm) (th : nat -> cpc) (l : list (nat * cres)) : cst := {| q := x; m := y; cthr := th; clog := l |}.
Definition setpc (s : cst) (t : nat) (p : cpc) : cst := mk (q s) (m s) (upd (cthr s) t p) (clog s).
Definition finish (s : cst) (t : nat) (r : cres) (p : cpc) : cst := mk (q s) (m s) (upd (cthr s) t p) (clog s ++ [(t, r)]).

(* the queue operation of thread t completed in state x (its response is the last entry of the queue's log) *)
Definition after_send (s : cst) (x : Q) (t : nat) (v : Z) : cst :=
  match qres x with
  | ROk _ len =>
      match wake_rule len with
      | Some i => mk x (m s) (upd (cthr s) t (XSendW v (W0 i))) (clog s)
      | None => mk x (m s) (upd (cthr s) t XIdle) (clog s ++ [(t, CSendOk v)])
      end
  | _ => mk x (m s) (upd (cthr s) t XIdle) (clog s ++ [(t, CSendFull v)])
  end.
Definition after_cons (s : cst) (x : Q) (t : nat) (i : nat) (drv : bool) : cst :=
  match qres x with
  | RGot v => mk x (m s) (upd (cthr s) t (if drv then XDrive i else XIdle)) (clog s ++ [(t, CYield i v)])
  | _ => mk x (m s) (upd (cthr s) t (XPollK i drv)) (clog s)
  end.
(* cancel_all_streams moves on to entry j of used_streams (the loop ends without an access after MAX_STREAMS entries) *)
Definition cancel_next (s : cst) (t : nat) (j : nat) : cst :=
  if (M <=? j)%nat then finish s t CCancelled XIdle else setpc s t (XCancelU j).

Definition cstep (s : cst) (t : nat) : cst :=
  match cthr s t with
  | XIdle => s
  | XSendQ v =>
      let x := qstep (q s) t in
      if qidle x t then after_send s x t v else mk x (m s) (cthr s) (clog s)
  | XSendW v w =>
      let '(m', w') := wstep (m s) w in
      match w' with
      | Some w'' => mk (q s) m' (upd (cthr s) t (XSendW v w'')) (clog s)
      | None => mk (q s) m' (upd (cthr s) t XIdle) (clog s ++ [(t, CSendOk v)])
      end
  | XDrive i =>
      let x := qstep (qstart (q s) t OpCons) t in
      if qidle x t then after_cons s x t i true else mk x (m s) (upd (cthr s) t (XPollQ i true)) (clog s)
  | XPollQ i drv =>
      let x := qstep (q s) t in
      if qidle x t then after_cons s x t i drv else mk x (m s) (cthr s) (clog s)
  | XPollK i drv =>
      if keep (m s) i then setpc s t (XReg i R0 drv) else finish s t (CEnd i) XIdle
  | XReg i R0 drv =>
      if wakers (m s) i then finish s t (CPending i) (if drv then XParked i else XIdle)
      else setpc s t (XReg i RL drv)
  | XReg i RL drv =>
      if wlock (m s) then s
      else mk (q s) {| wakers := wakers (m s); keep := keep (m s); wlock := true; notified := notified (m s) |}
              (upd (cthr s) t (XReg i RW drv)) (clog s)
  | XReg i RW drv =>
      mk (q s) {| wakers := upd (wakers (m s)) i true; keep := keep (m s); wlock := wlock (m s); notified := notified (m s) |}
         (upd (cthr s) t (XReg i RU drv)) (clog s)
  | XReg i RU drv =>
      mk (q s) {| wakers := wakers (m s); keep := keep (m s); wlock := false; notified := notified (m s) |}
         (upd (cthr s) t (XReg i RS drv)) (clog s)
  | XReg i RS drv =>
      mk (q s) {| wakers := wakers (m s); keep := keep (m s); wlock := wlock (m s); notified := upd (notified (m s)) i true |}
         (upd (cthr s) t (if drv then XParked i else XIdle)) (clog s ++ [(t, CPending i)])
  | XParked i =>
      if notified (m s) i then
        mk (q s) {| wakers := wakers (m s); keep := keep (m s); wlock := wlock (m s); notified := upd (notified (m s)) i false |}
           (upd (cthr s) t (XDrive i)) (clog s)
      else s
  | XCancelU j =>
      if (j <? k)%nat then setpc s t (XCancelK j) else finish s t CCancelled XIdle
  | XCancelK j =>
      mk (q s) {| wakers := wakers (m s); keep := upd (keep (m s)) j false; wlock := wlock (m s); notified := notified (m s) |}
         (upd (cthr s) t (XCancelW j (W0 j))) (clog s)
  | XCancelW j w =>
      let '(m', w') := wstep (m s) w in
      match w' with
      | Some w'' => mk (q s) m' (upd (cthr s) t (XCancelW j w'')) (clog s)
      | None => cancel_next (mk (q s) m' (cthr s) (clog s)) t (S j)
      end
  | XLenQ =>
      let x := qstep (q s) t in
      if qidle x t then
        match qres x with
        | RLen n => mk x (m s) (upd (cthr s) t XIdle) (clog s ++ [(t, CLen n)])
        | _ => mk x (m s) (upd (cthr s) t XIdle) (clog s)
        end
      else mk x (m s) (cthr s) (clog s)
  end.

(* an idle thread begins an operation; `send`, `poll` and `len` enter the queue component here (no access yet) *)
Definition cstart (s : cst) (t : nat) (o : cop) : cst :=
  match cthr s t with
  | XIdle =>
      match o with
      | CoSend v => mk (qstart (q s) t (OpPub v)) (m s) (upd (cthr s) t (XSendQ v)) (clog s)
      | CoPoll i => mk (qstart (q s) t OpCons) (m s) (upd (cthr s) t (XPollQ i false)) (clog s)
      | CoDrive i => setpc s t (XDrive i)
      | CoCancelAll => cancel_next s t 0
      | CoLen => mk (qstart (q s) t OpLen) (m s) (upd (cthr s) t XLenQ) (clog s)
      end
  | _ => s
  end.

Inductive cev := CStep (t : nat) | CStart (t : nat) (o : cop).
Definition cexec (s : cst) (e : cev) : cst :=
  match e with CStep t => cstep s t | CStart t o => cstart s t o end.

Definition cobs (s : cst) (t : nat) : list Z :=
  match cthr s t with
  | XIdle => skip t
  | XSendQ _ | XPollQ _ _ | XLenQ => qobs (q s) t
  | XDrive _ => qobs (qstart (q s) t OpCons) t
  | XSendW _ w | XCancelW _ w => wobs (m s) t w
  | XPollK i _ => acc t (L_KEEP + Z.of_nat i) K_KEEP_R (b2z (keep (m s) i)) (-1) true
  | XReg i R0 _ => acc t (L_WAKERS + Z.of_nat i) K_WAKERS_R (b2z (wakers (m s) i)) (-1) true
  | XReg i RL _ => if wlock (m s) then acc t L_WLOCK K_CAS 1 (-1) false else acc t L_WLOCK K_CAS 0 1 true
  | XReg i RW _ => acc t (L_WAKERS + Z.of_nat i) K_WAKERS_W 1 (-1) true
  | XReg i RU _ => acc t L_WLOCK K_STORE 0 0 true
  | XReg i RS _ => acc t (L_NOTIFIED + Z.of_nat i) K_WAKE 0 (-1) true
  | XParked i => acc t (L_NOTIFIED + Z.of_nat i) K_PARKED (b2z (notified (m s) i)) (-1) true
  | XCancelU j => acc t (L_USED + Z.of_nat j) K_USED_R (if (j <? k)%nat then Z.of_nat j else 4294967295) (-1) true
  | XCancelK j => acc t (L_KEEP + Z.of_nat j) K_KEEP_W 0 (-1) true
  end.

Definition cinit (q0 : Q) : cst :=
  {| q := q0;
     m := {| wakers := fun _ => false; keep := fun i => (i <? k)%nat; wlock := false; notified := fun _ => false |};
     cthr := fun _ => XIdle; clog := [] |}.

(* ------------------------------------------------------------------------------------------- runner *)
Definition cres_code (r : cres) : list Z :=
  match r with
  | CSendOk v => [10; v; 0] | CSendFull v => [11; v; 0] | CYield i v => [12; v; Z.of_nat i]
  | CPending i => [13; Z.of_nat i; 0] | CEnd i => [14; Z.of_nat i; 0] | CLen n => [15; n; 0] | CCancelled => [16; 0; 0]
  end.
Definition cemit (before after : list (nat * cres)) : list (list Z) :=
  map (fun e => 2 :: Z.of_nat (fst e) :: cres_code (snd e)) (skipn (length before) after).

Definition cgrant (s : cst) (progs : nat -> list cop) (t : nat) : cst * (nat -> list cop) * list (list Z) :=
  match cthr s t with
  | XIdle =>
      match progs t with
      | [] => (s, progs, [skip t])
      | o :: rest =>
          let s1 := cstart s t o in
          match cthr s1 t with
          | XIdle => (s1, upd progs t rest, skip t :: cemit (clog s) (clog s1))      (* an operation without any access *)
          | _ => let s2 := cstep s1 t in (s2, upd progs t rest, cobs s1 t :: cemit (clog s) (clog s2))
          end
      end
  | _ => let s2 := cstep s t in (s2, progs, cobs s t :: cemit (clog s) (clog s2))
  end.

Fixpoint crun (s : cst) (progs : nat -> list cop) (sched : list nat) : cst * list (list Z) :=
  match sched with
  | [] => (s, [])
  | t :: rest =>
      let '(s1, progs1, lines) := cgrant s progs t in
      let '(s2, more) := crun s1 progs1 rest in
      (s2, lines ++ more)
  end.

End Chan.

Definition cprogs_of (l : list (list cop)) : nat -> list cop := fun t => nth t l [].
Definition ring_idle (s : st) (t : nat) : bool := match thr s t with Idle => true | _ => false end.

(* instance 1: the movable atomic Uni channel (lock-free ring); wake rule of `send` in uni/channels/movable/atomic.rs *)
Definition wake_rule_atomic (M : nat) (len : Z) : option nat :=
  if len <=? Z.of_nat M then Some (Z.to_nat (len - 1))
  else if len =? 1 + Z.of_nat M then Some (Z.to_nat (len - 2)) else None.
Definition run_uni_atomic (N : Z) (M k : nat) (origin : Z) (progs : list (list cop)) (sched : list nat) : list Z :=
  let '(s, lines) := crun st (step N u32 i32) start ring_idle log (obs N u32) M k (wake_rule_atomic M)
                          (cinit st k (init_at (u32 origin))) (cprogs_of progs) sched in
  concat lines ++ [9; head (q _ s); tail (q _ s); etail (q _ s); dhead (q _ s)].

(* instance 2: the movable full-sync Uni channel; wake rule of `send` in uni/channels/movable/full_sync.rs *)
Definition fs_idle (s : fsst) (t : nat) : bool := match fthr s t with FIdle => true | _ => false end.
Definition wake_rule_fullsync (M : nat) (len : Z) : option nat :=
  if len <=? Z.of_nat M then Some (Z.to_nat (len - 1)) else None.
Definition run_uni_fullsync (N : Z) (M k : nat) (origin : Z) (progs : list (list cop)) (sched : list nat) : list Z :=
  let '(s, lines) := crun fsst (fstep N u32) fstart fs_idle flog fobs M k (wake_rule_fullsync M)
                          (cinit fsst k (finit_at (u32 origin))) (cprogs_of progs) sched in
  concat lines ++ [9; fhead (q _ s); ftail (q _ s); b2z (flock (q _ s))].
