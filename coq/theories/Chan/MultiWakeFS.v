(* C04 on the arc / full-sync Multi channel machine (MultiFS.v): no lost wake-up, per listener, in the steady regime (listeners
   0..k-1 exist from the start, none is created or removed during the run) - for every schedule, any number of producers, any
   MAX_STREAMS, every listener driven by its own task.  Port of UniWake.v: per listener i this is the Uni wake protocol with ONE
   stream on ring i and the wake rule "len_after <= 1 (or ring full) -> wake_stream(i)"; the waker lock is shared by all listeners. *)
From RM Require Import RingModel FullSync Chan Multi MultiFS MultiFSProps FanOutFS.
Import MFS.

Section MultiWakeFS.
Variable N : Z.
Variable M k : nat.

Local Notation mev := (MultiFSProps.mev).
Local Notation exec := (MultiFSProps.mexec N M).
Local Notation stp := (mstep N idz M).
Local Notation strt := (mstart M).

(* the state the correspondence runner starts from: k atomic creations performed by thread 0 *)
Definition created : mst := Nat.iter k (fun s => stp (strt s 0%nat MoCreate) 0%nat) (minit M).

(* well-formed use: listener i is driven by task (thread) i and by nobody else; the other threads send or ask the count *)
Definition wf_ev (e : mev) : Prop :=
  match e with
  | MStep _ => True
  | MStart t (MoDrive i) => t = i /\ (i < k)%nat
  | MStart t (MoSend _) | MStart t MoCount => (k <= t)%nat
  | MStart _ _ => False
  end.

Definition lost (s : mst) (i : nat) : Prop :=
  (forall t, (k <= t)%nat -> mthr s t = MIdle) /\
  0 < ftail (rings s i) - fhead (rings s i) /\
  keep (msm s) i = true /\ mthr s i = MParked i /\ notified (msm s) i = false.

Definition len (s : mst) (i : nat) : Z := ftail (rings s i) - fhead (rings s i).
Definition fth (s : mst) (i t : nat) : fpc := fthr (rings s i) t.
Definition wk (s : mst) (i : nat) : bool := wakers (msm s) i.
Definition nt (s : mst) (i : nat) : bool := notified (msm s) i.

(* a wake_stream call at pc w is about to notify listener i (wi = the current content of i's waker slot) *)
Definition wpending (w : wpc) (wi : bool) (i : nat) : Prop :=
  match w with
  | W0 j | W1 j | WW j => j = i
  | WL j | WR j => j = i /\ wi = true
  | WU => False
  end.
(* thread p is about to wake listener i: it holds ring i's flag after a publication that made the length <= 1, or it is inside
   wake_stream(i) *)
Definition ppend (c : mpc) (f : fpc) (wi : bool) (i : nat) : Prop :=
  match c with
  | MSendQ _ _ id => id = i /\ match f with FPU _ (Some l) => l <= 1 | _ => False end
  | MSendW _ _ _ _ w => wpending w wi i
  | _ => False
  end.
Definition pending (s : mst) (p i : nat) : Prop := ppend (mthr s p) (fth s i p) (wk s i) i.

(* listener i's task, by itself, is on its way to look at ring i again *)
Definition will_look (c : mpc) (f : fpc) (w n : bool) : Prop :=
  match c with
  | MIdle | MDrive _ | MNo => True
  | MPollQ _ _ => match f with FCU None => w = false \/ n = true | _ => True end
  | MPollK _ _ | MReg _ R0 _ => w = false \/ n = true
  | MReg _ _ _ => True
  | MParked _ => n = true
  | _ => False
  end.
Definition WillSee (s : mst) (i : nat) : Prop :=
  will_look (mthr s i) (fth s i i) (wk s i) (nt s i) \/ exists p, pending s p i.

Definition on_the_way (c : mpc) : Prop :=
  match c with
  | MIdle | MNo | MDrive _ | MPollQ _ _ | MPollK _ _ | MReg _ R0 _ | MReg _ RL _ | MReg _ RW _ => True
  | _ => False
  end.
Definition stream_pc (i : nat) (c : mpc) : Prop :=
  match c with
  | MIdle | MNo => True
  | MDrive j | MPollQ j true | MPollK j true | MReg j _ true | MParked j => j = i
  | _ => False
  end.
Definition producer_pc (c : mpc) : Prop :=
  match c with
  | MIdle | MSendU _ _ | MSendQ _ _ _ | MSendW _ _ _ _ _ | MCount => True
  | _ => False
  end.
Definition registered (c : mpc) : Prop := match c with MReg _ RU _ | MReg _ RS _ | MParked _ => True | _ => False end.

(* which ring a thread is inside, and with which call *)
Definition op_of (c : mpc) : option op :=
  match c with MSendQ v _ _ => Some (OpPub v) | MPollQ _ _ => Some OpCons | _ => None end.
Definition rtype (c : mpc) (i : nat) (f : fpc) : Prop :=
  (ring_of c = Some i -> fop_of_pc f = op_of c) /\ (ring_of c <> Some i -> f = FIdle).

Record WInv (s : mst) : Prop := {
  w_ty   : forall t i, rtype (mthr s t) i (fth s i t);
  w_str  : forall i, (i < k)%nat -> stream_pc i (mthr s i);
  w_prod : forall t, (k <= t)%nat -> producer_pc (mthr s t);
  w_reg  : forall i, (i < k)%nat -> registered (mthr s i) -> wk s i = true;
  w_len  : forall i, 0 <= len s i;
  w_J    : forall i, (i < k)%nat -> wk s i = false -> nt s i = true \/ on_the_way (mthr s i);
  w_see  : forall i, (i < k)%nat -> 0 < len s i -> WillSee s i
}.

Lemma stream_not_pending s t i : stream_pc t (mthr s t) -> ~ pending s t i.
Proof.
  unfold pending. intros Hs Hp. destruct (mthr s t); cbn in Hs, Hp; try contradiction; destruct drv; contradiction.
Qed.

Lemma winv_not_lost s i : (i < k)%nat -> WInv s -> ~ lost s i.
Proof.
  intros Hi I (Hp & Hl & _ & Hc & Hn). destruct (w_see _ I i Hi Hl) as [W|[p Hpd]].
  - rewrite Hc in W. cbn in W. unfold nt in W. congruence.
  - destruct (Nat.lt_ge_cases p k) as [Hlt|Hge].
    + exact (stream_not_pending s p i (w_str _ I p Hlt) Hpd).
    + unfold pending in Hpd. rewrite (Hp p Hge) in Hpd. exact Hpd.
Qed.

(* ------------------------------------------------------------------------------------------------ framing *)
Record Frame (s s' : mst) (t : nat) : Prop := {
  fr_c  : forall u, u <> t -> mthr s' u = mthr s u;
  fr_f  : forall i u, u <> t -> fth s' i u = fth s i u;
  fr_w  : forall i, i <> t -> wk s' i = wk s i;
  fr_wt : wk s t = true -> wk s' t = true;
  fr_n  : forall i, i <> t -> nt s i = true -> nt s' i = true
}.

Lemma will_look_mono c f w n n' : will_look c f w n -> (n = true -> n' = true) -> will_look c f w n'.
Proof. unfold will_look. destruct c; auto; try (destruct r; auto); try (destruct f as [| | | |[?|]|]; auto); intros [?|?]; auto. Qed.
Lemma wpending_mono w a b i : wpending w a i -> (a = true -> b = true) -> wpending w b i.
Proof. unfold wpending. destruct w; auto. all: intros [? ?]; auto. Qed.

Lemma pending_other s s' t p i : Frame s s' t -> p <> t -> pending s p i -> pending s' p i.
Proof.
  intros F Hp. unfold pending. rewrite (fr_c _ _ _ F p Hp), (fr_f _ _ _ F i p Hp).
  destruct (mthr s p); auto; intros H; eapply wpending_mono; eauto;
    (destruct (Nat.eq_dec i t) as [->|Hn]; [apply (fr_wt _ _ _ F)|rewrite (fr_w _ _ _ F i Hn); auto]).
Qed.

Lemma transport s s' t i : Frame s s' t -> i <> t -> WillSee s i -> WillSee s' i \/ pending s t i.
Proof.
  intros F Hi. unfold WillSee.
  rewrite (fr_c _ _ _ F i Hi), (fr_f _ _ _ F i i Hi), (fr_w _ _ _ F i Hi).
  intros [H|[p Hp]];
    [left; left; eapply will_look_mono; eauto; apply (fr_n _ _ _ F i Hi)
    |destruct (Nat.eq_dec p t) as [->|Hn]; [now right|left; right; exists p; eapply pending_other; eauto]].
Qed.

(* when listener i's thread is typed as its task, being notified is enough *)
Lemma notified_will s i : stream_pc i (mthr s i) -> nt s i = true -> WillSee s i.
Proof.
  intros Ht Hn. unfold WillSee, will_look. rewrite Hn.
  left; destruct (mthr s i); cbn in Ht; try contradiction; auto; try (destruct (fth s i i) as [| | | |[?|]|]; auto); destruct r; auto.
Qed.

(* J turns a lost pending wake (the waker slot was still empty) into a task that is on its way *)
Lemma J_will s i : stream_pc i (mthr s i) -> wk s i = false -> nt s i = true \/ on_the_way (mthr s i) -> WillSee s i.
Proof.
  intros Ht Hw [Hn|Ho]; [now apply notified_will|].
  unfold WillSee, will_look. rewrite Hw.
  left; destruct (mthr s i); cbn in Ht, Ho; try contradiction; auto; try (destruct (fth s i i) as [| | | |[?|]|]; auto); destruct r; auto; contradiction.
Qed.

(* the general step lemma *)
Lemma winv_frame s s' t :
  WInv s -> Frame s s' t ->
  (forall i, rtype (mthr s' t) i (fth s' i t)) ->
  ((t < k)%nat -> stream_pc t (mthr s' t)) -> ((k <= t)%nat -> producer_pc (mthr s' t)) ->
  ((t < k)%nat -> registered (mthr s' t) -> wk s' t = true) ->
  (forall i, 0 <= len s' i) ->
  ((t < k)%nat -> wk s' t = false -> nt s' t = true \/ on_the_way (mthr s' t)) ->
  (forall i, (i < k)%nat -> i <> t -> pending s t i -> WillSee s' i) ->
  ((t < k)%nat -> 0 < len s' t -> 0 < len s t -> will_look (mthr s t) (fth s t t) (wk s t) (nt s t) -> WillSee s' t) ->
  (forall i, (i < k)%nat -> 0 < len s' i -> len s i <= 0 -> WillSee s' i) ->
  WInv s'.
Proof.
  intros I F Ty Ls Lp Lr Ll LJ Lpend Lself Lnew.
  constructor; auto.
  - intros u i. destruct (Nat.eq_dec u t) as [->|Hn]; [auto|]. rewrite (fr_c _ _ _ F u Hn), (fr_f _ _ _ F i u Hn). apply (w_ty _ I).
  - intros i Hi. destruct (Nat.eq_dec i t) as [->|Hn]; [auto|rewrite (fr_c _ _ _ F i Hn); apply (w_str _ I i Hi)].
  - intros u Hu. destruct (Nat.eq_dec u t) as [->|Hn]; [auto|rewrite (fr_c _ _ _ F u Hn); apply (w_prod _ I u Hu)].
  - intros i Hi. destruct (Nat.eq_dec i t) as [->|Hn]; [auto|].
    rewrite (fr_c _ _ _ F i Hn), (fr_w _ _ _ F i Hn). apply (w_reg _ I i Hi).
  - intros i Hi. destruct (Nat.eq_dec i t) as [->|Hn]; [auto|].
    rewrite (fr_c _ _ _ F i Hn), (fr_w _ _ _ F i Hn). intros Hw. destruct (w_J _ I i Hi Hw) as [H|H]; [left; now apply (fr_n _ _ _ F i Hn)|now right].
  - intros i Hi Hl. destruct (Z.lt_ge_cases 0 (len s i)) as [Hpos|Hz]; [|apply Lnew; auto; lia].
    pose proof (w_see _ I i Hi Hpos) as W.
    destruct (Nat.eq_dec i t) as [->|Hn].
    + destruct W as [W|[p Hp]]; [now apply Lself|].
      right. exists p. eapply pending_other; eauto. intros ->. exact (stream_not_pending s t t (w_str _ I t Hi) Hp).
    + destruct (transport s s' t i F Hn W) as [W'|Hp]; [assumption|]. now apply (Lpend i Hi Hn Hp).
Qed.


(* ------------------------------------------------------------------------------------------------ helpers *)
Ltac un := unfold len, fth, wk, nt in *;
           cbn [mx rings msm vacant alive mthr mlog mmk msetpc mfinish wakers keep wlock notified] in *.

Lemma upd_ring_fthr (r : nat -> fsst) id x i u : fthr x u = fthr (r id) u -> fthr (upd r id x i) u = fthr (r i) u.
Proof. intros H. unfold upd. destruct (Nat.eqb_spec i id) as [->|]; auto. Qed.
Lemma upd_ring_len (r : nat -> fsst) id x i :
  ftail x - fhead x = ftail (r id) - fhead (r id) -> ftail (upd r id x i) - fhead (upd r id x i) = ftail (r i) - fhead (r i).
Proof. intros H. unfold upd. destruct (Nat.eqb_spec i id) as [->|]; auto. Qed.
Lemma fstart_len x t o : ftail (fstart x t o) - fhead (fstart x t o) = ftail x - fhead x.
Proof. unfold fstart. destruct (fthr x t); reflexivity. Qed.

Lemma idle_elsewhere s t id : WInv s -> ring_of (mthr s t) = Some id -> forall i, i <> id -> fth s i t = FIdle.
Proof. intros I H i Hn. apply (proj2 (w_ty _ I t i)). rewrite H. congruence. Qed.
Lemma idle_all s t : WInv s -> ring_of (mthr s t) = None -> forall i, fth s i t = FIdle.
Proof. intros I H i. apply (proj2 (w_ty _ I t i)). rewrite H. discriminate. Qed.
Lemma ty_out (r : nat -> fsst) id x t c' :
  ring_of c' = None -> fthr x t = FIdle -> (forall i, i <> id -> fthr (r i) t = FIdle) -> forall i, rtype c' i (fthr (upd r id x i) t).
Proof.
  intros Hc Hx Hr i. split; [rewrite Hc; discriminate|]. intros _. unfold upd. destruct (Nat.eqb_spec i id); auto.
Qed.
Lemma ty_in (r : nat -> fsst) id x t c' :
  ring_of c' = Some id -> fop_of_pc (fthr x t) = op_of c' -> (forall i, i <> id -> fthr (r i) t = FIdle) ->
  forall i, rtype c' i (fthr (upd r id x i) t).
Proof.
  intros Hc Hx Hr i. unfold rtype. rewrite Hc. split.
  - intros H. injection H as <-. now rewrite upd_same.
  - intros H. assert (i <> id) by congruence. rewrite upd_other by assumption. auto.
Qed.
Lemma ty_none (r : nat -> fsst) t c' : ring_of c' = None -> (forall i, fthr (r i) t = FIdle) -> forall i, rtype c' i (fthr (r i) t).
Proof. intros Hc Hr i. split; [rewrite Hc; discriminate|auto]. Qed.

Lemma is_producer s t : WInv s -> ~ stream_pc t (mthr s t) -> (k <= t)%nat.
Proof. intros I H. destruct (Nat.lt_ge_cases t k) as [Hl|]; [exfalso; apply H, (w_str _ I t Hl)|assumption]. Qed.
Lemma is_stream s t : WInv s -> ~ producer_pc (mthr s t) -> (t < k)%nat.
Proof. intros I H. destruct (Nat.lt_ge_cases t k) as [|Hg]; [assumption|exfalso; apply H, (w_prod _ I t Hg)]. Qed.

(* the sm part of a wake_stream step *)
Lemma wstep_frame mm w mm' w' :
  wstep mm w = (mm', w') ->
  wakers mm' = wakers mm /\ keep mm' = keep mm /\ (forall i, notified mm i = true -> notified mm' i = true).
Proof.
  destruct w; cbn; try (destruct (wlock mm)); intros H; injection H as <- <-; cbn; auto.
  all: repeat split; auto; intros j Hj; unfold upd; destruct (Nat.eqb j i); auto.
Qed.

(* a producer-side step that touches neither the streams manager nor any ring's length, and does not drop a pending wake *)
Lemma producer_local s s' t :
  WInv s -> (k <= t)%nat ->
  msm s' = msm s -> (forall u, u <> t -> mthr s' u = mthr s u) ->
  (forall i u, u <> t -> fth s' i u = fth s i u) ->
  (forall i, len s' i = len s i) ->
  (forall i, rtype (mthr s' t) i (fth s' i t)) ->
  producer_pc (mthr s' t) ->
  (forall i, (i < k)%nat -> ppend (mthr s t) (fth s i t) (wk s i) i -> ppend (mthr s' t) (fth s' i t) (wk s i) i) ->
  WInv s'.
Proof.
  intros I Ht Hm Hc Hf Hl Ty Hp Hpp.
  assert (Hw : forall i, wk s' i = wk s i) by (intros; unfold wk; now rewrite Hm).
  assert (F : Frame s s' t) by (constructor; auto; intros; unfold nt, wk in *; rewrite Hm; auto).
  apply (winv_frame s s' t I F); try (intros; exfalso; lia); auto.
  - intros i. rewrite Hl. apply (w_len _ I).
  - intros i Hi Hn Hpi. right. exists t. unfold pending. rewrite Hw. now apply Hpp.
  - intros i Hi H1 H2. rewrite Hl in H1. lia.
Qed.

(* one step of wake_stream by a producer *)
Lemma wake_step s s' t v j id full w mm' w' :
  WInv s -> (k <= t)%nat -> mthr s t = MSendW v j id full w ->
  wstep (msm s) w = (mm', w') -> msm s' = mm' ->
  (forall u, u <> t -> mthr s' u = mthr s u) ->
  (forall i u, u <> t -> fth s' i u = fth s i u) ->
  (forall i, len s' i = len s i) ->
  (forall i, rtype (mthr s' t) i (fth s' i t)) ->
  producer_pc (mthr s' t) ->
  (forall w'', w' = Some w'' -> mthr s' t = MSendW v j id full w'') ->
  WInv s'.
Proof.
  intros I Ht E Hw Hm Hc Hf Hl Ty Hp Hnext. destruct (wstep_frame _ _ _ _ Hw) as (Ewk & Ekp & Hnt).
  assert (Hwk : forall i, wk s' i = wk s i) by (intros; unfold wk; now rewrite Hm, Ewk).
  assert (F : Frame s s' t) by (constructor; auto; intros; unfold nt, wk in *; rewrite Hm, ?Ewk; auto).
  apply (winv_frame s s' t I F); try (intros; exfalso; lia); auto.
  - intros i. rewrite Hl. apply (w_len _ I).
  - intros i Hi Hn Hpi. unfold pending in Hpi. rewrite E in Hpi. cbn in Hpi.
    assert (Hs' : stream_pc i (mthr s' i)) by (rewrite (Hc i Hn); apply (w_str _ I i Hi)).
    assert (Hstay : forall w'', w' = Some w'' -> wpending w'' (wk s i) i -> WillSee s' i).
    { intros w'' Hw' Hw''. right. exists t. unfold pending. rewrite (Hnext w'' Hw'), Hwk. exact Hw''. }
    assert (Hnotif : notified mm' i = true -> WillSee s' i).
    { intros H. apply notified_will; [exact Hs'|]. unfold nt. now rewrite Hm. }
    destruct w as [i0|i0|i0|i0|i0|]; cbn in Hpi, Hw.
    + subst i0. destruct (wakers (msm s) i) eqn:Ew; injection Hw as <- <-.
      * eapply Hstay; reflexivity.
      * apply J_will; auto; [rewrite Hwk; exact Ew|]. rewrite (Hc i Hn).
        destruct (w_J _ I i Hi Ew) as [H|H]; [left; unfold nt in *; rewrite Hm; auto|now right].
    + subst i0. injection Hw as <- <-. apply Hnotif. cbn. now rewrite upd_same.
    + destruct Hpi as [-> Hwi]. destruct (wlock (msm s)); injection Hw as <- <-; (eapply Hstay; [reflexivity|cbn; auto]).
    + destruct Hpi as [-> Hwi]. pose proof Hwi as Hwi'. unfold wk in Hwi'. rewrite Hwi' in Hw. injection Hw as <- <-. eapply Hstay; reflexivity.
    + subst i0. injection Hw as <- <-. apply Hnotif. cbn. now rewrite upd_same.
    + contradiction.
  - intros i Hi H1 H2. rewrite Hl in H1. lia.
Qed.

(* a step of listener t's own task *)
Lemma stream_step s s' t :
  WInv s -> (t < k)%nat ->
  (forall u, u <> t -> mthr s' u = mthr s u) ->
  (forall i u, u <> t -> fth s' i u = fth s i u) ->
  (forall i, i <> t -> wk s' i = wk s i) -> (wk s t = true -> wk s' t = true) ->
  (forall i, i <> t -> nt s i = true -> nt s' i = true) ->
  (forall i, rtype (mthr s' t) i (fth s' i t)) ->
  stream_pc t (mthr s' t) -> (registered (mthr s' t) -> wk s' t = true) ->
  (forall i, i <> t -> len s' i = len s i) -> 0 <= len s' t <= len s t ->
  (wk s' t = false -> nt s' t = true \/ on_the_way (mthr s' t)) ->
  (0 < len s' t -> will_look (mthr s t) (fth s t t) (wk s t) (nt s t) -> will_look (mthr s' t) (fth s' t t) (wk s' t) (nt s' t)) ->
  WInv s'.
Proof.
  intros I Ht Hc Hf Hw Hwt Hn Ty Hs Hr Hl Hlt HJ Hlook.
  assert (F : Frame s s' t) by (constructor; auto).
  apply (winv_frame s s' t I F); try (intros; exfalso; lia); auto.
  - intros i. destruct (Nat.eq_dec i t) as [->|Hne]; [lia|rewrite (Hl i Hne); apply (w_len _ I)].
  - intros i Hi Hne Hpi. exfalso. exact (stream_not_pending s t i (w_str _ I t Ht) Hpi).
  - intros _ Hpos _ W. left. now apply Hlook.
  - intros i Hi H1 H2. exfalso. destruct (Nat.eq_dec i t) as [->|Hne]; [lia|rewrite (Hl i Hne) in H1; lia].
Qed.


(* ---- producer-side steps ---- *)
Ltac side :=
  first [ assumption | reflexivity | apply upd_same | (intros; now apply upd_other)
        | (intros; apply upd_ring_fthr; now apply start_other)
        | (intros; apply upd_ring_len; now apply fstart_len)
        | (intros; apply upd_ring_fthr; reflexivity) | (intros; apply upd_ring_len; reflexivity)
        | (intros; apply upd_ring_fthr; cbn [fthr]; now rewrite upd_other)
        | (intros; apply upd_ring_len; cbn [fhead ftail]; reflexivity)
        | (cbn; auto; fail) ].

Lemma step_sendu s t v j : WInv s -> mthr s t = MSendU v j -> WInv (stp s t).
Proof.
  intros I E. assert (Ht : (k <= t)%nat) by (apply (is_producer s t I); rewrite E; auto).
  assert (Hid : forall i, fth s i t = FIdle) by (apply idle_all; [exact I|now rewrite E]).
  unfold mstep. rewrite E. cbv beta iota zeta.
  destruct (used_at s j =? MAXID).
  - apply (producer_local s _ t I Ht); un; rewrite ?upd_same; try side.
    + apply ty_none; auto.
    + intros i Hi. rewrite E. cbn. auto.
  - apply (producer_local s _ t I Ht); un; rewrite ?upd_same; try side.
    + apply ty_in; try side. apply fstart_sets_call. apply Hid.
    + intros i Hi. rewrite E. cbn. contradiction.
Qed.


Lemma step_sendw s t v j id full w : WInv s -> mthr s t = MSendW v j id full w -> WInv (stp s t).
Proof.
  intros I E. assert (Ht : (k <= t)%nat) by (apply (is_producer s t I); rewrite E; auto).
  assert (Hid : forall i, fth s i t = FIdle) by (apply idle_all; [exact I|now rewrite E]).
  unfold mstep. rewrite E. cbv beta iota zeta.
  destruct (wstep (msm s) w) as [mm' [w''|]] eqn:Ew.
  - apply (wake_step s _ t v j id full w mm' (Some w'') I Ht E Ew); un; rewrite ?upd_same; try side.
    + apply ty_none; auto.
    + intros ? [= <-]. reflexivity.
  - destruct full.
    + apply (wake_step s _ t v j id true w mm' None I Ht E Ew); un; rewrite ?upd_same; try side.
      * apply ty_in; try side. apply fstart_sets_call. apply Hid.
      * intros; discriminate.
    + unfold send_next. destruct (M <=? S j)%nat;
        (apply (wake_step s _ t v j id false w mm' None I Ht E Ew); un; rewrite ?upd_same; try side;
         [apply ty_none; auto|intros; discriminate]).
Qed.

Lemma step_count s t : WInv s -> mthr s t = MCount -> WInv (stp s t).
Proof.
  intros I E. assert (Ht : (k <= t)%nat) by (apply (is_producer s t I); rewrite E; auto).
  assert (Hid : forall i, fth s i t = FIdle) by (apply idle_all; [exact I|now rewrite E]).
  unfold mstep. rewrite E. cbv beta iota zeta.
  apply (producer_local s _ t I Ht); un; rewrite ?upd_same; try side.
  - apply ty_none; auto.
  - intros i Hi. rewrite E. cbn. auto.
Qed.


Lemma step_sendq s t v j id : WInv s -> mthr s t = MSendQ v j id -> WInv (stp s t).
Proof.
  intros I E. assert (Ht : (k <= t)%nat) by (apply (is_producer s t I); rewrite E; auto).
  assert (Hel : forall i, i <> id -> fth s i t = FIdle) by (apply idle_elsewhere; [exact I|now rewrite E]).
  pose proof (proj1 (w_ty _ I t id)) as Ty. rewrite E in Ty. specialize (Ty eq_refl). cbn in Ty.
  unfold mstep. rewrite E. cbv beta iota zeta. unfold rstep_i, ridle, rres, fstep, idz.
  unfold fth in Ty. destruct (fthr (rings s id) t) as [|v0|v0 r| |r|] eqn:Ef; cbn in Ty; try discriminate; injection Ty as ->.
  - (* FPL: the flag CAS *)
    destruct (flock (rings s id)) eqn:El.
    + rewrite Ef.
      apply (producer_local s _ t I Ht); un; try side.
      * rewrite E. apply ty_in; try side. now rewrite Ef.
      * rewrite E; exact Logic.I.
      * intros i Hi. rewrite E. cbn. intros [-> H]. split; [reflexivity|]. now rewrite upd_same.
    + destruct (Z.ltb_spec (ftail (rings s id) - fhead (rings s id)) N) as [Hlt|Hge]; cbn [fthr]; rewrite upd_same.
      * (* accepted: ring id's length grows *)
        match goal with |- WInv ?x => set (s' := x) end.
        assert (F : Frame s s' t) by (subst s'; constructor; un; intros; auto; try side).
        assert (Hlen : forall i, len s' i = if Nat.eqb i id then len s id + 1 else len s i).
        { intros i. subst s'. un. unfold upd. destruct (Nat.eqb i id); [cbn [fhead ftail]; lia|reflexivity]. }
        apply (winv_frame s s' t I F); try (intros; exfalso; lia); auto.
        -- subst s'. un. rewrite E. apply ty_in; try side. cbn [fthr]. now rewrite upd_same.
        -- intros _. subst s'. un. now rewrite E.
        -- intros i. rewrite Hlen. pose proof (w_len _ I i). pose proof (w_len _ I id). destruct (Nat.eqb i id); lia.
        -- intros i Hi Hn Hpi. exfalso. unfold pending in Hpi. rewrite E in Hpi. cbn in Hpi. destruct Hpi as [-> Hpi]. unfold fth in Hpi. now rewrite Ef in Hpi.
        -- intros i Hi Hpos Hz. rewrite Hlen in Hpos. destruct (Nat.eqb_spec i id) as [->|Hne]; [|lia].
           right. exists t. unfold pending. subst s'. un. rewrite E. cbn. split; [reflexivity|]. rewrite upd_same. cbn [fthr]. rewrite upd_same.
           pose proof (w_len _ I id). unfold len in *. lia.
      * (* full *)
        apply (producer_local s _ t I Ht); un; try side.
        -- rewrite E. apply ty_in; try side. cbn [fthr]. now rewrite upd_same.
        -- rewrite E; exact Logic.I.
        -- intros i Hi. rewrite E. cbn. intros [-> H]. now rewrite Ef in H.
  - (* FPU: the flag store, then the wake decision *)
    cbn [fthr flog]. rewrite upd_same, last_last. cbn [snd].
    destruct r as [l|]; cbn [pub_res].
    + destruct (Z.leb_spec l 1) as [Hl|Hl].
      * apply (producer_local s _ t I Ht); un; rewrite ?upd_same; try side.
        -- apply ty_out; try side; cbn [fthr]; now rewrite upd_same.
        -- intros i Hi. rewrite E. cbn. intros [-> _]. reflexivity.
      * unfold send_next. destruct (M <=? S j)%nat;
          (apply (producer_local s _ t I Ht); un; rewrite ?upd_same; try side;
           [apply ty_out; try side; cbn [fthr]; now rewrite upd_same
           |intros i Hi; rewrite E; cbn; intros [-> H]; rewrite Ef in H; lia]).
    + apply (producer_local s _ t I Ht); un; rewrite ?upd_same; try side.
      * apply ty_out; try side; cbn [fthr]; now rewrite upd_same.
      * intros i Hi. rewrite E. cbn. intros [-> H]. now rewrite Ef in H.
Qed.


(* ---- listener-side steps ---- *)
Lemma stream_index s t i : WInv s -> (t < k)%nat ->
  (mthr s t = MDrive i \/ (exists d, mthr s t = MPollQ i d) \/ (exists d, mthr s t = MPollK i d) \/
   (exists r d, mthr s t = MReg i r d) \/ mthr s t = MParked i) -> i = t.
Proof.
  intros I Ht H. pose proof (w_str _ I t Ht) as Hs.
  destruct H as [H|[[d H]|[[d H]|[[r [d H]]|H]]]]; rewrite H in Hs; cbn in Hs; try (destruct d; try contradiction); auto.
Qed.
Lemma stream_drv s t : WInv s -> (t < k)%nat ->
  forall i d, (mthr s t = MPollQ i d \/ mthr s t = MPollK i d \/ exists r, mthr s t = MReg i r d) -> d = true.
Proof.
  intros I Ht i d H. pose proof (w_str _ I t Ht) as Hs.
  destruct H as [H|[H|[r H]]]; rewrite H in Hs; cbn in Hs; destruct d; auto; contradiction.
Qed.

Lemma fcl_not_idle x t : fthr x t = FCL -> ridle (fstep N idz x t) t = false.
Proof.
  unfold ridle, fstep, idz. intros E. rewrite E. destruct (flock x); [now rewrite E|].
  destruct (_ <? _); cbn [fthr]; now rewrite upd_same.
Qed.

(* the consume attempt of a listener's task: the flag CAS (from MDrive, where the operation starts, or from MPollQ) *)
Lemma consume_cas s t x0 th' :
  WInv s -> (t < k)%nat ->
  fthr x0 t = FCL -> (forall u, u <> t -> fthr x0 u = fthr (rings s t) u) ->
  fhead x0 = fhead (rings s t) -> ftail x0 = ftail (rings s t) ->
  th' t = MPollQ t true -> (forall u, u <> t -> th' u = mthr s u) -> (forall i, i <> t -> fth s i t = FIdle) ->
  WInv (mmk (mx s) (upd (rings s) t (fstep N idz x0 t)) (msm s) (vacant s) (alive s) th' (mlog s)).
Proof.
  intros I Ht Ef Hoth Hh Htl Hth1 Hth2 Hel. unfold fstep, idz. rewrite Ef.
  pose proof (w_len _ I t) as Hl0. unfold len in Hl0.
  destruct (flock x0) eqn:El; [|destruct (Z.ltb_spec 0 (ftail x0 - fhead x0)) as [Hpos|Hz]].
  all: apply (stream_step s _ t I Ht); un; rewrite ?upd_same, ?Hth1; try side.
  all: try (intros; apply upd_ring_fthr; cbn [fthr]; rewrite ?upd_other by assumption; now apply Hoth).
  all: try (apply ty_in; try side; cbn [fthr]; rewrite ?upd_same, ?Ef; reflexivity).
  all: try (intros; contradiction).
  all: try (cbn [fhead ftail]; lia).
  all: try (intros; right; exact Logic.I).
  all: try (intros; cbn; rewrite ?Ef; cbn [fthr]; rewrite ?upd_same; exact Logic.I).
  all: intros; rewrite upd_other by assumption; reflexivity.
Qed.


Lemma step_drive s t i : WInv s -> mthr s t = MDrive i -> WInv (stp s t).
Proof.
  intros I E. assert (Ht : (t < k)%nat) by (apply (is_stream s t I); rewrite E; auto).
  assert (i = t) by (apply (stream_index s t i I Ht); auto). subst i.
  assert (Hid : forall i, fth s i t = FIdle) by (apply idle_all; [exact I|now rewrite E]).
  unfold mstep. rewrite E. cbv beta iota zeta.
  assert (Es : fstart (rings s t) t OpCons = fset (rings s t) t FCL) by (unfold fstart; unfold fth in Hid; now rewrite (Hid t)).
  rewrite Es. rewrite fcl_not_idle by (cbn; apply upd_same).
  apply (consume_cas s t (fset (rings s t) t FCL)); auto; try side.
Qed.

Lemma step_pollq s t i d : WInv s -> mthr s t = MPollQ i d -> WInv (stp s t).
Proof.
  intros I E. assert (Ht : (t < k)%nat) by (apply (is_stream s t I); rewrite E; auto).
  assert (i = t) by (apply (stream_index s t i I Ht); eauto). subst i.
  assert (d = true) by (apply (stream_drv s t I Ht t d); auto). subst d.
  assert (Hel : forall i, i <> t -> fth s i t = FIdle) by (apply idle_elsewhere; [exact I|now rewrite E]).
  pose proof (proj1 (w_ty _ I t t)) as Ty. rewrite E in Ty. specialize (Ty eq_refl). cbn in Ty.
  pose proof (w_len _ I t) as Hl0.
  unfold mstep. rewrite E. cbv beta iota zeta. unfold rstep_i.
  unfold fth in Ty. destruct (fthr (rings s t) t) as [| | | |r|] eqn:Ef; cbn in Ty; try discriminate.
  - (* FCL *)
    rewrite fcl_not_idle by assumption. apply (consume_cas s t (rings s t)); auto.
  - (* FCU: the flag store, then yield or go on to the keep flag *)
    unfold fstep, idz, ridle, after_mcons, rres. rewrite Ef. cbn [fthr flog]. rewrite upd_same, last_last. cbn [snd].
    destruct r as [v|]; cbn [cons_res].
    + apply (stream_step s _ t I Ht); un; rewrite ?upd_same; try side.
      all: try (apply ty_out; try side; cbn [fthr]; now rewrite upd_same).
      all: try (intros; rewrite upd_other by assumption; reflexivity).
      all: try (cbn [fhead ftail]; lia).
      all: try (intros; contradiction).
      all: try (intros; right; exact Logic.I).
    + apply (stream_step s _ t I Ht); un; rewrite ?upd_same; try side.
      all: try (apply ty_out; try side; cbn [fthr]; now rewrite upd_same).
      all: try (intros; rewrite upd_other by assumption; reflexivity).
      all: try (cbn [fhead ftail]; lia).
      all: try (intros; contradiction).
      all: try (intros; right; exact Logic.I).
      intros _. rewrite E, Ef. cbn. auto.
Qed.


Ltac sside :=
  first [ side | (intros; cbn; now rewrite upd_other) | (intros; cbn; apply upd_same) | (unfold len in *; lia)
        | (intros; cbn; rewrite upd_same; discriminate) | (intros; discriminate) | (intros; cbn in *; congruence)
        | (intros; cbn in *; rewrite upd_same in *; discriminate) | (intros; contradiction) | (intros; right; exact Logic.I)
        | (intros; cbn; auto; fail) ].

Lemma step_pollk s t i d : WInv s -> mthr s t = MPollK i d -> WInv (stp s t).
Proof.
  intros I E. assert (Ht : (t < k)%nat) by (apply (is_stream s t I); rewrite E; auto).
  assert (i = t) by (apply (stream_index s t i I Ht); eauto 6). subst i.
  assert (d = true) by (apply (stream_drv s t I Ht t d); auto). subst d.
  assert (Hid : forall i, fth s i t = FIdle) by (apply idle_all; [exact I|now rewrite E]).
  pose proof (w_len _ I t) as Hl0.
  unfold mstep. rewrite E. cbv beta iota zeta.
  destruct (keep (msm s) t) eqn:Ek.
  - apply (stream_step s _ t I Ht); un; rewrite ?upd_same; try sside.
    + apply ty_none; auto.
    + intros _. rewrite E. cbn. auto.
  - apply (stream_step s _ t I Ht); un; rewrite ?upd_same; try sside.
    apply ty_none; auto.
Qed.

Lemma step_parked s t i : WInv s -> mthr s t = MParked i -> WInv (stp s t).
Proof.
  intros I E. assert (Ht : (t < k)%nat) by (apply (is_stream s t I); rewrite E; auto).
  assert (i = t) by (apply (stream_index s t i I Ht); eauto 6). subst i.
  assert (Hid : forall i, fth s i t = FIdle) by (apply idle_all; [exact I|now rewrite E]).
  pose proof (w_len _ I t) as Hl0.
  unfold mstep. rewrite E. cbv beta iota zeta.
  destruct (notified (msm s) t) eqn:En; [|exact I].
  apply (stream_step s _ t I Ht); un; rewrite ?upd_same; try sside.
  apply ty_none; auto.
Qed.

Lemma step_no s t : WInv s -> mthr s t = MNo -> (t < k)%nat -> WInv (stp s t).
Proof.
  intros I E Ht.
  assert (Hid : forall i, fth s i t = FIdle) by (apply idle_all; [exact I|now rewrite E]).
  pose proof (w_len _ I t) as Hl0.
  unfold mstep. rewrite E. cbv beta iota zeta.
  apply (stream_step s _ t I Ht); un; rewrite ?upd_same; try sside.
  apply ty_none; auto.
Qed.

Lemma step_reg s t i r d : WInv s -> mthr s t = MReg i r d -> WInv (stp s t).
Proof.
  intros I E. assert (Ht : (t < k)%nat) by (apply (is_stream s t I); rewrite E; auto).
  assert (i = t) by (apply (stream_index s t i I Ht); eauto 8). subst i.
  assert (d = true) by (apply (stream_drv s t I Ht t d); eauto). subst d.
  assert (Hid : forall i, fth s i t = FIdle) by (apply idle_all; [exact I|now rewrite E]).
  pose proof (w_len _ I t) as Hl0.
  pose proof (w_reg _ I t Ht) as Hreg. rewrite E in Hreg.
  unfold mstep. rewrite E. cbv beta iota zeta.
  destruct r.
  - (* R0 *)
    destruct (wakers (msm s) t) eqn:Ew.
    + apply (stream_step s _ t I Ht); un; rewrite ?upd_same; try sside.
      * apply ty_none; auto.
      * intros _. rewrite E. cbn. rewrite Ew. intros [W|W]; [discriminate|assumption].
    + apply (stream_step s _ t I Ht); un; rewrite ?upd_same; try sside.
      apply ty_none; auto.
  - (* RL *)
    destruct (wlock (msm s)); [exact I|].
    apply (stream_step s _ t I Ht); un; rewrite ?upd_same; try sside.
    apply ty_none; auto.
  - (* RW *)
    apply (stream_step s _ t I Ht); un; rewrite ?upd_same; try sside.
    apply ty_none; auto.
  - (* RU *)
    specialize (Hreg Logic.I). unfold wk in Hreg.
    apply (stream_step s _ t I Ht); un; rewrite ?upd_same; try sside.
    apply ty_none; auto.
  - (* RS *)
    specialize (Hreg Logic.I). unfold wk in Hreg.
    apply (stream_step s _ t I Ht); un; rewrite ?upd_same; try sside.
    apply ty_none; auto.
Qed.


Lemma winv_step s t : WInv s -> WInv (stp s t).
Proof.
  intros I. destruct (mthr s t) eqn:E;
    try (exfalso; destruct (Nat.lt_ge_cases t k) as [Hl|Hg];
         [pose proof (w_str _ I t Hl) as H|pose proof (w_prod _ I t Hg) as H]; rewrite E in H; exact H).
  - unfold mstep. rewrite E. exact I.
  - eapply step_sendu; eauto.
  - eapply step_sendq; eauto.
  - eapply step_sendw; eauto.
  - eapply step_drive; eauto.
  - eapply step_pollq; eauto.
  - eapply step_pollk; eauto.
  - eapply step_reg; eauto.
  - eapply step_parked; eauto.
  - apply step_no; auto. destruct (Nat.lt_ge_cases t k) as [Hl|Hg]; [exact Hl|].
    pose proof (w_prod _ I t Hg) as H. rewrite E in H. contradiction.
  - eapply step_count; eauto.
Qed.

Lemma winv_start s t o : wf_ev (MStart t o) -> WInv s -> WInv (strt s t o).
Proof.
  intros Hwf I. unfold mstart. destruct (mthr s t) eqn:E; try exact I.
  assert (Hid : forall i, fth s i t = FIdle) by (apply idle_all; [exact I|now rewrite E]).
  destruct o; cbn in Hwf; try contradiction.
  - (* send *)
    unfold send_next. destruct (M <=? 0)%nat;
      (apply (producer_local s _ t I Hwf); un; rewrite ?upd_same; try side;
       [apply ty_none; auto|intros i Hi; rewrite E; cbn; contradiction]).
  - (* drive *)
    destruct Hwf as [-> Hi]. pose proof (w_len _ I i) as Hl0.
    destruct (alive s i); (apply (stream_step s _ i I Hi); un; rewrite ?upd_same; try sside; apply ty_none; auto).
  - (* count *)
    apply (producer_local s _ t I Hwf); un; rewrite ?upd_same; try side.
    + apply ty_none; auto.
    + intros i Hi. rewrite E. cbn. contradiction.
Qed.

(* ---- the initial state ---- *)
Lemma filter_all {A} (f : A -> bool) l : (forall x, In x l -> f x = true) -> filter f l = l.
Proof. induction l as [|a l IH]; intros H; cbn; [reflexivity|]. rewrite (H a) by now left. f_equal. apply IH. intros x Hx. apply H. now right. Qed.
Lemma filter_none {A} (f : A -> bool) l : (forall x, In x l -> f x = false) -> filter f l = [].
Proof. induction l as [|a l IH]; intros H; cbn; [reflexivity|]. rewrite (H a) by now left. apply IH. intros x Hx. apply H. now right. Qed.
Lemma nth_repeat_same {A} (a : A) m j : nth j (repeat a m) a = a.
Proof. revert j. induction m as [|m IH]; intros [|j]; cbn; auto. Qed.

(* used_streams once ids 0..n-1 are taken: [0; ..; n-1; MAX; ..] *)
Lemma arr_of_taken n j : (n <= M)%nat -> arr_of M (seq n (M - n)) j = if (j <? n)%nat then Z.of_nat j else MAXID.
Proof.
  intros Hn. unfold arr_of, used_list.
  assert (Hin : forall i, existsb (Nat.eqb i) (seq n (M - n)) = true <-> In i (seq n (M - n))).
  { intros i. rewrite existsb_exists. split; [intros [x [Hx He]]; apply Nat.eqb_eq in He; now subst|intros H; exists i; split; [exact H|apply Nat.eqb_refl]]. }
  assert (Hlive : filter (fun i => negb (existsb (Nat.eqb i) (seq n (M - n)))) (seq 0 M) = seq 0 n).
  { assert (Hs : seq 0 M = seq 0 n ++ seq n (M - n)) by (change n with (0 + n)%nat at 3; rewrite <- seq_app; f_equal; lia).
    rewrite Hs. rewrite filter_app, filter_all, filter_none; [apply app_nil_r| |].
    - intros x Hx. cbn in Hx. apply (proj2 (Hin x)) in Hx. now rewrite Hx.
    - intros x Hx. apply in_seq in Hx. destruct (existsb (Nat.eqb x) (seq n (M - n))) eqn:Ex; [|reflexivity].
      apply Hin, in_seq in Ex. lia. }
  rewrite Hlive, seq_length. destruct (Nat.ltb_spec j n) as [Hj|Hj].
  - rewrite app_nth1 by (rewrite map_length, seq_length; exact Hj).
    rewrite (nth_indep _ MAXID (Z.of_nat 0)) by (rewrite map_length, seq_length; exact Hj).
    rewrite map_nth, seq_nth by exact Hj. reflexivity.
  - rewrite app_nth2 by (rewrite map_length, seq_length; exact Hj). apply nth_repeat_same.
Qed.

(* closed form of the state after n <= MAX_STREAMS creations *)
Record Shape (n : nat) (s : mst) : Prop := {
  sh_vac  : vacant s = seq n (M - n);
  sh_alive: forall i, alive s i = (i <? n)%nat;
  sh_keep : forall i, keep (msm s) i = (i <? n)%nat;
  sh_used : forall j, usedarr (mx s) j = if (j <? n)%nat then Z.of_nat j else MAXID;
  sh_wk   : forall i, wakers (msm s) i = false;
  sh_nt   : forall i, notified (msm s) i = false;
  sh_wl   : wlock (msm s) = false;
  sh_thr  : forall t, mthr s t = MIdle;
  sh_rings: forall i, rings s i = finit
}.
Lemma shape_iter n : (n <= M)%nat -> Shape n (Nat.iter n (fun s => stp (strt s 0%nat MoCreate) 0%nat) (minit M)).
Proof.
  induction n as [|n IH]; intros Hn.
  - constructor; cbn; auto. now rewrite Nat.sub_0_r.
  - unfold Nat.iter in *. cbn [nat_rect]. specialize (IH ltac:(lia)). set (s := nat_rect _ _ _ n) in *.
    destruct IH as [Hv Ha Hk Hu Hw Hnt Hl Ht Hr].
    unfold mstart. rewrite (Ht 0%nat). unfold mstep, msetpc. cbn [mthr mmk]. rewrite upd_same. cbn [vacant mmk]. rewrite Hv.
    replace (M - n)%nat with (S (M - S n)) by lia. cbn [seq].
    constructor; cbn [mmk mx rings msm vacant alive mthr mlog mkx usedarr wakers keep wlock notified]; auto.
    + intros i. unfold upd. destruct (Nat.eqb_spec i n) as [->|Hne]; [symmetry; apply Nat.ltb_lt; lia|].
      rewrite Ha. destruct (Nat.ltb_spec i n), (Nat.ltb_spec i (S n)); auto; lia.
    + intros i. unfold upd. destruct (Nat.eqb_spec i n) as [->|Hne]; [symmetry; apply Nat.ltb_lt; lia|].
      rewrite Hk. destruct (Nat.ltb_spec i n), (Nat.ltb_spec i (S n)); auto; lia.
    + intros j. apply (arr_of_taken (S n) j Hn).
    + intros t. unfold upd. destruct (Nat.eqb t 0); auto.
Qed.
Lemma created_shape : (k <= M)%nat -> Shape k created.
Proof. apply shape_iter. Qed.

Lemma created_idle : (forall t, mthr created t = MIdle) /\ (forall i, rings created i = finit).
Proof.
  unfold created. induction k as [|n IH]; [split; reflexivity|].
  unfold Nat.iter in *. cbn [nat_rect]. destruct IH as [Hc Hr]. set (s := nat_rect _ _ _ n) in *.
  unfold mstart. rewrite (Hc 0%nat). unfold mstep, msetpc. cbn [mthr mmk]. rewrite upd_same. cbn [vacant mmk].
  destruct (vacant s); cbn [mfinish mthr rings mmk]; (split; [|exact Hr]); intros t;
    unfold upd; destruct (Nat.eqb t 0); auto.
Qed.

Lemma winv_init : WInv created.
Proof.
  destruct created_idle as [Hc Hr].
  constructor; unfold len, fth, wk, nt, WillSee; rewrite ?Hc, ?Hr.
  - intros t i. rewrite Hc, Hr. split; [discriminate|reflexivity].
  - intros i _. rewrite Hc. exact Logic.I.
  - intros t _. rewrite Hc. exact Logic.I.
  - intros i _. rewrite Hc. intros [].
  - intros i. rewrite Hr. cbn. lia.
  - intros i _ _. rewrite Hc. right. exact Logic.I.
  - intros i _ _. rewrite Hc. left. exact Logic.I.
Qed.

Theorem winv_reachable evs : Forall wf_ev evs -> WInv (fold_left exec evs created).
Proof.
  generalize created winv_init.
  induction evs as [|e evs IH]; intros s I Hwf; [exact I|].
  inversion Hwf as [|? ? He Hrest]; subst. cbn [fold_left]. apply IH; [|exact Hrest].
  destruct e; cbn [MultiFSProps.mexec]; [apply winv_step|apply winv_start]; assumption.
Qed.

(* C04 on the Multi channel: no listener is left parked and un-notified next to a non-empty ring once the producers have returned *)
Theorem mfs_no_lost_wakeup evs : Forall wf_ev evs -> forall i, (i < k)%nat -> ~ lost (fold_left exec evs created) i.
Proof. intros H i Hi. apply winv_not_lost; [exact Hi|apply winv_reachable, H]. Qed.

(* the same without the keep flag (it plays no role while nobody cancels): once the producers have returned, a task parked next to
   its non-empty ring HAS been notified *)
Corollary mfs_parked_is_notified evs i :
  Forall wf_ev evs -> (i < k)%nat -> let s := fold_left exec evs created in
  (forall t, (k <= t)%nat -> mthr s t = MIdle) -> 0 < len s i -> mthr s i = MParked i -> notified (msm s) i = true.
Proof.
  intros H Hi s Hp Hl Hc. pose proof (winv_reachable evs H) as I. fold s in I.
  destruct (w_see _ I i Hi Hl) as [W|[p Hpd]].
  - rewrite Hc in W. exact W.
  - exfalso. destruct (Nat.lt_ge_cases p k) as [Hlt|Hge].
    + exact (stream_not_pending s p i (w_str _ I p Hlt) Hpd).
    + unfold pending in Hpd. rewrite (Hp p Hge) in Hpd. exact Hpd.
Qed.

End MultiWakeFS.

(* ---- non-vacuity: BUFFER 4, MAX_STREAMS 3, listeners 0 and 1; listener 0's task (thread 0) finds ring 0 empty, registers its waker,
   is self-woken once, polls again and parks for good; thread 2 sends 7 (published into rings 0 and 1, wake_stream(0) notifies the
   parked task); the task wakes up and yields 7 ---- *)
Module MultiWakeExample.
Definition steps (t n : nat) : list MultiFSProps.mev := repeat (MStep t) n.
Definition park := MStart 0 (MoDrive 0) :: steps 0 14.
Definition send := MStart 2 (MoSend 7) :: steps 2 20.
Definition wake := steps 0 3.
Definition run evs := fold_left (MultiFSProps.mexec 4 3) evs (created 4 3 2).
Definition rlen (s : mst) (i : nat) : Z := ftail (rings s i) - fhead (rings s i).

Example ex_wf : Forall (wf_ev 2) (park ++ send ++ wake).
Proof. unfold park, send, wake, steps. cbn [repeat app]. repeat constructor. Qed.

Example ex_parked :
  let s := run park in
  mthr s 0%nat = MParked 0 /\ notified (msm s) 0%nat = false /\ wakers (msm s) 0%nat = true /\ keep (msm s) 0%nat = true /\ rlen s 0 = 0.
Proof. vm_compute. repeat split. Qed.

(* after the send: every conjunct of `lost 2 s 0` holds except the last one - the task HAS been notified *)
Example ex_sent :
  let s := run (park ++ send) in
  mthr s 2%nat = MIdle /\ rlen s 0 = 1 /\ rlen s 1 = 1 /\ keep (msm s) 0%nat = true /\ mthr s 0%nat = MParked 0 /\ notified (msm s) 0%nat = true.
Proof. vm_compute. repeat split. Qed.

Example ex_yield :
  let s := run (park ++ send ++ wake) in
  mlog s = [(0%nat, MCreated 0); (0%nat, MCreated 1); (0%nat, MPending 0); (0%nat, MPending 0); (2%nat, MSendOk 7); (0%nat, MYield 0 7)]
  /\ rlen s 0 = 0.
Proof. vm_compute. repeat split. Qed.

Example ex_not_lost : ~ lost 2 (run (park ++ send)) 0.
Proof.
  apply (mfs_no_lost_wakeup 4 3 2); [|lia]. pose proof ex_wf as H. apply Forall_app in H. destruct H as [H1 H2].
  apply Forall_app in H2. apply Forall_app. split; [exact H1|apply H2].
Qed.
End MultiWakeExample.

Check mfs_no_lost_wakeup.
Print Assumptions mfs_no_lost_wakeup.
