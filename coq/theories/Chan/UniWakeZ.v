From RM Require Import RingModel FullSync Chan ChanProps UniInst ZeroCopy ZcUni ZcSolo ZcView ChanZ.
Import ZC.

(* C04 on the zero-copy full-sync Uni channel (ChanZ.v over ZcUni.v with full-sync components, the machine in lock-step with
   ChannelUniZeroCopyFullSync): no lost wake-up, for every schedule, any number of producers / cancellers, any MAX_STREAMS, any number
   0 < k <= MAX_STREAMS of task-driven streams.  The argument is UniWake.v's, read on the ring of slot ids (component B); the allocation
   before a publication and the release after a yield are neutral phases. *)
Section UniWakeZ.
Variable N : Z.
Hypothesis Npos : 0 < N.
Variable M k : nat.
Hypothesis kpos : (0 < k)%nat.
Hypothesis kM : (k <= M)%nat.

Local Notation Q := (ust fsst).
Local Notation cst := (cst Q).
Local Notation exec := (cexec Q (zstep N) zstart (uidle fsst) (ulog fsst) zrelease M k (wake_rule_fullsync M)).
Local Notation stp := (cstep Q (zstep N) zstart (uidle fsst) (ulog fsst) zrelease M k (wake_rule_fullsync M)).
Local Notation strt := (cstart Q zstart M).

(* well-formed use: stream i is driven by task (thread) i and by nobody else; the other threads send, ask the length or
   cancel all streams *)
Definition wf_ev (e : cev) : Prop :=
  match e with
  | CStep _ => True
  | CStart t (CoDrive i) => t = i /\ (i < k)%nat
  | CStart t (CoPoll _) => False
  | CStart t _ => (k <= t)%nat
  end.

(* typing: what the composite and the id ring are doing for thread t is what its channel pc says *)
Definition phase (c : cpc) (u : upc) (f : fpc) : Prop :=
  match c with
  | XSendQ v => (u = UEnqA v /\ f = FIdle) \/ (exists id, u = UEnqB v id /\ (f = FPL id \/ exists r, f = FPU id r))
  | XPollQ _ _ => u = UDeqB /\ (f = FCL \/ exists r, f = FCU r)
  | XLenQ => u = ULenB /\ f = FIdle
  | XRel _ _ => ((exists id, u = URel id) \/ u = UIdle) /\ f = FIdle
  | _ => u = UIdle /\ f = FIdle
  end.
Definition qb (s : cst) : fsst := ub _ (q _ s).
Definition len (s : cst) : Z := ftail (qb s) - fhead (qb s).
Definition uth (s : cst) (t : nat) : upc := uthr _ (q _ s) t.
Definition TYZ (s : cst) : Prop := forall t, phase (cthr _ s t) (uth s t) (fthr (qb s) t).
Definition fth (s : cst) (t : nat) : fpc := fthr (qb s) t.
Definition wk (s : cst) (i : nat) : bool := wakers (m _ s) i.
Definition nt (s : cst) (i : nat) : bool := notified (m _ s) i.
Definition kp (s : cst) (i : nat) : bool := keep (m _ s) i.

(* thread p is about to wake stream i *)
Definition wpending (w : wpc) (wi : bool) (i : nat) : Prop :=
  match w with
  | W0 j | W1 j | WW j => j = i
  | WL j | WR j => j = i /\ wi = true
  | WU => False
  end.
Definition pending (s : cst) (p i : nat) : Prop :=
  match cthr _ s p with
  | XSendQ _ => match fth s p with FPU _ (Some l) => wake_rule_fullsync M l = Some i | _ => False end
  | XSendW _ w | XCancelW _ w => wpending w (wk s i) i
  | _ => False
  end.

(* stream i, by itself, is on its way to look at the queue / the keep flag again *)
Definition will_look (c : cpc) (f : fpc) (w n : bool) : Prop :=
  match c with
  | XIdle | XDrive _ | XRel _ _ => True
  | XPollQ _ _ => match f with FCU None => w = false \/ n = true | _ => True end
  | XPollK _ _ | XReg _ R0 _ => w = false \/ n = true
  | XReg _ _ _ => True
  | XParked _ => n = true
  | _ => False
  end.
Definition WillSee (s : cst) (i : nat) : Prop :=
  will_look (cthr _ s i) (fth s i) (wk s i) (nt s i) \/ exists p, pending s p i.

(* stream i, by itself, is on its way to read its keep flag again (C07) *)
Definition will_check (c : cpc) (w n : bool) : Prop :=
  match c with
  | XIdle | XDrive _ | XPollQ _ _ | XPollK _ _ | XRel _ _ => True
  | XReg _ R0 _ => w = false \/ n = true
  | XReg _ _ _ => True
  | XParked _ => n = true
  | _ => False
  end.
Definition WillCheck (s : cst) (i : nat) : Prop :=
  will_check (cthr _ s i) (wk s i) (nt s i) \/ exists p, pending s p i.

(* ... and will then read the keep flag (a stream holding an item re-polls first) *)
Definition on_the_way (c : cpc) : Prop :=
  match c with
  | XIdle | XDrive _ | XPollQ _ _ | XPollK _ _ | XReg _ R0 _ | XReg _ RL _ | XReg _ RW _ | XRel _ _ => True
  | _ => False
  end.

Definition stream_pc (i : nat) (c : cpc) : Prop :=
  match c with
  | XIdle => True
  | XDrive j | XPollQ j true | XPollK j true | XReg j _ true | XParked j | XRel j true => j = i
  | _ => False
  end.
Definition producer_pc (c : cpc) : Prop :=
  match c with
  | XIdle | XSendQ _ | XSendW _ _ | XLenQ | XCancelU _ | XCancelK _ | XCancelW _ _ => True
  | _ => False
  end.
Definition registered (c : cpc) : Prop := match c with XReg _ RU _ | XReg _ RS _ | XParked _ => True | _ => False end.

Record WInv (s : cst) : Prop := {
  w_gi    : TYZ s;
  w_str   : forall i, (i < k)%nat -> stream_pc i (cthr _ s i);
  w_prod  : forall t, (k <= t)%nat -> producer_pc (cthr _ s t);
  w_reg   : forall i, (i < k)%nat -> registered (cthr _ s i) -> wk s i = true;
  w_len   : 0 <= len s;
  w_J     : forall i, (i < k)%nat -> wk s i = false -> nt s i = true \/ on_the_way (cthr _ s i);
  w_c04   : (forall i, (i < k)%nat -> kp s i = true) -> 0 < len s -> exists i, (i < k)%nat /\ WillSee s i;
  w_c07   : forall i, (i < k)%nat -> kp s i = false -> WillCheck s i
}.

Definition lost (s : cst) : Prop :=
  (forall t, (k <= t)%nat -> cthr _ s t = XIdle) /\ 0 < len s /\ (forall i, (i < k)%nat -> kp s i = true) /\
  forall i, (i < k)%nat -> cthr _ s i = XParked i /\ nt s i = false.

Definition stuck_cancelled (s : cst) (i : nat) : Prop :=
  (forall t, (k <= t)%nat -> cthr _ s t = XIdle) /\ kp s i = false /\ cthr _ s i = XParked i /\ nt s i = false.

Lemma no_pending s p i :
  (forall t, (k <= t)%nat -> cthr _ s t = XIdle) -> (forall j, (j < k)%nat -> stream_pc j (cthr _ s j)) -> ~ pending s p i.
Proof.
  intros Hp Hs Hpd. unfold pending in Hpd. destruct (Nat.lt_ge_cases p k) as [Hlt|Hge].
  - specialize (Hs p Hlt). destruct (cthr _ s p); cbn in *; try contradiction; try (destruct drv; contradiction).
  - rewrite (Hp p Hge) in Hpd. exact Hpd.
Qed.

Lemma willsee_not_parked s i :
  (forall t, (k <= t)%nat -> cthr _ s t = XIdle) -> (forall j, (j < k)%nat -> stream_pc j (cthr _ s j)) ->
  cthr _ s i = XParked i -> nt s i = false -> ~ WillSee s i /\ ~ WillCheck s i.
Proof.
  intros Hp Hs Hc Hn. split; intros [Hl|[p Hpd]]; try (eapply no_pending; eassumption);
    rewrite Hc in Hl; cbn in Hl; congruence.
Qed.

Lemma winv_not_lost s : WInv s -> ~ lost s.
Proof.
  intros I (Hp & Hl & Hk & Hs). destruct (w_c04 _ I Hk Hl) as (i & Hi & W).
  destruct (Hs i Hi) as [Hc Hn]. eapply (proj1 (willsee_not_parked s i Hp (w_str _ I) Hc Hn)); eauto.
Qed.

Lemma winv_not_stuck s i : (i < k)%nat -> WInv s -> ~ stuck_cancelled s i.
Proof.
  intros Hi I (Hp & Hk & Hc & Hn). eapply (proj2 (willsee_not_parked s i Hp (w_str _ I) Hc Hn)). apply (w_c07 _ I); assumption.
Qed.

(* ------------------------------------------------------------------------------------------------ framing *)
Record Frame (s s' : cst) (t : nat) : Prop := {
  fr_c  : forall u, u <> t -> cthr _ s' u = cthr _ s u;
  fr_f  : forall u, u <> t -> fth s' u = fth s u;
  fr_w  : forall i, i <> t -> wk s' i = wk s i;
  fr_wt : wk s t = true -> wk s' t = true;
  fr_n  : forall i, i <> t -> nt s i = true -> nt s' i = true;
  fr_k  : forall i, kp s' i = true -> kp s i = true
}.

Lemma will_look_mono c f w n n' : will_look c f w n -> (n = true -> n' = true) -> will_look c f w n'.
Proof. unfold will_look. destruct c; auto; try (destruct r; auto); try (destruct f as [| | | |[?|]|]; auto); intros [?|?]; auto. Qed.
Lemma will_check_mono c w n n' : will_check c w n -> (n = true -> n' = true) -> will_check c w n'.
Proof. unfold will_check. destruct c; auto; try (destruct r; auto); intros [?|?]; auto. Qed.
Lemma wpending_mono w a b i : wpending w a i -> (a = true -> b = true) -> wpending w b i.
Proof. unfold wpending. destruct w; auto. all: intros [? ?]; auto. Qed.

Lemma pending_other s s' t p i : Frame s s' t -> p <> t -> pending s p i -> pending s' p i.
Proof.
  intros F Hp. unfold pending. rewrite (fr_c _ _ _ F p Hp), (fr_f _ _ _ F p Hp).
  destruct (cthr _ s p); auto; intros H; eapply wpending_mono; eauto;
    (destruct (Nat.eq_dec i t) as [->|Hn]; [apply (fr_wt _ _ _ F)|rewrite (fr_w _ _ _ F i Hn); auto]).
Qed.

Lemma transport s s' t i : Frame s s' t -> i <> t ->
  (WillSee s i -> WillSee s' i \/ pending s t i) /\ (WillCheck s i -> WillCheck s' i \/ pending s t i).
Proof.
  intros F Hi. unfold WillSee, WillCheck.
  rewrite (fr_c _ _ _ F i Hi), (fr_f _ _ _ F i Hi), (fr_w _ _ _ F i Hi).
  split; (intros [H|[p Hp]];
    [left; left; first [eapply will_look_mono|eapply will_check_mono]; eauto; apply (fr_n _ _ _ F i Hi)
    |destruct (Nat.eq_dec p t) as [->|Hn]; [now right|left; right; exists p; eapply pending_other; eauto]]).
Qed.

(* when stream i is typed as a stream, being notified is enough *)
Lemma notified_will s i : stream_pc i (cthr _ s i) -> nt s i = true -> WillSee s i /\ WillCheck s i.
Proof.
  intros Ht Hn. unfold WillSee, WillCheck, will_look, will_check. rewrite Hn.
  split; left; destruct (cthr _ s i); cbn in Ht; try contradiction; auto; try (destruct (fth s i) as [| | | |[?|]|]; auto); destruct r; auto.
Qed.

(* J turns a lost pending wake (the waker slot was still empty) into a stream that is on its way *)
Lemma J_will s i : stream_pc i (cthr _ s i) -> wk s i = false -> nt s i = true \/ on_the_way (cthr _ s i) ->
  WillSee s i /\ WillCheck s i.
Proof.
  intros Ht Hw [Hn|Ho]; [now apply notified_will|].
  unfold WillSee, WillCheck, will_look, will_check. rewrite Hw.
  split; left; destruct (cthr _ s i); cbn in Ht, Ho; try contradiction; auto; try (destruct (fth s i) as [| | | |[?|]|]; auto); destruct r; auto; contradiction.
Qed.

(* the general step lemma *)
Lemma winv_frame s s' t :
  WInv s -> Frame s s' t -> TYZ s' ->
  ((t < k)%nat -> stream_pc t (cthr _ s' t)) -> ((k <= t)%nat -> producer_pc (cthr _ s' t)) ->
  ((t < k)%nat -> registered (cthr _ s' t) -> wk s' t = true) ->
  0 <= len s' ->
  ((t < k)%nat -> wk s' t = false -> nt s' t = true \/ on_the_way (cthr _ s' t)) ->
  (forall i, (i < k)%nat -> i <> t -> pending s t i -> (WillSee s' i /\ WillCheck s' i)) ->
  ((t < k)%nat -> 0 < len s' -> will_look (cthr _ s t) (fth s t) (wk s t) (nt s t) -> WillSee s' t) ->
  ((t < k)%nat -> kp s' t = false -> will_check (cthr _ s t) (wk s t) (nt s t) -> WillCheck s' t) ->
  ((forall i, (i < k)%nat -> kp s' i = true) -> 0 < len s' -> len s <= 0 \/ ((t < k)%nat /\ len s' < len s) -> exists i, (i < k)%nat /\ WillSee s' i) ->
  (forall i, (i < k)%nat -> kp s' i = false -> kp s i = true -> WillCheck s' i) ->
  WInv s'.
Proof.
  intros I F G Ls Lp Lr Ll LJ Lpend Lself Lselfc Lc04 Lc07.
  assert (Hpself : forall p, pending s p t -> p <> t -> pending s' p t) by (intros p Hp Hn; eapply pending_other; eauto).
  assert (Hnotself : (t < k)%nat -> ~ pending s t t).
  { intros Ht Hp. pose proof (w_str _ I t Ht) as Hs. unfold pending in Hp. destruct (cthr _ s t); cbn in Hs; try contradiction; try (destruct drv; contradiction). }
  constructor; auto.
  - intros i Hi. destruct (Nat.eq_dec i t) as [->|Hn]; [auto|rewrite (fr_c _ _ _ F i Hn); apply (w_str _ I i Hi)].
  - intros u Hu. destruct (Nat.eq_dec u t) as [->|Hn]; [auto|rewrite (fr_c _ _ _ F u Hn); apply (w_prod _ I u Hu)].
  - intros i Hi. destruct (Nat.eq_dec i t) as [->|Hn]; [auto|].
    rewrite (fr_c _ _ _ F i Hn), (fr_w _ _ _ F i Hn). apply (w_reg _ I i Hi).
  - intros i Hi. destruct (Nat.eq_dec i t) as [->|Hn]; [auto|].
    rewrite (fr_c _ _ _ F i Hn), (fr_w _ _ _ F i Hn). intros Hw. destruct (w_J _ I i Hi Hw) as [H|H]; [left; now apply (fr_n _ _ _ F i Hn)|now right].
  - (* C04 *)
    intros Hk Hl. destruct (Z.lt_ge_cases 0 (len s)) as [Hpos|Hz]; [|apply Lc04; auto; left; lia].
    assert (Hk0 : forall i, (i < k)%nat -> kp s i = true) by (intros i Hi; apply (fr_k _ _ _ F), Hk, Hi).
    destruct (w_c04 _ I Hk0 Hpos) as (i & Hi & W).
    destruct (Nat.eq_dec i t) as [->|Hn].
    + exists t. split; [assumption|]. destruct W as [W|[p Hp]]; [now apply Lself|].
      right. exists p. apply Hpself; auto. intros ->. now apply (Hnotself Hi).
    + destruct (proj1 (transport s s' t i F Hn) W) as [W'|Hp]; [now exists i|].
      exists i. split; [assumption|]. now apply (Lpend i Hi Hn Hp).
  - (* C07 *)
    intros i Hi Hk. destruct (kp s i) eqn:Ek; [now apply Lc07|].
    pose proof (w_c07 _ I i Hi Ek) as W.
    destruct (Nat.eq_dec i t) as [->|Hn].
    + destruct W as [W|[p Hp]]; [now apply Lselfc|].
      right. exists p. apply Hpself; auto. intros ->. now apply (Hnotself Hi).
    + destruct (proj2 (transport s s' t i F Hn) W) as [W'|Hp]; [assumption|]. now apply (Lpend i Hi Hn Hp).
Qed.

Lemma fstep_fthr_other x t u : u <> t -> fthr (fstepZ N x t) u = fthr x u.
Proof.
  intros Hn. unfold fstepZ, fstep, idz. destruct (fthr x t) eqn:E; try reflexivity;
  repeat match goal with |- context[if ?b then _ else _] => destruct b end; try reflexivity;
  cbn [fthr]; now rewrite upd_other.
Qed.
Lemma fstart_fthr_other x t o u : u <> t -> fthr (fstart x t o) u = fthr x u.
Proof. intros Hn. unfold fstart. destruct (fthr x t); try reflexivity. cbn. now rewrite upd_other. Qed.
Lemma fstart_len x t o : ftail (fstart x t o) - fhead (fstart x t o) = ftail x - fhead x.
Proof. unfold fstart. destruct (fthr x t); reflexivity. Qed.

Ltac un := unfold len, fth, qb, uth, wk, nt, kp in *; cbn [q m cthr clog mk setpc finish wakers keep wlock notified fthr fhead ftail flock flog ua ub upool uthr ulog uheld umk] in *.

(* the sm part of a wake_stream step *)
Lemma wstep_frame mm w mm' w' :
  wstep mm w = (mm', w') ->
  wakers mm' = wakers mm /\ keep mm' = keep mm /\
  (forall i, notified mm i = true -> notified mm' i = true).
Proof.
  destruct w; cbn; try (destruct (wlock mm)); intros H; injection H as <- <-; cbn; auto.
  all: repeat split; auto; intros j Hj; unfold upd; destruct (Nat.eqb j i); auto.
Qed.

(* ---- one step of the full-sync ring, by the pc of the stepping thread ---- *)
Lemma fstep_pub_wait x t id : fthr x t = FPL id ->
  (fstepZ N x t = x) \/ (exists r, fthr (fstepZ N x t) t = FPU id r).
Proof.
  intros E. unfold fstepZ, fstep, idz. rewrite E. destruct (flock x); [now left|right].
  destruct (_ <? N); cbn [fthr]; rewrite upd_same; eauto.
Qed.
Lemma fstep_pub_done x t id r : fthr x t = FPU id r ->
  fthr (fstepZ N x t) t = FIdle /\ flog (fstepZ N x t) = flog x ++ [(t, pub_res id r)].
Proof. intros E. unfold fstepZ, fstep, idz. rewrite E. cbn [fthr flog]. rewrite upd_same. split; reflexivity. Qed.
Lemma fstep_cons_wait x t : fthr x t = FCL ->
  (fstepZ N x t = x) \/ (exists r, fthr (fstepZ N x t) t = FCU r).
Proof.
  intros E. unfold fstepZ, fstep, idz. rewrite E. destruct (flock x); [now left|right].
  destruct (0 <? _); cbn [fthr]; rewrite upd_same; eauto.
Qed.
Lemma fstep_cons_done x t r : fthr x t = FCU r ->
  fthr (fstepZ N x t) t = FIdle /\ flog (fstepZ N x t) = flog x ++ [(t, cons_res r)].
Proof. intros E. unfold fstepZ, fstep, idz. rewrite E. cbn [fthr flog]. rewrite upd_same. split; reflexivity. Qed.
Lemma fstart_same x t o : fthr x t = FIdle -> fthr (fstart x t o) t = match o with OpPub v => FPL v | OpCons => FCL | OpLen => FLN end.
Proof. intros E. unfold fstart. rewrite E. cbn. apply upd_same. Qed.
Lemma fsidle_false x t : fthr x t <> FIdle -> fsidle x t = false.
Proof. unfold fsidle. destruct (fthr x t); congruence. Qed.
Lemma fsidle_of x t : fthr x t = FIdle -> fsidle x t = true.
Proof. unfold fsidle. intros ->. reflexivity. Qed.

Definition plain (c : cpc) : Prop := match c with XSendQ _ | XPollQ _ _ | XLenQ | XRel _ _ => False | _ => True end.
Lemma phase_plain c u f : plain c -> phase c u f <-> (u = UIdle /\ f = FIdle).
Proof. destruct c; cbn; intros H; try contradiction; reflexivity. Qed.

(* a typing-preserving update: the composite moved (x'), thread t's pc became p' *)
Lemma tyz_set (s : cst) x' mm th l t :
  TYZ s -> (forall u, u <> t -> uthr _ x' u = uth s u) -> (forall u, u <> t -> fthr (ub _ x') u = fthr (qb s) u) ->
  (forall u, u <> t -> th u = cthr _ s u) -> phase (th t) (uthr _ x' t) (fthr (ub _ x') t) -> TYZ (mk _ x' mm th l).
Proof.
  intros T Hu Hf Hth Ht u. unfold uth, qb. cbn [q cthr]. destruct (Nat.eq_dec u t) as [->|Hn]; [exact Ht|].
  rewrite Hu, Hf, Hth by assumption. apply T.
Qed.
Lemma tyz_local (s : cst) t mm p l : TYZ s -> plain (cthr _ s t) -> plain p -> TYZ (mk _ (q _ s) mm (upd (cthr _ s) t p) l).
Proof.
  intros T Hp Hp'. apply (tyz_set s _ _ _ _ t T); auto; [intros; now apply upd_other|].
  rewrite upd_same. apply (phase_plain _ _ _ Hp'). apply (phase_plain _ _ _ Hp). apply T.
Qed.

Lemma tyz_step s t : TYZ s -> TYZ (stp s t).
Proof.
  intros T. pose proof (T t) as P. unfold uth, qb in P. unfold cstep. destruct (cthr _ s t) eqn:E.
  - exact T.
  - (* XSendQ *)
    cbn in P. destruct P as [[Eu Ef]|(id & Eu & Ef)].
    + destruct (zs_enqA N _ t v Eu) as [(H1 & H2 & H3 & H4)|[(id & H1 & H2 & H3 & H4)|(H1 & H2 & H3 & H4)]];
        unfold uidleb in H1; rewrite H1.
      * apply (tyz_set s _ _ _ _ t T); try (intros; unfold uth, qb; rewrite ?H2, ?H3; reflexivity). rewrite E, H2, H3. cbn. left. split; assumption.
      * apply (tyz_set s _ _ _ _ t T); try (intros; unfold uth, qb; rewrite ?H2, ?H3, ?upd_other, ?fstart_fthr_other by assumption; reflexivity).
        rewrite E, H2, H3, upd_same, (fstart_same _ _ _ Ef). cbn. right. exists id. split; [reflexivity|now left].
      * unfold after_send, qres. rewrite H4, last_last. cbn [snd].
        apply (tyz_set s _ _ _ _ t T); try (intros; unfold uth, qb; rewrite ?H2, ?H3, ?upd_other by assumption; reflexivity).
        rewrite upd_same, H2, H3, upd_same. cbn. split; [reflexivity|assumption].
    + destruct Ef as [Ef|[r Ef]].
      * (* about to CAS the flag of the id ring *)
        destruct (fstep_pub_wait _ t id Ef) as [Hs|[r Hr]].
        -- assert (Hb : fsidle (fstepZ N (ub _ (q _ s)) t) t = false) by (rewrite Hs; apply fsidle_false; rewrite Ef; discriminate).
           destruct (zs_enqB_busy N _ t v id Eu Hb) as (H1 & H2 & H3 & H4). unfold uidleb in H1. rewrite H1.
           apply (tyz_set s _ _ _ _ t T); try (intros; unfold uth, qb; rewrite ?H2, ?H3, ?Hs; reflexivity).
           rewrite E, H2, H3, Hs. cbn. right. exists id. split; [assumption|now left].
        -- assert (Hb : fsidle (fstepZ N (ub _ (q _ s)) t) t = false) by (apply fsidle_false; rewrite Hr; discriminate).
           destruct (zs_enqB_busy N _ t v id Eu Hb) as (H1 & H2 & H3 & H4). unfold uidleb in H1. rewrite H1.
           apply (tyz_set s _ _ _ _ t T); try (intros; unfold uth, qb; rewrite ?H2, ?H3, ?fstep_fthr_other by assumption; reflexivity).
           rewrite E, H2, H3, Hr. cbn. right. exists id. split; [assumption|right; eauto].
      * (* the flag store: the publication is over *)
        destruct (fstep_pub_done _ t id r Ef) as [Hi Hl].
        destruct (zs_enqB_done N _ t v id _ _ Eu (fsidle_of _ _ Hi) Hl) as (H1 & H2 & H3 & H4). unfold uidleb in H1. rewrite H1.
        unfold after_send, qres. rewrite H4, last_last. cbn [snd].
        destruct (pub_res id r); try destruct (wake_rule_fullsync M len0);
          (apply (tyz_set s _ _ _ _ t T); try (intros; unfold uth, qb; rewrite ?H2, ?H3, ?upd_other, ?fstep_fthr_other by assumption; reflexivity);
           rewrite upd_same, H2, H3, upd_same, Hi; cbn; split; reflexivity).
  - (* XSendW *)
    destruct (wstep (m _ s) w) as [mm' [w''|]]; apply tyz_local; auto; try rewrite E; exact Logic.I.
  - (* XDrive *)
    assert (Pp : uthr _ (q _ s) t = UIdle /\ fthr (ub _ (q _ s)) t = FIdle) by (apply (phase_plain (XDrive i)); [exact Logic.I|exact P]).
    destruct Pp as [Eu Ef].
    destruct (zstart_view _ t OpCons Eu) as (S1 & S2 & S3). cbv zeta in S1, S2, S3.
    set (x0 := zstart (q _ s) t OpCons) in *.
    assert (Eu0 : uthr _ x0 t = UDeqB) by (rewrite S2; apply upd_same).
    assert (Ef0 : fthr (ub _ x0) t = FCL) by (rewrite S3; apply (fstart_same _ _ OpCons Ef)).
    assert (Hb : fsidle (fstepZ N (ub _ x0) t) t = false).
    { destruct (fstep_cons_wait _ t Ef0) as [Hs|[r Hr]]; [rewrite Hs; apply fsidle_false; rewrite Ef0; discriminate|apply fsidle_false; rewrite Hr; discriminate]. }
    destruct (zs_deqB_busy N x0 t Eu0 Hb) as (H1 & H2 & H3 & H4 & H5). unfold uidleb in H1. rewrite H1.
    apply (tyz_set s _ _ _ _ t T).
    + intros u Hu. unfold uth. rewrite H2, S2. now apply upd_other.
    + intros u Hu. unfold qb. rewrite H3, fstep_fthr_other, S3, fstart_fthr_other by assumption. reflexivity.
    + intros; now apply upd_other.
    + rewrite upd_same, H2, H3, Eu0. cbn. split; [reflexivity|].
      destruct (fstep_cons_wait _ t Ef0) as [Hs|[r Hr]]; [rewrite Hs; now left|right; eauto].
  - (* XPollQ *)
    cbn in P. destruct P as [Eu [Ef|[r Ef]]].
    + assert (Hb : fsidle (fstepZ N (ub _ (q _ s)) t) t = false).
      { destruct (fstep_cons_wait _ t Ef) as [Hs|[r Hr]]; [rewrite Hs; apply fsidle_false; rewrite Ef; discriminate|apply fsidle_false; rewrite Hr; discriminate]. }
      destruct (zs_deqB_busy N _ t Eu Hb) as (H1 & H2 & H3 & H4 & H5). unfold uidleb in H1. rewrite H1.
      apply (tyz_set s _ _ _ _ t T); try (intros; unfold uth, qb; rewrite ?H2, ?H3, ?fstep_fthr_other by assumption; reflexivity).
      rewrite E, H2, H3, Eu. cbn. split; [reflexivity|].
      destruct (fstep_cons_wait _ t Ef) as [Hs|[r Hr]]; [rewrite Hs; now left|right; eauto].
    + destruct (fstep_cons_done _ t r Ef) as [Hi Hl].
      destruct (zs_deqB_done N _ t _ _ Eu (fsidle_of _ _ Hi) Hl) as (H1 & H2 & H3 & H4). unfold uidleb in H1. rewrite H1.
      unfold after_cons, qres. destruct r as [w|]; cbn [cons_res] in H4; destruct H4 as [H4 H5]; rewrite H4, last_last; cbn [snd].
      * (* an id was taken: the handle is dropped next *)
        set (x' := zstep N (q _ s) t) in *.
        assert (Eu' : uthr _ x' t = UIdle) by (rewrite H2; apply upd_same).
        assert (Eh : uheld _ x' t = Some w) by (rewrite H5; apply upd_same).
        assert (R : zrelease x' t = umk _ (fstart (ua _ x') t (OpPub w)) (ub _ x') (upool _ x') (upd (uthr _ x') t (URel w)) (ulog _ x') (upd (uheld _ x') t None)).
        { unfold zrelease, urelease. rewrite Eu', Eh. reflexivity. }
        rewrite R. apply (tyz_set s _ _ _ _ t T); cbn [ua ub upool uthr ulog uheld umk].
        -- intros u Hu. unfold uth. rewrite upd_other, H2, upd_other by assumption. reflexivity.
        -- intros u Hu. unfold qb. rewrite H3, fstep_fthr_other by assumption. reflexivity.
        -- intros; now apply upd_other.
        -- rewrite !upd_same, H3, Hi. cbn. split; [left; eauto|reflexivity].
      * apply (tyz_set s _ _ _ _ t T); try (intros; unfold uth, qb; rewrite ?H2, ?H3, ?upd_other, ?fstep_fthr_other by assumption; reflexivity).
        rewrite upd_same, H2, H3, upd_same, Hi. cbn. split; reflexivity.
  - destruct (keep _ _); unfold setpc, finish; apply tyz_local; auto; try rewrite E; exact Logic.I.
  - destruct r; try (destruct (wakers _ _)); try (destruct (wlock _)); try exact T; unfold setpc, finish;
      try (destruct drv); apply tyz_local; auto; try rewrite E; exact Logic.I.
  - destruct (notified _ _); [|exact T]. apply tyz_local; auto; try rewrite E; exact Logic.I.
  - destruct (j <? k)%nat; unfold setpc, finish; apply tyz_local; auto; try rewrite E; exact Logic.I.
  - apply tyz_local; auto; try rewrite E; exact Logic.I.
  - destruct (wstep (m _ s) w) as [mm' [w''|]]; [apply tyz_local; auto; try rewrite E; exact Logic.I|].
    unfold cancel_next. destruct (M <=? S j)%nat; unfold setpc, finish; cbn [q m cthr clog mk]; apply tyz_local; auto; try rewrite E; exact Logic.I.
  - (* XLenQ *)
    cbn in P. destruct P as [Eu Ef].
    destruct (zs_len N _ t Eu) as (H1 & H2 & H3 & H4). unfold uidleb in H1. rewrite H1. unfold qres. rewrite H4, last_last. cbn [snd].
    apply (tyz_set s _ _ _ _ t T); try (intros; unfold uth, qb; rewrite ?H2, ?H3, ?upd_other by assumption; reflexivity).
    rewrite upd_same, H2, H3, upd_same. cbn. split; [reflexivity|assumption].
  - (* XRel *)
    cbn in P. destruct P as [[[id Eu]|Eu] Ef].
    + destruct (zs_rel N _ t id Eu) as (H3 & H4 & [[H1 H2]|[H1 H2]]); unfold uidleb in H1; rewrite H1.
      * apply (tyz_set s _ _ _ _ t T); try (intros; unfold uth, qb; rewrite ?H2, ?H3; reflexivity).
        rewrite E, H2, H3, Eu. cbn. split; [left; eauto|assumption].
      * apply (tyz_set s _ _ _ _ t T); try (intros; unfold uth, qb; rewrite ?H2, ?H3, ?upd_other by assumption; reflexivity).
        rewrite upd_same, H2, H3, upd_same. destruct drv; cbn; split; auto.
    + rewrite (zs_idle N _ t Eu). unfold uidle. rewrite Eu.
      apply (tyz_set s _ _ _ _ t T); try reflexivity; [intros; now apply upd_other|].
      rewrite upd_same, Eu, Ef. destruct drv; cbn; split; reflexivity.
Qed.

Lemma tyz_start s t o : TYZ s -> TYZ (strt s t o).
Proof.
  intros T. pose proof (T t) as P. unfold uth, qb in P. unfold cstart. destruct (cthr _ s t) eqn:E; try exact T.
  cbn in P. destruct P as [Eu Ef].
  destruct o.
  - destruct (zstart_view _ t (OpPub v) Eu) as (S1 & S2 & S3).
    apply (tyz_set s _ _ _ _ t T); try (intros; unfold uth, qb; rewrite ?S2, ?S3, ?upd_other by assumption; reflexivity).
    rewrite upd_same, S2, S3, upd_same. cbn. left. split; [reflexivity|assumption].
  - destruct (zstart_view _ t OpCons Eu) as (S1 & S2 & S3).
    apply (tyz_set s _ _ _ _ t T); try (intros; unfold uth, qb; rewrite ?S2, ?S3, ?upd_other, ?fstart_fthr_other by assumption; reflexivity).
    rewrite upd_same, S2, S3, upd_same, (fstart_same _ _ OpCons Ef). cbn. split; [reflexivity|now left].
  - unfold setpc. apply tyz_local; auto; try rewrite E; exact Logic.I.
  - unfold cancel_next. destruct (M <=? 0)%nat; unfold setpc, finish; apply tyz_local; auto; try rewrite E; exact Logic.I.
  - destruct (zstart_view _ t OpLen Eu) as (S1 & S2 & S3).
    apply (tyz_set s _ _ _ _ t T); try (intros; unfold uth, qb; rewrite ?S2, ?S3, ?upd_other by assumption; reflexivity).
    rewrite upd_same, S2, S3, upd_same. cbn. split; [reflexivity|assumption].
Qed.
Definition uf_gi_step := tyz_step.
Definition uf_gi_start := tyz_start.

(* typing helpers *)
Lemma is_producer s t : WInv s -> ~ stream_pc t (cthr _ s t) -> (k <= t)%nat.
Proof. intros I H. destruct (Nat.lt_ge_cases t k) as [Hl|]; [exfalso; apply H, (w_str _ I t Hl)|assumption]. Qed.
Lemma is_stream s t : WInv s -> ~ producer_pc (cthr _ s t) -> (t < k)%nat.
Proof. intros I H. destruct (Nat.lt_ge_cases t k) as [|Hg]; [assumption|exfalso; apply H, (w_prod _ I t Hg)]. Qed.

(* wake_stream steps, shared by send and cancel_all *)
Lemma wake_will s s' t i :
  WInv s -> Frame s s' t -> (i < k)%nat -> i <> t ->
  nt s' i = true \/ (wk s i = false /\ (forall j, nt s j = true -> nt s' j = true)) ->
  WillSee s' i /\ WillCheck s' i.
Proof.
  intros I F Hi Hn H.
  assert (Hs : stream_pc i (cthr _ s' i)) by (rewrite (fr_c _ _ _ F i Hn); apply (w_str _ I i Hi)).
  destruct H as [H|[Hw Hm]]; [now apply notified_will|].
  apply J_will; auto; [rewrite (fr_w _ _ _ F i Hn); exact Hw|].
  rewrite (fr_c _ _ _ F i Hn). destruct (w_J _ I i Hi Hw) as [H|H]; [left; now apply Hm|now right].
Qed.

Definition ppend (c : cpc) (f : fpc) (wi : bool) (i : nat) : Prop :=
  match c with
  | XSendQ _ => match f with FPU _ (Some l) => wake_rule_fullsync M l = Some i | _ => False end
  | XSendW _ w | XCancelW _ w => wpending w wi i
  | _ => False
  end.
Lemma pending_ppend s p i : pending s p i = ppend (cthr _ s p) (fth s p) (wk s i) i.
Proof. reflexivity. Qed.

Lemma wake_step s t w mm' w' p' l' :
  WInv s -> (k <= t)%nat ->
  (forall i, pending s t i <-> wpending w (wk s i) i) ->
  wstep (m _ s) w = (mm', w') ->
  TYZ (mk _ (q _ s) mm' (upd (cthr _ s) t p') l') ->
  producer_pc p' ->
  (forall i wi, ppend p' (fth s t) wi i <-> match w' with Some w'' => wpending w'' wi i | None => False end) ->
  WInv (mk _ (q _ s) mm' (upd (cthr _ s) t p') l').
Proof.
  intros I Ht Hpd Hw G Hp Hpp. destruct (wstep_frame _ _ _ _ Hw) as (Ewk & Ekp & Hnt).
  set (s' := mk _ (q _ s) mm' (upd (cthr _ s) t p') l').
  assert (F : Frame s s' t).
  { subst s'. constructor; un; intros; rewrite ?Ewk, ?Ekp in *; auto; try now rewrite upd_other. }
  assert (Hlen : len s' = len s) by reflexivity.
  assert (Hpend' : forall i, pending s' t i <-> match w' with Some w'' => wpending w'' (wk s i) i | None => False end).
  { intros i. rewrite pending_ppend. subst s'. un. rewrite upd_same, Ewk. apply Hpp. }
  apply (winv_frame s s' t I F G); try (intros; exfalso; lia); auto.
  - intros _. subst s'. un. now rewrite upd_same.
  - rewrite Hlen. apply (w_len _ I).
  - (* what t's pending wake turns into *)
    intros i Hi Hn Hpi. apply Hpd in Hpi.
    assert (Hstay : forall w'', w' = Some w'' -> wpending w'' (wk s i) i -> WillSee s' i /\ WillCheck s' i).
    { intros w'' -> Hw''. split; right; exists t; apply Hpend'; exact Hw''. }
    destruct w as [j|j|j|j|j|]; cbn in Hpi, Hw.
    + subst j. destruct (wakers (m _ s) i) eqn:Ew; injection Hw as <- <-.
      * eapply Hstay; [reflexivity|reflexivity].
      * apply (wake_will s s' t i I F Hi Hn). right. split; [exact Ew|auto].
    + subst j. injection Hw as <- <-. apply (wake_will s s' t i I F Hi Hn). left. subst s'. un. now rewrite upd_same.
    + destruct Hpi as [-> Hwi]. destruct (wlock (m _ s)); injection Hw as <- <-; (eapply Hstay; [reflexivity|cbn; auto]).
    + destruct Hpi as [-> Hwi]. pose proof Hwi as Hwi'. unfold wk in Hwi'. rewrite Hwi' in Hw. injection Hw as <- <-. eapply Hstay; [reflexivity|reflexivity].
    + subst j. injection Hw as <- <-. apply (wake_will s s' t i I F Hi Hn). left. subst s'. un. now rewrite upd_same.
    + contradiction.
  - intros i Hi Hk Hk0. exfalso. subst s'. un. rewrite Ekp in Hk. congruence.
Qed.

Lemma wake_rule_one : wake_rule_fullsync M 1 = Some 0%nat.
Proof. unfold wake_rule_fullsync. destruct (Z.leb_spec 1 (Z.of_nat M)); [reflexivity|lia]. Qed.

Lemma typing_of (s : cst) t : WInv s -> phase (cthr _ s t) (uthr _ (q _ s) t) (fthr (ub _ (q _ s)) t).
Proof. intros I. apply (w_gi _ I). Qed.

(* ---- producer-side steps ---- *)
Lemma step_sendw s t v w : WInv s -> cthr _ s t = XSendW v w -> WInv (stp s t).
Proof.
  intros I E. assert (Ht : (k <= t)%nat) by (apply (is_producer s t I); rewrite E; auto).
  pose proof (uf_gi_step s t (w_gi _ I)) as G. revert G. unfold cstep. rewrite E.
  destruct (wstep (m _ s) w) as [mm' [w''|]] eqn:Ew; intros G.
  - apply (wake_step s t w mm' (Some w'')); auto; [intros i; rewrite pending_ppend, E; reflexivity|exact Logic.I|reflexivity].
  - apply (wake_step s t w mm' None); auto; [intros i; rewrite pending_ppend, E; reflexivity|exact Logic.I|reflexivity].
Qed.

Lemma step_cancelw s t j w : WInv s -> cthr _ s t = XCancelW j w -> WInv (stp s t).
Proof.
  intros I E. assert (Ht : (k <= t)%nat) by (apply (is_producer s t I); rewrite E; auto).
  pose proof (uf_gi_step s t (w_gi _ I)) as G. revert G. unfold cstep. rewrite E.
  destruct (wstep (m _ s) w) as [mm' [w''|]] eqn:Ew.
  - intros G. apply (wake_step s t w mm' (Some w'')); auto; [intros i; rewrite pending_ppend, E; reflexivity|exact Logic.I|reflexivity].
  - unfold cancel_next. destruct (M <=? S j)%nat; cbn [finish setpc q m cthr clog mk]; intros G;
      (apply (wake_step s t w mm' None); auto; [intros i; rewrite pending_ppend, E; reflexivity|exact Logic.I|reflexivity]).
Qed.

(* a producer-side step that touches neither the streams manager nor the queue length, and neither starts nor ends a
   pending wake *)
Lemma producer_local s t q' th' p' l' :
  WInv s -> (k <= t)%nat -> th' t = p' -> (forall u, u <> t -> th' u = cthr _ s u) ->
  (forall u, u <> t -> fthr (ub _ q') u = fthr (qb s) u) -> ftail (ub _ q') - fhead (ub _ q') = ftail (qb s) - fhead (qb s) ->
  TYZ (mk _ q' (m _ s) th' l') ->
  producer_pc p' ->
  (forall i, ppend (cthr _ s t) (fth s t) (wk s i) i -> ppend p' (fthr (ub _ q') t) (wk s i) i) ->
  WInv (mk _ q' (m _ s) th' l').
Proof.
  intros I Ht Hth1 Hth2 Hf Hl G Hp Hpp. set (s' := mk _ q' (m _ s) th' l').
  assert (F : Frame s s' t) by (subst s'; constructor; un; intros; auto).
  apply (winv_frame s s' t I F G); try (intros; exfalso; lia); auto.
  - intros _. subst s'. un. now rewrite Hth1.
  - unfold len. subst s'. un. rewrite Hl. apply (w_len _ I).
  - intros i Hi Hn Hpi. rewrite pending_ppend in Hpi. apply Hpp in Hpi.
    split; right; exists t; rewrite pending_ppend; subst s'; un; rewrite Hth1; exact Hpi.
  - intros Hk Hpos [Hz|[Hlt _]]; [|lia]. exfalso. unfold len in *. subst s'. un. lia.
  - intros i Hi Hk Hk0. subst s'. un. congruence.
Qed.


Lemma step_sendq s t v : WInv s -> cthr _ s t = XSendQ v -> WInv (stp s t).
Proof.
  intros I E. assert (Ht : (k <= t)%nat) by (apply (is_producer s t I); rewrite E; auto).
  pose proof (uf_gi_step s t (w_gi _ I)) as G. pose proof (typing_of s t I) as Ty. rewrite E in Ty. cbn in Ty.
  revert G. unfold cstep. rewrite E.
  destruct Ty as [[Eu Ef]|(id & Eu & Ef)].
  - (* allocation phase: the id ring is not touched *)
    destruct (zs_enqA N _ t v Eu) as [(H1 & H2 & H3 & H4)|[(id & H1 & H2 & H3 & H4)|(H1 & H2 & H3 & H4)]]; unfold uidleb in H1; rewrite H1.
    + intros G. apply (producer_local s t _ (cthr _ s) (XSendQ v)); auto; try (rewrite H3; reflexivity); try (intros; rewrite H3; reflexivity); [exact Logic.I|].
      intros i. rewrite E. unfold fth, qb. rewrite Ef. cbn. contradiction.
    + intros G. apply (producer_local s t _ (cthr _ s) (XSendQ v)); auto;
        try (intros; rewrite H3; now apply fstart_fthr_other); try (rewrite H3; apply fstart_len); [exact Logic.I|].
      intros i. rewrite E. unfold fth, qb. rewrite Ef. cbn. contradiction.
    + unfold after_send, qres. rewrite H4, last_last. cbn [snd]. intros G.
      apply (producer_local s t _ _ XIdle); auto; try apply upd_same; try (intros; now apply upd_other);
        try (intros; rewrite H3; reflexivity); try (rewrite H3; reflexivity); [exact Logic.I|].
      intros i. rewrite E. unfold fth, qb. rewrite Ef. cbn. contradiction.
  - destruct Ef as [Ef|[r Ef]].
    + (* FPL: the CAS on the id ring's flag *)
      assert (Hb : fsidle (fstepZ N (ub _ (q _ s)) t) t = false).
      { destruct (fstep_pub_wait _ t id Ef) as [Hs|[r Hr]]; [rewrite Hs; apply fsidle_false; rewrite Ef; discriminate|apply fsidle_false; rewrite Hr; discriminate]. }
      destruct (zs_enqB_busy N _ t v id Eu Hb) as (H1 & H2 & H3 & H4). unfold uidleb in H1. rewrite H1.
      set (x' := zstep N (q _ s) t) in *.
      destruct (flock (ub _ (q _ s))) eqn:El.
      * assert (Hs : fstepZ N (ub _ (q _ s)) t = ub _ (q _ s)) by (unfold fstepZ, fstep, idz; now rewrite Ef, El).
        intros G. apply (producer_local s t x' (cthr _ s) (XSendQ v)); auto; try (intros; rewrite H3, Hs; reflexivity); try (rewrite H3, Hs; reflexivity); [exact Logic.I|].
        intros i. rewrite E. unfold fth, qb. now rewrite Ef.
      * destruct (Z.ltb_spec (ftail (ub _ (q _ s)) - fhead (ub _ (q _ s))) N) as [Hlt|Hge].
        -- (* accepted: the length grows *)
           assert (Hx : ub _ x' = {| fhead := fhead (ub _ (q _ s)); ftail := ftail (ub _ (q _ s)) + 1; flock := true;
                                     fbuf := updz (fbuf (ub _ (q _ s))) (ftail (ub _ (q _ s)) mod N) id;
                                     fthr := upd (fthr (ub _ (q _ s))) t (FPU id (Some (ftail (ub _ (q _ s)) - fhead (ub _ (q _ s)) + 1)));
                                     fpublished := fpublished (ub _ (q _ s)) ++ [id]; fdelivered := fdelivered (ub _ (q _ s)); flog := flog (ub _ (q _ s)) |}).
           { rewrite H3. unfold fstepZ, fstep, idz. rewrite Ef, El. destruct (Z.ltb_spec (ftail (ub _ (q _ s)) - fhead (ub _ (q _ s))) N); [reflexivity|lia]. }
           intros G. match goal with |- WInv ?x => set (s' := x) end.
           assert (F : Frame s s' t).
           { subst s'; constructor; un; intros; auto. rewrite Hx. cbn [fthr]. now rewrite upd_other. }
           apply (winv_frame s s' t I F G); try (intros; exfalso; lia); auto.
           ++ intros _. subst s'. un. now rewrite E.
           ++ pose proof (w_len _ I). subst s'. un. rewrite Hx. cbn [fhead ftail]. lia.
           ++ intros i Hi Hn Hpi. exfalso. rewrite pending_ppend, E in Hpi. unfold fth, qb in Hpi. now rewrite Ef in Hpi.
           ++ intros Hk Hpos [Hz|[Hlt' _]]; [|lia].
              exists 0%nat. split; [assumption|]. right. exists t. rewrite pending_ppend. subst s'. un. rewrite E, Hx. cbn [fthr]. rewrite upd_same.
              pose proof (w_len _ I) as Hl0. unfold len, qb in *. replace (ftail (ub _ (q _ s)) - fhead (ub _ (q _ s)) + 1) with 1 by lia. apply wake_rule_one.
           ++ intros i Hi Hk Hk0. subst s'. un. congruence.
        -- (* the id ring is full (cannot happen with N pool slots, but the code has the branch): nothing changes but the flag *)
           assert (Hx : ub _ x' = {| fhead := fhead (ub _ (q _ s)); ftail := ftail (ub _ (q _ s)); flock := true; fbuf := fbuf (ub _ (q _ s));
                                     fthr := upd (fthr (ub _ (q _ s))) t (FPU id None);
                                     fpublished := fpublished (ub _ (q _ s)); fdelivered := fdelivered (ub _ (q _ s)); flog := flog (ub _ (q _ s)) |}).
           { rewrite H3. unfold fstepZ, fstep, idz. rewrite Ef, El. destruct (Z.ltb_spec (ftail (ub _ (q _ s)) - fhead (ub _ (q _ s))) N); [lia|reflexivity]. }
           intros G. apply (producer_local s t x' (cthr _ s) (XSendQ v)); auto;
             try (intros; rewrite Hx; cbn [fthr]; now rewrite upd_other); try (rewrite Hx; reflexivity); [exact Logic.I|].
           intros i. rewrite E. unfold fth, qb. now rewrite Ef.
    + (* FPU: the flag store, then the wake decision *)
      destruct (fstep_pub_done _ t id r Ef) as [Hi Hl].
      destruct (zs_enqB_done N _ t v id _ _ Eu (fsidle_of _ _ Hi) Hl) as (H1 & H2 & H3 & H4). unfold uidleb in H1. rewrite H1.
      unfold after_send, qres. rewrite H4, last_last. cbn [snd].
      assert (Hoth : forall u, u <> t -> fthr (ub _ (zstep N (q _ s) t)) u = fthr (qb s) u) by (intros; rewrite H3; now apply fstep_fthr_other).
      assert (Hlen : ftail (ub _ (zstep N (q _ s) t)) - fhead (ub _ (zstep N (q _ s) t)) = ftail (qb s) - fhead (qb s)).
      { rewrite H3. unfold fstepZ, fstep, idz, qb. rewrite Ef. reflexivity. }
      destruct r as [l|]; cbn [pub_res].
      * destruct (wake_rule_fullsync M l) as [i0|] eqn:Ewr; intros G.
        -- apply (producer_local s t _ _ (XSendW v (W0 i0))); auto; [apply upd_same|intros; now apply upd_other|exact Logic.I|].
           intros i. rewrite E. unfold fth, qb. rewrite Ef. cbn. congruence.
        -- apply (producer_local s t _ _ XIdle); auto; [apply upd_same|intros; now apply upd_other|exact Logic.I|].
           intros i. rewrite E. unfold fth, qb. rewrite Ef. cbn. congruence.
      * intros G. apply (producer_local s t _ _ XIdle); auto; [apply upd_same|intros; now apply upd_other|exact Logic.I|].
        intros i. rewrite E. unfold fth, qb. rewrite Ef. cbn. auto.
Qed.


Lemma step_cancelu s t j : WInv s -> cthr _ s t = XCancelU j -> WInv (stp s t).
Proof.
  intros I E. assert (Ht : (k <= t)%nat) by (apply (is_producer s t I); rewrite E; auto).
  pose proof (uf_gi_step s t (w_gi _ I)) as G. revert G. unfold cstep. rewrite E.
  destruct (j <? k)%nat; cbn [setpc finish]; intros G.
  - apply (producer_local s t (q _ s) _ (XCancelK j)); auto; [apply upd_same|intros; now apply upd_other|exact Logic.I|].
    intros i. rewrite E. cbn. contradiction.
  - apply (producer_local s t (q _ s) _ XIdle); auto; [apply upd_same|intros; now apply upd_other|exact Logic.I|].
    intros i. rewrite E. cbn. contradiction.
Qed.

Lemma step_cancelk s t j : WInv s -> cthr _ s t = XCancelK j -> WInv (stp s t).
Proof.
  intros I E. assert (Ht : (k <= t)%nat) by (apply (is_producer s t I); rewrite E; auto).
  pose proof (uf_gi_step s t (w_gi _ I)) as G. revert G. unfold cstep. rewrite E. intros G.
  match goal with |- WInv ?x => set (s' := x) end.
  assert (F : Frame s s' t).
  { subst s'; constructor; un; intros; auto; try now rewrite upd_other.
    unfold upd in *. destruct (Nat.eqb i j); [discriminate|assumption]. }
  apply (winv_frame s s' t I F G); try (intros; exfalso; lia); auto.
  - intros _. subst s'. un. rewrite upd_same. exact Logic.I.
  - apply (w_len _ I).
  - intros i Hi Hn Hpi. exfalso. rewrite pending_ppend, E in Hpi. exact Hpi.
  - intros Hk Hpos [Hz|[Hlt _]]; [|lia]. exfalso. unfold len in *. subst s'. un. lia.
  - intros i Hi Hk Hk0. right. exists t. rewrite pending_ppend. subst s'. un. rewrite upd_same. cbn.
    unfold upd in Hk. destruct (Nat.eqb_spec i j); [auto|congruence].
Qed.

Lemma step_lenq s t : WInv s -> cthr _ s t = XLenQ -> WInv (stp s t).
Proof.
  intros I E. assert (Ht : (k <= t)%nat) by (apply (is_producer s t I); rewrite E; auto).
  pose proof (uf_gi_step s t (w_gi _ I)) as G. pose proof (typing_of s t I) as Ty. rewrite E in Ty. cbn in Ty. destruct Ty as [Eu Ef].
  revert G. unfold cstep. rewrite E.
  destruct (zs_len N _ t Eu) as (H1 & H2 & H3 & H4). unfold uidleb in H1. rewrite H1. unfold qres. rewrite H4, last_last. cbn [snd].
  intros G. apply (producer_local s t _ _ XIdle); auto; try apply upd_same; try (intros; now apply upd_other);
    try (intros; rewrite H3; reflexivity); try (rewrite H3; reflexivity); [exact Logic.I|].
  intros i. rewrite E. cbn. contradiction.
Qed.

(* ---- stream-side steps ---- *)
Lemma stream_step s t q' mm' th' p' l' :
  WInv s -> (t < k)%nat -> th' t = p' -> (forall u, u <> t -> th' u = cthr _ s u) ->
  (forall u, u <> t -> fthr (ub _ q') u = fthr (qb s) u) ->
  (forall i, i <> t -> wakers mm' i = wk s i) -> (wk s t = true -> wakers mm' t = true) ->
  (forall i, i <> t -> nt s i = true -> notified mm' i = true) ->
  keep mm' = keep (m _ s) ->
  TYZ (mk _ q' mm' th' l') ->
  stream_pc t p' -> (registered p' -> wakers mm' t = true) ->
  0 <= ftail (ub _ q') - fhead (ub _ q') <= len s ->
  (wakers mm' t = false -> notified mm' t = true \/ on_the_way p') ->
  (0 < ftail (ub _ q') - fhead (ub _ q') -> will_look (cthr _ s t) (fth s t) (wk s t) (nt s t) \/ ftail (ub _ q') - fhead (ub _ q') < len s -> will_look p' (fthr (ub _ q') t) (wakers mm' t) (notified mm' t)) ->
  (keep mm' t = false -> will_check (cthr _ s t) (wk s t) (nt s t) -> will_check p' (wakers mm' t) (notified mm' t)) ->
  WInv (mk _ q' mm' th' l').
Proof.
  intros I Ht Hth1 Hth2 Hf Hw Hwt Hn Hk G Hs Hr Hl HJ Hlook Hcheck. set (s' := mk _ q' mm' th' l').
  assert (F : Frame s s' t) by (subst s'; constructor; un; intros; auto; now rewrite Hk in *).
  assert (Hstr : stream_pc t (cthr _ s t)) by (apply (w_str _ I t Ht)).
  apply (winv_frame s s' t I F G); try (intros; exfalso; lia); auto.
  - intros _. subst s'. un. now rewrite Hth1.
  - intros _. subst s'. un. now rewrite Hth1.
  - subst s'. un. lia.
  - intros _. subst s'. un. now rewrite Hth1.
  - intros i Hi Hne Hpi. exfalso. rewrite pending_ppend in Hpi.
    destruct (cthr _ s t); cbn in Hstr, Hpi; try contradiction; destruct drv; contradiction.
  - intros _ Hpos W. left. subst s'. un. rewrite Hth1. apply Hlook; [exact Hpos|now left].
  - intros _ Hkf W. left. subst s'. un. rewrite Hth1. now apply Hcheck.
  - intros Hkk Hpos [Hz|[_ Hlt]].
    + exfalso. subst s'. un. lia.
    + exists t. split; [assumption|]. left. subst s'. un. rewrite Hth1. apply Hlook; [exact Hpos|right; exact Hlt].
  - intros i Hi Hk1 Hk0. exfalso. subst s'. un. rewrite Hk in Hk1. congruence.
Qed.


Lemma stream_index s t i : WInv s -> (t < k)%nat ->
  (cthr _ s t = XDrive i \/ (exists d, cthr _ s t = XPollQ i d) \/ (exists d, cthr _ s t = XPollK i d) \/
   (exists r d, cthr _ s t = XReg i r d) \/ cthr _ s t = XParked i) -> i = t.
Proof.
  intros I Ht H. pose proof (w_str _ I t Ht) as Hs.
  destruct H as [H|[[d H]|[[d H]|[[r [d H]]|H]]]]; rewrite H in Hs; cbn in Hs; try (destruct d; try contradiction); auto.
Qed.
Lemma stream_drv s t : WInv s -> (t < k)%nat ->
  forall i d, (cthr _ s t = XPollQ i d \/ cthr _ s t = XPollK i d \/ exists r, cthr _ s t = XReg i r d) -> d = true.
Proof.
  intros I Ht i d H. pose proof (w_str _ I t Ht) as Hs.
  destruct H as [H|[H|[r H]]]; rewrite H in Hs; cbn in Hs; destruct d; auto; contradiction.
Qed.

(* the consume attempt of a stream on the id ring: the flag CAS (from XDrive, where the operation starts, or from XPollQ) *)
Lemma consume_cas s t (x0 : Q) th' l' :
  WInv s -> (t < k)%nat ->
  uthr _ x0 t = UDeqB -> fthr (ub _ x0) t = FCL -> (forall u, u <> t -> fthr (ub _ x0) u = fthr (qb s) u) ->
  fhead (ub _ x0) = fhead (qb s) -> ftail (ub _ x0) = ftail (qb s) ->
  th' t = XPollQ t true -> (forall u, u <> t -> th' u = cthr _ s u) ->
  TYZ (mk _ (zstep N x0 t) (m _ s) th' l') ->
  WInv (mk _ (zstep N x0 t) (m _ s) th' l').
Proof.
  intros I Ht Eu Ef Hoth Hh Htl Hth1 Hth2.
  assert (Hb : fsidle (fstepZ N (ub _ x0) t) t = false).
  { destruct (fstep_cons_wait _ t Ef) as [Hs|[r Hr]]; [rewrite Hs; apply fsidle_false; rewrite Ef; discriminate|apply fsidle_false; rewrite Hr; discriminate]. }
  destruct (zs_deqB_busy N x0 t Eu Hb) as (_ & _ & H3 & _ & _).
  set (x' := zstep N x0 t) in *.
  pose proof (w_len _ I) as Hl0. unfold len in Hl0.
  assert (Hx : ub _ x' = fstepZ N (ub _ x0) t) by exact H3. clear H3.
  unfold fstepZ, fstep, idz in Hx. rewrite Ef in Hx.
  destruct (flock (ub _ x0)) eqn:El.
  - intros G. apply (stream_step s t x' (m _ s) th' (XPollQ t true)); auto; try (cbn; auto; fail);
      try (intros; rewrite Hx; auto; fail); try (rewrite Hx, Hh, Htl; unfold len; lia).
    intros _ _. rewrite Hx, Ef. exact Logic.I.
  - destruct (Z.ltb_spec 0 (ftail (ub _ x0) - fhead (ub _ x0))) as [Hpos|Hz]; intros G.
    + apply (stream_step s t x' (m _ s) th' (XPollQ t true)); auto; try (cbn; auto; fail);
        try (intros; rewrite Hx; cbn [fthr]; rewrite upd_other by assumption; auto; fail).
      * rewrite Hx. cbn [fhead ftail]. unfold len. lia.
      * intros _ _. rewrite Hx. cbn [fthr]. rewrite upd_same. exact Logic.I.
    + apply (stream_step s t x' (m _ s) th' (XPollQ t true)); auto; try (cbn; auto; fail);
        try (intros; rewrite Hx; cbn [fthr]; rewrite upd_other by assumption; auto; fail).
      * rewrite Hx. cbn [fhead ftail]. unfold len. lia.
      * rewrite Hx. cbn [fhead ftail]. intros Hpos. exfalso. lia.
Qed.

Lemma step_drive s t i : WInv s -> cthr _ s t = XDrive i -> WInv (stp s t).
Proof.
  intros I E. assert (Ht : (t < k)%nat) by (apply (is_stream s t I); rewrite E; auto).
  assert (i = t) by (apply (stream_index s t i I Ht); auto). subst i.
  pose proof (uf_gi_step s t (w_gi _ I)) as G. pose proof (typing_of s t I) as Ty. rewrite E in Ty. cbn in Ty. destruct Ty as [Eu Ef].
  revert G. unfold cstep. rewrite E.
  destruct (zstart_view _ t OpCons Eu) as (S1 & S2 & S3). cbv zeta in S1, S2, S3.
  set (x0 := zstart (q _ s) t OpCons) in *.
  assert (Eu0 : uthr _ x0 t = UDeqB) by (rewrite S2; apply upd_same).
  assert (Ef0 : fthr (ub _ x0) t = FCL) by (rewrite S3; apply (fstart_same _ _ OpCons Ef)).
  assert (Hb : fsidle (fstepZ N (ub _ x0) t) t = false).
  { destruct (fstep_cons_wait _ t Ef0) as [Hs|[r Hr]]; [rewrite Hs; apply fsidle_false; rewrite Ef0; discriminate|apply fsidle_false; rewrite Hr; discriminate]. }
  destruct (zs_deqB_busy N x0 t Eu0 Hb) as (H1 & _). unfold uidleb in H1. rewrite H1. intros G.
  apply (consume_cas s t x0); auto; try apply upd_same; try (intros; now apply upd_other).
  - intros u Hu. rewrite S3. unfold qb. now apply fstart_fthr_other.
  - rewrite S3. unfold fstart, qb. rewrite Ef. reflexivity.
  - rewrite S3. unfold fstart, qb. rewrite Ef. reflexivity.
Qed.

Lemma step_pollq s t i d : WInv s -> cthr _ s t = XPollQ i d -> WInv (stp s t).
Proof.
  intros I E. assert (Ht : (t < k)%nat) by (apply (is_stream s t I); rewrite E; auto).
  assert (i = t) by (apply (stream_index s t i I Ht); eauto). subst i.
  assert (d = true) by (apply (stream_drv s t I Ht t d); auto). subst d.
  pose proof (uf_gi_step s t (w_gi _ I)) as G. pose proof (typing_of s t I) as Ty. rewrite E in Ty. cbn in Ty.
  revert G. unfold cstep. rewrite E. destruct Ty as [Eu [Ef|[r Ef]]].
  - (* FCL *)
    assert (Hb : fsidle (fstepZ N (ub _ (q _ s)) t) t = false).
    { destruct (fstep_cons_wait _ t Ef) as [Hs|[r Hr]]; [rewrite Hs; apply fsidle_false; rewrite Ef; discriminate|apply fsidle_false; rewrite Hr; discriminate]. }
    destruct (zs_deqB_busy N _ t Eu Hb) as (H1 & _). unfold uidleb in H1. rewrite H1. intros G.
    apply (consume_cas s t (q _ s)); auto.
  - (* FCU: the flag store, then yield (and drop the handle) or go on to the keep flag *)
    destruct (fstep_cons_done _ t r Ef) as [Hi Hl].
    destruct (zs_deqB_done N _ t _ _ Eu (fsidle_of _ _ Hi) Hl) as (H1 & H2 & H3 & H4). unfold uidleb in H1. rewrite H1.
    unfold after_cons, qres.
    assert (Hoth : forall u, u <> t -> fthr (ub _ (zstep N (q _ s) t)) u = fthr (qb s) u) by (intros; rewrite H3; now apply fstep_fthr_other).
    assert (Hhd : fhead (ub _ (zstep N (q _ s) t)) = fhead (qb s) /\ ftail (ub _ (zstep N (q _ s) t)) = ftail (qb s) /\ fthr (ub _ (zstep N (q _ s) t)) t = FIdle).
    { rewrite H3. unfold fstepZ, fstep, idz, qb. rewrite Ef. cbn [fhead ftail fthr]. rewrite upd_same. auto. }
    destruct Hhd as (Hh & Htl & Hft).
    destruct r as [w|]; cbn [cons_res] in H4; destruct H4 as [H4 H5]; rewrite H4, last_last; cbn [snd].
    + (* yielded: the release of the handle begins (XRel) *)
      set (x' := zstep N (q _ s) t) in *.
      destruct (zrelease_view x' t ltac:(rewrite H2; apply upd_same)) as (R1 & R2 & R3).
      intros G.
      apply (stream_step s t _ (m _ s) _ (XRel t true)); auto; try apply upd_same; try (intros; now apply upd_other); try (cbn; auto; fail).
      * intros u Hu. rewrite R1. now apply Hoth.
      * rewrite R1, Hh, Htl. pose proof (w_len _ I). unfold len in *. lia.
    + intros G.
      apply (stream_step s t _ (m _ s) _ (XPollK t true)); auto; try apply upd_same; try (intros; now apply upd_other); try (cbn; auto; fail).
      * rewrite Hh, Htl. pose proof (w_len _ I). unfold len in *. lia.
      * rewrite Hh, Htl. intros _ [W|Hlt]; [|unfold len in Hlt; lia]. rewrite E in W. unfold fth, qb in W. rewrite Ef in W. exact W.
Qed.

(* the drop of the handle of the event just yielded: the free list only - the id ring, the streams manager are not touched *)
Lemma step_rel s t i d : WInv s -> cthr _ s t = XRel i d -> WInv (stp s t).
Proof.
  intros I E. assert (Ht : (t < k)%nat) by (apply (is_stream s t I); rewrite E; auto).
  pose proof (w_str _ I t Ht) as Hs. rewrite E in Hs. cbn in Hs. destruct d; [subst i|contradiction].
  pose proof (uf_gi_step s t (w_gi _ I)) as G. pose proof (typing_of s t I) as Ty. rewrite E in Ty. cbn in Ty.
  pose proof (w_len _ I) as Hl0.
  revert G. unfold cstep. rewrite E. destruct Ty as [[[id Eu]|Eu] Ef].
  - destruct (zs_rel N _ t id Eu) as (H3 & H4 & [[H1 H2]|[H1 H2]]); unfold uidleb in H1; rewrite H1; intros G.
    + apply (stream_step s t _ (m _ s) (cthr _ s) (XRel t true)); auto; try (cbn; auto; fail);
        try (intros; rewrite H3; reflexivity); try (rewrite H3; unfold len, qb in *; lia).
    + apply (stream_step s t _ (m _ s) _ (XDrive t)); auto; try apply upd_same; try (intros; now apply upd_other); try (cbn; auto; fail);
        try (intros; rewrite H3; reflexivity); try (rewrite H3; unfold len, qb in *; lia).
  - rewrite (zs_idle N _ t Eu). unfold uidle. rewrite Eu. intros G.
    apply (stream_step s t (q _ s) (m _ s) _ (XDrive t)); auto; try apply upd_same; try (intros; now apply upd_other); try (cbn; auto; fail);
      try (unfold len, qb in *; lia).
Qed.

Lemma step_pollk s t i d : WInv s -> cthr _ s t = XPollK i d -> WInv (stp s t).
Proof.
  intros I E. assert (Ht : (t < k)%nat) by (apply (is_stream s t I); rewrite E; auto).
  assert (i = t) by (apply (stream_index s t i I Ht); eauto 6). subst i.
  assert (d = true) by (apply (stream_drv s t I Ht t d); auto). subst d.
  pose proof (uf_gi_step s t (w_gi _ I)) as G. pose proof (w_len _ I) as Hl0. revert G. unfold cstep. rewrite E.
  destruct (keep (m _ s) t) eqn:Ek; cbn [setpc finish]; intros G.
  - apply (stream_step s t (q _ s) (m _ s) _ (XReg t R0 true)); auto; try apply upd_same; try (intros; now apply upd_other);
      try (cbn; auto; fail); try (unfold len, qb in *; lia); try (rewrite Ek; intro; discriminate).
    intros _ [W|Hlt]; [|unfold len, qb in Hlt; lia]. rewrite E in W. exact W.
  - apply (stream_step s t (q _ s) (m _ s) _ XIdle); auto; try apply upd_same; try (intros; now apply upd_other);
      try (cbn; auto; fail); try (unfold len, qb in *; lia).
Qed.

Lemma step_parked s t i : WInv s -> cthr _ s t = XParked i -> WInv (stp s t).
Proof.
  intros I E. assert (Ht : (t < k)%nat) by (apply (is_stream s t I); rewrite E; auto).
  assert (i = t) by (apply (stream_index s t i I Ht); eauto 6). subst i.
  pose proof (uf_gi_step s t (w_gi _ I)) as G. pose proof (w_len _ I) as Hl0. revert G. unfold cstep. rewrite E.
  destruct (notified (m _ s) t) eqn:En; [|intros _; exact I].
  intros G.
  apply (stream_step s t (q _ s) _ _ (XDrive t)); auto; try apply upd_same; try (intros; now apply upd_other);
    try (cbn; auto; fail); try (unfold len, qb in *; lia).
  intros j Hj Hn. cbn. now rewrite upd_other.
Qed.

Ltac side :=
  first [ assumption | reflexivity | apply upd_same | (intros; now apply upd_other) | (cbn; auto; fail)
        | (unfold len, qb in *; lia) | (intros; cbn; now rewrite upd_other) | (intros; cbn; apply upd_same)
        | (intros; cbn; rewrite upd_same; discriminate) | (intros; discriminate) | (intros; cbn in *; congruence)
        | (intros; cbn in *; rewrite upd_same in *; discriminate) ].

Lemma step_reg s t i r d : WInv s -> cthr _ s t = XReg i r d -> WInv (stp s t).
Proof.
  intros I E. assert (Ht : (t < k)%nat) by (apply (is_stream s t I); rewrite E; auto).
  assert (i = t) by (apply (stream_index s t i I Ht); eauto 8). subst i.
  assert (d = true) by (apply (stream_drv s t I Ht t d); eauto). subst d.
  pose proof (uf_gi_step s t (w_gi _ I)) as G. pose proof (w_len _ I) as Hl0.
  pose proof (w_reg _ I t Ht) as Hreg. rewrite E in Hreg.
  revert G. unfold cstep. rewrite E.
  destruct r.
  - (* R0 *)
    destruct (wakers (m _ s) t) eqn:Ew; cbn [setpc finish]; intros G.
    + apply (stream_step s t (q _ s) (m _ s) _ (XParked t)); auto; try side.
      * intros _ [W|Hlt]; [|unfold len, qb in Hlt; lia]. rewrite E in W. cbn in W. unfold wk in W. rewrite Ew in W. destruct W; [discriminate|assumption].
      * intros _. rewrite E. cbn. unfold wk. rewrite Ew. intros [W|W]; [discriminate|assumption].
    + apply (stream_step s t (q _ s) (m _ s) _ (XReg t RL true)); auto; try side.
  - (* RL *)
    destruct (wlock (m _ s)); [intros _; exact I|]. intros G.
    apply (stream_step s t (q _ s) _ _ (XReg t RW true)); auto; try side.
  - (* RW *)
    intros G. apply (stream_step s t (q _ s) _ _ (XReg t RU true)); auto; try side.
  - (* RU *)
    intros G. specialize (Hreg Logic.I). unfold wk in Hreg.
    apply (stream_step s t (q _ s) _ _ (XReg t RS true)); auto; try side.
  - (* RS *)
    intros G. specialize (Hreg Logic.I). unfold wk in Hreg.
    apply (stream_step s t (q _ s) _ _ (XParked t)); auto; try side.
Qed.

Lemma winv_step s t : WInv s -> WInv (stp s t).
Proof.
  intros I. destruct (cthr _ s t) eqn:E.
  - unfold cstep. rewrite E. exact I.
  - eapply step_sendq; eauto.
  - eapply step_sendw; eauto.
  - eapply step_drive; eauto.
  - eapply step_pollq; eauto.
  - eapply step_pollk; eauto.
  - eapply step_reg; eauto.
  - eapply step_parked; eauto.
  - eapply step_cancelu; eauto.
  - eapply step_cancelk; eauto.
  - eapply step_cancelw; eauto.
  - eapply step_lenq; eauto.
  - eapply step_rel; eauto.
Qed.

Lemma winv_start s t o : wf_ev (CStart t o) -> WInv s -> WInv (strt s t o).
Proof.
  intros Hwf I. pose proof (uf_gi_start s t o (w_gi _ I)) as G. pose proof (typing_of s t I) as Ty.
  revert G. unfold cstart. destruct (cthr _ s t) eqn:E; try (intros _; exact I).
  cbn in Ty. destruct Ty as [Eu Ef].
  pose proof (w_len _ I) as Hl0.
  destruct o; cbn in Hwf.
  - (* send: the allocation starts, the id ring is not touched *)
    destruct (zstart_view _ t (OpPub v) Eu) as (S1 & S2 & S3). intros G.
    apply (producer_local s t _ _ (XSendQ v)); auto; try apply upd_same; try (intros; now apply upd_other);
      try (intros; rewrite S3; reflexivity); try (rewrite S3; reflexivity); [exact Logic.I|].
    intros i. rewrite E. cbn. contradiction.
  - contradiction.
  - (* drive *)
    destruct Hwf as [-> Hi]. cbn [setpc]. intros G.
    apply (stream_step s i (q _ s) (m _ s) _ (XDrive i)); auto; try side.
  - (* cancel_all *)
    unfold cancel_next. destruct (M <=? 0)%nat eqn:EM; [apply Nat.leb_le in EM; lia|]. cbn [setpc]. intros G.
    apply (producer_local s t (q _ s) _ (XCancelU 0)); auto; try side. rewrite E. cbn. contradiction.
  - (* len: a plain read, no component is entered *)
    destruct (zstart_view _ t OpLen Eu) as (S1 & S2 & S3). intros G.
    apply (producer_local s t _ _ XLenQ); auto; try apply upd_same; try (intros; now apply upd_other);
      try (intros; rewrite S3; reflexivity); try (rewrite S3; reflexivity); [exact Logic.I|].
    intros i. rewrite E. cbn. contradiction.
Qed.

(* the initial state: any composite whose threads are all idle and whose id ring is empty *)
Definition zc_init (q0 : Q) : cst := cinit Q k q0.
Definition good_q0 (q0 : Q) : Prop :=
  (forall t, uthr _ q0 t = UIdle /\ fthr (ub _ q0) t = FIdle) /\ ftail (ub _ q0) - fhead (ub _ q0) = 0.

Lemma winv_init q0 : good_q0 q0 -> WInv (zc_init q0).
Proof.
  intros [Hi Hl]. constructor.
  - intros t. cbn. apply Hi.
  - intros i Hi'. exact Logic.I.
  - intros t Ht. exact Logic.I.
  - intros i Hi' [].
  - unfold len, qb. cbn. lia.
  - intros i Hi' _. right. exact Logic.I.
  - unfold len, qb. cbn. lia.
  - intros i Hi' Hk. exfalso. unfold kp, zc_init, cinit in Hk. cbn [m keep] in Hk. apply Nat.ltb_lt in Hi'. rewrite Hi' in Hk. discriminate.
Qed.

Theorem winv_reachable q0 cevs : good_q0 q0 -> Forall wf_ev cevs -> WInv (fold_left exec cevs (zc_init q0)).
Proof.
  intros H0. generalize (zc_init q0) (winv_init q0 H0).
  induction cevs as [|e cevs IH]; intros s I Hwf; [exact I|].
  inversion Hwf as [|? ? He Hrest]; subst. cbn [fold_left]. apply IH; [|exact Hrest].
  destruct e; [apply winv_step|apply winv_start]; assumption.
Qed.

(* C04: no lost wake-up on the zero-copy full-sync channel, for every schedule *)
Theorem no_lost_wakeup q0 cevs : good_q0 q0 -> Forall wf_ev cevs -> ~ lost (fold_left exec cevs (zc_init q0)).
Proof. intros H0 H. apply winv_not_lost, winv_reachable; assumption. Qed.

(* C07 again, with the same invariant *)
Theorem cancel_terminates q0 cevs i : good_q0 q0 -> Forall wf_ev cevs -> (i < k)%nat -> ~ stuck_cancelled (fold_left exec cevs (zc_init q0)) i.
Proof. intros H0 H Hi. apply winv_not_stuck; [exact Hi|apply winv_reachable; assumption]. Qed.

End UniWakeZ.
