(* C09, gap-free delivery on the mmap log topic (Log.v): when every subscriber is consumed by ONE thread (its listener task) - any number
   of publishers, subscribers and late subscriptions, every interleaving - the positions a subscriber has yielded are exactly the
   consecutive positions from the first one it is entitled to: nothing skipped, nothing repeated, in order.  Together with Log.v's
   `l_got` (the value at a position is the log's value at that position, the same for everybody) this is "the entire history, each
   event exactly once, in one total order". *)
From RM Require Import Util Log.

Section GapFree.
Variable own : nat -> nat.                 (* the thread that consumes subscriber i *)

Definition wf_lev (e : lev) : Prop :=
  match e with LStart t (LCons i) => t = own i | _ => True end.

Definition gots (i : nat) (l : list (nat * lres)) : list Z :=
  flat_map (fun e => match snd e with LGot j p _ => if Nat.eqb j i then [p] else [] | _ => [] end) l.
Definition zseq (a : Z) (n : nat) : list Z := map (fun j => a + Z.of_nat j) (seq 0 n).
Definition engaged (p : lpc) : option nat := match p with LC0 i | LC1 i _ | LC2 i _ | LC3 i _ => Some i | _ => None end.
Definition infl (s : lst) (i : nat) : Z :=
  match consuming (lthr s (own i)) with Some (j, _) => if Nat.eqb j i then 1 else 0 | None => 0 end.

Record GF (s : lst) : Prop := {
  gf_own : forall t i, engaged (lthr s t) = Some i -> t = own i;
  gf_h   : forall t i h, consuming (lthr s t) = Some (i, h) -> shd (subs s i) = h + 1;
  gf_seq : forall i, sk (subs s i) <> SNone ->
             gots i (llog s) = zseq (sfrom (subs s i)) (Z.to_nat (shd (subs s i) - sfrom (subs s i) - infl s i))
}.

Lemma zseq_snoc a n : zseq a (S n) = zseq a n ++ [a + Z.of_nat n].
Proof. unfold zseq. rewrite seq_S, map_app. reflexivity. Qed.
Lemma gots_snoc i l t r : gots i (l ++ [(t, r)]) = gots i l ++ match r with LGot j p _ => if Nat.eqb j i then [p] else [] | _ => [] end.
Proof. unfold gots. rewrite flat_map_app. cbn. now rewrite app_nil_r. Qed.
Lemma flat_map_all_nil {A B} (f : A -> list B) l : (forall x, In x l -> f x = []) -> flat_map f l = [].
Proof. induction l as [|x l IH]; intros H; [reflexivity|]. cbn. rewrite (H x (or_introl eq_refl)), IH; auto. intros y Hy. apply H. now right. Qed.
Lemma gots_none s i : LInv s -> sk (subs s i) = SNone -> gots i (llog s) = [].
Proof.
  intros I Hn. unfold gots. apply flat_map_all_nil. intros [t r] Hin. cbn. destruct r as [| j p v | | |]; auto.
  destruct (Nat.eqb_spec j i) as [->|]; auto. exfalso. now apply (l_got _ I t i p v Hin).
Qed.

Definition cinfl (p : lpc) (i : nat) : Z := match consuming p with Some (j, _) => if Nat.eqb j i then 1 else 0 | None => 0 end.
Lemma infl_cinfl s i : infl s i = cinfl (lthr s (own i)) i.
Proof. reflexivity. Qed.

(* a step of thread t that leaves the subscribers and every subscriber's yields alone *)
Lemma gf_update s t p' l' pt ct sl lv :
  GF s ->
  (forall i, gots i l' = gots i (llog s)) ->
  (forall i, engaged p' = Some i -> t = own i) ->
  (forall i h, consuming p' = Some (i, h) -> shd (subs s i) = h + 1) ->
  (forall i, cinfl p' i = cinfl (lthr s t) i) ->
  GF (lmk pt ct sl (subs s) (upd (lthr s) t p') l' lv).
Proof.
  intros G Hg He Hc Hi. constructor; cbn [lthr subs llog lmk].
  - intros u i. destruct (Nat.eq_dec u t) as [->|Hn]; [rewrite upd_same; apply He|rewrite upd_other by assumption; apply (gf_own _ G)].
  - intros u i h. destruct (Nat.eq_dec u t) as [->|Hn]; [rewrite upd_same; apply Hc|rewrite upd_other by assumption; apply (gf_h _ G)].
  - intros i Hs. rewrite Hg, (gf_seq _ G i Hs). f_equal. f_equal. f_equal. rewrite !infl_cinfl. cbn [lthr lmk].
    destruct (Nat.eq_dec (own i) t) as [->|Hn]; [rewrite upd_same; symmetry; apply Hi|now rewrite upd_other].
Qed.

Definition not_got (r : lres) : Prop := match r with LGot _ _ _ => False | _ => True end.
Lemma gots_snoc_other i l t r : not_got r -> gots i (l ++ [(t, r)]) = gots i l.
Proof. intros H. rewrite gots_snoc. destruct r; try contradiction; apply app_nil_r. Qed.

Lemma infl_range s i : 0 <= infl s i <= 1.
Proof. unfold infl. destruct (consuming (lthr s (own i))) as [[j h]|]; [destruct (Nat.eqb j i)|]; lia. Qed.

(* subscriptions: some subscribers are created (from the empty state, head = first entitled position), the others are untouched *)
Lemma gf_subs s t sb' r pt ct sl lv :
  LInv s -> GF s -> engaged (lthr s t) = None -> consuming (lthr s t) = None -> not_got r ->
  (forall j, sb' j = subs s j \/ (sk (subs s j) = SNone /\ shd (sb' j) = sfrom (sb' j))) ->
  GF (lmk pt ct sl sb' (upd (lthr s) t LIdle) (llog s ++ [(t, r)]) lv).
Proof.
  intros I G He Hc Hr Hsb. constructor; cbn [lthr subs llog lmk].
  - intros u i. destruct (Nat.eq_dec u t) as [->|Hn]; [rewrite upd_same; discriminate|rewrite upd_other by assumption; apply (gf_own _ G)].
  - intros u i h. destruct (Nat.eq_dec u t) as [->|Hn]; [rewrite upd_same; discriminate|]. rewrite upd_other by assumption. intros Hu.
    destruct (Hsb i) as [->|[Hnone _]]; [now apply (gf_h _ G u)|]. exfalso. now apply (proj2 (l_cons _ I u i h Hu)).
  - intros i Hs. rewrite gots_snoc_other by assumption.
    assert (Hinfl : infl (lmk pt ct sl sb' (upd (lthr s) t LIdle) (llog s ++ [(t, r)]) lv) i = infl s i).
    { rewrite !infl_cinfl. cbn [lthr lmk]. destruct (Nat.eq_dec (own i) t) as [->|Hn]; [rewrite upd_same; unfold cinfl; now rewrite Hc|now rewrite upd_other]. }
    rewrite Hinfl. destruct (Hsb i) as [E|[Hnone Hhd]].
    + rewrite E in *. now apply (gf_seq _ G).
    + rewrite (gots_none s i I Hnone), Hhd.
      pose proof (infl_range s i).
      replace (Z.to_nat (sfrom (sb' i) - sfrom (sb' i) - infl s i)) with 0%nat by lia. reflexivity.
Qed.

Lemma gf_step s t : LInv s -> GF s -> GF (lstep s t).
Proof.
  intros I G. unfold lstep. destruct (lthr s t) eqn:E.
  - exact G.
  - apply gf_update; auto; try discriminate. intros j. rewrite E. reflexivity.
  - apply gf_update; auto; try discriminate. intros j. rewrite E. reflexivity.
  - destruct (ctail s =? pos); [|exact G].
    apply gf_update; auto; try discriminate; [intros j; now apply gots_snoc_other|intros j; rewrite E; reflexivity].
  - (* LC0 i: the head fetch-and-add *)
    assert (Ht : t = own i) by (apply (gf_own _ G t i); rewrite E; reflexivity).
    cbv zeta. set (h := shd (subs s i)).
    set (next := match sk (subs s i) with SFix => if sfx (subs s i) <=? h then LC2 i h else LC3 i h | _ => LC1 i h end).
    assert (Hnext : engaged next = Some i /\ consuming next = Some (i, h)).
    { subst next. destruct (sk (subs s i)); try destruct (_ <=? _); split; reflexivity. }
    destruct Hnext as [Hen Hco]. clearbody next.
    constructor; cbn [lthr subs llog lmk].
    + intros u j. destruct (Nat.eq_dec u t) as [->|Hn]; [rewrite (upd_same (lthr s) t next), Hen; intros [= <-]; exact Ht|rewrite upd_other by assumption; apply (gf_own _ G)].
    + intros u j h'. destruct (Nat.eq_dec u t) as [->|Hn].
      * rewrite (upd_same (lthr s) t next). intros Hx. rewrite Hco in Hx. injection Hx as <- <-. rewrite upd_same. reflexivity.
      * rewrite upd_other by assumption. intros Hu. destruct (Nat.eq_dec j i) as [->|Hj].
        -- exfalso. apply Hn. rewrite Ht. apply (gf_own _ G u i). destruct (lthr s u); cbn in Hu |- *; try discriminate; injection Hu as -> _; reflexivity.
        -- rewrite upd_other by assumption. now apply (gf_h _ G u).
    + intros j. destruct (Nat.eq_dec j i) as [->|Hj].
      * rewrite upd_same. cbn [sk shd sfrom set_head]. intros Hs. rewrite (gf_seq _ G i Hs). f_equal. f_equal.
        rewrite !infl_cinfl. cbn [lthr lmk]. rewrite <- Ht, upd_same, E. unfold cinfl. rewrite Hco, Nat.eqb_refl. cbn. subst h. lia.
      * rewrite upd_other by assumption. intros Hs. rewrite (gf_seq _ G j Hs). f_equal. f_equal. f_equal.
        rewrite !infl_cinfl. cbn [lthr lmk]. destruct (Nat.eq_dec (own j) t) as [Eo|Hn]; [|now rewrite upd_other].
        rewrite Eo, upd_same, E. unfold cinfl. rewrite Hco. cbn. destruct (Nat.eqb_spec i j); [congruence|reflexivity].
  - (* LC1 *)
    apply gf_update; auto.
    + intros j Hj. apply (gf_own _ G t j). rewrite E. destruct (ctail s <=? h); cbn in Hj |- *; exact Hj.
    + intros j h' Hj. apply (gf_h _ G t j h'). rewrite E. destruct (ctail s <=? h); cbn in Hj |- *; exact Hj.
    + intros j. rewrite E. destruct (ctail s <=? h); reflexivity.
  - (* LC2: nothing there - the head goes back *)
    assert (Ht : t = own i) by (apply (gf_own _ G t i); rewrite E; reflexivity).
    assert (Hh : shd (subs s i) = h + 1) by (apply (gf_h _ G t i h); rewrite E; reflexivity).
    rewrite Hh, Z.eqb_refl.
    constructor; cbn [lthr subs llog lmk].
    + intros u j. destruct (Nat.eq_dec u t) as [->|Hn]; [rewrite upd_same; discriminate|rewrite upd_other by assumption; apply (gf_own _ G)].
    + intros u j h'. destruct (Nat.eq_dec u t) as [->|Hn]; [rewrite upd_same; discriminate|]. rewrite upd_other by assumption. intros Hu.
      destruct (Nat.eq_dec j i) as [->|Hj].
      * exfalso. apply Hn. rewrite Ht. apply (gf_own _ G u i). destruct (lthr s u); cbn in Hu |- *; try discriminate; injection Hu as -> _; reflexivity.
      * rewrite upd_other by assumption. now apply (gf_h _ G u).
    + intros j. rewrite gots_snoc_other by exact Logic.I. destruct (Nat.eq_dec j i) as [->|Hj].
      * rewrite upd_same. cbn [sk shd sfrom set_head]. intros Hs. rewrite (gf_seq _ G i Hs). f_equal. f_equal.
        rewrite !infl_cinfl. cbn [lthr lmk]. rewrite <- Ht, upd_same, E. unfold cinfl. cbn. rewrite Nat.eqb_refl. lia.
      * rewrite upd_other by assumption. intros Hs. rewrite (gf_seq _ G j Hs). f_equal. f_equal. f_equal.
        rewrite !infl_cinfl. cbn [lthr lmk]. destruct (Nat.eq_dec (own j) t) as [Eo|Hn]; [|now rewrite upd_other].
        rewrite Eo, upd_same, E. unfold cinfl. cbn. destruct (Nat.eqb_spec i j); [congruence|reflexivity].
  - (* LC3: the read - position h is yielded *)
    assert (Ht : t = own i) by (apply (gf_own _ G t i); rewrite E; reflexivity).
    assert (Hh : shd (subs s i) = h + 1) by (apply (gf_h _ G t i h); rewrite E; reflexivity).
    assert (Hc : sfrom (subs s i) <= h /\ sk (subs s i) <> SNone) by (apply (l_cons _ I t i h); rewrite E; reflexivity).
    constructor; cbn [lthr subs llog lmk].
    + intros u j. destruct (Nat.eq_dec u t) as [->|Hn]; [rewrite upd_same; discriminate|rewrite upd_other by assumption; apply (gf_own _ G)].
    + intros u j h'. destruct (Nat.eq_dec u t) as [->|Hn]; [rewrite upd_same; discriminate|]. rewrite upd_other by assumption. apply (gf_h _ G u).
    + intros j Hs. rewrite gots_snoc. destruct (Nat.eqb_spec i j) as [<-|Hj].
      * rewrite (gf_seq _ G i Hs). rewrite !infl_cinfl. cbn [lthr lmk]. rewrite <- Ht, upd_same, E. unfold cinfl. cbn. rewrite Nat.eqb_refl, Hh.
        replace (Z.to_nat (h + 1 - sfrom (subs s i) - 0)) with (S (Z.to_nat (h + 1 - sfrom (subs s i) - 1))) by lia.
        rewrite zseq_snoc. f_equal. f_equal. lia.
      * rewrite app_nil_r, (gf_seq _ G j Hs). f_equal. f_equal. f_equal.
        rewrite !infl_cinfl. cbn [lthr lmk]. destruct (Nat.eq_dec (own j) t) as [Eo|Hn]; [|now rewrite upd_other].
        rewrite Eo, upd_same, E. unfold cinfl. cbn. destruct (Nat.eqb_spec i j); [congruence|reflexivity].
  - apply gf_update; auto; try discriminate. intros j. rewrite E. reflexivity.
  - (* LSN2: a subscriber for new events is created *)
    apply gf_subs; auto; try (rewrite E; reflexivity); [exact Logic.I|].
    intros j. destruct (sk (subs s i)) eqn:Ek; auto. destruct (Nat.eq_dec j i) as [->|Hj]; [right; rewrite upd_same; auto|left; now rewrite upd_other].
  - apply gf_update; auto; try discriminate. intros j0. rewrite E. reflexivity.
  - apply gf_update; auto; try discriminate. intros j0. rewrite E. reflexivity.
  - (* LSS3: the old / new pair is created *)
    apply gf_subs; auto; try (rewrite E; reflexivity); [exact Logic.I|].
    intros j0. destruct (sk (subs s i)) eqn:Ei; auto. destruct (sk (subs s j)) eqn:Ej; auto.
    destruct (Nat.eq_dec j0 j) as [->|Hj]; [right; rewrite upd_same; auto|]. rewrite upd_other by assumption.
    destruct (Nat.eq_dec j0 i) as [->|Hi]; [right; rewrite upd_same; auto|left; now rewrite upd_other].
  - (* LSJ *)
    apply gf_subs; auto; try (rewrite E; reflexivity); [exact Logic.I|].
    intros j. destruct (sk (subs s i)) eqn:Ek; auto. destruct (Nat.eq_dec j i) as [->|Hj]; [right; rewrite upd_same; auto|left; now rewrite upd_other].
  - apply gf_update; auto; try discriminate; [intros j; now apply gots_snoc_other|intros j; rewrite E; reflexivity].
Qed.

Lemma gf_start s t o : wf_lev (LStart t o) -> GF s -> GF (lstart s t o).
Proof.
  intros Hwf G. unfold lstart. destruct (lthr s t) eqn:E; try exact G.
  apply gf_update; auto.
  - intros i. destruct o; cbn in Hwf |- *; try discriminate; try (destruct (sk _); try discriminate; try destruct (sk _); try destruct (Nat.eqb _ _); discriminate).
    destruct (sk (subs s i0)); try discriminate; intros [= <-]; exact Hwf.
  - intros i h. destruct o; try discriminate; try (destruct (sk _); try discriminate; try destruct (sk _); try destruct (Nat.eqb _ _); discriminate).
  - intros i. rewrite E. destruct o; try reflexivity; try (destruct (sk _); try reflexivity; try destruct (sk _); try destruct (Nat.eqb _ _); reflexivity).
Qed.

Lemma gf_init : GF linit.
Proof. constructor; cbn; try discriminate. intros i H. contradiction. Qed.

Theorem gf_reachable evs : Forall wf_lev evs -> GF (fold_left lexec evs linit).
Proof.
  intros H. assert (K : forall s, LInv s -> GF s -> LInv (fold_left lexec evs s) /\ GF (fold_left lexec evs s)).
  { induction H as [|e evs He Hr IH]; intros s I G; [split; assumption|]. cbn [fold_left]. apply IH.
    - destruct e; cbn; [now apply linv_step|now apply linv_start].
    - destruct e; cbn; [now apply gf_step|now apply gf_start]. }
  apply K; [apply linv_init|apply gf_init].
Qed.

(* the statement: the positions a subscriber has yielded so far are the consecutive positions from the first one it is entitled to *)
Theorem gap_free evs i : Forall wf_lev evs ->
  let s := fold_left lexec evs linit in
  sk (subs s i) <> SNone -> exists n, gots i (llog s) = zseq (sfrom (subs s i)) n.
Proof. intros H s Hs. eexists. apply (gf_seq _ (gf_reachable evs H) i Hs). Qed.

End GapFree.
