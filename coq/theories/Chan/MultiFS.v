(* The Multi channel `multi::channels::arc::full_sync::FullSync` (/repo/src/multi/channels/arc/full_sync.rs): the machine of Multi.v with
   one FULL-SYNC ring per listener instead of a lock-free one (and its wake threshold: len_after <= 1).  Same streams manager, same
   stepped creation / removal, same location codes and trace encoding; the result / operation / pc types are Multi.v's. *)
From RM Require Import RingModel FullSync Chan Multi.

Module MFS.

Record mst := { mx : mext; rings : nat -> fsst; msm : sm; vacant : list nat; alive : nat -> bool; mthr : nat -> mpc; mlog : list (nat * mres) }.

Section Multi.
Variable N : Z.
Variable norm : Z -> Z.
Variable M : nat.

Definition MAXID : Z := 4294967295.
Definition L_USEDCNT : Z := 262.
(* used_streams = the ids not in `vacant`, ascending, padded with the sentinel *)
Definition used_list (vac : list nat) : list Z :=
  let live := filter (fun i => negb (existsb (Nat.eqb i) vac)) (seq 0 M) in
  map Z.of_nat live ++ repeat MAXID (M - length live).
Definition used_at (s : mst) (j : nat) : Z := usedarr (mx s) j.
Definition arr_of (vac : list nat) : nat -> Z := fun j => nth j (used_list vac) MAXID.

Definition mmk x r m v a th l : mst := {| mx := x; rings := r; msm := m; vacant := v; alive := a; mthr := th; mlog := l |}.
Definition mkx u c cc fc sl vl : mext := {| usedarr := u; ucnt := c; ccnt := cc; fcnt := fc; slock := sl; vlock := vl |}.
Definition msetpc (s : mst) t p := mmk (mx s) (rings s) (msm s) (vacant s) (alive s) (upd (mthr s) t p) (mlog s).
Definition mfinish (s : mst) t r p := mmk (mx s) (rings s) (msm s) (vacant s) (alive s) (upd (mthr s) t p) (mlog s ++ [(t, r)]).
Definition rstep_i (s : mst) (i t : nat) : fsst := fstep N norm (rings s i) t.
Definition ridle (x : fsst) (t : nat) : bool := match fthr x t with FIdle => true | _ => false end.
Definition rres (x : fsst) : res := snd (last (flog x) (0%nat, REmpty)).

(* the fan-out loop moves on to entry j (it ends, without an access, after MAX_STREAMS entries) *)
Definition send_next (s : mst) (t : nat) (v : Z) (j : nat) : mst :=
  if (M <=? j)%nat then mfinish s t (MSendOk v) MIdle else msetpc s t (MSendU v j).

Definition after_mcons (s : mst) (x : fsst) (t i : nat) (drv : bool) : mst :=
  match rres x with
  | RGot v => mmk (mx s) (upd (rings s) i x) (msm s) (vacant s) (alive s) (upd (mthr s) t (if drv then MDrive i else MIdle)) (mlog s ++ [(t, MYield i v)])
  | _ => mmk (mx s) (upd (rings s) i x) (msm s) (vacant s) (alive s) (upd (mthr s) t (MPollK i drv)) (mlog s)
  end.

Definition mstep (s : mst) (t : nat) : mst :=
  match mthr s t with
  | MIdle => s
  | MSendU v j =>
      let id := used_at s j in
      if id =? MAXID then mfinish s t (MSendOk v) MIdle
      else let i := Z.to_nat id in mmk (mx s) (upd (rings s) i (fstart (rings s i) t (OpPub v))) (msm s) (vacant s) (alive s) (upd (mthr s) t (MSendQ v j i)) (mlog s)
  | MSendQ v j i =>
      let x := rstep_i s i t in
      if ridle x t then
        match rres x with
        | ROk _ len => if len <=? 1 then mmk (mx s) (upd (rings s) i x) (msm s) (vacant s) (alive s) (upd (mthr s) t (MSendW v j i false (W0 i))) (mlog s)
                       else send_next (mmk (mx s) (upd (rings s) i x) (msm s) (vacant s) (alive s) (mthr s) (mlog s)) t v (S j)
        | _ => mmk (mx s) (upd (rings s) i x) (msm s) (vacant s) (alive s) (upd (mthr s) t (MSendW v j i true (W0 i))) (mlog s)
        end
      else mmk (mx s) (upd (rings s) i x) (msm s) (vacant s) (alive s) (mthr s) (mlog s)
  | MSendW v j i full w =>
      let '(m', w') := wstep (msm s) w in
      match w' with
      | Some w'' => mmk (mx s) (rings s) m' (vacant s) (alive s) (upd (mthr s) t (MSendW v j i full w'')) (mlog s)
      | None => if full then mmk (mx s) (upd (rings s) i (fstart (rings s i) t (OpPub v))) m' (vacant s) (alive s) (upd (mthr s) t (MSendQ v j i)) (mlog s)
                else send_next (mmk (mx s) (rings s) m' (vacant s) (alive s) (mthr s) (mlog s)) t v (S j)
      end
  | MDrive i =>
      let x := fstep N norm (fstart (rings s i) t OpCons) t in
      if ridle x t then after_mcons s x t i true else mmk (mx s) (upd (rings s) i x) (msm s) (vacant s) (alive s) (upd (mthr s) t (MPollQ i true)) (mlog s)
  | MPollQ i drv =>
      let x := rstep_i s i t in
      if ridle x t then after_mcons s x t i drv else mmk (mx s) (upd (rings s) i x) (msm s) (vacant s) (alive s) (mthr s) (mlog s)
  | MPollK i drv => if keep (msm s) i then msetpc s t (MReg i R0 drv) else mfinish s t (MEnd i) MIdle
  | MReg i R0 drv => if wakers (msm s) i then mfinish s t (MPending i) (if drv then MParked i else MIdle) else msetpc s t (MReg i RL drv)
  | MReg i RL drv =>
      if wlock (msm s) then s
      else mmk (mx s) (rings s) {| wakers := wakers (msm s); keep := keep (msm s); wlock := true; notified := notified (msm s) |} (vacant s) (alive s)
               (upd (mthr s) t (MReg i RW drv)) (mlog s)
  | MReg i RW drv =>
      mmk (mx s) (rings s) {| wakers := upd (wakers (msm s)) i true; keep := keep (msm s); wlock := wlock (msm s); notified := notified (msm s) |} (vacant s) (alive s)
          (upd (mthr s) t (MReg i RU drv)) (mlog s)
  | MReg i RU drv =>
      mmk (mx s) (rings s) {| wakers := wakers (msm s); keep := keep (msm s); wlock := false; notified := notified (msm s) |} (vacant s) (alive s)
          (upd (mthr s) t (MReg i RS drv)) (mlog s)
  | MReg i RS drv =>
      mmk (mx s) (rings s) {| wakers := wakers (msm s); keep := keep (msm s); wlock := wlock (msm s); notified := upd (notified (msm s)) i true |} (vacant s) (alive s)
          (upd (mthr s) t (if drv then MParked i else MIdle)) (mlog s ++ [(t, MPending i)])
  | MParked i =>
      if notified (msm s) i then
        mmk (mx s) (rings s) {| wakers := wakers (msm s); keep := keep (msm s); wlock := wlock (msm s); notified := upd (notified (msm s)) i false |} (vacant s) (alive s)
            (upd (mthr s) t (MDrive i)) (mlog s)
      else s
  | MCreate =>
      match vacant s with
      | [] => mfinish s t MNoStream MIdle
      | id :: rest =>
          mmk (mkx (arr_of rest) (ucnt (mx s) + 1) (ccnt (mx s) + 1) (fcnt (mx s)) (slock (mx s)) (vlock (mx s)))
              (rings s) {| wakers := wakers (msm s); keep := upd (keep (msm s)) id true; wlock := wlock (msm s); notified := notified (msm s) |}
              rest (upd (alive s) id true) (upd (mthr s) t MIdle) (mlog s ++ [(t, MCreated (Z.of_nat id))])
      end
  | MDrop i =>
      mmk (mkx (arr_of (vacant s ++ [i])) (ucnt (mx s) - 1) (ccnt (mx s)) (fcnt (mx s) + 1) (slock (mx s)) (vlock (mx s)))
          (rings s) {| wakers := upd (wakers (msm s)) i false; keep := keep (msm s); wlock := wlock (msm s); notified := notified (msm s) |}
          (vacant s ++ [i]) (upd (alive s) i false) (upd (mthr s) t MIdle) (mlog s ++ [(t, MDropped i)])
  | MNo => mfinish s t MNoStream MIdle
  | MCount => mfinish s t (MCountR (ucnt (mx s))) MIdle      (* used_streams_count.load *)
  (* create_stream_id, one access at a time *)
  | KC1 => mmk (mkx (usedarr (mx s)) (ucnt (mx s)) (ccnt (mx s) + 1) (fcnt (mx s)) (slock (mx s)) (vlock (mx s))) (rings s) (msm s) (vacant s) (alive s) (upd (mthr s) t KC2) (mlog s)
  | KC2 => mmk (mkx (usedarr (mx s)) (ucnt (mx s) + 1) (ccnt (mx s)) (fcnt (mx s)) (slock (mx s)) (vlock (mx s))) (rings s) (msm s) (vacant s) (alive s) (upd (mthr s) t KC3) (mlog s)
  | KC3 => if vlock (mx s) then s
           else let x := mkx (usedarr (mx s)) (ucnt (mx s)) (ccnt (mx s)) (fcnt (mx s)) (slock (mx s)) true in
                match vacant s with
                | [] => mmk x (rings s) (msm s) [] (alive s) (upd (mthr s) t (KC4 None)) (mlog s)
                | id :: rest => mmk x (rings s) (msm s) rest (alive s) (upd (mthr s) t (KC4 (Some id))) (mlog s)
                end
  | KC4 o => let x := mkx (usedarr (mx s)) (ucnt (mx s)) (ccnt (mx s)) (fcnt (mx s)) (slock (mx s)) false in
             match o with
             | Some id => mmk x (rings s) (msm s) (vacant s) (alive s) (upd (mthr s) t (KC5 id)) (mlog s)
             | None => mmk x (rings s) (msm s) (vacant s) (alive s) (upd (mthr s) t KCF1) (mlog s)
             end
  (* no id was vacant: the two counters are taken back, then the code panics *)
  | KCF1 => mmk (mkx (usedarr (mx s)) (ucnt (mx s)) (ccnt (mx s) - 1) (fcnt (mx s)) (slock (mx s)) (vlock (mx s))) (rings s) (msm s) (vacant s) (alive s) (upd (mthr s) t KCF2) (mlog s)
  | KCF2 => mmk (mkx (usedarr (mx s)) (ucnt (mx s) - 1) (ccnt (mx s)) (fcnt (mx s)) (slock (mx s)) (vlock (mx s))) (rings s) (msm s) (vacant s) (alive s) (upd (mthr s) t MIdle) (mlog s ++ [(t, MNoStream)])
  | KC5 id => mmk (mx s) (rings s) {| wakers := wakers (msm s); keep := upd (keep (msm s)) id true; wlock := wlock (msm s); notified := notified (msm s) |}
                  (vacant s) (alive s) (upd (mthr s) t (KSL (MCreated (Z.of_nat id)))) (mlog s)
  (* report_stream_dropped *)
  | KD1 i => if wlock (msm s) then s
             else mmk (mx s) (rings s) {| wakers := wakers (msm s); keep := keep (msm s); wlock := true; notified := notified (msm s) |} (vacant s) (alive s) (upd (mthr s) t (KD2 i)) (mlog s)
  | KD2 i => mmk (mx s) (rings s) {| wakers := upd (wakers (msm s)) i false; keep := keep (msm s); wlock := wlock (msm s); notified := notified (msm s) |} (vacant s) (alive s) (upd (mthr s) t (KD3 i)) (mlog s)
  | KD3 i => mmk (mx s) (rings s) {| wakers := wakers (msm s); keep := keep (msm s); wlock := false; notified := notified (msm s) |} (vacant s) (alive s) (upd (mthr s) t (KD4 i)) (mlog s)
  | KD4 i => mmk (mkx (usedarr (mx s)) (ucnt (mx s)) (ccnt (mx s)) (fcnt (mx s) + 1) (slock (mx s)) (vlock (mx s))) (rings s) (msm s) (vacant s) (alive s) (upd (mthr s) t (KD5 i)) (mlog s)
  | KD5 i => mmk (mkx (usedarr (mx s)) (ucnt (mx s) - 1) (ccnt (mx s)) (fcnt (mx s)) (slock (mx s)) (vlock (mx s))) (rings s) (msm s) (vacant s) (alive s) (upd (mthr s) t (KD6 i)) (mlog s)
  | KD6 i => if vlock (mx s) then s
             else mmk (mkx (usedarr (mx s)) (ucnt (mx s)) (ccnt (mx s)) (fcnt (mx s)) (slock (mx s)) true) (rings s) (msm s) (vacant s ++ [i]) (alive s) (upd (mthr s) t (KD7 i)) (mlog s)
  | KD7 i => mmk (mkx (usedarr (mx s)) (ucnt (mx s)) (ccnt (mx s)) (fcnt (mx s)) (slock (mx s)) false) (rings s) (msm s) (vacant s) (alive s) (upd (mthr s) t (KSL (MDropped i))) (mlog s)
  (* sync_vacant_and_used_streams: lock, snapshot of the vacant queue, rewrite of used_streams cell by cell, unlock *)
  | KSL r => if slock (mx s) then s
             else mmk (mkx (usedarr (mx s)) (ucnt (mx s)) (ccnt (mx s)) (fcnt (mx s)) true (vlock (mx s))) (rings s) (msm s) (vacant s) (alive s)
                      (upd (mthr s) t (KSW r (used_list (vacant s)) 0)) (mlog s)
  | KSW r snap j =>
      mmk (mkx (upd (usedarr (mx s)) j (nth j snap MAXID)) (ucnt (mx s)) (ccnt (mx s)) (fcnt (mx s)) (slock (mx s)) (vlock (mx s))) (rings s) (msm s) (vacant s) (alive s)
          (upd (mthr s) t (if (S j <? M)%nat then KSW r snap (S j) else KSU r)) (mlog s)
  | KSU r =>
      mmk (mkx (usedarr (mx s)) (ucnt (mx s)) (ccnt (mx s)) (fcnt (mx s)) false (vlock (mx s))) (rings s) (msm s) (vacant s)
          (match r with MCreated id => upd (alive s) (Z.to_nat id) true | _ => alive s end) (upd (mthr s) t MIdle) (mlog s ++ [(t, r)])
  end.

(* the stream this thread created last (for programs that create a listener and then poll it) *)
Definition last_created (l : list (nat * mres)) (t : nat) : option nat :=
  fold_left (fun acc e => match snd e with MCreated id => if Nat.eqb (fst e) t then Some (Z.to_nat id) else acc | _ => acc end) l None.

Definition mstart (s : mst) (t : nat) (o : mop) : mst :=
  match mthr s t with
  | MIdle =>
      match o with
      | MoSend v => send_next s t v 0
      | MoPoll i => if alive s i then mmk (mx s) (upd (rings s) i (fstart (rings s i) t OpCons)) (msm s) (vacant s) (alive s) (upd (mthr s) t (MPollQ i false)) (mlog s)
                    else msetpc s t MNo
      | MoDrive i => if alive s i then msetpc s t (MDrive i) else msetpc s t MNo
      | MoCreate => msetpc s t MCreate
      | MoDrop i => if alive s i then msetpc s t (MDrop i) else msetpc s t MNo
      | MoCount => msetpc s t MCount
      | MoCreateS => if existsb (fun i => negb (alive s i)) (seq 0 M) then msetpc s t KC1 else msetpc s t MNo
      | MoDropS i => if alive s i then mmk (mx s) (rings s) (msm s) (vacant s) (upd (alive s) i false) (upd (mthr s) t (KD1 i)) (mlog s) else msetpc s t MNo
      | MoPollMine => match last_created (mlog s) t with
                      | Some i => if alive s i then mmk (mx s) (upd (rings s) i (fstart (rings s i) t OpCons)) (msm s) (vacant s) (alive s) (upd (mthr s) t (MPollQ i false)) (mlog s)
                                  else msetpc s t MNo
                      | None => msetpc s t MNo
                      end
      end
  | _ => s
  end.

(* ring i's cells are reported at 1000*(i+1) + (ring location) *)
Definition shift_ring (i : nat) (l : list Z) : list Z :=
  match l with 1 :: t :: loc :: rest => 1 :: t :: (loc + 1000 * (Z.of_nat i + 1)) :: rest | _ => l end.

Definition mobs (s : mst) (t : nat) : list Z :=
  match mthr s t with
  | MIdle => skip t
  | MSendU _ j => acc t (L_USED + Z.of_nat j) K_USED_R (used_at s j) (-1) true
  | MSendQ _ _ i | MPollQ i _ => shift_ring i (fobs (rings s i) t)
  | MDrive i => shift_ring i (fobs (fstart (rings s i) t OpCons) t)
  | MSendW _ _ _ _ w => wobs (msm s) t w
  | MPollK i _ => acc t (L_KEEP + Z.of_nat i) K_KEEP_R (b2z (keep (msm s) i)) (-1) true
  | MReg i R0 _ => acc t (L_WAKERS + Z.of_nat i) K_WAKERS_R (b2z (wakers (msm s) i)) (-1) true
  | MReg i RL _ => if wlock (msm s) then acc t L_WLOCK K_CAS 1 (-1) false else acc t L_WLOCK K_CAS 0 1 true
  | MReg i RW _ => acc t (L_WAKERS + Z.of_nat i) K_WAKERS_W 1 (-1) true
  | MReg i RU _ => acc t L_WLOCK K_STORE 0 0 true
  | MReg i RS _ => acc t (L_NOTIFIED + Z.of_nat i) K_WAKE 0 (-1) true
  | MParked i => acc t (L_NOTIFIED + Z.of_nat i) K_PARKED (b2z (notified (msm s) i)) (-1) true
  | MCreate | MDrop _ | MNo => acc t 2 K_YIELD 0 (-1) true
  | MCount => acc t L_USEDCNT K_LOAD (ucnt (mx s)) (-1) true
  | KC1 => acc t 263 K_FAA (ccnt (mx s)) (ccnt (mx s) + 1) true
  | KC2 => acc t L_USEDCNT K_FAA (ucnt (mx s)) (ucnt (mx s) + 1) true
  | KCF1 => acc t 263 K_FAS (ccnt (mx s)) (ccnt (mx s) - 1) true
  | KCF2 => acc t L_USEDCNT K_FAS (ucnt (mx s)) (ucnt (mx s) - 1) true
  | KC3 | KD6 _ => if vlock (mx s) then acc t 265 K_CAS 1 (-1) false else acc t 265 K_CAS 0 1 true
  | KC4 _ | KD7 _ => acc t 265 K_STORE 0 0 true
  | KC5 id => acc t (L_KEEP + Z.of_nat id) K_KEEP_W 1 (-1) true
  | KD1 _ => if wlock (msm s) then acc t L_WLOCK K_CAS 1 (-1) false else acc t L_WLOCK K_CAS 0 1 true
  | KD2 i => acc t (L_WAKERS + Z.of_nat i) K_WAKERS_W 0 (-1) true
  | KD3 _ => acc t L_WLOCK K_STORE 0 0 true
  | KD4 _ => acc t 264 K_FAA (fcnt (mx s)) (fcnt (mx s) + 1) true
  | KD5 _ => acc t L_USEDCNT K_FAS (ucnt (mx s)) (ucnt (mx s) - 1) true
  | KSL _ => if slock (mx s) then acc t 261 K_CAS 1 (-1) false else acc t 261 K_CAS 0 1 true
  | KSW _ snap j => acc t (L_USED + Z.of_nat j) K_USED_W (nth j snap MAXID) (-1) true
  | KSU _ => acc t 261 K_STORE 0 0 true
  end.

Definition minit : mst :=
  {| mx := mkx (fun _ => MAXID) 0 0 0 false false; rings := fun _ => finit; msm := {| wakers := fun _ => false; keep := fun _ => false; wlock := false; notified := fun _ => false |};
     vacant := seq 0 M; alive := fun _ => false; mthr := fun _ => MIdle; mlog := [] |}.

Definition mres_code (r : mres) : list Z :=
  match r with
  | MSendOk v => [10; v; 0] | MYield i v => [12; v; Z.of_nat i] | MPending i => [13; Z.of_nat i; 0] | MEnd i => [14; Z.of_nat i; 0]
  | MCreated i => [17; i; 0] | MDropped i => [18; Z.of_nat i; 0] | MNoStream => [19; 0; 0] | MCountR n => [15; n; 0]
  end.
Definition memit (before after : list (nat * mres)) : list (list Z) :=
  map (fun e => 2 :: Z.of_nat (fst e) :: mres_code (snd e)) (skipn (length before) after).
Definition mgrant (s : mst) (progs : nat -> list mop) (t : nat) : mst * (nat -> list mop) * list (list Z) :=
  match mthr s t with
  | MIdle => match progs t with
             | [] => (s, progs, [skip t])
             | o :: rest =>
                 let s1 := mstart s t o in
                 match mthr s1 t with
                 | MIdle => (s1, upd progs t rest, skip t :: memit (mlog s) (mlog s1))
                 | _ => let s2 := mstep s1 t in (s2, upd progs t rest, mobs s1 t :: memit (mlog s) (mlog s2))
                 end
             end
  | _ => let s2 := mstep s t in (s2, progs, mobs s t :: memit (mlog s) (mlog s2))
  end.
Fixpoint mrun' (s : mst) (progs : nat -> list mop) (sched : list nat) : mst * (nat -> list mop) * list (list Z) :=
  match sched with
  | [] => (s, progs, [])
  | t :: rest => let '(s1, p1, lines) := mgrant s progs t in let '(s2, p2, more) := mrun' s1 p1 rest in (s2, p2, lines ++ more)
  end.
Definition mrun (s : mst) (progs : nat -> list mop) (sched : list nat) : mst * list (list Z) :=
  let '(s1, _, lines) := mrun' s progs sched in (s1, lines).

(* no operation is in progress: every thread finished its program or sits parked between two polls *)
Definition mquiet (s : mst) (progs : nat -> list mop) (nthreads : nat) : bool :=
  forallb (fun t => match mthr s t with MIdle => match progs t with [] => true | _ => false end | MParked _ => true | _ => false end) (seq 0 nthreads).
(* what every live stream still yields when polled now: [i; n; v1..vn] per live stream *)
Definition mdrain (s : mst) : list Z :=
  flat_map (fun i => if alive s i then let p := skipn (length (fdelivered (rings s i))) (fpublished (rings s i)) in
                                      Z.of_nat i :: Z.of_nat (length p) :: p else []) (seq 0 M).
End Multi.

(* `pre` operations (creations / drops) are applied by the unscheduled driver before the run; `probe`: the final record also
   says how many of BUFFER_SIZE further sends the quiescent, drained channel accepts (all of them, on this kind) *)
Definition run_multi_arc_full_sync_gen (probe : bool) (N : Z) (M : nat) (k : nat) (progs : list (list mop)) (sched : list nat) : list Z :=
  let s0 := Nat.iter k (fun s => mstep N u32 M (mstart M s 0%nat MoCreate) 0%nat) (minit M) in
  let s0' := mmk (mx s0) (rings s0) (msm s0) (vacant s0) (alive s0) (mthr s0) [] in
  let '(s, p, lines) := mrun' N u32 M s0' (fun t => nth t progs []) sched in
  let q := mquiet s p (length progs) in
  concat lines ++ [9; b2z q] ++ (if q then mdrain M s else []) ++ [-1; 0] ++ (if q && probe then [-2; N] else []).
Definition run_multi_arc_full_sync := run_multi_arc_full_sync_gen false.
Definition run_multi_arc_full_sync_probe := run_multi_arc_full_sync_gen true.

End MFS.
