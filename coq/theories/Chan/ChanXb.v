(* The movable crossbeam Uni channel (/repo/src/uni/channels/movable/crossbeam.rs) on the channel machine of Chan.v.

   crossbeam's own bounded queue has no hooks: it is a library, modelled here as an atomic FIFO (a list) each of whose calls is ONE step,
   taken at the channel's yield point in front of it - that is the trusted part of this model.  What the channel itself does around the
   queue is modelled access by access:

     send v        [401] len_before = tx.len() ; [402] tx.try_send(v) ; when len_before <= 2: wake_stream(0) (whatever try_send answered)
     send_with v   [403] tx.is_full() ? Transient : { loop { send v } until it is accepted } - it spins on a full queue
                   (send_with_async with a ready setter performs the same accesses)
     poll / drive  [404] rx.try_recv() then keep_stream_running / register_stream_waker as in Chan.v
     len           [401] tx.len()

   The queue component below serves Chan.v's poll / drive / len (and a one-step publish that the channel never uses); the two send entry
   points are a layer above it, as in ChanX.v, because their wake decision is taken from a length sampled BEFORE the publication and is
   executed even when the publication failed. *)
From RM Require Export RingModel FullSync Chan.

(* ------------------------------------------------------------------------------------------- the queue component *)
Inductive xqpc := QIdle | QPub (v : Z) | QCons | QLen.
Record xq := { qitems : list Z; qthr : nat -> xqpc; qlog : list (nat * res) }.

Definition L_XB := 400.
Section XbQueue.
Variable N : Z.
Definition xq_step (x : xq) (t : nat) : xq :=
  match qthr x t with
  | QIdle => x
  | QPub v =>
      if Z.of_nat (length (qitems x)) <? N
      then {| qitems := qitems x ++ [v]; qthr := upd (qthr x) t QIdle; qlog := qlog x ++ [(t, ROk v (Z.of_nat (length (qitems x)) + 1))] |}
      else {| qitems := qitems x; qthr := upd (qthr x) t QIdle; qlog := qlog x ++ [(t, RFull v)] |}
  | QCons =>
      match qitems x with
      | [] => {| qitems := []; qthr := upd (qthr x) t QIdle; qlog := qlog x ++ [(t, REmpty)] |}
      | v :: r => {| qitems := r; qthr := upd (qthr x) t QIdle; qlog := qlog x ++ [(t, RGot v)] |}
      end
  | QLen => {| qitems := qitems x; qthr := upd (qthr x) t QIdle; qlog := qlog x ++ [(t, RLen (Z.of_nat (length (qitems x))))] |}
  end.
Definition xq_start (x : xq) (t : nat) (o : op) : xq :=
  match qthr x t with
  | QIdle => {| qitems := qitems x; qthr := upd (qthr x) t (match o with OpPub v => QPub v | OpCons => QCons | OpLen => QLen end); qlog := qlog x |}
  | _ => x
  end.
Definition xq_idle (x : xq) (t : nat) : bool := match qthr x t with QIdle => true | _ => false end.
Definition xq_obs (x : xq) (t : nat) : list Z :=
  match qthr x t with
  | QIdle => skip t
  | QPub _ => acc t (L_XB + 2) K_YIELD 0 (-1) true
  | QCons => acc t (L_XB + 4) K_YIELD 0 (-1) true
  | QLen => acc t (L_XB + 1) K_YIELD 0 (-1) true
  end.
Definition xq_init : xq := {| qitems := []; qthr := fun _ => QIdle; qlog := [] |}.
End XbQueue.

(* ------------------------------------------------------------------------------------------- the send entry points *)
Inductive bop := BoBase (o : cop) | BoSend (v : Z) | BoSendWith (v : Z).
Inductive bpc :=
| BN
| BFull (v : Z)                                  (* send_with: about to ask is_full() *)
| BLen (v : Z) (retry : bool)                    (* send: about to sample the length *)
| BTry (v : Z) (l : Z) (retry : bool)            (* about to call try_send, length sampled = l *)
| BWake (v : Z) (ok : bool) (retry : bool) (w : wpc).

Section ChanXb.
Variable N : Z.
Variable M k : nat.

Local Notation bst := (cst xq).
Local Notation bstep := (cstep xq (xq_step N) xq_start xq_idle qlog M k (fun _ => None)).
Local Notation bstart := (cstart xq xq_start M).
Local Notation bobs := (cobs xq xq_start xq_obs k).

Record bxst := { bb : bst; bthr : nat -> bpc }.

Definition with_q (b : bst) (x : xq) : bst := mk xq x (m xq b) (cthr xq b) (clog xq b).
Definition with_m (b : bst) (y : sm) : bst := mk xq (q xq b) y (cthr xq b) (clog xq b).
Definition answer (b : bst) (t : nat) (r : cres) : bst := mk xq (q xq b) (m xq b) (cthr xq b) (clog xq b ++ [(t, r)]).
Definition goto (s : bxst) (b : bst) (t : nat) (p : bpc) : bxst := {| bb := b; bthr := upd (bthr s) t p |}.

(* the send returned `ok`: plain send answers; send_with tries again until accepted *)
Definition sent (s : bxst) (b : bst) (t : nat) (v : Z) (ok retry : bool) : bxst :=
  if ok then goto s (answer b t (CSendOk v)) t BN
  else if retry then goto s b t (BLen v true)
  else goto s (answer b t (CSendFull v)) t BN.

Definition bxstep (s : bxst) (t : nat) : bxst :=
  let b := bb s in
  let x := q xq b in
  match bthr s t with
  | BN => {| bb := bstep b t; bthr := bthr s |}
  | BFull v =>
      if N <=? Z.of_nat (length (qitems x)) then goto s (answer b t (CSendFull v)) t BN else goto s b t (BLen v true)
  | BLen v r => goto s b t (BTry v (Z.of_nat (length (qitems x))) r)
  | BTry v l r =>
      let ok := Z.of_nat (length (qitems x)) <? N in
      let x' := if ok then {| qitems := qitems x ++ [v]; qthr := qthr x; qlog := qlog x ++ [(t, ROk v (Z.of_nat (length (qitems x)) + 1))] |}
                else {| qitems := qitems x; qthr := qthr x; qlog := qlog x ++ [(t, RFull v)] |} in
      if l <=? 2 then goto s (with_q b x') t (BWake v ok r (W0 0)) else sent s (with_q b x') t v ok r
  | BWake v ok r w =>
      let '(m', w') := wstep (m xq b) w in
      match w' with
      | Some w'' => goto s (with_m b m') t (BWake v ok r w'')
      | None => sent s (with_m b m') t v ok r
      end
  end.

Definition bxstart (s : bxst) (t : nat) (o : bop) : bxst :=
  match bthr s t, cthr xq (bb s) t with
  | BN, XIdle =>
      match o with
      | BoBase o' => {| bb := bstart (bb s) t o'; bthr := bthr s |}
      | BoSend v => goto s (bb s) t (BLen v false)
      | BoSendWith v => goto s (bb s) t (BFull v)
      end
  | _, _ => s
  end.

Inductive bev := BStep (t : nat) | BStart (t : nat) (o : bop).
Definition bxexec (s : bxst) (e : bev) : bxst := match e with BStep t => bxstep s t | BStart t o => bxstart s t o end.

Definition bxobs (s : bxst) (t : nat) : list Z :=
  match bthr s t with
  | BN => bobs (bb s) t
  | BFull _ => acc t (L_XB + 3) K_YIELD 0 (-1) true
  | BLen _ _ => acc t (L_XB + 1) K_YIELD 0 (-1) true
  | BTry _ _ _ => acc t (L_XB + 2) K_YIELD 0 (-1) true
  | BWake _ _ _ w => wobs (m xq (bb s)) t w
  end.

Definition bxinit : bxst := {| bb := cinit xq k xq_init; bthr := fun _ => BN |}.

(* ------------------------------------------------------------------------------------------- runner *)
Definition bxbusy (s : bxst) (t : nat) : bool :=
  match bthr s t, cthr xq (bb s) t with BN, XIdle => false | _, _ => true end.
Definition bxemit (s s' : bxst) : list (list Z) := cemit (clog xq (bb s)) (clog xq (bb s')).

Definition bxgrant (s : bxst) (progs : nat -> list bop) (t : nat) : bxst * (nat -> list bop) * list (list Z) :=
  if bxbusy s t then let s2 := bxstep s t in (s2, progs, bxobs s t :: bxemit s s2)
  else
    match progs t with
    | [] => (s, progs, [skip t])
    | o :: rest =>
        let s1 := bxstart s t o in
        if bxbusy s1 t then let s2 := bxstep s1 t in (s2, upd progs t rest, bxobs s1 t :: bxemit s s2)
        else (s1, upd progs t rest, skip t :: bxemit s s1)
    end.

Fixpoint bxrun (s : bxst) (progs : nat -> list bop) (sched : list nat) : bxst * list (list Z) :=
  match sched with
  | [] => (s, [])
  | t :: rest =>
      let '(s1, progs1, lines) := bxgrant s progs t in
      let '(s2, more) := bxrun s1 progs1 rest in
      (s2, lines ++ more)
  end.

End ChanXb.

Definition bprogs_of (l : list (list bop)) : nat -> list bop := fun t => nth t l [].
Definition run_uni_crossbeam (N : Z) (M k : nat) (progs : list (list bop)) (sched : list nat) : list Z :=
  let '(s, lines) := bxrun N M k (bxinit k) (bprogs_of progs) sched in
  concat lines ++ [9].
