(* C09 on the mmap log topic (Log.v), the remaining clauses of the property as theorems, every interleaving:
     - the publications that were answered are, in answer order, exactly the log entries with their positions 0, 1, 2, ... :
       one total order, and it is consistent with each producer's send order (a producer's sends answer one after the other);
     - an "empty" answer is exact: a subscriber for new events is told "nothing there" only when it has yielded every position that is
       visible at the moment it looks; the "old events" stream is told so (and ends) exactly when it has yielded every position below
       the split point - nothing missing on either side of the split. *)
From RM Require Import Util Log LogGapFree.

(* ------------------------------------------------------------------------------ the shape of a step *)
Definition is_pub (r : lres) : bool := match r with LPubbed _ _ => true | _ => false end.
Definition is_none (r : lres) : bool := match r with LNone _ => true | _ => false end.

(* a step appends at most one response; a publication answer is the visibility CAS of the position = the log's length;
   an "empty" answer is the successful recede of a consume *)
Inductive step_shape (s s' : lst) (t : nat) : Prop :=
| SSquiet : llog s' = llog s -> logv s' = logv s -> step_shape s s' t
| SSother r : llog s' = llog s ++ [(t, r)] -> logv s' = logv s -> is_pub r = false -> is_none r = false -> step_shape s s' t
| SSpub v : llog s' = llog s ++ [(t, LPubbed v (ctail s))] -> logv s' = logv s ++ [v] -> lthr s t = LP2 v (ctail s) -> step_shape s s' t
| SSnone i h : llog s' = llog s ++ [(t, LNone i)] -> logv s' = logv s -> lthr s t = LC2 i h -> step_shape s s' t.

Lemma lstep_shape s t : step_shape s (lstep s t) t.
Proof.
  unfold lstep. destruct (lthr s t) eqn:E; try (apply SSquiet; reflexivity).
  - destruct (Z.eqb_spec (ctail s) pos) as [<-|]; [|apply SSquiet; reflexivity]. now apply (SSpub _ _ _ v).
  - destruct (shd (subs s i) =? h + 1); [|apply SSquiet; reflexivity]. now apply (SSnone _ _ _ i h).
  - now apply (SSother _ _ _ (LGot i h (slots s h))).
  - now apply (SSother _ _ _ (LSubbed k)).
  - now apply (SSother _ _ _ (LSubbed k)).
  - now apply (SSother _ _ _ (LSubbed 0)).
  - now apply (SSother _ _ _ LNoSub).
Qed.

Lemma lstart_quiet s t o : llog (lstart s t o) = llog s /\ logv (lstart s t o) = logv s /\ subs (lstart s t o) = subs s /\ ctail (lstart s t o) = ctail s.
Proof. unfold lstart. destruct (lthr s t); repeat split; reflexivity. Qed.

(* installed subscribers keep their kind, their entitlement and their frozen tail *)
Lemma lstep_stable s t : stable_subs (subs s) (subs (lstep s t)).
Proof.
  unfold lstep, stable_subs. intros j Hj.
  destruct (lthr s t) eqn:E; cbn [subs lmk]; auto.
  - destruct (ctail s =? pos); cbn [subs lmk]; auto.
  - upd_cases i j; cbn; auto.
  - destruct (shd (subs s i) =? h + 1); cbn [subs lmk]; auto. upd_cases i j; cbn; auto.
  - destruct (sk (subs s i)) eqn:Ek; auto. upd_cases i j; [congruence|auto].
  - destruct (sk (subs s i)) eqn:Ei, (sk (subs s j0)) eqn:Ej; auto.
    upd_cases j0 j; [congruence|]. upd_cases i j; [congruence|auto].
  - destruct (sk (subs s i)) eqn:Ek; auto. upd_cases i j; [congruence|auto].
Qed.

Lemma ctail_mono s t : ctail s <= ctail (lstep s t).
Proof.
  unfold lstep. destruct (lthr s t); cbn [ctail lmk]; try lia.
  - destruct (Z.eqb_spec (ctail s) pos); cbn [ctail lmk]; lia.
  - destruct (shd (subs s i) =? h + 1); cbn [ctail lmk]; lia.
Qed.

(* ------------------------------------------------------------------------------ publications: one total order *)
Definition pubs (l : list (nat * lres)) : list (Z * Z) :=
  flat_map (fun e => match snd e with LPubbed v pos => [(v, pos)] | _ => [] end) l.
Definition numbered (l : list Z) : list (Z * Z) := combine l (zseq 0 (length l)).

Lemma pubs_snoc l t r : pubs (l ++ [(t, r)]) = pubs l ++ match r with LPubbed v pos => [(v, pos)] | _ => [] end.
Proof. unfold pubs. rewrite flat_map_app. cbn. now rewrite app_nil_r. Qed.
Lemma combine_app' {A B} (l1 l2 : list A) (m1 m2 : list B) :
  length l1 = length m1 -> combine (l1 ++ l2) (m1 ++ m2) = combine l1 m1 ++ combine l2 m2.
Proof.
  revert m1. induction l1 as [|x l1 IH]; intros [|y m1] H; try discriminate; [reflexivity|].
  cbn. f_equal. apply IH. now injection H.
Qed.
Lemma numbered_snoc l v : numbered (l ++ [v]) = numbered l ++ [(v, Z.of_nat (length l))].
Proof.
  unfold numbered. rewrite app_length. cbn [length]. rewrite Nat.add_1_r, zseq_snoc.
  rewrite combine_app' by (unfold zseq; now rewrite map_length, seq_length). reflexivity.
Qed.

Definition PO (s : lst) : Prop := pubs (llog s) = numbered (logv s).

Lemma po_step s t : LInv s -> PO s -> PO (lstep s t).
Proof.
  intros I P. unfold PO in *. destruct (lstep_shape s t) as [Hl Hv|r Hl Hv Hp _|v Hl Hv _|i h Hl Hv _]; rewrite Hl, Hv.
  - exact P.
  - rewrite pubs_snoc. destruct r; try discriminate; now rewrite app_nil_r.
  - rewrite pubs_snoc, numbered_snoc, P, (l_len _ I). reflexivity.
  - rewrite pubs_snoc. now rewrite app_nil_r.
Qed.

Theorem pubs_are_the_log evs : pubs (llog (fold_left lexec evs linit)) = numbered (logv (fold_left lexec evs linit)).
Proof.
  assert (K : forall s, LInv s -> PO s -> PO (fold_left lexec evs s)).
  { induction evs as [|e evs IH]; intros s I P; [exact P|]. cbn [fold_left]. apply IH.
    - destruct e; cbn; [now apply linv_step|now apply linv_start].
    - destruct e as [t|t o]; cbn; [now apply po_step|]. unfold PO. destruct (lstart_quiet s t o) as (-> & -> & _). exact P. }
  apply K; [apply linv_init|reflexivity].
Qed.

(* positions grow along the answers: of two answered publications, the one answered first has the smaller position *)
Lemma numbered_sorted l a b v p w q : numbered l = a ++ (v, p) :: b -> In (w, q) b -> p < q.
Proof.
  unfold numbered. intros H Hin.
  assert (G : forall (l : list Z) (o : Z) a b, combine l (map (fun j => o + Z.of_nat j) (seq 0 (length l))) = a ++ (v, p) :: b -> In (w, q) b -> p < q).
  { clear. induction l as [|x l IH]; intros o a b H Hin.
    - cbn in H. destruct a; discriminate.
    - cbn [length seq map combine] in H. rewrite <- seq_shift, map_map in H.
      destruct a as [|y a].
      + cbn in H. injection H as <- <- <-.
        assert (Hq : forall l (k : nat), In (w, q) (combine l (map (fun j => o + Z.of_nat (S j)) (seq k (length l)))) -> o + Z.of_nat k < q).
        { clear. induction l as [|x l IH]; intros k H; [destruct H|]. cbn in H. destruct H as [H|H]; [injection H as _ <-; lia|].
          specialize (IH (S k) H). lia. }
        specialize (Hq l 0%nat Hin). lia.
      + cbn in H. injection H as _ H.
        apply (IH (o + 1) a b); [|exact Hin]. rewrite <- H. f_equal. apply map_ext. intros j. lia. }
  apply (G l 0 a b H Hin).
Qed.

Theorem publication_order evs a b v p w q :
  pubs (llog (fold_left lexec evs linit)) = a ++ (v, p) :: b -> In (w, q) b -> p < q.
Proof. rewrite pubs_are_the_log. apply numbered_sorted. Qed.

(* ------------------------------------------------------------------------------ exact "empty" answers *)
Section Exact.
Variable own : nat -> nat.

Local Notation infl := (infl own).
Local Notation GF := (GF own).
Local Notation gots := gots.

Record HB (s : lst) : Prop := {
  hb_dyn : forall i, sk (subs s i) = SDyn -> shd (subs s i) - infl s i <= ctail s;
  hb_fix : forall i, sk (subs s i) = SFix -> shd (subs s i) - infl s i <= sfx (subs s i);
  hb_c2  : forall t i h, lthr s t = LC2 i h -> sk (subs s i) = SFix -> sfx (subs s i) <= h
}.

Lemma infl_upd_other s t p i pt ct sl sb l lv :
  own i <> t -> infl (lmk pt ct sl sb (upd (lthr s) t p) l lv) i = infl s i.
Proof. intros H. unfold LogGapFree.infl. cbn [lthr lmk]. now rewrite upd_other. Qed.
Lemma infl_upd_same s t p i pt ct sl sb l lv :
  own i = t -> infl (lmk pt ct sl sb (upd (lthr s) t p) l lv) i = cinfl p i.
Proof. intros H. unfold LogGapFree.infl. cbn [lthr lmk]. rewrite H, upd_same. reflexivity. Qed.
Lemma infl_is s t i : own i = t -> infl s i = cinfl (lthr s t) i.
Proof. intros <-. reflexivity. Qed.

(* steps that touch neither the subscribers nor anybody's engagement in a consume *)
Lemma hb_update s t p' l' pt ct sl lv :
  HB s -> ctail s <= ct ->
  (forall i, cinfl p' i = cinfl (lthr s t) i) ->
  (forall i h, p' = LC2 i h -> lthr s t = LC2 i h \/ sk (subs s i) <> SFix) ->
  HB (lmk pt ct sl (subs s) (upd (lthr s) t p') l' lv).
Proof.
  intros [Hd Hf Hc] Hct Hi H2.
  assert (Hinfl : forall i, infl (lmk pt ct sl (subs s) (upd (lthr s) t p') l' lv) i = infl s i).
  { intros i. destruct (Nat.eq_dec (own i) t) as [E|E]; [|now apply infl_upd_other].
    rewrite (infl_upd_same s t p' i) by exact E. rewrite (infl_is s t i E). apply Hi. }
  constructor; cbn [subs ctail lthr lmk].
  - intros i Hk. rewrite Hinfl. specialize (Hd i Hk). lia.
  - intros i Hk. rewrite Hinfl. now apply Hf.
  - intros u i h. upd_cases t u; [|apply Hc]. intros -> Hk. destruct (H2 i h eq_refl) as [E|E]; [now apply (Hc t)|contradiction].
Qed.

(* project the fields of an explicit `lmk` without unfolding it elsewhere *)
Ltac pl := repeat match goal with
  | |- context[subs (lmk ?a ?b ?c ?d ?e ?f ?g)] => change (subs (lmk a b c d e f g)) with d
  | |- context[ctail (lmk ?a ?b ?c ?d ?e ?f ?g)] => change (ctail (lmk a b c d e f g)) with b
  | |- context[lthr (lmk ?a ?b ?c ?d ?e ?f ?g)] => change (lthr (lmk a b c d e f g)) with e
  end.

Lemma hb_step s t : LInv s -> GF s -> HB s -> HB (lstep s t).
Proof.
  intros I G B. pose proof B as B0. destruct B as [Hd Hf Hc]. unfold lstep. destruct (lthr s t) eqn:E.
  - exact B0.
  - apply hb_update; auto; try lia; [intros j; rewrite E; reflexivity|discriminate].
  - apply hb_update; auto; try lia; [intros j; rewrite E; reflexivity|discriminate].
  - destruct (ctail s =? pos) eqn:Ec; [|exact B0]. apply Z.eqb_eq in Ec.
    apply hb_update; auto; try lia; [intros j; rewrite E; reflexivity|discriminate].
  - (* LC0 *)
    assert (Ht : t = own i) by (apply (gf_own _ _ G t i); rewrite E; reflexivity).
    cbv zeta. set (h := shd (subs s i)).
    set (next := match sk (subs s i) with SFix => if sfx (subs s i) <=? h then LC2 i h else LC3 i h | _ => LC1 i h end).
    assert (Hco : consuming next = Some (i, h)) by (subst next; destruct (sk (subs s i)); try destruct (_ <=? _); reflexivity).
    assert (H2 : forall j g, next = LC2 j g -> j = i /\ g = h /\ sk (subs s i) = SFix /\ sfx (subs s i) <= h).
    { subst next. intros j g. destruct (sk (subs s i)) eqn:Ek; try discriminate.
      destruct (Z.leb_spec (sfx (subs s i)) h); [|discriminate]. intros [= <- <-]. auto. }
    clearbody next.
    assert (Hinfl_i : infl (lmk (ptail s) (ctail s) (slots s) (upd (subs s) i (set_head (subs s i) (h + 1))) (upd (lthr s) t next) (llog s) (logv s)) i = 1
                      /\ infl s i = 0).
    { split; [rewrite (infl_upd_same s t next i) by auto; unfold cinfl; now rewrite Hco, Nat.eqb_refl|].
      rewrite (infl_is s t i) by auto. now rewrite E. }
    assert (Hinfl_j : forall j, j <> i -> infl (lmk (ptail s) (ctail s) (slots s) (upd (subs s) i (set_head (subs s i) (h + 1))) (upd (lthr s) t next) (llog s) (logv s)) j = infl s j).
    { intros j Hj. destruct (Nat.eq_dec (own j) t) as [Eo|Eo]; [|now apply infl_upd_other].
      rewrite (infl_upd_same s t next j) by auto. rewrite (infl_is s t j Eo), E. unfold cinfl. rewrite Hco. cbn.
      destruct (Nat.eqb_spec i j); [congruence|reflexivity]. }
    constructor; pl.
    + intros j. upd_cases i j.
      * cbn [sk shd set_head]. intros Hk. destruct Hinfl_i as [-> Hz]. specialize (Hd i Hk). rewrite Hz in Hd. subst h. lia.
      * intros Hk. rewrite Hinfl_j by auto. now apply Hd.
    + intros j. upd_cases i j.
      * cbn [sk shd sfx set_head]. intros Hk. destruct Hinfl_i as [-> Hz]. specialize (Hf i Hk). rewrite Hz in Hf. subst h. lia.
      * intros Hk. rewrite Hinfl_j by auto. now apply Hf.
    + intros u j g. upd_cases t u.
      * intros Hn. destruct (H2 j g Hn) as (-> & -> & Hk & Hle). rewrite upd_same. cbn. auto.
      * intros Hu. upd_cases i j; [cbn [sk sfx set_head]|]; now apply (Hc u).
  - (* LC1 *)
    assert (Hnf : sk (subs s i) <> SFix) by (apply (l_c1 _ I t i h); exact E).
    apply hb_update; auto; try lia.
    + intros j. rewrite E. destruct (ctail s <=? h); reflexivity.
    + intros j g. destruct (ctail s <=? h); [|discriminate]. intros [= <- <-]. now right.
  - (* LC2: the recede *)
    assert (Ht : t = own i) by (apply (gf_own _ _ G t i); rewrite E; reflexivity).
    assert (Hh : shd (subs s i) = h + 1) by (apply (gf_h _ _ G t i h); rewrite E; reflexivity).
    rewrite Hh, Z.eqb_refl.
    assert (Hinfl_i : infl (lmk (ptail s) (ctail s) (slots s) (upd (subs s) i (set_head (subs s i) h)) (upd (lthr s) t LIdle) (llog s ++ [(t, LNone i)]) (logv s)) i = 0
                      /\ infl s i = 1).
    { split; [rewrite (infl_upd_same s t LIdle i) by auto; reflexivity|].
      rewrite (infl_is s t i) by auto. rewrite E. unfold cinfl. cbn. now rewrite Nat.eqb_refl. }
    assert (Hinfl_j : forall j, j <> i -> infl (lmk (ptail s) (ctail s) (slots s) (upd (subs s) i (set_head (subs s i) h)) (upd (lthr s) t LIdle) (llog s ++ [(t, LNone i)]) (logv s)) j = infl s j).
    { intros j Hj. destruct (Nat.eq_dec (own j) t) as [Eo|Eo]; [|now apply infl_upd_other].
      rewrite (infl_upd_same s t LIdle j) by auto. rewrite (infl_is s t j Eo), E. unfold cinfl. cbn.
      destruct (Nat.eqb_spec i j); [congruence|reflexivity]. }
    constructor; pl.
    + intros j. upd_cases i j.
      * cbn [sk shd set_head]. intros Hk. destruct Hinfl_i as [-> Hz]. specialize (Hd i Hk). rewrite Hz in Hd. lia.
      * intros Hk. rewrite Hinfl_j by auto. now apply Hd.
    + intros j. upd_cases i j.
      * cbn [sk shd sfx set_head]. intros Hk. destruct Hinfl_i as [-> Hz]. specialize (Hf i Hk). rewrite Hz in Hf. lia.
      * intros Hk. rewrite Hinfl_j by auto. now apply Hf.
    + intros u j g. upd_cases t u; [discriminate|]. intros Hu. upd_cases i j; [cbn [sk sfx set_head]|]; now apply (Hc u).
  - (* LC3: the read *)
    assert (Ht : t = own i) by (apply (gf_own _ _ G t i); rewrite E; reflexivity).
    assert (Hh : shd (subs s i) = h + 1) by (apply (gf_h _ _ G t i h); rewrite E; reflexivity).
    destruct (l_read _ I t i h E) as [Hv Hfx].
    assert (Hinfl_j : forall j, j <> i -> infl (lmk (ptail s) (ctail s) (slots s) (subs s) (upd (lthr s) t LIdle) (llog s ++ [(t, LGot i h (slots s h))]) (logv s)) j = infl s j).
    { intros j Hj. destruct (Nat.eq_dec (own j) t) as [Eo|Eo]; [|now apply infl_upd_other].
      rewrite (infl_upd_same s t LIdle j) by auto. rewrite (infl_is s t j Eo), E. unfold cinfl. cbn.
      destruct (Nat.eqb_spec i j); [congruence|reflexivity]. }
    assert (Hinfl_i : infl (lmk (ptail s) (ctail s) (slots s) (subs s) (upd (lthr s) t LIdle) (llog s ++ [(t, LGot i h (slots s h))]) (logv s)) i = 0).
    { rewrite (infl_upd_same s t LIdle i) by auto. reflexivity. }
    constructor; pl.
    + intros j Hk. destruct (Nat.eq_dec j i) as [->|Hj]; [rewrite Hinfl_i; lia|rewrite Hinfl_j by auto; now apply Hd].
    + intros j Hk. destruct (Nat.eq_dec j i) as [->|Hj]; [rewrite Hinfl_i; specialize (Hfx Hk); lia|rewrite Hinfl_j by auto; now apply Hf].
    + intros u j g. upd_cases t u; [discriminate|apply (Hc u)].
  - apply hb_update; auto; try lia; [intros j; rewrite E; reflexivity|discriminate].
  - (* LSN2 *)
    assert (Hkk : 0 <= k <= ctail s) by (apply (l_k _ I t); rewrite E; reflexivity).
    assert (Hinfl : forall j sb l, infl (lmk (ptail s) (ctail s) (slots s) sb (upd (lthr s) t LIdle) l (logv s)) j = infl s j).
    { intros j sb l. destruct (Nat.eq_dec (own j) t) as [Eo|Eo]; [|now apply infl_upd_other].
      rewrite (infl_upd_same s t LIdle j) by auto. rewrite (infl_is s t j Eo), E. reflexivity. }
    constructor; pl.
    + intros j. rewrite Hinfl. destruct (sk (subs s i)) eqn:Ek; try apply Hd. upd_cases i j; [|apply Hd].
      cbn. intros _. pose proof (infl_range own s i). lia.
    + intros j. rewrite Hinfl. destruct (sk (subs s i)) eqn:Ek; try apply Hf. upd_cases i j; [discriminate|apply Hf].
    + intros u j g. upd_cases t u; [discriminate|]. intros Hu.
      destruct (sk (subs s i)) eqn:Ek; try apply (Hc u j g Hu). upd_cases i j; [discriminate|apply (Hc u j g Hu)].
  - apply hb_update; auto; try lia; [intros j0; rewrite E; reflexivity|discriminate].
  - apply hb_update; auto; try lia; [intros j0; rewrite E; reflexivity|discriminate].
  - (* LSS3 *)
    assert (Hkk : 0 <= k <= ctail s) by (apply (l_k _ I t); rewrite E; reflexivity).
    assert (Hinfl : forall j0 sb l, infl (lmk (ptail s) (ctail s) (slots s) sb (upd (lthr s) t LIdle) l (logv s)) j0 = infl s j0).
    { intros j0 sb l. destruct (Nat.eq_dec (own j0) t) as [Eo|Eo]; [|now apply infl_upd_other].
      rewrite (infl_upd_same s t LIdle j0) by auto. rewrite (infl_is s t j0 Eo), E. reflexivity. }
    constructor; pl.
    + intros j0. rewrite Hinfl. destruct (sk (subs s i)) eqn:Ei; try apply Hd. destruct (sk (subs s j)) eqn:Ej; try apply Hd.
      upd_cases j j0; [cbn; intros _; pose proof (infl_range own s j); lia|]. upd_cases i j0; [discriminate|apply Hd].
    + intros j0. rewrite Hinfl. destruct (sk (subs s i)) eqn:Ei; try apply Hf. destruct (sk (subs s j)) eqn:Ej; try apply Hf.
      upd_cases j j0; [discriminate|]. upd_cases i j0; [cbn; intros _; pose proof (infl_range own s i); lia|apply Hf].
    + intros u j0 g. upd_cases t u; [discriminate|]. intros Hu.
      destruct (l_cons _ I u j0 g) as [_ Hn]; [rewrite Hu; reflexivity|].
      destruct (sk (subs s i)) eqn:Ei; try apply (Hc u j0 g Hu). destruct (sk (subs s j)) eqn:Ej; try apply (Hc u j0 g Hu).
      upd_cases j j0; [congruence|]. upd_cases i j0; [congruence|apply (Hc u j0 g Hu)].
  - (* LSJ *)
    assert (Hinfl : forall j sb l, infl (lmk (ptail s) (ctail s) (slots s) sb (upd (lthr s) t LIdle) l (logv s)) j = infl s j).
    { intros j sb l. destruct (Nat.eq_dec (own j) t) as [Eo|Eo]; [|now apply infl_upd_other].
      rewrite (infl_upd_same s t LIdle j) by auto. rewrite (infl_is s t j Eo), E. reflexivity. }
    pose proof (l_ord _ I) as Ho.
    constructor; pl.
    + intros j. rewrite Hinfl. destruct (sk (subs s i)) eqn:Ek; try apply Hd. upd_cases i j; [|apply Hd].
      cbn. intros _. pose proof (infl_range own s i). lia.
    + intros j. rewrite Hinfl. destruct (sk (subs s i)) eqn:Ek; try apply Hf. upd_cases i j; [discriminate|apply Hf].
    + intros u j g. upd_cases t u; [discriminate|]. intros Hu.
      destruct (sk (subs s i)) eqn:Ek; try apply (Hc u j g Hu). upd_cases i j; [discriminate|apply (Hc u j g Hu)].
  - apply hb_update; auto; try lia; [intros j; rewrite E; reflexivity|discriminate].
Qed.

Lemma hb_start s t o : HB s -> HB (lstart s t o).
Proof.
  intros B. unfold lstart. destruct (lthr s t) eqn:E; try exact B.
  apply hb_update; auto; try lia.
  - intros i. rewrite E. destruct o; try reflexivity; try (destruct (sk _); try reflexivity; try destruct (sk _); try destruct (Nat.eqb _ _); reflexivity).
  - intros i h. destruct o; try discriminate; try (destruct (sk _); try discriminate; try destruct (sk _); try destruct (Nat.eqb _ _); discriminate).
Qed.

Lemma hb_init : HB linit.
Proof. constructor; cbn; try discriminate. Qed.

Theorem hb_reachable evs : Forall (wf_lev own) evs ->
  let s := fold_left lexec evs linit in LInv s /\ GF s /\ HB s.
Proof.
  intros H. assert (K : forall s, LInv s -> GF s -> HB s -> LInv (fold_left lexec evs s) /\ GF (fold_left lexec evs s) /\ HB (fold_left lexec evs s)).
  { induction H as [|e evs He Hr IH]; intros s I G B; [auto|]. cbn [fold_left]. apply IH.
    - destruct e; cbn; [now apply linv_step|now apply linv_start].
    - destruct e; cbn; [now apply gf_step|now apply gf_start].
    - destruct e; cbn; [now apply hb_step|now apply hb_start]. }
  apply K; [apply linv_init|apply gf_init|apply hb_init].
Qed.

(* a subscriber for new events about to be told "nothing there" has yielded every visible position *)
Theorem dyn_empty_answer_is_exact evs t i h : Forall (wf_lev own) evs ->
  let s := fold_left lexec evs linit in
  lthr s t = LC1 i h -> ctail s <= h ->
  h = ctail s /\ gots i (llog s) = zseq (sfrom (subs s i)) (Z.to_nat (ctail s - sfrom (subs s i))).
Proof.
  intros H s E Hle. destruct (hb_reachable evs H) as (I & G & B). fold s in I, G, B.
  assert (Ht : t = own i) by (apply (gf_own _ _ G t i); rewrite E; reflexivity).
  assert (Hh : shd (subs s i) = h + 1) by (apply (gf_h _ _ G t i h); rewrite E; reflexivity).
  destruct (l_cons _ I t i h) as [_ Hn]; [rewrite E; reflexivity|].
  pose proof (l_c1 _ I t i h E) as Hnf.
  assert (Hk : sk (subs s i) = SDyn) by (destruct (sk (subs s i)); congruence).
  assert (Hi : infl s i = 1) by (rewrite (infl_is s t i) by auto; rewrite E; unfold cinfl; cbn; now rewrite Nat.eqb_refl).
  pose proof (hb_dyn _ B i Hk) as Hb. rewrite Hh, Hi in Hb.
  assert (h = ctail s) by lia. split; [assumption|]. subst h.
  rewrite (gf_seq _ _ G i Hn), Hh, Hi. f_equal. lia.
Qed.

(* the "old events" stream about to be told "nothing there" (it then ends) has yielded exactly the positions below the split point *)
Theorem fix_empty_answer_is_exact evs t i h : Forall (wf_lev own) evs ->
  let s := fold_left lexec evs linit in
  lthr s t = LC2 i h -> sk (subs s i) = SFix ->
  h = sfx (subs s i) /\ gots i (llog s) = zseq (sfrom (subs s i)) (Z.to_nat (sfx (subs s i) - sfrom (subs s i))).
Proof.
  intros H s E Hk. destruct (hb_reachable evs H) as (I & G & B). fold s in I, G, B.
  assert (Ht : t = own i) by (apply (gf_own _ _ G t i); rewrite E; reflexivity).
  assert (Hh : shd (subs s i) = h + 1) by (apply (gf_h _ _ G t i h); rewrite E; reflexivity).
  assert (Hn : sk (subs s i) <> SNone) by congruence.
  assert (Hi : infl s i = 1) by (rewrite (infl_is s t i) by auto; rewrite E; unfold cinfl; cbn; now rewrite Nat.eqb_refl).
  pose proof (hb_fix _ B i Hk) as Hb. rewrite Hh, Hi in Hb. pose proof (hb_c2 _ B t i h E Hk) as Hc.
  assert (h = sfx (subs s i)) by lia. split; [assumption|].
  rewrite (gf_seq _ _ G i Hn), Hh, Hi. f_equal. lia.
Qed.

Lemma done_nonneg s i : LInv s -> GF s -> sfrom (subs s i) <= shd (subs s i) - infl s i.
Proof.
  intros I G. pose proof (l_sub _ I i) as Hs. unfold LogGapFree.infl.
  destruct (consuming (lthr s (own i))) as [[j h]|] eqn:Ec; [|lia].
  destruct (Nat.eqb_spec j i) as [->|]; [|lia].
  rewrite (gf_h _ _ G _ _ _ Ec). destruct (l_cons _ I _ _ _ Ec). lia.
Qed.

(* ... and it never yields a position at or above the split point, so what it has yielded when it ends is all it ever yields *)
Theorem fix_never_beyond evs i : Forall (wf_lev own) evs ->
  let s := fold_left lexec evs linit in
  sk (subs s i) = SFix -> exists n, gots i (llog s) = zseq (sfrom (subs s i)) n /\ Z.of_nat n <= sfx (subs s i) - sfrom (subs s i).
Proof.
  intros H s Hk. destruct (hb_reachable evs H) as (I & G & B). fold s in I, G, B.
  assert (Hn : sk (subs s i) <> SNone) by congruence.
  eexists. split; [apply (gf_seq _ _ G i Hn)|].
  pose proof (hb_fix _ B i Hk). pose proof (done_nonneg s i I G). lia.
Qed.

End Exact.
