(* Generic facts about the Uni channel machine: its queue component only ever moves by the queue's own start / step
   (so every queue theorem transfers to the channel), and the channel's responses are tied to the queue's. *)
From RM Require Import Chan.

Section ChanProps.
Variable Q : Type.
Variable qstep : Q -> nat -> Q.
Variable qstart : Q -> nat -> op -> Q.
Variable qidle : Q -> nat -> bool.
Variable qlog : Q -> list (nat * res).
Variable qobs : Q -> nat -> list Z.
Variable M k : nat.
Variable wake_rule : Z -> option nat.

Local Notation cst := (cst Q).
Local Notation cstep := (cstep Q qstep qstart qidle qlog M k wake_rule).
Local Notation cstart := (cstart Q qstart M).
Local Notation cexec := (cexec Q qstep qstart qidle qlog M k wake_rule).

Definition qexec (x : Q) (e : ev) : Q := match e with Step t => qstep x t | Start t o => qstart x t o end.

Lemma q_cancel_next (s : cst) t j : q Q (cancel_next Q M s t j) = q Q s.
Proof. unfold cancel_next. destruct (M <=? j)%nat; reflexivity. Qed.

(* one channel event = at most two queue events *)
Lemma q_cexec (s : cst) e : exists evs, q Q (cexec s e) = fold_left qexec evs (q Q s).
Proof.
  destruct e as [t|t o]; cbn.
  - unfold Chan.cstep. destruct (cthr Q s t) eqn:E.
    + exists []; reflexivity.
    + exists [Step t]. cbn. destruct (qidle _ t); [unfold after_send; destruct (qres _ _ _); try destruct (wake_rule _)|]; reflexivity.
    + exists []. destruct (wstep (m Q s) w) as [m' [w'|]]; reflexivity.
    + exists [Start t OpCons; Step t]. cbn. destruct (qidle _ t); [unfold after_cons; destruct (qres _ _ _)|]; reflexivity.
    + exists [Step t]. cbn. destruct (qidle _ t); [unfold after_cons; destruct (qres _ _ _)|]; reflexivity.
    + exists []. destruct (keep _ _); reflexivity.
    + exists []. destruct r; try reflexivity; [destruct (wakers _ _)|destruct (wlock _)]; reflexivity.
    + exists []. destruct (notified _ _); reflexivity.
    + exists []. destruct (j <? k)%nat; reflexivity.
    + exists []. reflexivity.
    + exists []. destruct (wstep (m Q s) w) as [m' [w'|]]; [reflexivity|]. now rewrite q_cancel_next.
    + exists [Step t]. cbn. destruct (qidle _ t); [destruct (qres _ _ _)|]; reflexivity.
  - unfold Chan.cstart. destruct (cthr Q s t); try (exists []; reflexivity).
    destruct o.
    + exists [Start t (OpPub v)]; reflexivity.
    + exists [Start t OpCons]; reflexivity.
    + exists []; reflexivity.
    + exists []. now rewrite q_cancel_next.
    + exists [Start t OpLen]; reflexivity.
Qed.

(* the queue state of any channel run is a reachable state of the queue machine *)
Theorem q_reachable q0 cevs :
  exists evs, q Q (fold_left cexec cevs (cinit Q k q0)) = fold_left qexec evs q0.
Proof.
  assert (G : forall s, exists evs, q Q (fold_left cexec cevs s) = fold_left qexec evs (q Q s)).
  { induction cevs as [|e cevs IH]; intros s; [exists []; reflexivity|].
    cbn [fold_left]. destruct (IH (cexec s e)) as [evs2 H2]. destruct (q_cexec s e) as [evs1 H1].
    exists (evs1 ++ evs2). rewrite fold_left_app, <- H1. exact H2. }
  destruct (G (cinit Q k q0)) as [evs H]. exists evs. exact H.
Qed.

End ChanProps.

(* ---------------------------------------------------------------------------------------------------------------
   Glue invariant: the channel's responses are exactly the queue's responses (under the component contract below,
   which both queue instances satisfy: RingGlue / FSGlue at the end of this file). *)
Definition cyields (l : list (nat * cres)) : list Z :=
  flat_map (fun e => match snd e with CYield _ v => [v] | _ => [] end) l.
Definition csendok (l : list (nat * cres)) : list Z :=
  flat_map (fun e => match snd e with CSendOk v => [v] | _ => [] end) l.
Definition csendfull (l : list (nat * cres)) : list Z :=
  flat_map (fun e => match snd e with CSendFull v => [v] | _ => [] end) l.

Lemma flat_map_snoc {A B} (f : A -> list B) l x : flat_map f (l ++ [x]) = flat_map f l ++ f x.
Proof. rewrite flat_map_app. cbn. now rewrite app_nil_r. Qed.

Section Glue.
Variable Q : Type.
Variable qstep : Q -> nat -> Q.
Variable qstart : Q -> nat -> op -> Q.
Variable qidle : Q -> nat -> bool.
Variable qlog : Q -> list (nat * res).
Variable M k : nat.
Variable wake_rule : Z -> option nat.
Variable qop : Q -> nat -> option op.

Hypothesis qidle_spec : forall x t, qidle x t = true <-> qop x t = None.
Hypothesis qstart_spec : forall x t o, qop x t = None ->
  qop (qstart x t o) t = Some o /\ qlog (qstart x t o) = qlog x /\ forall u, u <> t -> qop (qstart x t o) u = qop x u.
Hypothesis qstep_spec : forall x t o, qop x t = Some o ->
  (qop (qstep x t) t = Some o /\ qlog (qstep x t) = qlog x) \/
  (qop (qstep x t) t = None /\ exists r, qlog (qstep x t) = qlog x ++ [(t, r)] /\ matches o r).
Hypothesis qstep_other : forall x t u, u <> t -> qop (qstep x t) u = qop x u.

Local Notation cst := (cst Q).
Local Notation cstep := (cstep Q qstep qstart qidle qlog M k wake_rule).
Local Notation cstart := (cstart Q qstart M).
Local Notation cexec := (cexec Q qstep qstart qidle qlog M k wake_rule).

Definition expects (p : cpc) : option op :=
  match p with XSendQ v => Some (OpPub v) | XPollQ _ _ => Some OpCons | XLenQ => Some OpLen | _ => None end.
Definition inflight (s : cst) (v : Z) : Prop := exists t w, cthr Q s t = XSendW v w.

Record GI (s : cst) : Prop := {
  g_op   : forall t, qop (q Q s) t = expects (cthr Q s t);
  g_yld  : cyields (clog Q s) = yielded_of (qlog (q Q s));
  g_full : csendfull (clog Q s) = rejected_of (qlog (q Q s));
  g_ok   : forall v, In v (csendok (clog Q s)) \/ inflight s v -> In v (accepted_of (qlog (q Q s)));
  g_acc  : forall v, In v (accepted_of (qlog (q Q s))) -> In v (csendok (clog Q s)) \/ inflight s v
}.

Lemma qres_snoc x l t r : qlog x = l ++ [(t, r)] -> qres Q qlog x = r.
Proof. intros H. unfold qres. rewrite H, last_last. reflexivity. Qed.

Lemma yielded_snoc l t r : yielded_of (l ++ [(t, r)]) = yielded_of l ++ match r with RGot v => [v] | _ => [] end.
Proof. unfold yielded_of. now rewrite flat_map_snoc. Qed.
Lemma accepted_snoc l t r : accepted_of (l ++ [(t, r)]) = accepted_of l ++ match r with ROk v _ => [v] | _ => [] end.
Proof. unfold accepted_of. now rewrite flat_map_snoc. Qed.
Lemma rejected_snoc l t r : rejected_of (l ++ [(t, r)]) = rejected_of l ++ match r with RFull v => [v] | _ => [] end.
Proof. unfold rejected_of. now rewrite flat_map_snoc. Qed.

Ltac cs := cbn [q m cthr clog mk setpc finish] in *.

(* the general update lemma: thread t moves, possibly together with the queue and the logs *)
Lemma gi_update_gen (s : cst) t p th' x m' l' dy df da dk :
  GI s -> th' t = p -> (forall u, u <> t -> th' u = cthr Q s u) ->
  (forall u, u <> t -> qop x u = qop (q Q s) u) ->
  qop x t = expects p ->
  yielded_of (qlog x) = yielded_of (qlog (q Q s)) ++ dy -> cyields l' = cyields (clog Q s) ++ dy ->
  rejected_of (qlog x) = rejected_of (qlog (q Q s)) ++ df -> csendfull l' = csendfull (clog Q s) ++ df ->
  accepted_of (qlog x) = accepted_of (qlog (q Q s)) ++ da -> csendok l' = csendok (clog Q s) ++ dk ->
  (forall v, ((exists w, cthr Q s t = XSendW v w) \/ In v da) <-> ((exists w, p = XSendW v w) \/ In v dk)) ->
  GI (mk Q x m' th' l').
Proof.
  intros [Go Gy Gf Gk Ga] Hth1 Hth2 Hoth Hpt Hy Hcy Hf Hcf Ha Hck Hbal.
  unfold inflight in *. constructor; unfold inflight; cs.
  - intros u. destruct (Nat.eq_dec u t) as [->|Hn]; [rewrite Hth1; exact Hpt|rewrite Hth2, Hoth by assumption; apply Go].
  - rewrite Hcy, Hy, Gy. reflexivity.
  - rewrite Hcf, Hf, Gf. reflexivity.
  - intros v Hv. rewrite Ha, in_app_iff.
    assert (Hcases : (In v (csendok (clog Q s)) \/ (exists u w, u <> t /\ cthr Q s u = XSendW v w)) \/ ((exists w, p = XSendW v w) \/ In v dk)).
    { destruct Hv as [Hv|[u [w Hu]]].
      - rewrite Hck, in_app_iff in Hv. destruct Hv; [left; now left|right; now right].
      - destruct (Nat.eq_dec u t) as [->|Hn]; [rewrite Hth1 in Hu; right; left; now exists w|rewrite Hth2 in Hu by assumption; left; right; now exists u, w]. }
    destruct Hcases as [[H|[u [w [Hn Hu]]]]|H].
    + left. apply Gk. now left.
    + left. apply Gk. right. now exists u, w.
    + apply Hbal in H. destruct H as [[w Hw]|H]; [left; apply Gk; right; now exists t, w|now right].
  - intros v Hv. rewrite Ha, in_app_iff in Hv. rewrite Hck, in_app_iff.
    assert (Hcases : (In v (csendok (clog Q s)) \/ (exists u w, u <> t /\ cthr Q s u = XSendW v w)) \/ ((exists w, cthr Q s t = XSendW v w) \/ In v da)).
    { destruct Hv as [Hv|Hv]; [|right; now right].
      destruct (Ga v Hv) as [H|[u [w Hu]]]; [left; now left|].
      destruct (Nat.eq_dec u t) as [->|Hn]; [right; left; now exists w|left; right; now exists u, w]. }
    destruct Hcases as [[H|[u [w [Hn Hu]]]]|H].
    + left. now left.
    + right. exists u, w. now rewrite Hth2.
    + apply Hbal in H. destruct H as [[w Hw]|H]; [right; exists t, w; now rewrite Hth1|left; now right].
Qed.

Lemma gi_update (s : cst) t p x m' l' dy df da dk :
  GI s ->
  (forall u, u <> t -> qop x u = qop (q Q s) u) ->
  qop x t = expects p ->
  yielded_of (qlog x) = yielded_of (qlog (q Q s)) ++ dy -> cyields l' = cyields (clog Q s) ++ dy ->
  rejected_of (qlog x) = rejected_of (qlog (q Q s)) ++ df -> csendfull l' = csendfull (clog Q s) ++ df ->
  accepted_of (qlog x) = accepted_of (qlog (q Q s)) ++ da -> csendok l' = csendok (clog Q s) ++ dk ->
  (forall v, ((exists w, cthr Q s t = XSendW v w) \/ In v da) <-> ((exists w, p = XSendW v w) \/ In v dk)) ->
  GI (mk Q x m' (upd (cthr Q s) t p) l').
Proof.
  intros. eapply (gi_update_gen s t p (upd (cthr Q s) t p)); eauto; [apply upd_same|intros; now apply upd_other].
Qed.

Lemma cyields_snoc l t r : cyields (l ++ [(t, r)]) = cyields l ++ match r with CYield _ v => [v] | _ => [] end.
Proof. unfold cyields. now rewrite flat_map_snoc. Qed.
Lemma csendok_snoc l t r : csendok (l ++ [(t, r)]) = csendok l ++ match r with CSendOk v => [v] | _ => [] end.
Proof. unfold csendok. now rewrite flat_map_snoc. Qed.
Lemma csendfull_snoc l t r : csendfull (l ++ [(t, r)]) = csendfull l ++ match r with CSendFull v => [v] | _ => [] end.
Proof. unfold csendfull. now rewrite flat_map_snoc. Qed.

(* balance side condition of gi_update, for the usual shapes *)
Ltac bal := intros ?; split; intros [[? ?]|?]; try discriminate; try contradiction;
            try (match goal with H : _ = XSendW _ _ |- _ => injection H as <- end);
            cbn in *; auto; try tauto;
            try (left; eexists; reflexivity); try (right; left; reflexivity).

(* thread t takes a step that touches neither the queue nor the logs *)
Lemma gi_local (s : cst) t p m' :
  GI s -> expects (cthr Q s t) = None -> expects p = None ->
  (forall v, (exists w, cthr Q s t = XSendW v w) <-> (exists w, p = XSendW v w)) ->
  GI (mk Q (q Q s) m' (upd (cthr Q s) t p) (clog Q s)).
Proof.
  intros G He Hp Hb. apply (gi_update s t p (q Q s) m' (clog Q s) [] [] [] []); auto; try (now rewrite app_nil_r).
  - rewrite (g_op _ G), He, Hp. reflexivity.
  - intros v. specialize (Hb v). cbn. tauto.
Qed.
Lemma gi_local_log (s : cst) t p m' r :
  GI s -> expects (cthr Q s t) = None -> expects p = None ->
  (forall v w, cthr Q s t <> XSendW v w) -> (forall v w, p <> XSendW v w) ->
  match r with CSendOk _ | CSendFull _ | CYield _ _ => False | _ => True end ->
  GI (mk Q (q Q s) m' (upd (cthr Q s) t p) (clog Q s ++ [(t, r)])).
Proof.
  intros G He Hp H1 H2 Hr. apply (gi_update s t p (q Q s) m' _ [] [] [] []); auto; try (now rewrite app_nil_r).
  - rewrite (g_op _ G), He, Hp. reflexivity.
  - rewrite cyields_snoc. destruct r; try contradiction; reflexivity.
  - rewrite csendfull_snoc. destruct r; try contradiction; reflexivity.
  - rewrite csendok_snoc. destruct r; try contradiction; reflexivity.
  - intros v. split; intros [[w Hw]|[]]; exfalso; [eapply H1|eapply H2]; eassumption.
Qed.

Lemma gi_cancel_next (s : cst) t j :
  GI s -> expects (cthr Q s t) = None -> (forall v w, cthr Q s t <> XSendW v w) -> GI (cancel_next Q M s t j).
Proof.
  intros G He Hn. unfold cancel_next. destruct (M <=? j)%nat.
  - apply gi_local_log; auto; discriminate.
  - apply gi_local; auto. intros v. split; intros [w Hw]; [exfalso; eapply Hn; eassumption|discriminate].
Qed.

(* thread t's queue operation is still in progress after its step *)
Lemma gi_busy (s : cst) t o :
  GI s -> expects (cthr Q s t) = Some o ->
  qop (qstep (q Q s) t) t = Some o -> qlog (qstep (q Q s) t) = qlog (q Q s) ->
  GI (mk Q (qstep (q Q s) t) (m Q s) (cthr Q s) (clog Q s)).
Proof.
  intros G He Hx Hl.
  apply (gi_update_gen s t (cthr Q s t) (cthr Q s) _ (m Q s) (clog Q s) [] [] [] []); auto; rewrite ?Hl, ?app_nil_r; auto.
  - now rewrite Hx, He.
  - intros v. cbn. tauto.
Qed.

(* thread t's queue operation completes with response r *)
Lemma gi_done_send (s : cst) t v x r :
  GI s -> cthr Q s t = XSendQ v -> (forall u, u <> t -> qop x u = qop (q Q s) u) ->
  qop x t = None -> qlog x = qlog (q Q s) ++ [(t, r)] -> matches (OpPub v) r ->
  GI (after_send Q qlog wake_rule s x t v).
Proof.
  intros G E Hoth Hx Hl Hm. unfold after_send. rewrite (qres_snoc _ _ _ _ Hl).
  assert (Hnw : forall v0 w, cthr Q s t <> XSendW v0 w) by (rewrite E; discriminate).
  destruct r; cbn in Hm; try contradiction; subst.
  - (* RFull *)
    apply (gi_update s t XIdle x (m Q s) _ [] [v] [] []); auto;
      rewrite ?Hl, ?yielded_snoc, ?rejected_snoc, ?accepted_snoc, ?cyields_snoc, ?csendfull_snoc, ?csendok_snoc, ?app_nil_r; auto.
    intros v0. split; intros [[w Hw]|[]]; [exfalso; eapply Hnw; eassumption|discriminate].
  - (* ROk *)
    destruct (wake_rule len) as [i|].
    + apply (gi_update s t (XSendW v (W0 i)) x (m Q s) _ [] [] [v] []); auto;
        rewrite ?Hl, ?yielded_snoc, ?rejected_snoc, ?accepted_snoc, ?app_nil_r; auto.
      intros v0. split.
      * intros [[w Hw]|[<-|[]]]; [exfalso; eapply Hnw; eassumption|]. left. eexists; reflexivity.
      * intros [[w Hw]|[]]. injection Hw as <- _. right. now left.
    + apply (gi_update s t XIdle x (m Q s) _ [] [] [v] [v]); auto;
        rewrite ?Hl, ?yielded_snoc, ?rejected_snoc, ?accepted_snoc, ?cyields_snoc, ?csendfull_snoc, ?csendok_snoc, ?app_nil_r; auto.
      intros v0. split; intros [[w Hw]|H]; try (exfalso; eapply Hnw; eassumption); try discriminate; now right.
Qed.

Lemma gi_done_cons (s : cst) t i drv x r :
  GI s -> (forall v w, cthr Q s t <> XSendW v w) ->
  (forall u, u <> t -> qop x u = qop (q Q s) u) ->
  qop x t = None -> qlog x = qlog (q Q s) ++ [(t, r)] -> matches OpCons r ->
  GI (after_cons Q qlog s x t i drv).
Proof.
  intros G Hnw Hoth Hx Hl Hm. unfold after_cons. rewrite (qres_snoc _ _ _ _ Hl).
  destruct r; cbn in Hm; try contradiction.
  - (* REmpty *)
    apply (gi_update s t (XPollK i drv) x (m Q s) _ [] [] [] []); auto;
      rewrite ?Hl, ?yielded_snoc, ?rejected_snoc, ?accepted_snoc, ?app_nil_r; auto.
    intros v0. split; intros [[w Hw]|[]]; [exfalso; eapply Hnw; eassumption|discriminate].
  - (* RGot *)
    apply (gi_update s t (if drv then XDrive i else XIdle) x (m Q s) _ [v] [] [] []); auto;
      rewrite ?Hl, ?yielded_snoc, ?rejected_snoc, ?accepted_snoc, ?cyields_snoc, ?csendfull_snoc, ?csendok_snoc, ?app_nil_r; auto.
    + rewrite Hx. destruct drv; reflexivity.
    + intros v0. split; intros [[w Hw]|[]]; [exfalso; eapply Hnw; eassumption|destruct drv; discriminate].
Qed.

Lemma not_idle_false x t o : qop x t = Some o -> qidle x t = false.
Proof. intros H. destruct (qidle x t) eqn:E; auto. apply qidle_spec in E. congruence. Qed.
Lemma idle_true x t : qop x t = None -> qidle x t = true.
Proof. intros H. now apply qidle_spec. Qed.

Lemma gi_step (s : cst) t : GI s -> GI (cstep s t).
Proof.
  intros G. pose proof (g_op _ G t) as Ht. unfold Chan.cstep.
  destruct (cthr Q s t) eqn:E; cbn [expects] in Ht.
  - exact G.
  - (* XSendQ *)
    destruct (qstep_spec _ _ _ Ht) as [[Hb Hl]|[Hd [r [Hl Hm]]]].
    + rewrite (not_idle_false _ _ _ Hb). apply (gi_busy s t (OpPub v)); auto. now rewrite E.
    + rewrite (idle_true _ _ Hd). apply (gi_done_send s t v _ r); auto; intros u Hn; now apply qstep_other.
  - (* XSendW *)
    destruct (wstep (m Q s) w) as [m' [w'|]] eqn:Ew.
    + apply gi_local; auto; [now rewrite E|]. intros v0. rewrite E. split; intros [w0 Hw]; injection Hw as <-; eexists; reflexivity.
    + apply (gi_update s t XIdle (q Q s) m' _ [] [] [] [v]); auto; rewrite ?app_nil_r, ?cyields_snoc, ?csendfull_snoc, ?csendok_snoc, ?app_nil_r; auto.
      intros v0. rewrite E. split.
      * intros [[w0 Hw]|[]]. injection Hw as <- _. right. now left.
      * intros [[w0 Hw]|[<-|[]]]; [discriminate|]. left. eexists; reflexivity.
  - (* XDrive *)
    destruct (qstart_spec (q Q s) t OpCons Ht) as [Hs [Hsl Hso]].
    assert (Hnw : forall v w, cthr Q s t <> XSendW v w) by (rewrite E; discriminate).
    destruct (qstep_spec _ _ _ Hs) as [[Hb Hl]|[Hd [r [Hl Hm]]]].
    + rewrite (not_idle_false _ _ _ Hb).
      apply (gi_update s t (XPollQ i true) _ (m Q s) (clog Q s) [] [] [] []); auto; rewrite ?Hl, ?Hsl, ?app_nil_r; auto.
      * intros u Hn. rewrite qstep_other by assumption. now apply Hso.
      * intros v0. split; intros [[w Hw]|[]]; [exfalso; eapply Hnw; eassumption|discriminate].
    + rewrite (idle_true _ _ Hd). apply (gi_done_cons s t i true _ r); auto.
      * intros u Hn. rewrite qstep_other by assumption. now apply Hso.
      * now rewrite Hl, Hsl.
  - (* XPollQ *)
    assert (Hnw : forall v w, cthr Q s t <> XSendW v w) by (rewrite E; discriminate).
    destruct (qstep_spec _ _ _ Ht) as [[Hb Hl]|[Hd [r [Hl Hm]]]].
    + rewrite (not_idle_false _ _ _ Hb). apply (gi_busy s t OpCons); auto. now rewrite E.
    + rewrite (idle_true _ _ Hd). apply (gi_done_cons s t i drv _ r); auto.
  - (* XPollK *)
    assert (Hnw : forall v w, cthr Q s t <> XSendW v w) by (rewrite E; discriminate).
    destruct (keep (m Q s) i).
    + apply gi_local; auto; [now rewrite E|]. intros v0. split; intros [w Hw]; [exfalso; eapply Hnw; eassumption|discriminate].
    + apply gi_local_log; auto; [now rewrite E|discriminate].
  - (* XReg *)
    assert (Hnw : forall v w, cthr Q s t <> XSendW v w) by (rewrite E; discriminate).
    assert (Hloc : forall p m', expects p = None -> (forall v w, p <> XSendW v w) -> GI (mk Q (q Q s) m' (upd (cthr Q s) t p) (clog Q s))).
    { intros p m' Hp Hpn. apply gi_local; auto; [now rewrite E|]. intros v0. split; intros [w Hw]; exfalso; [eapply Hnw|eapply Hpn]; eassumption. }
    destruct r.
    + destruct (wakers (m Q s) i).
      * apply gi_local_log; auto; [now rewrite E|destruct drv; reflexivity|destruct drv; discriminate].
      * apply Hloc; [reflexivity|discriminate].
    + destruct (wlock (m Q s)); [exact G|]. apply Hloc; [reflexivity|discriminate].
    + apply Hloc; [reflexivity|discriminate].
    + apply Hloc; [reflexivity|discriminate].
    + apply gi_local_log; auto; [now rewrite E|destruct drv; reflexivity|destruct drv; discriminate].
  - (* XParked *)
    assert (Hnw : forall v w, cthr Q s t <> XSendW v w) by (rewrite E; discriminate).
    destruct (notified (m Q s) i); [|exact G].
    apply gi_local; auto; [now rewrite E|]. intros v0. split; intros [w Hw]; [exfalso; eapply Hnw; eassumption|discriminate].
  - (* XCancelU *)
    assert (Hnw : forall v w, cthr Q s t <> XSendW v w) by (rewrite E; discriminate).
    destruct (j <? k)%nat.
    + apply gi_local; auto; [now rewrite E|]. intros v0. split; intros [w Hw]; [exfalso; eapply Hnw; eassumption|discriminate].
    + apply gi_local_log; auto; [now rewrite E|discriminate].
  - (* XCancelK *)
    assert (Hnw : forall v w, cthr Q s t <> XSendW v w) by (rewrite E; discriminate).
    apply gi_local; auto; [now rewrite E|]. intros v0. split; intros [w Hw]; [exfalso; eapply Hnw; eassumption|discriminate].
  - (* XCancelW *)
    assert (Hnw : forall v w, cthr Q s t <> XSendW v w) by (rewrite E; discriminate).
    destruct (wstep (m Q s) w) as [m' [w'|]] eqn:Ew.
    + apply gi_local; auto; [now rewrite E|]. intros v0. split; intros [w0 Hw]; [exfalso; eapply Hnw; eassumption|discriminate].
    + apply gi_cancel_next; cs.
      * destruct G as [Go Gy Gf Gk Ga]. constructor; cs; auto.
      * now rewrite E.
      * exact Hnw.
  - (* XLenQ *)
    assert (Hnw : forall v w, cthr Q s t <> XSendW v w) by (rewrite E; discriminate).
    destruct (qstep_spec _ _ _ Ht) as [[Hb Hl]|[Hd [r [Hl Hm]]]].
    + rewrite (not_idle_false _ _ _ Hb). apply (gi_busy s t OpLen); auto. now rewrite E.
    + rewrite (idle_true _ _ Hd). rewrite (qres_snoc _ _ _ _ Hl).
      destruct r; cbn in Hm; try contradiction.
      apply (gi_update s t XIdle _ (m Q s) _ [] [] [] []); auto;
        rewrite ?Hl, ?yielded_snoc, ?rejected_snoc, ?accepted_snoc, ?cyields_snoc, ?csendfull_snoc, ?csendok_snoc, ?app_nil_r; auto.
      intros v0. split; intros [[w Hw]|[]]; [exfalso; eapply Hnw; eassumption|discriminate].
Qed.

Lemma gi_start (s : cst) t o : GI s -> GI (cstart s t o).
Proof.
  intros G. pose proof (g_op _ G t) as Ht. unfold Chan.cstart.
  destruct (cthr Q s t) eqn:E; try exact G. cbn [expects] in Ht.
  assert (Hnw : forall v w, cthr Q s t <> XSendW v w) by (rewrite E; discriminate).
  assert (Hq : forall o' p, expects p = Some o' -> (forall v w, p <> XSendW v w) ->
               GI (mk Q (qstart (q Q s) t o') (m Q s) (upd (cthr Q s) t p) (clog Q s))).
  { intros o' p Hp Hpn. destruct (qstart_spec (q Q s) t o' Ht) as [Hs [Hsl Hso]].
    apply (gi_update s t p _ (m Q s) (clog Q s) [] [] [] []); auto; rewrite ?Hsl, ?app_nil_r; auto.
    - now rewrite Hs, Hp.
    - intros v0. split; intros [[w Hw]|[]]; exfalso; [eapply Hnw|eapply Hpn]; eassumption. }
  destruct o.
  - apply (Hq (OpPub v)); [reflexivity|discriminate].
  - apply (Hq OpCons); [reflexivity|discriminate].
  - apply gi_local; auto; [now rewrite E|]. intros v0. split; intros [w Hw]; [exfalso; eapply Hnw; eassumption|discriminate].
  - apply gi_cancel_next; auto. now rewrite E.
  - apply (Hq OpLen); [reflexivity|discriminate].
Qed.

Lemma gi_init q0 : (forall t, qop q0 t = None) -> qlog q0 = [] -> GI (cinit Q k q0).
Proof.
  intros H0 Hl. constructor; cbn; rewrite ?Hl; auto.
  intros v [[]|[t [w Hw]]]. discriminate.
Qed.

Theorem gi_reachable q0 cevs :
  (forall t, qop q0 t = None) -> qlog q0 = [] -> GI (fold_left cexec cevs (cinit Q k q0)).
Proof.
  intros H0 Hl. apply fold_inv; [|now apply gi_init].
  intros s e G. destruct e; cbn; [now apply gi_step|now apply gi_start].
Qed.

End Glue.
