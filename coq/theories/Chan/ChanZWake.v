(* C04 / C07 for the zero-copy full-sync Uni channel as run by the correspondence check: UniWakeZ.v instantiated with the channel's
   real initial state (the payload pool's free list filled with the N slot ids by `new()`, the id ring empty). *)
From RM Require Import RingModel FullSync Chan PoolRun ZeroCopy ZcUni ZcSolo ChanZ ChanZProps ChanZInst UniWakeZ.
Import ZC.

Section ChanZWake.
Variable N : Z.
Variable M k : nat.
Hypothesis kpos : (0 < k)%nat.
Hypothesis kM : (k <= M)%nat.

Lemma zcf_good : good_q0 (zcf_q0 N).
Proof.
  split; [|reflexivity]. intros t. split; [reflexivity|]. reflexivity.
Qed.

Theorem zcf_no_lost_wakeup cevs : Forall (wf_ev k) cevs -> ~ lost k (zcf_run N M k (wake_rule_fullsync M) cevs).
Proof. intros H. apply (no_lost_wakeup N M k kpos kM (zcf_q0 N) cevs zcf_good H). Qed.

Theorem zcf_cancel_terminates cevs i : Forall (wf_ev k) cevs -> (i < k)%nat -> ~ stuck_cancelled k (zcf_run N M k (wake_rule_fullsync M) cevs) i.
Proof. intros H Hi. apply (cancel_terminates N M k kpos kM (zcf_q0 N) cevs i zcf_good H Hi). Qed.

End ChanZWake.
