(* C20, positive half for the zero-copy ATOMIC Uni channel: the theorems of Alloc/ZcSoloA.v inside every run of the channel machine
   (ChanZ.v over ZcUni.v over two lock-free rings).  Whenever both rings are calm - every thread Idle in them or standing before the
   first access of a publication, which is how a producer SUSPENDED inside send_with_async looks - an idle thread's consume is over
   within 4 of its own steps, its send within 8, the release of a handle within 4: a suspended send_with_async blocks nobody. *)
From RM Require Import RingModel RingInv RingProps RingCov RingSolo FullSync Chan PoolRun ZeroCopy ZcUni ChanZ ChanZProps ChanZInst ZcSoloA.
Import ZC.

Section ZcAtomicCalm.
Variable N : Z.
Hypothesis Npos : 0 < N.
Variable M k : nat.
Variable wake_rule : Z -> option nat.
Local Notation ust := (ust st).
Local Notation zrun := (zc_run N M k wake_rule).

(* `new()` leaves every thread idle in the free list *)
Lemma pfill_quiescent ids x :
  reach N x -> (forall u, thr x u = Idle) -> tail x - head x + Z.of_nat (length ids) <= N ->
  forall u, thr (pfill st (stepZ N) start x ids 0) u = Idle.
Proof.
  revert x. induction ids as [|v ids IH]; intros x R Q Hlen; [exact Q|].
  cbn [pfill]. cbn [length] in Hlen.
  assert (Cx : calm x) by (intros u; left; apply Q).
  pose proof (calm_send_accepted N Npos x 0%nat v R Cx (Q 0%nat) ltac:(lia)) as G. cbn zeta in G.
  destruct G as (_ & _ & _ & G4 & _ & G6 & G7 & _ & G9 & _).
  cbn [Nat.iter nat_rect].
  set (x4 := stepZ N (stepZ N (stepZ N (stepZ N (start x 0%nat (OpPub v)) 0%nat) 0%nat) 0%nat) 0%nat) in *.
  rewrite !(step_idle_noop N x4 0%nat G4).
  apply IH.
  - unfold x4. repeat apply reach_step. apply reach_start. exact R.
  - intros u. destruct (Nat.eq_dec u 0) as [->|Hn]; [exact G4|rewrite (G9 u Hn); apply Q].
  - lia.
Qed.

Lemma ci_init : CI (zc_q0 N).
Proof.
  intros t. unfold phase_ok. cbn [uthr zc_q0 ua ub]. split; [|reflexivity].
  unfold zc_fl0. apply pfill_quiescent; [exists []; reflexivity|reflexivity|].
  unfold ids_upto. rewrite map_length, seq_length. cbn [init init_at head tail]. lia.
Qed.

(* a thread is idle in the component it is not inside - in every state of every run of the channel *)
Theorem zc_phase_invariant cevs : CI (q _ (zrun cevs)).
Proof.
  apply (zc_q_invariant st (stepZ N) start ring_idle0 log true (fun _ => 0) M k wake_rule CI
           (ci_step N) ci_start ci_release (zc_q0 N) cevs ci_init).
Qed.

(* rings calm + the thread not inside a queue operation = `ready` *)
Theorem zc_calm_ready cevs t :
  let s := q _ (zrun cevs) in
  calm (ua _ s) -> calm (ub _ s) -> uthr _ s t = UIdle -> ready N s t.
Proof.
  intros s Ca Cb Hi.
  pose proof (zc_phase_invariant cevs t) as P. fold s in P. unfold phase_ok in P. rewrite Hi in P. destruct P as [Pa Pb].
  destruct (zc_atomic_free_list_is_a_ring_run N M k wake_rule cevs) as [ea Ea].
  destruct (zc_atomic_id_ring_is_a_ring_run N M k wake_rule cevs) as [eb Eb].
  repeat split; auto; [exists ea; exact Ea|exists eb; exact Eb].
Qed.

(* C20 for the zero-copy atomic channel.  In any state of any run of the channel in which both rings are calm, a thread t that is
   not inside a queue operation runs each of its operations alone to completion in a fixed number of its own steps:
     consume   4 (an id is there: the payload of the oldest one) / 3 (empty);
     send      8 (slot allocated: 4, id published: 4) / 3 (no free slot) / 7 (the unreachable "id ring full" branch);
     release   4 (3 in the unreachable "free list full" branch);
   not before; with exactly that response appended to the log; with every other thread - in particular every suspended producer - left
   exactly where it was in the composite and in both rings; and the state it ends in is `ready` again. *)
Theorem zca_suspended_send_blocks_nobody cevs t :
  let s := q _ (zrun cevs) in
  calm (ua _ s) -> calm (ub _ s) -> uthr _ s t = UIdle ->
  calm_progress N s t /\
  (exists n r, (n <= 4)%nat /\ completes N s (astart s t OpCons) n t (Some r) /\ matches OpCons r) /\
  (forall v, exists n r, (n <= 8)%nat /\ completes N s (astart s t (OpPub v)) n t (Some r) /\ matches (OpPub v) r) /\
  (forall id, uheld _ s t = Some id -> exists n, (n <= 4)%nat /\ completes N s (arelease s t) n t None).
Proof.
  intros s Ca Cb Hi. pose proof (zc_calm_ready cevs t Ca Cb Hi) as R. fold s in R.
  split; [now apply ready_calm_progress|now apply ready_blocks_nobody].
Qed.

(* the same, with the hypothesis spelled out: every thread is idle in both rings or is a suspended producer *)
Corollary zca_idle_or_suspended_blocks_nobody cevs t :
  let s := q _ (zrun cevs) in
  (forall u, (thr (ua _ s) u = Idle /\ thr (ub _ s) u = Idle) \/ suspended s u) -> uthr _ s t = UIdle ->
  calm_progress N s t /\
  (exists n r, (n <= 4)%nat /\ completes N s (astart s t OpCons) n t (Some r) /\ matches OpCons r) /\
  (forall v, exists n r, (n <= 8)%nat /\ completes N s (astart s t (OpPub v)) n t (Some r) /\ matches (OpPub v) r) /\
  (forall id, uheld _ s t = Some id -> exists n, (n <= 4)%nat /\ completes N s (arelease s t) n t None).
Proof.
  intros s H Hi. destruct (calm_of_idle_or_suspended s H) as [Ca Cb]. now apply zca_suspended_send_blocks_nobody.
Qed.

(* and the suspended producer itself, resumed while the rings are calm and the id ring has room, is done after 4 own steps *)
Theorem zca_suspended_send_resumes cevs t v id :
  let s := q _ (zrun cevs) in
  calm (ua _ s) -> calm (ub _ s) ->
  uthr _ s t = UEnqB v id -> thr (ub _ s) t = P0 id -> thr (ua _ s) t = Idle -> tail (ub _ s) - head (ub _ s) < N ->
  completes N s s 4 t (Some (ROk v (tail (ub _ s) - head (ub _ s) + 1))).
Proof.
  intros s Ca Cb Hu Hb Ha Hroom.
  destruct (zc_atomic_free_list_is_a_ring_run N M k wake_rule cevs) as [ea Ea].
  destruct (zc_atomic_id_ring_is_a_ring_run N M k wake_rule cevs) as [eb Eb].
  assert (Ra : reach N (ua _ s)) by (exists ea; exact Ea). assert (Rb : reach N (ub _ s)) by (exists eb; exact Eb).
  destruct (zca_resume N Npos s t v id Ra Rb Ca Cb Hu Hb Ha Hroom) as (K & L & _ & _ & _ & _ & _ & _ & R' & O).
  unfold completes. cbn zeta in *. auto.
Qed.

End ZcAtomicCalm.

(* non-vacuity: a channel run in which thread 0's send has allocated its slot and stands before the publication of the id (what a
   suspended send_with_async looks like): it is `suspended`, both rings are calm, thread 1 is idle - the hypotheses hold; thread 1's
   send, run alone from there, is over after 8 steps (and not after 7) while thread 0 still has not moved; thread 0, resumed then, is
   over after 4 *)
Example zca_nonvacuous :
  let s := q _ (zc_run 4 1 1 (wake_rule_atomic 1) [CStart 0 (CoSend 7); CStep 0; CStep 0; CStep 0; CStep 0]) in
  suspended s 0 /\ calm (ua _ s) /\ calm (ub _ s) /\ uthr _ s 1%nat = UIdle /\
  let s' := asolo 4 8 (astart s 1%nat (OpPub 8)) 1%nat in
  uthr _ (asolo 4 7 (astart s 1%nat (OpPub 8)) 1%nat) 1%nat <> UIdle /\
  uthr _ s' 1%nat = UIdle /\ map snd (ulog _ s') = [ROk 8 1] /\ suspended s' 0 /\
  map snd (ulog _ (asolo 4 4 s' 0%nat)) = [ROk 8 1; ROk 7 2].
Proof.
  split; [exists 7, 0; vm_compute; repeat split; reflexivity|].
  split; [intros u; destruct u as [|[|u]]; vm_compute; now left|].
  split; [intros u; destruct u as [|[|u]]; vm_compute; first [now left|right; eexists; reflexivity]|].
  split; [reflexivity|].
  split; [vm_compute; discriminate|]. split; [vm_compute; reflexivity|]. split; [vm_compute; reflexivity|].
  split; [exists 7, 0; vm_compute; repeat split; reflexivity|vm_compute; reflexivity].
Qed.

Print Assumptions zca_suspended_send_blocks_nobody.
Print Assumptions zca_idle_or_suspended_blocks_nobody.
Print Assumptions zca_suspended_send_resumes.
