(* C03's core for the arc / full-sync Multi channel (MultiFS.v): while the set of listeners does not change, every send that
   reported success has published its event into the full-sync ring of EVERY live listener - for every interleaving of any
   number of producers and pollers.  Port of FanOut.v (same invariant, same argument); "accepted by the ring" = the ring answered
   ROk in its response log (accepted_of (flog r)); fanout_complete_published restates it for the ghost list fpublished r - the
   list FullSync.fs_yielded_prefix / MultiFSProps.listener_exactly_once speak about - on rings satisfying FullSync.FInv. *)
From RM Require Import RingModel FullSync Chan Multi MultiFS MultiFSProps.
From RM Require MultiProps.
Import MFS.

(* ---- the full-sync ring machine: the call a thread is in, and its response (counterparts of RingProps) ---- *)
Definition fop_of_pc (p : fpc) : option op :=
  match p with
  | FIdle => None
  | FPL v | FPU v _ => Some (OpPub v)
  | FCL | FCU _ => Some OpCons
  | FLN => Some OpLen
  end.

Lemma fstart_sets_call s t o : fthr s t = FIdle -> fop_of_pc (fthr (fstart s t o) t) = Some o.
Proof. intros H. unfold fstart. rewrite H. cbn. rewrite upd_same. destruct o; reflexivity. Qed.

Lemma fs_response_matches_call N s t o :
  fop_of_pc (fthr s t) = Some o ->
  (fop_of_pc (fthr (fstepZ N s t) t) = Some o /\ flog (fstepZ N s t) = flog s) \/
  (fthr (fstepZ N s t) t = FIdle /\ exists r, flog (fstepZ N s t) = flog s ++ [(t, r)] /\ matches o r).
Proof.
  unfold fstepZ, fstep, idz. intros H.
  destruct (fthr s t) eqn:E; cbn in H; try discriminate; injection H as <-;
  repeat match goal with |- context[if ?b then _ else _] => destruct b end;
  cbn [fthr flog]; rewrite ?upd_same;
  try (left; split; [first [reflexivity | rewrite E; reflexivity] | reflexivity]);
  right; (split; [reflexivity|]); eexists; (split; [reflexivity|]);
  try match goal with r : option Z |- _ => destruct r end; cbn; auto.
Qed.

Lemma fstep_other_threads N s t u : u <> t -> fthr (fstepZ N s t) u = fthr s u.
Proof.
  intros H. unfold fstepZ, fstep. destruct (fthr s t); try reflexivity;
  repeat match goal with |- context[if ?b then _ else _] => destruct b end; cbn [fthr]; rewrite ?upd_other by assumption; reflexivity.
Qed.

Section FanOutFS.
Variable N : Z.
Variable M : nat.
Local Notation mev := (MultiFSProps.mev).
Local Notation mexec := (MultiFSProps.mexec N M).
Local Notation rstep := (fstepZ N).
Local Notation stepped := MultiProps.stepped.

Definition mtid (e : mev) : nat := match e with MStep t => t | MStart t _ => t end.

Definition acc (s : mst) (i : nat) : list Z := accepted_of (flog (rings s i)).

(* ---- the ring's log only grows ---- *)
Lemma step_log_extends x u : exists l, flog (rstep x u) = flog x ++ l.
Proof.
  destruct (fop_of_pc (fthr x u)) as [o|] eqn:E.
  - destruct (fs_response_matches_call N x u o E) as [[_ H]|[_ [r [H _]]]]; [exists []; now rewrite app_nil_r|exists [(u, r)]; exact H].
  - exists []. rewrite app_nil_r. unfold fstepZ, fstep. destruct (fthr x u); cbn in E; try discriminate. reflexivity.
Qed.
Lemma start_log x u o : flog (fstart x u o) = flog x.
Proof. unfold fstart. destruct (fthr x u); reflexivity. Qed.
Lemma exec_log_extends x e : exists l, flog (fexecZ N x e) = flog x ++ l.
Proof. destruct e as [u|u o]; cbn; [apply step_log_extends|exists []; now rewrite app_nil_r, start_log]. Qed.
Lemma execs_log_extends evs x : exists l, flog (fold_left (fexecZ N) evs x) = flog x ++ l.
Proof.
  revert x. induction evs as [|e evs IH]; intros x; cbn [fold_left]; [exists []; now rewrite app_nil_r|].
  destruct (IH (fexecZ N x e)) as [l2 H2]. destruct (exec_log_extends x e) as [l1 H1]. exists (l1 ++ l2). rewrite H2, H1. now rewrite app_assoc.
Qed.
Lemma accepted_of_app l1 l2 : accepted_of (l1 ++ l2) = accepted_of l1 ++ accepted_of l2.
Proof. unfold accepted_of. apply flat_map_app. Qed.

(* what a listener's ring accepted is never taken back, whatever happens in the channel *)
Lemma acc_mono s e i v : In v (acc s i) -> In v (acc (mexec s e) i).
Proof.
  unfold acc. intros H. destruct (ring_mexec N M s e i) as [evs ->]. destruct (execs_log_extends evs (rings s i)) as [l ->].
  rewrite accepted_of_app. apply in_or_app. now left.
Qed.


(* ---- events of thread t only touch thread t's locals in every ring ---- *)
Lemma start_other x t u o : u <> t -> fthr (fstart x t o) u = fthr x u.
Proof. intros H. unfold fstart, fset. destruct (fthr x t); cbn; rewrite ?upd_other by assumption; reflexivity. Qed.
Lemma exec_other x e u : (match e with Step t => t | Start t _ => t end) <> u -> fthr (fexecZ N x e) u = fthr x u.
Proof. destruct e as [t|t o]; cbn; intros H; [apply fstep_other_threads|apply start_other]; congruence. Qed.

Definition etid (e : ev) : nat := match e with Step t => t | Start t _ => t end.
Lemma execs_other evs x t u : Forall (fun e => etid e = t) evs -> u <> t -> fthr (fold_left (fexecZ N) evs x) u = fthr x u.
Proof.
  intros H Hne. revert x. induction H as [|e evs He Hr IH]; intros x; cbn [fold_left]; [reflexivity|].
  rewrite IH. apply exec_other. unfold etid in He. destruct e; congruence.
Qed.

Lemma ring_mexec_tid s e i : exists evs, rings (mexec s e) i = fold_left (fexecZ N) evs (rings s i) /\ Forall (fun x => etid x = mtid e) evs.
Proof.
  assert (Hupd : forall t (x : fsst) j evs, x = fold_left (fexecZ N) evs (rings s j) -> Forall (fun y => etid y = t) evs ->
            exists evs', upd (rings s) j x i = fold_left (fexecZ N) evs' (rings s i) /\ Forall (fun y => etid y = t) evs').
  { intros t x j evs Hx Hf. unfold upd. destruct (Nat.eqb_spec i j) as [->|]; [exists evs; split; assumption|exists []; split; [reflexivity|constructor]]. }
  assert (Nil : forall t, exists evs, rings s i = fold_left (fexecZ N) evs (rings s i) /\ Forall (fun y => etid y = t) evs) by (intros t; exists []; split; [reflexivity|constructor]).
  destruct e as [t|t o]; cbn [MultiFSProps.mexec mtid].
  - unfold mstep. destruct (mthr s t) eqn:E; try apply Nil;
      try (match type of E with _ = KC3 => idtac | _ = KC4 _ => idtac | _ = KD1 _ => idtac | _ = KD6 _ => idtac | _ = KSL _ => idtac end;
           solve [repeat match goal with
                         | |- context[if ?b then _ else _] => destruct b
                         | |- context[match ?x with _ => _ end] => destruct x
                         end; apply Nil]).
    + destruct (used_at s j =? MAXID); [apply Nil|]. cbn. apply (Hupd t _ _ [Start t (OpPub v)]); [reflexivity|repeat constructor].
    + unfold rstep_i. destruct (ridle _ t).
      * destruct (rres _); try destruct (_ <=? 1); cbn; rewrite ?rings_send_next; cbn; apply (Hupd t _ _ [Step t]); try reflexivity; repeat constructor.
      * cbn. apply (Hupd t _ _ [Step t]); [reflexivity|repeat constructor].
    + destruct (wstep (msm s) w) as [m' [w'|]]; [apply Nil|].
      destruct full; [cbn; apply (Hupd t _ _ [Start t (OpPub v)]); [reflexivity|repeat constructor]|rewrite rings_send_next; apply Nil].
    + destruct (ridle _ t); [unfold after_mcons; destruct (rres _)|]; cbn; apply (Hupd t _ _ [Start t OpCons; Step t]); try reflexivity; repeat constructor.
    + unfold rstep_i. destruct (ridle _ t); [unfold after_mcons; destruct (rres _)|]; cbn; apply (Hupd t _ _ [Step t]); try reflexivity; repeat constructor.
    + destruct (keep _ _); apply Nil.
    + destruct r; try apply Nil; [destruct (wakers _ _)|destruct (wlock _)]; apply Nil.
    + destruct (notified _ _); apply Nil.
    + destruct (vacant s); apply Nil.
  - unfold mstart. destruct (mthr s t); try apply Nil.
    destruct o; try apply Nil.
    + rewrite rings_send_next. apply Nil.
    + destruct (alive s i0); [cbn; apply (Hupd t _ _ [Start t OpCons]); [reflexivity|repeat constructor]|apply Nil].
    + destruct (alive s i0); apply Nil.
    + destruct (alive s i0); apply Nil.
    + destruct (existsb _ _); apply Nil.
    + destruct (alive s i0); apply Nil.
    + destruct (last_created _ _) as [i0|]; [|apply Nil].
      destruct (alive s i0); [cbn; apply (Hupd t _ _ [Start t OpCons]); [reflexivity|repeat constructor]|apply Nil].
Qed.

Lemma ring_thr_other s e i u : u <> mtid e -> fthr (rings (mexec s e) i) u = fthr (rings s i) u.
Proof. intros H. destruct (ring_mexec_tid s e i) as [evs [-> Hf]]. now apply execs_other with (t := mtid e). Qed.


(* ---- the steady phase: no listener is created or removed ---- *)
Variable ua : nat -> Z.                       (* used_streams during the phase *)
Definition idx (j : nat) : nat := Z.to_nat (ua j).
Definition served_below (s : mst) (v : Z) (j : nat) : Prop :=
  forall j', (j' < j)%nat -> ua j' <> MAXID /\ In v (acc s (idx j')).
Definition ring_of (p : mpc) : option nat := match p with MSendQ _ _ i => Some i | MPollQ i _ => Some i | _ => None end.
Definition steady_pc (p : mpc) : bool := negb (stepped p) && match p with MCreate | MDrop _ => false | _ => true end.
Definition steady_op (o : mop) : bool := match o with MoSend _ | MoPoll _ | MoDrive _ | MoCount | MoPollMine => true | _ => false end.
Definition steady_ev (e : mev) : bool := match e with MStart _ o => steady_op o | MStep _ => true end.

(* what must hold of thread t's own pc *)
Record TOb (s : mst) (t : nat) : Prop := {
  to_pc : steady_pc (mthr s t) = true;
  to_ring : forall i, fthr (rings s i) t <> FIdle -> ring_of (mthr s t) = Some i;
  to_U : forall v j, mthr s t = MSendU v j -> (j < M)%nat /\ served_below s v j;
  to_Q : forall v j i, mthr s t = MSendQ v j i ->
           (j < M)%nat /\ served_below s v j /\ ua j <> MAXID /\ i = idx j /\ fop_of_pc (fthr (rings s i) t) = Some (OpPub v);
  to_W : forall v j i full w, mthr s t = MSendW v j i full w ->
           (j < M)%nat /\ served_below s v j /\ ua j <> MAXID /\ i = idx j /\ (full = false -> In v (acc s i))
}.
Definition complete (s : mst) (v : Z) : Prop := exists j, (j <= M)%nat /\ served_below s v j /\ (j = M \/ ua j = MAXID).
Record FO (s : mst) : Prop := {
  fo_arr : forall j, usedarr (mx s) j = ua j;
  fo_thr : forall t, TOb s t;
  fo_log : forall t v, In (t, MSendOk v) (mlog s) -> complete s v
}.

Lemma served_mono s s' v j : (forall i w, In w (acc s i) -> In w (acc s' i)) -> served_below s v j -> served_below s' v j.
Proof. intros H S j' Hj. destruct (S j' Hj) as [A B]. split; [exact A|now apply H]. Qed.
Lemma complete_mono s s' v : (forall i w, In w (acc s i) -> In w (acc s' i)) -> complete s v -> complete s' v.
Proof. intros H [j [A [B C]]]. exists j. split; [exact A|]. split; [now apply served_mono with (s := s)|exact C]. Qed.

(* the other threads' obligations survive an event of thread t *)
Lemma tob_other s e u : FO s -> u <> mtid e -> mthr (mexec s e) u = mthr s u -> TOb (mexec s e) u.
Proof.
  intros F Hne Hp. destruct (fo_thr s F u) as [P R U Q W].
  assert (Mono : forall i w, In w (acc s i) -> In w (acc (mexec s e) i)) by (intros; now apply acc_mono).
  constructor; rewrite ?Hp.
  - exact P.
  - intros i H. rewrite ring_thr_other in H by assumption. now apply R.
  - intros v j E. destruct (U v j E) as [A B]. split; [exact A|]. now apply served_mono with (s := s).
  - intros v j i E. destruct (Q v j i E) as (A & B & C & D & G). split; [exact A|]. split; [now apply served_mono with (s := s)|]. split; [exact C|]. split; [exact D|].
    rewrite ring_thr_other by assumption. exact G.
  - intros v j i full w E. destruct (W v j i full w E) as (A & B & C & D & G). split; [exact A|]. split; [now apply served_mono with (s := s)|]. split; [exact C|]. split; [exact D|].
    intros Hf. apply Mono. now apply G.
Qed.


Lemma pc_idle_dec (p : fpc) : p = FIdle \/ p <> FIdle.
Proof. destruct p; [now left|right; discriminate ..]. Qed.
Lemma ring_idle_all s t : TOb s t -> ring_of (mthr s t) = None -> forall i, fthr (rings s i) t = FIdle.
Proof. intros T H i. destruct (pc_idle_dec (fthr (rings s i) t)) as [E|E]; [exact E|]. apply (to_ring s t T) in E. congruence. Qed.
Lemma ring_idle_elsewhere s t i : TOb s t -> ring_of (mthr s t) = Some i -> forall i', i' <> i -> fthr (rings s i') t = FIdle.
Proof. intros T H i' Hne. destruct (pc_idle_dec (fthr (rings s i') t)) as [E|E]; [exact E|]. apply (to_ring s t T) in E. congruence. Qed.

(* events of thread t leave the other threads' channel pcs alone *)
Lemma mthr_other s e u : u <> mtid e -> mthr (mexec s e) u = mthr s u.
Proof.
  intros Hu. destruct e as [t|t o]; cbn [mtid] in Hu; cbn [MultiFSProps.mexec].
  - unfold mstep, after_mcons, send_next, msetpc, mfinish. destruct (mthr s t) eqn:E; try reflexivity;
      repeat match goal with
             | |- context[if ?b then _ else _] => destruct b
             | |- context[match ?x with _ => _ end] => destruct x
             end; cbn; rewrite ?upd_other by assumption; reflexivity.
  - unfold mstart, send_next, msetpc, mfinish. destruct (mthr s t); try reflexivity.
    destruct o; repeat match goal with
             | |- context[if ?b then _ else _] => destruct b
             | |- context[match ?x with _ => _ end] => destruct x
             end; cbn; rewrite ?upd_other by assumption; reflexivity.
Qed.

(* steady events of a thread whose pc is steady do not write used_streams *)
Lemma arr_steady s e : steady_pc (mthr s (mtid e)) = true -> steady_ev e = true -> usedarr (mx (mexec s e)) = usedarr (mx s).
Proof.
  intros Hp He. destruct e as [t|t o]; cbn [mtid] in Hp; cbn [MultiFSProps.mexec].
  - unfold mstep, after_mcons, send_next, msetpc, mfinish. destruct (mthr s t) eqn:E; try discriminate Hp; try reflexivity;
      repeat match goal with
             | |- context[if ?b then _ else _] => destruct b
             | |- context[match ?x with _ => _ end] => destruct x
             end; reflexivity.
  - unfold mstart, send_next, msetpc, mfinish. destruct (mthr s t); try reflexivity.
    destruct o; try discriminate He; repeat match goal with
             | |- context[if ?b then _ else _] => destruct b
             | |- context[match ?x with _ => _ end] => destruct x
             end; reflexivity.
Qed.


Definition is_send (p : mpc) : bool := match p with MSendU _ _ | MSendQ _ _ _ | MSendW _ _ _ _ _ => true | _ => false end.
Lemma tob_nosend s t :
  steady_pc (mthr s t) = true -> is_send (mthr s t) = false ->
  (forall i, fthr (rings s i) t <> FIdle -> ring_of (mthr s t) = Some i) -> TOb s t.
Proof. intros P S R. constructor; auto; intros; match goal with H : mthr s t = _ |- _ => rewrite H in S; discriminate S end. Qed.

Lemma rres_snoc x l u r : flog x = l ++ [(u, r)] -> rres x = r.
Proof. intros H. unfold rres. rewrite H, last_last. reflexivity. Qed.
Lemma ridle_true x t : fthr x t = FIdle -> ridle x t = true.
Proof. intros H. unfold ridle. now rewrite H. Qed.
Lemma ridle_false x t o : fop_of_pc (fthr x t) = Some o -> ridle x t = false.
Proof. unfold ridle. destruct (fthr x t); cbn; intros H; try discriminate; reflexivity. Qed.

(* the state after the fan-out loop moved past entry j (which is served) *)
Lemma own_send_next s0 t v j :
  (forall i, fthr (rings s0 i) t = FIdle) -> (j < M)%nat -> served_below s0 v (S j) ->
  let s' := send_next M s0 t v (S j) in
  TOb s' t /\ (forall u w, In (u, MSendOk w) (mlog s') -> In (u, MSendOk w) (mlog s0) \/ complete s' w).
Proof.
  intros Hidle Hj Hs. unfold send_next. destruct (Nat.leb_spec M (S j)) as [Hle|Hgt]; cbn zeta.
  - split.
    + apply tob_nosend; unfold mfinish; cbn; rewrite ?upd_same; auto. intros i H. exfalso. apply H. apply Hidle.
    + unfold mfinish. cbn. intros u w Hin. apply in_app_or in Hin. destruct Hin as [Hin|[Hin|[]]]; [now left|]. inversion Hin; subst. right.
      exists M. split; [lia|]. split; [|now left]. intros j' Hj'. apply Hs. lia.
  - split.
    + constructor; unfold msetpc; cbn; rewrite ?upd_same; try discriminate; auto.
      * intros i H. exfalso. apply H. apply Hidle.
      * intros v0 j0 E. inversion E; subst. split; [lia|exact Hs].
    + unfold msetpc. cbn. intros u w Hin. now left.
Qed.


Definition OwnRes (s s' : mst) (t : nat) : Prop :=
  TOb s' t /\ (forall u w, In (u, MSendOk w) (mlog s') -> In (u, MSendOk w) (mlog s) \/ complete s' w).

(* a ring operation of thread t on ring i is started: nothing but t's ring pc changes *)
Lemma acc_upd_start s i t o (r : nat -> fsst) i' :
  r = upd (rings s) i (fstart (rings s i) t o) -> accepted_of (flog (r i')) = acc s i'.
Proof. intros ->. unfold acc, upd. destruct (Nat.eqb_spec i' i) as [->|]; [now rewrite start_log|reflexivity]. Qed.

Lemma own_enter_ring s t v j :
  TOb s t -> ring_of (mthr s t) = None -> (j < M)%nat -> served_below s v j -> ua j <> MAXID ->
  let i := idx j in
  let s' := mmk (mx s) (upd (rings s) i (fstart (rings s i) t (OpPub v))) (msm s) (vacant s) (alive s) (upd (mthr s) t (MSendQ v j i)) (mlog s) in
  OwnRes s s' t.
Proof.
  intros T Hr Hj Hs Hu. cbn zeta. pose proof (ring_idle_all s t T Hr) as Hidle.
  set (s' := mmk (mx s) (upd (rings s) (idx j) (fstart (rings s (idx j)) t (OpPub v))) (msm s) (vacant s) (alive s) (upd (mthr s) t (MSendQ v j (idx j))) (mlog s)).
  assert (A : forall i', acc s' i' = acc s i').
  { intros i'. unfold acc at 1. now apply acc_upd_start with (i := idx j) (t := t) (o := OpPub v). }
  assert (Pc : mthr s' t = MSendQ v j (idx j)) by (unfold s', mmk; cbn [mthr]; now rewrite upd_same).
  split; [|intros u w Hin; now left].
  constructor; rewrite ?Pc; try discriminate.
  - reflexivity.
  - intros i' H. cbn [ring_of]. destruct (Nat.eq_dec i' (idx j)) as [Heq|Hne]; [now rewrite Heq|].
    exfalso. apply H. unfold s', mmk. cbn [rings]. rewrite upd_other by assumption. apply Hidle.
  - intros v0 j0 i0 E. inversion E; subst. split; [exact Hj|]. split; [|split; [exact Hu|split; [reflexivity|]]].
    + intros j' Hj'. destruct (Hs j' Hj') as [X Y]. split; [exact X|]. rewrite A. exact Y.
    + unfold s', mmk. cbn [rings]. rewrite upd_same. apply fstart_sets_call. apply Hidle.
Qed.


Lemma acc_upd_eq s i x : forall i', accepted_of (flog (upd (rings s) i x i')) = if Nat.eqb i' i then accepted_of (flog x) else acc s i'.
Proof. intros i'. unfold upd, acc. destruct (Nat.eqb i' i); reflexivity. Qed.

(* the publication into listener i's ring makes a step *)
Lemma own_sendq s t v j i :
  TOb s t -> mthr s t = MSendQ v j i -> OwnRes s (mstep N idz M s t) t.
Proof.
  intros T E. destruct (to_Q s t T v j i E) as (Hj & Hs & Hu & Hi & Hop).
  assert (Else : forall i', i' <> i -> fthr (rings s i') t = FIdle) by (apply ring_idle_elsewhere; [exact T|now rewrite E]).
  unfold mstep. rewrite E. unfold rstep_i. change (fstep N idz (rings s i) t) with (rstep (rings s i) t).
  destruct (fs_response_matches_call N (rings s i) t (OpPub v) Hop) as [[Hop' Hlog]|[Hid [r [Hlog Hm]]]].
  - (* still in progress *)
    rewrite (ridle_false _ _ _ Hop').
    set (s' := mmk (mx s) (upd (rings s) i (rstep (rings s i) t)) (msm s) (vacant s) (alive s) (mthr s) (mlog s)).
    assert (A : forall i', acc s' i' = acc s i').
    { intros i'. unfold acc at 1, s', mmk. cbn [rings]. rewrite acc_upd_eq. destruct (Nat.eqb_spec i' i) as [Heq|]; [|reflexivity]. subst i'. unfold acc. now rewrite Hlog. }
    split; [|intros u w Hin; now left].
    assert (Pc : mthr s' t = MSendQ v j i) by exact E.
    constructor; rewrite ?Pc; try discriminate.
    + reflexivity.
    + intros i' H. cbn [ring_of]. destruct (Nat.eq_dec i' i) as [Heq|Hne]; [now rewrite Heq|].
      exfalso. apply H. unfold s', mmk. cbn [rings]. rewrite upd_other by assumption. now apply Else.
    + intros v0 j0 i0 E0. inversion E0; subst. split; [exact Hj|]. split; [|split; [exact Hu|split; [reflexivity|]]].
      * intros j' Hj'. destruct (Hs j' Hj') as [X Y]. split; [exact X|]. rewrite A. exact Y.
      * unfold s', mmk. cbn [rings]. rewrite upd_same. exact Hop'.
  - (* the ring answered *)
    rewrite (ridle_true _ _ Hid), (rres_snoc _ _ _ _ Hlog).
    set (x := rstep (rings s i) t) in *.
    assert (AccX : accepted_of (flog x) = acc s i ++ match r with ROk w _ => [w] | _ => [] end).
    { rewrite Hlog, accepted_of_app. unfold acc. f_equal. unfold accepted_of. cbn. now rewrite app_nil_r. }
    assert (IdleAll : forall i', fthr (upd (rings s) i x i') t = FIdle).
    { intros i'. unfold upd. destruct (Nat.eqb_spec i' i) as [Heq|Hne]; [exact Hid|now apply Else]. }
    assert (Mono : forall i' w, In w (acc s i') -> In w (accepted_of (flog (upd (rings s) i x i')))).
    { intros i' w H. rewrite acc_upd_eq. destruct (Nat.eqb_spec i' i) as [Heq|]; [|exact H]. subst i'. rewrite AccX. apply in_or_app. now left. }
    destruct r as [w|w len| | |]; cbn in Hm; try contradiction; subst w.
    + (* full: wake the listener, then retry *)
      set (s' := mmk (mx s) (upd (rings s) i x) (msm s) (vacant s) (alive s) (upd (mthr s) t (MSendW v j i true (W0 i))) (mlog s)).
      split; [|intros u w Hin; now left].
      assert (Pc : mthr s' t = MSendW v j i true (W0 i)) by (unfold s', mmk; cbn [mthr]; now rewrite upd_same).
      constructor; rewrite ?Pc; try discriminate.
      * reflexivity.
      * intros i' H. exfalso. apply H. unfold s', mmk. cbn [rings]. apply IdleAll.
      * intros v0 j0 i0 full w E0. inversion E0; subst. split; [exact Hj|]. split; [|split; [exact Hu|split; [reflexivity|discriminate]]].
        intros j' Hj'. destruct (Hs j' Hj') as [X Y]. split; [exact X|]. unfold acc, s', mmk. cbn [rings]. now apply Mono.
    + (* accepted by listener i *)
      assert (Got : In v (accepted_of (flog x))) by (rewrite AccX; apply in_or_app; right; now left).
      destruct (len <=? 1).
      * set (s' := mmk (mx s) (upd (rings s) i x) (msm s) (vacant s) (alive s) (upd (mthr s) t (MSendW v j i false (W0 i))) (mlog s)).
        split; [|intros u w Hin; now left].
        assert (Pc : mthr s' t = MSendW v j i false (W0 i)) by (unfold s', mmk; cbn [mthr]; now rewrite upd_same).
        constructor; rewrite ?Pc; try discriminate.
        -- reflexivity.
        -- intros i' H. exfalso. apply H. unfold s', mmk. cbn [rings]. apply IdleAll.
        -- intros v0 j0 i0 full w E0. inversion E0; subst. split; [exact Hj|]. split; [|split; [exact Hu|split; [reflexivity|]]].
           ++ intros j' Hj'. destruct (Hs j' Hj') as [X Y]. split; [exact X|]. unfold acc, s', mmk. cbn [rings]. now apply Mono.
           ++ intros _. unfold acc, s', mmk. cbn [rings]. now rewrite upd_same.
      * set (s0 := mmk (mx s) (upd (rings s) i x) (msm s) (vacant s) (alive s) (mthr s) (mlog s)).
        assert (R := own_send_next s0 t v j).
        destruct R as [R1 R2]; [intros i'; unfold s0, mmk; cbn [rings]; apply IdleAll|exact Hj| |split; [exact R1|exact R2]].
        intros j' Hj'. destruct (Nat.eq_dec j' j) as [->|Hne].
        -- split; [exact Hu|]. unfold acc, s0, mmk. cbn [rings]. rewrite <- Hi, upd_same. exact Got.
        -- destruct (Hs j' ltac:(lia)) as [X Y]. split; [exact X|]. unfold acc, s0, mmk. cbn [rings]. now apply Mono.
Qed.


(* reading entry j of used_streams *)
Lemma own_sendu s t v j :
  FO s -> mthr s t = MSendU v j -> OwnRes s (mstep N idz M s t) t.
Proof.
  intros F E. pose proof (fo_thr s F t) as T. destruct (to_U s t T v j E) as (Hj & Hs).
  assert (Hr : ring_of (mthr s t) = None) by (now rewrite E).
  unfold mstep. rewrite E. unfold used_at. rewrite (fo_arr s F j).
  destruct (Z.eqb_spec (ua j) MAXID) as [Hm|Hm].
  - (* the sentinel: the loop is over *)
    pose proof (ring_idle_all s t T Hr) as Hidle.
    split.
    + apply tob_nosend; unfold mfinish, mmk; cbn [mthr rings]; rewrite ?upd_same; auto. intros i H. exfalso. apply H. apply Hidle.
    + unfold mfinish, mmk. cbn [mlog]. intros u w Hin. apply in_app_or in Hin. destruct Hin as [Hin|[Hin|[]]]; [now left|]. inversion Hin; subst. right.
      exists j. split; [lia|]. split; [exact Hs|now right].
  - apply own_enter_ring; assumption.
Qed.

(* waking the listener after a publication (or before a retry) *)
Lemma own_sendw s t v j i full w :
  TOb s t -> mthr s t = MSendW v j i full w -> OwnRes s (mstep N idz M s t) t.
Proof.
  intros T E. destruct (to_W s t T v j i full w E) as (Hj & Hs & Hu & Hi & Hf).
  assert (Hr : ring_of (mthr s t) = None) by (now rewrite E).
  pose proof (ring_idle_all s t T Hr) as Hidle.
  unfold mstep. rewrite E. destruct (wstep (msm s) w) as [m' [w''|]].
  - set (s' := mmk (mx s) (rings s) m' (vacant s) (alive s) (upd (mthr s) t (MSendW v j i full w'')) (mlog s)).
    split; [|intros u x Hin; now left].
    assert (Pc : mthr s' t = MSendW v j i full w'') by (unfold s', mmk; cbn [mthr]; now rewrite upd_same).
    constructor; rewrite ?Pc; try discriminate.
    + reflexivity.
    + intros i' H. exfalso. apply H. apply Hidle.
    + intros v0 j0 i0 full0 w0 E0. inversion E0; subst. split; [exact Hj|]. split; [exact Hs|]. split; [exact Hu|]. split; [reflexivity|exact Hf].
  - destruct full.
    + (* retry the publication into ring i *)
      subst i.
      assert (X := own_enter_ring (mmk (mx s) (rings s) m' (vacant s) (alive s) (mthr s) (mlog s)) t v j).
      cbn zeta in X. unfold mmk in X. cbn [mx rings msm vacant alive mthr mlog] in X. apply X; auto.
      constructor; cbn [mthr rings]; try apply T.
    + (* listener i is served: next entry *)
      set (s0 := mmk (mx s) (rings s) m' (vacant s) (alive s) (mthr s) (mlog s)).
      assert (R := own_send_next s0 t v j).
      destruct R as [R1 R2]; [exact Hidle|exact Hj| |split; [exact R1|exact R2]].
      intros j' Hj'. destruct (Nat.eq_dec j' j) as [->|Hne].
      * split; [exact Hu|]. rewrite <- Hi. now apply Hf.
      * apply Hs. lia.
Qed.


Lemma in_sendok_snoc (l : list (nat * mres)) t r u w : (forall x, r <> MSendOk x) -> In (u, MSendOk w) (l ++ [(t, r)]) -> In (u, MSendOk w) l.
Proof. intros H Hin. apply in_app_or in Hin. destruct Hin as [Hin|[Hin|[]]]; [exact Hin|]. inversion Hin; subst. exfalso. now apply (H w). Qed.

(* a poll of listener i by thread t made a step on ring i (new ring state x) *)
Lemma own_poll_result s t i drv x th' :
  (forall i', i' <> i -> fthr (rings s i') t = FIdle) -> th' t = MPollQ i drv ->
  OwnRes s (if ridle x t then after_mcons s x t i drv else mmk (mx s) (upd (rings s) i x) (msm s) (vacant s) (alive s) th' (mlog s)) t.
Proof.
  intros Else Hth.
  assert (NotIdle : fthr x t <> FIdle ->
            OwnRes s (mmk (mx s) (upd (rings s) i x) (msm s) (vacant s) (alive s) th' (mlog s)) t).
  { intros Hn. split; [|unfold mmk; cbn [mlog]; intros u w Hin; now left].
    apply tob_nosend; unfold mmk; cbn [mthr rings]; rewrite ?Hth; try reflexivity.
    intros i' H. cbn [ring_of]. destruct (Nat.eq_dec i' i) as [Heq|Hne]; [now rewrite Heq|].
    exfalso. apply H. rewrite upd_other by assumption. now apply Else. }
  unfold ridle. destruct (fthr x t) eqn:Ex; try (apply NotIdle; discriminate).
  assert (IdleAll : forall i', fthr (upd (rings s) i x i') t = FIdle).
  { intros i'. unfold upd. destruct (Nat.eqb_spec i' i) as [Heq|Hne]; [exact Ex|now apply Else]. }
  unfold after_mcons. destruct (rres x).
  all: split.
  all: try (apply tob_nosend; unfold mmk; cbn [mthr rings]; rewrite ?upd_same;
            [try (destruct drv; reflexivity); reflexivity|try (destruct drv; reflexivity); reflexivity|intros i' H; exfalso; apply H; apply IdleAll]).
  all: unfold mmk; cbn [mlog]; intros u w Hin; left; try exact Hin.
  eapply in_sendok_snoc; [|exact Hin]. intros; discriminate.
Qed.


Lemma own_norings s s' t :
  TOb s t -> ring_of (mthr s t) = None -> rings s' = rings s ->
  steady_pc (mthr s' t) = true -> is_send (mthr s' t) = false -> ring_of (mthr s' t) = None ->
  (mlog s' = mlog s \/ exists r, (forall x, r <> MSendOk x) /\ mlog s' = mlog s ++ [(t, r)]) ->
  OwnRes s s' t.
Proof.
  intros T Hr Hrings P S R L. split.
  - apply tob_nosend; auto. intros i H. exfalso. apply H. rewrite Hrings. now apply (ring_idle_all s t T Hr).
  - intros u w Hin. left. destruct L as [L|[r [Hn L]]]; rewrite L in Hin; [exact Hin|]. eapply in_sendok_snoc; eauto.
Qed.
Ltac norings T Hr :=
  apply own_norings; [exact T|exact Hr|reflexivity
                     |unfold mfinish, msetpc, mmk; cbn [mthr]; rewrite ?upd_same; try reflexivity; match goal with |- context[if ?b then _ else _] => destruct b; reflexivity end
                     |unfold mfinish, msetpc, mmk; cbn [mthr]; rewrite ?upd_same; try reflexivity; match goal with |- context[if ?b then _ else _] => destruct b; reflexivity end
                     |unfold mfinish, msetpc, mmk; cbn [mthr]; rewrite ?upd_same; try reflexivity; match goal with |- context[if ?b then _ else _] => destruct b; reflexivity end
                     |unfold mfinish, msetpc, mmk; cbn [mlog]; first [left; reflexivity|right; eexists; split; [|reflexivity]; intros; discriminate]].

Lemma own_step s t : FO s -> OwnRes s (mstep N idz M s t) t.
Proof.
  intros F. pose proof (fo_thr s F t) as T. pose proof (to_pc s t T) as Hpc.
  destruct (mthr s t) eqn:E; try discriminate Hpc.
  - (* MIdle *) unfold mstep. rewrite E. split; [exact T|intros u w Hin; now left].
  - eapply own_sendu; eassumption.
  - eapply own_sendq; eassumption.
  - eapply own_sendw; eassumption.
  - (* MDrive *)
    assert (Hr : ring_of (mthr s t) = None) by (now rewrite E).
    unfold mstep. rewrite E. apply own_poll_result; [intros i' _; now apply (ring_idle_all s t T Hr)|now rewrite upd_same].
  - (* MPollQ *)
    assert (Hr : ring_of (mthr s t) = Some i) by (now rewrite E).
    unfold mstep. rewrite E. apply own_poll_result; [now apply (ring_idle_elsewhere s t i T Hr)|exact E].
  - (* MPollK *)
    assert (Hr : ring_of (mthr s t) = None) by (now rewrite E).
    unfold mstep. rewrite E. destruct (keep (msm s) i); norings T Hr.
  - (* MReg *)
    assert (Hr : ring_of (mthr s t) = None) by (now rewrite E).
    unfold mstep. rewrite E. destruct r; [destruct (wakers (msm s) i)|destruct (wlock (msm s))| | | ]; try norings T Hr.
    split; [exact T|intros u w Hin; now left].
  - (* MParked *)
    assert (Hr : ring_of (mthr s t) = None) by (now rewrite E).
    unfold mstep. rewrite E. destruct (notified (msm s) i); [norings T Hr|split; [exact T|intros u w Hin; now left]].
  - (* MNo *)
    assert (Hr : ring_of (mthr s t) = None) by (now rewrite E).
    unfold mstep. rewrite E. norings T Hr.
  - (* MCount *)
    assert (Hr : ring_of (mthr s t) = None) by (now rewrite E).
    unfold mstep. rewrite E. norings T Hr.
Qed.


Lemma own_poll_start s t i :
  TOb s t -> ring_of (mthr s t) = None ->
  OwnRes s (mmk (mx s) (upd (rings s) i (fstart (rings s i) t OpCons)) (msm s) (vacant s) (alive s) (upd (mthr s) t (MPollQ i false)) (mlog s)) t.
Proof.
  intros T Hr. split; [|unfold mmk; cbn [mlog]; intros u w Hin; now left].
  apply tob_nosend; unfold mmk; cbn [mthr rings]; rewrite ?upd_same; try reflexivity.
  intros i' H. cbn [ring_of]. destruct (Nat.eq_dec i' i) as [Heq|Hne]; [now rewrite Heq|].
  exfalso. apply H. rewrite upd_other by assumption. now apply (ring_idle_all s t T Hr).
Qed.

Lemma own_start s t o : FO s -> steady_op o = true -> OwnRes s (mstart M s t o) t.
Proof.
  intros F Ho. pose proof (fo_thr s F t) as T.
  unfold mstart. destruct (mthr s t) eqn:E; try (split; [exact T|intros u0 w0 Hin; now left]).
  assert (Hr : ring_of (mthr s t) = None) by (now rewrite E).
  pose proof (ring_idle_all s t T Hr) as Hidle.
  destruct o; try discriminate Ho.
  - (* send *)
    unfold send_next. destruct (Nat.leb_spec M 0) as [Hle|Hgt].
    + split.
      * apply tob_nosend; unfold mfinish, mmk; cbn [mthr rings]; rewrite ?upd_same; auto. intros i H. exfalso. apply H. apply Hidle.
      * unfold mfinish, mmk. cbn [mlog]. intros u w Hin. apply in_app_or in Hin. destruct Hin as [Hin|[Hin|[]]]; [now left|]. inversion Hin; subst. right.
        exists 0%nat. split; [lia|]. split; [intros j' Hj'; lia|left; lia].
    + split; [|unfold msetpc, mmk; cbn [mlog]; intros u w Hin; now left].
      constructor; unfold msetpc, mmk; cbn [mthr rings]; rewrite ?upd_same; try discriminate; auto.
      * intros i H. exfalso. apply H. apply Hidle.
      * intros v0 j0 E0. inversion E0; subst. split; [lia|]. intros j' Hj'. lia.
  - (* poll *) destruct (alive s i); [now apply own_poll_start|norings T Hr].
  - (* drive *) destruct (alive s i); norings T Hr.
  - (* count *) norings T Hr.
  - (* poll the stream this thread created *)
    destruct (last_created (mlog s) t) as [i|]; [destruct (alive s i); [now apply own_poll_start|norings T Hr]|norings T Hr].
Qed.

(* ---- the invariant is preserved by every steady event ---- *)
Lemma fo_exec s e : FO s -> steady_ev e = true -> FO (mexec s e).
Proof.
  intros F He.
  assert (Own : OwnRes s (mexec s e) (mtid e)).
  { destruct e as [t|t o]; cbn [mtid MultiFSProps.mexec]; [now apply own_step|now apply own_start]. }
  destruct Own as [OT OL].
  assert (Mono : forall i w, In w (acc s i) -> In w (acc (mexec s e) i)) by (intros; now apply acc_mono).
  constructor.
  - intros j. rewrite arr_steady; [apply (fo_arr s F)|apply (to_pc s _ (fo_thr s F _))|exact He].
  - intros u. destruct (Nat.eq_dec u (mtid e)) as [->|Hne]; [exact OT|]. apply tob_other; [exact F|exact Hne|now apply mthr_other].
  - intros u w Hin. destruct (OL u w Hin) as [Hold|Hnew]; [|exact Hnew]. apply complete_mono with (s := s); [exact Mono|]. now apply (fo_log s F u).
Qed.


Lemma fo_base s0 :
  (forall j, usedarr (mx s0) j = ua j) -> (forall t, mthr s0 t = MIdle) -> (forall t i, fthr (rings s0 i) t = FIdle) ->
  (forall t v, ~ In (t, MSendOk v) (mlog s0)) -> FO s0.
Proof.
  intros Ha Hi Hr Hl. constructor; [exact Ha| |intros t v H; exfalso; now apply (Hl t v)].
  intros t. apply tob_nosend; rewrite ?Hi; try reflexivity. intros i H. exfalso. apply H. apply Hr.
Qed.

Theorem fanout_complete s0 mevs :
  FO s0 -> Forall (fun e => steady_ev e = true) mevs ->
  let s := fold_left mexec mevs s0 in
  forall t v, In (t, MSendOk v) (mlog s) ->
  exists j, (j <= M)%nat /\ (j = M \/ ua j = MAXID) /\
            forall j', (j' < j)%nat -> ua j' <> MAXID /\ In v (accepted_of (flog (rings s (Z.to_nat (ua j'))))).
Proof.
  intros F0 H. assert (G : forall s1, FO s1 -> FO (fold_left mexec mevs s1)).
  { induction H as [|e mevs He Hr IH]; intros s1 F1; [exact F1|]. cbn [fold_left]. apply IH. now apply fo_exec. }
  intros s t v Hin. destruct (fo_log _ (G s0 F0) t v Hin) as [j [A [B C]]]. exists j. split; [exact A|]. split; [exact C|exact B].
Qed.

(* ---- the same, about the ghost list `fpublished` (what the ring accepted at its linearisation points - the list
   fs_yielded_prefix / listener_exactly_once relate the yielded values to): on a ring satisfying the full-sync invariant every
   value answered ROk is in it ---- *)
Lemma finv_accepted_published x v : FInv N x -> In v (accepted_of (flog x)) -> In v (fpublished x).
Proof.
  intros I H. destruct (flock x) eqn:El.
  - destruct (f_free _ _ I El) as [t Ht]. pose proof (f_lag _ _ I t) as Hg.
    destruct (fthr x t) as [| |w [len|]| |[w|]|]; cbn in Ht; try discriminate; destruct Hg as [-> _]; try exact H.
    apply in_or_app. now left.
  - destruct (f_sync _ _ I El) as [-> _]. exact H.
Qed.

Lemma finv_execs (HN : 0 < N) evs x : FInv N x -> FInv N (fold_left (fexecZ N) evs x).
Proof.
  revert x. induction evs as [|e evs IH]; intros x I; [exact I|]. cbn [fold_left]. apply IH.
  destruct e; cbn; [now apply finv_step|now apply finv_start].
Qed.

Lemma finv_mexecs (HN : 0 < N) mevs s i : FInv N (rings s i) -> FInv N (rings (fold_left mexec mevs s) i).
Proof.
  revert s. induction mevs as [|e mevs IH]; intros s I; [exact I|]. cbn [fold_left]. apply IH.
  destruct (ring_mexec N M s e i) as [evs ->]. now apply finv_execs.
Qed.

Corollary fanout_complete_published (HN : 0 < N) s0 mevs :
  FO s0 -> (forall i, FInv N (rings s0 i)) -> Forall (fun e => steady_ev e = true) mevs ->
  let s := fold_left mexec mevs s0 in
  forall t v, In (t, MSendOk v) (mlog s) ->
  exists j, (j <= M)%nat /\ (j = M \/ ua j = MAXID) /\
            forall j', (j' < j)%nat -> ua j' <> MAXID /\ In v (fpublished (rings s (Z.to_nat (ua j')))).
Proof.
  intros F0 I0 H s t v Hin. destruct (fanout_complete s0 mevs F0 H t v Hin) as [j [A [B C]]].
  exists j. split; [exact A|]. split; [exact B|]. intros j' Hj. destruct (C j' Hj) as [X Y]. split; [exact X|].
  apply finv_accepted_published; [|exact Y]. apply finv_mexecs; [exact HN|apply I0].
Qed.

End FanOutFS.

Print Assumptions fanout_complete.
Print Assumptions fanout_complete_published.
