(* C07 for the crossbeam Uni channel machine (ChanXb.v): after cancel_all_streams a targeted stream is never left parked un-notified with
   its keep flag cleared - every schedule, any number of producers (send / send_with through the layer), length queries and cancel_all
   callers, every queue capacity N, every MAX_STREAMS, 0 < k <= MAX_STREAMS streams each driven by its own task.

   Method: UniCancel's invariant `CInv` (which never looks inside the queue component) is carried over to the layered machine through
   a VIEW of the layered state as a state of the base machine (`A`): a layer thread inside its wake_stream(0) (BWake v ok r w) is shown
   as the base machine's sender inside wake_stream (XSendW v w) - that is exactly what `pending` needs to see -, a layer thread at
   BFull / BLen / BTry as a sender that has not reached wake_stream yet (XSendQ v), any other thread with its base pc.  `BInv s` is
   `CInv (A s)` plus "a thread inside the layer is idle in the base machine".  Base-machine steps preserve it by UniCancel's own
   `cinv_step` / `cinv_start` (a step of thread t reads and writes thread t's pc only: `cstep_same` / `cstep_other`, and CInv is
   insensitive to pointwise-equal pc maps: `cinv_ext`); the layer's steps by UniCancel's `producer_local` (BFull, BLen, BTry, and the
   two layer entry points) and `wake_step` (BWake).  No lemma of UniCancel is re-proved. *)
From RM Require Import RingModel FullSync Chan UniCancel ChanXb.

(* ------------------------------------------------------------------------------------------- a step of thread t is local to thread t *)
Section Local.
Variable Q : Type.
Variable qstep : Q -> nat -> Q.
Variable qstart : Q -> nat -> op -> Q.
Variable qidle : Q -> nat -> bool.
Variable qlog : Q -> list (nat * res).
Variable M k : nat.
Variable wake_rule : Z -> option nat.

Local Notation cst := (cst Q).
Local Notation stp := (cstep Q qstep qstart qidle qlog M k wake_rule).
Local Notation strt := (cstart Q qstart M).

Ltac brk :=
  repeat match goal with
         | |- context [match ?c with _ => _ end] => destruct c
         end.

Lemma cstep_other (s : cst) t u : u <> t -> cthr _ (stp s t) u = cthr _ s u.
Proof.
  intros Hu. unfold cstep, after_send, after_cons, cancel_next, setpc, finish.
  destruct (cthr _ s t); brk; cbn [cthr mk]; rewrite ?upd_other; auto.
Qed.

Lemma cstep_same (s1 s2 : cst) t :
  q _ s1 = q _ s2 -> m _ s1 = m _ s2 -> cthr _ s1 t = cthr _ s2 t ->
  m _ (stp s1 t) = m _ (stp s2 t) /\ cthr _ (stp s1 t) t = cthr _ (stp s2 t) t.
Proof.
  intros Hq Hm Hc. unfold cstep, after_send, after_cons, cancel_next, setpc, finish. rewrite Hc, Hq, Hm.
  destruct (cthr _ s2 t) eqn:E; brk; cbn [m cthr mk]; rewrite ?upd_same; auto; split; congruence.
Qed.

Lemma cstart_other (s : cst) t o u : u <> t -> cthr _ (strt s t o) u = cthr _ s u.
Proof.
  intros Hu. unfold cstart, cancel_next, setpc, finish.
  destruct (cthr _ s t); brk; cbn [cthr mk]; rewrite ?upd_other; auto.
Qed.

Lemma cstart_same (s1 s2 : cst) t o :
  m _ s1 = m _ s2 -> cthr _ s1 t = cthr _ s2 t ->
  m _ (strt s1 t o) = m _ (strt s2 t o) /\ cthr _ (strt s1 t o) t = cthr _ (strt s2 t o) t.
Proof.
  intros Hm Hc. unfold cstart, cancel_next, setpc, finish. rewrite Hc, Hm.
  destruct (cthr _ s2 t) eqn:E; brk; cbn [m cthr mk]; rewrite ?upd_same; auto; split; congruence.
Qed.

(* UniCancel's invariant looks at the streams manager and at the thread pcs only, and at the latter pointwise *)
Lemma cinv_ext (s1 s2 : cst) :
  m _ s1 = m _ s2 -> (forall u, cthr _ s1 u = cthr _ s2 u) -> CInv Q k s1 -> CInv Q k s2.
Proof.
  intros Hm Hc [a b c d e].
  assert (Hwk : forall i, wk Q s2 i = wk Q s1 i) by (intros; unfold wk; now rewrite Hm).
  assert (Hnt : forall i, nt Q s2 i = nt Q s1 i) by (intros; unfold nt; now rewrite Hm).
  assert (Hkp : forall i, kp Q s2 i = kp Q s1 i) by (intros; unfold kp; now rewrite Hm).
  constructor.
  - intros i Hi. rewrite <- Hc. auto.
  - intros t Ht. rewrite <- Hc. auto.
  - intros i Hi. rewrite <- Hc, Hwk. auto.
  - intros i Hi. rewrite <- Hc, Hwk, Hnt. auto.
  - intros i Hi. rewrite Hkp. intros Hk. destruct (e i Hi Hk) as [W|[p W]]; [left|right; exists p].
    + rewrite <- Hc, Hwk, Hnt. exact W.
    + unfold pending in *. rewrite <- Hc, Hwk. exact W.
Qed.

End Local.

Section ChanXbCancel.
Variable N : Z.
Variable M k : nat.
Hypothesis kpos : (0 < k)%nat.
Hypothesis kM : (k <= M)%nat.

Local Notation bst := (cst xq).
Local Notation bstep := (cstep xq (xq_step N) xq_start xq_idle qlog M k (fun _ => None)).
Local Notation bstart := (cstart xq xq_start M).
Local Notation bxstep := (bxstep N M k).
Local Notation bxstart := (bxstart M).
Local Notation bxexec := (bxexec N M k).

(* how a thread of the layered machine looks to UniCancel's invariant: inside the layer's wake_stream(0) it is a sender inside wake_stream,
   anywhere else inside the layer a sender that has not reached wake_stream *)
Definition abspc (p : bpc) (c : cpc) : cpc :=
  match p with
  | BN => c
  | BFull v | BLen v _ | BTry v _ _ => XSendQ v
  | BWake v _ _ w => XSendW v w
  end.
Definition absthr (s : bxst) : nat -> cpc := fun u => abspc (bthr s u) (cthr xq (bb s) u).
Definition A (s : bxst) : bst := mk xq (q xq (bb s)) (m xq (bb s)) (absthr s) (clog xq (bb s)).

Record BInv (s : bxst) : Prop := {
  b_c    : CInv xq k (A s);
  b_idle : forall t, bthr s t <> BN -> cthr xq (bb s) t = XIdle
}.

Definition wf_bev (e : bev) : Prop :=
  match e with
  | BStep _ => True
  | BStart t (BoBase (CoDrive i)) => t = i /\ (i < k)%nat
  | BStart t (BoBase (CoPoll _)) => False
  | BStart t _ => (k <= t)%nat
  end.

Definition stuck_cancelled_xb (s : bxst) (i : nat) : Prop :=
  (forall t, (k <= t)%nat -> bthr s t = BN /\ cthr xq (bb s) t = XIdle) /\
  keep (m xq (bb s)) i = false /\ cthr xq (bb s) i = XParked i /\ notified (m xq (bb s)) i = false.

Lemma binv_not_stuck s i : (i < k)%nat -> BInv s -> ~ stuck_cancelled_xb s i.
Proof.
  intros Hi [I _] (Hp & Hk & Hc & Hn). apply (cinv_not_stuck xq k (A s) i Hi I).
  split; [|split; [exact Hk|split; [|exact Hn]]].
  - intros t Ht. destruct (Hp t Ht) as [E1 E2]. cbn. unfold absthr. now rewrite E1, E2.
  - pose proof (c_str _ _ _ I i Hi) as Hs. cbn in *. unfold absthr in *. rewrite Hc in *.
    destruct (bthr s i); cbn in *; try contradiction; reflexivity.
Qed.

(* a layer move of thread t *)
Lemma binv_goto s b t p q' l' :
  (forall t, bthr s t <> BN -> cthr xq (bb s) t = XIdle) ->
  (forall u, cthr xq b u = cthr xq (bb s) u) -> cthr xq (bb s) t = XIdle ->
  CInv xq k (mk xq q' (m xq b) (upd (absthr s) t (abspc p XIdle)) l') ->
  BInv (goto s b t p).
Proof.
  intros Hid Hb Ht I. split.
  - refine (cinv_ext xq k _ _ _ _ I); [reflexivity|].
    intros u. cbn. unfold absthr, goto, upd. cbn. rewrite Hb. destruct (Nat.eqb_spec u t) as [->|]; [now rewrite Ht|reflexivity].
  - intros u. unfold goto, upd. cbn. rewrite Hb. destruct (Nat.eqb_spec u t) as [->|]; [auto|apply Hid].
Qed.

Lemma binv_sent s b t v ok r :
  (forall t, bthr s t <> BN -> cthr xq (bb s) t = XIdle) ->
  (forall u, cthr xq b u = cthr xq (bb s) u) -> cthr xq (bb s) t = XIdle ->
  (forall p', p' = XIdle \/ p' = XSendQ v -> CInv xq k (mk xq (q xq b) (m xq b) (upd (absthr s) t p') [])) ->
  BInv (sent s b t v ok r).
Proof.
  intros Hid Hb Ht I. unfold sent. destruct ok; [|destruct r].
  - apply (binv_goto s _ t BN (q xq b) []); auto.
  - apply (binv_goto s _ t (BLen v true) (q xq b) []); auto.
  - apply (binv_goto s _ t BN (q xq b) []); auto.
Qed.

Lemma layer_local s t p' q' l' :
  BInv s -> (k <= t)%nat -> producer_pc p' ->
  (forall i, ppend (absthr s t) (wk xq (A s) i) i -> ppend p' (wk xq (A s) i) i) ->
  CInv xq k (mk xq q' (m xq (bb s)) (upd (absthr s) t p') l').
Proof.
  intros [I _] Ht Hp Hpp.
  apply (producer_local xq M k kpos kM (A s) t q' (upd (absthr s) t p') p' l' I Ht); auto using upd_same.
  intros u Hu. now apply upd_other.
Qed.

Lemma absthr_at s t : absthr s t = abspc (bthr s t) (cthr xq (bb s) t).
Proof. reflexivity. Qed.

Lemma layer_producer s t : BInv s -> bthr s t <> BN -> (k <= t)%nat.
Proof.
  intros [I _] Hn. apply (is_producer xq k (A s) t I). cbn. rewrite absthr_at.
  destruct (bthr s t); cbn; auto.
Qed.

Lemma binv_step s t : BInv s -> BInv (bxstep s t).
Proof.
  intros B. pose proof B as [I Hid]. unfold ChanXb.bxstep. destruct (bthr s t) eqn:E.
  - (* a step of the base machine *)
    destruct (cstep_same xq (xq_step N) xq_start xq_idle qlog M k (fun _ => None) (A s) (bb s) t) as [Em Ec];
      [reflexivity|reflexivity|cbn; now rewrite absthr_at, E|].
    split.
    + refine (cinv_ext xq k (bstep (A s) t) _ _ _ (cinv_step xq _ _ _ _ M k _ kpos kM (A s) t I)); [exact Em|].
      intros u. cbn [A cthr mk]. rewrite (absthr_at _ u). cbn [bb bthr].
      destruct (Nat.eq_dec u t) as [->|Hn]; [rewrite E; exact Ec|].
      rewrite !cstep_other by exact Hn. reflexivity.
    + intros u Hu. cbn [bb bthr] in *. assert (u <> t) by (intros ->; now apply Hu). rewrite cstep_other; auto.
  - (* BFull *)
    assert (Ht : (k <= t)%nat) by (apply (layer_producer s t B); congruence).
    assert (Hc : cthr xq (bb s) t = XIdle) by (apply Hid; congruence).
    destruct (N <=? _).
    + apply (binv_goto s _ t BN (q xq (bb s)) []); auto. apply layer_local; auto; [exact Logic.I|]. intros i. rewrite absthr_at, E. auto.
    + apply (binv_goto s _ t (BLen v true) (q xq (bb s)) []); auto. apply layer_local; auto; [exact Logic.I|]. intros i. rewrite absthr_at, E. auto.
  - (* BLen *)
    assert (Ht : (k <= t)%nat) by (apply (layer_producer s t B); congruence).
    assert (Hc : cthr xq (bb s) t = XIdle) by (apply Hid; congruence).
    apply (binv_goto s _ t (BTry v _ retry) (q xq (bb s)) []); auto. apply layer_local; auto; [exact Logic.I|]. intros i. rewrite absthr_at, E. auto.
  - (* BTry: the publication; the wake of stream 0 begins, or the send is over *)
    assert (Ht : (k <= t)%nat) by (apply (layer_producer s t B); congruence).
    assert (Hc : cthr xq (bb s) t = XIdle) by (apply Hid; congruence).
    destruct (l <=? 2).
    + apply (binv_goto s _ t (BWake v _ retry (W0 0)) (q xq (bb s)) []); auto.
      apply layer_local; auto; [exact Logic.I|]. intros i. rewrite absthr_at, E. cbn. contradiction.
    + apply binv_sent; auto. intros p' Hp'. apply layer_local; auto; [destruct Hp' as [->| ->]; exact Logic.I|].
      intros i. rewrite absthr_at, E. cbn. contradiction.
  - (* BWake: one step of wake_stream(0) *)
    assert (Ht : (k <= t)%nat) by (apply (layer_producer s t B); congruence).
    assert (Hc : cthr xq (bb s) t = XIdle) by (apply Hid; congruence).
    assert (Hpd : forall i, pending xq (A s) t i <-> wpending w (wk xq (A s) i) i).
    { intros i. rewrite pending_ppend. cbn [A cthr mk]. rewrite absthr_at, E. reflexivity. }
    destruct (wstep (m xq (bb s)) w) as [mm' [w''|]] eqn:Ew.
    + apply (binv_goto s _ t (BWake v ok retry w'') (q xq (bb s)) []); auto.
      apply (wake_step xq M k kpos kM (A s) t w mm' (Some w'') (XSendW v w'') [] I Ht Hpd Ew); [exact Logic.I|reflexivity].
    + apply binv_sent; auto. intros p' Hp'.
      apply (wake_step xq M k kpos kM (A s) t w mm' None p' [] I Ht Hpd Ew); destruct Hp' as [->| ->]; try exact Logic.I; reflexivity.
Qed.

Lemma binv_start s t o : wf_bev (BStart t o) -> BInv s -> BInv (bxstart s t o).
Proof.
  intros Hwf B. pose proof B as [I Hid]. unfold ChanXb.bxstart.
  destruct (bthr s t) eqn:E; try exact B. destruct (cthr xq (bb s) t) eqn:Ec; try exact B.
  assert (Ea : absthr s t = XIdle) by (now rewrite absthr_at, E, Ec).
  destruct o as [o'|v|v].
  - (* an operation of the base machine *)
    assert (Hwf' : wf_ev k (CStart t o')) by (destruct o'; exact Hwf).
    destruct (cstart_same xq xq_start M (A s) (bb s) t o') as [Em Ecc]; [reflexivity|cbn; now rewrite Ea, Ec|].
    split.
    + refine (cinv_ext xq k (bstart (A s) t o') _ _ _ (cinv_start xq xq_start M k kpos kM (A s) t o' Hwf' I)); [exact Em|].
      intros u. cbn [A cthr mk]. rewrite (absthr_at _ u). cbn [bb bthr].
      destruct (Nat.eq_dec u t) as [->|Hn]; [rewrite E; exact Ecc|].
      rewrite !cstart_other by exact Hn. reflexivity.
    + intros u Hu. cbn [bb bthr] in *. assert (u <> t) by (intros ->; now apply Hu). rewrite cstart_other; auto.
  - cbn in Hwf. apply (binv_goto s _ t (BLen v false) (q xq (bb s)) []); auto.
    apply layer_local; auto; [exact Logic.I|]. intros i. rewrite Ea. auto.
  - cbn in Hwf. apply (binv_goto s _ t (BFull v) (q xq (bb s)) []); auto.
    apply layer_local; auto; [exact Logic.I|]. intros i. rewrite Ea. auto.
Qed.

Lemma binv_init : BInv (bxinit k).
Proof. split; [exact (cinv_init xq k xq_init)|]. intros t H. reflexivity. Qed.

Theorem binv_reachable evs : Forall wf_bev evs -> BInv (fold_left bxexec evs (bxinit k)).
Proof.
  generalize (bxinit k) binv_init.
  induction evs as [|e evs IH]; intros s B Hwf; [exact B|].
  inversion Hwf as [|? ? He Hrest]; subst. cbn [fold_left]. apply IH; [|exact Hrest].
  destruct e; [apply binv_step|apply binv_start]; assumption.
Qed.

(* C07 for the crossbeam Uni channel: a cancelled stream never stays parked without having been notified *)
Theorem xb_cancel_terminates evs i :
  Forall wf_bev evs -> (i < k)%nat -> ~ stuck_cancelled_xb (fold_left bxexec evs (bxinit k)) i.
Proof. intros H Hi. apply binv_not_stuck; [exact Hi|apply binv_reachable, H]. Qed.

End ChanXbCancel.

(* ------------------------------------------------------------------------------------------- the runner's grants as an event list *)
Section XbHist.
Variable N : Z.
Variable M k : nat.

Definition bxhist_grant (s : bxst) (progs : nat -> list bop) (t : nat) : list bev :=
  if bxbusy s t then [BStep t]
  else match progs t with
       | [] => []
       | o :: _ => if bxbusy (bxstart M s t o) t then [BStart t o; BStep t] else [BStart t o]
       end.
Fixpoint bxhist (s : bxst) (progs : nat -> list bop) (sched : list nat) : list bev :=
  match sched with
  | [] => []
  | t :: rest => let '(s1, progs1, _) := bxgrant N M k s progs t in bxhist_grant s progs t ++ bxhist s1 progs1 rest
  end.

Lemma bxhist_run sched : forall s progs,
  fold_left (bxexec N M k) (bxhist s progs sched) s = fst (bxrun N M k s progs sched).
Proof.
  induction sched as [|t rest IH]; intros s progs; [reflexivity|].
  cbn [bxhist bxrun]. unfold bxgrant, bxhist_grant.
  destruct (bxbusy s t).
  - rewrite fold_left_app. cbn [fold_left bxexec]. rewrite IH. destruct (bxrun _ _ _ _ _ rest). reflexivity.
  - destruct (progs t) as [|o r].
    + rewrite fold_left_app. cbn [fold_left]. rewrite IH. destruct (bxrun _ _ _ _ _ rest). reflexivity.
    + destruct (bxbusy (bxstart M s t o) t); rewrite fold_left_app; cbn [fold_left bxexec]; rewrite IH;
        destruct (bxrun _ _ _ _ _ rest); reflexivity.
Qed.
End XbHist.

Definition ex_progs : nat -> list bop := bprogs_of [[BoBase (CoDrive 0)]; [BoSend 7]; [BoBase CoCancelAll]].
Definition ex_park : list nat := repeat 0%nat 11.
Definition ex_race : list nat := [1; 2; 1; 2; 1; 2; 1; 2; 1; 2; 1; 2]%nat.
Definition ex_wake : list nat := repeat 0%nat 6.
Definition ex_state (sched : list nat) : bxst := fst (bxrun 4 1 1 (bxinit 1) ex_progs sched).
Definition ex_view (s : bxst) :=
  (map (bthr s) [1; 2]%nat, map (cthr xq (bb s)) [0; 1; 2]%nat, keep (m xq (bb s)) 0%nat, notified (m xq (bb s)) 0%nat, clog xq (bb s)).
Definition ex_evs (sched : list nat) : list bev := bxhist 4 1 1 (bxinit 1) ex_progs sched.

(* Non-vacuity (N = 4, MAX_STREAMS = 1, one stream; thread 0 drives it, thread 1 sends 7 through the layer, thread 2 calls cancel_all).
   The stream polls an empty channel, registers and parks.  Then the send and the cancellation run interleaved: afterwards every
   conjunct of `stuck_cancelled_xb _ 0` holds (producers idle in both machines, keep flag cleared, stream parked) EXCEPT that the
   stream is notified.  Granted again, the stream wakes up, yields the buffered 7 first, and ends. *)
Example xb_cancel_nonvacuous :
  Forall (wf_bev 1) (ex_evs (ex_park ++ ex_race ++ ex_wake)) /\
  fold_left (bxexec 4 1 1) (ex_evs ex_park) (bxinit 1) = ex_state ex_park /\
  fold_left (bxexec 4 1 1) (ex_evs (ex_park ++ ex_race)) (bxinit 1) = ex_state (ex_park ++ ex_race) /\
  fold_left (bxexec 4 1 1) (ex_evs (ex_park ++ ex_race ++ ex_wake)) (bxinit 1) = ex_state (ex_park ++ ex_race ++ ex_wake) /\
  ex_view (ex_state ex_park) =
    ([BN; BN], [XParked 0; XIdle; XIdle], true, false, [(0, CPending 0); (0, CPending 0)])%nat /\
  ex_view (ex_state (ex_park ++ ex_race)) =
    ([BN; BN], [XParked 0; XIdle; XIdle], false, true, [(0, CPending 0); (0, CPending 0); (1, CSendOk 7); (2, CCancelled)])%nat /\
  ex_view (ex_state (ex_park ++ ex_race ++ ex_wake)) =
    ([BN; BN], [XIdle; XIdle; XIdle], false, false,
     [(0, CPending 0); (0, CPending 0); (1, CSendOk 7); (2, CCancelled); (0, CYield 0 7); (0, CEnd 0)])%nat /\
  ex_evs (ex_park ++ ex_race ++ ex_wake) =
    [BStart 0 (BoBase (CoDrive 0))] ++ repeat (BStep 0) 11
    ++ [BStart 1 (BoSend 7); BStep 1; BStart 2 (BoBase CoCancelAll); BStep 2; BStep 1; BStep 2; BStep 1; BStep 2; BStep 1; BStep 2]
    ++ repeat (BStep 0) 4.
Proof.
  split; [vm_compute; repeat constructor|].
  repeat (split; [apply bxhist_run|]).
  vm_compute. repeat split; reflexivity.
Qed.

Print Assumptions xb_cancel_terminates.
