(* C20, positive half for the zero-copy ATOMIC Uni channel's queue component (Alloc/ZcUni.v over the lock-free ring of Ring/RingModel.v).
   A lock-free ring cannot promise progress to a thread while another one is in the middle of an operation (it may hold a reservation
   that the CAS of the first has to wait for), so the hypothesis is `calm`: every thread is Idle in the ring or stands at P0 - a publish
   that was started and has not made its first access.  That is exactly how a producer SUSPENDED inside send_with_async looks in the id
   ring (composite pc `UEnqB v id`: slot allocated, publication of the id entered but not begun), and it is Idle in the free list.
   From a calm reachable state every operation run alone completes in a fixed number of its own steps with its proper result, leaves
   the other threads where they were and leaves the ring calm. *)
From RM Require Import RingModel RingInv RingProps RingCov RingSolo.

Section RingCalm.
Variable N : Z.
Hypothesis Npos : 0 < N.
Local Notation step := (stepZ N).
Local Notation exec := (execZ N).
Local Notation run evs := (fold_left exec evs init).

Definition calm (x : st) : Prop := forall u, thr x u = Idle \/ exists v, thr x u = P0 v.
Definition reach (x : st) : Prop := exists evs, x = run evs.

Lemma reach_step x t : reach x -> reach (step x t).
Proof. intros [evs ->]. exists (evs ++ [Step t]). now rewrite fold_left_app. Qed.
Lemma reach_start x t o : reach x -> reach (start x t o).
Proof. intros [evs ->]. exists (evs ++ [Start t o]). now rewrite fold_left_app. Qed.
Lemma reach_inv x : reach x -> Inv N x.
Proof. intros [evs ->]. apply (inv_reachable N Npos). Qed.

(* P0 holds no reservation: in a calm reachable state both reservation counters sit on the validated ones *)
Theorem calm_no_reservations evs :
  let s := run evs in calm s -> etail s = tail s /\ dhead s = head s.
Proof.
  intros s Hc. destruct (invcov_reachable N Npos evs) as [I [Cp Cc]]. fold s in I, Cp, Cc.
  pose proof (i_ord _ _ I) as Hord. split.
  - destruct (Z.eq_dec (etail s) (tail s)); [assumption|].
    destruct (Cp (tail s) ltac:(lia)) as [u Hu]. destruct (Hc u) as [E|[v E]]; rewrite E in Hu; discriminate.
  - destruct (Z.eq_dec (dhead s) (head s)); [assumption|].
    destruct (Cc (head s) ltac:(lia)) as [u Hu]. destruct (Hc u) as [E|[v E]]; rewrite E in Hu; discriminate.
Qed.
Lemma calm_reach_no_reservations x : reach x -> calm x -> etail x = tail x /\ dhead x = head x.
Proof. intros [evs ->]. apply calm_no_reservations. Qed.

Lemma start_other x t o u : u <> t -> thr (start x t o) u = thr x u.
Proof. intros Hn. unfold start. destruct (thr x t); try reflexivity. cbn. now rewrite upd_other. Qed.
Definition rsolo (n : nat) (x : st) (t : nat) : st := Nat.iter n (fun y => step y t) x.
Lemma rsolo_other n x t u : u <> t -> thr (rsolo n x t) u = thr x u.
Proof. intros Hn. induction n as [|n IH]; [reflexivity|]. unfold rsolo in *. cbn [Nat.iter nat_rect]. now rewrite step_other_threads_gen. Qed.
Lemma step_idle_noop x t : thr x t = Idle -> step x t = x.
Proof. intros H. unfold stepZ, RingModel.step. now rewrite H. Qed.

Lemma calm_start x t v : calm x -> calm (start x t (OpPub v)).
Proof.
  intros Hc u. unfold start. destruct (thr x t) eqn:E; try apply Hc. cbn.
  destruct (Nat.eq_dec u t) as [->|Hn]; [rewrite upd_same; right; now exists v|rewrite upd_other by assumption; apply Hc].
Qed.
(* an operation that is over and moved nobody else leaves the ring calm *)
Lemma calm_frame x x' t : calm x -> thr x' t = Idle -> (forall u, u <> t -> thr x' u = thr x u) -> calm x'.
Proof. intros Hc Hi Ho u. destruct (Nat.eq_dec u t) as [->|Hn]; [now left|rewrite (Ho u Hn); apply Hc]. Qed.

Ltac proj := cbn [head tail etail dhead buf thr published delivered log set_thr]; rewrite ?upd_same; repeat split; auto.
Lemma stepP4' s t v slot len : thr s t = P4 v slot len -> tail s = slot ->
  thr (step s t) t = Idle /\ head (step s t) = head s /\ tail (step s t) = slot + 1 /\ etail (step s t) = etail s /\
  dhead (step s t) = dhead s /\ log (step s t) = log s ++ [(t, ROk v (len + 1))] /\ published (step s t) = published s ++ [v] /\
  delivered (step s t) = delivered s.
Proof. intros H He. unfold stepZ, RingModel.step, idz. rewrite H, He, Z.eqb_refl. proj. Qed.
Lemma stepC2' s t slot : thr s t = C2 slot -> dhead s = slot + 1 ->
  thr (step s t) t = Idle /\ head (step s t) = head s /\ tail (step s t) = tail s /\ etail (step s t) = etail s /\ dhead (step s t) = slot /\
  buf (step s t) = buf s /\ log (step s t) = log s ++ [(t, REmpty)] /\ published (step s t) = published s /\ delivered (step s t) = delivered s.
Proof. intros H He. unfold stepZ, RingModel.step, idz. rewrite H, He, Z.eqb_refl. proj. Qed.
Lemma stepC4' s t slot v : thr s t = C4 slot v -> head s = slot ->
  thr (step s t) t = Idle /\ head (step s t) = slot + 1 /\ tail (step s t) = tail s /\ etail (step s t) = etail s /\ dhead (step s t) = dhead s /\
  buf (step s t) = buf s /\ log (step s t) = log s ++ [(t, RGot v)] /\ published (step s t) = published s /\ delivered (step s t) = delivered s ++ [v].
Proof. intros H He. unfold stepZ, RingModel.step, idz. rewrite H, He, Z.eqb_refl. proj. Qed.

(* ---- a publication that stands at P0 (just started, or SUSPENDED there for any length of time), run alone from a calm state ---- *)
Theorem calm_publish_accepted x t v :
  reach x -> calm x -> thr x t = P0 v -> tail x - head x < N ->
  let x1 := step x t in let x2 := step x1 t in let x3 := step x2 t in let x4 := step x3 t in
  thr x1 t <> Idle /\ thr x2 t <> Idle /\ thr x3 t <> Idle /\ thr x4 t = Idle /\
  log x4 = log x ++ [(t, ROk v (tail x - head x + 1))] /\ tail x4 = tail x + 1 /\ head x4 = head x /\
  published x4 = published x ++ [v] /\ (forall u, u <> t -> thr x4 u = thr x u).
Proof.
  cbn zeta. intros Hr Hc A0 Hroom. destruct (calm_reach_no_reservations x Hr Hc) as [He Hd].
  destruct (stepP0 N x t v A0) as (B0 & B1 & B2 & B3 & B4 & B5 & B6 & B7 & B8).
  set (x1 := step x t) in *.
  destruct (stepP1 N x1 t v (etail x) B0) as (C0' & C1' & C2' & C3' & C4' & C5' & C6' & C7' & C8').
  set (x2 := step x1 t) in *.
  assert (Hlt : (etail x - head x1 <? N) = true) by (apply Z.ltb_lt; lia).
  rewrite Hlt in C0'.
  destruct (stepP3 N x2 t v _ _ C0') as (D0 & D1 & D2 & D3 & D4 & D5 & D6 & D7).
  set (x3 := step x2 t) in *.
  destruct (stepP4' x3 t v _ _ D0) as (E0 & E1 & E2 & E3 & E4 & E5 & E6 & E7); [lia|].
  split; [rewrite B0; discriminate|]. split; [rewrite C0'; discriminate|]. split; [rewrite D0; discriminate|].
  split; [exact E0|]. split; [rewrite E5, D5, C6', B6; replace (etail x - head x1 + 1) with (tail x - head x + 1) by lia; reflexivity|].
  split; [lia|]. split; [lia|]. split; [rewrite E6, D6, C7', B7; reflexivity|].
  intros u Hu. unfold x3, x2, x1. now rewrite !step_other_threads_gen by assumption.
Qed.

Theorem calm_publish_rejected x t v :
  reach x -> calm x -> thr x t = P0 v -> N <= tail x - head x ->
  let x1 := step x t in let x2 := step x1 t in let x3 := step x2 t in
  thr x1 t <> Idle /\ thr x2 t <> Idle /\ thr x3 t = Idle /\
  log x3 = log x ++ [(t, RFull v)] /\ head x3 = head x /\ tail x3 = tail x /\ etail x3 = etail x /\ dhead x3 = dhead x /\
  buf x3 = buf x /\ published x3 = published x /\ delivered x3 = delivered x /\ (forall u, u <> t -> thr x3 u = thr x u).
Proof.
  cbn zeta. intros Hr Hc A0 Hfull. destruct (calm_reach_no_reservations x Hr Hc) as [He Hd].
  destruct (stepP0 N x t v A0) as (B0 & B1 & B2 & B3 & B4 & B5 & B6 & B7 & B8).
  set (x1 := step x t) in *.
  destruct (stepP1 N x1 t v (etail x) B0) as (C0' & C1' & C2' & C3' & C4' & C5' & C6' & C7' & C8').
  set (x2 := step x1 t) in *.
  assert (Hge : (etail x - head x1 <? N) = false) by (apply Z.ltb_ge; lia).
  rewrite Hge in C0'.
  destruct (stepP2 N x2 t v _ C0') as (D0 & D1 & D2 & D3 & D4 & D5 & D6 & D7 & D8); [lia|].
  split; [rewrite B0; discriminate|]. split; [rewrite C0'; discriminate|].
  repeat split; try congruence; try lia.
  intros u Hu. unfold x2, x1. now rewrite !step_other_threads_gen by assumption.
Qed.

(* ---- the operations of an idle thread, run alone from a calm reachable state ---- *)
Theorem calm_send_accepted x t v :
  reach x -> calm x -> thr x t = Idle -> tail x - head x < N ->
  let x1 := step (start x t (OpPub v)) t in let x2 := step x1 t in let x3 := step x2 t in let x4 := step x3 t in
  thr x1 t <> Idle /\ thr x2 t <> Idle /\ thr x3 t <> Idle /\ thr x4 t = Idle /\
  log x4 = log x ++ [(t, ROk v (tail x - head x + 1))] /\ tail x4 = tail x + 1 /\ head x4 = head x /\
  published x4 = published x ++ [v] /\ (forall u, u <> t -> thr x4 u = thr x u) /\ calm x4.
Proof.
  cbn zeta. intros Hr Hc Hi Hroom.
  destruct (start_idle x t (OpPub v) Hi) as (A0 & A1 & A2 & A3 & A4 & A5 & A6 & A7 & A8).
  pose proof (calm_publish_accepted (start x t (OpPub v)) t v (reach_start _ _ _ Hr) (calm_start _ _ _ Hc) A0 ltac:(lia)) as H.
  cbn zeta in H. destruct H as (H1 & H2 & H3 & H4 & H5 & H6 & H7 & H8 & H9).
  rewrite A1, A2, A6, A7 in *.
  assert (Ho : forall u, u <> t -> thr (step (step (step (step (start x t (OpPub v)) t) t) t) t) u = thr x u)
    by (intros u Hu; rewrite (H9 u Hu); now apply start_other).
  repeat split; auto. exact (calm_frame x _ t Hc H4 Ho).
Qed.

Theorem calm_send_rejected x t v :
  reach x -> calm x -> thr x t = Idle -> N <= tail x - head x ->
  let x1 := step (start x t (OpPub v)) t in let x2 := step x1 t in let x3 := step x2 t in
  thr x1 t <> Idle /\ thr x2 t <> Idle /\ thr x3 t = Idle /\
  log x3 = log x ++ [(t, RFull v)] /\ head x3 = head x /\ tail x3 = tail x /\ etail x3 = etail x /\ dhead x3 = dhead x /\
  buf x3 = buf x /\ published x3 = published x /\ delivered x3 = delivered x /\ (forall u, u <> t -> thr x3 u = thr x u) /\ calm x3.
Proof.
  cbn zeta. intros Hr Hc Hi Hfull.
  destruct (start_idle x t (OpPub v) Hi) as (A0 & A1 & A2 & A3 & A4 & A5 & A6 & A7 & A8).
  pose proof (calm_publish_rejected (start x t (OpPub v)) t v (reach_start _ _ _ Hr) (calm_start _ _ _ Hc) A0 ltac:(lia)) as H.
  cbn zeta in H. destruct H as (H1 & H2 & H3 & H4 & H5 & H6 & H7 & H8 & H9 & H10 & H11 & H12).
  rewrite A1, A2, A3, A4, A5, A6, A7, A8 in *.
  assert (Ho : forall u, u <> t -> thr (step (step (step (start x t (OpPub v)) t) t) t) u = thr x u)
    by (intros u Hu; rewrite (H12 u Hu); now apply start_other).
  repeat split; auto. exact (calm_frame x _ t Hc H3 Ho).
Qed.

Theorem calm_consume x t :
  reach x -> calm x -> thr x t = Idle -> head x < tail x ->
  let x1 := step (start x t OpCons) t in let x2 := step x1 t in let x3 := step x2 t in let x4 := step x3 t in
  thr x1 t <> Idle /\ thr x2 t <> Idle /\ thr x3 t <> Idle /\ thr x4 t = Idle /\
  log x4 = log x ++ [(t, RGot (nthz (published x) (head x)))] /\ head x4 = head x + 1 /\ tail x4 = tail x /\
  published x4 = published x /\ (forall u, u <> t -> thr x4 u = thr x u) /\ calm x4.
Proof.
  cbn zeta. intros Hr Hc Hi Hne. pose proof (reach_inv x Hr) as I.
  destruct (calm_reach_no_reservations x Hr Hc) as [He Hd].
  destruct (start_idle x t OpCons Hi) as (A0 & A1 & A2 & A3 & A4 & A5 & A6 & A7 & A8).
  set (x0 := start x t OpCons) in *.
  destruct (stepC0 N x0 t A0) as (B0 & B1 & B2 & B3 & B4 & B5 & B6).
  set (x1 := step x0 t) in *.
  destruct (stepC1 N x1 t _ B0) as (C0' & C1' & C2' & C3' & C4' & C5' & C6').
  set (x2 := step x1 t) in *.
  assert (Hlt : (0 <? tail x1 - dhead x0) = true) by (apply Z.ltb_lt; lia).
  rewrite Hlt in C0'.
  destruct (stepC3 N x2 t _ C0') as (D0 & D1 & D2 & D3 & D4 & D5).
  set (x3 := step x2 t) in *.
  destruct (stepC4' x3 t _ _ D0) as (E0 & E1 & E2 & E3 & E4 & E5 & E6 & E7 & E8); [lia|].
  assert (Ho : forall u, u <> t -> thr (step x3 t) u = thr x u).
  { intros u Hu. transitivity (thr x0 u); [unfold x3, x2, x1; now rewrite !step_other_threads_gen by assumption|now apply start_other]. }
  split; [rewrite B0; discriminate|]. split; [rewrite C0'; discriminate|]. split; [rewrite D0; discriminate|].
  split; [exact E0|]. split.
  { rewrite E6, D4, C5', B5, A6. repeat f_equal. rewrite C4', B4, A5, A4, Hd. apply (i_buf _ _ I). lia. }
  split; [lia|]. split; [lia|]. split; [congruence|]. split; [exact Ho|]. exact (calm_frame x _ t Hc E0 Ho).
Qed.

(* the empty answer: fetch-add on dhead, load of tail, the CAS that recedes dhead - 3 own steps, every counter as it was *)
Theorem calm_consume_empty x t :
  reach x -> calm x -> thr x t = Idle -> head x = tail x ->
  let x1 := step (start x t OpCons) t in let x2 := step x1 t in let x3 := step x2 t in
  thr x1 t <> Idle /\ thr x2 t <> Idle /\ thr x3 t = Idle /\
  log x3 = log x ++ [(t, REmpty)] /\ head x3 = head x /\ tail x3 = tail x /\ etail x3 = etail x /\ dhead x3 = dhead x /\
  buf x3 = buf x /\ published x3 = published x /\ (forall u, u <> t -> thr x3 u = thr x u) /\ calm x3.
Proof.
  cbn zeta. intros Hr Hc Hi Hemp.
  destruct (calm_reach_no_reservations x Hr Hc) as [He Hd].
  destruct (start_idle x t OpCons Hi) as (A0 & A1 & A2 & A3 & A4 & A5 & A6 & A7 & A8).
  set (x0 := start x t OpCons) in *.
  destruct (stepC0 N x0 t A0) as (B0 & B1 & B2 & B3 & B4 & B5 & B6).
  assert (B7 : etail (step x0 t) = etail x0) by (apply consumer_keeps_etail; now rewrite A0).
  set (x1 := step x0 t) in *.
  destruct (stepC1 N x1 t _ B0) as (C0' & C1' & C2' & C3' & C4' & C5' & C6').
  assert (C7' : etail (step x1 t) = etail x1) by (apply consumer_keeps_etail; now rewrite B0).
  set (x2 := step x1 t) in *.
  assert (Hge : (0 <? tail x1 - dhead x0) = false) by (apply Z.ltb_ge; lia).
  rewrite Hge in C0'.
  destruct (stepC2' x2 t _ C0') as (D0 & D1 & D2 & D3 & D4 & D5 & D6 & D7 & D8); [lia|].
  assert (Ho : forall u, u <> t -> thr (step x2 t) u = thr x u).
  { intros u Hu. transitivity (thr x0 u); [unfold x2, x1; now rewrite !step_other_threads_gen by assumption|now apply start_other]. }
  split; [rewrite B0; discriminate|]. split; [rewrite C0'; discriminate|].
  repeat split; try congruence; try lia; auto. exact (calm_frame x _ t Hc D0 Ho).
Qed.

End RingCalm.

(* ================================================================================================================================
   The composite: ZcUni.v over two lock-free rings (free list A of slot ids, ring B transporting slot ids) *)
From RM Require Import FullSync ZeroCopy ZcUni ChanZ.

Section ZcCalm.
Variable N : Z.
Hypothesis Npos : 0 < N.
Local Notation ust := (ust st).
Local Notation step := (stepZ N).
Local Notation lastres := (lastres st log).

Definition astep (s : ust) (t : nat) : ust := ustep st (stepZ N) start ZC.ring_idle0 log true (fun _ => 0) s t.
Definition astart (s : ust) (t : nat) (o : op) : ust := ustart st start true s t o.
Definition arelease (s : ust) (t : nat) : ust := urelease st start s t.
Definition asolo (n : nat) (s : ust) (t : nat) : ust := Nat.iter n (fun x => astep x t) s.

Lemma asolo_S n s t : asolo (S n) s t = asolo n (astep s t) t.
Proof. unfold asolo. induction n as [|n IH]; [reflexivity|]. cbn [Nat.iter nat_rect] in *. now rewrite IH. Qed.
Lemma asolo_0 s t : asolo 0 s t = s.
Proof. reflexivity. Qed.

Lemma ridle_false x t : thr x t <> Idle -> ZC.ring_idle0 x t = false.
Proof. unfold ZC.ring_idle0. destruct (thr x t); congruence. Qed.
Lemma ridle_true x t : thr x t = Idle -> ZC.ring_idle0 x t = true.
Proof. unfold ZC.ring_idle0. now intros ->. Qed.
Lemma ridle_true_inv x t : ZC.ring_idle0 x t = true -> thr x t = Idle.
Proof. unfold ZC.ring_idle0. destruct (thr x t); congruence. Qed.
Lemma lastres_snoc (x : st) l t r : log x = l ++ [(t, r)] -> lastres x = r.
Proof. intros H. unfold ZeroCopy.lastres. rewrite H, last_last. reflexivity. Qed.

(* one composite step, on an explicit state, by the composite's pc and by what the component's step did *)
Ltac ustep_open E := unfold astep, ustep; cbn [ua ub upool uthr ulog uheld umk]; rewrite E; cbn [ua ub upool uthr ulog uheld umk].

Lemma a_enqA_busy a b p th l h t v : th t = UEnqA v -> thr (step a t) t <> Idle ->
  astep (umk st a b p th l h) t = umk st (step a t) b p th l h.
Proof. intros E Hb. ustep_open E. rewrite (ridle_false _ _ Hb). reflexivity. Qed.
Lemma a_enqA_got a b p th l h t v id : th t = UEnqA v -> thr (step a t) t = Idle -> lastres (step a t) = RGot id ->
  astep (umk st a b p th l h) t = umk st (step a t) (start b t (OpPub id)) (updz p id v) (upd th t (UEnqB v id)) l h.
Proof. intros E Hb Hl. ustep_open E. rewrite (ridle_true _ _ Hb), Hl. reflexivity. Qed.
Lemma a_enqA_none a b p th l h t v : th t = UEnqA v -> thr (step a t) t = Idle -> lastres (step a t) = REmpty ->
  astep (umk st a b p th l h) t = umk st (step a t) b p (upd th t UIdle) (l ++ [(t, RFull v)]) h.
Proof. intros E Hb Hl. ustep_open E. rewrite (ridle_true _ _ Hb), Hl. reflexivity. Qed.

Lemma a_enqB_busy a b p th l h t v id : th t = UEnqB v id -> thr (step b t) t <> Idle ->
  astep (umk st a b p th l h) t = umk st a (step b t) p th l h.
Proof. intros E Hb. ustep_open E. rewrite (ridle_false _ _ Hb). reflexivity. Qed.
Lemma a_enqB_ok a b p th l h t v id w len : th t = UEnqB v id -> thr (step b t) t = Idle -> lastres (step b t) = ROk w len ->
  astep (umk st a b p th l h) t = umk st a (step b t) p (upd th t UIdle) (l ++ [(t, ROk v len)]) h.
Proof. intros E Hb Hl. ustep_open E. rewrite (ridle_true _ _ Hb), Hl. reflexivity. Qed.
Lemma a_enqB_full a b p th l h t v id w : th t = UEnqB v id -> thr (step b t) t = Idle -> lastres (step b t) = RFull w ->
  astep (umk st a b p th l h) t = umk st a (step b t) p (upd th t UIdle) (l ++ [(t, RFull v)]) h.
Proof. intros E Hb Hl. ustep_open E. rewrite (ridle_true _ _ Hb), Hl. reflexivity. Qed.

Lemma a_deqB_busy a b p th l h t : th t = UDeqB -> thr (step b t) t <> Idle ->
  astep (umk st a b p th l h) t = umk st a (step b t) p th l h.
Proof. intros E Hb. ustep_open E. rewrite (ridle_false _ _ Hb). reflexivity. Qed.
Lemma a_deqB_got a b p th l h t id : th t = UDeqB -> thr (step b t) t = Idle -> lastres (step b t) = RGot id ->
  astep (umk st a b p th l h) t = umk st a (step b t) p (upd th t UIdle) (l ++ [(t, RGot (p id))]) (upd h t (Some id)).
Proof. intros E Hb Hl. ustep_open E. rewrite (ridle_true _ _ Hb), Hl. reflexivity. Qed.
Lemma a_deqB_empty a b p th l h t : th t = UDeqB -> thr (step b t) t = Idle -> lastres (step b t) = REmpty ->
  astep (umk st a b p th l h) t = umk st a (step b t) p (upd th t UIdle) (l ++ [(t, REmpty)]) h.
Proof. intros E Hb Hl. ustep_open E. rewrite (ridle_true _ _ Hb), Hl. reflexivity. Qed.

Lemma a_rel_busy a b p th l h t id : th t = URel id -> thr (step a t) t <> Idle ->
  astep (umk st a b p th l h) t = umk st (step a t) b p th l h.
Proof. intros E Hb. ustep_open E. rewrite (ridle_false _ _ Hb). reflexivity. Qed.
Lemma a_rel_done a b p th l h t id : th t = URel id -> thr (step a t) t = Idle ->
  astep (umk st a b p th l h) t = umk st (step a t) b p (upd th t UIdle) l h.
Proof. intros E Hb. ustep_open E. rewrite (ridle_true _ _ Hb). reflexivity. Qed.

Lemma astart_cons s t : uthr _ s t = UIdle ->
  astart s t OpCons = umk st (ua _ s) (start (ub _ s) t OpCons) (upool _ s) (upd (uthr _ s) t UDeqB) (ulog _ s) (uheld _ s).
Proof. intros H. unfold astart, ustart. now rewrite H. Qed.
Lemma astart_pub s t v : uthr _ s t = UIdle ->
  astart s t (OpPub v) = umk st (start (ua _ s) t OpCons) (ub _ s) (upool _ s) (upd (uthr _ s) t (UEnqA v)) (ulog _ s) (uheld _ s).
Proof. intros H. unfold astart, ustart. now rewrite H. Qed.
Lemma arelease_held s t id : uthr _ s t = UIdle -> uheld _ s t = Some id ->
  arelease s t = umk st (start (ua _ s) t (OpPub id)) (ub _ s) (upool _ s) (upd (uthr _ s) t (URel id)) (ulog _ s) (upd (uheld _ s) t None).
Proof. intros H H'. unfold arelease, urelease. now rewrite H, H'. Qed.

(* thread t can begin an operation and both rings are calm *)
Definition ready (s : ust) (t : nat) : Prop :=
  reach N (ua _ s) /\ reach N (ub _ s) /\ calm (ua _ s) /\ calm (ub _ s) /\
  uthr _ s t = UIdle /\ thr (ua _ s) t = Idle /\ thr (ub _ s) t = Idle.
(* nobody else was moved: composite pcs and the pcs inside both rings *)
Definition others_kept (s s' : ust) (t : nat) : Prop :=
  forall u, u <> t -> uthr _ s' u = uthr _ s u /\ thr (ua _ s') u = thr (ua _ s) u /\ thr (ub _ s') u = thr (ub _ s) u.

Ltac roll :=
  repeat (rewrite asolo_S; match goal with E : astep ?x ?t = _ |- context[astep ?x ?t] => rewrite E end); rewrite asolo_0.
Ltac not_yet Hk :=
  repeat (match goal with k : nat |- _ => destruct k as [|k]; [roll; cbn [uthr umk]; rewrite ?upd_same; congruence|] end); exfalso; lia.
Ltac reach_tac := repeat apply reach_step; try apply reach_start; assumption.

(* ---- consume ---- *)
Theorem zca_consume s t :
  ready s t -> head (ub _ s) < tail (ub _ s) ->
  let id := nthz (published (ub _ s)) (head (ub _ s)) in
  let s0 := astart s t OpCons in let s' := asolo 4 s0 t in
  (forall k, (k < 4)%nat -> uthr _ (asolo k s0 t) t <> UIdle) /\
  ulog _ s' = ulog _ s ++ [(t, RGot (upool _ s id))] /\ uheld _ s' = upd (uheld _ s) t (Some id) /\ upool _ s' = upool _ s /\
  ua _ s' = ua _ s /\ head (ub _ s') = head (ub _ s) + 1 /\ tail (ub _ s') = tail (ub _ s) /\ ready s' t /\ others_kept s s' t.
Proof.
  intros (Ra & Rb & Ca & Cb & Hi & Ia & Ib) Hne. cbn zeta.
  pose proof (calm_consume N Npos (ub _ s) t Rb Cb Ib Hne) as H. cbn zeta in H.
  destruct H as (H1 & H2 & H3 & H4 & H5 & H6 & H7 & H8 & H9 & H10).
  rewrite (astart_cons s t Hi).
  set (b0 := start (ub _ s) t OpCons) in *. set (b1 := step b0 t) in *. set (b2 := step b1 t) in *. set (b3 := step b2 t) in *.
  set (b4 := step b3 t) in *. set (th := upd (uthr _ s) t UDeqB).
  assert (Eth : th t = UDeqB) by apply upd_same.
  pose proof (a_deqB_busy (ua _ s) b0 (upool _ s) th (ulog _ s) (uheld _ s) t Eth H1) as E1. fold b1 in E1.
  pose proof (a_deqB_busy (ua _ s) b1 (upool _ s) th (ulog _ s) (uheld _ s) t Eth H2) as E2. fold b2 in E2.
  pose proof (a_deqB_busy (ua _ s) b2 (upool _ s) th (ulog _ s) (uheld _ s) t Eth H3) as E3. fold b3 in E3.
  pose proof (a_deqB_got (ua _ s) b3 (upool _ s) th (ulog _ s) (uheld _ s) t _ Eth H4 (lastres_snoc _ _ _ _ H5)) as E4. fold b4 in E4.
  split; [intros k Hk; not_yet Hk|].
  roll. cbn [ua ub upool uthr ulog uheld umk].
  repeat split; cbn [ua ub upool uthr ulog uheld umk]; auto; try reach_tac.
  - apply upd_same.
  - unfold th. now rewrite !upd_other.
Qed.

Theorem zca_consume_empty s t :
  ready s t -> head (ub _ s) = tail (ub _ s) ->
  let s0 := astart s t OpCons in let s' := asolo 3 s0 t in
  (forall k, (k < 3)%nat -> uthr _ (asolo k s0 t) t <> UIdle) /\
  ulog _ s' = ulog _ s ++ [(t, REmpty)] /\ uheld _ s' = uheld _ s /\ upool _ s' = upool _ s /\
  ua _ s' = ua _ s /\ head (ub _ s') = head (ub _ s) /\ tail (ub _ s') = tail (ub _ s) /\ ready s' t /\ others_kept s s' t.
Proof.
  intros (Ra & Rb & Ca & Cb & Hi & Ia & Ib) Hne. cbn zeta.
  pose proof (calm_consume_empty N Npos (ub _ s) t Rb Cb Ib Hne) as H. cbn zeta in H.
  destruct H as (H1 & H2 & H3 & H4 & H5 & H6 & H7 & H8 & H9 & H10 & H11 & H12).
  rewrite (astart_cons s t Hi).
  set (b0 := start (ub _ s) t OpCons) in *. set (b1 := step b0 t) in *. set (b2 := step b1 t) in *. set (b3 := step b2 t) in *.
  set (th := upd (uthr _ s) t UDeqB).
  assert (Eth : th t = UDeqB) by apply upd_same.
  pose proof (a_deqB_busy (ua _ s) b0 (upool _ s) th (ulog _ s) (uheld _ s) t Eth H1) as E1. fold b1 in E1.
  pose proof (a_deqB_busy (ua _ s) b1 (upool _ s) th (ulog _ s) (uheld _ s) t Eth H2) as E2. fold b2 in E2.
  pose proof (a_deqB_empty (ua _ s) b2 (upool _ s) th (ulog _ s) (uheld _ s) t Eth H3 (lastres_snoc _ _ _ _ H4)) as E3. fold b3 in E3.
  split; [intros k Hk; not_yet Hk|].
  roll. cbn [ua ub upool uthr ulog uheld umk].
  repeat split; cbn [ua ub upool uthr ulog uheld umk]; auto; try reach_tac.
  - apply upd_same.
  - unfold th. now rewrite !upd_other.
Qed.

(* a producer SUSPENDED inside send_with_async: its slot is allocated (the free list is done with it), the publication of the id is
   entered and has not performed its first access *)
Definition suspended (s : ust) (t : nat) : Prop :=
  exists v id, uthr _ s t = UEnqB v id /\ thr (ub _ s) t = P0 id /\ thr (ua _ s) t = Idle.

(* ---- publish ---- *)
(* a free slot exists and the id ring has room: allocation 4 steps (after which the thread is where a suspended send_with_async stands),
   publication of the id 4 steps *)
Theorem zca_publish s t v :
  ready s t -> head (ua _ s) < tail (ua _ s) -> tail (ub _ s) - head (ub _ s) < N ->
  let id := nthz (published (ua _ s)) (head (ua _ s)) in
  let s0 := astart s t (OpPub v) in let s' := asolo 8 s0 t in
  (forall k, (k < 8)%nat -> uthr _ (asolo k s0 t) t <> UIdle) /\
  (uthr _ (asolo 4 s0 t) t = UEnqB v id /\ thr (ub _ (asolo 4 s0 t)) t = P0 id /\ thr (ua _ (asolo 4 s0 t)) t = Idle) /\
  ulog _ s' = ulog _ s ++ [(t, ROk v (tail (ub _ s) - head (ub _ s) + 1))] /\ uheld _ s' = uheld _ s /\
  upool _ s' = updz (upool _ s) id v /\
  head (ua _ s') = head (ua _ s) + 1 /\ tail (ua _ s') = tail (ua _ s) /\
  head (ub _ s') = head (ub _ s) /\ tail (ub _ s') = tail (ub _ s) + 1 /\ published (ub _ s') = published (ub _ s) ++ [id] /\
  ready s' t /\ others_kept s s' t.
Proof.
  intros (Ra & Rb & Ca & Cb & Hi & Ia & Ib) Hne Hroom. cbn zeta.
  set (id := nthz (published (ua _ s)) (head (ua _ s))).
  pose proof (calm_consume N Npos (ua _ s) t Ra Ca Ia Hne) as H. cbn zeta in H. fold id in H.
  destruct H as (H1 & H2 & H3 & H4 & H5 & H6 & H7 & H8 & H9 & H10).
  pose proof (calm_send_accepted N Npos (ub _ s) t id Rb Cb Ib Hroom) as G. cbn zeta in G.
  destruct G as (G1 & G2 & G3 & G4 & G5 & G6 & G7 & G8 & G9 & G10).
  rewrite (astart_pub s t v Hi).
  set (a0 := start (ua _ s) t OpCons) in *. set (a1 := step a0 t) in *. set (a2 := step a1 t) in *. set (a3 := step a2 t) in *.
  set (a4 := step a3 t) in *.
  assert (B0 : thr (start (ub _ s) t (OpPub id)) t = P0 id) by (apply (start_idle (ub _ s) t (OpPub id) Ib)).
  set (b0 := start (ub _ s) t (OpPub id)) in *. set (b1 := step b0 t) in *. set (b2 := step b1 t) in *. set (b3 := step b2 t) in *.
  set (b4 := step b3 t) in *.
  set (th := upd (uthr _ s) t (UEnqA v)). set (th2 := upd th t (UEnqB v id)). set (p2 := updz (upool _ s) id v).
  assert (Eth : th t = UEnqA v) by apply upd_same.
  assert (Eth2 : th2 t = UEnqB v id) by apply upd_same.
  pose proof (a_enqA_busy a0 (ub _ s) (upool _ s) th (ulog _ s) (uheld _ s) t v Eth H1) as E1. fold a1 in E1.
  pose proof (a_enqA_busy a1 (ub _ s) (upool _ s) th (ulog _ s) (uheld _ s) t v Eth H2) as E2. fold a2 in E2.
  pose proof (a_enqA_busy a2 (ub _ s) (upool _ s) th (ulog _ s) (uheld _ s) t v Eth H3) as E3. fold a3 in E3.
  pose proof (a_enqA_got a3 (ub _ s) (upool _ s) th (ulog _ s) (uheld _ s) t v id Eth H4 (lastres_snoc _ _ _ _ H5)) as E4.
  fold a4 b0 th2 p2 in E4.
  pose proof (a_enqB_busy a4 b0 p2 th2 (ulog _ s) (uheld _ s) t v id Eth2 G1) as E5. fold b1 in E5.
  pose proof (a_enqB_busy a4 b1 p2 th2 (ulog _ s) (uheld _ s) t v id Eth2 G2) as E6. fold b2 in E6.
  pose proof (a_enqB_busy a4 b2 p2 th2 (ulog _ s) (uheld _ s) t v id Eth2 G3) as E7. fold b3 in E7.
  pose proof (a_enqB_ok a4 b3 p2 th2 (ulog _ s) (uheld _ s) t v id _ _ Eth2 G4 (lastres_snoc _ _ _ _ G5)) as E8. fold b4 in E8.
  split; [intros k Hk; not_yet Hk|].
  split; [roll; cbn [ua ub upool uthr ulog uheld umk]; repeat split; assumption|].
  roll. repeat split; cbn [ua ub upool uthr ulog uheld umk]; auto; try reach_tac.
  - apply upd_same.
  - unfold th2, th. now rewrite !upd_other.
Qed.

(* no free slot: the allocation answers "empty" after 3 steps, the send is rejected *)
Theorem zca_publish_no_slot s t v :
  ready s t -> head (ua _ s) = tail (ua _ s) ->
  let s0 := astart s t (OpPub v) in let s' := asolo 3 s0 t in
  (forall k, (k < 3)%nat -> uthr _ (asolo k s0 t) t <> UIdle) /\
  ulog _ s' = ulog _ s ++ [(t, RFull v)] /\ uheld _ s' = uheld _ s /\ upool _ s' = upool _ s /\
  head (ua _ s') = head (ua _ s) /\ tail (ua _ s') = tail (ua _ s) /\ ub _ s' = ub _ s /\ ready s' t /\ others_kept s s' t.
Proof.
  intros (Ra & Rb & Ca & Cb & Hi & Ia & Ib) Hemp. cbn zeta.
  pose proof (calm_consume_empty N Npos (ua _ s) t Ra Ca Ia Hemp) as H. cbn zeta in H.
  destruct H as (H1 & H2 & H3 & H4 & H5 & H6 & H7 & H8 & H9 & H10 & H11 & H12).
  rewrite (astart_pub s t v Hi).
  set (a0 := start (ua _ s) t OpCons) in *. set (a1 := step a0 t) in *. set (a2 := step a1 t) in *. set (a3 := step a2 t) in *.
  set (th := upd (uthr _ s) t (UEnqA v)).
  assert (Eth : th t = UEnqA v) by apply upd_same.
  pose proof (a_enqA_busy a0 (ub _ s) (upool _ s) th (ulog _ s) (uheld _ s) t v Eth H1) as E1. fold a1 in E1.
  pose proof (a_enqA_busy a1 (ub _ s) (upool _ s) th (ulog _ s) (uheld _ s) t v Eth H2) as E2. fold a2 in E2.
  pose proof (a_enqA_none a2 (ub _ s) (upool _ s) th (ulog _ s) (uheld _ s) t v Eth H3 (lastres_snoc _ _ _ _ H4)) as E3. fold a3 in E3.
  split; [intros k Hk; not_yet Hk|].
  roll. repeat split; cbn [ua ub upool uthr ulog uheld umk]; auto; try reach_tac.
  - apply upd_same.
  - unfold th. now rewrite !upd_other.
Qed.

(* (the branch ZcUni.v marks unreachable - a slot was free although the id ring holds N ids - also terminates: 4 + 3 steps) *)
Theorem zca_publish_ring_full s t v :
  ready s t -> head (ua _ s) < tail (ua _ s) -> N <= tail (ub _ s) - head (ub _ s) ->
  let s0 := astart s t (OpPub v) in let s' := asolo 7 s0 t in
  (forall k, (k < 7)%nat -> uthr _ (asolo k s0 t) t <> UIdle) /\
  ulog _ s' = ulog _ s ++ [(t, RFull v)] /\ uheld _ s' = uheld _ s /\
  head (ub _ s') = head (ub _ s) /\ tail (ub _ s') = tail (ub _ s) /\ ready s' t /\ others_kept s s' t.
Proof.
  intros (Ra & Rb & Ca & Cb & Hi & Ia & Ib) Hne Hfull. cbn zeta.
  set (id := nthz (published (ua _ s)) (head (ua _ s))).
  pose proof (calm_consume N Npos (ua _ s) t Ra Ca Ia Hne) as H. cbn zeta in H. fold id in H.
  destruct H as (H1 & H2 & H3 & H4 & H5 & H6 & H7 & H8 & H9 & H10).
  pose proof (calm_send_rejected N Npos (ub _ s) t id Rb Cb Ib Hfull) as G. cbn zeta in G.
  destruct G as (G1 & G2 & G3 & G4 & G5 & G6 & G7 & G8 & G9 & G10 & G11 & G12 & G13).
  rewrite (astart_pub s t v Hi).
  set (a0 := start (ua _ s) t OpCons) in *. set (a1 := step a0 t) in *. set (a2 := step a1 t) in *. set (a3 := step a2 t) in *.
  set (a4 := step a3 t) in *.
  set (b0 := start (ub _ s) t (OpPub id)) in *. set (b1 := step b0 t) in *. set (b2 := step b1 t) in *. set (b3 := step b2 t) in *.
  set (th := upd (uthr _ s) t (UEnqA v)). set (th2 := upd th t (UEnqB v id)). set (p2 := updz (upool _ s) id v).
  assert (Eth : th t = UEnqA v) by apply upd_same.
  assert (Eth2 : th2 t = UEnqB v id) by apply upd_same.
  pose proof (a_enqA_busy a0 (ub _ s) (upool _ s) th (ulog _ s) (uheld _ s) t v Eth H1) as E1. fold a1 in E1.
  pose proof (a_enqA_busy a1 (ub _ s) (upool _ s) th (ulog _ s) (uheld _ s) t v Eth H2) as E2. fold a2 in E2.
  pose proof (a_enqA_busy a2 (ub _ s) (upool _ s) th (ulog _ s) (uheld _ s) t v Eth H3) as E3. fold a3 in E3.
  pose proof (a_enqA_got a3 (ub _ s) (upool _ s) th (ulog _ s) (uheld _ s) t v id Eth H4 (lastres_snoc _ _ _ _ H5)) as E4.
  fold a4 b0 th2 p2 in E4.
  pose proof (a_enqB_busy a4 b0 p2 th2 (ulog _ s) (uheld _ s) t v id Eth2 G1) as E5. fold b1 in E5.
  pose proof (a_enqB_busy a4 b1 p2 th2 (ulog _ s) (uheld _ s) t v id Eth2 G2) as E6. fold b2 in E6.
  pose proof (a_enqB_full a4 b2 p2 th2 (ulog _ s) (uheld _ s) t v id _ Eth2 G3 (lastres_snoc _ _ _ _ G4)) as E7. fold b3 in E7.
  split; [intros k Hk; not_yet Hk|].
  roll. repeat split; cbn [ua ub upool uthr ulog uheld umk]; auto; try reach_tac.
  - apply upd_same.
  - unfold th2, th. now rewrite !upd_other.
Qed.

(* ---- release: the drop of the handle the thread holds ---- *)
Theorem zca_release s t id :
  ready s t -> uheld _ s t = Some id -> tail (ua _ s) - head (ua _ s) < N ->
  let s0 := arelease s t in let s' := asolo 4 s0 t in
  (forall k, (k < 4)%nat -> uthr _ (asolo k s0 t) t <> UIdle) /\
  ulog _ s' = ulog _ s /\ uheld _ s' = upd (uheld _ s) t None /\ upool _ s' = upool _ s /\ ub _ s' = ub _ s /\
  head (ua _ s') = head (ua _ s) /\ tail (ua _ s') = tail (ua _ s) + 1 /\ published (ua _ s') = published (ua _ s) ++ [id] /\
  ready s' t /\ others_kept s s' t.
Proof.
  intros (Ra & Rb & Ca & Cb & Hi & Ia & Ib) Hh Hroom. cbn zeta.
  pose proof (calm_send_accepted N Npos (ua _ s) t id Ra Ca Ia Hroom) as G. cbn zeta in G.
  destruct G as (G1 & G2 & G3 & G4 & G5 & G6 & G7 & G8 & G9 & G10).
  rewrite (arelease_held s t id Hi Hh).
  set (a0 := start (ua _ s) t (OpPub id)) in *. set (a1 := step a0 t) in *. set (a2 := step a1 t) in *. set (a3 := step a2 t) in *.
  set (a4 := step a3 t) in *.
  set (th := upd (uthr _ s) t (URel id)). set (h2 := upd (uheld _ s) t None).
  assert (Eth : th t = URel id) by apply upd_same.
  pose proof (a_rel_busy a0 (ub _ s) (upool _ s) th (ulog _ s) h2 t id Eth G1) as E1. fold a1 in E1.
  pose proof (a_rel_busy a1 (ub _ s) (upool _ s) th (ulog _ s) h2 t id Eth G2) as E2. fold a2 in E2.
  pose proof (a_rel_busy a2 (ub _ s) (upool _ s) th (ulog _ s) h2 t id Eth G3) as E3. fold a3 in E3.
  pose proof (a_rel_done a3 (ub _ s) (upool _ s) th (ulog _ s) h2 t id Eth G4) as E4. fold a4 in E4.
  split; [intros k Hk; not_yet Hk|].
  roll. repeat split; cbn [ua ub upool uthr ulog uheld umk]; auto; try reach_tac.
  - apply upd_same.
  - unfold th. now rewrite !upd_other.
Qed.

(* (a free list that already holds N ids cannot be handed another one by a run of the channel; the composite terminates there too) *)
Theorem zca_release_full s t id :
  ready s t -> uheld _ s t = Some id -> N <= tail (ua _ s) - head (ua _ s) ->
  let s0 := arelease s t in let s' := asolo 3 s0 t in
  (forall k, (k < 3)%nat -> uthr _ (asolo k s0 t) t <> UIdle) /\
  ulog _ s' = ulog _ s /\ ready s' t /\ others_kept s s' t.
Proof.
  intros (Ra & Rb & Ca & Cb & Hi & Ia & Ib) Hh Hfull. cbn zeta.
  pose proof (calm_send_rejected N Npos (ua _ s) t id Ra Ca Ia Hfull) as G. cbn zeta in G.
  destruct G as (G1 & G2 & G3 & G4 & G5 & G6 & G7 & G8 & G9 & G10 & G11 & G12 & G13).
  rewrite (arelease_held s t id Hi Hh).
  set (a0 := start (ua _ s) t (OpPub id)) in *. set (a1 := step a0 t) in *. set (a2 := step a1 t) in *. set (a3 := step a2 t) in *.
  set (th := upd (uthr _ s) t (URel id)). set (h2 := upd (uheld _ s) t None).
  assert (Eth : th t = URel id) by apply upd_same.
  pose proof (a_rel_busy a0 (ub _ s) (upool _ s) th (ulog _ s) h2 t id Eth G1) as E1. fold a1 in E1.
  pose proof (a_rel_busy a1 (ub _ s) (upool _ s) th (ulog _ s) h2 t id Eth G2) as E2. fold a2 in E2.
  pose proof (a_rel_done a2 (ub _ s) (upool _ s) th (ulog _ s) h2 t id Eth G3) as E3. fold a3 in E3.
  split; [intros k Hk; not_yet Hk|].
  roll. repeat split; cbn [ua ub upool uthr ulog uheld umk]; auto; try reach_tac.
  - apply upd_same.
  - unfold th. now rewrite !upd_other.
Qed.

(* ---- the suspended producer itself: resumed while the rings are calm, its publication completes in 4 own steps ---- *)
Theorem zca_resume s t v id :
  reach N (ua _ s) -> reach N (ub _ s) -> calm (ua _ s) -> calm (ub _ s) ->
  uthr _ s t = UEnqB v id -> thr (ub _ s) t = P0 id -> thr (ua _ s) t = Idle -> tail (ub _ s) - head (ub _ s) < N ->
  let s' := asolo 4 s t in
  (forall k, (k < 4)%nat -> uthr _ (asolo k s t) t <> UIdle) /\
  ulog _ s' = ulog _ s ++ [(t, ROk v (tail (ub _ s) - head (ub _ s) + 1))] /\ uheld _ s' = uheld _ s /\ upool _ s' = upool _ s /\
  ua _ s' = ua _ s /\ head (ub _ s') = head (ub _ s) /\ tail (ub _ s') = tail (ub _ s) + 1 /\
  published (ub _ s') = published (ub _ s) ++ [id] /\ ready s' t /\ others_kept s s' t.
Proof.
  destruct s as [a b p th l h]. cbn [ua ub upool uthr ulog uheld]. intros Ra Rb Ca Cb Eth B0 Ia Hroom. cbn zeta.
  fold (umk st a b p th l h).
  pose proof (calm_publish_accepted N Npos b t id Rb Cb B0 Hroom) as G. cbn zeta in G.
  destruct G as (G1 & G2 & G3 & G4 & G5 & G6 & G7 & G8 & G9).
  set (b1 := step b t) in *. set (b2 := step b1 t) in *. set (b3 := step b2 t) in *. set (b4 := step b3 t) in *.
  pose proof (a_enqB_busy a b p th l h t v id Eth G1) as E1. fold b1 in E1.
  pose proof (a_enqB_busy a b1 p th l h t v id Eth G2) as E2. fold b2 in E2.
  pose proof (a_enqB_busy a b2 p th l h t v id Eth G3) as E3. fold b3 in E3.
  pose proof (a_enqB_ok a b3 p th l h t v id _ _ Eth G4 (lastres_snoc _ _ _ _ G5)) as E4. fold b4 in E4.
  split; [intros k Hk; not_yet Hk|].
  roll. repeat split; cbn [ua ub upool uthr ulog uheld umk]; auto; try reach_tac.
  - exact (calm_frame b b4 t Cb G4 G9).
  - apply upd_same.
  - now rewrite upd_other.
Qed.

(* ---- summary: from a ready state every operation of thread t, run alone, is over after exactly n own steps ---- *)
(* started as s0 from s, thread t is back at UIdle after n own steps and not before; the log gained exactly the response r (none for a
   release); nobody else moved; both rings are calm and reachable again and t is idle in them *)
Definition completes (s s0 : ust) (n : nat) (t : nat) (r : option res) : Prop :=
  let s' := asolo n s0 t in
  (forall k, (k < n)%nat -> uthr _ (asolo k s0 t) t <> UIdle) /\
  ulog _ s' = ulog _ s ++ (match r with Some r => [(t, r)] | None => [] end) /\
  ready s' t /\ others_kept s s' t.

Definition calm_progress (s : ust) (t : nat) : Prop :=
  let A := ua _ s in let B := ub _ s in
  (* consume *)
  (head B < tail B -> completes s (astart s t OpCons) 4 t (Some (RGot (upool _ s (nthz (published B) (head B)))))) /\
  (head B = tail B -> completes s (astart s t OpCons) 3 t (Some REmpty)) /\
  (* publish *)
  (forall v, (head A < tail A -> tail B - head B < N -> completes s (astart s t (OpPub v)) 8 t (Some (ROk v (tail B - head B + 1)))) /\
             (head A = tail A -> completes s (astart s t (OpPub v)) 3 t (Some (RFull v))) /\
             (head A < tail A -> N <= tail B - head B -> completes s (astart s t (OpPub v)) 7 t (Some (RFull v)))) /\
  (* release *)
  (forall id, uheld _ s t = Some id ->
             (tail A - head A < N -> completes s (arelease s t) 4 t None) /\
             (N <= tail A - head A -> completes s (arelease s t) 3 t None)).

Theorem ready_calm_progress s t : ready s t -> calm_progress s t.
Proof.
  intros R. unfold calm_progress. cbn zeta. unfold completes. cbn zeta.
  split; [intros H; destruct (zca_consume s t R H) as (K & L & _ & _ & _ & _ & _ & R' & O); cbn zeta in *; auto|].
  split; [intros H; destruct (zca_consume_empty s t R H) as (K & L & _ & _ & _ & _ & _ & R' & O); cbn zeta in *; auto|].
  split.
  - intros v. split; [|split].
    + intros H H'. destruct (zca_publish s t v R H H') as (K & _ & L & _ & _ & _ & _ & _ & _ & _ & R' & O); cbn zeta in *; auto.
    + intros H. destruct (zca_publish_no_slot s t v R H) as (K & L & _ & _ & _ & _ & _ & R' & O); cbn zeta in *; auto.
    + intros H H'. destruct (zca_publish_ring_full s t v R H H') as (K & L & _ & _ & _ & R' & O); cbn zeta in *; auto.
  - intros id Hh. split.
    + intros H. destruct (zca_release s t id R Hh H) as (K & L & _ & _ & _ & _ & _ & _ & R' & O); cbn zeta in *.
      rewrite app_nil_r. auto.
    + intros H. destruct (zca_release_full s t id R Hh H) as (K & L & R' & O); cbn zeta in *. rewrite app_nil_r. auto.
Qed.

(* ... in particular (the shape of ZcSolo / zcf_suspended_send_blocks_nobody): a consume is over within 4 own steps, a send within 8,
   the release of a held handle within 4, each with a response that belongs to the call *)
Theorem ready_blocks_nobody s t :
  ready s t ->
  (exists n r, (n <= 4)%nat /\ completes s (astart s t OpCons) n t (Some r) /\ matches OpCons r) /\
  (forall v, exists n r, (n <= 8)%nat /\ completes s (astart s t (OpPub v)) n t (Some r) /\ matches (OpPub v) r) /\
  (forall id, uheld _ s t = Some id -> exists n, (n <= 4)%nat /\ completes s (arelease s t) n t None).
Proof.
  intros R. destruct (ready_calm_progress s t R) as (C1 & C2 & P & L). cbn zeta in *.
  destruct R as (Ra & Rb & _).
  pose proof (i_ord _ _ (reach_inv N Npos _ Ra)) as Oa. pose proof (i_ord _ _ (reach_inv N Npos _ Rb)) as Ob.
  split; [|split].
  - destruct (Z.eq_dec (head (ub _ s)) (tail (ub _ s))) as [He|Hn].
    + exists 3%nat, REmpty. split; [lia|]. split; [now apply C2|exact I].
    + eexists 4%nat, _. split; [lia|]. split; [apply C1; lia|exact I].
  - intros v. destruct (P v) as (P1 & P2 & P3).
    destruct (Z.eq_dec (head (ua _ s)) (tail (ua _ s))) as [He|Hn].
    + exists 3%nat, (RFull v). split; [lia|]. split; [now apply P2|reflexivity].
    + destruct (Z_lt_le_dec (tail (ub _ s) - head (ub _ s)) N) as [Hr|Hf].
      * eexists 8%nat, _. split; [lia|]. split; [apply P1; lia|reflexivity].
      * exists 7%nat, (RFull v). split; [lia|]. split; [apply P3; lia|reflexivity].
  - intros id Hh. destruct (L id Hh) as (L1 & L2).
    destruct (Z_lt_le_dec (tail (ua _ s) - head (ua _ s)) N) as [Hr|Hf].
    + exists 4%nat. split; [lia|]. now apply L1.
    + exists 3%nat. split; [lia|]. now apply L2.
Qed.

(* a suspended producer does not break calm: what it holds is a pool slot, and nothing in either ring *)
Lemma suspended_is_calm s t : suspended s t ->
  (thr (ua _ s) t = Idle \/ exists v, thr (ua _ s) t = P0 v) /\ (thr (ub _ s) t = Idle \/ exists v, thr (ub _ s) t = P0 v).
Proof. intros (v & id & _ & Hb & Ha). split; [now left|right; now exists id]. Qed.
Lemma calm_of_idle_or_suspended s :
  (forall u, (thr (ua _ s) u = Idle /\ thr (ub _ s) u = Idle) \/ suspended s u) -> calm (ua _ s) /\ calm (ub _ s).
Proof.
  intros H. split; intros u; (destruct (H u) as [[Ha Hb]|Hs]; [now left|]); now apply (suspended_is_calm s u).
Qed.

(* ---- which component a composite thread is inside: it is idle in the other one ---- *)
Definition phase_ok (s : ust) (t : nat) : Prop :=
  match uthr _ s t with
  | UIdle => thr (ua _ s) t = Idle /\ thr (ub _ s) t = Idle
  | UEnqA _ | URel _ => thr (ub _ s) t = Idle
  | UEnqB _ _ | UDeqB | ULenB => thr (ua _ s) t = Idle
  end.
Definition CI (s : ust) : Prop := forall t, phase_ok s t.

Ltac ci_same Ei Ct := cbn [ua ub upool uthr ulog uheld umk]; rewrite ?upd_same; cbn in Ct; auto using ridle_true_inv.
Ltac ci_other Cu :=
  cbn [ua ub upool uthr ulog uheld umk]; rewrite ?upd_other by assumption;
  rewrite ?step_other_threads_gen, ?start_other by assumption; exact Cu.

Lemma ci_step s t : CI s -> CI (astep s t).
Proof.
  intros C u. pose proof (C u) as Cu. pose proof (C t) as Ct. unfold phase_ok in *.
  unfold astep, ustep. destruct (uthr _ s t) eqn:E; cbv zeta.
  - exact Cu.
  - destruct (ZC.ring_idle0 (step (ua _ s) t) t) eqn:Ei; [destruct (ZeroCopy.lastres st log (step (ua _ s) t))|];
      (destruct (Nat.eq_dec u t) as [->|Hn]; [ci_same Ei Ct; try (rewrite E; exact Ct)|ci_other Cu]).
  - destruct (ZC.ring_idle0 (step (ub _ s) t) t) eqn:Ei; [destruct (ZeroCopy.lastres st log (step (ub _ s) t))|];
      (destruct (Nat.eq_dec u t) as [->|Hn]; [ci_same Ei Ct; try (rewrite E; exact Ct)|ci_other Cu]).
  - destruct (ZC.ring_idle0 (step (ub _ s) t) t) eqn:Ei; [destruct (ZeroCopy.lastres st log (step (ub _ s) t))|];
      (destruct (Nat.eq_dec u t) as [->|Hn]; [ci_same Ei Ct; try (rewrite E; exact Ct)|ci_other Cu]).
  - destruct (ZC.ring_idle0 (step (ua _ s) t) t) eqn:Ei;
      (destruct (Nat.eq_dec u t) as [->|Hn]; [ci_same Ei Ct; try (rewrite E; exact Ct)|ci_other Cu]).
  - destruct (ZC.ring_idle0 (step (ub _ s) t) t) eqn:Ei; [destruct (ZeroCopy.lastres st log (step (ub _ s) t))|];
      (destruct (Nat.eq_dec u t) as [->|Hn]; [ci_same Ei Ct; try (rewrite E; exact Ct)|ci_other Cu]).
Qed.

Lemma ci_start s t o : CI s -> CI (astart s t o).
Proof.
  intros C u. pose proof (C u) as Cu. pose proof (C t) as Ct. unfold phase_ok in *. unfold astart, ustart.
  destruct (uthr _ s t) eqn:E; try exact Cu.
  destruct o; (destruct (Nat.eq_dec u t) as [->|Hn]; [cbn [ua ub upool uthr ulog uheld umk]; rewrite upd_same; tauto|ci_other Cu]).
Qed.
Lemma ci_release s t : CI s -> CI (arelease s t).
Proof.
  intros C u. pose proof (C u) as Cu. pose proof (C t) as Ct. unfold phase_ok in *. unfold arelease, urelease.
  destruct (uthr _ s t) eqn:E; try exact Cu. destruct (uheld _ s t); [|exact Cu].
  destruct (Nat.eq_dec u t) as [->|Hn]; [cbn [ua ub upool uthr ulog uheld umk]; rewrite upd_same; tauto|ci_other Cu].
Qed.

End ZcCalm.

Print Assumptions calm_no_reservations.
Print Assumptions ready_calm_progress.
Print Assumptions ready_blocks_nobody.
Print Assumptions zca_resume.
