(* Executable model of `OgreArc` (/repo/src/ogre_std/ogre_alloc/ogre_arc.rs): a control block with `references_count`,
   handles as tokens owned by threads.
     clone : references_count.fetch_add(1) - then the new handle exists                                    (1 step)
     drop  : the handle is consumed; references_count.fetch_sub(1); if the old value was 1: fence(Acquire);
             allocator.dealloc_id (a publish on the pool's free list - here the full-sync one: 2 steps); free the block
     count : references_count.load
     read  : dereference (a plain read of the pooled value; the harness adds a yield point)
   The value was created with `new_with_clones::<K>` before the run (count = K), its handles distributed over the threads.
   Threads are 0..T-1 (the sums below range over them).
   BORROWED handle: `perm` handles (0 or 1 in the harness) are owned by no acting thread - the environment keeps them alive
   for the whole run and the threads use them by shared reference (`&OgreArc`):
     sclone : references_count.fetch_add(1) through the borrowed handle - the new handle belongs to the cloning thread
     scount : references_count.load through the borrowed handle
   Both need no handle of the thread's own; plain clone / drop / count / read keep requiring one. *)
From RM Require Import Util RingModel FullSync.

Inductive rop := RClone | RDrop | RCount | RRead | RSClone | RSCount.
Inductive rres := RCloned | RDropped (last : bool) | RCountIs (n : Z) | RReadOk (v : Z) | RNoHandle.
Inductive rpc := RIdle | RC | RD0 | RDF | RDD | RCnt | RRd | RNo.

Record rst := {
  cnt : Z; freed : bool; deallocs : Z; val : Z;
  hnd : nat -> Z;                         (* live handles owned by each thread *)
  rthr : nat -> rpc; rlog : list (nat * rres);
  fl : fsst;                              (* the pool's free list *)
  perm : Z                                (* handles the environment holds during the whole run (borrowed by the threads) *)
}.

Section Arc.
Variable N : Z.        (* POOL_SIZE *)
Variable id : Z.       (* the slot id of the value *)

Definition rset (s : rst) c f d h th l q : rst :=
  {| cnt := c; freed := f; deallocs := d; val := val s; hnd := h; rthr := th; rlog := l; fl := q; perm := perm s |}.

Definition rstep (s : rst) (t : nat) : rst :=
  match rthr s t with
  | RIdle => s
  | RC => rset s (cnt s + 1) (freed s) (deallocs s) (upd (hnd s) t (hnd s t + 1)) (upd (rthr s) t RIdle) (rlog s ++ [(t, RCloned)]) (fl s)
  | RD0 =>
      if cnt s =? 1 then rset s 0 (freed s) (deallocs s) (hnd s) (upd (rthr s) t RDF) (rlog s) (fl s)
      else rset s (cnt s - 1) (freed s) (deallocs s) (hnd s) (upd (rthr s) t RIdle) (rlog s ++ [(t, RDropped false)]) (fl s)
  | RDF => rset s (cnt s) (freed s) (deallocs s) (hnd s) (upd (rthr s) t RDD) (rlog s) (fstart (fl s) t (OpPub id))
  | RDD =>
      let q := fstep N u32 (fl s) t in
      match fthr q t with
      | FIdle => rset s (cnt s) true (deallocs s + 1) (hnd s) (upd (rthr s) t RIdle) (rlog s ++ [(t, RDropped true)]) q
      | _ => rset s (cnt s) (freed s) (deallocs s) (hnd s) (rthr s) (rlog s) q
      end
  | RCnt => rset s (cnt s) (freed s) (deallocs s) (hnd s) (upd (rthr s) t RIdle) (rlog s ++ [(t, RCountIs (cnt s))]) (fl s)
  | RRd => rset s (cnt s) (freed s) (deallocs s) (hnd s) (upd (rthr s) t RIdle)
                (rlog s ++ [(t, if freed s then RReadOk (-1) else RReadOk (val s))]) (fl s)
  | RNo => rset s (cnt s) (freed s) (deallocs s) (hnd s) (upd (rthr s) t RIdle) (rlog s ++ [(t, RNoHandle)]) (fl s)
  end.

(* an operation on a handle needs a handle: one of the thread's own (`drop` consumes it right away), or - sclone / scount -
   the borrowed one *)
Definition rgo (s : rst) (t : nat) (p : rpc) : rst :=
  rset s (cnt s) (freed s) (deallocs s) (hnd s) (upd (rthr s) t p) (rlog s) (fl s).
Definition rstart (s : rst) (t : nat) (o : rop) : rst :=
  match rthr s t with
  | RIdle =>
      match o with
      | RSClone => rgo s t (if 1 <=? perm s then RC else RNo)
      | RSCount => rgo s t (if 1 <=? perm s then RCnt else RNo)
      | _ =>
        if hnd s t <=? 0 then rgo s t RNo
        else match o with
             | RDrop => rset s (cnt s) (freed s) (deallocs s) (upd (hnd s) t (hnd s t - 1)) (upd (rthr s) t RD0) (rlog s) (fl s)
             | RCount => rgo s t RCnt
             | RRead => rgo s t RRd
             | _ => rgo s t RC
             end
      end
  | _ => s
  end.

Inductive rev := RStep (t : nat) | RStart (t : nat) (o : rop).
Definition rexec (s : rst) (e : rev) : rst := match e with RStep t => rstep s t | RStart t o => rstart s t o end.

Definition shift500 (l : list Z) : list Z := match l with 1 :: t :: loc :: rest => 1 :: t :: (loc + 500) :: rest | _ => l end.
Definition robs (s : rst) (t : nat) : list Z :=
  match rthr s t with
  | RIdle => skip t
  | RC => acc t 0 K_FAA (cnt s) (cnt s + 1) true
  | RD0 => acc t 0 K_FAS (cnt s) (cnt s - 1) true
  | RDF => acc t (-1) 9 0 (-1) true
  | RDD => shift500 (fobs (fl s) t)
  | RCnt => acc t 0 K_LOAD (cnt s) (-1) true
  | RRd | RNo => acc t 1 K_YIELD 0 (-1) true
  end.
End Arc.

(* ------------------------------------------------------------------------------------------------ invariant *)
Fixpoint hsum (h : nat -> Z) (T : nat) : Z := match T with O => 0 | S k => hsum h k + h k end.
Fixpoint dcount (th : nat -> rpc) (T : nat) : Z := match T with O => 0 | S k => dcount th k + (match th k with RD0 => 1 | _ => 0 end) end.

Lemma hsum_upd_out h T t x : (T <= t)%nat -> hsum (upd h t x) T = hsum h T.
Proof. induction T as [|k IH]; intros H; [reflexivity|]. cbn. rewrite IH by lia. rewrite upd_other by lia. reflexivity. Qed.
Lemma hsum_upd h T t x : (t < T)%nat -> hsum (upd h t x) T = hsum h T - h t + x.
Proof.
  induction T as [|k IH]; intros H; [lia|]. cbn. destruct (Nat.eq_dec t k) as [->|Hn].
  - rewrite hsum_upd_out by lia. rewrite upd_same. lia.
  - rewrite IH by lia. rewrite upd_other by lia. lia.
Qed.
Lemma hsum_nonneg h T : (forall u, 0 <= h u) -> 0 <= hsum h T.
Proof. intros Hp. induction T as [|k IH]; cbn; [lia|specialize (Hp k); lia]. Qed.
Lemma hsum_ge h T t : (forall u, 0 <= h u) -> (t < T)%nat -> h t <= hsum h T.
Proof.
  intros Hp. induction T as [|k IH]; intros H; [lia|]. cbn. destruct (Nat.eq_dec t k) as [->|Hn].
  - assert (0 <= hsum h k) by (clear -Hp; induction k as [|j IHj]; cbn; [lia|specialize (Hp j); lia]). lia.
  - specialize (IH ltac:(lia)). specialize (Hp k). lia.
Qed.
Definition isD0 (p : rpc) : Z := match p with RD0 => 1 | _ => 0 end.
Lemma dcount_upd_out th T t p : (T <= t)%nat -> dcount (upd th t p) T = dcount th T.
Proof. induction T as [|k IH]; intros H; [reflexivity|]. cbn. rewrite IH by lia. rewrite upd_other by lia. reflexivity. Qed.
Lemma dcount_upd th T t p : (t < T)%nat -> dcount (upd th t p) T = dcount th T - isD0 (th t) + isD0 p.
Proof.
  induction T as [|k IH]; intros H; [lia|]. cbn. destruct (Nat.eq_dec t k) as [->|Hn].
  - rewrite dcount_upd_out by lia. rewrite upd_same. unfold isD0. lia.
  - rewrite IH by lia. rewrite upd_other by lia. lia.
Qed.
Lemma dcount_nonneg th T : 0 <= dcount th T.
Proof. induction T; cbn; [lia|]. destruct (th T); lia. Qed.

Section ArcInv.
Variable N : Z.
Variable id : Z.
Variable T : nat.

Definition after_last (p : rpc) : bool := match p with RDF | RDD => true | _ => false end.
Definition needs_handle (p : rpc) : bool := match p with RC | RCnt | RRd => true | _ => false end.
Definition reads_ok (v0 : Z) (l : list (nat * rres)) : Prop := forall t v, In (t, RReadOk v) l -> v = v0.

Record RInv (s : rst) : Prop := {
  (* B.3: the counter is the number of live handles (the threads' and the borrowed ones) plus the drops that consumed their
     handle but did not decrement yet *)
  v_count : cnt s = hsum (hnd s) T + dcount (rthr s) T + perm s;
  v_nonneg : forall u, 0 <= hnd s u;
  v_above : forall u, (T <= u)%nat -> rthr s u = RIdle /\ hnd s u = 0;
  (* a thread inside a clone / count / read is protected by a handle of its own or by the borrowed one *)
  v_needs : forall u, needs_handle (rthr s u) = true -> 1 <= hnd s u \/ 1 <= perm s;
  (* the thread whose decrement read 1 is unique; from then on no handle and no pending drop exists *)
  v_last : forall u, after_last (rthr s u) = true -> cnt s = 0;
  v_uniq : forall u w, after_last (rthr s u) = true -> after_last (rthr s w) = true -> u = w;
  v_freed : freed s = true -> cnt s = 0 /\ forall u, after_last (rthr s u) = false;
  v_deallocs : deallocs s = if freed s then 1 else 0;
  v_zero : cnt s = 0 -> freed s = true \/ exists u, after_last (rthr s u) = true;
  v_reads : reads_ok (val s) (rlog s);
  v_perm : 0 <= perm s
}.

Lemma below_T s u : RInv s -> rthr s u <> RIdle -> (u < T)%nat.
Proof. intros I H. destruct (Nat.lt_ge_cases u T); [assumption|]. destruct (v_above _ I u); congruence. Qed.

Lemma cnt_pos_handle s u : RInv s -> 1 <= hnd s u -> 1 <= cnt s.
Proof.
  intros I H. assert (Hu : (u < T)%nat).
  { destruct (Nat.lt_ge_cases u T); [assumption|]. destruct (v_above _ I u); lia. }
  rewrite (v_count _ I). pose proof (hsum_ge (hnd s) T u (v_nonneg _ I) Hu). pose proof (dcount_nonneg (rthr s) T).
  pose proof (v_perm _ I). lia.
Qed.

Lemma cnt_pos_prot s u : RInv s -> 1 <= hnd s u \/ 1 <= perm s -> 1 <= cnt s.
Proof.
  intros I [H|H]; [now apply (cnt_pos_handle s u)|].
  rewrite (v_count _ I). pose proof (hsum_nonneg (hnd s) T (v_nonneg _ I)). pose proof (dcount_nonneg (rthr s) T). lia.
Qed.

Lemma no_after_last s : RInv s -> 1 <= cnt s -> freed s = false /\ forall u, after_last (rthr s u) = false.
Proof.
  intros I H. split.
  - destruct (freed s) eqn:Ef; [|reflexivity]. destruct (v_freed _ I Ef). lia.
  - intros u. destruct (after_last (rthr s u)) eqn:Ea; [|reflexivity]. pose proof (v_last _ I u Ea). lia.
Qed.

Lemma dcount_idle_all th n : (forall u, th u = RIdle) -> dcount th n = 0.
Proof. intros H. induction n as [|k IH]; cbn; [reflexivity|]. rewrite H. lia. Qed.

Lemma count_quiescent s : RInv s -> (forall u, rthr s u = RIdle) -> cnt s = hsum (hnd s) T + perm s.
Proof. intros I Hq. rewrite (v_count _ I), (dcount_idle_all _ _ Hq). lia. Qed.

(* while the environment holds a (borrowed) handle the value is never given back *)
Lemma perm_keeps_alive s : RInv s -> 1 <= perm s -> freed s = false /\ forall u, after_last (rthr s u) = false.
Proof. intros I H. apply no_after_last; [assumption|]. apply (cnt_pos_prot s 0%nat I). now right. Qed.

Lemma dealloc_at_last_drop s : RInv s ->
  deallocs s = (if freed s then 1 else 0) /\
  (freed s = true -> cnt s = 0 /\ hsum (hnd s) T = 0 /\ perm s = 0) /\
  (forall u, 1 <= hnd s u -> freed s = false) /\
  (1 <= perm s -> freed s = false).
Proof.
  intros I. split; [apply (v_deallocs _ I)|]. split; [|split].
  - intros Hf. destruct (v_freed _ I Hf) as [H0 _]. split; [assumption|].
    pose proof (v_count _ I). pose proof (dcount_nonneg (rthr s) T). pose proof (hsum_nonneg (hnd s) T (v_nonneg _ I)).
    pose proof (v_perm _ I). lia.
  - intros u Hu. pose proof (cnt_pos_handle s u I Hu) as H. now destruct (no_after_last s I H).
  - intros Hp. now destruct (perm_keeps_alive s I Hp).
Qed.

Lemma reads_snoc v0 l t r : reads_ok v0 l -> (forall v, r = RReadOk v -> v = v0) -> reads_ok v0 (l ++ [(t, r)]).
Proof. intros H Hr u v Hin. apply in_app_or in Hin. destruct Hin as [Hin|[Hin|[]]]; [eapply H; eauto|]. injection Hin as _ ->. now apply Hr. Qed.

Ltac rr := cbn [cnt freed deallocs val hnd rthr rlog fl perm rset] in *.

Lemma rinv_step s t : RInv s -> RInv (rstep N id s t).
Proof.
  intros I. pose proof I as I0. destruct I as [Hc Hn Ha Hnd Hl Hu Hf Hd Hz Hr Hp]. unfold rstep.
  pose proof (dcount_nonneg (rthr s) T) as Hdn.
  destruct (rthr s t) eqn:E; [exact I0| | | | | | |];
    assert (Ht : (t < T)%nat) by (apply (below_T s t I0); rewrite E; discriminate).
  - (* RC *)
    assert (Hh : 1 <= hnd s t \/ 1 <= perm s) by (apply Hnd; rewrite E; reflexivity).
    pose proof (cnt_pos_prot s t I0 Hh) as Hpos. destruct (no_after_last s I0 Hpos) as [Hnf Hnal].
    constructor; rr; auto.
    + rewrite hsum_upd, dcount_upd by assumption. rewrite E. cbn. lia.
    + intros u. upd_cases t u; [pose proof (Hn t); lia|apply Hn].
    + intros u Hge. rewrite !upd_other by lia. apply Ha, Hge.
    + intros u. upd_cases t u; [discriminate|apply Hnd].
    + intros u. upd_cases t u; [discriminate|]. rewrite Hnal. discriminate.
    + intros u w. upd_cases t u; [discriminate|]. rewrite Hnal. discriminate.
    + rewrite Hnf. discriminate.
    + lia.
    + apply reads_snoc; [assumption|discriminate].
  - (* RD0 *)
    assert (Hd1 : 1 <= dcount (rthr s) T).
    { pose proof (dcount_upd (rthr s) T t RIdle Ht) as Hdu.
      pose proof (dcount_nonneg (upd (rthr s) t RIdle) T). rewrite E in Hdu. cbn in Hdu. lia. }
    assert (Hhs : 0 <= hsum (hnd s) T) by (apply hsum_nonneg; assumption).
    assert (Hpos : 1 <= cnt s) by lia. destruct (no_after_last s I0 Hpos) as [Hnf Hnal].
    destruct (Z.eqb_spec (cnt s) 1) as [E1|E1].
    + (* the last handle *)
      constructor; rr; auto.
      * rewrite dcount_upd by assumption. rewrite E. cbn. lia.
      * intros u Hge. rewrite upd_other by lia. apply Ha, Hge.
      * intros u. upd_cases t u; [discriminate|apply Hnd].
      * intros u w. upd_cases t u; upd_cases t w; auto; try (rewrite Hnal; discriminate).
      * rewrite Hnf. discriminate.
      * intros _. right. exists t. now rewrite upd_same.
    + constructor; rr; auto.
      * rewrite dcount_upd by assumption. rewrite E. cbn. lia.
      * intros u Hge. rewrite upd_other by lia. apply Ha, Hge.
      * intros u. upd_cases t u; [discriminate|apply Hnd].
      * intros u. upd_cases t u; [discriminate|]. rewrite Hnal. discriminate.
      * intros u w. upd_cases t u; [discriminate|]. rewrite Hnal. discriminate.
      * rewrite Hnf. discriminate.
      * lia.
      * apply reads_snoc; [assumption|discriminate].
  - (* RDF *)
    assert (Hal : after_last (rthr s t) = true) by (rewrite E; reflexivity).
    constructor; rr; auto.
    + rewrite dcount_upd by assumption. rewrite E. cbn. lia.
    + intros u Hge. rewrite upd_other by lia. apply Ha, Hge.
    + intros u. upd_cases t u; [discriminate|apply Hnd].
    + intros u. upd_cases t u; [intros _; now apply (Hl t)|apply Hl].
    + intros u w H1 H2. apply Hu; [revert H1; upd_cases t u; auto|revert H2; upd_cases t w; auto].
    + intros Hfr. destruct (Hf Hfr) as [_ H]. rewrite H in Hal. discriminate.
    + intros H0. right. exists t. now rewrite upd_same.
  - (* RDD *)
    assert (Hal : after_last (rthr s t) = true) by (rewrite E; reflexivity).
    assert (Hnf : freed s = false) by (destruct (freed s) eqn:Ef; [destruct (Hf eq_refl) as [_ H]; rewrite H in Hal; discriminate|reflexivity]).
    destruct (fthr (fstep N u32 (fl s) t) t) eqn:Eq;
      try (constructor; rr; auto; fail).
    constructor; rr; auto.
    + rewrite dcount_upd by assumption. rewrite E. cbn. lia.
    + intros u Hge. rewrite upd_other by lia. apply Ha, Hge.
    + intros u. upd_cases t u; [discriminate|apply Hnd].
    + intros u. upd_cases t u; [discriminate|apply Hl].
    + intros u w. upd_cases t u; [discriminate|]. upd_cases t w; [discriminate|apply Hu].
    + intros _. split; [now apply (Hl t)|]. intros u. upd_cases t u; [reflexivity|].
      destruct (after_last (rthr s u)) eqn:Ea; [|reflexivity]. exfalso. apply n. now apply Hu.
    + rewrite Hd, Hnf. reflexivity.
    + apply reads_snoc; [assumption|discriminate].
  - (* RCnt *)
    constructor; rr; auto.
    + rewrite dcount_upd by assumption. rewrite E. cbn. lia.
    + intros u Hge. rewrite upd_other by lia. apply Ha, Hge.
    + intros u. upd_cases t u; [discriminate|apply Hnd].
    + intros u. upd_cases t u; [discriminate|apply Hl].
    + intros u w. upd_cases t u; [discriminate|]. upd_cases t w; [discriminate|apply Hu].
    + intros Hfr. destruct (Hf Hfr) as [H0 H]. split; [assumption|]. intros u. upd_cases t u; [reflexivity|apply H].
    + intros H0. destruct (Hz H0) as [H|[u H]]; [now left|right]. exists u. upd_cases t u; [rewrite E in H; discriminate|assumption].
    + apply reads_snoc; [assumption|discriminate].
  - (* RRd: the handle is live, so the value is still there *)
    assert (Hh : 1 <= hnd s t \/ 1 <= perm s) by (apply Hnd; rewrite E; reflexivity).
    pose proof (cnt_pos_prot s t I0 Hh) as Hpos. destruct (no_after_last s I0 Hpos) as [Hnf Hnal].
    constructor; rr; auto.
    + rewrite dcount_upd by assumption. rewrite E. cbn. lia.
    + intros u Hge. rewrite upd_other by lia. apply Ha, Hge.
    + intros u. upd_cases t u; [discriminate|apply Hnd].
    + intros u. upd_cases t u; [discriminate|apply Hl].
    + intros u w. upd_cases t u; [discriminate|]. upd_cases t w; [discriminate|apply Hu].
    + rewrite Hnf. discriminate.
    + lia.
    + apply reads_snoc; [assumption|]. rewrite Hnf. intros v H. now injection H as <-.
  - (* RNo *)
    constructor; rr; auto.
    + rewrite dcount_upd by assumption. rewrite E. cbn. lia.
    + intros u Hge. rewrite upd_other by lia. apply Ha, Hge.
    + intros u. upd_cases t u; [discriminate|apply Hnd].
    + intros u. upd_cases t u; [discriminate|apply Hl].
    + intros u w. upd_cases t u; [discriminate|]. upd_cases t w; [discriminate|apply Hu].
    + intros Hfr. destruct (Hf Hfr) as [H0 H]. split; [assumption|]. intros u. upd_cases t u; [reflexivity|apply H].
    + intros H0. destruct (Hz H0) as [H|[u H]]; [now left|right]. exists u. upd_cases t u; [rewrite E in H; discriminate|assumption].
    + apply reads_snoc; [assumption|discriminate].
Qed.

Lemma rinv_start s t o : (t < T)%nat -> RInv s -> RInv (rstart s t o).
Proof.
  intros Ht I. pose proof I as I0. destruct I as [Hc Hn Ha Hnd Hl Hu Hf Hd Hz Hr Hp]. unfold rstart.
  destruct (rthr s t) eqn:E; try exact I0.
  assert (Hloc : forall p, isD0 p = 0 -> after_last p = false -> (needs_handle p = true -> 1 <= hnd s t \/ 1 <= perm s) ->
            RInv (rgo s t p)).
  { intros p H0 H1 H2. unfold rgo. constructor; rr; auto.
    - rewrite dcount_upd by assumption. rewrite E, H0. cbn. lia.
    - intros u Hge. rewrite upd_other by lia. apply Ha, Hge.
    - intros u. upd_cases t u; [exact H2|apply Hnd].
    - intros u. upd_cases t u; [rewrite H1; discriminate|apply Hl].
    - intros u w. upd_cases t u; [rewrite H1; discriminate|]. upd_cases t w; [rewrite H1; discriminate|apply Hu].
    - intros Hfr. destruct (Hf Hfr) as [Hz0 H]. split; [assumption|]. intros u. upd_cases t u; [exact H1|apply H].
    - intros Hz0. destruct (Hz Hz0) as [H|[u H]]; [now left|right]. exists u. upd_cases t u; [rewrite E in H; discriminate|assumption]. }
  assert (Hsh : forall p, isD0 p = 0 -> after_last p = false -> RInv (rgo s t (if 1 <=? perm s then p else RNo))).
  { intros p H0 H1. destruct (Z.leb_spec 1 (perm s)) as [Hge|Hlt]; apply Hloc; auto; discriminate. }
  destruct o; try (apply Hsh; reflexivity);
    (destruct (Z.leb_spec (hnd s t) 0) as [Hle|Hgt]; [apply Hloc; auto; discriminate|]);
    try (apply Hloc; auto; intros; lia).
  (* drop: the handle is consumed here *)
  pose proof (cnt_pos_handle s t I0 ltac:(lia)) as Hpos. destruct (no_after_last s I0 Hpos) as [Hnf Hnal].
  constructor; rr; auto.
  - rewrite hsum_upd, dcount_upd by assumption. rewrite E. cbn. lia.
  - intros u. upd_cases t u; [lia|apply Hn].
  - intros u Hge. rewrite !upd_other by lia. apply Ha, Hge.
  - intros u. upd_cases t u; [discriminate|apply Hnd].
  - intros u. upd_cases t u; [discriminate|apply Hl].
  - intros u w. upd_cases t u; [discriminate|]. upd_cases t w; [discriminate|apply Hu].
  - rewrite Hnf. discriminate.
  - lia.
Qed.

End ArcInv.

(* ------------------------------------------------------------------------------------------- reachability *)
Definition tid_of_r (e : rev) : nat := match e with RStep t => t | RStart t _ => t end.
Section ArcReach.
Variable N : Z.
Variable id : Z.
Variable T : nat.
Variable h0 : nat -> Z.               (* initial distribution of the handles created by new_with_clones over the threads *)
Variable p0 : Z.                      (* ... and how many of them the environment keeps (borrowed by the threads) *)
Variable v0 : Z.
Variable fl0 : fsst.
Hypothesis h0_nonneg : forall u, 0 <= h0 u.
Hypothesis h0_above : forall u, (T <= u)%nat -> h0 u = 0.
Hypothesis p0_nonneg : 0 <= p0.
Hypothesis h0_some : 1 <= hsum h0 T + p0.

Definition rinit : rst :=
  {| cnt := hsum h0 T + p0; freed := false; deallocs := 0; val := v0; hnd := h0; rthr := fun _ => RIdle; rlog := []; fl := fl0;
     perm := p0 |}.

Lemma dcount_idle_gen n : dcount (fun _ => RIdle) n = 0.
Proof. induction n as [|k IH]; cbn; lia. Qed.
Lemma dcount_idle : dcount (fun _ => RIdle) T = 0.
Proof. apply dcount_idle_gen. Qed.

Lemma rinv_init : RInv T rinit.
Proof.
  constructor; cbn; auto; try discriminate.
  - rewrite dcount_idle. lia.
  - intros H. lia.
  - intros t v [].
Qed.

Theorem rinv_reachable evs : Forall (fun e => (tid_of_r e < T)%nat) evs -> RInv T (fold_left (rexec N id) evs rinit).
Proof.
  intros H. assert (G : forall s, RInv T s -> RInv T (fold_left (rexec N id) evs s)).
  { induction H as [|e evs He Hr IH]; intros s I; [exact I|]. cbn [fold_left]. apply IH.
    destruct e; cbn in *; [now apply rinv_step|now apply rinv_start]. }
  apply G, rinv_init.
Qed.
End ArcReach.


(* ---- runner ---- *)
Definition rres_code (r : rres) : list Z :=
  match r with RCloned => [50; 0; 0] | RDropped b => [51; 0; 0] | RCountIs n => [52; n; 0] | RReadOk v => [53; v; 0] | RNoHandle => [54; 0; 0] end.
Definition remit (before after : list (nat * rres)) : list (list Z) :=
  map (fun e => 2 :: Z.of_nat (fst e) :: rres_code (snd e)) (skipn (length before) after).
Definition rgrant (N id : Z) (s : rst) (progs : nat -> list rop) (t : nat) : rst * (nat -> list rop) * list (list Z) :=
  match rthr s t with
  | RIdle => match progs t with
             | [] => (s, progs, [skip t])
             | o :: rest => let s1 := rstart s t o in let s2 := rstep N id s1 t in (s2, upd progs t rest, robs s1 t :: remit (rlog s1) (rlog s2))
             end
  | _ => let s2 := rstep N id s t in (s2, progs, robs s t :: remit (rlog s) (rlog s2))
  end.
Fixpoint rrun (N id : Z) (s : rst) (progs : nat -> list rop) (sched : list nat) : rst * list (list Z) :=
  match sched with
  | [] => (s, [])
  | t :: rest => let '(s1, p1, lines) := rgrant N id s progs t in let '(s2, more) := rrun N id s1 p1 rest in (s2, lines ++ more)
  end.
From RM Require Import PoolRun.
(* the pool (full-sync free list, POOL_SIZE N) had its slot 0 allocated for the value: the free list holds 1..N-1.
   `p` handles (besides the threads' `hs`) are held by the environment during the whole run. *)
Definition run_arc_gen (p : Z) (N : Z) (hs : list Z) (progs : list (list rop)) (sched : list nat) : list Z :=
  let fl0 := pfill fsst (fstep N u32) fstart finit (ids_upto N) 0 in
  let fl1 := fstep N u32 (fstep N u32 (fstart fl0 0%nat OpCons) 0%nat) 0%nat in
  let s0 := {| cnt := fold_right Z.add 0 hs + p; freed := false; deallocs := 0; val := 4242; hnd := fun t => nth t hs 0;
               rthr := fun _ => RIdle; rlog := []; fl := fl1; perm := p |} in
  let '(s, lines) := rrun N 0 s0 (fun t => nth t progs []) sched in
  concat lines ++ [9; ftail (fl s) - fhead (fl s)].
(* no borrowed handle: every operation goes through a handle of the acting thread *)
Definition run_arc (N : Z) (hs : list Z) (progs : list (list rop)) (sched : list nat) : list Z := run_arc_gen 0 N hs progs sched.
(* harness mode `shared=1`: `sum hs` owned handles plus one handle that is alive throughout and borrowed by the threads *)
Definition run_arc_shared (N : Z) (hs : list Z) (progs : list (list rop)) (sched : list nat) : list Z := run_arc_gen 1 N hs progs sched.
