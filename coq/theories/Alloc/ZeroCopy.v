(* Executable model of the zero-copy queues `AtomicZeroCopy` / `FullSyncZeroCopy`
   (/repo/src/ogre_std/ogre_queues/{atomic/atomic_zero_copy.rs, full_sync/full_sync_zero_copy.rs}) and of the stand-alone
   `NonBlockingQueue`s built on them: a pool allocator (free-list ring A of slot ids + the pool of payload slots) and a ring B
   transporting slot ids.
     enqueue v : alloc (A.consume) ; write pool[id] ; B.publish id
     dequeue   : B.consume ; B.available_elements_count (2 loads on the lock-free ring; plain reads on the full-sync one) ;
                 read pool[id] ; dealloc (A.publish id)
   Both components are instances of one queue machine (Section variables), each step of a composite operation is a step of
   the component it is in. *)
From RM Require Import RingModel FullSync.

Inductive zop := ZEnq (v : Z) | ZDeq | ZLen.
Inductive zres := ZOk (v : Z) | ZFull (v : Z) | ZGot (v : Z) | ZEmpty | ZLenIs (n : Z).
Inductive zpc := ZIdle | ZEnqA (v : Z) | ZEnqB (v id : Z) | ZDeqB | ZDeqL (id : Z) | ZDeqA (id v : Z) | ZLenB.

Section ZC.
Variable Q : Type.
Variable qstep : Q -> nat -> Q.
Variable qstart : Q -> nat -> op -> Q.
Variable qidle : Q -> nat -> bool.
Variable qlog : Q -> list (nat * res).
Variable qobs : Q -> nat -> list Z.
Variable len_has_access : bool.             (* available_elements_count performs shared accesses (lock-free ring) *)
Variable qlen_now : Q -> Z.                 (* ... or is a plain read (full-sync ring) *)

Record zst := { fa : Q; qb : Q; pool : Z -> Z; zthr : nat -> zpc; zlog : list (nat * zres) }.

Definition lastres (x : Q) : res := snd (last (qlog x) (0%nat, REmpty)).
Definition zmk a b p th l : zst := {| fa := a; qb := b; pool := p; zthr := th; zlog := l |}.

(* location codes of component A are shifted by 500 in the trace *)
Definition shiftA (l : list Z) : list Z :=
  match l with
  | 1 :: t :: loc :: rest => 1 :: t :: (loc + 500) :: rest
  | _ => l
  end.

Definition zstep (s : zst) (t : nat) : zst :=
  match zthr s t with
  | ZIdle => s
  | ZEnqA v =>
      let a := qstep (fa s) t in
      if qidle a t then
        match lastres a with
        | RGot id => zmk a (qstart (qb s) t (OpPub id)) (updz (pool s) id v) (upd (zthr s) t (ZEnqB v id)) (zlog s)
        | _ => zmk a (qb s) (pool s) (upd (zthr s) t ZIdle) (zlog s ++ [(t, ZFull v)])
        end
      else zmk a (qb s) (pool s) (zthr s) (zlog s)
  | ZEnqB v id =>
      let b := qstep (qb s) t in
      if qidle b t then zmk (fa s) b (pool s) (upd (zthr s) t ZIdle) (zlog s ++ [(t, ZOk v)])
      else zmk (fa s) b (pool s) (zthr s) (zlog s)
  | ZDeqB =>
      let b := qstep (qb s) t in
      if qidle b t then
        match lastres b with
        | RGot id =>
            if len_has_access then zmk (fa s) (qstart b t OpLen) (pool s) (upd (zthr s) t (ZDeqL id)) (zlog s)
            else zmk (qstart (fa s) t (OpPub id)) b (pool s) (upd (zthr s) t (ZDeqA id (pool s id))) (zlog s)
        | _ => zmk (fa s) b (pool s) (upd (zthr s) t ZIdle) (zlog s ++ [(t, ZEmpty)])
        end
      else zmk (fa s) b (pool s) (zthr s) (zlog s)
  | ZDeqL id =>
      let b := qstep (qb s) t in
      if qidle b t then zmk (qstart (fa s) t (OpPub id)) b (pool s) (upd (zthr s) t (ZDeqA id (pool s id))) (zlog s)
      else zmk (fa s) b (pool s) (zthr s) (zlog s)
  | ZDeqA id v =>
      let a := qstep (fa s) t in
      if qidle a t then zmk a (qb s) (pool s) (upd (zthr s) t ZIdle) (zlog s ++ [(t, ZGot v)])
      else zmk a (qb s) (pool s) (zthr s) (zlog s)
  | ZLenB =>
      if len_has_access then
        let b := qstep (qb s) t in
        if qidle b t then
          match lastres b with
          | RLen n => zmk (fa s) b (pool s) (upd (zthr s) t ZIdle) (zlog s ++ [(t, ZLenIs n)])
          | _ => zmk (fa s) b (pool s) (upd (zthr s) t ZIdle) (zlog s)
          end
        else zmk (fa s) b (pool s) (zthr s) (zlog s)
      else zmk (fa s) (qb s) (pool s) (upd (zthr s) t ZIdle) (zlog s ++ [(t, ZLenIs (qlen_now (qb s)))])
  end.

Definition zstart (s : zst) (t : nat) (o : zop) : zst :=
  match zthr s t with
  | ZIdle =>
      match o with
      | ZEnq v => zmk (qstart (fa s) t OpCons) (qb s) (pool s) (upd (zthr s) t (ZEnqA v)) (zlog s)
      | ZDeq => zmk (fa s) (qstart (qb s) t OpCons) (pool s) (upd (zthr s) t ZDeqB) (zlog s)
      | ZLen => if len_has_access then zmk (fa s) (qstart (qb s) t OpLen) (pool s) (upd (zthr s) t ZLenB) (zlog s)
                else zmk (fa s) (qb s) (pool s) (upd (zthr s) t ZLenB) (zlog s)
      end
  | _ => s
  end.

Definition zobs (s : zst) (t : nat) : list Z :=
  match zthr s t with
  | ZIdle => skip t
  | ZEnqA _ | ZDeqA _ _ => shiftA (qobs (fa s) t)
  | ZEnqB _ _ | ZDeqB | ZDeqL _ => qobs (qb s) t
  | ZLenB => if len_has_access then qobs (qb s) t else acc t 4 K_YIELD 0 (-1) true
  end.

Definition zres_code (r : zres) : list Z :=
  match r with ZOk v => [30; v; 0] | ZFull v => [31; v; 0] | ZGot v => [32; v; 0] | ZEmpty => [33; 0; 0] | ZLenIs n => [34; n; 0] end.
Definition zemit (before after : list (nat * zres)) : list (list Z) :=
  map (fun e => 2 :: Z.of_nat (fst e) :: zres_code (snd e)) (skipn (length before) after).
Definition zgrant (s : zst) (progs : nat -> list zop) (t : nat) : zst * (nat -> list zop) * list (list Z) :=
  match zthr s t with
  | ZIdle =>
      match progs t with
      | [] => (s, progs, [skip t])
      | o :: rest => let s1 := zstart s t o in let s2 := zstep s1 t in (s2, upd progs t rest, zobs s1 t :: zemit (zlog s1) (zlog s2))
      end
  | _ => let s2 := zstep s t in (s2, progs, zobs s t :: zemit (zlog s) (zlog s2))
  end.
Fixpoint zrun (s : zst) (progs : nat -> list zop) (sched : list nat) : zst * list (list Z) :=
  match sched with
  | [] => (s, [])
  | t :: rest => let '(s1, progs1, lines) := zgrant s progs t in let '(s2, more) := zrun s1 progs1 rest in (s2, lines ++ more)
  end.
End ZC.

From RM Require Import PoolRun.
Definition run_zcq_atomic (N origin : Z) (progs : list (list zop)) (sched : list nat) : list Z :=
  let a0 := pfill st (step N u32 i32) start (init_at (u32 origin)) (ids_upto N) 0 in
  let idle := fun (s : st) t => match thr s t with Idle => true | _ => false end in
  let '(s, lines) := zrun st (step N u32 i32) start idle log (obs N u32) true (fun _ => 0)
                          {| fa := a0; qb := init_at (u32 origin); pool := fun _ => 0; zthr := fun _ => ZIdle; zlog := [] |}
                          (fun t => nth t progs []) sched in
  concat lines ++ [9; head (qb _ s); tail (qb _ s); head (fa _ s); tail (fa _ s)].
Definition run_zcq_fullsync (N origin : Z) (progs : list (list zop)) (sched : list nat) : list Z :=
  let a0 := pfill fsst (fstep N u32) fstart (finit_at (u32 origin)) (ids_upto N) 0 in
  let idle := fun (s : fsst) t => match fthr s t with FIdle => true | _ => false end in
  let '(s, lines) := zrun fsst (fstep N u32) fstart idle flog fobs false (fun b => u32 (ftail b - fhead b))
                          {| fa := a0; qb := finit_at (u32 origin); pool := fun _ => 0; zthr := fun _ => ZIdle; zlog := [] |}
                          (fun t => nth t progs []) sched in
  concat lines ++ [9; fhead (qb _ s); ftail (qb _ s); fhead (fa _ s); ftail (fa _ s)].

(* ---------------------------------------------------------------------------------------------------------------
   Both components of the composite only ever move by their own start / step: every theorem about the ring machines
   (C01, C02, C13 ...) holds of the id ring and of the free list inside a zero-copy queue. *)
Section ZCProps.
Variable Q : Type.
Variable qstep : Q -> nat -> Q.
Variable qstart : Q -> nat -> op -> Q.
Variable qidle : Q -> nat -> bool.
Variable qlog : Q -> list (nat * res).
Variable lha : bool.
Variable qlen_now : Q -> Z.

Definition zqexec (x : Q) (e : ev) : Q := match e with Step t => qstep x t | Start t o => qstart x t o end.
Inductive zev := ZStep (t : nat) | ZStart (t : nat) (o : zop).
Definition zexec (s : zst Q) (e : zev) : zst Q :=
  match e with ZStep t => zstep Q qstep qstart qidle qlog lha qlen_now s t | ZStart t o => zstart Q qstart lha s t o end.

Lemma z_components_exec (s : zst Q) e :
  (exists evs, fa Q (zexec s e) = fold_left zqexec evs (fa Q s)) /\ (exists evs, qb Q (zexec s e) = fold_left zqexec evs (qb Q s)).
Proof.
  destruct e as [t|t o]; cbn.
  - unfold zstep. destruct (zthr Q s t) eqn:E.
    + split; exists []; reflexivity.
    + destruct (qidle _ t); [destruct (lastres Q qlog _)|]; cbn; split; try (exists [Step t]; reflexivity); try (exists []; reflexivity).
      exists [Start t (OpPub v0)]; reflexivity.
    + destruct (qidle _ t); cbn; split; try (exists [Step t]; reflexivity); exists []; reflexivity.
    + destruct (qidle _ t); [destruct (lastres Q qlog _); try destruct lha|]; cbn; split;
        try (exists [Step t]; reflexivity); try (exists []; reflexivity).
      * exists [Step t; Start t OpLen]; reflexivity.
      * exists [Start t (OpPub v)]; reflexivity.
    + destruct (qidle _ t); cbn; split; try (exists [Step t]; reflexivity); try (exists []; reflexivity).
      exists [Start t (OpPub id)]; reflexivity.
    + destruct (qidle _ t); cbn; split; try (exists [Step t]; reflexivity); exists []; reflexivity.
    + destruct lha; [destruct (qidle _ t); [destruct (lastres Q qlog _)|]|]; cbn; split;
        try (exists [Step t]; reflexivity); exists []; reflexivity.
  - unfold zstart. destruct (zthr Q s t); try (split; exists []; reflexivity).
    destruct o; [| |destruct lha]; cbn; split; try (exists []; reflexivity).
    + exists [Start t OpCons]; reflexivity.
    + exists [Start t OpCons]; reflexivity.
    + exists [Start t OpLen]; reflexivity.
Qed.

Theorem z_components_reachable s0 zevs :
  (exists evs, fa Q (fold_left zexec zevs s0) = fold_left zqexec evs (fa Q s0)) /\
  (exists evs, qb Q (fold_left zexec zevs s0) = fold_left zqexec evs (qb Q s0)).
Proof.
  revert s0. induction zevs as [|e zevs IH]; intros s0; [split; exists []; reflexivity|].
  cbn [fold_left]. destruct (IH (zexec s0 e)) as [[ea Ha] [eb Hb]]. destruct (z_components_exec s0 e) as [[ea1 Ha1] [eb1 Hb1]].
  split; [exists (ea1 ++ ea)|exists (eb1 ++ eb)]; rewrite fold_left_app; congruence.
Qed.
End ZCProps.
