(* The STAND-ALONE zero-copy queue over the FULL-SYNC ring (`NonBlockingQueue` over `FullSyncZeroCopy`: Alloc/ZeroCopy.v instantiated
   with the ghost / unbounded-integer full-sync ring machine `fstepZ N`, `len_has_access = false`: the length is a plain read, a dequeue
   has no ZDeqL phase), for every interleaving of any number of threads issuing enqueue / dequeue / length, 0 < N, initial state
   `zqf0 N p`: free list = `pfill` of `ids_upto N` (`zcf_fl0 N`), id ring empty, every thread ZIdle, pool `p` arbitrary.
   The full-sync twin of ZcqPayload.v.

   The full-sync ring moves its counters ONE STEP BEFORE the operation returns (FPL step: `fpublished` / `ftail`; FCL step: `fhead`; the
   return - and with it the move of the composite's pc and its log entry - comes with the flag store FPU / FCU).  Two views of a ring:
     TRUE view   finring x = positions fhead <= i < ftail of fpublished            (ZcConserveFS.v)
     LOG view    lring x   = accepted_of (flog x) minus the first |yielded_of (flog x)|   (what the RETURNED operations say)
   They coincide whenever the flag of the ring is free, and differ by exactly the pending answer of the flag holder otherwise
   (views_agree).  In the LOG view each composite step of the full-sync instance is a transition (the return of B.consume: TWO
   transitions, A_take ; A_read) of the SAME abstract machine `atr` as the lock-free instance, so ZcqPayload.v's invariants
   (QConserve / cons_atr, Pay / pay_atr, Single / single_atr, the FS toolkit) are REUSED unchanged; only the concrete case analysis
   (qf_step / qf_start) is new.  The results are then restated in the TRUE view, with the window accounted for. *)
From Coq Require Import Permutation.
From RM Require Import RingModel FullSync Chan ZeroCopy PoolRun ZcUni ChanZ ChanZProps ZcSolo ZcView ChanZInst ZcConserve ZcConserveFS
                       ZcPayloadFS ZcqPayload.
Import ZC.

(* ------------------------------------------------------------------------------------------------ the instance *)
Notation zfst := (ZeroCopy.zst fsst).
Notation FA s := (fa fsst s).
Notation QB s := (qb fsst s).
Notation POOL s := (pool fsst s).
Notation ZTHR s := (zthr fsst s).
Notation ZLOG s := (zlog fsst s).

Definition qfstep (N : Z) (s : zfst) (t : nat) : zfst :=
  ZeroCopy.zstep fsst (fstepZ N) fstart fsidle flog false (fun b => ftail b - fhead b) s t.
Definition qfstart (s : zfst) (t : nat) (o : zop) : zfst := ZeroCopy.zstart fsst fstart false s t o.
Definition qfexec (N : Z) (s : zfst) (e : zev) : zfst :=
  ZeroCopy.zexec fsst (fstepZ N) fstart fsidle flog false (fun b => ftail b - fhead b) s e.
(* `new()`: the free list holds 0..N-1, the id ring is empty, the payload slots hold anything *)
Definition zqf0 (N : Z) (p : Z -> Z) : zfst := {| fa := zcf_fl0 N; qb := finit; pool := p; zthr := fun _ => ZIdle; zlog := [] |}.
Definition zqf_run (N : Z) (p : Z -> Z) (evs : list zev) : zfst := fold_left (qfexec N) evs (zqf0 N p).

(* ------------------------------------------------------------------------------------------------ the LOG view of a full-sync ring *)
Definition lpub (x : fsst) : list Z := accepted_of (flog x).                          (* the values whose publish has RETURNED *)
Definition lhead (x : fsst) : Z := Z.of_nat (length (yielded_of (flog x))).           (* the number of consumes that have RETURNED a value *)
Definition lring (x : fsst) : list Z := skipn (length (yielded_of (flog x))) (accepted_of (flog x)).
Definition LW (x : fsst) : Prop := (length (yielded_of (flog x)) <= length (accepted_of (flog x)))%nat.

Definition absf (s : zfst) : ab := amk (lring (FA s)) (lpub (QB s)) (lhead (QB s)) (POOL s) (ZTHR s) (ZLOG s).
Lemma aB_absf s : aB (absf s) = lring (QB s).
Proof. unfold aB, absf, lring, lhead, lpub. cbn [aH aPB amk]. now rewrite Nat2Z.id. Qed.

Section FsLog.
Variable N : Z.
Hypothesis Npos : 0 < N.
Local Notation fstp := (fstepZ N).

Lemma fstp_CL_view x t : fthr x t = FCL -> is_fcons (fthr (fstp x t) t) = true /\ flog (fstp x t) = flog x.
Proof.
  intros E. unfold fstepZ, fstep, idz. rewrite E. destruct (flock x); [rewrite E; auto|].
  destruct (0 <? ftail x - fhead x); cbn [fthr flog]; rewrite upd_same; auto.
Qed.
Lemma fstp_PL_view x t v : fthr x t = FPL v -> fpval (fthr (fstp x t) t) = Some v /\ flog (fstp x t) = flog x.
Proof.
  intros E. unfold fstepZ, fstep, idz. rewrite E. destruct (flock x); [rewrite E; auto|].
  destruct (ftail x - fhead x <? N); cbn [fthr flog]; rewrite upd_same; auto.
Qed.

Lemma lview_same x x' : flog x' = flog x -> lring x' = lring x /\ lpub x' = lpub x /\ lhead x' = lhead x /\ (LW x -> LW x').
Proof. unfold lring, lpub, lhead, LW. intros ->. auto. Qed.
Lemma lview_nores x x' t r : flog x' = flog x ++ [(t, r)] -> (forall v len, r <> ROk v len) -> (forall v, r <> RGot v) ->
  lring x' = lring x /\ lpub x' = lpub x /\ lhead x' = lhead x /\ (LW x -> LW x').
Proof.
  unfold lring, lpub, lhead, LW. intros -> H1 H2. rewrite facc_snoc, fyld_snoc.
  destruct r; try (now contradiction (H1 v len)); try (now contradiction (H2 v)); rewrite !app_nil_r; auto.
Qed.
Lemma lview_pub x x' t v len : LW x -> flog x' = flog x ++ [(t, ROk v len)] ->
  lring x' = lring x ++ [v] /\ lpub x' = lpub x ++ [v] /\ lhead x' = lhead x /\ LW x'.
Proof.
  unfold lring, lpub, lhead, LW. intros Hw ->. rewrite facc_snoc, fyld_snoc, app_nil_r. split; [now apply skipn_snoc|].
  split; [reflexivity|]. split; [reflexivity|]. rewrite app_length. cbn [length]. lia.
Qed.
(* the return of a consume: the value is the one at the LOG head *)
Lemma lview_got x x' t id : FInv N x -> fthr x t = FCU (Some id) -> flog x' = flog x ++ [(t, RGot id)] ->
  lring x = id :: lring x' /\ lpub x' = lpub x /\ lhead x' = lhead x + 1 /\ 0 <= lhead x < Z.of_nat (length (lpub x)) /\
  nthz (lpub x) (lhead x) = id /\ LW x'.
Proof.
  intros I E Hl. pose proof (f_lag _ _ I t) as Hg. rewrite E in Hg. destruct Hg as [Hp Hd].
  pose proof (f_del _ _ I) as Hdel. pose proof (f_lend _ _ I) as Hld. pose proof (f_lenp _ _ I) as Hlp. pose proof (f_ord _ _ I) as Ho.
  rewrite Hp, Hd in Hdel. rewrite Hd, app_length in Hld. cbn [length] in Hld. rewrite Hp in Hlp.
  set (n := length (yielded_of (flog x))) in *. set (acc := accepted_of (flog x)) in *.
  assert (Hn : (n < length acc)%nat) by lia.
  replace (Z.to_nat (fhead x)) with (S n) in Hdel by lia. rewrite (firstn_S_nth acc n 0 Hn) in Hdel.
  apply app_inj_tail in Hdel. destruct Hdel as [_ Hid].
  unfold lring, lpub, lhead, LW. rewrite Hl, facc_snoc, fyld_snoc, app_nil_r, app_length. cbn [length]. fold n acc.
  replace (n + 1)%nat with (S n) by lia. split; [rewrite Hid; apply skipn_nth_cons; exact Hn|].
  split; [reflexivity|]. split; [lia|]. split; [lia|]. split; [|lia]. unfold nthz. now rewrite Nat2Z.id.
Qed.

(* the flag is free: the two views coincide *)
Lemma lring_unlocked x : FInv N x -> flock x = false -> lring x = finring x /\ lhead x = fhead x /\ lpub x = fpublished x.
Proof.
  intros I El. destruct (f_sync _ _ I El) as [Hp Hd]. pose proof (f_lend _ _ I) as Hld.
  unfold lring, finring, lhead, lpub. rewrite <- Hp, <- Hd. rewrite <- Hld, Nat2Z.id. auto.
Qed.
Lemma lring_len_unlocked x : FInv N x -> flock x = false -> Z.of_nat (length (lring x)) = ftail x - fhead x.
Proof. intros I El. destruct (lring_unlocked x I El) as [-> _]. now apply (finring_length N). Qed.

Lemma is_fcons_busy p : is_fcons p = true -> p <> FIdle.
Proof. destruct p; cbn; congruence. Qed.
Lemma fpval_busy p v : fpval p = Some v -> p <> FIdle.
Proof. destruct p; cbn; congruence. Qed.
End FsLog.

(* ------------------------------------------------------------------------------------------------ two abstract transitions in one step
   `upd (upd th t c1) t c2` and `upd th t c2` are equal pointwise only: the invariants are stable under pointwise equality of the pcs *)
Definition abeq (x y : ab) : Prop :=
  aA x = aA y /\ aPB x = aPB y /\ aH x = aH y /\ aPool x = aPool y /\ (forall t, aThr x t = aThr y t) /\ aLog x = aLog y.

Inductive atr2 (x : ab) (g : gh) (t : nat) (x' : ab) (g' : gh) : Prop :=
| atr2_one : atr x g t x' g' -> atr2 x g t x' g'
| atr2_two xm gm x'' : aThr x t <> ZIdle -> aThr xm t <> ZIdle -> atr x g t xm gm -> atr xm gm t x'' g' -> abeq x'' x' -> atr2 x g t x' g'.

Lemma W_abeq x y : abeq x y -> W x -> W y.
Proof. intros (_ & H2 & H3 & _) Hw. unfold W in *. now rewrite <- H2, <- H3. Qed.
Lemma cons_abeq N x y : abeq x y -> QConserve N x -> QConserve N y.
Proof.
  intros (H1 & H2 & H3 & H4 & H5 & H6) C. unfold QConserve, aB in *. rewrite <- H1, <- H2, <- H3.
  apply (FS_same _ _ _ _ C). intros u. now rewrite H5.
Qed.
Lemma pay_abeq x y g : abeq x y -> Pay x g -> Pay y g.
Proof.
  intros (H1 & H2 & H3 & H4 & H5 & H6) [Pw Pl Pq Ptr PL PA Pans Plog Ptk].
  constructor; unfold Tk, W, aE, aB in *; rewrite <- ?H1, <- ?H2, <- ?H3, <- ?H4, <- ?H6; auto.
  - intros t v id E. rewrite <- H5 in E. now apply (Ptr t).
  - intros t id E. rewrite <- H5 in E. now apply PL.
  - intros t id v E. rewrite <- H5 in E. now apply PA.
  - apply (FS_same _ _ _ _ Ptk). intros u. now rewrite H5.
Qed.
Lemma single_abeq c x y g : abeq x y -> Single c x g -> Single c y g.
Proof.
  intros (H1 & H2 & H3 & H4 & H5 & H6) [S1 S2 S3]. constructor; [|exact S2|].
  - intros t Ht. rewrite <- H5. now apply S1.
  - rewrite <- H5, <- H3. exact S3.
Qed.

Lemma good_atr2 N x g t x' g' : atr2 x g t x' g' -> QConserve N x -> Pay x g -> QConserve N x' /\ Pay x' g'.
Proof.
  intros [T|xm gm x'' _ _ T1 T2 He] C P.
  - split; [exact (cons_atr N _ _ _ _ _ T (p_w _ _ P) C)|exact (pay_atr N _ _ _ _ _ T C P)].
  - pose proof (cons_atr N _ _ _ _ _ T1 (p_w _ _ P) C) as Cm. pose proof (pay_atr N _ _ _ _ _ T1 C P) as Pm.
    split; [apply (cons_abeq N _ _ He); exact (cons_atr N _ _ _ _ _ T2 (p_w _ _ Pm) Cm)|apply (pay_abeq _ _ _ He); exact (pay_atr N _ _ _ _ _ T2 Cm Pm)].
Qed.
Lemma single_atr2 c x g t x' g' : atr2 x g t x' g' -> (t <> c -> aThr x t = ZIdle -> aThr x' t <> ZDeqB) -> Single c x g -> Single c x' g'.
Proof.
  intros [T|xm gm x'' H1 H2 T1 T2 He] Hside S.
  - exact (single_atr c _ _ _ _ _ T Hside S).
  - apply (single_abeq c _ _ _ He). apply (single_atr c _ _ _ _ _ T2); [intros _ Hi; contradiction|].
    apply (single_atr c _ _ _ _ _ T1); [intros _ Hi; contradiction|exact S].
Qed.

(* ---- GHOST: tickets, as in ZcqPayload.v.  The ticket of a dequeue is the number of B.consumes that RETURNED a value before its own. *)
Definition gupdf (c c' : zpc) (h : Z) (g : gh) (t : nat) : gh :=
  match c, c' with
  | ZDeqB, ZDeqA _ _ => {| gtick := upd (gtick g) t h; gans := gans g |}
  | ZDeqA _ v, ZIdle => {| gtick := gtick g; gans := gans g ++ [(gtick g t, v)] |}
  | _, _ => g
  end.
Definition gfexec (N : Z) (sg : zfst * gh) (e : zev) : zfst * gh :=
  let s := fst sg in
  let s' := qfexec N s e in
  match e with
  | ZStep t => (s', gupdf (ZTHR s t) (ZTHR s' t) (lhead (QB s)) (snd sg) t)
  | ZStart _ _ => (s', snd sg)
  end.
Definition gqf_run (N : Z) (p : Z -> Z) (evs : list zev) : zfst * gh := fold_left (gfexec N) evs (zqf0 N p, g0).

Lemma gqf_fold_fst N evs : forall sg, fst (fold_left (gfexec N) evs sg) = fold_left (qfexec N) evs (fst sg).
Proof. induction evs as [|e evs IH]; intros sg; [reflexivity|]. cbn [fold_left]. rewrite IH. destruct e; reflexivity. Qed.
Theorem gqf_run_fst N p evs : fst (gqf_run N p evs) = zqf_run N p evs.
Proof. unfold gqf_run, zqf_run. now rewrite gqf_fold_fst. Qed.

(* ------------------------------------------------------------------------------------------------ the concrete level *)
Section ConcreteFS.
Variable N : Z.
Hypothesis Npos : 0 < N.
Local Notation fstp := (fstepZ N).
Local Notation lastres := (ZeroCopy.lastres fsst flog).
Local Notation zmk := (ZeroCopy.zmk fsst).

(* which component a composite thread is inside, and doing what (no ZDeqL phase on this kind; the length enters no component) *)
Definition qfphase_of (c : zpc) (pa pb : fpc) : Prop :=
  match c with
  | ZIdle | ZLenB => pa = FIdle /\ pb = FIdle
  | ZEnqA _ => is_fcons pa = true /\ pb = FIdle
  | ZEnqB _ id => pa = FIdle /\ fpval pb = Some id
  | ZDeqB => pa = FIdle /\ is_fcons pb = true
  | ZDeqL _ => False /\ False
  | ZDeqA id _ => fpval pa = Some id /\ pb = FIdle
  end.

(* the ring-level invariant *)
Record RIF (s : zfst) : Prop := {
  rf_ia : FInv N (FA s);
  rf_ib : FInv N (QB s);
  rf_ph : forall t, qfphase_of (ZTHR s t) (fthr (FA s) t) (fthr (QB s) t);
  rf_2a : noFull (FA s);                         (* no publish into either ring has seen it full *)
  rf_2b : noFull (QB s);
  rf_wa : LW (FA s);
  rf_wb : LW (QB s)
}.

(* a thread about to try the flag of a publish, the flag free: the ring has room (the thread still carries the id) *)
Lemma qf_room s t : RIF s -> QConserve N (absf s) ->
  (forall v, fthr (FA s) t = FPL v -> flock (FA s) = false -> ftail (FA s) - fhead (FA s) < N) /\
  (forall v, fthr (QB s) t = FPL v -> flock (QB s) = false -> ftail (QB s) - fhead (QB s) < N).
Proof.
  intros R C. pose proof (rf_ph _ R t) as P. unfold QConserve in C.
  assert (Hc : qtransl (ZTHR s t) <> [] -> Z.of_nat (length (lring (FA s))) + Z.of_nat (length (lring (QB s))) < N).
  { intros Hne. assert (Hd : NoDup [t]) by (constructor; [intros []|constructor]).
    pose proof (FS_count _ _ _ [t] C Hd) as Hc. rewrite aB_absf in Hc. cbn [aA aThr absf amk] in Hc.
    rewrite app_length in Hc. cbn [length] in Hc. pose proof (ids_upto_length N ltac:(lia)).
    assert (Hle : (length (lring (FA s)) + length (lring (QB s)) + 1 <= length (ids_upto N))%nat).
    { apply Hc. intros u [<-|[]]. destruct (qtransl (ZTHR s t)); [now contradiction Hne|cbn; lia]. }
    lia. }
  split; intros v Ev El.
  - rewrite <- (lring_len_unlocked N _ (rf_ia _ R) El).
    assert (Hq : qtransl (ZTHR s t) <> []); [|specialize (Hc Hq); lia].
    rewrite Ev in P. destruct (ZTHR s t); cbn in P; destruct P as [P1 P2]; try discriminate; try contradiction; cbn; discriminate.
  - rewrite <- (lring_len_unlocked N _ (rf_ib _ R) El).
    assert (Hq : qtransl (ZTHR s t) <> []); [|specialize (Hc Hq); lia].
    rewrite Ev in P. destruct (ZTHR s t); cbn in P; destruct P as [P1 P2]; try discriminate; try contradiction; cbn; discriminate.
Qed.

Lemma rif_update s a' b' p' th' l' t : RIF s ->
  FInv N a' -> FInv N b' -> noFull a' -> noFull b' -> LW a' -> LW b' ->
  (forall u, u <> t -> fthr a' u = fthr (FA s) u /\ fthr b' u = fthr (QB s) u /\ th' u = ZTHR s u) ->
  qfphase_of (th' t) (fthr a' t) (fthr b' t) ->
  RIF (zmk a' b' p' th' l').
Proof.
  intros R Ia Ib H2a H2b Wa Wb Ho Hph. constructor; cbn [fa qb pool zthr zlog ZeroCopy.zmk]; auto.
  intros u. destruct (Nat.eq_dec u t) as [->|Hn]; [exact Hph|]. destruct (Ho u Hn) as (-> & -> & ->). apply (rf_ph _ R u).
Qed.

Lemma lastres_snoc' (x : fsst) l t r : flog x = l ++ [(t, r)] -> lastres x = r.
Proof. intros H. unfold ZeroCopy.lastres. rewrite H, last_last. reflexivity. Qed.

(* one composite step, on an explicit state, by the composite's pc and by what the component's step did *)
Ltac qopen E := unfold qfstep, ZeroCopy.zstep; cbn [fa qb pool zthr zlog ZeroCopy.zmk]; rewrite E; cbn [fa qb pool zthr zlog ZeroCopy.zmk].

Lemma qf_idle a b p th l t : th t = ZIdle -> qfstep N (zmk a b p th l) t = zmk a b p th l.
Proof. intros E. qopen E. reflexivity. Qed.
Lemma qf_enqA_busy a b p th l t v : th t = ZEnqA v -> fthr (fstp a t) t <> FIdle ->
  qfstep N (zmk a b p th l) t = zmk (fstp a t) b p th l.
Proof. intros E Hb. qopen E. rewrite (fsidle_false _ _ Hb). reflexivity. Qed.
Lemma qf_enqA_got a b p th l t v id : th t = ZEnqA v -> fthr (fstp a t) t = FIdle -> lastres (fstp a t) = RGot id ->
  qfstep N (zmk a b p th l) t = zmk (fstp a t) (fstart b t (OpPub id)) (updz p id v) (upd th t (ZEnqB v id)) l.
Proof. intros E Hb Hl. qopen E. rewrite (fsidle_true' _ _ Hb), Hl. reflexivity. Qed.
Lemma qf_enqA_none a b p th l t v : th t = ZEnqA v -> fthr (fstp a t) t = FIdle -> lastres (fstp a t) = REmpty ->
  qfstep N (zmk a b p th l) t = zmk (fstp a t) b p (upd th t ZIdle) (l ++ [(t, ZFull v)]).
Proof. intros E Hb Hl. qopen E. rewrite (fsidle_true' _ _ Hb), Hl. reflexivity. Qed.
Lemma qf_enqB_busy a b p th l t v id : th t = ZEnqB v id -> fthr (fstp b t) t <> FIdle ->
  qfstep N (zmk a b p th l) t = zmk a (fstp b t) p th l.
Proof. intros E Hb. qopen E. rewrite (fsidle_false _ _ Hb). reflexivity. Qed.
Lemma qf_enqB_done a b p th l t v id : th t = ZEnqB v id -> fthr (fstp b t) t = FIdle ->
  qfstep N (zmk a b p th l) t = zmk a (fstp b t) p (upd th t ZIdle) (l ++ [(t, ZOk v)]).
Proof. intros E Hb. qopen E. rewrite (fsidle_true' _ _ Hb). reflexivity. Qed.
Lemma qf_deqB_busy a b p th l t : th t = ZDeqB -> fthr (fstp b t) t <> FIdle ->
  qfstep N (zmk a b p th l) t = zmk a (fstp b t) p th l.
Proof. intros E Hb. qopen E. rewrite (fsidle_false _ _ Hb). reflexivity. Qed.
(* the consume returns an id: the payload is read and the give-back begun in the same composite step *)
Lemma qf_deqB_got a b p th l t id : th t = ZDeqB -> fthr (fstp b t) t = FIdle -> lastres (fstp b t) = RGot id ->
  qfstep N (zmk a b p th l) t = zmk (fstart a t (OpPub id)) (fstp b t) p (upd th t (ZDeqA id (p id))) l.
Proof. intros E Hb Hl. qopen E. rewrite (fsidle_true' _ _ Hb), Hl. reflexivity. Qed.
Lemma qf_deqB_empty a b p th l t : th t = ZDeqB -> fthr (fstp b t) t = FIdle -> lastres (fstp b t) = REmpty ->
  qfstep N (zmk a b p th l) t = zmk a (fstp b t) p (upd th t ZIdle) (l ++ [(t, ZEmpty)]).
Proof. intros E Hb Hl. qopen E. rewrite (fsidle_true' _ _ Hb), Hl. reflexivity. Qed.
Lemma qf_deqA_busy a b p th l t id v : th t = ZDeqA id v -> fthr (fstp a t) t <> FIdle ->
  qfstep N (zmk a b p th l) t = zmk (fstp a t) b p th l.
Proof. intros E Hb. qopen E. rewrite (fsidle_false _ _ Hb). reflexivity. Qed.
Lemma qf_deqA_done a b p th l t id v : th t = ZDeqA id v -> fthr (fstp a t) t = FIdle ->
  qfstep N (zmk a b p th l) t = zmk (fstp a t) b p (upd th t ZIdle) (l ++ [(t, ZGot v)]).
Proof. intros E Hb. qopen E. rewrite (fsidle_true' _ _ Hb). reflexivity. Qed.
(* the length: a plain read of tail and head, answered in one composite step *)
Lemma qf_len a b p th l t : th t = ZLenB ->
  qfstep N (zmk a b p th l) t = zmk a b p (upd th t ZIdle) (l ++ [(t, ZLenIs (ftail b - fhead b))]).
Proof. intros E. qopen E. reflexivity. Qed.

Ltac others := intros u Hu; cbn [fa qb pool zthr zlog ZeroCopy.zmk];
  rewrite ?(fstp_other N), ?fstart_other, ?upd_other by assumption; auto.
Ltac absview E := unfold absf; cbn [fa qb pool zthr zlog ZeroCopy.zmk]; rewrite ?upd_same, ?E; cbn [gupdf].
Ltac rifu R t := apply (rif_update _ _ _ _ _ _ t R); cbn [fa qb pool zthr zlog ZeroCopy.zmk]; try assumption.

(* EVERY composite step is one transition - the return of B.consume with an id: two transitions - of the abstract machine of
   ZcqPayload.v, read in the LOG view (and keeps the ring-level invariant) *)
Theorem qf_step s g t : RIF s -> QConserve N (absf s) ->
  RIF (qfstep N s t) /\ atr2 (absf s) g t (absf (qfstep N s t)) (gupdf (ZTHR s t) (ZTHR (qfstep N s t) t) (lhead (QB s)) g t).
Proof.
  intros R C. destruct (qf_room s t R C) as [RoomA RoomB].
  pose proof (rf_ia _ R) as Ia. pose proof (rf_ib _ R) as Ib. pose proof (rf_ph _ R t) as P.
  pose proof (rf_2a _ R) as H2a. pose proof (rf_2b _ R) as H2b. pose proof (rf_wa _ R) as Wa. pose proof (rf_wb _ R) as Wb. clear C.
  destruct s as [a b p th l]. cbn [fa qb pool zthr zlog] in *. fold (zmk a b p th l) in *.
  assert (Ia' : FInv N (fstp a t)) by now apply finv_step.
  assert (Ib' : FInv N (fstp b t)) by now apply finv_step.
  assert (H2a' : noFull (fstp a t)) by (apply noFull_step; assumption).
  assert (H2b' : noFull (fstp b t)) by (apply noFull_step; assumption).
  pose (x0 := amk (lring a) (lpub b) (lhead b) p th l).
  destruct (th t) eqn:E; cbn [qfphase_of] in P; destruct P as [P1 P2].
  - (* ZIdle *) rewrite (qf_idle _ _ _ _ _ _ E). split; [exact R|]. absview E. apply atr2_one, A_stutter.
  - (* ZEnqA v: inside the allocation (a consume on the free list) *)
    destruct (fthr a t) as [| | | |r|] eqn:Ea; cbn in P1; try discriminate.
    + (* at the flag CAS: whatever it does, nothing has RETURNED *)
      destruct (fstp_CL_view N a t Ea) as [Hc Hl]. destruct (lview_same _ _ Hl) as (Lr & Lp & Lh & Lw). pose proof (Lw Wa) as Wa'.
      rewrite (qf_enqA_busy a b p th l t v E (is_fcons_busy _ Hc)). split.
      * rifu R t; [others|]. rewrite E. cbn. auto.
      * absview E. rewrite Lr. apply atr2_one, A_stutter.
    + (* at the flag store: the allocation returns *)
      destruct (fstep_CU N a t r Ea) as (Ht & _ & _ & Hl & _).
      assert (Hi : fthr (fstp a t) t = FIdle) by (now rewrite Ht, upd_same).
      destruct r as [id|]; cbn [cons_res] in Hl.
      * destruct (lview_got N a _ t id Ia Ea Hl) as (Lr & Lp & Lh & Lb & Ln & Wa').
        rewrite (qf_enqA_got a b p th l t v id E Hi (lastres_snoc' _ _ _ _ Hl)).
        destruct (lview_same _ _ (fstart_flog b t (OpPub id))) as (Br & Bp & Bh & Bw). pose proof (Bw Wb) as Wb'.
        split.
        -- rifu R t; [now apply finv_start|now apply noFull_start|others|].
           rewrite upd_same, Hi, (fstart_idle b t _ P2). cbn. auto.
        -- absview E. rewrite Bp, Bh. exact (atr2_one _ _ _ _ _ (A_alloc x0 g t v id (lring (fstp a t)) E Lr)).
      * destruct (lview_nores _ _ _ _ Hl ltac:(discriminate) ltac:(discriminate)) as (Lr & Lp & Lh & Lw). pose proof (Lw Wa) as Wa'.
        rewrite (qf_enqA_none a b p th l t v E Hi (lastres_snoc' _ _ _ _ Hl)). split.
        -- rifu R t; [others|]. rewrite upd_same, Hi, P2. cbn. auto.
        -- absview E. rewrite Lr. exact (atr2_one _ _ _ _ _ (A_full x0 g t v E)).
  - (* ZEnqB v id: inside the publication of the id *)
    destruct (fthr b t) as [|w|w r| | |] eqn:Eb; cbn in P2; try discriminate; injection P2 as ->.
    + destruct (fstp_PL_view N b t id Eb) as [Hc Hl]. destruct (lview_same _ _ Hl) as (Lr & Lp & Lh & Lw). pose proof (Lw Wb) as Wb'.
      rewrite (qf_enqB_busy a b p th l t v id E (fpval_busy _ _ Hc)). split.
      * rifu R t; [others|]. rewrite E. cbn. auto.
      * absview E. rewrite Lp, Lh. apply atr2_one, A_stutter.
    + destruct r as [len|]; [|exfalso; exact (H2b t _ Eb)].
      destruct (fstep_PU N b t id _ Eb) as (Ht & _ & _ & Hl & _). cbn [pub_res] in Hl.
      assert (Hi : fthr (fstp b t) t = FIdle) by (now rewrite Ht, upd_same).
      destruct (lview_pub _ _ _ _ _ Wb Hl) as (Lr & Lp & Lh & Wb').
      rewrite (qf_enqB_done a b p th l t v id E Hi). split.
      * rifu R t; [others|]. rewrite upd_same, Hi, P1. cbn. auto.
      * absview E. rewrite Lp, Lh. exact (atr2_one _ _ _ _ _ (A_pub x0 g t v id E)).
  - (* ZDeqB: inside the consume on the id ring *)
    destruct (fthr b t) as [| | | |r|] eqn:Eb; cbn in P2; try discriminate.
    + destruct (fstp_CL_view N b t Eb) as [Hc Hl]. destruct (lview_same _ _ Hl) as (Lr & Lp & Lh & Lw). pose proof (Lw Wb) as Wb'.
      rewrite (qf_deqB_busy a b p th l t E (is_fcons_busy _ Hc)). split.
      * rifu R t; [others|]. rewrite E. cbn. auto.
      * absview E. rewrite Lp, Lh. apply atr2_one, A_stutter.
    + destruct (fstep_CU N b t r Eb) as (Ht & _ & _ & Hl & _).
      assert (Hi : fthr (fstp b t) t = FIdle) by (now rewrite Ht, upd_same).
      destruct r as [id|]; cbn [cons_res] in Hl.
      * (* the consume returns id: A_take (ticket = LOG head of B), then A_read (the payload), in this one composite step *)
        destruct (lview_got N b _ t id Ib Eb Hl) as (Lr & Lp & Lh & Lb & Ln & Wb').
        rewrite (qf_deqB_got a b p th l t id E Hi (lastres_snoc' _ _ _ _ Hl)).
        destruct (lview_same _ _ (fstart_flog a t (OpPub id))) as (Ar & Ap & Ah & Aw). pose proof (Aw Wa) as Wa'.
        split.
        -- rifu R t; [now apply finv_start|now apply noFull_start|others|].
           rewrite upd_same, Hi, (fstart_idle a t _ P1). cbn. auto.
        -- absview E. rewrite Ar, Lp, Lh. subst id.
           set (id := nthz (lpub b) (lhead b)).
           pose (xm := amk (lring a) (lpub b) (lhead b + 1) p (upd th t (ZDeqL id)) l).
           pose (gm := {| gtick := upd (gtick g) t (lhead b); gans := gans g |}).
           assert (Em : aThr xm t = ZDeqL id) by (unfold xm; cbn [aThr amk]; apply upd_same).
           eapply (atr2_two _ _ _ _ _ xm gm).
           ++ cbn [aThr amk]. rewrite E. discriminate.
           ++ rewrite Em. discriminate.
           ++ refine (A_take x0 g t E _). unfold x0. cbn [aH aPB amk]. lia.
           ++ exact (A_read xm gm t id Em).
           ++ unfold abeq, xm. cbn [aA aPB aH aPool aThr aLog amk]. repeat split.
              intros u. destruct (Nat.eq_dec u t) as [->|Hn]; [now rewrite !upd_same|now rewrite !upd_other by assumption].
      * destruct (lview_nores _ _ _ _ Hl ltac:(discriminate) ltac:(discriminate)) as (Lr & Lp & Lh & Lw). pose proof (Lw Wb) as Wb'.
        rewrite (qf_deqB_empty a b p th l t E Hi (lastres_snoc' _ _ _ _ Hl)). split.
        -- rifu R t; [others|]. rewrite upd_same, Hi, P1. cbn. auto.
        -- absview E. rewrite Lp, Lh. exact (atr2_one _ _ _ _ _ (A_empty x0 g t E)).
  - (* ZDeqL: no such phase on this kind *) destruct P1.
  - (* ZDeqA id v: inside the give-back of the id to the free list *)
    destruct (fthr a t) as [|w|w r| | |] eqn:Ea; cbn in P1; try discriminate; injection P1 as ->.
    + destruct (fstp_PL_view N a t id Ea) as [Hc Hl]. destruct (lview_same _ _ Hl) as (Lr & Lp & Lh & Lw). pose proof (Lw Wa) as Wa'.
      rewrite (qf_deqA_busy a b p th l t id v E (fpval_busy _ _ Hc)). split.
      * rifu R t; [others|]. rewrite E. cbn. auto.
      * absview E. rewrite Lr. apply atr2_one, A_stutter.
    + destruct r as [len|]; [|exfalso; exact (H2a t _ Ea)].
      destruct (fstep_PU N a t id _ Ea) as (Ht & _ & _ & Hl & _). cbn [pub_res] in Hl.
      assert (Hi : fthr (fstp a t) t = FIdle) by (now rewrite Ht, upd_same).
      destruct (lview_pub _ _ _ _ _ Wa Hl) as (Lr & Lp & Lh & Wa').
      rewrite (qf_deqA_done a b p th l t id v E Hi). split.
      * rifu R t; [others|]. rewrite upd_same, Hi, P2. cbn. auto.
      * absview E. rewrite Lr. exact (atr2_one _ _ _ _ _ (A_back x0 g t id v E)).
  - (* ZLenB: a plain read *)
    rewrite (qf_len a b p th l t E). split.
    + rifu R t; [others|]. rewrite upd_same, P1, P2. cbn. auto.
    + absview E. refine (atr2_one _ _ _ _ _ (A_len x0 g t _ E _)). right. eexists. reflexivity.
Qed.

(* ... and so is the beginning of an operation (the length enters no component) *)
Theorem qf_start s g t o : RIF s -> RIF (qfstart s t o) /\ atr (absf s) g t (absf (qfstart s t o)) g.
Proof.
  intros R. pose proof (rf_ia _ R) as Ia. pose proof (rf_ib _ R) as Ib. pose proof (rf_ph _ R t) as P.
  pose proof (rf_2a _ R) as H2a. pose proof (rf_2b _ R) as H2b. pose proof (rf_wa _ R) as Wa. pose proof (rf_wb _ R) as Wb.
  unfold qfstart, ZeroCopy.zstart. destruct s as [a b p th l]. cbn [fa qb pool zthr zlog] in *. fold (zmk a b p th l) in *.
  pose (x0 := amk (lring a) (lpub b) (lhead b) p th l).
  destruct (th t) eqn:E; try (split; [exact R|apply A_stutter]).
  cbn [qfphase_of] in P. destruct P as [P1 P2]. destruct o; cbv iota.
  - destruct (lview_same _ _ (fstart_flog a t OpCons)) as (Ar & Ap & Ah & Aw). pose proof (Aw Wa) as Wa'. split.
    + rifu R t; [now apply finv_start|now apply noFull_start|others|].
      rewrite upd_same, (fstart_idle a t _ P1), P2. cbn. auto.
    + unfold absf; cbn [fa qb pool zthr zlog ZeroCopy.zmk]. rewrite Ar. exact (A_begin x0 g t (ZEnqA v) E I).
  - destruct (lview_same _ _ (fstart_flog b t OpCons)) as (Br & Bp & Bh & Bw). pose proof (Bw Wb) as Wb'. split.
    + rifu R t; [now apply finv_start|now apply noFull_start|others|].
      rewrite upd_same, (fstart_idle b t _ P2), P1. cbn. auto.
    + unfold absf; cbn [fa qb pool zthr zlog ZeroCopy.zmk]. rewrite Bp, Bh. exact (A_begin x0 g t ZDeqB E I).
  - split.
    + rifu R t; [others|]. rewrite upd_same, P1, P2. cbn. auto.
    + unfold absf; cbn [fa qb pool zthr zlog ZeroCopy.zmk]. exact (A_begin x0 g t ZLenB E I).
Qed.

Lemma rif_init p : RIF (zqf0 N p).
Proof.
  destruct (fl0_state_fs N Npos) as (A1 & [A2 A2'] & A3 & A4).
  constructor; unfold zqf0; cbn [fa qb pool zthr zlog].
  - exact A1.
  - exact (finv_init N Npos).
  - intros t. cbn [qfphase_of]. split; [apply A2|reflexivity].
  - intros t v. rewrite A2. discriminate.
  - intros t v. cbn. discriminate.
  - unfold LW. destruct (f_sync _ _ A1 A2') as [_ Hd]. pose proof (f_lend _ _ A1) as Hl. rewrite <- Hd. lia.
  - unfold LW. cbn. lia.
Qed.
Lemma absf_init p : absf (zqf0 N p) = amk (ids_upto N) [] 0 p (fun _ => ZIdle) [].
Proof.
  destruct (fl0_state_fs N Npos) as (A1 & [A2 A2'] & A3 & A4). unfold absf, zqf0. cbn [fa qb pool zthr zlog].
  destruct (lring_unlocked N _ A1 A2') as (-> & _ & _). unfold finring. rewrite A3, A4. reflexivity.
Qed.
End ConcreteFS.

(* ------------------------------------------------------------------------------------------------ every run *)
Section RunsFS.
Variable N : Z.
Hypothesis Npos : 0 < N.

Definition GoodF (sg : zfst * gh) : Prop := RIF N (fst sg) /\ QConserve N (absf (fst sg)) /\ Pay (absf (fst sg)) (snd sg).

Lemma goodf_exec_atr sg e : GoodF sg ->
  RIF N (fst (gfexec N sg e)) /\ atr2 (absf (fst sg)) (snd sg) (ev_thread e) (absf (fst (gfexec N sg e))) (snd (gfexec N sg e)).
Proof.
  intros (R & C & P). destruct sg as [s g]. cbn [fst snd] in *. destruct e as [t|t o]; cbn [gfexec fst snd ev_thread].
  - exact (qf_step N Npos s g t R C).
  - destruct (qf_start N s g t o R) as [R' T]. split; [exact R'|exact (atr2_one _ _ _ _ _ T)].
Qed.
Lemma goodf_exec sg e : GoodF sg -> GoodF (gfexec N sg e).
Proof.
  intros G. destruct (goodf_exec_atr sg e G) as [R' T]. destruct G as (R & C & P).
  split; [exact R'|]. exact (good_atr2 N _ _ _ _ _ T C P).
Qed.
Lemma goodf_init p : GoodF (zqf0 N p, g0).
Proof.
  split; [apply (rif_init N Npos)|]. cbn [fst snd]. rewrite (absf_init N Npos). split.
  - exists []. split; [constructor|]. split; [reflexivity|]. unfold aB. cbn. rewrite !app_nil_r. reflexivity.
  - constructor; unfold W, Tk, aE, aB; cbn; try discriminate; try lia; auto.
    exists []. split; [constructor|]. split; [reflexivity|]. reflexivity.
Qed.
Theorem goodf_run p evs : GoodF (gqf_run N p evs).
Proof. unfold gqf_run. apply (fold_inv (gfexec N) GoodF goodf_exec). apply goodf_init. Qed.

(* a single consumer *)
Lemma qfstep_idle s t : ZTHR s t = ZIdle -> qfstep N s t = s.
Proof. intros H. unfold qfstep, ZeroCopy.zstep. now rewrite H. Qed.
Lemma qfstart_not_deq s t o : ZTHR s t = ZIdle -> o <> ZDeq -> ZTHR (qfstart s t o) t <> ZDeqB.
Proof. intros H Ho. unfold qfstart, ZeroCopy.zstart. rewrite H. destruct o; cbn [zthr ZeroCopy.zmk]; rewrite upd_same; congruence. Qed.

Lemma singlef_exec c sg e : GoodF sg -> Single c (absf (fst sg)) (snd sg) -> (forall t, e = ZStart t ZDeq -> t = c) ->
  Single c (absf (fst (gfexec N sg e))) (snd (gfexec N sg e)).
Proof.
  intros G S He. destruct (goodf_exec_atr sg e G) as [_ T]. apply (single_atr2 c _ _ _ _ _ T); [|exact S].
  destruct sg as [s g]. cbn [fst snd absf aThr amk] in *. intros Hn Hi. destruct e as [t|t o]; cbn [gfexec fst ev_thread] in *.
  - change (qfexec N s (ZStep t)) with (qfstep N s t). rewrite (qfstep_idle s t Hi), Hi. discriminate.
  - change (qfexec N s (ZStart t o)) with (qfstart s t o). apply (qfstart_not_deq s t o Hi). intros ->. apply Hn. now apply He.
Qed.
Lemma singlef_fold c evs : forall sg, GoodF sg -> Single c (absf (fst sg)) (snd sg) -> (forall t, In (ZStart t ZDeq) evs -> t = c) ->
  Single c (absf (fst (fold_left (gfexec N) evs sg))) (snd (fold_left (gfexec N) evs sg)).
Proof.
  induction evs as [|e evs IH]; intros sg G S He; [exact S|]. cbn [fold_left]. apply IH.
  - now apply goodf_exec.
  - apply singlef_exec; auto. intros t ->. apply He. now left.
  - intros t Ht. apply He. now right.
Qed.
Theorem singlef_run c p evs : (forall t, In (ZStart t ZDeq) evs -> t = c) ->
  Single c (absf (fst (gqf_run N p evs))) (snd (gqf_run N p evs)).
Proof.
  intros He. unfold gqf_run. apply singlef_fold; [apply goodf_init| |exact He]. cbn [fst snd]. rewrite (absf_init N Npos).
  constructor; cbn; auto.
Qed.
End RunsFS.

(* ------------------------------------------------------------------------------------------------ results, LOG view
   (the statements of ZcqPayload.v with `lring` / `lpub` / `lhead` in the place of inring / published / head; valid in EVERY state) *)
Section ResultsLog.
Variable N : Z.
Hypothesis Npos : 0 < N.
Variable p : Z -> Z.                               (* the initial content of the payload slots: anything *)
Local Notation run evs := (zqf_run N p evs).
Local Notation ghost evs := (snd (gqf_run N p evs)).

Lemma runf_good evs : RIF N (run evs) /\ QConserve N (absf (run evs)) /\ Pay (absf (run evs)) (ghost evs).
Proof. rewrite <- gqf_run_fst. apply (goodf_run N Npos). Qed.

(* the id of a dequeue whose B.consume has RETURNED and whose answer is not yet logged *)
Definition deq_carry (s : zfst) (t : nat) : list Z := match ZTHR s t with ZDeqL id | ZDeqA id _ => [id] | _ => [] end.
Lemma qtick_deq_carry s g t : deq_carry s t = [] -> qtick (ZTHR s t) (gtick g t) = [].
Proof. unfold deq_carry. destruct (ZTHR s t); cbn; congruence. Qed.

(* ---- FIFO IN CONSUME ORDER (any number of consumers): tickets are handed out when B.consume RETURNS ---- *)
Theorem zcqf_fifo_in_consume_order evs :
  let s := run evs in let g := ghost evs in let E := enqueued_of (ZLOG s) in let h := lhead (QB s) in
  (* the ghost answer list mirrors the ZGot answers of the log, one for one, in log order *)
  map snd (gans g) = dequeued_of (ZLOG s) /\
  (* the ZOk answers are logged in the order the publishes of the ids RETURN; h consumes have returned an id *)
  length E = length (lpub (QB s)) /\ 0 <= h <= Z.of_nat (length E) /\
  (* the answer with ticket k is the k-th enqueued value *)
  (forall k v, In (k, v) (gans g) -> 0 <= k < h /\ v = nthz E k) /\
  (* a dequeue that owns ticket k took the k-th id published into B, and the value it has read is the k-th enqueued value *)
  (forall t id v, ZTHR s t = ZDeqA id v -> 0 <= gtick g t < h /\ nthz (lpub (QB s)) (gtick g t) = id /\ v = nthz E (gtick g t)) /\
  (* the slot an enqueue is about to publish / has just published holds its value; the queued slots (LOG view) hold the enqueued values
     not yet taken, in order *)
  (forall t v id, ZTHR s t = ZEnqB v id -> POOL s id = v) /\
  map (POOL s) (lring (QB s)) = skipn (Z.to_nat h) E /\
  (* every ticket 0 .. h-1 is either answered or owned by exactly one dequeue in progress; none twice *)
  NoDup (map fst (gans g)) /\
  exists ths, NoDup ths /\ (forall t, ~ In t ths -> qtick (ZTHR s t) (gtick g t) = []) /\
    Permutation (ids_upto h) (map fst (gans g) ++ flat_map (fun t => qtick (ZTHR s t) (gtick g t)) ths).
Proof.
  intros s g E h. destruct (runf_good evs) as (_ & _ & [Pw Pl Pq Ptr PL PA Pans Plog Ptk]). fold s g in Pw, Pl, Pq, Ptr, PL, PA, Pans, Plog, Ptk.
  rewrite aB_absf in Pq. unfold W, Tk, aE in *. cbn [aA aPB aH aPool aThr aLog absf amk] in *. fold E h in Pl, Pq, PL, PA, Pans, Ptk, Pw.
  repeat (split; [first [assumption|lia]|]). split; [|exact Ptk].
  exact (FS_base_nodup _ _ _ (ids_upto_nodup h) Ptk).
Qed.

Theorem zcqf_fifo_in_consume_order_complete evs :
  let s := run evs in let g := ghost evs in let E := enqueued_of (ZLOG s) in let h := lhead (QB s) in
  (forall t, deq_carry s t = []) ->
  Permutation (map fst (gans g)) (ids_upto h) /\ flat_map (ans_at g) (ids_upto h) = firstn (Z.to_nat h) E.
Proof.
  intros s g E h Hq. destruct (zcqf_fifo_in_consume_order evs) as (_ & Hl & Hh & Hans & _ & _ & _ & Hnd & (ths & Hn & Ho & Hp)).
  fold s g E h in Hl, Hh, Hans, Hnd, Ho, Hp.
  assert (Hperm : Permutation (map fst (gans g)) (ids_upto h)).
  { rewrite (flat_map_nil _ ths), app_nil_r in Hp; [now symmetry|]. intros t. now apply qtick_deq_carry. }
  split; [exact Hperm|].
  rewrite (flat_map_ext_in' (ans_at g) (fun k => [nthz E k])).
  - rewrite flat_map_singleton. now apply map_nthz_ids_upto.
  - intros k Hk. apply (Permutation_in _ (Permutation_sym Hperm)) in Hk. apply in_map_iff in Hk. destruct Hk as ([k' v] & Hf & Hin).
    cbn [fst] in Hf. subst k'. destruct (Hans k v Hin) as [_ ->]. unfold ans_at. now apply filter_key_one.
Qed.

Lemma dequeuedf_by_ticket evs : let s := run evs in let g := ghost evs in
  dequeued_of (ZLOG s) = map (nthz (enqueued_of (ZLOG s))) (map fst (gans g)).
Proof.
  intros s g. destruct (zcqf_fifo_in_consume_order evs) as (Hlog & _ & _ & Hans & _). fold s g in Hlog, Hans.
  rewrite <- Hlog. apply pairs_map. intros k v Hin. now destruct (Hans k v Hin).
Qed.

(* any number of consumers, no dequeue between the return of its B.consume and its answer: a permutation of the prefix *)
Theorem zcqf_dequeued_permutation_log evs : let s := run evs in
  (forall t, deq_carry s t = []) ->
  Permutation (dequeued_of (ZLOG s)) (firstn (Z.to_nat (lhead (QB s))) (enqueued_of (ZLOG s))).
Proof.
  intros s Hq. destruct (zcqf_fifo_in_consume_order_complete evs Hq) as [Hperm _].
  destruct (zcqf_fifo_in_consume_order evs) as (_ & _ & Hh & _). fold s in Hperm, Hh.
  pose proof (dequeuedf_by_ticket evs) as Hd. cbn zeta in Hd. fold s in Hd. rewrite Hd, <- (map_nthz_ids_upto _ _ Hh). now apply Permutation_map.
Qed.

(* ---- a SINGLE CONSUMER thread: the log-order statement ---- *)
Lemma singlef_consumer_prefix c evs : (forall t, In (ZStart t ZDeq) evs -> t = c) -> let s := run evs in
  exists n, 0 <= n <= lhead (QB s) /\ (deq_carry s c = [] -> n = lhead (QB s)) /\
    dequeued_of (ZLOG s) = firstn (Z.to_nat n) (enqueued_of (ZLOG s)) /\ length (dequeued_of (ZLOG s)) = Z.to_nat n.
Proof.
  intros Hc s. pose proof (singlef_run N Npos c p evs Hc) as [S1 S2 S3]. rewrite gqf_run_fst in S1, S3. fold s in S1, S3.
  destruct (zcqf_fifo_in_consume_order evs) as (Hlog & _ & Hh & _). fold s in Hlog, Hh.
  cbn [aThr aH absf amk] in S3. set (g := ghost evs) in *. exists (nans g).
  assert (Hn : 0 <= nans g <= lhead (QB s) /\ (deq_carry s c = [] -> nans g = lhead (QB s))).
  { unfold nans in *. unfold deq_carry. destruct (ZTHR s c); try (split; [lia|intros _; lia]); (split; [lia|discriminate]). }
  destruct Hn as [Hn Hn']. split; [exact Hn|]. split; [exact Hn'|]. split.
  - pose proof (dequeuedf_by_ticket evs) as Hd. cbn zeta in Hd. fold s g in Hd. rewrite Hd, S2. apply map_nthz_ids_upto. lia.
  - rewrite <- Hlog, map_length. unfold nans. lia.
Qed.
Theorem zcqf_fifo_single_consumer c evs : (forall t, In (ZStart t ZDeq) evs -> t = c) -> let s := run evs in
  dequeued_of (ZLOG s) = firstn (length (dequeued_of (ZLOG s))) (enqueued_of (ZLOG s)).
Proof. intros Hc s. destruct (singlef_consumer_prefix c evs Hc) as (n & _ & _ & H1 & H2). fold s in H1, H2. now rewrite H2. Qed.

(* in every state, whatever is in progress: the queued slots (LOG view) hold the enqueued values not yet taken *)
Theorem zcqf_queued_payloads_log evs : let s := run evs in
  map (POOL s) (lring (QB s)) = skipn (Z.to_nat (lhead (QB s))) (enqueued_of (ZLOG s)).
Proof. intros s. now destruct (zcqf_fifo_in_consume_order evs) as (_ & _ & _ & _ & _ & _ & H & _). Qed.
End ResultsLog.

(* ------------------------------------------------------------------------------------------------ from the LOG view to the TRUE view *)
Section Views.
Variable N : Z.
Hypothesis Npos : 0 < N.

(* the two views differ by exactly the pending answer of the flag holder *)
Lemma view_holder x t : FInv N x -> LW x ->
  match fthr x t with
  | FPU v (Some _) => finring x = lring x ++ [v] /\ fhead x = lhead x            (* published, the publish has not returned *)
  | FCU (Some v) => lring x = v :: finring x /\ fhead x = lhead x + 1             (* consumed, the consume has not returned *)
  | FPU _ None | FCU None => finring x = lring x /\ fhead x = lhead x
  | _ => True
  end.
Proof.
  intros Iv Hw. pose proof (f_lag _ _ Iv t) as Hg. pose proof (f_lend _ _ Iv) as Hld. pose proof (f_lenp _ _ Iv) as Hlp.
  pose proof (f_del _ _ Iv) as Hdel. pose proof (f_ord _ _ Iv) as Ho. unfold finring, lring, lhead, LW in *.
  destruct (fthr x t) as [| |v [len|]| |[v|]|]; try exact I; destruct Hg as [Hp Hd].
  - rewrite Hd in Hld. rewrite <- Hld, Nat2Z.id, Hp. split; [now apply skipn_snoc|reflexivity].
  - rewrite Hd in Hld. rewrite <- Hld, Nat2Z.id, Hp. auto.
  - rewrite Hp, Hd in Hdel. rewrite Hd, app_length in Hld. cbn [length] in Hld. rewrite Hp in Hlp |- *.
    set (n := length (yielded_of (flog x))) in *. set (acc := accepted_of (flog x)) in *.
    assert (Hn : (n < length acc)%nat) by lia.
    replace (Z.to_nat (fhead x)) with (S n) in * by lia. rewrite (firstn_S_nth acc n 0 Hn) in Hdel.
    apply app_inj_tail in Hdel. destruct Hdel as [_ Hid]. split; [|lia]. rewrite Hid. now apply skipn_nth_cons.
  - rewrite Hd in Hld. rewrite <- Hld, Nat2Z.id, Hp. auto.
Qed.

(* moving ONE ring of a conservation statement from the LOG view to the TRUE view: only the custody of the flag holder changes *)
Lemma view_shift x tot baseL baseR (f f' : nat -> list Z) : FInv N x -> LW x -> noFull x ->
  FS tot (baseL ++ lring x ++ baseR) f ->
  (forall t, holds_lock (fthr x t) = false -> f' t = f t) ->
  (forall t v len, fthr x t = FPU v (Some len) -> f t = [v] /\ f' t = []) ->
  (forall t v, fthr x t = FCU (Some v) -> f t = [] /\ f' t = [v]) ->
  (forall t, fthr x t = FCU None -> f' t = f t) ->
  FS tot (baseL ++ finring x ++ baseR) f'.
Proof.
  intros Iv Hw H2 C H0 Hpu Hcu Hcn. destruct (flock x) eqn:El.
  - destruct (f_free _ _ Iv El) as [u Hu]. apply (FS_move _ _ _ _ _ _ u C).
    + intros t Ht. apply H0. now apply (nolock_others N _ u Iv Hu).
    + intros R HP. pose proof (view_holder x u Iv Hw) as Hv.
      destruct (fthr x u) as [| |v [len|]| |[v|]|] eqn:Eu; cbn in Hu; try discriminate.
      * destruct (Hpu u v len Eu) as [E1 E2]. rewrite E1 in HP. rewrite E2. destruct Hv as [-> _]. perm_count.
      * exfalso. exact (H2 u v Eu).
      * destruct (Hcu u v Eu) as [E1 E2]. rewrite E1 in HP. rewrite E2. destruct Hv as [Hv _]. rewrite Hv in HP. perm_count.
      * rewrite (Hcn u Eu). destruct Hv as [-> _]. exact HP.
  - destruct (lring_unlocked N _ Iv El) as (<- & _ & _). apply (FS_same _ _ _ _ C). intros u. apply H0. now apply (nolock_all N _ Iv El).
Qed.

(* custody in the TRUE view, by the composite's pc AND the pc inside the component (the table of ZcConserveFS.v):
     ZEnqA v    / A at FCU (Some id)   id     taken out of the free list, the allocation has not returned
     ZEnqB v id / B at FPL id          id     allocated and written, not yet in B
     ZEnqB v id / B at FPU id (Some _) -      already in B, the publish has not returned
     ZDeqB      / B at FCU (Some id)   id     taken out of B, the consume has not returned
     ZDeqA id v / A at FPL id          id     read, not yet back in the free list
     ZDeqA id v / A at FPU id (Some _) -      already back in the free list, the answer ZGot v still to come *)
Definition enq_transit (s : zfst) (t : nat) : list Z :=
  match ZTHR s t with
  | ZEnqA _ => match fthr (FA s) t with FCU (Some id) => [id] | _ => [] end
  | ZEnqB _ id => match fthr (QB s) t with FPU _ (Some _) => [] | _ => [id] end
  | _ => []
  end.
Definition deq_transit (s : zfst) (t : nat) : list Z :=
  match ZTHR s t with
  | ZDeqB => match fthr (QB s) t with FCU (Some id) => [id] | _ => [] end
  | ZDeqA id _ => match fthr (FA s) t with FPU _ (Some _) => [] | _ => [id] end
  | ZDeqL id => [id]
  | _ => []
  end.
Definition qftransl (s : zfst) (t : nat) : list Z :=
  match ZTHR s t with
  | ZEnqA _ => match fthr (FA s) t with FCU (Some id) => [id] | _ => [] end
  | ZEnqB _ id => match fthr (QB s) t with FPU _ (Some _) => [] | _ => [id] end
  | ZDeqB => match fthr (QB s) t with FCU (Some id) => [id] | _ => [] end
  | ZDeqA id _ => match fthr (FA s) t with FPU _ (Some _) => [] | _ => [id] end
  | ZDeqL id => [id]
  | _ => []
  end.
Lemma qftransl_split s t : qftransl s t = enq_transit s t ++ deq_transit s t.
Proof. unfold qftransl, enq_transit, deq_transit. destruct (ZTHR s t); rewrite ?app_nil_r; reflexivity. Qed.

(* free list in the TRUE view, id ring still in the LOG view *)
Definition qftransl1 (s : zfst) (t : nat) : list Z :=
  match ZTHR s t with
  | ZEnqA _ => match fthr (FA s) t with FCU (Some id) => [id] | _ => [] end
  | ZDeqA id _ => match fthr (FA s) t with FPU _ (Some _) => [] | _ => [id] end
  | c => qtransl c
  end.

Definition TrueConserve (s : zfst) : Prop := FS (ids_upto N) (finring (FA s) ++ finring (QB s)) (qftransl s).

Theorem true_conserve s : RIF N s -> QConserve N (absf s) -> TrueConserve s.
Proof.
  intros R C. unfold QConserve in C. rewrite aB_absf in C. cbn [aA aThr absf amk] in C.
  assert (C1 : FS (ids_upto N) ([] ++ finring (FA s) ++ lring (QB s)) (qftransl1 s)).
  { apply (view_shift (FA s) _ [] (lring (QB s)) (fun t => qtransl (ZTHR s t))); [apply R|apply R|apply R|exact C| | | |].
    - intros t Hl. unfold qftransl1. destruct (ZTHR s t); try reflexivity; destruct (fthr (FA s) t) as [| |? [?|]| |[?|]|]; cbn in Hl; try discriminate; reflexivity.
    - intros t v len E. pose proof (rf_ph _ _ R t) as P. unfold qftransl1. rewrite E in *.
      destruct (ZTHR s t); cbn in P; destruct P as [P1 P2]; try discriminate; try contradiction. injection P1 as ->. auto.
    - intros t v E. pose proof (rf_ph _ _ R t) as P. unfold qftransl1. rewrite E in *.
      destruct (ZTHR s t); cbn in P; destruct P as [P1 P2]; try discriminate; try contradiction. auto.
    - intros t E. pose proof (rf_ph _ _ R t) as P. unfold qftransl1. rewrite E in *.
      destruct (ZTHR s t); cbn in P; destruct P as [P1 P2]; try discriminate; try contradiction. auto. }
  cbn [app] in C1. rewrite <- (app_nil_r (lring (QB s))) in C1.
  unfold TrueConserve. rewrite <- (app_nil_r (finring (QB s))).
  apply (view_shift (QB s) _ (finring (FA s)) [] (qftransl1 s)); [apply R|apply R|apply R|exact C1| | | |].
  - intros t Hl. unfold qftransl, qftransl1. destruct (ZTHR s t); try reflexivity; destruct (fthr (QB s) t) as [| |? [?|]| |[?|]|]; cbn in Hl; try discriminate; reflexivity.
  - intros t v len E. pose proof (rf_ph _ _ R t) as P. unfold qftransl, qftransl1. rewrite E in *.
    destruct (ZTHR s t); cbn in P; destruct P as [P1 P2]; try discriminate; try contradiction. injection P2 as ->. auto.
  - intros t v E. pose proof (rf_ph _ _ R t) as P. unfold qftransl, qftransl1. rewrite E in *.
    destruct (ZTHR s t); cbn in P; destruct P as [P1 P2]; try discriminate; try contradiction. auto.
  - intros t E. pose proof (rf_ph _ _ R t) as P. unfold qftransl, qftransl1. rewrite E in *.
    destruct (ZTHR s t); cbn in P; destruct P as [P1 P2]; try discriminate; try contradiction. auto.
Qed.
End Views.

(* ------------------------------------------------------------------------------------------------ results, TRUE view *)
Lemma skipn_S_of_cons {A} (l : list A) n a r : skipn n l = a :: r -> skipn (S n) l = r.
Proof.
  revert n. induction l as [|b l IH]; intros n H; [destruct n; discriminate|].
  destruct n; [cbn in H; now injection H as _ ->|]. cbn [skipn] in *. now apply IH.
Qed.

Section ResultsTrue.
Variable N : Z.
Hypothesis Npos : 0 < N.
Variable p : Z -> Z.
Local Notation run evs := (zqf_run N p evs).
Local Notation ghost evs := (snd (gqf_run N p evs)).

Lemma runf_true_conserve evs : TrueConserve N (run evs).
Proof. destruct (runf_good N Npos p evs) as (R & C & _). now apply true_conserve. Qed.

(* ---- (1) SLOT CONSERVATION: each slot id 0..N-1 is in exactly one place - free list A / id ring B (positions fhead <= i < ftail of
   fpublished) / in transit inside an enqueue / inside a dequeue (table above) ---- *)
Theorem zcqf_slots_conserved evs : let s := run evs in
  exists ths, NoDup ths /\ (forall t, ~ In t ths -> enq_transit s t = [] /\ deq_transit s t = []) /\
    Permutation (ids_upto N)
                (finring (FA s) ++ finring (QB s) ++ flat_map (enq_transit s) ths ++ flat_map (deq_transit s) ths).
Proof.
  intros s. destruct (runf_true_conserve evs) as (ths & Hn & Ho & Hp). fold s in Ho, Hp. exists ths. split; [exact Hn|]. split.
  - intros t Ht. specialize (Ho t Ht). rewrite qftransl_split in Ho. now apply app_eq_nil.
  - rewrite Hp. rewrite <- app_assoc. do 2 apply Permutation_app_head.
    rewrite (flat_map_ext_in' _ (fun t => enq_transit s t ++ deq_transit s t) ths) by (intros; apply qftransl_split).
    apply flat_map_app_perm.
Qed.

(* what it means for one id: the slot an operation carries is in neither ring and nobody else carries it - in particular the slot a
   dequeue has taken out of B cannot be allocated again (it is not in the free list) before that dequeue has put it back *)
Theorem zcqf_slot_owned_exclusively evs : let s := run evs in
  forall t id, In id (enq_transit s t ++ deq_transit s t) ->
    0 <= id < N /\ ~ In id (finring (FA s)) /\ ~ In id (finring (QB s)) /\
    forall u, In id (enq_transit s u ++ deq_transit s u) -> u = t.
Proof.
  intros s t id Hin. pose proof (runf_true_conserve evs) as C. fold s in C. unfold TrueConserve in C. rewrite <- qftransl_split in Hin.
  destruct (FS_excl _ _ _ t id (ids_upto_nodup N) C Hin) as [Hnb Hu]. split; [|split; [|split]].
  - apply ids_upto_in. exact (FS_in _ _ _ t id C Hin).
  - intros H. apply Hnb, in_or_app. now left.
  - intros H. apply Hnb, in_or_app. now right.
  - intros u Hin'. rewrite <- qftransl_split in Hin'. now apply Hu.
Qed.

(* ---- (3a) THE QUEUED PAYLOADS.  The value of the enqueue / of the dequeue standing between its move of the id ring (flag CAS) and
   its return (flag store): ---- *)
Definition qpubwin (s : zfst) (t : nat) : list Z :=
  match ZTHR s t, fthr (QB s) t with ZEnqB v _, FPU _ (Some _) => [v] | _, _ => [] end.
Definition qconwin (s : zfst) (t : nat) : list Z :=
  match ZTHR s t, fthr (QB s) t with ZDeqB, FCU (Some id) => [POOL s id] | _, _ => [] end.

Theorem zcqf_queued_payloads evs : let s := run evs in let E := enqueued_of (ZLOG s) in
  (* B's flag is free - nobody stands in the window: the queued slots hold the enqueued values not yet taken, in order *)
  (flock (QB s) = false -> map (POOL s) (finring (QB s)) = skipn (Z.to_nat (fhead (QB s))) E) /\
  (* thread t holds B's flag: the same, corrected by t's pending answer - the id of an enqueue already in B whose ZOk v is still to
     come (its slot holds v) / the id a dequeue has already taken out of B (fhead moved) and not yet read *)
  (forall t, holds_lock (fthr (QB s) t) = true ->
     qconwin s t ++ map (POOL s) (finring (QB s)) = skipn (Z.to_nat (fhead (QB s)) - length (qconwin s t)) E ++ qpubwin s t) /\
  (* ... so only a pending ENQUEUE breaks the plain equation (a dequeue moves fhead and the ring contents in the same step) *)
  (forall t, holds_lock (fthr (QB s) t) = true ->
     map (POOL s) (finring (QB s)) = skipn (Z.to_nat (fhead (QB s))) E ++ qpubwin s t) /\
  (* nobody else has a pending answer; there is at most one *)
  (forall t, holds_lock (fthr (QB s) t) = false -> qpubwin s t = [] /\ qconwin s t = []) /\
  (forall t u, qpubwin s t ++ qconwin s t <> [] -> qpubwin s u ++ qconwin s u <> [] -> t = u) /\
  (forall t, (length (qpubwin s t ++ qconwin s t) <= 1)%nat).
Proof.
  intros s E. destruct (runf_good N Npos p evs) as (R & _ & _). fold s in R.
  pose proof (zcqf_queued_payloads_log N Npos p evs) as Hq. destruct (zcqf_fifo_in_consume_order N Npos p evs) as (_ & _ & _ & _ & _ & Ptr & _).
  cbn zeta in Hq, Ptr. fold s E in Hq, Ptr. pose proof (rf_ib _ _ R) as Ib.
  assert (Hno : forall t, holds_lock (fthr (QB s) t) = false -> qpubwin s t = [] /\ qconwin s t = []).
  { intros t Hl. unfold qpubwin, qconwin. destruct (ZTHR s t); destruct (fthr (QB s) t) as [| |? [?|]| |[?|]|]; cbn in Hl; try discriminate; auto. }
  split; [|split; [|split; [|split; [exact Hno|split]]]].
  - intros El. destruct (lring_unlocked N _ Ib El) as (<- & <- & _). exact Hq.
  - intros t Hl. pose proof (view_holder N (QB s) t Ib (rf_wb _ _ R)) as Hv. pose proof (rf_ph _ _ R t) as P. unfold qpubwin, qconwin.
    destruct (fthr (QB s) t) as [| |v [len|]| |[v|]|] eqn:Eb; cbn in Hl; try discriminate;
      destruct (ZTHR s t) eqn:Et; cbn in P; destruct P as [P1 P2]; try discriminate; try contradiction; destruct Hv as [Hv1 Hv2]; cbn [app length].
    + injection P2 as ->. rewrite Nat.sub_0_r, Hv1, Hv2, map_app, Hq. cbn [map]. now rewrite (Ptr t _ _ Et).
    + rewrite Nat.sub_0_r, app_nil_r, Hv1, Hv2. exact Hq.
    + rewrite app_nil_r. rewrite Hv1 in Hq. cbn [map] in Hq. rewrite Hq. f_equal. f_equal. rewrite Hv2. unfold lhead. lia.
    + rewrite Nat.sub_0_r, app_nil_r, Hv1, Hv2. exact Hq.
  - intros t Hl. pose proof (view_holder N (QB s) t Ib (rf_wb _ _ R)) as Hv. pose proof (rf_ph _ _ R t) as P. unfold qpubwin.
    destruct (fthr (QB s) t) as [| |v [len|]| |[v|]|] eqn:Eb; cbn in Hl; try discriminate;
      destruct (ZTHR s t) eqn:Et; cbn in P; destruct P as [P1 P2]; try discriminate; try contradiction; destruct Hv as [Hv1 Hv2]; cbn [app length].
    + injection P2 as ->. rewrite Hv1, Hv2, map_app, Hq. cbn [map]. now rewrite (Ptr t _ _ Et).
    + rewrite app_nil_r, Hv1, Hv2. exact Hq.
    + rewrite app_nil_r. rewrite Hv1 in Hq. cbn [map] in Hq. symmetry in Hq. rewrite Hv2.
      replace (Z.to_nat (lhead (QB s) + 1)) with (S (Z.to_nat (lhead (QB s)))) by (unfold lhead; lia).
      symmetry. exact (skipn_S_of_cons _ _ _ _ Hq).
    + rewrite app_nil_r, Hv1, Hv2. exact Hq.
  - intros t u Ht Hu. apply (f_mutex _ _ Ib).
    + destruct (holds_lock (fthr (QB s) t)) eqn:El; [reflexivity|]. destruct (Hno t El) as [H1 H2]. rewrite H1, H2 in Ht. now contradiction Ht.
    + destruct (holds_lock (fthr (QB s) u)) eqn:El; [reflexivity|]. destruct (Hno u El) as [H1 H2]. rewrite H1, H2 in Hu. now contradiction Hu.
  - intros t. unfold qpubwin, qconwin. destruct (ZTHR s t); destruct (fthr (QB s) t) as [| |? [?|]| |[?|]|]; cbn; lia.
Qed.

(* the slot an enqueue carries (allocated, written; its id not yet - or just - in B) holds the value it is enqueuing *)
Theorem zcqf_transit_payload evs : let s := run evs in forall t v id, ZTHR s t = ZEnqB v id -> POOL s id = v.
Proof. intros s. now destruct (zcqf_fifo_in_consume_order N Npos p evs) as (_ & _ & _ & _ & _ & H & _). Qed.

(* ---- (2c) any number of consumers: the dequeued values are a PERMUTATION of the first (fhead B) enqueued values, whenever no
   dequeue stands between B's move (the FCL step of its B.consume) and its answer ---- *)
Definition deq_pending (s : zfst) (t : nat) : list Z :=
  match ZTHR s t with
  | ZDeqB => match fthr (QB s) t with FCU (Some id) => [id] | _ => [] end
  | ZDeqA id _ | ZDeqL id => [id]
  | _ => []
  end.
Lemma deq_pending_carry s t : deq_pending s t = [] -> deq_carry s t = [].
Proof. unfold deq_pending, deq_carry. destruct (ZTHR s t); auto. Qed.
Lemma fhead_lhead s : RIF N s -> (forall t, deq_pending s t = []) -> fhead (QB s) = lhead (QB s).
Proof.
  intros R Hq. pose proof (rf_ib _ _ R) as Ib. destruct (flock (QB s)) eqn:El; [|now destruct (lring_unlocked N _ Ib El) as (_ & -> & _)].
  destruct (f_free _ _ Ib El) as [u Hu]. pose proof (view_holder N (QB s) u Ib (rf_wb _ _ R)) as Hv. pose proof (rf_ph _ _ R u) as P.
  specialize (Hq u). unfold deq_pending in Hq.
  destruct (fthr (QB s) u) as [| |v [len|]| |[v|]|] eqn:Eb; cbn in Hu; try discriminate; try (now destruct Hv).
  destruct (ZTHR s u); cbn in P; destruct P as [P1 P2]; try discriminate; try contradiction.
Qed.

Theorem zcqf_dequeued_permutation evs : let s := run evs in
  (forall t, deq_pending s t = []) ->
  Permutation (dequeued_of (ZLOG s)) (firstn (Z.to_nat (fhead (QB s))) (enqueued_of (ZLOG s))).
Proof.
  intros s Hq. destruct (runf_good N Npos p evs) as (R & _ & _). fold s in R. rewrite (fhead_lhead s R Hq).
  apply (zcqf_dequeued_permutation_log N Npos p evs). intros t. now apply deq_pending_carry.
Qed.

(* ---- (4) NOTHING LOST ---- *)
Lemma quiet_unlockedf s : RIF N s -> (forall t, ZTHR s t = ZIdle) -> flock (FA s) = false /\ flock (QB s) = false.
Proof.
  intros R Hi. split.
  - destruct (flock (FA s)) eqn:El; [|reflexivity]. destruct (f_free _ _ (rf_ia _ _ R) El) as [u Hu].
    pose proof (rf_ph _ _ R u) as P. rewrite Hi in P. cbn in P. destruct P as [P1 _]. rewrite P1 in Hu. discriminate.
  - destruct (flock (QB s)) eqn:El; [|reflexivity]. destruct (f_free _ _ (rf_ib _ _ R) El) as [u Hu].
    pose proof (rf_ph _ _ R u) as P. rewrite Hi in P. cbn in P. destruct P as [_ P2]. rewrite P2 in Hu. discriminate.
Qed.

Theorem zcqf_nothing_lost evs : let s := run evs in let g := ghost evs in let E := enqueued_of (ZLOG s) in
  (forall t, ZTHR s t = ZIdle) ->
  (* in B.consume order: exactly *)
  flat_map (ans_at g) (ids_upto (fhead (QB s))) ++ map (POOL s) (finring (QB s)) = E /\
  (* in log order: up to the order of the answers of overlapping dequeues *)
  Permutation (dequeued_of (ZLOG s) ++ map (POOL s) (finring (QB s))) E /\
  (* free + queued = N: every slot is in the free list or in the id ring; both flags are free *)
  Permutation (ids_upto N) (finring (FA s) ++ finring (QB s)) /\
  (ftail (FA s) - fhead (FA s)) + (ftail (QB s) - fhead (QB s)) = N /\
  flock (FA s) = false /\ flock (QB s) = false.
Proof.
  intros s g E Hi. destruct (runf_good N Npos p evs) as (R & _ & _). fold s in R.
  destruct (quiet_unlockedf s R Hi) as [Ela Elb]. pose proof (rf_ia _ _ R) as Ia. pose proof (rf_ib _ _ R) as Ib.
  assert (Hq : forall t, deq_carry s t = []) by (intros t; unfold deq_carry; now rewrite Hi).
  destruct (zcqf_fifo_in_consume_order_complete N Npos p evs Hq) as [_ H1]. pose proof (zcqf_dequeued_permutation_log N Npos p evs Hq) as H2.
  pose proof (zcqf_queued_payloads_log N Npos p evs) as H3. cbn zeta in H1, H2, H3. fold s g E in H1, H2, H3.
  destruct (lring_unlocked N _ Ib Elb) as (Hr & Hh & _). rewrite Hr, Hh in *.
  split; [rewrite H1, H3; apply firstn_skipn|]. split; [rewrite H2, H3, firstn_skipn; reflexivity|].
  pose proof (runf_true_conserve evs) as C. fold s in C.
  assert (Hp : Permutation (ids_upto N) (finring (FA s) ++ finring (QB s))).
  { apply (FS_quiet _ _ _ C). intros t. unfold qftransl. now rewrite Hi. }
  split; [exact Hp|]. split; [|auto].
  apply Permutation_length in Hp. rewrite app_length in Hp.
  pose proof (ids_upto_length N ltac:(lia)). pose proof (finring_length N _ Ia). pose proof (finring_length N _ Ib). lia.
Qed.

(* single consumer, not inside a dequeue (producers may be), B's flag free: exactly, in log order *)
Theorem zcqf_nothing_lost_single_consumer c evs : (forall t, In (ZStart t ZDeq) evs -> t = c) -> let s := run evs in
  flock (QB s) = false -> deq_carry s c = [] ->
  dequeued_of (ZLOG s) ++ map (POOL s) (finring (QB s)) = enqueued_of (ZLOG s).
Proof.
  intros Hc s El Hi. destruct (singlef_consumer_prefix N Npos p c evs Hc) as (n & _ & Hn & H1 & _). fold s in Hn, H1.
  destruct (runf_good N Npos p evs) as (R & _ & _). fold s in R. destruct (lring_unlocked N _ (rf_ib _ _ R) El) as (Hr & _ & _).
  pose proof (zcqf_queued_payloads_log N Npos p evs) as H3. cbn zeta in H3. fold s in H3. rewrite H1, (Hn Hi), <- Hr, H3. apply firstn_skipn.
Qed.
End ResultsTrue.

(* ------------------------------------------------------------------------------------------------ the "full" answer *)
Section FullAnswerFS.
Variable N : Z.
Hypothesis Npos : 0 < N.
Variable p : Z -> Z.
Local Notation run evs := (zqf_run N p evs).
Local Notation zmk := (ZeroCopy.zmk fsst).

(* a ZFull answer is only ever logged by a step of the thread that is inside the allocation of that very enqueue (any state) *)
Lemma fullf_logged_by_alloc s t u v : ZLOG (qfstep N s t) = ZLOG s ++ [(u, ZFull v)] -> u = t /\ ZTHR s t = ZEnqA v.
Proof.
  assert (Hsame : forall l : list (nat * zres), forall r, l = l ++ [r] -> False).
  { intros l r H. apply (f_equal (@length _)) in H. rewrite app_length in H. cbn in H. lia. }
  unfold qfstep, ZeroCopy.zstep. destruct (ZTHR s t) eqn:E; cbv iota;
    repeat match goal with
    | |- context[if ?b then _ else _] => destruct b
    | |- context[match ZeroCopy.lastres ?A ?B ?C with _ => _ end] => destruct (ZeroCopy.lastres A B C)
    end; cbn [zlog ZeroCopy.zmk]; intros H;
    try (exfalso; exact (Hsame _ _ H)); apply app_inv_head in H; try discriminate H; injection H as <- <-; auto.
Qed.

(* one step of a thread inside the allocation, in any state of any run: still allocating / the allocation returns a slot (the thread
   stood at the flag store with it) / the allocation returns "no free slot" and ZFull is logged in that very step *)
Theorem zcqf_full_only_when_free_list_empty evs t v : let s := run evs in let s' := qfstep N s t in
  ZTHR s t = ZEnqA v ->
     (ZTHR s' t = ZEnqA v /\ ZLOG s' = ZLOG s)
  \/ (exists id, ZTHR s' t = ZEnqB v id /\ ZLOG s' = ZLOG s /\ fthr (FA s) t = FCU (Some id) /\
                 flog (FA s') = flog (FA s) ++ [(t, RGot id)] /\ POOL s' id = v)
  \/ (ZTHR s' t = ZIdle /\ ZLOG s' = ZLOG s ++ [(t, ZFull v)] /\ fthr (FA s) t = FCU None /\ flog (FA s') = flog (FA s) ++ [(t, REmpty)]).
Proof.
  intros s s' E. destruct (runf_good N Npos p evs) as (R & _ & _). fold s in R.
  pose proof (rf_ph _ _ R t) as P. rewrite E in P. cbn [qfphase_of] in P. destruct P as [P1 P2].
  unfold s'. clearbody s. clear s'. destruct s as [a b q th l]. cbn [fa qb pool zthr zlog] in *. fold (zmk a b q th l).
  destruct (fthr a t) as [| | | |r|] eqn:Ea; cbn in P1; try discriminate.
  - left. destruct (fstp_CL_view N a t Ea) as [Hc _]. rewrite (qf_enqA_busy N a b q th l t v E (is_fcons_busy _ Hc)).
    cbn [fa qb pool zthr zlog ZeroCopy.zmk]. auto.
  - destruct (fstep_CU N a t r Ea) as (Ht & _ & _ & Hl & _).
    assert (Hi : fthr (fstepZ N a t) t = FIdle) by (now rewrite Ht, upd_same).
    destruct r as [id|]; cbn [cons_res] in Hl.
    + right; left. rewrite (qf_enqA_got N a b q th l t v id E Hi (lastres_snoc' _ _ _ _ Hl)). cbn [fa qb pool zthr zlog ZeroCopy.zmk].
      exists id. rewrite upd_same, updz_same. auto.
    + right; right. rewrite (qf_enqA_none N a b q th l t v E Hi (lastres_snoc' _ _ _ _ Hl)). cbn [fa qb pool zthr zlog ZeroCopy.zmk].
      rewrite upd_same. auto.
Qed.

(* the "no free slot" answer is decided by the flag CAS of the allocation, under the flag, on the TRUE contents of the free list: it
   is prepared exactly when the free list IS empty - and then every one of the N slots is queued in B or owned by an operation in
   progress *)
Theorem zcqf_full_justified evs t v : let s := run evs in
  ZTHR s t = ZEnqA v -> fthr (FA s) t = FCL -> flock (FA s) = false ->
  (fthr (fstepZ N (FA s) t) t = FCU None <-> finring (FA s) = []) /\
  (finring (FA s) = [] ->
   exists ths, NoDup ths /\ Permutation (ids_upto N) (finring (QB s) ++ flat_map (enq_transit s) ths ++ flat_map (deq_transit s) ths)).
Proof.
  intros s E Ea El. destruct (runf_good N Npos p evs) as (R & _ & _). fold s in R. pose proof (rf_ia _ _ R) as Ia.
  pose proof (finring_length N _ Ia) as Hlen. split.
  - rewrite (fs_empty_exact N _ t Ea El). split; intros H.
    + apply length_zero_iff_nil. lia.
    + rewrite H in Hlen. cbn in Hlen. lia.
  - intros Hnil. destruct (zcqf_slots_conserved N Npos p evs) as (ths & Hn & _ & Hp). fold s in Hp. rewrite Hnil in Hp.
    exists ths. split; [exact Hn|exact Hp].
Qed.
End FullAnswerFS.

(* ------------------------------------------------------------------------------------------------ non-vacuity (N = 2)
   An enqueue takes 4 own steps (A: flag CAS, flag store; B: flag CAS, flag store), a dequeue 4 (B: CAS, store - the payload is read
   and the give-back begun in that step; A: CAS, store), the length 1. *)

(* Thread 0's enqueue of 10 has performed B's flag CAS: slot 0 IS in the id ring, `ZOk 10` is NOT in the log - the plain equation
   fails ([10] on the left, [] on the right); the corrected one holds with qpubwin 0 = [10]; the LOG view does not see the id yet. *)
Definition nvf_evs0 : list zev := op_ev 0 (ZEnq 10) 3.
Example zcqf_publisher_window : let s := zqf_run 2 (fun _ => 0) nvf_evs0 in
  ZLOG s = [] /\ finring (QB s) = [0] /\ lring (QB s) = [] /\ finring (FA s) = [1] /\
  ZTHR s 0%nat = ZEnqB 10 0 /\ fthr (QB s) 0%nat = FPU 0 (Some 1) /\ flock (QB s) = true /\ POOL s 0 = 10 /\
  enq_transit s 0%nat = [] /\ qpubwin s 0%nat = [10] /\ qconwin s 0%nat = [] /\
  map (POOL s) (finring (QB s)) <> skipn (Z.to_nat (fhead (QB s))) (enqueued_of (ZLOG s)) /\
  map (POOL s) (finring (QB s)) = skipn (Z.to_nat (fhead (QB s))) (enqueued_of (ZLOG s)) ++ qpubwin s 0%nat.
Proof. vm_compute. repeat split; try reflexivity. discriminate. Qed.

(* fill; thread 1's dequeue takes slot 0 out of B, reads 10 and is suspended before the give-back (ZDeqA 0 10 / A at FPL 0); thread 2's
   enqueue of 30 finds no free slot: slot 0 is NOT re-allocated while the dequeue owns it ... *)
Definition nvf_evs1 : list zev := op_ev 0 (ZEnq 10) 4 ++ op_ev 0 (ZEnq 20) 4 ++ op_ev 1 ZDeq 2 ++ op_ev 2 (ZEnq 30) 2.
(* ... thread 1 finishes (ZGot 10, slot 0 free again); thread 2's second attempt re-uses slot 0; thread 3 asks the length; thread 1
   begins another dequeue and performs B's flag CAS: slot 1 is OUT of the id ring (fhead B = 2), the consume has not returned
   (ZDeqB / B at FCU (Some 1), LOG head = 1): the dequeue's pending value is the content of slot 1 *)
Definition nvf_evs2 : list zev := nvf_evs1 ++ repeat (ZStep 1%nat) 2 ++ op_ev 2 (ZEnq 30) 4 ++ op_ev 3 ZLen 1 ++ op_ev 1 ZDeq 1.

Example zcqf_nonvacuous_1 : let s := zqf_run 2 (fun _ => 0) nvf_evs1 in
  ZLOG s = [(0%nat, ZOk 10); (0%nat, ZOk 20); (2%nat, ZFull 30)] /\
  finring (FA s) = [] /\ finring (QB s) = [1] /\ ZTHR s 1%nat = ZDeqA 0 10 /\ fthr (FA s) 1%nat = FPL 0 /\ deq_transit s 1%nat = [0] /\
  map (POOL s) [0; 1] = [10; 20] /\ gtick (snd (gqf_run 2 (fun _ => 0) nvf_evs1)) 1%nat = 0 /\
  flock (QB s) = false /\ map (POOL s) (finring (QB s)) = skipn (Z.to_nat (fhead (QB s))) (enqueued_of (ZLOG s)).
Proof. vm_compute. repeat split; reflexivity. Qed.

Example zcqf_nonvacuous_2 : let s := zqf_run 2 (fun _ => 0) nvf_evs2 in
  ZLOG s = [(0%nat, ZOk 10); (0%nat, ZOk 20); (2%nat, ZFull 30); (1%nat, ZGot 10); (2%nat, ZOk 30); (3%nat, ZLenIs 2)] /\
  enqueued_of (ZLOG s) = [10; 20; 30] /\ dequeued_of (ZLOG s) = [10] /\
  finring (FA s) = [] /\ finring (QB s) = [0] /\ lring (QB s) = [1; 0] /\ fpublished (QB s) = [0; 1; 0] /\ fhead (QB s) = 2 /\ lhead (QB s) = 1 /\
  ZTHR s 1%nat = ZDeqB /\ fthr (QB s) 1%nat = FCU (Some 1) /\ flock (QB s) = true /\ map (POOL s) [0; 1] = [30; 20] /\
  deq_transit s 1%nat = [1] /\ deq_pending s 1%nat = [1] /\ qconwin s 1%nat = [20] /\ qpubwin s 1%nat = [] /\
  gans (snd (gqf_run 2 (fun _ => 0) nvf_evs2)) = [(0, 10)] /\
  qconwin s 1%nat ++ map (POOL s) (finring (QB s)) = skipn (Z.to_nat (fhead (QB s)) - length (qconwin s 1%nat)) (enqueued_of (ZLOG s)) ++ qpubwin s 1%nat /\
  map (POOL s) (finring (QB s)) = skipn (Z.to_nat (fhead (QB s))) (enqueued_of (ZLOG s)) /\
  map (POOL s) (lring (QB s)) = skipn (Z.to_nat (lhead (QB s))) (enqueued_of (ZLOG s)).
Proof. vm_compute. repeat split; reflexivity. Qed.

(* the conservation statement on that state, with ths = [1] *)
Example zcqf_nonvacuous_conserved : let s := zqf_run 2 (fun _ => 0) nvf_evs2 in
  Permutation (ids_upto 2) (finring (FA s) ++ finring (QB s) ++ flat_map (enq_transit s) [1%nat] ++ flat_map (deq_transit s) [1%nat]).
Proof. vm_compute. apply (proj2 (Permutation_count_occ Z.eq_dec _ _)); intro z; cbn [count_occ]; repeat destruct (Z.eq_dec _ _); lia. Qed.

(* two overlapping dequeues: the log-order FIFO statement fails here too (the answer is logged when the give-back returns), the
   permutation / ticket-order statements hold *)
Definition cxf_evs : list zev :=
  op_ev 0 (ZEnq 10) 4 ++ op_ev 0 (ZEnq 20) 4 ++ op_ev 1 ZDeq 2 ++ op_ev 2 ZDeq 4 ++ repeat (ZStep 1%nat) 2.
Example zcqf_log_order_fifo_refuted : let s := zqf_run 2 (fun _ => 0) cxf_evs in
  ZLOG s = [(0%nat, ZOk 10); (0%nat, ZOk 20); (2%nat, ZGot 20); (1%nat, ZGot 10)] /\
  enqueued_of (ZLOG s) = [10; 20] /\ dequeued_of (ZLOG s) = [20; 10] /\
  dequeued_of (ZLOG s) <> firstn (length (dequeued_of (ZLOG s))) (enqueued_of (ZLOG s)) /\
  gans (snd (gqf_run 2 (fun _ => 0) cxf_evs)) = [(1, 20); (0, 10)] /\
  flat_map (ans_at (snd (gqf_run 2 (fun _ => 0) cxf_evs))) (ids_upto (fhead (QB s))) = [10; 20] /\
  finring (FA s) = [1; 0] /\ finring (QB s) = [].
Proof. vm_compute. repeat split; try reflexivity. discriminate. Qed.

Print Assumptions zcqf_slots_conserved.
Print Assumptions zcqf_slot_owned_exclusively.
Print Assumptions zcqf_queued_payloads.
Print Assumptions zcqf_queued_payloads_log.
Print Assumptions zcqf_transit_payload.
Print Assumptions zcqf_fifo_in_consume_order.
Print Assumptions zcqf_fifo_in_consume_order_complete.
Print Assumptions zcqf_fifo_single_consumer.
Print Assumptions zcqf_dequeued_permutation.
Print Assumptions zcqf_dequeued_permutation_log.
Print Assumptions zcqf_nothing_lost.
Print Assumptions zcqf_nothing_lost_single_consumer.
Print Assumptions fullf_logged_by_alloc.
Print Assumptions zcqf_full_only_when_free_list_empty.
Print Assumptions zcqf_full_justified.
Print Assumptions gqf_run_fst.
Print Assumptions qf_step.
Print Assumptions true_conserve.
Print Assumptions zcqf_publisher_window.
Print Assumptions zcqf_nonvacuous_1.
Print Assumptions zcqf_nonvacuous_2.
Print Assumptions zcqf_nonvacuous_conserved.
Print Assumptions zcqf_log_order_fifo_refuted.
