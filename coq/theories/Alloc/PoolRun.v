(* The bounded pool allocator `OgreArrayPoolAllocator` (/repo/src/ogre_std/ogre_alloc/ogre_array_pool_allocator.rs) is a ring
   of slot ids used as a free list: `new()` publishes 0..POOL_SIZE-1, `alloc_ref` = consume_movable, `dealloc_id` /
   `dealloc_ref` = publish_movable (result ignored).  This file is the program-driven runner for the correspondence check:
   a thread's `dealloc` gives back the id it allocated most recently and still holds. *)
From RM Require Import RingModel FullSync.

Inductive pop := PAlloc | PDealloc.

Section PoolRun.
Variable Q : Type.
Variable qstep : Q -> nat -> Q.
Variable qstart : Q -> nat -> op -> Q.
Variable qidle : Q -> nat -> bool.
Variable qlog : Q -> list (nat * res).
Variable qobs : Q -> nat -> list Z.

Definition pres_code (r : res) : list Z :=
  match r with
  | RFull v => [0; v; 0] | ROk v _ => [1; v; 0] | REmpty => [2; 0; 0] | RGot v => [3; v; 0] | RLen n => [4; n; 0]
  end.
Definition pemit (before after : list (nat * res)) : list (list Z) :=
  map (fun e => 2 :: Z.of_nat (fst e) :: pres_code (snd e)) (skipn (length before) after).
Definition got_of (t : nat) (before after : list (nat * res)) : list Z :=
  flat_map (fun e => match snd e with RGot v => if Nat.eqb (fst e) t then [v] else [] | _ => [] end) (skipn (length before) after).

Definition pgrant (s : Q) (held : nat -> list Z) (progs : nat -> list pop) (t : nat)
  : Q * (nat -> list Z) * (nat -> list pop) * list (list Z) :=
  if qidle s t then
    match progs t with
    | [] => (s, held, progs, [skip t])
    | PAlloc :: rest =>
        let s1 := qstart s t OpCons in let s2 := qstep s1 t in
        (s2, upd held t (got_of t (qlog s1) (qlog s2) ++ held t), upd progs t rest, qobs s1 t :: pemit (qlog s1) (qlog s2))
    | PDealloc :: rest =>
        match held t with
        | [] => (s, held, upd progs t rest, [acc t 0 K_YIELD 0 (-1) true; ret t 5 0 0])
        | v :: hs =>
            let s1 := qstart s t (OpPub v) in let s2 := qstep s1 t in
            (s2, upd held t hs, upd progs t rest, qobs s1 t :: pemit (qlog s1) (qlog s2))
        end
    end
  else
    let s2 := qstep s t in
    (s2, upd held t (got_of t (qlog s) (qlog s2) ++ held t), progs, qobs s t :: pemit (qlog s) (qlog s2)).

Fixpoint prun (s : Q) (held : nat -> list Z) (progs : nat -> list pop) (sched : list nat) : Q * list (list Z) :=
  match sched with
  | [] => (s, [])
  | t :: rest =>
      let '(s1, held1, progs1, lines) := pgrant s held progs t in
      let '(s2, more) := prun s1 held1 progs1 rest in
      (s2, lines ++ more)
  end.

(* the same with a payload that has a destructor: dealloc_id first runs drop_in_place on the slot (a scheduling point of its own: the
   payload's Drop is hooked), then gives the id back to the free list - never the other way round *)
Definition K_DROPV : Z := 18.
Definition L_POOL : Z := 400.
Definition pgrantD (s : Q) (held : nat -> list Z) (dr : nat -> option Z) (progs : nat -> list pop) (t : nat)
  : Q * (nat -> list Z) * (nat -> option Z) * (nat -> list pop) * list (list Z) :=
  if qidle s t then
    match dr t with
    | Some v =>
        let s1 := qstart s t (OpPub v) in let s2 := qstep s1 t in
        (s2, held, upd dr t None, progs, qobs s1 t :: pemit (qlog s1) (qlog s2))
    | None =>
      match progs t with
      | [] => (s, held, dr, progs, [skip t])
      | PAlloc :: rest =>
          let s1 := qstart s t OpCons in let s2 := qstep s1 t in
          (s2, upd held t (got_of t (qlog s1) (qlog s2) ++ held t), dr, upd progs t rest, qobs s1 t :: pemit (qlog s1) (qlog s2))
      | PDealloc :: rest =>
          match held t with
          | [] => (s, held, dr, upd progs t rest, [acc t 0 K_YIELD 0 (-1) true; ret t 5 0 0])
          | v :: hs => (s, upd held t hs, upd dr t (Some v), upd progs t rest, [acc t (L_POOL + v) K_DROPV 0 (-1) true])
          end
      end
    end
  else
    let s2 := qstep s t in
    (s2, upd held t (got_of t (qlog s) (qlog s2) ++ held t), dr, progs, qobs s t :: pemit (qlog s) (qlog s2)).

Fixpoint prunD (s : Q) (held : nat -> list Z) (dr : nat -> option Z) (progs : nat -> list pop) (sched : list nat) : Q * list (list Z) :=
  match sched with
  | [] => (s, [])
  | t :: rest =>
      let '(s1, held1, dr1, progs1, lines) := pgrantD s held dr progs t in
      let '(s2, more) := prunD s1 held1 dr1 progs1 rest in
      (s2, lines ++ more)
  end.

(* `new()`: the constructing thread publishes 0 .. n-1, alone *)
Fixpoint pfill (s : Q) (ids : list Z) (fuel : nat) : Q :=
  match ids with
  | [] => s
  | v :: rest =>
      let s1 := qstart s 0%nat (OpPub v) in
      let s2 := Nat.iter 6 (fun x => qstep x 0%nat) s1 in
      pfill s2 rest fuel
  end.
End PoolRun.

Definition pprogs_of (l : list (list pop)) : nat -> list pop := fun t => nth t l [].
Definition ids_upto (n : Z) : list Z := map Z.of_nat (seq 0 (Z.to_nat n)).

Definition run_pool_atomic (N origin : Z) (progs : list (list pop)) (sched : list nat) : list Z :=
  let s0 := pfill st (step N u32 i32) start (init_at (u32 origin)) (ids_upto N) 0 in
  let '(s, lines) := prun st (step N u32 i32) start (fun s t => match thr s t with Idle => true | _ => false end) log (obs N u32)
                          s0 (fun _ => []) (pprogs_of progs) sched in
  concat lines ++ [9; head s; tail s; etail s; dhead s].
Definition run_pool_fullsync (N origin : Z) (progs : list (list pop)) (sched : list nat) : list Z :=
  let s0 := pfill fsst (fstep N u32) fstart (finit_at (u32 origin)) (ids_upto N) 0 in
  let '(s, lines) := prun fsst (fstep N u32) fstart (fun s t => match fthr s t with FIdle => true | _ => false end) flog fobs
                          s0 (fun _ => []) (pprogs_of progs) sched in
  concat lines ++ [9; fhead s; ftail s; if flock s then 1 else 0].

Definition run_pooldrop_atomic (N : Z) (progs : list (list pop)) (sched : list nat) : list Z :=
  let s0 := pfill st (step N u32 i32) start (init_at 0) (ids_upto N) 0 in
  let '(s, lines) := prunD st (step N u32 i32) start (fun s t => match thr s t with Idle => true | _ => false end) log (obs N u32)
                           s0 (fun _ => []) (fun _ => None) (pprogs_of progs) sched in
  concat lines ++ [9; head s; tail s; etail s; dhead s].
Definition run_pooldrop_fullsync (N : Z) (progs : list (list pop)) (sched : list nat) : list Z :=
  let s0 := pfill fsst (fstep N u32) fstart (finit_at 0) (ids_upto N) 0 in
  let '(s, lines) := prunD fsst (fstep N u32) fstart (fun s t => match fthr s t with FIdle => true | _ => false end) flog fobs
                           s0 (fun _ => []) (fun _ => None) (pprogs_of progs) sched in
  concat lines ++ [9; fhead s; ftail s; if flock s then 1 else 0].
