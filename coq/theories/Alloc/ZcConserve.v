(* SLOT CONSERVATION for the zero-copy atomic Uni channel (Alloc/ZcUni.v over two lock-free rings, Chan/ChanZ.v, Chan/ChanZInst.v):
   in every state of every channel run each of the N slot ids 0..N-1 is in exactly one place - in the free list A, in the id ring B,
   held by a consumer, or in transit inside a composite operation (allocated and not yet published: pc `UEnqB v id`; being released:
   pc `URel id`).
   Cut points.  The ring machine appends to `published` and bumps `tail` in ONE step (the successful P4 CAS) and bumps `head` /
   appends to `delivered` in ONE step (the successful C4 CAS); both make the ring thread Idle in that same step, and the composite
   (ZcUni.ustep) moves its own pc in that very step too.  So with "in ring X" := positions head X <= i < tail X of `published X`
   (= published minus delivered, RingInv.i_deliv) there is no intermediate ring-level custody: an id leaves A exactly when the
   composite pc becomes `UEnqB v id`, enters B exactly when it becomes `UIdle` again, leaves B exactly when `uheld` is set, ... *)
From Coq Require Import Permutation.
From RM Require Import RingModel RingInv RingProps RingCov RingSolo FullSync Chan ZeroCopy PoolRun ZcUni ChanZ ChanZProps ChanZInst ZcSoloA.
Import ZC.

(* ------------------------------------------------------------------------------------------------ list helpers *)
Lemma skipn_snoc {A} (l : list A) n v : (n <= length l)%nat -> skipn n (l ++ [v]) = skipn n l ++ [v].
Proof. intros H. rewrite skipn_app. replace (n - length l)%nat with 0%nat by lia. reflexivity. Qed.
Lemma skipn_nth_cons {A} (l : list A) n d : (n < length l)%nat -> skipn n l = nth n l d :: skipn (S n) l.
Proof.
  revert n. induction l as [|a l IH]; intros n H; cbn in H; [lia|].
  destruct n; [reflexivity|]. cbn [skipn nth]. rewrite (IH n) by lia. reflexivity.
Qed.
Lemma flat_map_length_ge {A B} (f : A -> list B) (us l : list A) :
  NoDup us -> incl us l -> (forall u, In u us -> (1 <= length (f u))%nat) -> (length us <= length (flat_map f l))%nat.
Proof.
  revert l. induction us as [|u us IH]; intros l Hn Hi H1; [cbn; lia|].
  inversion Hn as [|? ? Hu Hn']; subst.
  assert (Hin : In u l) by (apply Hi; now left).
  destruct (in_split _ _ Hin) as (l1 & l2 & ->).
  rewrite flat_map_app. cbn [flat_map]. rewrite !app_length.
  assert (Hi' : incl us (l1 ++ l2)).
  { intros w Hw. assert (Hw' : In w (l1 ++ u :: l2)) by (apply Hi; now right).
    apply in_app_or in Hw'. apply in_or_app. destruct Hw' as [|[->|]]; [now left|contradiction|now right]. }
  specialize (IH (l1 ++ l2) Hn' Hi' (fun w Hw => H1 w (or_intror Hw))).
  rewrite flat_map_app, app_length in IH. specialize (H1 u (or_introl eq_refl)). cbn [length]. lia.
Qed.
Lemma flat_map_app_perm {A B} (f g : A -> list B) l :
  Permutation (flat_map (fun x => f x ++ g x) l) (flat_map f l ++ flat_map g l).
Proof.
  induction l as [|a l IH]; [constructor|]. cbn [flat_map].
  rewrite IH, <- !app_assoc. apply Permutation_app_head. rewrite !app_assoc. apply Permutation_app_tail. apply Permutation_app_comm.
Qed.
Lemma flat_map_ext_in' {A B} (f g : A -> list B) l : (forall a, In a l -> f a = g a) -> flat_map f l = flat_map g l.
Proof. induction l as [|a l IH]; intros H; [reflexivity|]. cbn. rewrite (H a) by now left. rewrite IH; [reflexivity|]. intros; apply H; now right. Qed.
(* changing a finitely supported family of lists at one index *)
Lemma flat_map_change {B} (f f' : nat -> list B) ths t :
  NoDup ths -> In t ths -> (forall u, u <> t -> f' u = f u) ->
  exists R, Permutation (flat_map f ths) (f t ++ R) /\ Permutation (flat_map f' ths) (f' t ++ R).
Proof.
  intros Hn Hin Ho. destruct (in_split _ _ Hin) as (l1 & l2 & ->).
  apply NoDup_remove_2 in Hn.
  assert (E1 : flat_map f' l1 = flat_map f l1).
  { apply flat_map_ext_in'. intros u Hu. apply Ho. intros ->. apply Hn. apply in_or_app. now left. }
  assert (E2 : flat_map f' l2 = flat_map f l2).
  { apply flat_map_ext_in'. intros u Hu. apply Ho. intros ->. apply Hn. apply in_or_app. now right. }
  exists (flat_map f l1 ++ flat_map f l2). rewrite !flat_map_app. cbn [flat_map]. rewrite E1, E2.
  split; rewrite !app_assoc; apply Permutation_app_tail, Permutation_app_comm.
Qed.

(* ------------------------------------------------------------------------------------------------ ring-level facts *)
(* the contents of a ring: the published values at positions head <= i < tail *)
Definition inring (x : st) : list Z := skipn (Z.to_nat (head x)) (published x).
(* the value a publish in progress carries *)
Definition pval (p : pc) : option Z := match p with P0 v | P1 v _ | P2 v _ | P3 v _ _ | P4 v _ _ => Some v | _ => None end.
Definition is_cons (p : pc) : bool := match p with C0 | C1 _ | C2 _ | C3 _ | C4 _ _ => true | _ => false end.
Definition is_len (p : pc) : bool := match p with L0 | L1 _ => true | _ => false end.
(* nobody stands at the recede CAS of the "full" answer *)
Definition noP2 (x : st) : Prop := forall t v sl, thr x t <> P2 v sl.

Section RingFacts.
Variable N : Z.
Hypothesis Npos : 0 < N.
Local Notation step := (stepZ N).

Lemma inring_length x : Inv N x -> Z.of_nat (length (inring x)) = tail x - head x.
Proof.
  intros I. unfold inring. rewrite skipn_length. pose proof (i_ord _ _ I). pose proof (i_lenp _ _ I). lia.
Qed.
Lemma inring_same x x' : published x' = published x -> head x' = head x -> inring x' = inring x.
Proof. unfold inring. now intros -> ->. Qed.
Lemma inring_pub x x' v : Inv N x -> published x' = published x ++ [v] -> head x' = head x -> inring x' = inring x ++ [v].
Proof.
  intros I Hp Hh. unfold inring. rewrite Hp, Hh. apply skipn_snoc. pose proof (i_ord _ _ I). pose proof (i_lenp _ _ I). lia.
Qed.
Lemma inring_cons x x' : Inv N x -> published x' = published x -> head x' = head x + 1 -> head x < tail x ->
  inring x = nthz (published x) (head x) :: inring x'.
Proof.
  intros I Hp Hh Hlt. unfold inring, nthz. rewrite Hp, Hh. pose proof (i_ord _ _ I). pose proof (i_lenp _ _ I).
  replace (Z.to_nat (head x + 1)) with (S (Z.to_nat (head x))) by lia. apply skipn_nth_cons. lia.
Qed.

Ltac open_step := unfold stepZ, RingModel.step, idz.
Ltac simp_st := cbn [head tail etail dhead buf thr published delivered log set_thr] in *.

(* one step of a publish: it is over (accepted: the value is appended to `published`) or still a publish of the same value *)
Lemma ring_pub_step x t v : noP2 x -> pval (thr x t) = Some v ->
  (thr (step x t) t = Idle /\ (exists len, log (step x t) = log x ++ [(t, ROk v len)]) /\
   published (step x t) = published x ++ [v] /\ head (step x t) = head x)
  \/ (pval (thr (step x t) t) = Some v /\ published (step x t) = published x /\ head (step x t) = head x).
Proof.
  intros H2 Hv. open_step. destruct (thr x t) eqn:E; cbn in Hv; try discriminate; injection Hv as ->.
  - right. simp_st. now rewrite upd_same.
  - right. destruct (slot - head x <? N); simp_st; now rewrite upd_same.
  - exfalso. exact (H2 t _ _ E).
  - right. simp_st. now rewrite upd_same.
  - destruct (tail x =? slot).
    + left. simp_st. rewrite upd_same. repeat split; eauto.
    + right. rewrite E. auto.
Qed.

(* one step of a consume: over with the head element, over with "empty", or still a consume *)
Lemma ring_cons_step x t : Inv N x -> is_cons (thr x t) = true ->
  (thr (step x t) t = Idle /\ log (step x t) = log x ++ [(t, RGot (nthz (published x) (head x)))] /\
   published (step x t) = published x /\ head (step x t) = head x + 1 /\ head x < tail x)
  \/ (thr (step x t) t = Idle /\ log (step x t) = log x ++ [(t, REmpty)] /\ published (step x t) = published x /\ head (step x t) = head x)
  \/ (is_cons (thr (step x t) t) = true /\ published (step x t) = published x /\ head (step x t) = head x).
Proof.
  intros I Hc. open_step. destruct (thr x t) eqn:E; cbn in Hc; try discriminate.
  - right; right. simp_st. now rewrite upd_same.
  - right; right. destruct (0 <? tail x - slot); simp_st; now rewrite upd_same.
  - destruct (dhead x =? slot + 1).
    + right; left. simp_st. rewrite upd_same. auto.
    + right; right. simp_st. now rewrite upd_same.
  - right; right. simp_st. now rewrite upd_same.
  - destruct (Z.eqb_spec (head x) slot) as [He|Hne].
    + left. simp_st. rewrite upd_same.
      assert (Hcr : cread (thr x t) = Some (slot, v)) by (rewrite E; reflexivity).
      assert (Hcv : cvalid (thr x t) = Some slot) by (rewrite E; reflexivity).
      pose proof (i_cread _ _ I _ _ _ Hcr). pose proof (i_cvalid _ _ I _ _ Hcv). subst. repeat split; auto.
    + right; right. rewrite E. auto.
Qed.

Lemma ring_len_step x t : is_len (thr x t) = true ->
  (thr (step x t) t = Idle \/ is_len (thr (step x t) t) = true) /\ published (step x t) = published x /\ head (step x t) = head x.
Proof.
  intros Hc. open_step. destruct (thr x t) eqn:E; cbn in Hc; try discriminate; simp_st; rewrite upd_same; auto.
Qed.

(* the "full" path is never entered as long as the reservations stay within the capacity *)
Lemma noP2_step x t : Inv N x -> etail x - head x <= N -> noP2 x -> noP2 (step x t).
Proof.
  intros I Hb H2 u w sl. destruct (Nat.eq_dec u t) as [->|Hn]; [|rewrite step_other_threads_gen by assumption; apply H2].
  open_step. destruct (thr x t) eqn:E; try (rewrite E; discriminate); simp_st; rewrite ?upd_same; try discriminate.
  - assert (Hps : pslot (thr x t) = Some slot) by (rewrite E; reflexivity).
    pose proof (i_prange _ _ I _ _ Hps). destruct (Z.ltb_spec (slot - head x) N); [|lia]. simp_st. rewrite upd_same. discriminate.
  - exfalso. exact (H2 t _ _ E).
  - destruct (tail x =? slot); simp_st; rewrite ?upd_same; [discriminate|rewrite E; discriminate].
  - destruct (0 <? tail x - slot); simp_st; rewrite upd_same; discriminate.
  - destruct (dhead x =? slot + 1); simp_st; rewrite upd_same; discriminate.
  - destruct (head x =? slot); simp_st; rewrite ?upd_same; [discriminate|rewrite E; discriminate].
Qed.
Lemma noP2_start x t o : noP2 x -> noP2 (start x t o).
Proof.
  intros H2 u w sl. unfold start. destruct (thr x t) eqn:E; try apply H2. simp_st.
  destruct (Nat.eq_dec u t) as [->|Hn]; [rewrite upd_same; destruct o; discriminate|rewrite upd_other by assumption; apply H2].
Qed.
Lemma start_frame x t o : published (start x t o) = published x /\ head (start x t o) = head x.
Proof. unfold start. destruct (thr x t); auto. Qed.
Lemma start_busy_noop x t o : thr x t <> Idle -> start x t o = x.
Proof. unfold start. destruct (thr x t); congruence. Qed.

(* the holders of the reserved positions tail <= i < tail + n: n different threads *)
Lemma cov_holders x : Cov x -> forall n : nat, tail x + Z.of_nat n <= etail x ->
  exists us, length us = n /\ NoDup us /\ forall u, In u us -> exists i, tail x <= i < tail x + Z.of_nat n /\ pslot (thr x u) = Some i.
Proof.
  intros [Cp _] n. induction n as [|n IH]; intros Hn.
  - exists []. split; [reflexivity|]. split; [constructor|]. intros u [].
  - destruct (IH ltac:(lia)) as (us & Hl & Hd & Hu).
    destruct (Cp (tail x + Z.of_nat n) ltac:(lia)) as [w Hw].
    exists (w :: us). split; [cbn; now rewrite Hl|]. split.
    + constructor; [|exact Hd]. intros Hin. destruct (Hu w Hin) as (i & Hi & Hp). rewrite Hw in Hp. injection Hp as <-. lia.
    + intros u [<-|Hin]; [exists (tail x + Z.of_nat n); split; [lia|exact Hw]|].
      destruct (Hu u Hin) as (i & Hi & Hp). exists i. split; [lia|exact Hp].
Qed.
End RingFacts.

(* ------------------------------------------------------------------------------------------------ the composite *)
Section Conserve.
Variable N : Z.
Hypothesis Npos : 0 < N.
Local Notation ust := (ust st).
Local Notation step := (stepZ N).
Local Notation lastres := (lastres st log).
Local Notation astep := (astep N).

(* the ids a thread has custody of: the handle it holds, and the id its composite operation carries between the two rings *)
Definition heldl (s : ust) (t : nat) : list Z := match uheld _ s t with Some id => [id] | None => [] end.
Definition transl (s : ust) (t : nat) : list Z := match uthr _ s t with UEnqB _ id | URel id => [id] | _ => [] end.
Definition owned (s : ust) (t : nat) : list Z := heldl s t ++ transl s t.

(* SLOT CONSERVATION: free list ++ id ring ++ held ++ in transit is a permutation of 0..N-1
   (`ths`: any duplicate-free list of threads that contains every thread with custody of something) *)
Definition Conserve (s : ust) : Prop :=
  exists ths, NoDup ths /\ (forall t, ~ In t ths -> heldl s t = [] /\ transl s t = []) /\
    Permutation (ids_upto N)
                (inring (ua _ s) ++ inring (ub _ s) ++ flat_map (heldl s) ths ++ flat_map (transl s) ths).

Lemma conserve_owned s :
  Conserve s <-> exists ths, NoDup ths /\ (forall t, ~ In t ths -> owned s t = []) /\
                   Permutation (ids_upto N) (inring (ua _ s) ++ inring (ub _ s) ++ flat_map (owned s) ths).
Proof.
  split; intros (ths & Hn & Ho & Hp); exists ths; (split; [exact Hn|]); split.
  - intros t Ht. destruct (Ho t Ht) as [H1 H2]. unfold owned. now rewrite H1, H2.
  - rewrite Hp. do 2 apply Permutation_app_head. symmetry. apply flat_map_app_perm.
  - intros t Ht. apply app_eq_nil. exact (Ho t Ht).
  - rewrite Hp. do 2 apply Permutation_app_head. apply flat_map_app_perm.
Qed.

Ltac perm_count :=
  apply (proj2 (Permutation_count_occ Z.eq_dec _ _)); let z := fresh "z" in intro z;
  repeat match goal with H : Permutation _ _ |- _ => let H' := fresh in pose proof (proj1 (Permutation_count_occ Z.eq_dec _ _) H z) as H'; clear H end;
  rewrite ?count_occ_app in *; cbn [count_occ] in *; repeat destruct (Z.eq_dec _ _); try lia.

(* a move that only changes the custody of one thread, and keeps the union of that custody with the two rings *)
Lemma conserve_move s s' t : Conserve s ->
  (forall u, u <> t -> owned s' u = owned s u) ->
  Permutation (inring (ua _ s) ++ inring (ub _ s) ++ owned s t) (inring (ua _ s') ++ inring (ub _ s') ++ owned s' t) ->
  Conserve s'.
Proof.
  intros C Ho Hp. apply conserve_owned in C. apply conserve_owned. destruct C as (ths & Hn & Hout & Hperm).
  assert (G : exists ths, NoDup ths /\ In t ths /\ (forall u, ~ In u ths -> owned s u = []) /\
                Permutation (ids_upto N) (inring (ua _ s) ++ inring (ub _ s) ++ flat_map (owned s) ths)).
  { destruct (in_dec Nat.eq_dec t ths) as [Hin|Hnin]; [exists ths; auto|].
    exists (t :: ths). split; [now constructor|]. split; [now left|]. split.
    - intros u Hu. apply Hout. intros Hin. apply Hu. now right.
    - cbn [flat_map]. rewrite (Hout t Hnin). exact Hperm. }
  clear ths Hn Hout Hperm. destruct G as (ths & Hn & Hin & Hout & Hperm).
  exists ths. split; [exact Hn|]. split.
  - intros u Hu. rewrite Ho; [now apply Hout|]. intros ->. contradiction.
  - destruct (flat_map_change (owned s) (owned s') ths t Hn Hin Ho) as (R & H1 & H2).
    rewrite H2. rewrite H1 in Hperm. perm_count.
Qed.

(* which component a composite thread is inside, and doing what *)
Definition phase_of (c : upc) (pa pb : pc) : Prop :=
  match c with
  | UIdle => pa = Idle /\ pb = Idle
  | UEnqA _ => is_cons pa = true /\ pb = Idle
  | UEnqB _ id => pa = Idle /\ pval pb = Some id
  | UDeqB => pa = Idle /\ is_cons pb = true
  | URel id => pval pa = Some id /\ pb = Idle
  | ULenB => pa = Idle /\ is_len pb = true
  end.
Definition phase (s : ust) (t : nat) : Prop := phase_of (uthr _ s t) (thr (ua _ s) t) (thr (ub _ s) t).

(* the invariant carried through every state *)
Record ZI (s : ust) : Prop := {
  z_ra  : reach N (ua _ s);                                  (* hence Inv N and Cov of the free list ... *)
  z_rb  : reach N (ub _ s);                                  (* ... and of the id ring *)
  z_ph  : forall t, phase s t;
  z_2a  : noP2 (ua _ s);                                     (* no publish into either ring is on the "full" path *)
  z_2b  : noP2 (ub _ s);
  z_now : forall t, uthr _ s t = UDeqB -> uheld _ s t = None; (* a consume is only begun by a thread that holds no handle *)
  z_cons : Conserve s
}.

Lemma reach_invcov x : reach N x -> Inv N x /\ Cov x.
Proof. intros [evs ->]. apply (invcov_reachable N Npos). Qed.

(* reservations + contents of a ring never exceed the capacity: every reserved position is held by a thread that has custody of an id *)
Lemma res_bound s x : Conserve s -> Inv N x -> Cov x -> x = ua _ s \/ x = ub _ s ->
  (forall u i, pslot (thr x u) = Some i -> (1 <= length (owned s u))%nat) -> etail x - head x <= N.
Proof.
  intros C I Cv Hx Hown. apply conserve_owned in C. destruct C as (ths & Hn & Hout & Hp).
  pose proof (i_ord _ _ I) as Hord.
  destruct (cov_holders x Cv (Z.to_nat (etail x - tail x)) ltac:(lia)) as (us & Hl & Hd & Hu).
  assert (Hincl : incl us ths).
  { intros u Hin. destruct (in_dec Nat.eq_dec u ths) as [|Hnin]; [assumption|exfalso].
    destruct (Hu u Hin) as (i & _ & Hp'). specialize (Hown u i Hp'). rewrite (Hout u Hnin) in Hown. cbn in Hown. lia. }
  assert (Hge : (length us <= length (flat_map (owned s) ths))%nat).
  { apply flat_map_length_ge; [exact Hd|exact Hincl|]. intros u Hin. destruct (Hu u Hin) as (i & _ & Hp'). exact (Hown u i Hp'). }
  apply Permutation_length in Hp. rewrite !app_length in Hp. unfold ids_upto in Hp. rewrite map_length, seq_length in Hp.
  pose proof (inring_length N x I) as Hlen. destruct Hx; subst x; lia.
Qed.

Lemma zi_bounds s : ZI s -> etail (ua _ s) - head (ua _ s) <= N /\ etail (ub _ s) - head (ub _ s) <= N.
Proof.
  intros Z. destruct (reach_invcov _ (z_ra _ Z)) as [Ia Ca]. destruct (reach_invcov _ (z_rb _ Z)) as [Ib Cb]. split.
  - apply (res_bound s (ua _ s) (z_cons _ Z) Ia Ca (or_introl eq_refl)). intros u i Hp.
    pose proof (z_ph _ Z u) as P. unfold phase, phase_of in P. unfold owned, transl. rewrite app_length.
    destruct (uthr _ s u); destruct P as [P1 P2]; try (rewrite P1 in Hp; discriminate); try (cbn; lia).
    destruct (thr (ua _ s) u); cbn in *; discriminate.
  - apply (res_bound s (ub _ s) (z_cons _ Z) Ib Cb (or_intror eq_refl)). intros u i Hp.
    pose proof (z_ph _ Z u) as P. unfold phase, phase_of in P. unfold owned, transl. rewrite app_length.
    destruct (uthr _ s u); destruct P as [P1 P2]; try (rewrite P2 in Hp; discriminate); try (cbn; lia);
    destruct (thr (ub _ s) u); cbn in *; discriminate.
Qed.

(* re-establishing the invariant after a move of thread t *)
Lemma zi_update s a' b' p' th' l' h' t : ZI s ->
  reach N a' -> reach N b' -> noP2 a' -> noP2 b' ->
  (forall u, u <> t -> thr a' u = thr (ua _ s) u /\ thr b' u = thr (ub _ s) u /\ th' u = uthr _ s u /\ h' u = uheld _ s u) ->
  phase_of (th' t) (thr a' t) (thr b' t) ->
  (th' t = UDeqB -> h' t = None) ->
  Permutation (inring (ua _ s) ++ inring (ub _ s) ++ owned s t) (inring a' ++ inring b' ++ owned (umk st a' b' p' th' l' h') t) ->
  ZI (umk st a' b' p' th' l' h').
Proof.
  intros Z Ra Rb H2a H2b Ho Hph Hnow Hperm. constructor; cbn [ua ub uthr uheld umk]; auto.
  - intros u. unfold phase. cbn [ua ub uthr uheld umk]. destruct (Nat.eq_dec u t) as [->|Hn]; [exact Hph|].
    destruct (Ho u Hn) as (-> & -> & -> & _). apply (z_ph _ Z u).
  - intros u. destruct (Nat.eq_dec u t) as [->|Hn]; [exact Hnow|].
    destruct (Ho u Hn) as (_ & _ & -> & ->). apply (z_now _ Z u).
  - apply (conserve_move s _ t (z_cons _ Z)); [|exact Hperm].
    intros u Hn. unfold owned, heldl, transl. cbn [ua ub uthr uheld umk]. destruct (Ho u Hn) as (_ & _ & -> & ->). reflexivity.
Qed.

Ltac ustep_open E := unfold ZcSoloA.astep, ustep; cbn [ua ub upool uthr ulog uheld umk]; rewrite E; cbn [ua ub upool uthr ulog uheld umk].
Lemma a_idle a b p th l h t : th t = UIdle -> astep (umk st a b p th l h) t = umk st a b p th l h.
Proof. intros E. ustep_open E. reflexivity. Qed.
Lemma a_len_busy a b p th l h t : th t = ULenB -> thr (step b t) t <> Idle ->
  astep (umk st a b p th l h) t = umk st a (step b t) p th l h.
Proof. intros E Hb. ustep_open E. rewrite (ridle_false _ _ Hb). reflexivity. Qed.
Lemma a_len_done a b p th l h t : th t = ULenB -> thr (step b t) t = Idle ->
  exists l', astep (umk st a b p th l h) t = umk st a (step b t) p (upd th t UIdle) l' h.
Proof. intros E Hb. ustep_open E. rewrite (ridle_true _ _ Hb). destruct (lastres (step b t)); eexists; reflexivity. Qed.

Lemma pval_busy p v : pval p = Some v -> p <> Idle.
Proof. intros H ->. discriminate. Qed.
Lemma cons_busy p : is_cons p = true -> p <> Idle.
Proof. intros H ->. discriminate. Qed.
Lemma len_busy p : is_len p = true -> p <> Idle.
Proof. intros H ->. discriminate. Qed.

Ltac others := intros u Hu; cbn [ua ub upool uthr ulog uheld umk];
  rewrite ?step_other_threads_gen, ?start_other, ?upd_other by assumption; auto.
Ltac own := unfold owned, heldl, transl; cbn [ua ub upool uthr ulog uheld umk]; rewrite ?upd_same.

Theorem zi_step s t : ZI s -> ZI (astep s t).
Proof.
  intros Z. destruct (zi_bounds s Z) as [Ba Bb].
  destruct (reach_invcov _ (z_ra _ Z)) as [Ia _]. destruct (reach_invcov _ (z_rb _ Z)) as [Ib _].
  pose proof (z_ph _ Z t) as P. unfold phase in P. pose proof (z_ra _ Z) as Ra. pose proof (z_rb _ Z) as Rb.
  pose proof (z_2a _ Z) as H2a. pose proof (z_2b _ Z) as H2b. pose proof (z_now _ Z t) as Hnow.
  destruct s as [a b p th l h]. cbn [ua ub upool uthr ulog uheld] in *. fold (umk st a b p th l h) in *.
  destruct (th t) eqn:E; cbn [phase_of] in P; destruct P as [P1 P2].
  - (* UIdle *) rewrite (a_idle _ _ _ _ _ _ _ E). exact Z.
  - (* UEnqA v: inside the allocation (a consume on the free list) *)
    destruct (ring_cons_step N a t Ia P1) as [(Hi & Hl & Hp & Hh & Hlt)|[(Hi & Hl & Hp & Hh)|(Hc & Hp & Hh)]].
    + rewrite (a_enqA_got N a b p th l h t v _ E Hi (lastres_snoc _ _ _ _ Hl)).
      destruct (start_idle b t (OpPub (nthz (published a) (head a))) P2) as (S0 & _).
      destruct (start_frame b t (OpPub (nthz (published a) (head a)))) as [Sp Sh].
      apply (zi_update _ _ _ _ _ _ _ t Z); cbn [ua ub upool uthr ulog uheld umk];
        [now apply reach_step|now apply reach_start|now apply noP2_step|now apply noP2_start|others| | |].
      * rewrite upd_same, Hi, S0. cbn. auto.
      * rewrite upd_same. discriminate.
      * rewrite (inring_cons N a _ Ia Hp Hh Hlt), (inring_same _ _ Sp Sh). own. rewrite E. perm_count.
    + rewrite (a_enqA_none N a b p th l h t v E Hi (lastres_snoc _ _ _ _ Hl)).
      apply (zi_update _ _ _ _ _ _ _ t Z); cbn [ua ub upool uthr ulog uheld umk];
        [now apply reach_step|assumption|now apply noP2_step|assumption|others| | |].
      * rewrite upd_same, Hi, P2. cbn. auto.
      * rewrite upd_same. discriminate.
      * rewrite (inring_same _ _ Hp Hh). own. rewrite E. reflexivity.
    + rewrite (a_enqA_busy N a b p th l h t v E (cons_busy _ Hc)).
      apply (zi_update _ _ _ _ _ _ _ t Z); cbn [ua ub upool uthr ulog uheld umk];
        [now apply reach_step|assumption|now apply noP2_step|assumption|others| | |].
      * rewrite E. cbn. auto.
      * rewrite E. discriminate.
      * rewrite (inring_same _ _ Hp Hh). reflexivity.
  - (* UEnqB v id: inside the publication of the id *)
    destruct (ring_pub_step N b t id H2b P2) as [(Hi & (len & Hl) & Hp & Hh)|(Hc & Hp & Hh)].
    + rewrite (a_enqB_ok N a b p th l h t v id _ _ E Hi (lastres_snoc _ _ _ _ Hl)).
      apply (zi_update _ _ _ _ _ _ _ t Z); cbn [ua ub upool uthr ulog uheld umk];
        [assumption|now apply reach_step|assumption|now apply noP2_step|others| | |].
      * rewrite upd_same, Hi, P1. cbn. auto.
      * rewrite upd_same. discriminate.
      * rewrite (inring_pub N b _ id Ib Hp Hh). own. rewrite E. perm_count.
    + rewrite (a_enqB_busy N a b p th l h t v id E (pval_busy _ _ Hc)).
      apply (zi_update _ _ _ _ _ _ _ t Z); cbn [ua ub upool uthr ulog uheld umk];
        [assumption|now apply reach_step|assumption|now apply noP2_step|others| | |].
      * rewrite E. cbn. auto.
      * rewrite E. discriminate.
      * rewrite (inring_same _ _ Hp Hh). reflexivity.
  - (* UDeqB: inside the consume on the id ring *)
    destruct (ring_cons_step N b t Ib P2) as [(Hi & Hl & Hp & Hh & Hlt)|[(Hi & Hl & Hp & Hh)|(Hc & Hp & Hh)]].
    + rewrite (a_deqB_got N a b p th l h t _ E Hi (lastres_snoc _ _ _ _ Hl)).
      apply (zi_update _ _ _ _ _ _ _ t Z); cbn [ua ub upool uthr ulog uheld umk];
        [assumption|now apply reach_step|assumption|now apply noP2_step|others| | |].
      * rewrite upd_same, Hi, P1. cbn. auto.
      * rewrite upd_same. discriminate.
      * rewrite (inring_cons N b _ Ib Hp Hh Hlt). own. rewrite E, (Hnow eq_refl). perm_count.
    + rewrite (a_deqB_empty N a b p th l h t E Hi (lastres_snoc _ _ _ _ Hl)).
      apply (zi_update _ _ _ _ _ _ _ t Z); cbn [ua ub upool uthr ulog uheld umk];
        [assumption|now apply reach_step|assumption|now apply noP2_step|others| | |].
      * rewrite upd_same, Hi, P1. cbn. auto.
      * rewrite upd_same. discriminate.
      * rewrite (inring_same _ _ Hp Hh). own. rewrite E. reflexivity.
    + rewrite (a_deqB_busy N a b p th l h t E (cons_busy _ Hc)).
      apply (zi_update _ _ _ _ _ _ _ t Z); cbn [ua ub upool uthr ulog uheld umk];
        [assumption|now apply reach_step|assumption|now apply noP2_step|others| | |].
      * rewrite E. cbn. auto.
      * intros _. now apply Hnow.
      * rewrite (inring_same _ _ Hp Hh). reflexivity.
  - (* URel id: inside the give-back of the id to the free list *)
    destruct (ring_pub_step N a t id H2a P1) as [(Hi & (len & Hl) & Hp & Hh)|(Hc & Hp & Hh)].
    + rewrite (a_rel_done N a b p th l h t id E Hi).
      apply (zi_update _ _ _ _ _ _ _ t Z); cbn [ua ub upool uthr ulog uheld umk];
        [now apply reach_step|assumption|now apply noP2_step|assumption|others| | |].
      * rewrite upd_same, Hi, P2. cbn. auto.
      * rewrite upd_same. discriminate.
      * rewrite (inring_pub N a _ id Ia Hp Hh). own. rewrite E. perm_count.
    + rewrite (a_rel_busy N a b p th l h t id E (pval_busy _ _ Hc)).
      apply (zi_update _ _ _ _ _ _ _ t Z); cbn [ua ub upool uthr ulog uheld umk];
        [now apply reach_step|assumption|now apply noP2_step|assumption|others| | |].
      * rewrite E. cbn. auto.
      * rewrite E. discriminate.
      * rewrite (inring_same _ _ Hp Hh). reflexivity.
  - (* ULenB *)
    destruct (ring_len_step N b t P2) as ([Hi|Hc] & Hp & Hh).
    + destruct (a_len_done a b p th l h t E Hi) as [l' ->].
      apply (zi_update _ _ _ _ _ _ _ t Z); cbn [ua ub upool uthr ulog uheld umk];
        [assumption|now apply reach_step|assumption|now apply noP2_step|others| | |].
      * rewrite upd_same, Hi, P1. cbn. auto.
      * rewrite upd_same. discriminate.
      * rewrite (inring_same _ _ Hp Hh). own. rewrite E. reflexivity.
    + rewrite (a_len_busy a b p th l h t E (len_busy _ Hc)).
      apply (zi_update _ _ _ _ _ _ _ t Z); cbn [ua ub upool uthr ulog uheld umk];
        [assumption|now apply reach_step|assumption|now apply noP2_step|others| | |].
      * rewrite E. cbn. auto.
      * rewrite E. discriminate.
      * rewrite (inring_same _ _ Hp Hh). reflexivity.
Qed.

End Conserve.

(* ------------------------------------------------------------------------------------------------ the other two moves *)
Section Conserve2.
Variable N : Z.
Hypothesis Npos : 0 < N.
Local Notation ust := (ust st).
Local Notation step := (stepZ N).

Ltac others := intros u Hu; cbn [ua ub upool uthr ulog uheld umk];
  rewrite ?step_other_threads_gen, ?start_other, ?upd_other by assumption; auto.
Ltac own := unfold owned, heldl, transl; cbn [ua ub upool uthr ulog uheld umk]; rewrite ?upd_same.

(* beginning an operation: allowed to a thread that holds no handle (the model has ONE handle register per thread: a consume begun
   while holding would overwrite - and so lose - the handle held; the channel machine never does that, see zc_guarded_invariant) *)
Theorem zi_start s t o : ZI N s -> uheld _ s t = None -> ZI N (astart s t o).
Proof.
  intros Z Hnone. pose proof (z_ph _ _ Z t) as P. unfold phase in P. pose proof (z_ra _ _ Z) as Ra. pose proof (z_rb _ _ Z) as Rb.
  pose proof (z_2a _ _ Z) as H2a. pose proof (z_2b _ _ Z) as H2b.
  unfold astart, ustart. destruct s as [a b p th l h]. cbn [ua ub upool uthr ulog uheld] in *. fold (umk st a b p th l h) in *.
  destruct (th t) eqn:E; try exact Z. cbn [phase_of] in P. destruct P as [P1 P2]. destruct o.
  - destruct (start_idle a t OpCons P1) as (S0 & _). destruct (start_frame a t OpCons) as [Sp Sh].
    apply (zi_update N _ _ _ _ _ _ _ t Z); cbn [ua ub upool uthr ulog uheld umk];
      [now apply reach_start|assumption|now apply noP2_start|assumption|others| | |].
    + rewrite upd_same, S0, P2. cbn. auto.
    + rewrite upd_same. discriminate.
    + rewrite (inring_same _ _ Sp Sh). own. rewrite E. reflexivity.
  - destruct (start_idle b t OpCons P2) as (S0 & _). destruct (start_frame b t OpCons) as [Sp Sh].
    apply (zi_update N _ _ _ _ _ _ _ t Z); cbn [ua ub upool uthr ulog uheld umk];
      [assumption|now apply reach_start|assumption|now apply noP2_start|others| | |].
    + rewrite upd_same, S0, P1. cbn. auto.
    + intros _. exact Hnone.
    + rewrite (inring_same _ _ Sp Sh). own. rewrite E. reflexivity.
  - destruct (start_idle b t OpLen P2) as (S0 & _). destruct (start_frame b t OpLen) as [Sp Sh].
    apply (zi_update N _ _ _ _ _ _ _ t Z); cbn [ua ub upool uthr ulog uheld umk];
      [assumption|now apply reach_start|assumption|now apply noP2_start|others| | |].
    + rewrite upd_same, S0, P1. cbn. auto.
    + rewrite upd_same. discriminate.
    + rewrite (inring_same _ _ Sp Sh). own. rewrite E. reflexivity.
Qed.

(* the drop of the handle: the id passes from `held` to `in transit` *)
Theorem zi_release s t : ZI N s -> ZI N (arelease s t).
Proof.
  intros Z. pose proof (z_ph _ _ Z t) as P. unfold phase in P. pose proof (z_ra _ _ Z) as Ra. pose proof (z_rb _ _ Z) as Rb.
  pose proof (z_2a _ _ Z) as H2a. pose proof (z_2b _ _ Z) as H2b.
  unfold arelease, urelease. destruct s as [a b p th l h]. cbn [ua ub upool uthr ulog uheld] in *. fold (umk st a b p th l h) in *.
  destruct (th t) eqn:E; try exact Z. destruct (h t) as [id|] eqn:Eh; [|exact Z]. cbn [phase_of] in P. destruct P as [P1 P2].
  destruct (start_idle a t (OpPub id) P1) as (S0 & _). destruct (start_frame a t (OpPub id)) as [Sp Sh].
  apply (zi_update N _ _ _ _ _ _ _ t Z); cbn [ua ub upool uthr ulog uheld umk];
    [now apply reach_start|assumption|now apply noP2_start|assumption|others| | |].
  - rewrite upd_same, S0, P2. cbn. auto.
  - rewrite upd_same. discriminate.
  - rewrite (inring_same _ _ Sp Sh). own. rewrite E, Eh. reflexivity.
Qed.

(* ---- the initial state: `new()` filled the free list with 0..N-1 ---- *)
Lemma pfill_state ids : forall x, reach N x -> (forall t, thr x t = Idle) -> tail x - head x + Z.of_nat (length ids) <= N ->
  let y := pfill st step start x ids 0 in
  reach N y /\ (forall t, thr y t = Idle) /\ published y = published x ++ ids /\ head y = head x.
Proof.
  induction ids as [|v ids IH]; intros x R Hi Hb; cbn zeta.
  - cbn [pfill]. rewrite app_nil_r. auto.
  - cbn [pfill]. cbn [length] in Hb.
    pose proof (calm_send_accepted N Npos x 0%nat v R (fun u => or_introl (Hi u)) (Hi 0%nat) ltac:(lia)) as H. cbn zeta in H.
    destruct H as (_ & _ & _ & H4 & _ & H6 & H7 & H8 & H9 & _).
    cbn [Nat.iter nat_rect].
    set (x4 := step (step (step (step (start x 0%nat (OpPub v)) 0%nat) 0%nat) 0%nat) 0%nat) in *.
    rewrite !(step_idle_noop N x4 0%nat H4).
    assert (R4 : reach N x4) by (unfold x4; repeat apply reach_step; now apply reach_start).
    assert (Hi4 : forall u, thr x4 u = Idle).
    { intros u. destruct (Nat.eq_dec u 0) as [->|Hn]; [exact H4|]. rewrite (H9 u Hn). apply Hi. }
    destruct (IH x4 R4 Hi4 ltac:(lia)) as (A1 & A2 & A3 & A4). cbn zeta in *.
    split; [exact A1|]. split; [exact A2|]. split; [rewrite A3, H8, <- app_assoc; reflexivity|lia].
Qed.

Lemma reach_init : reach N init.
Proof. exists []. reflexivity. Qed.

Lemma fl0_state : reach N (zc_fl0 N) /\ (forall t, thr (zc_fl0 N) t = Idle) /\ published (zc_fl0 N) = ids_upto N /\ head (zc_fl0 N) = 0.
Proof.
  assert (Hlen : Z.of_nat (length (ids_upto N)) = N) by (unfold ids_upto; rewrite map_length, seq_length; lia).
  destruct (pfill_state (ids_upto N) init reach_init (fun _ => eq_refl)) as (A1 & A2 & A3 & A4); [cbn [tail head init init_at]; lia|].
  cbn zeta in *. unfold zc_fl0. auto.
Qed.

Theorem zi_init : ZI N (zc_q0 N).
Proof.
  destruct fl0_state as (A1 & A2 & A3 & A4).
  constructor; unfold zc_q0; cbn [ua ub upool uthr ulog uheld].
  - exact A1.
  - exact reach_init.
  - intros t. unfold phase. cbn [ua ub upool uthr ulog uheld phase_of]. split; [apply A2|reflexivity].
  - intros t v sl. rewrite A2. discriminate.
  - intros t v sl. cbn. discriminate.
  - discriminate.
  - exists []. split; [constructor|]. split; [intros t _; split; reflexivity|].
    unfold inring. cbn [ua ub upool uthr ulog uheld flat_map]. rewrite A3, A4. cbn. rewrite !app_nil_r. reflexivity.
Qed.
End Conserve2.

(* ------------------------------------------------------------------------------------------------ transfer to channel runs
   ChanZProps.zc_q_invariant wants the predicate preserved by EVERY ustart; ours is preserved by the ustart of a thread that holds no
   handle.  The channel machine qualifies: after a poll yielded, it starts the drop of the handle in the very same step (after_cons:
   qrel), so between two channel steps no thread holds a handle, and only a polling thread is ever inside a consume. *)
Section QInvG.
Variable Q : Type.
Variable qstep : Q -> nat -> Q.
Variable qstart : Q -> nat -> op -> Q.
Variable qidle : Q -> nat -> bool.
Variable qlog : Q -> list (nat * res).
Variable lha : bool.
Variable qlen_now : Q -> Z.
Variable M k : nat.
Variable wake_rule : Z -> option nat.

Local Notation ust := (ust Q).
Local Notation ustep := (ustep Q qstep qstart qidle qlog lha qlen_now).
Local Notation ustart := (ustart Q qstart lha).
Local Notation urelease := (urelease Q qstart).
Local Notation cexec := (cexec ust ustep ustart (uidle Q) (ulog Q) urelease M k wake_rule).

Variable P : ust -> Prop.
Hypothesis Pstep : forall x t, P x -> P (ustep x t).
Hypothesis Pstart : forall x t o, P x -> uheld Q x t = None -> P (ustart x t o).
Hypothesis Prel : forall x t, P x -> P (urelease x t).

Definition allnone (x : ust) : Prop := forall t, uheld Q x t = None.
Definition is_poll (c : cpc) : Prop := match c with XPollQ _ _ => True | _ => False end.
Definition G (s : cst ust) : Prop :=
  P (q ust s) /\ allnone (q ust s) /\ forall t, uthr Q (q ust s) t = UDeqB -> is_poll (cthr ust s t).

Lemma uidle_true_inv (x : ust) t : uidle Q x t = true -> uthr Q x t = UIdle.
Proof. unfold uidle. destruct (uthr Q x t); congruence. Qed.

Lemma ustep_cases x0 t : allnone x0 ->
  (forall u, u <> t -> uthr Q (ustep x0 t) u = uthr Q x0 u) /\
  ( (uidle Q (ustep x0 t) t = false /\ allnone (ustep x0 t) /\ (uthr Q (ustep x0 t) t = UDeqB -> uthr Q x0 t = UDeqB))
 \/ (uidle Q (ustep x0 t) t = true /\ allnone (ustep x0 t))
 \/ (uidle Q (ustep x0 t) t = true /\ uthr Q x0 t = UDeqB /\ (exists v, qres ust (ulog Q) (ustep x0 t) = RGot v) /\
     allnone (urelease (ustep x0 t) t)) ).
Proof.
  intros Hall.
  assert (A1 : forall x, uheld Q x = uheld Q x0 -> allnone x) by (intros x Hx u; rewrite Hx; apply Hall).
  unfold ZcUni.ustep. destruct (uthr Q x0 t) eqn:E.
  1: { split; [reflexivity|]. right; left. unfold uidle. rewrite E. auto. }
  all: repeat match goal with
       | |- context[if ?b then _ else _] => destruct b
       | |- context[match lastres ?A ?B ?C with _ => _ end] => destruct (lastres A B C)
       end.
  all: (split; [intros u Hu; cbn [ua ub upool uthr ulog uheld umk]; rewrite ?upd_other by assumption; reflexivity|]).
  all: try solve [ left; unfold uidle; cbn [ua ub upool uthr ulog uheld umk]; rewrite ?upd_same, ?E;
                   split; [reflexivity|]; split; [apply A1; reflexivity|congruence] ].
  all: try solve [ right; left; unfold uidle; cbn [ua ub upool uthr ulog uheld umk]; rewrite ?upd_same, ?E;
                   split; [reflexivity|apply A1; reflexivity] ].
  (* the consume that got an id *)
  right; right. unfold uidle, ZcUni.urelease, qres. cbn [ua ub upool uthr ulog uheld umk]. rewrite !upd_same.
  cbn [ua ub upool uthr ulog uheld umk]. rewrite last_last. cbn [snd].
  split; [reflexivity|]. split; [reflexivity|]. split; [eexists; reflexivity|].
  intros u. cbn [uheld umk]. destruct (Nat.eq_dec u t) as [->|Hn]; [now rewrite upd_same|rewrite !upd_other by assumption; apply Hall].
Qed.

Lemma ustart_held x t o : uheld Q (ustart x t o) = uheld Q x.
Proof. unfold ZcUni.ustart. destruct (uthr Q x t); try reflexivity. destruct o; try reflexivity. destruct lha; reflexivity. Qed.
Lemma ustart_other x t o u : u <> t -> uthr Q (ustart x t o) u = uthr Q x u.
Proof.
  intros Hn. unfold ZcUni.ustart. destruct (uthr Q x t); try reflexivity.
  destruct o; [| |destruct lha]; cbn [uthr umk]; now rewrite upd_other.
Qed.
Lemma ustart_deq x t o : uthr Q (ustart x t o) t = UDeqB -> o = OpCons \/ uthr Q x t = UDeqB.
Proof.
  unfold ZcUni.ustart. destruct (uthr Q x t) eqn:E; try (rewrite E; auto; fail); try discriminate.
  destruct o; [| |destruct lha]; cbn [uthr umk]; rewrite upd_same; auto; discriminate.
Qed.
Lemma urelease_none x t : uheld Q x t = None -> urelease x t = x.
Proof. intros H. unfold ZcUni.urelease. rewrite H. destruct (uthr Q x t); reflexivity. Qed.

(* re-establishing G after a move of channel thread t *)
Lemma g_upd (s : cst ust) x t c' m' l' : G s -> P x -> allnone x -> (forall u, u <> t -> uthr Q x u = uthr Q (q ust s) u) ->
  (uthr Q x t = UDeqB -> is_poll c') -> G (mk ust x m' (upd (cthr ust s) t c') l').
Proof.
  intros (_ & _ & L) Px Ax Ho Ht. split; [exact Px|]. split; [exact Ax|]. cbn [q cthr mk]. intros u Hu.
  destruct (Nat.eq_dec u t) as [->|Hn]; [rewrite upd_same; auto|]. rewrite upd_other by assumption. apply L. now rewrite <- Ho.
Qed.
Lemma g_same (s : cst ust) x t m' l' : G s -> P x -> allnone x -> (forall u, u <> t -> uthr Q x u = uthr Q (q ust s) u) ->
  (uthr Q x t = UDeqB -> is_poll (cthr ust s t)) -> G (mk ust x m' (cthr ust s) l').
Proof.
  intros (_ & _ & L) Px Ax Ho Ht. split; [exact Px|]. split; [exact Ax|]. cbn [q cthr mk]. intros u Hu.
  destruct (Nat.eq_dec u t) as [->|Hn]; [auto|]. apply L. now rewrite <- Ho.
Qed.
Lemma g_pc (s : cst ust) t c' m' l' : G s -> ~ is_poll (cthr ust s t) -> G (mk ust (q ust s) m' (upd (cthr ust s) t c') l').
Proof.
  intros Gs Hnp. destruct Gs as (Ps & As & L). apply (g_upd s (q ust s) t c' m' l'); auto. { now split. }
  intros Hu. exfalso. apply Hnp, L, Hu.
Qed.
Lemma g_cancel_next (s : cst ust) t j m' : G s -> ~ is_poll (cthr ust s t) ->
  G (cancel_next ust M (mk ust (q ust s) m' (cthr ust s) (clog ust s)) t j).
Proof.
  intros Gs Hnp. unfold cancel_next, finish, setpc. destruct (M <=? j)%nat; cbn [q m cthr clog mk]; now apply g_pc.
Qed.

Ltac idle_contra Ei := match goal with H : uidle Q _ _ = _ |- _ => rewrite H in Ei; discriminate end.
Ltac t_idle Hi := intros Hu; rewrite (uidle_true_inv _ _ Hi) in Hu; discriminate.

Lemma g_cexec (s : cst ust) e : G s -> G (cexec s e).
Proof.
  intros Gs. pose proof Gs as (Ps & As & L). destruct e as [t|t o]; cbn.
  - unfold cstep. destruct (cthr ust s t) eqn:E.
    + exact Gs.
    + (* XSendQ *)
      destruct (ustep_cases (q ust s) t As) as [Ho [(Hi & Ax & Hd)|[(Hi & Ax)|(Hi & Hd & _)]]].
      * rewrite Hi. apply (g_same s _ t); auto; intros Hu; apply L; auto.
      * rewrite Hi. unfold after_send. destruct (qres _ _ _); try destruct (wake_rule _); apply (g_upd s _ t); auto; t_idle Hi.
      * exfalso. apply L in Hd. rewrite E in Hd. exact Hd.
    + (* XSendW *) destruct (wstep (m ust s) w) as [m' [w'|]]; apply g_pc; auto; rewrite E; auto.
    + (* XDrive *)
      set (x0 := ustart (q ust s) t OpCons).
      assert (P0 : P x0) by (apply Pstart; auto).
      assert (A0 : allnone x0) by (intros u; unfold x0; rewrite ustart_held; apply As).
      assert (O0 : forall u, u <> t -> uthr Q x0 u = uthr Q (q ust s) u) by (intros u Hu; now apply ustart_other).
      destruct (ustep_cases x0 t A0) as [Ho [(Hi & Ax & Hd)|[(Hi & Ax)|(Hi & Hd & (v & Hv) & Ar)]]].
      * rewrite Hi. apply (g_upd s _ t); cbn; auto. intros u Hu. now rewrite Ho, O0.
      * rewrite Hi. unfold after_cons. destruct (qres _ _ _); try rewrite (urelease_none _ _ (Ax t));
          apply (g_upd s _ t); auto; try (intros u Hu; now rewrite Ho, O0); t_idle Hi.
      * rewrite Hi. unfold after_cons. rewrite Hv. apply (g_upd s _ t); auto.
        -- intros u Hu. unfold ZcUni.urelease. rewrite (uidle_true_inv _ _ Hi).
           destruct (uheld Q (ustep x0 t) t); cbn [uthr umk]; rewrite ?upd_other by assumption; now rewrite Ho, O0.
        -- unfold ZcUni.urelease. rewrite (uidle_true_inv _ _ Hi).
           destruct (uheld Q (ustep x0 t) t); cbn [uthr umk]; rewrite ?upd_same; try discriminate. t_idle Hi.
    + (* XPollQ *)
      destruct (ustep_cases (q ust s) t As) as [Ho [(Hi & Ax & Hd)|[(Hi & Ax)|(Hi & Hd & (v & Hv) & Ar)]]].
      * rewrite Hi. apply (g_same s _ t); auto; intros _; rewrite E; exact I.
      * rewrite Hi. unfold after_cons. destruct (qres _ _ _); try rewrite (urelease_none _ _ (Ax t));
          apply (g_upd s _ t); auto; t_idle Hi.
      * rewrite Hi. unfold after_cons. rewrite Hv. apply (g_upd s _ t); auto.
        -- intros u Hu. unfold ZcUni.urelease. rewrite (uidle_true_inv _ _ Hi).
           destruct (uheld Q (ustep (q ust s) t) t); cbn [uthr umk]; rewrite ?upd_other by assumption; now rewrite Ho.
        -- unfold ZcUni.urelease. rewrite (uidle_true_inv _ _ Hi).
           destruct (uheld Q (ustep (q ust s) t) t); cbn [uthr umk]; rewrite ?upd_same; try discriminate. t_idle Hi.
    + (* XPollK *) destruct (keep _ _); unfold setpc, finish; apply g_pc; auto; rewrite E; auto.
    + (* XReg *)
      destruct r; [destruct (wakers _ _)|destruct (wlock _)| | |]; unfold setpc, finish; try exact Gs; apply g_pc; auto; rewrite E; auto.
    + (* XParked *) destruct (notified _ _); [|exact Gs]. apply g_pc; auto; rewrite E; auto.
    + (* XCancelU *) destruct (j <? k)%nat; unfold setpc, finish; apply g_pc; auto; rewrite E; auto.
    + (* XCancelK *) apply g_pc; auto; rewrite E; auto.
    + (* XCancelW *) destruct (wstep (m ust s) w) as [m' [w'|]]; [apply g_pc; auto; rewrite E; auto|].
      apply g_cancel_next; auto. rewrite E. auto.
    + (* XLenQ *)
      destruct (ustep_cases (q ust s) t As) as [Ho [(Hi & Ax & Hd)|[(Hi & Ax)|(Hi & Hd & _)]]].
      * rewrite Hi. apply (g_same s _ t); auto; intros Hu; apply L; auto.
      * rewrite Hi. destruct (qres _ _ _); apply (g_upd s _ t); auto; t_idle Hi.
      * exfalso. apply L in Hd. rewrite E in Hd. exact Hd.
    + (* XRel *)
      destruct (ustep_cases (q ust s) t As) as [Ho [(Hi & Ax & Hd)|[(Hi & Ax)|(Hi & Hd & _)]]].
      * rewrite Hi. apply (g_same s _ t); auto; intros Hu; apply L; auto.
      * rewrite Hi. apply (g_upd s _ t); auto; t_idle Hi.
      * exfalso. apply L in Hd. rewrite E in Hd. exact Hd.
  - unfold cstart. destruct (cthr ust s t) eqn:E; try exact Gs.
    assert (Hnd : uthr Q (q ust s) t <> UDeqB) by (intros Hu; apply L in Hu; rewrite E in Hu; exact Hu).
    destruct o; cbn [q mk setpc].
    + apply (g_upd s _ t); auto.
      * intros u; rewrite ustart_held; apply As.
      * intros u Hu; now apply ustart_other.
      * intros Hu. apply ustart_deq in Hu. destruct Hu; [discriminate|contradiction].
    + apply (g_upd s _ t); cbn; auto.
      * intros u; rewrite ustart_held; apply As.
      * intros u Hu; now apply ustart_other.
    + unfold setpc. apply g_pc; auto. rewrite E. auto.
    + unfold cancel_next, finish, setpc. destruct (M <=? 0)%nat; apply g_pc; auto; rewrite E; auto.
    + apply (g_upd s _ t); auto.
      * intros u; rewrite ustart_held; apply As.
      * intros u Hu; now apply ustart_other.
      * intros Hu. apply ustart_deq in Hu. destruct Hu; [discriminate|contradiction].
Qed.

Theorem zc_guarded_invariant q0 cevs : P q0 -> allnone q0 -> (forall t, uthr Q q0 t <> UDeqB) ->
  G (fold_left cexec cevs (cinit ust k q0)).
Proof.
  intros H0 A0 D0. assert (Gn : forall s, G s -> G (fold_left cexec cevs s)).
  { induction cevs as [|e cevs' IH]; intros s Hs; [exact Hs|]. cbn [fold_left]. apply IH. now apply g_cexec. }
  apply Gn. split; [exact H0|]. split; [exact A0|]. intros t Hu. exfalso. exact (D0 t Hu).
Qed.
End QInvG.

(* ------------------------------------------------------------------------------------------------ results *)
Lemma nodup_app_l {A} (l1 l2 : list A) : NoDup (l1 ++ l2) -> NoDup l1.
Proof. induction l1 as [|a l1 IH]; intros H; [constructor|]. inversion H; subst. constructor; [|auto]. intros Hin. apply H2, in_or_app. now left. Qed.
Lemma nodup_app_r {A} (l1 l2 : list A) : NoDup (l1 ++ l2) -> NoDup l2.
Proof. induction l1 as [|a l1 IH]; intros H; [exact H|]. inversion H; subst. auto. Qed.
Lemma nodup_app_disj {A} (l1 l2 : list A) x : NoDup (l1 ++ l2) -> In x l1 -> In x l2 -> False.
Proof.
  induction l1 as [|a l1 IH]; intros H H1 H2; [destruct H1|]. inversion H; subst. destruct H1 as [->|H1]; [|auto].
  apply H4, in_or_app. now right.
Qed.
Lemma nodup_flat_map_owner {A B} (f : A -> list B) l t u x :
  NoDup (flat_map f l) -> In t l -> In u l -> In x (f t) -> In x (f u) -> t = u.
Proof.
  induction l as [|a l IH]; intros Hn Ht Hu Hxt Hxu; [destruct Ht|]. cbn [flat_map] in Hn.
  destruct Ht as [->|Ht], Hu as [->|Hu]; auto.
  - exfalso. apply (nodup_app_disj _ _ x Hn Hxt). apply in_flat_map. eauto.
  - exfalso. apply (nodup_app_disj _ _ x Hn Hxu). apply in_flat_map. eauto.
  - apply IH; auto. exact (nodup_app_r _ _ Hn).
Qed.
Lemma flat_map_nil {A B} (f : A -> list B) l : (forall a, f a = []) -> flat_map f l = [].
Proof. intros H. induction l as [|a l IH]; [reflexivity|]. cbn. now rewrite H, IH. Qed.
Lemma ids_upto_nodup n : NoDup (ids_upto n).
Proof. unfold ids_upto. apply FinFun.Injective_map_NoDup; [intros x y; apply Nat2Z.inj|apply seq_NoDup]. Qed.
Lemma ids_upto_in n x : In x (ids_upto n) <-> 0 <= x < n.
Proof.
  unfold ids_upto. rewrite in_map_iff. split.
  - intros (i & <- & Hi). apply in_seq in Hi. lia.
  - intros H. exists (Z.to_nat x). split; [lia|]. apply in_seq. lia.
Qed.

Section Results.
Variable N : Z.
Hypothesis Npos : 0 < N.
Local Notation ust := (ust st).
Local Notation A s := (ua st s).
Local Notation B s := (ub st s).

(* The states the queue component reaches from `new()` by its three kinds of moves, an operation being begun only by a thread that
   holds no handle.  Every state of every channel run is one of them (zc_atomic_run_states_reachable below). *)
Inductive zreach : ust -> Prop :=
| zr_init : zreach (zc_q0 N)
| zr_step s t : zreach s -> zreach (astep N s t)
| zr_start s t o : zreach s -> uheld _ s t = None -> zreach (astart s t o)
| zr_release s t : zreach s -> zreach (arelease s t).

Theorem zreach_ZI s : zreach s -> ZI N s.
Proof.
  induction 1; [apply (zi_init N Npos)|now apply (zi_step N Npos)|now apply zi_start|now apply zi_release].
Qed.
Lemma zreach_asolo n s t : zreach s -> zreach (asolo N n s t).
Proof. intros H. unfold asolo. induction n as [|n IH]; [exact H|]. cbn [Nat.iter nat_rect]. now apply zr_step. Qed.

(* MAIN (component level) *)
Theorem zreach_slots_conserved s : zreach s -> Conserve N s.
Proof. intros H. exact (z_cons _ _ (zreach_ZI s H)). Qed.

(* what conservation means for a single id: all the places together hold every id of 0..N-1, and no id twice *)
Lemma conserve_nodup s : Conserve N s -> exists ths, NoDup ths /\ (forall t, ~ In t ths -> owned s t = []) /\
  NoDup (inring (A s) ++ inring (B s) ++ flat_map (owned s) ths) /\
  (forall x, 0 <= x < N <-> In x (inring (A s) ++ inring (B s) ++ flat_map (owned s) ths)).
Proof.
  intros C. apply conserve_owned in C. destruct C as (ths & Hn & Ho & Hp). exists ths. split; [exact Hn|]. split; [exact Ho|]. split; [|intros x; split].
  - exact (Permutation_NoDup Hp (ids_upto_nodup N)).
  - intros Hx. apply (Permutation_in _ Hp). now apply ids_upto_in.
  - intros Hx. apply ids_upto_in. apply (Permutation_in _ (Permutation_sym Hp) Hx).
Qed.
Lemma owned_in_ths s ths t : (forall u, ~ In u ths -> owned s u = []) -> owned s t <> [] -> In t ths.
Proof. intros Ho Hne. destruct (in_dec Nat.eq_dec t ths) as [|Hn]; [assumption|]. exfalso. apply Hne, Ho, Hn. Qed.

(* a thread with custody of an id: that id is in neither ring, and nobody else has custody of it *)
Lemma custody_exclusive s t id : Conserve N s -> In id (owned s t) ->
  0 <= id < N /\ ~ In id (inring (A s)) /\ ~ In id (inring (B s)) /\ forall u, In id (owned s u) -> u = t.
Proof.
  intros C Hin. destruct (conserve_nodup s C) as (ths & Hn & Ho & Hd & Hr).
  assert (Ht : In t ths) by (apply (owned_in_ths s ths t Ho); intros E; rewrite E in Hin; destruct Hin).
  assert (Hf : In id (flat_map (owned s) ths)) by (apply in_flat_map; eauto).
  split; [apply Hr; apply in_or_app; right; apply in_or_app; now right|]. split; [|split].
  - intros Ha. apply (nodup_app_disj _ _ id Hd Ha). apply in_or_app. now right.
  - intros Hb. apply nodup_app_r in Hd. exact (nodup_app_disj _ _ id Hd Hb Hf).
  - intros u Hu. assert (Hu' : In u ths) by (apply (owned_in_ths s ths u Ho); intros E; rewrite E in Hu; destruct Hu).
    apply nodup_app_r, nodup_app_r in Hd. exact (nodup_flat_map_owner (owned s) ths u t id Hd Hu' Ht Hu Hin).
Qed.
Lemma custody_room s t id : Conserve N s -> Inv N (A s) -> Inv N (B s) -> In id (owned s t) ->
  (tail (A s) - head (A s)) + (tail (B s) - head (B s)) < N.
Proof.
  intros C Ia Ib Hin. apply conserve_owned in C. destruct C as (ths & Hn & Ho & Hp).
  assert (Ht : In t ths) by (apply (owned_in_ths s ths t Ho); intros E; rewrite E in Hin; destruct Hin).
  assert (Hge : (length [t] <= length (flat_map (owned s) ths))%nat).
  { apply flat_map_length_ge; [repeat constructor; intros []|intros u [<-|[]]; exact Ht|].
    intros u [<-|[]]. destruct (owned s t); [destruct Hin|cbn; lia]. }
  apply Permutation_length in Hp. rewrite !app_length in Hp. unfold ids_upto in Hp. rewrite map_length, seq_length in Hp.
  pose proof (inring_length N _ Ia). pose proof (inring_length N _ Ib). cbn [length] in Hge. lia.
Qed.

(* ---- COROLLARY 1: no leak, exact capacity ---- *)
Theorem no_leak s : zreach s -> (forall t, uthr _ s t = UIdle) -> (forall t, uheld _ s t = None) ->
  (tail (A s) - head (A s)) + (tail (B s) - head (B s)) = N
  /\ calm (A s) /\ calm (B s)                                  (* such a state is calm: nobody is inside a ring operation *)
  /\ Permutation (ids_upto N) (inring (A s) ++ inring (B s)).
Proof.
  intros R Hi Hh. pose proof (zreach_ZI s R) as Z.
  destruct (reach_invcov N Npos _ (z_ra _ _ Z)) as [Ia _]. destruct (reach_invcov N Npos _ (z_rb _ _ Z)) as [Ib _].
  assert (Hp : Permutation (ids_upto N) (inring (A s) ++ inring (B s))).
  { destruct (z_cons _ _ Z) as (ths & Hn & Ho & Hp).
    rewrite (flat_map_nil (heldl s) ths), (flat_map_nil (transl s) ths), !app_nil_r in Hp; [exact Hp| |].
    - intros u. unfold transl. now rewrite Hi.
    - intros u. unfold heldl. now rewrite Hh. }
  split; [|split; [|split]]; [| | |exact Hp].
  - apply Permutation_length in Hp. rewrite !app_length in Hp. unfold ids_upto in Hp. rewrite map_length, seq_length in Hp.
    pose proof (inring_length N _ Ia). pose proof (inring_length N _ Ib). lia.
  - intros u. left. pose proof (z_ph _ _ Z u) as P. unfold phase in P. rewrite Hi in P. apply P.
  - intros u. left. pose proof (z_ph _ _ Z u) as P. unfold phase in P. rewrite Hi in P. apply P.
Qed.

(* ---- COROLLARY 2: the branch ZcUni.v marks unreachable is unreachable; a release never finds the free list full ---- *)
Theorem full_branches_unreachable s : zreach s ->
  (* no publish into either ring is ever on the "full" path (pc P2), reservations included the capacity is respected *)
  (noP2 (A s) /\ noP2 (B s) /\ etail (A s) - head (A s) <= N /\ etail (B s) - head (B s) <= N) /\
  (* a thread about to publish / publishing the id it allocated: the id ring has room, and its next step does not answer "full" *)
  (forall t v id, uthr _ s t = UEnqB v id ->
     tail (B s) - head (B s) < N /\ ~ In id (inring (B s)) /\
     (uthr _ (astep N s t) t = UEnqB v id \/
      exists len, uthr _ (astep N s t) t = UIdle /\ ulog _ (astep N s t) = ulog _ s ++ [(t, ROk v len)])) /\
  (* a thread that holds a handle, or is giving it back: the free list has room *)
  (forall t id, uheld _ s t = Some id \/ uthr _ s t = URel id -> tail (A s) - head (A s) < N /\ ~ In id (inring (A s))).
Proof.
  intros R. pose proof (zreach_ZI s R) as Z.
  destruct (reach_invcov N Npos _ (z_ra _ _ Z)) as [Ia _]. destruct (reach_invcov N Npos _ (z_rb _ _ Z)) as [Ib _].
  pose proof (i_ord _ _ Ia) as Oa. pose proof (i_ord _ _ Ib) as Ob.
  destruct (zi_bounds N Npos s Z) as [Ba Bb]. split; [|split].
  - repeat split; auto; apply Z.
  - intros t v id E.
    assert (Hin : In id (owned s t)) by (unfold owned, transl; rewrite E; apply in_or_app; right; now left).
    pose proof (custody_room s t id (z_cons _ _ Z) Ia Ib Hin) as Hroom.
    destruct (custody_exclusive s t id (z_cons _ _ Z) Hin) as (_ & _ & HnB & _).
    split; [lia|]. split; [exact HnB|].
    pose proof (z_ph _ _ Z t) as P. unfold phase in P. rewrite E in P. cbn [phase_of] in P. destruct P as [P1 P2].
    pose proof (z_2b _ _ Z) as H2b.
    destruct s as [a b p th l h]. cbn [ua ub upool uthr ulog uheld] in *. fold (umk st a b p th l h) in *.
    destruct (ring_pub_step N b t id H2b P2) as [(Hi & (len & Hl) & Hp & Hh)|(Hc & Hp & Hh)].
    + right. exists len. rewrite (a_enqB_ok N a b p th l h t v id _ _ E Hi (lastres_snoc _ _ _ _ Hl)).
      cbn [ua ub upool uthr ulog uheld umk]. now rewrite upd_same.
    + left. rewrite (a_enqB_busy N a b p th l h t v id E (pval_busy _ _ Hc)). exact E.
  - intros t id H.
    assert (Hin : In id (owned s t)).
    { unfold owned, heldl, transl. apply in_or_app. destruct H as [H|H]; rewrite H; [left|right]; now left. }
    pose proof (custody_room s t id (z_cons _ _ Z) Ia Ib Hin) as Hroom.
    destruct (custody_exclusive s t id (z_cons _ _ Z) Hin) as (_ & HnA & _ & _).
    split; [lia|exact HnA].
Qed.

(* ---- COROLLARY 3: exclusive ownership ---- *)
Theorem exclusive_ownership s : zreach s ->
  (forall t u id, uheld _ s t = Some id -> uheld _ s u = Some id -> t = u) /\
  (forall t id, uheld _ s t = Some id ->
     0 <= id < N /\ ~ In id (inring (A s)) /\ ~ In id (inring (B s)) /\
     (* ... nor is it the id any composite operation (of this or another thread) carries *)
     forall u, ~ In id (transl s u)).
Proof.
  intros R. pose proof (z_cons _ _ (zreach_ZI s R)) as C.
  assert (Hown : forall t id, uheld _ s t = Some id -> In id (owned s t)).
  { intros t id H. unfold owned, heldl. rewrite H. now left. }
  split.
  - intros t u id Ht Hu. destruct (custody_exclusive s u id C (Hown u id Hu)) as (_ & _ & _ & Huniq). apply Huniq, Hown, Ht.
  - intros t id Ht. destruct (custody_exclusive s t id C (Hown t id Ht)) as (Hr & Ha & Hb & Huniq).
    split; [exact Hr|]. split; [exact Ha|]. split; [exact Hb|]. intros u Hu.
    destruct (conserve_nodup s C) as (ths & Hn & Ho & Hd & _).
    assert (Hu' : In id (owned s u)) by (unfold owned; apply in_or_app; now right).
    pose proof (Huniq u Hu') as ->.
    (* same thread: held and in transit at once would be a duplicate inside owned s t *)
    assert (Htin : In t ths) by (apply (owned_in_ths s ths t Ho); intros E; rewrite E in Hu'; destruct Hu').
    apply nodup_app_r, nodup_app_r in Hd. destruct (in_split _ _ Htin) as (l1 & l2 & ->).
    rewrite flat_map_app in Hd. apply nodup_app_r in Hd. cbn [flat_map] in Hd. apply nodup_app_l in Hd.
    unfold owned in Hd. apply (nodup_app_disj _ _ id Hd); [unfold heldl; rewrite Ht; now left|exact Hu].
Qed.
End Results.

(* ------------------------------------------------------------------------------------------------ every channel run *)
Section ChannelRuns.
Variable N : Z.
Hypothesis Npos : 0 < N.
Variable M k : nat.
Variable wake_rule : Z -> option nat.
Local Notation run cevs := (q _ (zc_run N M k wake_rule cevs)).

Theorem zc_atomic_run_states_reachable cevs :
  zreach N (run cevs) /\ (forall t, uheld _ (run cevs) t = None) /\
  (forall t, uthr _ (run cevs) t = UDeqB -> is_poll (cthr _ (zc_run N M k wake_rule cevs) t)).
Proof.
  unfold zc_run.
  apply (zc_guarded_invariant st (stepZ N) start ring_idle0 log true (fun _ => 0) M k wake_rule (zreach N)
           (zr_step N) (zr_start N) (zr_release N) (zc_q0 N) cevs (zr_init N)).
  - intros t. reflexivity.
  - intros t. cbn. discriminate.
Qed.
End ChannelRuns.

(* MAIN THEOREM *)
Theorem zc_atomic_slots_conserved : forall N, 0 < N -> forall M k wr cevs, Conserve N (q _ (zc_run N M k wr cevs)).
Proof.
  intros N Npos M k wr cevs. apply (zreach_slots_conserved N Npos). apply zc_atomic_run_states_reachable.
Qed.

(* COROLLARIES, for every state of every channel run *)
Theorem zc_atomic_no_leak : forall N, 0 < N -> forall M k wr cevs, let s := q _ (zc_run N M k wr cevs) in
  (forall t, uthr _ s t = UIdle) ->
  (tail (ua _ s) - head (ua _ s)) + (tail (ub _ s) - head (ub _ s)) = N
  /\ calm (ua _ s) /\ calm (ub _ s) /\ Permutation (ids_upto N) (inring (ua _ s) ++ inring (ub _ s)).
Proof.
  intros N Npos M k wr cevs s Hi. destruct (zc_atomic_run_states_reachable N M k wr cevs) as (R & Hh & _).
  exact (no_leak N Npos s R Hi Hh).
Qed.

Theorem zc_atomic_full_branches_unreachable : forall N, 0 < N -> forall M k wr cevs, let s := q _ (zc_run N M k wr cevs) in
  (noP2 (ua _ s) /\ noP2 (ub _ s) /\ etail (ua _ s) - head (ua _ s) <= N /\ etail (ub _ s) - head (ub _ s) <= N) /\
  (forall t v id, uthr _ s t = UEnqB v id ->
     tail (ub _ s) - head (ub _ s) < N /\ ~ In id (inring (ub _ s)) /\
     (uthr _ (astep N s t) t = UEnqB v id \/
      exists len, uthr _ (astep N s t) t = UIdle /\ ulog _ (astep N s t) = ulog _ s ++ [(t, ROk v len)])) /\
  (forall t id, uheld _ s t = Some id \/ uthr _ s t = URel id -> tail (ua _ s) - head (ua _ s) < N /\ ~ In id (inring (ua _ s))).
Proof.
  intros N Npos M k wr cevs s. destruct (zc_atomic_run_states_reachable N M k wr cevs) as (R & _ & _).
  exact (full_branches_unreachable N Npos s R).
Qed.

Theorem zc_atomic_exclusive_ownership : forall N, 0 < N -> forall M k wr cevs, let s := q _ (zc_run N M k wr cevs) in
  (forall t u id, uheld _ s t = Some id -> uheld _ s u = Some id -> t = u) /\
  (forall t id, uheld _ s t = Some id ->
     0 <= id < N /\ ~ In id (inring (ua _ s)) /\ ~ In id (inring (ub _ s)) /\ forall u, ~ In id (transl s u)).
Proof.
  intros N Npos M k wr cevs s. destruct (zc_atomic_run_states_reachable N M k wr cevs) as (R & _ & _).
  exact (exclusive_ownership N Npos s R).
Qed.

(* ------------------------------------------------------------------------------------------------ non-vacuity
   N = 4.  Thread 1 sends 70 and 80 (slots 0 and 1), thread 2 consumes (it now HOLDS slot 0), thread 1 begins a third send and is
   suspended after the allocation (slot 2 allocated, its publication entered and not begun: pc UEnqB 90 2). *)
Definition ex_s : ust st :=
  let s0 := zc_q0 4 in
  let s1 := asolo 4 8 (astart s0 1%nat (OpPub 70)) 1%nat in
  let s2 := asolo 4 8 (astart s1 1%nat (OpPub 80)) 1%nat in
  let s3 := asolo 4 4 (astart s2 2%nat OpCons) 2%nat in
  asolo 4 4 (astart s3 1%nat (OpPub 90)) 1%nat.

Example ex_reachable : zreach 4 ex_s.
Proof.
  unfold ex_s. cbv zeta.
  apply zreach_asolo, zr_start; [apply zreach_asolo, zr_start; [apply zreach_asolo, zr_start; [apply zreach_asolo, zr_start;
    [apply zr_init|]|]|]|]; vm_compute; reflexivity.
Qed.

Example ex_four_collections :
  inring (ua _ ex_s) = [3] /\                      (* free list *)
  inring (ub _ ex_s) = [1] /\                      (* id ring: the event 80 *)
  heldl ex_s 2%nat = [0] /\                        (* thread 2 holds the handle of slot 0 ... *)
  upool _ ex_s 0 = 70 /\                           (* ... whose payload is 70 *)
  uthr _ ex_s 1%nat = UEnqB 90 2 /\                (* thread 1: slot 2 in transit *)
  transl ex_s 1%nat = [2] /\
  tail (ua _ ex_s) - head (ua _ ex_s) = 1 /\ tail (ub _ ex_s) - head (ub _ ex_s) = 1.
Proof. vm_compute. repeat split; reflexivity. Qed.

Example ex_conserved :
  Permutation (ids_upto 4)
    (inring (ua _ ex_s) ++ inring (ub _ ex_s) ++ flat_map (heldl ex_s) [1%nat; 2%nat] ++ flat_map (transl ex_s) [1%nat; 2%nat]).
Proof.
  vm_compute.                                      (* Permutation [0; 1; 2; 3] [3; 1; 0; 2] *)
  apply (proj2 (Permutation_count_occ Z.eq_dec _ _)); intro z; cbn [count_occ]; repeat destruct (Z.eq_dec _ _); lia.
Qed.
(* ... and that is the witness of `Conserve 4 ex_s` with ths = [1; 2] *)
Example ex_Conserve : Conserve 4 ex_s.
Proof.
  exists [1%nat; 2%nat]. split; [repeat constructor; cbn; intuition congruence|]. split; [|exact ex_conserved].
  intros t Ht. destruct t as [|[|[|t]]]; [vm_compute; auto|exfalso; apply Ht; cbn; auto|exfalso; apply Ht; cbn; auto|vm_compute; auto].
Qed.

(* Why the guard on `ustart`: the model gives a thread ONE handle register.  If thread 2, still holding slot 0, begins another consume
   (component-level move only - ChanZ.v never does it), the completion overwrites the register: slot 0 is then in none of the four
   places.  (A limitation of the model's bookkeeping, not of the implementation, where each OgreUnique is its own handle.) *)
Example ex_unguarded_consume_loses_the_held_slot :
  let s' := asolo 4 4 (astart ex_s 2%nat OpCons) 2%nat in
  inring (ua _ s') = [3] /\ inring (ub _ s') = [] /\ heldl s' 2%nat = [1] /\ heldl s' 1%nat = [] /\
  transl s' 1%nat = [2] /\ transl s' 2%nat = [].
Proof. vm_compute. repeat split; reflexivity. Qed.

Print Assumptions zc_atomic_slots_conserved.
Print Assumptions zc_atomic_no_leak.
Print Assumptions zc_atomic_full_branches_unreachable.
Print Assumptions zc_atomic_exclusive_ownership.
Print Assumptions zreach_slots_conserved.
Print Assumptions no_leak.
Print Assumptions full_branches_unreachable.
Print Assumptions exclusive_ownership.
Print Assumptions ex_Conserve.
