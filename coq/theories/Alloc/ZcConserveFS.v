(* SLOT CONSERVATION for the zero-copy FULL-SYNC Uni channel (Alloc/ZcUni.v over two full-sync rings: Alloc/ZcSolo.v, Chan/ChanZInst.v
   Section ZcFullSync): in every state of every channel run each of the N slot ids 0..N-1 is in exactly one place - in the free list A,
   in the id ring B, held by a consumer, or in transit inside a composite operation.
   Cut points.  Unlike the lock-free ring (ZcConserve.v), the full-sync ring does NOT finish an operation in the step that moves the
   counters: a publish appends to `fpublished` and bumps `ftail` in its FPL step (the successful flag CAS + the plain code under the
   flag) and only its NEXT step (FPU: the flag store) returns, a consume bumps `fhead` in its FCL step and returns in its FCU step; the
   composite (ZcUni.ustep) moves its own pc only when the component operation has returned.  So with "in ring X" := positions
   fhead X <= i < ftail X of `fpublished X`, custody "in transit" depends on the pair (composite pc, pc inside the component):
     UEnqA v    / A at FCL            nothing               (allocation not yet performed)
     UEnqA v    / A at FCU (Some id)  id                    (taken out of A, the composite has not yet moved to UEnqB v id)
     UEnqA v    / A at FCU None       nothing               (no free slot: the send will answer "full")
     UEnqB v id / B at FPL id         id                    (allocated, not yet in B)
     UEnqB v id / B at FPU id (Some _) nothing              (already in B, the publish has not yet returned)
     UEnqB v id / B at FPU id None    id                    (unreachable - `noFull`)
     UDeqB      / B at FCL            nothing
     UDeqB      / B at FCU (Some id)  id                    (taken out of B, not yet in the handle register `uheld`)
     UDeqB      / B at FCU None       nothing
     URel id    / A at FPL id         id                    (handle dropped, id not yet back in A)
     URel id    / A at FPU id (Some _) nothing              (already back in A)
     URel id    / A at FPU id None    id                    (unreachable - `noFull`)
     UIdle, ULenB                     nothing               (the length is a plain read on this kind) *)
From Coq Require Import Permutation.
From RM Require Import RingModel FullSync Chan ZeroCopy PoolRun ZcUni ChanZ ChanZProps ZcSolo ZcView ChanZInst ZcConserve.
Import ZC.

Ltac perm_count :=
  apply (proj2 (Permutation_count_occ Z.eq_dec _ _)); let z := fresh "z" in intro z;
  repeat match goal with H : Permutation _ _ |- _ => let H' := fresh in pose proof (proj1 (Permutation_count_occ Z.eq_dec _ _) H z) as H'; clear H end;
  rewrite ?count_occ_app in *; cbn [count_occ] in *; repeat destruct (Z.eq_dec _ _); try lia.

(* ------------------------------------------------------------------------------------------------ custody, on lists
   (the part of ZcConserve.v's argument that does not mention the ring machine: ra / rb the contents of the two rings, hl / tl the
   ids each thread holds / carries) *)
Section Custody.
Variable N : Z.

Definition ConsL (ra rb : list Z) (hl tl : nat -> list Z) : Prop :=
  exists ths, NoDup ths /\ (forall t, ~ In t ths -> hl t = [] /\ tl t = []) /\
    Permutation (ids_upto N) (ra ++ rb ++ flat_map hl ths ++ flat_map tl ths).

Lemma consL_owned ra rb hl tl :
  ConsL ra rb hl tl <-> exists ths, NoDup ths /\ (forall t, ~ In t ths -> hl t ++ tl t = []) /\
                   Permutation (ids_upto N) (ra ++ rb ++ flat_map (fun t => hl t ++ tl t) ths).
Proof.
  split; intros (ths & Hn & Ho & Hp); exists ths; (split; [exact Hn|]); split.
  - intros t Ht. destruct (Ho t Ht) as [H1 H2]. now rewrite H1, H2.
  - rewrite Hp. do 2 apply Permutation_app_head. symmetry. apply flat_map_app_perm.
  - intros t Ht. apply app_eq_nil. exact (Ho t Ht).
  - rewrite Hp. do 2 apply Permutation_app_head. apply flat_map_app_perm.
Qed.

(* a move that only changes the custody of one thread, and keeps the union of that custody with the two rings *)
Lemma consL_move ra rb hl tl ra' rb' hl' tl' t : ConsL ra rb hl tl ->
  (forall u, u <> t -> hl' u = hl u /\ tl' u = tl u) ->
  Permutation (ra ++ rb ++ hl t ++ tl t) (ra' ++ rb' ++ hl' t ++ tl' t) ->
  ConsL ra' rb' hl' tl'.
Proof.
  intros C Ho Hp. apply consL_owned in C. apply consL_owned. destruct C as (ths & Hn & Hout & Hperm).
  set (f := fun t => hl t ++ tl t) in *. set (f' := fun t => hl' t ++ tl' t).
  change (forall t, ~ In t ths -> f t = []) in Hout.
  assert (Ho' : forall u, u <> t -> f' u = f u) by (intros u Hu; unfold f, f'; destruct (Ho u Hu) as [-> ->]; reflexivity).
  assert (G : exists ths, NoDup ths /\ In t ths /\ (forall u, ~ In u ths -> f u = []) /\
                Permutation (ids_upto N) (ra ++ rb ++ flat_map f ths)).
  { destruct (in_dec Nat.eq_dec t ths) as [Hin|Hnin]; [exists ths; auto|].
    exists (t :: ths). split; [now constructor|]. split; [now left|]. split.
    - intros u Hu. apply Hout. intros Hin. apply Hu. now right.
    - cbn [flat_map]. rewrite (Hout t Hnin). exact Hperm. }
  clear ths Hn Hout Hperm. destruct G as (ths & Hn & Hin & Hout & Hperm).
  exists ths. split; [exact Hn|]. split.
  - intros u Hu. change (f' u = []). rewrite Ho'; [now apply Hout|]. intros ->. contradiction.
  - change (Permutation (ids_upto N) (ra' ++ rb' ++ flat_map f' ths)). destruct (flat_map_change f f' ths t Hn Hin Ho') as (R & H1 & H2).
    rewrite H2. rewrite H1 in Hperm. unfold f, f' in *. perm_count.
Qed.

Lemma consL_nodup ra rb hl tl : ConsL ra rb hl tl -> exists ths, NoDup ths /\ (forall t, ~ In t ths -> hl t ++ tl t = []) /\
  NoDup (ra ++ rb ++ flat_map (fun t => hl t ++ tl t) ths) /\
  (forall x, 0 <= x < N <-> In x (ra ++ rb ++ flat_map (fun t => hl t ++ tl t) ths)).
Proof.
  intros C. apply consL_owned in C. destruct C as (ths & Hn & Ho & Hp). exists ths. split; [exact Hn|]. split; [exact Ho|]. split; [|intros x; split].
  - exact (Permutation_NoDup Hp (ids_upto_nodup N)).
  - intros Hx. apply (Permutation_in _ Hp). now apply ids_upto_in.
  - intros Hx. apply ids_upto_in. apply (Permutation_in _ (Permutation_sym Hp) Hx).
Qed.
Lemma in_ths (f : nat -> list Z) ths t : (forall u, ~ In u ths -> f u = []) -> f t <> [] -> In t ths.
Proof. intros Ho Hne. destruct (in_dec Nat.eq_dec t ths) as [|Hn]; [assumption|]. exfalso. apply Hne, Ho, Hn. Qed.

(* a thread with custody of an id: that id is in neither ring, and nobody else has custody of it *)
Lemma consL_exclusive ra rb hl tl t id : ConsL ra rb hl tl -> In id (hl t ++ tl t) ->
  0 <= id < N /\ ~ In id ra /\ ~ In id rb /\ forall u, In id (hl u ++ tl u) -> u = t.
Proof.
  intros C Hin. destruct (consL_nodup _ _ _ _ C) as (ths & Hn & Ho & Hd & Hr).
  set (f := fun t => hl t ++ tl t) in *. change (forall t, ~ In t ths -> f t = []) in Ho.
  assert (Ht : In t ths) by (apply (in_ths f ths t Ho); unfold f; intros E; rewrite E in Hin; destruct Hin).
  assert (Hf : In id (flat_map f ths)) by (apply in_flat_map; eauto).
  split; [apply Hr; apply in_or_app; right; apply in_or_app; now right|]. split; [|split].
  - intros Ha. apply (nodup_app_disj _ _ id Hd Ha). apply in_or_app. now right.
  - intros Hb. apply nodup_app_r in Hd. exact (nodup_app_disj _ _ id Hd Hb Hf).
  - intros u Hu. assert (Hu' : In u ths) by (apply (in_ths f ths u Ho); unfold f; intros E; rewrite E in Hu; destruct Hu).
    apply nodup_app_r, nodup_app_r in Hd. exact (nodup_flat_map_owner f ths u t id Hd Hu' Ht Hu Hin).
Qed.
(* ... and then the two rings together hold fewer than N ids *)
Lemma consL_room ra rb hl tl t id : ConsL ra rb hl tl -> In id (hl t ++ tl t) ->
  Z.of_nat (length ra) + Z.of_nat (length rb) < N.
Proof.
  intros C Hin. apply consL_owned in C. destruct C as (ths & Hn & Ho & Hp).
  set (f := fun t => hl t ++ tl t) in *. change (forall t, ~ In t ths -> f t = []) in Ho.
  assert (Ht : In t ths) by (apply (in_ths f ths t Ho); unfold f; intros E; rewrite E in Hin; destruct Hin).
  assert (Hge : (length [t] <= length (flat_map f ths))%nat).
  { apply flat_map_length_ge; [repeat constructor; intros []|intros u [<-|[]]; exact Ht|].
    intros u [<-|[]]. unfold f. destruct (hl t ++ tl t); [destruct Hin|cbn; lia]. }
  apply Permutation_length in Hp. rewrite !app_length in Hp. unfold ids_upto in Hp. rewrite map_length, seq_length in Hp.
  cbn [length] in Hge. lia.
Qed.
(* the same thread never both holds an id and carries it *)
Lemma consL_held_not_carried ra rb hl tl t id : ConsL ra rb hl tl -> In id (hl t) -> forall u, ~ In id (tl u).
Proof.
  intros C Ht u Hu.
  assert (Hown : In id (hl t ++ tl t)) by (apply in_or_app; now left).
  destruct (consL_exclusive _ _ _ _ t id C Hown) as (_ & _ & _ & Huniq).
  assert (Hu' : In id (hl u ++ tl u)) by (apply in_or_app; now right).
  pose proof (Huniq u Hu') as ->.
  destruct (consL_nodup _ _ _ _ C) as (ths & Hn & Ho & Hd & _).
  set (f := fun t => hl t ++ tl t) in *. change (forall t, ~ In t ths -> f t = []) in Ho.
  assert (Htin : In t ths) by (apply (in_ths f ths t Ho); unfold f; intros E; rewrite E in Hu'; destruct Hu').
  apply nodup_app_r, nodup_app_r in Hd. destruct (in_split _ _ Htin) as (l1 & l2 & ->).
  rewrite flat_map_app in Hd. apply nodup_app_r in Hd. cbn [flat_map] in Hd. apply nodup_app_l in Hd.
  unfold f in Hd. exact (nodup_app_disj _ _ id Hd Ht Hu).
Qed.
Lemma consL_total ra rb hl tl : ConsL ra rb hl tl -> (forall t, hl t = []) -> (forall t, tl t = []) ->
  Permutation (ids_upto N) (ra ++ rb) /\ (0 <= N -> Z.of_nat (length ra) + Z.of_nat (length rb) = N).
Proof.
  intros (ths & Hn & Ho & Hp) Hh Ht.
  rewrite (flat_map_nil hl ths Hh), (flat_map_nil tl ths Ht), !app_nil_r in Hp. split; [exact Hp|].
  intros HN. apply Permutation_length in Hp. rewrite !app_length in Hp. unfold ids_upto in Hp. rewrite map_length, seq_length in Hp. lia.
Qed.
End Custody.

(* ------------------------------------------------------------------------------------------------ ring-level facts *)
(* the contents of a full-sync ring: the published values at positions fhead <= i < ftail *)
Definition finring (x : fsst) : list Z := skipn (Z.to_nat (fhead x)) (fpublished x).
(* the value a publish in progress carries *)
Definition fpval (p : fpc) : option Z := match p with FPL v | FPU v _ => Some v | _ => None end.
Definition is_fcons (p : fpc) : bool := match p with FCL | FCU _ => true | _ => false end.
(* nobody stands at the flag store of a publish that saw the ring full *)
Definition noFull (x : fsst) : Prop := forall t v, fthr x t <> FPU v None.

Section FsFacts.
Variable N : Z.
Hypothesis Npos : 0 < N.
Local Notation fstp := (fstepZ N).

Lemma finring_length x : FInv N x -> Z.of_nat (length (finring x)) = ftail x - fhead x.
Proof.
  intros I. unfold finring. rewrite skipn_length. pose proof (f_ord _ _ I). pose proof (f_lenp _ _ I). lia.
Qed.
Lemma finring_same x x' : fpublished x' = fpublished x -> fhead x' = fhead x -> finring x' = finring x.
Proof. unfold finring. now intros -> ->. Qed.
Lemma finring_pub x x' v : FInv N x -> fpublished x' = fpublished x ++ [v] -> fhead x' = fhead x -> finring x' = finring x ++ [v].
Proof.
  intros I Hp Hh. unfold finring. rewrite Hp, Hh. apply skipn_snoc. pose proof (f_ord _ _ I). pose proof (f_lenp _ _ I). lia.
Qed.
Lemma finring_cons x x' : FInv N x -> fpublished x' = fpublished x -> fhead x' = fhead x + 1 -> fhead x < ftail x ->
  finring x = nthz (fpublished x) (fhead x) :: finring x'.
Proof.
  intros I Hp Hh Hlt. unfold finring, nthz. rewrite Hp, Hh. pose proof (f_ord _ _ I). pose proof (f_lenp _ _ I).
  replace (Z.to_nat (fhead x + 1)) with (S (Z.to_nat (fhead x))) by lia. apply skipn_nth_cons. lia.
Qed.

Ltac fs := cbn [fhead ftail flock fbuf fthr fpublished fdelivered flog fset].

(* the six kinds of step of the full-sync ring (FullSync.fstep), as rewriting facts *)
Lemma fstep_PL_locked x t v : fthr x t = FPL v -> flock x = true -> fstp x t = x.
Proof. intros E El. unfold fstepZ, fstep. now rewrite E, El. Qed.
Lemma fstep_CL_locked x t : fthr x t = FCL -> flock x = true -> fstp x t = x.
Proof. intros E El. unfold fstepZ, fstep. now rewrite E, El. Qed.
(* the publish happens HERE: under the flag, fpublished and ftail move; the operation has not returned *)
Lemma fstep_PL_ok x t v : fthr x t = FPL v -> flock x = false -> ftail x - fhead x < N ->
  fthr (fstp x t) = upd (fthr x) t (FPU v (Some (ftail x - fhead x + 1))) /\
  fpublished (fstp x t) = fpublished x ++ [v] /\ fhead (fstp x t) = fhead x /\ flog (fstp x t) = flog x.
Proof.
  intros E El Hlt. unfold fstepZ, fstep, idz. rewrite E, El. destruct (Z.ltb_spec (ftail x - fhead x) N); [|lia]. fs. auto.
Qed.
Lemma fstep_PL_full x t v : fthr x t = FPL v -> flock x = false -> N <= ftail x - fhead x ->
  fthr (fstp x t) = upd (fthr x) t (FPU v None).
Proof.
  intros E El Hge. unfold fstepZ, fstep, idz. rewrite E, El. destruct (Z.ltb_spec (ftail x - fhead x) N); [lia|]. reflexivity.
Qed.
Lemma fstep_PU x t v r : fthr x t = FPU v r ->
  fthr (fstp x t) = upd (fthr x) t FIdle /\ fpublished (fstp x t) = fpublished x /\ fhead (fstp x t) = fhead x /\
  flog (fstp x t) = flog x ++ [(t, pub_res v r)] /\ flock (fstp x t) = false.
Proof. intros E. unfold fstepZ, fstep. rewrite E. fs. auto. Qed.
(* the consume happens HERE: fhead moves; the value is the one at position fhead of fpublished *)
Lemma fstep_CL_got x t : FInv N x -> fthr x t = FCL -> flock x = false -> 0 < ftail x - fhead x ->
  fthr (fstp x t) = upd (fthr x) t (FCU (Some (nthz (fpublished x) (fhead x)))) /\
  fpublished (fstp x t) = fpublished x /\ fhead (fstp x t) = fhead x + 1 /\ flog (fstp x t) = flog x.
Proof.
  intros I E El Hlt. unfold fstepZ, fstep, idz. rewrite E, El. destruct (Z.ltb_spec 0 (ftail x - fhead x)); [|lia]. fs.
  rewrite (f_buf _ _ I (fhead x)) by lia. auto.
Qed.
Lemma fstep_CL_empty x t : fthr x t = FCL -> flock x = false -> ftail x - fhead x <= 0 ->
  fthr (fstp x t) = upd (fthr x) t (FCU None) /\
  fpublished (fstp x t) = fpublished x /\ fhead (fstp x t) = fhead x /\ flog (fstp x t) = flog x.
Proof.
  intros E El Hle. unfold fstepZ, fstep, idz. rewrite E, El. destruct (Z.ltb_spec 0 (ftail x - fhead x)); [lia|]. fs. auto.
Qed.
Lemma fstep_CU x t r : fthr x t = FCU r ->
  fthr (fstp x t) = upd (fthr x) t FIdle /\ fpublished (fstp x t) = fpublished x /\ fhead (fstp x t) = fhead x /\
  flog (fstp x t) = flog x ++ [(t, cons_res r)] /\ flock (fstp x t) = false.
Proof. intros E. unfold fstepZ, fstep. rewrite E. fs. auto. Qed.

(* the "full" answer is never prepared as long as a thread standing at FPL finds room *)
Lemma noFull_step x t : (forall v, fthr x t = FPL v -> flock x = false -> ftail x - fhead x < N) -> noFull x -> noFull (fstp x t).
Proof.
  intros Hb H2 u w E'. destruct (Nat.eq_dec u t) as [->|Hn]; [|rewrite (fstp_other N) in E' by assumption; exact (H2 _ _ E')].
  destruct (fthr x t) eqn:E.
  - rewrite (fstp_idle_noop N x t E) in E'. congruence.
  - destruct (flock x) eqn:El; [rewrite (fstep_PL_locked x t v E El) in E'; congruence|].
    destruct (fstep_PL_ok x t v E El (Hb v eq_refl eq_refl)) as (Ht & _). rewrite Ht, upd_same in E'. discriminate.
  - destruct (fstep_PU x t v r E) as (Ht & _). rewrite Ht, upd_same in E'. discriminate.
  - revert E'. unfold fstepZ, fstep, idz. rewrite E. destruct (flock x); [congruence|].
    destruct (0 <? ftail x - fhead x); fs; rewrite upd_same; discriminate.
  - destruct (fstep_CU x t r E) as (Ht & _). rewrite Ht, upd_same in E'. discriminate.
  - revert E'. unfold fstepZ, fstep, idz. rewrite E. fs. rewrite upd_same. discriminate.
Qed.
Lemma noFull_start x t o : noFull x -> noFull (fstart x t o).
Proof.
  intros H2 u w. unfold fstart. destruct (fthr x t) eqn:E; try apply H2. fs.
  destruct (Nat.eq_dec u t) as [->|Hn]; [rewrite upd_same; destruct o; discriminate|rewrite upd_other by assumption; apply H2].
Qed.
Lemma fstart_frame x t o : fpublished (fstart x t o) = fpublished x /\ fhead (fstart x t o) = fhead x.
Proof. unfold fstart. destruct (fthr x t); auto. Qed.
Lemma fstart_idle x t o : fthr x t = FIdle ->
  fthr (fstart x t o) t = match o with OpPub v => FPL v | OpCons => FCL | OpLen => FLN end.
Proof. intros E. unfold fstart. rewrite E. fs. now rewrite upd_same. Qed.
End FsFacts.

(* ------------------------------------------------------------------------------------------------ the composite *)
Section ConserveFS.
Variable N : Z.
Hypothesis Npos : 0 < N.
Local Notation ust := (ust fsst).
Local Notation fstp := (fstepZ N).
Local Notation zstep := (ZcSolo.zstep N).
Local Notation lastres := (lastres fsst flog).

(* the ids a thread has custody of: the handle it holds, and the id its composite operation carries between the two rings -
   by the composite's pc AND the pc inside the component (see the table at the top) *)
Definition fheldl (s : ust) (t : nat) : list Z := match uheld _ s t with Some id => [id] | None => [] end.
Definition ftransl (s : ust) (t : nat) : list Z :=
  match uthr _ s t with
  | UEnqA _ => match fthr (ua _ s) t with FCU (Some id) => [id] | _ => [] end
  | UEnqB _ id => match fthr (ub _ s) t with FPU _ (Some _) => [] | _ => [id] end
  | UDeqB => match fthr (ub _ s) t with FCU (Some id) => [id] | _ => [] end
  | URel id => match fthr (ua _ s) t with FPU _ (Some _) => [] | _ => [id] end
  | UIdle | ULenB => []
  end.
Definition fowned (s : ust) (t : nat) : list Z := fheldl s t ++ ftransl s t.

(* SLOT CONSERVATION: free list ++ id ring ++ held ++ in transit is a permutation of 0..N-1
   (`ths`: any duplicate-free list of threads that contains every thread with custody of something) *)
Definition ConserveFS (s : ust) : Prop :=
  exists ths, NoDup ths /\ (forall t, ~ In t ths -> fheldl s t = [] /\ ftransl s t = []) /\
    Permutation (ids_upto N)
                (finring (ua _ s) ++ finring (ub _ s) ++ flat_map (fheldl s) ths ++ flat_map (ftransl s) ths).

Lemma conserveFS_consL s : ConserveFS s <-> ConsL N (finring (ua _ s)) (finring (ub _ s)) (fheldl s) (ftransl s).
Proof. reflexivity. Qed.

(* which component a composite thread is inside, and doing what *)
Definition fphase_of (c : upc) (pa pb : fpc) : Prop :=
  match c with
  | UIdle | ULenB => pa = FIdle /\ pb = FIdle
  | UEnqA _ => is_fcons pa = true /\ pb = FIdle
  | UEnqB _ id => pa = FIdle /\ fpval pb = Some id
  | UDeqB => pa = FIdle /\ is_fcons pb = true
  | URel id => fpval pa = Some id /\ pb = FIdle
  end.
Definition fphase (s : ust) (t : nat) : Prop := fphase_of (uthr _ s t) (fthr (ua _ s) t) (fthr (ub _ s) t).

(* the invariant carried through every state *)
Record ZIF (s : ust) : Prop := {
  zf_ia  : FInv N (ua _ s);
  zf_ib  : FInv N (ub _ s);
  zf_ph  : forall t, fphase s t;
  zf_2a  : noFull (ua _ s);                                   (* no publish into either ring has seen it full *)
  zf_2b  : noFull (ub _ s);
  zf_now : forall t, uthr _ s t = UDeqB -> uheld _ s t = None; (* a consume is only begun by a thread that holds no handle *)
  zf_cons : ConserveFS s
}.

(* a thread about to try the flag of a publish: the ring it publishes into has room (it still has custody of the id) *)
Lemma zif_room s t : ZIF s ->
  (forall v, fthr (ua _ s) t = FPL v -> ftail (ua _ s) - fhead (ua _ s) < N) /\
  (forall v, fthr (ub _ s) t = FPL v -> ftail (ub _ s) - fhead (ub _ s) < N).
Proof.
  intros Z. pose proof (zf_ph _ Z t) as P. unfold fphase in P.
  pose proof (finring_length N _ (zf_ia _ Z)) as La. pose proof (finring_length N _ (zf_ib _ Z)) as Lb.
  pose proof (f_ord _ _ (zf_ia _ Z)) as Oa. pose proof (f_ord _ _ (zf_ib _ Z)) as Ob.
  split; intros v Ev.
  - assert (Hin : In v (fheldl s t ++ ftransl s t)).
    { apply in_or_app; right. unfold ftransl. rewrite Ev in *.
      destruct (uthr _ s t); cbn in P; destruct P as [P1 P2]; try discriminate. injection P1 as ->. now left. }
    pose proof (consL_room N _ _ _ _ t v (zf_cons _ Z) Hin). lia.
  - assert (Hin : In v (fheldl s t ++ ftransl s t)).
    { apply in_or_app; right. unfold ftransl. rewrite Ev in *.
      destruct (uthr _ s t); cbn in P; destruct P as [P1 P2]; try discriminate. injection P2 as ->. now left. }
    pose proof (consL_room N _ _ _ _ t v (zf_cons _ Z) Hin). lia.
Qed.

(* re-establishing the invariant after a move of thread t *)
Lemma zif_update s a' b' p' th' l' h' t : ZIF s ->
  FInv N a' -> FInv N b' -> noFull a' -> noFull b' ->
  (forall u, u <> t -> fthr a' u = fthr (ua _ s) u /\ fthr b' u = fthr (ub _ s) u /\ th' u = uthr _ s u /\ h' u = uheld _ s u) ->
  fphase_of (th' t) (fthr a' t) (fthr b' t) ->
  (th' t = UDeqB -> h' t = None) ->
  Permutation (finring (ua _ s) ++ finring (ub _ s) ++ fowned s t) (finring a' ++ finring b' ++ fowned (umk fsst a' b' p' th' l' h') t) ->
  ZIF (umk fsst a' b' p' th' l' h').
Proof.
  intros Z Ia Ib H2a H2b Ho Hph Hnow Hperm. constructor; cbn [ua ub uthr uheld umk]; auto.
  - intros u. unfold fphase. cbn [ua ub uthr uheld umk]. destruct (Nat.eq_dec u t) as [->|Hn]; [exact Hph|].
    destruct (Ho u Hn) as (-> & -> & -> & _). apply (zf_ph _ Z u).
  - intros u. destruct (Nat.eq_dec u t) as [->|Hn]; [exact Hnow|].
    destruct (Ho u Hn) as (_ & _ & -> & ->). apply (zf_now _ Z u).
  - apply conserveFS_consL. apply (consL_move N _ _ _ _ _ _ _ _ t (zf_cons _ Z)); [|exact Hperm].
    intros u Hn. unfold fheldl, ftransl. cbn [ua ub uthr uheld umk]. destruct (Ho u Hn) as (-> & -> & -> & ->). split; reflexivity.
Qed.

Lemma fsidle_false x t : fthr x t <> FIdle -> fsidle x t = false.
Proof. unfold fsidle. destruct (fthr x t); congruence. Qed.
Lemma fsidle_true' x t : fthr x t = FIdle -> fsidle x t = true.
Proof. unfold fsidle. now intros ->. Qed.

(* one composite step, on an explicit state, by the composite's pc and by what the component's step did *)
Ltac zstep_open E := unfold ZcSolo.zstep, ustep; cbn [ua ub upool uthr ulog uheld umk]; rewrite E; cbn [ua ub upool uthr ulog uheld umk].

Lemma z_enqA_busy a b p th l h t v : th t = UEnqA v -> fthr (fstp a t) t <> FIdle ->
  zstep (umk fsst a b p th l h) t = umk fsst (fstp a t) b p th l h.
Proof. intros E Hb. zstep_open E. rewrite (fsidle_false _ _ Hb). reflexivity. Qed.
Lemma z_enqA_got a b p th l h t v id : th t = UEnqA v -> fthr (fstp a t) t = FIdle -> lastres (fstp a t) = RGot id ->
  zstep (umk fsst a b p th l h) t = umk fsst (fstp a t) (fstart b t (OpPub id)) (updz p id v) (upd th t (UEnqB v id)) l h.
Proof. intros E Hb Hl. zstep_open E. rewrite (fsidle_true' _ _ Hb), Hl. reflexivity. Qed.
Lemma z_enqA_none a b p th l h t v : th t = UEnqA v -> fthr (fstp a t) t = FIdle -> lastres (fstp a t) = REmpty ->
  zstep (umk fsst a b p th l h) t = umk fsst (fstp a t) b p (upd th t UIdle) (l ++ [(t, RFull v)]) h.
Proof. intros E Hb Hl. zstep_open E. rewrite (fsidle_true' _ _ Hb), Hl. reflexivity. Qed.
Lemma z_enqB_busy a b p th l h t v id : th t = UEnqB v id -> fthr (fstp b t) t <> FIdle ->
  zstep (umk fsst a b p th l h) t = umk fsst a (fstp b t) p th l h.
Proof. intros E Hb. zstep_open E. rewrite (fsidle_false _ _ Hb). reflexivity. Qed.
Lemma z_enqB_ok a b p th l h t v id w len : th t = UEnqB v id -> fthr (fstp b t) t = FIdle -> lastres (fstp b t) = ROk w len ->
  zstep (umk fsst a b p th l h) t = umk fsst a (fstp b t) p (upd th t UIdle) (l ++ [(t, ROk v len)]) h.
Proof. intros E Hb Hl. zstep_open E. rewrite (fsidle_true' _ _ Hb), Hl. reflexivity. Qed.
Lemma z_deqB_busy a b p th l h t : th t = UDeqB -> fthr (fstp b t) t <> FIdle ->
  zstep (umk fsst a b p th l h) t = umk fsst a (fstp b t) p th l h.
Proof. intros E Hb. zstep_open E. rewrite (fsidle_false _ _ Hb). reflexivity. Qed.
Lemma z_deqB_got a b p th l h t id : th t = UDeqB -> fthr (fstp b t) t = FIdle -> lastres (fstp b t) = RGot id ->
  zstep (umk fsst a b p th l h) t = umk fsst a (fstp b t) p (upd th t UIdle) (l ++ [(t, RGot (p id))]) (upd h t (Some id)).
Proof. intros E Hb Hl. zstep_open E. rewrite (fsidle_true' _ _ Hb), Hl. reflexivity. Qed.
Lemma z_deqB_empty a b p th l h t : th t = UDeqB -> fthr (fstp b t) t = FIdle -> lastres (fstp b t) = REmpty ->
  zstep (umk fsst a b p th l h) t = umk fsst a (fstp b t) p (upd th t UIdle) (l ++ [(t, REmpty)]) h.
Proof. intros E Hb Hl. zstep_open E. rewrite (fsidle_true' _ _ Hb), Hl. reflexivity. Qed.
Lemma z_rel_busy a b p th l h t id : th t = URel id -> fthr (fstp a t) t <> FIdle ->
  zstep (umk fsst a b p th l h) t = umk fsst (fstp a t) b p th l h.
Proof. intros E Hb. zstep_open E. rewrite (fsidle_false _ _ Hb). reflexivity. Qed.
Lemma z_rel_done a b p th l h t id : th t = URel id -> fthr (fstp a t) t = FIdle ->
  zstep (umk fsst a b p th l h) t = umk fsst (fstp a t) b p (upd th t UIdle) l h.
Proof. intros E Hb. zstep_open E. rewrite (fsidle_true' _ _ Hb). reflexivity. Qed.
Lemma z_len a b p th l h t : th t = ULenB ->
  zstep (umk fsst a b p th l h) t = umk fsst a b p (upd th t UIdle) (l ++ [(t, RLen (ftail b - fhead b))]) h.
Proof. intros E. zstep_open E. reflexivity. Qed.
Lemma z_idle a b p th l h t : th t = UIdle -> zstep (umk fsst a b p th l h) t = umk fsst a b p th l h.
Proof. intros E. zstep_open E. reflexivity. Qed.

Ltac others := intros u Hu; cbn [ua ub upool uthr ulog uheld umk];
  rewrite ?(fstp_other N), ?fstart_other, ?upd_other by assumption; auto.
Ltac own := unfold fowned, fheldl, ftransl; cbn [ua ub upool uthr ulog uheld umk]; rewrite ?upd_same.
Ltac upd_at Ht := rewrite Ht, upd_same.

Theorem zif_step s t : ZIF s -> ZIF (zstep s t).
Proof.
  intros Z. destruct (zif_room s t Z) as [RoomA RoomB].
  pose proof (zf_ia _ Z) as Ia. pose proof (zf_ib _ Z) as Ib.
  pose proof (zf_ph _ Z t) as P. unfold fphase in P.
  pose proof (zf_2a _ Z) as H2a. pose proof (zf_2b _ Z) as H2b. pose proof (zf_now _ Z t) as Hnow.
  destruct s as [a b p th l h]. cbn [ua ub upool uthr ulog uheld] in *. fold (umk fsst a b p th l h) in *.
  assert (Ia' : FInv N (fstp a t)) by now apply finv_step.
  assert (Ib' : FInv N (fstp b t)) by now apply finv_step.
  assert (H2a' : noFull (fstp a t)) by (apply noFull_step; [intros w Hw _; exact (RoomA w Hw)|exact H2a]).
  assert (H2b' : noFull (fstp b t)) by (apply noFull_step; [intros w Hw _; exact (RoomB w Hw)|exact H2b]).
  destruct (th t) eqn:E; cbn [fphase_of] in P; destruct P as [P1 P2].
  - (* UIdle *) rewrite (z_idle _ _ _ _ _ _ _ E). exact Z.
  - (* UEnqA v: inside the allocation (a consume on the free list) *)
    destruct (fthr a t) as [| | | |r|] eqn:Ea; cbn in P1; try discriminate.
    + (* at the flag CAS *)
      destruct (flock a) eqn:El.
      { rewrite (z_enqA_busy a b p th l h t v E); rewrite (fstep_CL_locked N a t Ea El); [exact Z|rewrite Ea; discriminate]. }
      destruct (Z_lt_le_dec 0 (ftail a - fhead a)) as [Hlt|Hle].
      * destruct (fstep_CL_got N a t Ia Ea El Hlt) as (Ht & Hp & Hh & Hl).
        rewrite (z_enqA_busy a b p th l h t v E) by (upd_at Ht; discriminate).
        apply (zif_update _ _ _ _ _ _ _ t Z); cbn [ua ub upool uthr ulog uheld umk]; try assumption; [others| | |].
        -- upd_at Ht. rewrite E. cbn. auto.
        -- rewrite E. discriminate.
        -- rewrite (finring_cons N a _ Ia Hp Hh ltac:(lia)). own. rewrite E, Ea. upd_at Ht. perm_count.
      * destruct (fstep_CL_empty N a t Ea El Hle) as (Ht & Hp & Hh & Hl).
        rewrite (z_enqA_busy a b p th l h t v E) by (upd_at Ht; discriminate).
        apply (zif_update _ _ _ _ _ _ _ t Z); cbn [ua ub upool uthr ulog uheld umk]; try assumption; [others| | |].
        -- upd_at Ht. rewrite E. cbn. auto.
        -- rewrite E. discriminate.
        -- rewrite (finring_same _ _ Hp Hh). own. rewrite E, Ea. upd_at Ht. reflexivity.
    + (* at the flag store: the allocation returns *)
      destruct (fstep_CU N a t r Ea) as (Ht & Hp & Hh & Hl & _).
      assert (Hi : fthr (fstp a t) t = FIdle) by (now upd_at Ht).
      destruct r as [id|]; cbn [cons_res] in Hl.
      * rewrite (z_enqA_got a b p th l h t v id E Hi (ZcSolo.lastres_snoc _ _ _ _ Hl)).
        destruct (fstart_frame b t (OpPub id)) as [Sp Sh].
        apply (zif_update _ _ _ _ _ _ _ t Z); cbn [ua ub upool uthr ulog uheld umk]; try assumption;
          [now apply finv_start|now apply noFull_start|others| | |].
        -- rewrite upd_same, Hi, (fstart_idle b t _ P2). cbn. auto.
        -- rewrite upd_same. discriminate.
        -- rewrite (finring_same _ _ Hp Hh), (finring_same _ _ Sp Sh). own. rewrite E, Ea, (fstart_idle b t _ P2). reflexivity.
      * rewrite (z_enqA_none a b p th l h t v E Hi (ZcSolo.lastres_snoc _ _ _ _ Hl)).
        apply (zif_update _ _ _ _ _ _ _ t Z); cbn [ua ub upool uthr ulog uheld umk]; try assumption; [others| | |].
        -- rewrite upd_same, Hi, P2. cbn. auto.
        -- rewrite upd_same. discriminate.
        -- rewrite (finring_same _ _ Hp Hh). own. rewrite E, Ea. reflexivity.
  - (* UEnqB v id: inside the publication of the id *)
    destruct (fthr b t) as [|w|w r| | |] eqn:Eb; cbn in P2; try discriminate; injection P2 as ->.
    + destruct (flock b) eqn:El.
      { rewrite (z_enqB_busy a b p th l h t v id E); rewrite (fstep_PL_locked N b t id Eb El); [exact Z|rewrite Eb; discriminate]. }
      destruct (fstep_PL_ok N b t id Eb El (RoomB id eq_refl)) as (Ht & Hp & Hh & Hl).
      rewrite (z_enqB_busy a b p th l h t v id E) by (upd_at Ht; discriminate).
      apply (zif_update _ _ _ _ _ _ _ t Z); cbn [ua ub upool uthr ulog uheld umk]; try assumption; [others| | |].
      * upd_at Ht. rewrite E. cbn. auto.
      * rewrite E. discriminate.
      * rewrite (finring_pub N b _ id Ib Hp Hh). own. rewrite E, Eb. upd_at Ht. perm_count.
    + destruct r as [len|]; [|exfalso; exact (H2b t _ Eb)].
      destruct (fstep_PU N b t id _ Eb) as (Ht & Hp & Hh & Hl & _). cbn [pub_res] in Hl.
      assert (Hi : fthr (fstp b t) t = FIdle) by (now upd_at Ht).
      rewrite (z_enqB_ok a b p th l h t v id _ _ E Hi (ZcSolo.lastres_snoc _ _ _ _ Hl)).
      apply (zif_update _ _ _ _ _ _ _ t Z); cbn [ua ub upool uthr ulog uheld umk]; try assumption; [others| | |].
      * rewrite upd_same, Hi, P1. cbn. auto.
      * rewrite upd_same. discriminate.
      * rewrite (finring_same _ _ Hp Hh). own. rewrite E, Eb. reflexivity.
  - (* UDeqB: inside the consume on the id ring *)
    destruct (fthr b t) as [| | | |r|] eqn:Eb; cbn in P2; try discriminate.
    + destruct (flock b) eqn:El.
      { rewrite (z_deqB_busy a b p th l h t E); rewrite (fstep_CL_locked N b t Eb El); [exact Z|rewrite Eb; discriminate]. }
      destruct (Z_lt_le_dec 0 (ftail b - fhead b)) as [Hlt|Hle].
      * destruct (fstep_CL_got N b t Ib Eb El Hlt) as (Ht & Hp & Hh & Hl).
        rewrite (z_deqB_busy a b p th l h t E) by (upd_at Ht; discriminate).
        apply (zif_update _ _ _ _ _ _ _ t Z); cbn [ua ub upool uthr ulog uheld umk]; try assumption; [others| | |].
        -- upd_at Ht. rewrite E. cbn. auto.
        -- intros _. now apply Hnow.
        -- rewrite (finring_cons N b _ Ib Hp Hh ltac:(lia)). own. rewrite E, Eb. upd_at Ht. perm_count.
      * destruct (fstep_CL_empty N b t Eb El Hle) as (Ht & Hp & Hh & Hl).
        rewrite (z_deqB_busy a b p th l h t E) by (upd_at Ht; discriminate).
        apply (zif_update _ _ _ _ _ _ _ t Z); cbn [ua ub upool uthr ulog uheld umk]; try assumption; [others| | |].
        -- upd_at Ht. rewrite E. cbn. auto.
        -- intros _. now apply Hnow.
        -- rewrite (finring_same _ _ Hp Hh). own. rewrite E, Eb. upd_at Ht. reflexivity.
    + destruct (fstep_CU N b t r Eb) as (Ht & Hp & Hh & Hl & _).
      assert (Hi : fthr (fstp b t) t = FIdle) by (now upd_at Ht).
      destruct r as [id|]; cbn [cons_res] in Hl.
      * rewrite (z_deqB_got a b p th l h t id E Hi (ZcSolo.lastres_snoc _ _ _ _ Hl)).
        apply (zif_update _ _ _ _ _ _ _ t Z); cbn [ua ub upool uthr ulog uheld umk]; try assumption; [others| | |].
        -- rewrite upd_same, Hi, P1. cbn. auto.
        -- rewrite upd_same. discriminate.
        -- rewrite (finring_same _ _ Hp Hh). own. rewrite E, Eb, (Hnow eq_refl). reflexivity.
      * rewrite (z_deqB_empty a b p th l h t E Hi (ZcSolo.lastres_snoc _ _ _ _ Hl)).
        apply (zif_update _ _ _ _ _ _ _ t Z); cbn [ua ub upool uthr ulog uheld umk]; try assumption; [others| | |].
        -- rewrite upd_same, Hi, P1. cbn. auto.
        -- rewrite upd_same. discriminate.
        -- rewrite (finring_same _ _ Hp Hh). own. rewrite E, Eb. reflexivity.
  - (* URel id: inside the give-back of the id to the free list *)
    destruct (fthr a t) as [|w|w r| | |] eqn:Ea; cbn in P1; try discriminate; injection P1 as ->.
    + destruct (flock a) eqn:El.
      { rewrite (z_rel_busy a b p th l h t id E); rewrite (fstep_PL_locked N a t id Ea El); [exact Z|rewrite Ea; discriminate]. }
      destruct (fstep_PL_ok N a t id Ea El (RoomA id eq_refl)) as (Ht & Hp & Hh & Hl).
      rewrite (z_rel_busy a b p th l h t id E) by (upd_at Ht; discriminate).
      apply (zif_update _ _ _ _ _ _ _ t Z); cbn [ua ub upool uthr ulog uheld umk]; try assumption; [others| | |].
      * upd_at Ht. rewrite E. cbn. auto.
      * rewrite E. discriminate.
      * rewrite (finring_pub N a _ id Ia Hp Hh). own. rewrite E, Ea. upd_at Ht. perm_count.
    + destruct r as [len|]; [|exfalso; exact (H2a t _ Ea)].
      destruct (fstep_PU N a t id _ Ea) as (Ht & Hp & Hh & Hl & _).
      assert (Hi : fthr (fstp a t) t = FIdle) by (now upd_at Ht).
      rewrite (z_rel_done a b p th l h t id E Hi).
      apply (zif_update _ _ _ _ _ _ _ t Z); cbn [ua ub upool uthr ulog uheld umk]; try assumption; [others| | |].
      * rewrite upd_same, Hi, P2. cbn. auto.
      * rewrite upd_same. discriminate.
      * rewrite (finring_same _ _ Hp Hh). own. rewrite E, Ea. reflexivity.
  - (* ULenB: a plain read *)
    rewrite (z_len a b p th l h t E).
    apply (zif_update _ _ _ _ _ _ _ t Z); cbn [ua ub upool uthr ulog uheld umk]; try assumption; [others| | |].
    + rewrite upd_same, P1, P2. cbn. auto.
    + rewrite upd_same. discriminate.
    + own. rewrite E. reflexivity.
Qed.

(* beginning an operation; a CONSUME only by a thread that holds no handle (the model has ONE handle register per thread: a consume
   begun while holding would overwrite - and so lose - the handle held; the channel machine never does that) *)
Theorem zif_start s t o : ZIF s -> (o = OpCons -> uheld _ s t = None) -> ZIF (zstart s t o).
Proof.
  intros Z Hnone. pose proof (zf_ph _ Z t) as P. unfold fphase in P. pose proof (zf_ia _ Z) as Ia. pose proof (zf_ib _ Z) as Ib.
  pose proof (zf_2a _ Z) as H2a. pose proof (zf_2b _ Z) as H2b.
  unfold zstart, ustart. destruct s as [a b p th l h]. cbn [ua ub upool uthr ulog uheld] in *. fold (umk fsst a b p th l h) in *.
  destruct (th t) eqn:E; try exact Z. cbn [fphase_of] in P. destruct P as [P1 P2]. destruct o.
  - destruct (fstart_frame a t OpCons) as [Sp Sh].
    apply (zif_update _ _ _ _ _ _ _ t Z); cbn [ua ub upool uthr ulog uheld umk]; try assumption;
      [now apply finv_start|now apply noFull_start|others| | |].
    + rewrite upd_same, (fstart_idle a t _ P1), P2. cbn. auto.
    + rewrite upd_same. discriminate.
    + rewrite (finring_same _ _ Sp Sh). own. rewrite E, (fstart_idle a t _ P1). reflexivity.
  - destruct (fstart_frame b t OpCons) as [Sp Sh].
    apply (zif_update _ _ _ _ _ _ _ t Z); cbn [ua ub upool uthr ulog uheld umk]; try assumption;
      [now apply finv_start|now apply noFull_start|others| | |].
    + rewrite upd_same, (fstart_idle b t _ P2), P1. cbn. auto.
    + intros _. now apply Hnone.
    + rewrite (finring_same _ _ Sp Sh). own. rewrite E, (fstart_idle b t _ P2). reflexivity.
  - apply (zif_update _ _ _ _ _ _ _ t Z); cbn [ua ub upool uthr ulog uheld umk]; try assumption; [others| | |].
    + rewrite upd_same, P1, P2. cbn. auto.
    + rewrite upd_same. discriminate.
    + own. rewrite E. reflexivity.
Qed.

(* the drop of the handle: the id passes from `held` to `in transit` *)
Theorem zif_release s t : ZIF s -> ZIF (zrelease s t).
Proof.
  intros Z. pose proof (zf_ph _ Z t) as P. unfold fphase in P. pose proof (zf_ia _ Z) as Ia. pose proof (zf_ib _ Z) as Ib.
  pose proof (zf_2a _ Z) as H2a. pose proof (zf_2b _ Z) as H2b.
  unfold zrelease, urelease. destruct s as [a b p th l h]. cbn [ua ub upool uthr ulog uheld] in *. fold (umk fsst a b p th l h) in *.
  destruct (th t) eqn:E; try exact Z. destruct (h t) as [id|] eqn:Eh; [|exact Z]. cbn [fphase_of] in P. destruct P as [P1 P2].
  destruct (fstart_frame a t (OpPub id)) as [Sp Sh].
  apply (zif_update _ _ _ _ _ _ _ t Z); cbn [ua ub upool uthr ulog uheld umk]; try assumption;
    [now apply finv_start|now apply noFull_start|others| | |].
  - rewrite upd_same, (fstart_idle a t _ P1), P2. cbn. auto.
  - rewrite upd_same. discriminate.
  - rewrite (finring_same _ _ Sp Sh). own. rewrite E, Eh, (fstart_idle a t _ P1). reflexivity.
Qed.
End ConserveFS.

(* ------------------------------------------------------------------------------------------------ the initial state *)
Section InitFS.
Variable N : Z.
Hypothesis Npos : 0 < N.
Local Notation ust := (ust fsst).
Local Notation fstp := (fstepZ N).

Lemma fstart_frame2 x t o : ftail (fstart x t o) = ftail x /\ flock (fstart x t o) = flock x.
Proof. unfold fstart. destruct (fthr x t); auto. Qed.

(* one publication of `new()`: the constructing thread 0, alone, the flag free, room in the ring: CAS + store, the other 4 steps idle *)
Lemma fs_fill_one x v : FInv N x -> all_idle x -> ftail x - fhead x < N ->
  let y := Nat.iter 6 (fun x => fstp x 0%nat) (fstart x 0%nat (OpPub v)) in
  FInv N y /\ all_idle y /\ fpublished y = fpublished x ++ [v] /\ fhead y = fhead x.
Proof.
  intros I [Ai Al] Hlt. cbn zeta. cbn [Nat.iter nat_rect].
  set (x0 := fstart x 0%nat (OpPub v)).
  assert (E0 : fthr x0 0%nat = FPL v) by (unfold x0; now rewrite (fstart_idle x 0%nat _ (Ai 0%nat))).
  destruct (fstart_frame x 0%nat (OpPub v)) as [Sp Sh]. destruct (fstart_frame2 x 0%nat (OpPub v)) as [St Sl]. fold x0 in Sp, Sh, St, Sl.
  assert (I0 : FInv N x0) by now apply finv_start.
  assert (L0 : flock x0 = false) by congruence.
  destruct (fstep_PL_ok N x0 0%nat v E0 L0 ltac:(lia)) as (Ht1 & Hp1 & Hh1 & _).
  set (x1 := fstp x0 0%nat) in *.
  assert (I1 : FInv N x1) by now apply finv_step.
  assert (E1 : fthr x1 0%nat = FPU v (Some (ftail x0 - fhead x0 + 1))) by (now rewrite Ht1, upd_same).
  destruct (fstep_PU N x1 0%nat v _ E1) as (Ht2 & Hp2 & Hh2 & _ & Lk2).
  set (x2 := fstp x1 0%nat) in *.
  assert (I2 : FInv N x2) by now apply finv_step.
  assert (Hi2 : fthr x2 0%nat = FIdle) by (now rewrite Ht2, upd_same).
  rewrite !(fstp_idle_noop N x2 0%nat Hi2).
  split; [exact I2|]. split; [|split; congruence]. split; [|exact Lk2].
  intros u. destruct (Nat.eq_dec u 0) as [->|Hn]; [exact Hi2|].
  rewrite Ht2, upd_other, Ht1, upd_other by assumption. unfold x0. rewrite fstart_other by assumption. apply Ai.
Qed.

Lemma fs_pfill_state ids : forall x, FInv N x -> all_idle x -> ftail x - fhead x + Z.of_nat (length ids) <= N ->
  let y := pfill fsst fstp fstart x ids 0 in
  FInv N y /\ all_idle y /\ fpublished y = fpublished x ++ ids /\ fhead y = fhead x.
Proof.
  induction ids as [|v ids IH]; intros x I A Hb; cbn zeta.
  - cbn [pfill]. rewrite app_nil_r. auto.
  - cbn [pfill]. cbn [length] in Hb.
    destruct (fs_fill_one x v I A ltac:(lia)) as (I1 & A1 & P1 & H1). cbn zeta in *.
    set (x1 := Nat.iter 6 (fun x => fstp x 0%nat) (fstart x 0%nat (OpPub v))) in *.
    assert (T1 : ftail x1 = ftail x + 1).
    { pose proof (f_lenp _ _ I1) as L1. pose proof (f_lenp _ _ I) as L. rewrite P1, app_length in L1. cbn [length] in L1. lia. }
    destruct (IH x1 I1 A1 ltac:(lia)) as (I2 & A2 & P2 & H2). cbn zeta in *.
    split; [exact I2|]. split; [exact A2|]. split; [rewrite P2, P1, <- app_assoc; reflexivity|congruence].
Qed.

Lemma fl0_state_fs : FInv N (zcf_fl0 N) /\ all_idle (zcf_fl0 N) /\ fpublished (zcf_fl0 N) = ids_upto N /\ fhead (zcf_fl0 N) = 0.
Proof.
  assert (Hlen : Z.of_nat (length (ids_upto N)) = N) by (unfold ids_upto; rewrite map_length, seq_length; lia).
  destruct (fs_pfill_state (ids_upto N) finit (finv_init N Npos) (conj (fun _ => eq_refl) eq_refl)) as (A1 & A2 & A3 & A4);
    [cbn [ftail fhead finit finit_at]; lia|].
  cbn zeta in *. unfold zcf_fl0. auto.
Qed.

Theorem zif_init : ZIF N (zcf_q0 N).
Proof.
  destruct fl0_state_fs as (A1 & [A2 A2'] & A3 & A4).
  constructor; unfold zcf_q0; cbn [ua ub upool uthr ulog uheld].
  - exact A1.
  - exact (finv_init N Npos).
  - intros t. unfold fphase. cbn [ua ub upool uthr ulog uheld fphase_of]. split; [apply A2|reflexivity].
  - intros t v. rewrite A2. discriminate.
  - intros t v. cbn. discriminate.
  - discriminate.
  - exists []. split; [constructor|]. split; [intros t _; split; reflexivity|].
    unfold finring. cbn [ua ub upool uthr ulog uheld flat_map]. rewrite A3, A4. cbn. rewrite !app_nil_r. reflexivity.
Qed.
End InitFS.

(* ------------------------------------------------------------------------------------------------ results *)
Section ResultsFS.
Variable N : Z.
Hypothesis Npos : 0 < N.
Local Notation ust := (ust fsst).
Local Notation A s := (ua fsst s).
Local Notation B s := (ub fsst s).
Local Notation zstep := (ZcSolo.zstep N).

(* The states the queue component reaches from `new()` by its three kinds of moves, a CONSUME being begun only by a thread that
   holds no handle.  Every state of every channel run is one of them (zcf_run_states_reachable below). *)
Inductive zfreach : ust -> Prop :=
| zfr_init : zfreach (zcf_q0 N)
| zfr_step s t : zfreach s -> zfreach (zstep s t)
| zfr_start s t o : zfreach s -> (o = OpCons -> uheld _ s t = None) -> zfreach (zstart s t o)
| zfr_release s t : zfreach s -> zfreach (zrelease s t).

Theorem zfreach_ZIF s : zfreach s -> ZIF N s.
Proof.
  induction 1; [apply (zif_init N Npos)|now apply (zif_step N Npos)|now apply zif_start|now apply zif_release].
Qed.
Lemma zfreach_solo n s t : zfreach s -> zfreach (solo N n s t).
Proof. intros H. unfold solo. induction n as [|n IH]; [exact H|]. cbn [Nat.iter nat_rect]. now apply zfr_step. Qed.

(* MAIN (component level) *)
Theorem zfreach_slots_conserved s : zfreach s -> ConserveFS N s.
Proof. intros H. exact (zf_cons _ _ (zfreach_ZIF s H)). Qed.

(* ---- COROLLARY 1: no leak, exact capacity ---- *)
Theorem no_leak_fs s : zfreach s -> (forall t, uthr _ s t = UIdle) -> (forall t, uheld _ s t = None) ->
  (ftail (A s) - fhead (A s)) + (ftail (B s) - fhead (B s)) = N
  /\ all_idle (A s) /\ all_idle (B s)                          (* nobody is inside a ring operation, both flags are free *)
  /\ Permutation (ids_upto N) (finring (A s) ++ finring (B s)).
Proof.
  intros R Hi Hh. pose proof (zfreach_ZIF s R) as Z. pose proof (zf_ia _ _ Z) as Ia. pose proof (zf_ib _ _ Z) as Ib.
  assert (Pa : forall u, fthr (A s) u = FIdle) by (intros u; pose proof (zf_ph _ _ Z u) as P; unfold fphase in P; rewrite Hi in P; apply P).
  assert (Pb : forall u, fthr (B s) u = FIdle) by (intros u; pose proof (zf_ph _ _ Z u) as P; unfold fphase in P; rewrite Hi in P; apply P).
  destruct (consL_total N _ _ _ _ (zf_cons _ _ Z)) as [Hp Hl].
  { intros u. unfold fheldl. now rewrite Hh. }
  { intros u. unfold ftransl. now rewrite Hi. }
  pose proof (finring_length N _ Ia). pose proof (finring_length N _ Ib).
  split; [specialize (Hl ltac:(lia)); lia|]. split; [|split; [|exact Hp]].
  - split; [exact Pa|]. destruct (flock (A s)) eqn:El; [|reflexivity]. destruct (f_free _ _ Ia El) as [u Hu]. rewrite Pa in Hu. discriminate.
  - split; [exact Pb|]. destruct (flock (B s)) eqn:El; [|reflexivity]. destruct (f_free _ _ Ib El) as [u Hu]. rewrite Pb in Hu. discriminate.
Qed.

Lemma transl_owned s t id : In id (ftransl s t) -> In id (fheldl s t ++ ftransl s t).
Proof. intros H. apply in_or_app. now right. Qed.
Lemma held_owned s t id : uheld _ s t = Some id -> In id (fheldl s t ++ ftransl s t).
Proof. intros H. apply in_or_app. left. unfold fheldl. rewrite H. now left. Qed.

(* ---- COROLLARY 2: the branch ZcUni.v marks unreachable is unreachable; a release never finds the free list full ---- *)
Theorem full_branches_unreachable_fs s : zfreach s ->
  (* no publish into either ring ever stands at the flag store with the "full" answer *)
  (noFull (A s) /\ noFull (B s)) /\
  (* a thread publishing the id it allocated: either it is still trying the flag - then the id ring has room, does not contain the id,
     and the step that gets the flag puts the id in; or it stands at the flag store with an accepted answer, which its next step returns *)
  (forall t v id, uthr _ s t = UEnqB v id ->
     (fthr (B s) t = FPL id /\ ftail (B s) - fhead (B s) < N /\ ~ In id (finring (B s)) /\
      (flock (B s) = false -> fthr (fstepZ N (B s) t) t = FPU id (Some (ftail (B s) - fhead (B s) + 1)))) \/
     (exists len, fthr (B s) t = FPU id (Some len) /\
        uthr _ (zstep s t) t = UIdle /\ ulog _ (zstep s t) = ulog _ s ++ [(t, ROk v len)])) /\
  (* a thread giving a handle back: the same on the free list *)
  (forall t id, uthr _ s t = URel id ->
     (fthr (A s) t = FPL id /\ ftail (A s) - fhead (A s) < N /\ ~ In id (finring (A s)) /\
      (flock (A s) = false -> fthr (fstepZ N (A s) t) t = FPU id (Some (ftail (A s) - fhead (A s) + 1)))) \/
     (exists len, fthr (A s) t = FPU id (Some len) /\ uthr _ (zstep s t) t = UIdle)) /\
  (* a thread that holds a handle: the free list has room for it *)
  (forall t id, uheld _ s t = Some id -> ftail (A s) - fhead (A s) < N /\ ~ In id (finring (A s))).
Proof.
  intros R. pose proof (zfreach_ZIF s R) as Z. pose proof (zf_ia _ _ Z) as Ia. pose proof (zf_ib _ _ Z) as Ib.
  pose proof (zf_cons _ _ Z) as C. pose proof (finring_length N _ Ia) as La. pose proof (finring_length N _ Ib) as Lb.
  pose proof (f_ord _ _ Ia) as Oa. pose proof (f_ord _ _ Ib) as Ob.
  split; [split; apply Z|]. split; [|split].
  - intros t v id E. pose proof (zf_ph _ _ Z t) as P. unfold fphase in P. rewrite E in P. cbn [fphase_of] in P. destruct P as [P1 P2].
    destruct (fthr (B s) t) as [|w|w r| | |] eqn:Eb; cbn in P2; try discriminate; injection P2 as ->.
    + left. assert (Hin : In id (ftransl s t)) by (unfold ftransl; rewrite E, Eb; now left).
      pose proof (consL_room N _ _ _ _ t id C (transl_owned s t id Hin)) as Hroom.
      destruct (consL_exclusive N _ _ _ _ t id C (transl_owned s t id Hin)) as (_ & _ & HnB & _).
      split; [reflexivity|]. split; [lia|]. split; [exact HnB|]. intros El.
      destruct (fstep_PL_ok N (B s) t id Eb El ltac:(lia)) as (Ht & _). now rewrite Ht, upd_same.
    + right. destruct r as [len|]; [|exfalso; exact (zf_2b _ _ Z t _ Eb)]. exists len. split; [reflexivity|].
      destruct (fstep_PU N (B s) t id _ Eb) as (Ht & _ & _ & Hl & _). cbn [pub_res] in Hl.
      assert (Hi : fthr (fstepZ N (B s) t) t = FIdle) by (now rewrite Ht, upd_same).
      destruct s as [a b p th l h]. cbn [ua ub upool uthr ulog uheld] in *. fold (umk fsst a b p th l h) in *.
      rewrite (z_enqB_ok N a b p th l h t v id _ _ E Hi (ZcSolo.lastres_snoc _ _ _ _ Hl)).
      cbn [ua ub upool uthr ulog uheld umk]. now rewrite upd_same.
  - intros t id E. pose proof (zf_ph _ _ Z t) as P. unfold fphase in P. rewrite E in P. cbn [fphase_of] in P. destruct P as [P1 P2].
    destruct (fthr (A s) t) as [|w|w r| | |] eqn:Ea; cbn in P1; try discriminate; injection P1 as ->.
    + left. assert (Hin : In id (ftransl s t)) by (unfold ftransl; rewrite E, Ea; now left).
      pose proof (consL_room N _ _ _ _ t id C (transl_owned s t id Hin)) as Hroom.
      destruct (consL_exclusive N _ _ _ _ t id C (transl_owned s t id Hin)) as (_ & HnA & _ & _).
      split; [reflexivity|]. split; [lia|]. split; [exact HnA|]. intros El.
      destruct (fstep_PL_ok N (A s) t id Ea El ltac:(lia)) as (Ht & _). now rewrite Ht, upd_same.
    + right. destruct r as [len|]; [|exfalso; exact (zf_2a _ _ Z t _ Ea)]. exists len. split; [reflexivity|].
      destruct (fstep_PU N (A s) t id _ Ea) as (Ht & _).
      assert (Hi : fthr (fstepZ N (A s) t) t = FIdle) by (now rewrite Ht, upd_same).
      destruct s as [a b p th l h]. cbn [ua ub upool uthr ulog uheld] in *. fold (umk fsst a b p th l h) in *.
      rewrite (z_rel_done N a b p th l h t id E Hi). cbn [ua ub upool uthr ulog uheld umk]. now rewrite upd_same.
  - intros t id Hh.
    pose proof (consL_room N _ _ _ _ t id C (held_owned s t id Hh)) as Hroom.
    destruct (consL_exclusive N _ _ _ _ t id C (held_owned s t id Hh)) as (_ & HnA & _ & _).
    split; [lia|exact HnA].
Qed.

(* ---- COROLLARY 3: exclusive ownership ---- *)
Theorem exclusive_ownership_fs s : zfreach s ->
  (* two threads never hold the same id *)
  (forall t u id, uheld _ s t = Some id -> uheld _ s u = Some id -> t = u) /\
  (* a held id is a slot id, is in neither ring, and is not the id any composite operation (of this or another thread) carries *)
  (forall t id, uheld _ s t = Some id ->
     0 <= id < N /\ ~ In id (finring (A s)) /\ ~ In id (finring (B s)) /\ forall u, ~ In id (ftransl s u)) /\
  (* an id in transit is a slot id, is in neither ring, and no other composite operation carries it *)
  (forall t id, In id (ftransl s t) ->
     0 <= id < N /\ ~ In id (finring (A s)) /\ ~ In id (finring (B s)) /\ forall u, In id (ftransl s u) -> u = t).
Proof.
  intros R. pose proof (zf_cons _ _ (zfreach_ZIF s R)) as C. split; [|split].
  - intros t u id Ht Hu. destruct (consL_exclusive N _ _ _ _ u id C (held_owned s u id Hu)) as (_ & _ & _ & Huniq).
    apply Huniq. now apply held_owned.
  - intros t id Ht. destruct (consL_exclusive N _ _ _ _ t id C (held_owned s t id Ht)) as (Hr & Ha & Hb & _).
    split; [exact Hr|]. split; [exact Ha|]. split; [exact Hb|].
    apply (consL_held_not_carried N _ _ _ _ t id C). unfold fheldl. rewrite Ht. now left.
  - intros t id Ht. destruct (consL_exclusive N _ _ _ _ t id C (transl_owned s t id Ht)) as (Hr & Ha & Hb & Huniq).
    split; [exact Hr|]. split; [exact Ha|]. split; [exact Hb|]. intros u Hu. apply Huniq. now apply transl_owned.
Qed.
End ResultsFS.

(* ------------------------------------------------------------------------------------------------ every channel run
   The predicate is preserved by the start of a thread that holds no handle only (zfr_start); ZcConserve.zc_guarded_invariant - generic
   in the queue machine - shows that the channel machine never starts anything while holding. *)
Section ChannelRunsFS.
Variable N : Z.
Hypothesis Npos : 0 < N.
Variable M k : nat.
Variable wake_rule : Z -> option nat.
Local Notation run cevs := (q _ (zcf_run N M k wake_rule cevs)).

Theorem zcf_run_states_reachable cevs :
  zfreach N (run cevs) /\ (forall t, uheld _ (run cevs) t = None) /\
  (forall t, uthr _ (run cevs) t = UDeqB -> is_poll (cthr _ (zcf_run N M k wake_rule cevs) t)).
Proof.
  unfold zcf_run.
  apply (zc_guarded_invariant fsst (fstepZ N) fstart fsidle flog false (fun b => ftail b - fhead b) M k wake_rule (zfreach N)
           (zfr_step N) (fun x t o Hx Hn => zfr_start N x t o Hx (fun _ => Hn)) (zfr_release N) (zcf_q0 N) cevs (zfr_init N)).
  - intros t. reflexivity.
  - intros t. cbn. discriminate.
Qed.
End ChannelRunsFS.

(* MAIN THEOREM *)
Theorem zcf_slots_conserved : forall N, 0 < N -> forall M k wr cevs, ConserveFS N (q _ (zcf_run N M k wr cevs)).
Proof.
  intros N Npos M k wr cevs. apply (zfreach_slots_conserved N Npos). apply zcf_run_states_reachable.
Qed.

(* COROLLARIES, for every state of every channel run *)
Theorem zcf_no_leak : forall N, 0 < N -> forall M k wr cevs, let s := q _ (zcf_run N M k wr cevs) in
  (forall t, uthr _ s t = UIdle) ->
  (ftail (ua _ s) - fhead (ua _ s)) + (ftail (ub _ s) - fhead (ub _ s)) = N
  /\ all_idle (ua _ s) /\ all_idle (ub _ s) /\ Permutation (ids_upto N) (finring (ua _ s) ++ finring (ub _ s)).
Proof.
  intros N Npos M k wr cevs s Hi. destruct (zcf_run_states_reachable N M k wr cevs) as (R & Hh & _).
  exact (no_leak_fs N Npos s R Hi Hh).
Qed.

Theorem zcf_full_branches_unreachable : forall N, 0 < N -> forall M k wr cevs, let s := q _ (zcf_run N M k wr cevs) in
  (noFull (ua _ s) /\ noFull (ub _ s)) /\
  (forall t v id, uthr _ s t = UEnqB v id ->
     (fthr (ub _ s) t = FPL id /\ ftail (ub _ s) - fhead (ub _ s) < N /\ ~ In id (finring (ub _ s)) /\
      (flock (ub _ s) = false -> fthr (fstepZ N (ub _ s) t) t = FPU id (Some (ftail (ub _ s) - fhead (ub _ s) + 1)))) \/
     (exists len, fthr (ub _ s) t = FPU id (Some len) /\
        uthr _ (zstep N s t) t = UIdle /\ ulog _ (zstep N s t) = ulog _ s ++ [(t, ROk v len)])) /\
  (forall t id, uthr _ s t = URel id ->
     (fthr (ua _ s) t = FPL id /\ ftail (ua _ s) - fhead (ua _ s) < N /\ ~ In id (finring (ua _ s)) /\
      (flock (ua _ s) = false -> fthr (fstepZ N (ua _ s) t) t = FPU id (Some (ftail (ua _ s) - fhead (ua _ s) + 1)))) \/
     (exists len, fthr (ua _ s) t = FPU id (Some len) /\ uthr _ (zstep N s t) t = UIdle)) /\
  (forall t id, uheld _ s t = Some id -> ftail (ua _ s) - fhead (ua _ s) < N /\ ~ In id (finring (ua _ s))).
Proof.
  intros N Npos M k wr cevs s. destruct (zcf_run_states_reachable N M k wr cevs) as (R & _ & _).
  exact (full_branches_unreachable_fs N Npos s R).
Qed.

Theorem zcf_exclusive_ownership : forall N, 0 < N -> forall M k wr cevs, let s := q _ (zcf_run N M k wr cevs) in
  (forall t u id, uheld _ s t = Some id -> uheld _ s u = Some id -> t = u) /\
  (forall t id, uheld _ s t = Some id ->
     0 <= id < N /\ ~ In id (finring (ua _ s)) /\ ~ In id (finring (ub _ s)) /\ forall u, ~ In id (ftransl s u)) /\
  (forall t id, In id (ftransl s t) ->
     0 <= id < N /\ ~ In id (finring (ua _ s)) /\ ~ In id (finring (ub _ s)) /\ forall u, In id (ftransl s u) -> u = t).
Proof.
  intros N Npos M k wr cevs s. destruct (zcf_run_states_reachable N M k wr cevs) as (R & _ & _).
  exact (exclusive_ownership_fs N Npos s R).
Qed.

(* ------------------------------------------------------------------------------------------------ non-vacuity
   N = 4.  Thread 1 sends 70 and 80 (slots 0 and 1), thread 2 consumes (it now HOLDS slot 0), thread 1 begins a third send and is
   suspended after the allocation (slot 2 allocated, its publication entered and not begun: UEnqB 90 2 / B at FPL 2), thread 3 begins a
   consume and performs its flag CAS: it stands at the flag store of B with slot 1 (UDeqB / B at FCU (Some 1)): slot 1 is no longer in
   the id ring and not yet in thread 3's handle register - it is in transit. *)
Definition exf_s : ust fsst :=
  let s0 := zcf_q0 4 in
  let s1 := solo 4 4 (zstart s0 1%nat (OpPub 70)) 1%nat in
  let s2 := solo 4 4 (zstart s1 1%nat (OpPub 80)) 1%nat in
  let s3 := solo 4 2 (zstart s2 2%nat OpCons) 2%nat in
  let s4 := solo 4 2 (zstart s3 1%nat (OpPub 90)) 1%nat in
  solo 4 1 (zstart s4 3%nat OpCons) 3%nat.

Example exf_reachable : zfreach 4 exf_s.
Proof.
  unfold exf_s. cbv zeta.
  apply zfreach_solo, zfr_start; [apply zfreach_solo, zfr_start; [apply zfreach_solo, zfr_start; [apply zfreach_solo, zfr_start;
    [apply zfreach_solo, zfr_start; [apply zfr_init|]|]|]|]|]; intros _; vm_compute; reflexivity.
Qed.

Example exf_four_collections :
  finring (ua _ exf_s) = [3] /\                    (* free list *)
  finring (ub _ exf_s) = [] /\                     (* id ring: empty - the event 80 (slot 1) has been taken out by thread 3's CAS step *)
  fheldl exf_s 2%nat = [0] /\                      (* thread 2 holds the handle of slot 0 ... *)
  upool _ exf_s 0 = 70 /\                          (* ... whose payload is 70 *)
  uthr _ exf_s 1%nat = UEnqB 90 2 /\ fthr (ub _ exf_s) 1%nat = FPL 2 /\     (* thread 1: slot 2 allocated, not yet in B *)
  ftransl exf_s 1%nat = [2] /\
  uthr _ exf_s 3%nat = UDeqB /\ fthr (ub _ exf_s) 3%nat = FCU (Some 1) /\   (* thread 3: slot 1 out of B, not yet held *)
  ftransl exf_s 3%nat = [1] /\ fheldl exf_s 3%nat = [] /\ flock (ub _ exf_s) = true /\
  ftail (ua _ exf_s) - fhead (ua _ exf_s) = 1 /\ ftail (ub _ exf_s) - fhead (ub _ exf_s) = 0.
Proof. vm_compute. repeat split; reflexivity. Qed.

Example exf_conserved :
  Permutation (ids_upto 4)
    (finring (ua _ exf_s) ++ finring (ub _ exf_s) ++ flat_map (fheldl exf_s) [1%nat; 2%nat; 3%nat] ++ flat_map (ftransl exf_s) [1%nat; 2%nat; 3%nat]).
Proof.
  vm_compute.                                      (* Permutation [0; 1; 2; 3] [3; 0; 2; 1] *)
  apply (proj2 (Permutation_count_occ Z.eq_dec _ _)); intro z; cbn [count_occ]; repeat destruct (Z.eq_dec _ _); lia.
Qed.
(* ... and that is the witness of `ConserveFS 4 exf_s` with ths = [1; 2; 3] *)
Example exf_ConserveFS : ConserveFS 4 exf_s.
Proof.
  exists [1%nat; 2%nat; 3%nat]. split; [repeat constructor; cbn; intuition congruence|]. split; [|exact exf_conserved].
  intros t Ht. destruct t as [|[|[|[|t]]]]; [vm_compute; auto|exfalso; apply Ht; cbn; auto|exfalso; apply Ht; cbn; auto|exfalso; apply Ht; cbn; auto|vm_compute; auto].
Qed.

(* Thread 1 tries B's flag while thread 3 has it: nothing moves.  Then thread 3 stores the flag (it now HOLDS slot 1) and thread 1
   gets it: slot 2 IS in the id ring although thread 1's composite pc is still UEnqB 90 2 (B at FPU 2 (Some 1)) - counted once. *)
Definition exf_s' : ust fsst := solo 4 1 (solo 4 1 (solo 4 1 exf_s 1%nat) 3%nat) 1%nat.
Example exf_blocked_step_moves_nothing :
  let s' := solo 4 1 exf_s 1%nat in
  finring (ua _ s') = [3] /\ finring (ub _ s') = [] /\ uthr _ s' 1%nat = UEnqB 90 2 /\ fthr (ub _ s') 1%nat = FPL 2 /\ ftransl s' 1%nat = [2] /\
  fthr (ub _ s') 3%nat = FCU (Some 1) /\ ftransl s' 3%nat = [1].
Proof. vm_compute. repeat split; reflexivity. Qed.
Example exf_published_before_the_return :
  finring (ua _ exf_s') = [3] /\ finring (ub _ exf_s') = [2] /\
  fheldl exf_s' 2%nat = [0] /\ fheldl exf_s' 3%nat = [1] /\
  uthr _ exf_s' 1%nat = UEnqB 90 2 /\ fthr (ub _ exf_s') 1%nat = FPU 2 (Some 1) /\ ftransl exf_s' 1%nat = [] /\
  uthr _ exf_s' 3%nat = UIdle /\ ftransl exf_s' 3%nat = [].
Proof. vm_compute. repeat split; reflexivity. Qed.
Example exf_reachable' : zfreach 4 exf_s'.
Proof. unfold exf_s'. do 3 apply zfreach_solo. exact exf_reachable. Qed.

(* Why the guard on the start of a consume: the model gives a thread ONE handle register.  If thread 2, still holding slot 0, begins
   another consume (component-level move only - ChanZ.v never does it), the completion overwrites the register: slot 0 is then in
   none of the four places.  (A limitation of the model's bookkeeping, not of the implementation, where each OgreUnique is its own
   handle.) *)
Example exf_unguarded_consume_loses_the_held_slot :
  let s' := solo 4 2 (zstart (solo 4 1 exf_s' 1%nat) 2%nat OpCons) 2%nat in
  finring (ua _ s') = [3] /\ finring (ub _ s') = [] /\ fheldl s' 2%nat = [2] /\ fheldl s' 3%nat = [1] /\ fheldl s' 1%nat = [] /\
  ftransl s' 1%nat = [] /\ ftransl s' 2%nat = [] /\ ftransl s' 3%nat = [].
Proof. vm_compute. repeat split; reflexivity. Qed.

Print Assumptions zcf_slots_conserved.
Print Assumptions zcf_no_leak.
Print Assumptions zcf_full_branches_unreachable.
Print Assumptions zcf_exclusive_ownership.
Print Assumptions zfreach_slots_conserved.
Print Assumptions no_leak_fs.
Print Assumptions full_branches_unreachable_fs.
Print Assumptions exclusive_ownership_fs.
Print Assumptions exf_ConserveFS.
