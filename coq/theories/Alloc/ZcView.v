(* What one step of the zero-copy queue component (ZcUni.v, full-sync components) does to the ring of slot ids (component B), to the
   composite's thread table and to its response log - by the composite's pc and B's pc of the stepping thread.  These are the only
   facts about the queue that the wake-up argument of UniWakeZ.v uses. *)
From RM Require Import RingModel FullSync ZeroCopy ZcUni ZcSolo.

Section ZcView.
Variable N : Z.
Local Notation ust := (ust fsst).
Local Notation zstep := (ZcSolo.zstep N).

Definition uidleb (x : ust) (t : nat) : bool := uidle fsst x t.

(* allocation phase of a publication: component B is not touched until a slot is there, then the publication of its id is started *)
Lemma zs_enqA x t v : uthr _ x t = UEnqA v ->
  let x' := zstep x t in
  (uidleb x' t = false /\ uthr _ x' = uthr _ x /\ ub _ x' = ub _ x /\ ulog _ x' = ulog _ x) \/
  (exists id, uidleb x' t = false /\ uthr _ x' = upd (uthr _ x) t (UEnqB v id) /\ ub _ x' = fstart (ub _ x) t (OpPub id) /\ ulog _ x' = ulog _ x) \/
  (uidleb x' t = true /\ uthr _ x' = upd (uthr _ x) t UIdle /\ ub _ x' = ub _ x /\ ulog _ x' = ulog _ x ++ [(t, RFull v)]).
Proof.
  intros E. cbv zeta. rewrite (zstep_enqA N x t v E). cbv zeta. unfold uidleb, uidle.
  destruct (fsidle (fstepZ N (ua _ x) t) t).
  - destruct (lastres fsst flog (fstepZ N (ua _ x) t)) as [w|w l| |id|n0]; cbn [ua ub upool uthr ulog uheld umk]; rewrite ?upd_same;
      try (right; right; repeat split; reflexivity).
    right; left. exists id. repeat split; reflexivity.
  - left. cbn [ua ub upool uthr ulog uheld umk]. rewrite E. repeat split; reflexivity.
Qed.

(* release phase: component B is not touched *)
Lemma zs_rel x t id : uthr _ x t = URel id ->
  let x' := zstep x t in
  ub _ x' = ub _ x /\ ulog _ x' = ulog _ x /\
  ((uidleb x' t = false /\ uthr _ x' = uthr _ x) \/ (uidleb x' t = true /\ uthr _ x' = upd (uthr _ x) t UIdle)).
Proof.
  intros E. cbv zeta. rewrite (zstep_rel N x t id E). cbv zeta. unfold uidleb, uidle.
  destruct (fsidle (fstepZ N (ua _ x) t) t); cbn [ua ub upool uthr ulog uheld umk]; rewrite ?upd_same, ?E; repeat split; auto.
Qed.

(* publication of the id: exactly the full-sync ring's publication on B *)
Lemma zs_enqB_busy x t v id : uthr _ x t = UEnqB v id -> fsidle (fstepZ N (ub _ x) t) t = false ->
  let x' := zstep x t in uidleb x' t = false /\ uthr _ x' = uthr _ x /\ ub _ x' = fstepZ N (ub _ x) t /\ ulog _ x' = ulog _ x.
Proof.
  intros E Hb. cbv zeta. rewrite (zstep_enqB N x t v id E). cbv zeta. rewrite Hb. unfold uidleb, uidle.
  cbn [ua ub upool uthr ulog uheld umk]. rewrite E. repeat split; reflexivity.
Qed.
Lemma zs_enqB_done x t v id r0 l0 : uthr _ x t = UEnqB v id -> fsidle (fstepZ N (ub _ x) t) t = true ->
  flog (fstepZ N (ub _ x) t) = l0 ++ [(t, r0)] ->
  let x' := zstep x t in
  uidleb x' t = true /\ uthr _ x' = upd (uthr _ x) t UIdle /\ ub _ x' = fstepZ N (ub _ x) t /\
  ulog _ x' = ulog _ x ++ [(t, match r0 with ROk _ len => ROk v len | _ => RFull v end)].
Proof.
  intros E Hb Hl. cbv zeta. rewrite (zstep_enqB N x t v id E). cbv zeta. rewrite Hb, (lastres_snoc _ _ _ _ Hl). unfold uidleb, uidle.
  destruct r0; cbn [ua ub upool uthr ulog uheld umk]; rewrite upd_same; repeat split; reflexivity.
Qed.

(* consume: exactly the full-sync ring's consume on B; the value handed out is the pool's content of the slot *)
Lemma zs_deqB_busy x t : uthr _ x t = UDeqB -> fsidle (fstepZ N (ub _ x) t) t = false ->
  let x' := zstep x t in uidleb x' t = false /\ uthr _ x' = uthr _ x /\ ub _ x' = fstepZ N (ub _ x) t /\ ulog _ x' = ulog _ x /\ uheld _ x' = uheld _ x.
Proof.
  intros E Hb. cbv zeta. rewrite (zstep_deqB N x t E). cbv zeta. rewrite Hb. unfold uidleb, uidle.
  cbn [ua ub upool uthr ulog uheld umk]. rewrite E. repeat split; reflexivity.
Qed.
Lemma zs_deqB_done x t r0 l0 : uthr _ x t = UDeqB -> fsidle (fstepZ N (ub _ x) t) t = true ->
  flog (fstepZ N (ub _ x) t) = l0 ++ [(t, r0)] ->
  let x' := zstep x t in
  uidleb x' t = true /\ uthr _ x' = upd (uthr _ x) t UIdle /\ ub _ x' = fstepZ N (ub _ x) t /\
  (match r0 with
   | RGot id => ulog _ x' = ulog _ x ++ [(t, RGot (upool _ x id))] /\ uheld _ x' = upd (uheld _ x) t (Some id)
   | _ => ulog _ x' = ulog _ x ++ [(t, REmpty)] /\ uheld _ x' = uheld _ x
   end).
Proof.
  intros E Hb Hl. cbv zeta. rewrite (zstep_deqB N x t E). cbv zeta. rewrite Hb, (lastres_snoc _ _ _ _ Hl). unfold uidleb, uidle.
  destruct r0; cbn [ua ub upool uthr ulog uheld umk]; rewrite upd_same; repeat split; reflexivity.
Qed.

(* the length is a plain read on this kind *)
Lemma zs_len x t : uthr _ x t = ULenB ->
  let x' := zstep x t in
  uidleb x' t = true /\ uthr _ x' = upd (uthr _ x) t UIdle /\ ub _ x' = ub _ x /\ ulog _ x' = ulog _ x ++ [(t, RLen (ftail (ub _ x) - fhead (ub _ x)))].
Proof.
  intros E. cbv zeta. unfold ZcSolo.zstep, ustep. rewrite E. unfold uidleb, uidle. cbn [ua ub upool uthr ulog uheld umk]. rewrite upd_same.
  repeat split; reflexivity.
Qed.
Lemma zs_idle x t : uthr _ x t = UIdle -> zstep x t = x.
Proof. intros E. unfold ZcSolo.zstep, ustep. now rewrite E. Qed.

(* starts *)
Lemma zstart_view x t o : uthr _ x t = UIdle ->
  let x' := zstart x t o in
  ulog _ x' = ulog _ x /\
  match o with
  | OpPub v => uthr _ x' = upd (uthr _ x) t (UEnqA v) /\ ub _ x' = ub _ x
  | OpCons => uthr _ x' = upd (uthr _ x) t UDeqB /\ ub _ x' = fstart (ub _ x) t OpCons
  | OpLen => uthr _ x' = upd (uthr _ x) t ULenB /\ ub _ x' = ub _ x
  end.
Proof. intros E. cbv zeta. unfold zstart, ustart. rewrite E. destruct o; cbn [ua ub upool uthr ulog uheld umk]; repeat split; reflexivity. Qed.
Lemma zrelease_view x t : uthr _ x t = UIdle ->
  let x' := zrelease x t in
  ub _ x' = ub _ x /\ ulog _ x' = ulog _ x /\ (uthr _ x' = uthr _ x \/ exists id, uthr _ x' = upd (uthr _ x) t (URel id)).
Proof.
  intros E. cbv zeta. unfold zrelease, urelease. rewrite E. destruct (uheld _ x t); cbn [ua ub upool uthr ulog uheld umk]; repeat split; eauto.
Qed.

End ZcView.
