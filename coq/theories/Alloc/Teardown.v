(* Teardown of a channel struct with events still buffered (C05): Rust runs the struct's own Drop::drop, then drops the fields in
   DECLARATION order. A queue of payload handles (OgreArc / OgreUnique) drops each buffered handle, and dropping a handle gives
   its slot back to - i.e. dereferences - the allocator: if the allocator is an owned field declared BEFORE such a queue, it is
   freed first and the queue's teardown touches freed memory.
   The field lists are generated from /repo's sources on every run (lib/vf/teardown_gen.py -> coq/gen/TeardownGen.v). *)
From Coq Require Import List Bool Arith String.
Import ListNotations.

Inductive fkind := FOther | FAllocOwned | FAllocShared | FQHandles.
Inductive outcome := Safe | UseAfterFree.

Fixpoint drop_fields (fs : list fkind) (alloc_alive : bool) (pending : nat) : outcome :=
  match fs with
  | [] => Safe
  | FAllocOwned :: r => drop_fields r false pending
  | FQHandles :: r => if andb (0 <? pending) (negb alloc_alive) then UseAfterFree else drop_fields r alloc_alive pending
  | _ :: r => drop_fields r alloc_alive pending
  end.
Definition teardown (fs : list fkind) (pending : nat) : outcome := drop_fields fs true pending.

(* no queue of handles after an owned allocator *)
Fixpoint ordered (fs : list fkind) (alloc_seen : bool) : bool :=
  match fs with
  | [] => true
  | FAllocOwned :: r => ordered r true
  | FQHandles :: r => negb alloc_seen && ordered r alloc_seen
  | _ :: r => ordered r alloc_seen
  end.
Definition well_ordered (fs : list fkind) : bool := ordered fs false.

Lemma ordered_safe fs seen alive pending : ordered fs seen = true -> (seen = false -> alive = true) -> drop_fields fs alive pending = Safe.
Proof.
  revert seen alive. induction fs as [|f fs IH]; intros seen alive H Ha; cbn in *; [reflexivity|].
  destruct f.
  - eapply IH; eauto.
  - eapply IH; [exact H|discriminate].
  - eapply IH; eauto.
  - apply andb_true_iff in H. destruct H as [Hs H]. apply negb_true_iff in Hs. rewrite (Ha Hs). cbn. rewrite andb_false_r. eapply IH; eauto.
Qed.

Lemma unordered_unsafe fs seen alive : ordered fs seen = false -> (seen = true -> alive = false) -> drop_fields fs alive 1 = UseAfterFree.
Proof.
  revert seen alive. induction fs as [|f fs IH]; intros seen alive H Ha; cbn in *; [discriminate|].
  destruct f.
  - eapply IH; eauto.
  - eapply IH; [exact H|reflexivity].
  - eapply IH; eauto.
  - destruct seen; cbn in H.
    + rewrite (Ha eq_refl). reflexivity.
    + destruct alive; cbn; [eapply IH; [exact H|discriminate]|reflexivity].
Qed.

Theorem teardown_safe_iff fs : (forall pending, teardown fs pending = Safe) <-> well_ordered fs = true.
Proof.
  split.
  - intros H. destruct (well_ordered fs) eqn:E; [reflexivity|]. specialize (H 1). unfold teardown in H.
    rewrite (unordered_unsafe fs false true E) in H; [discriminate|discriminate].
  - intros H pending. eapply ordered_safe; [exact H|reflexivity].
Qed.

Lemma all_safe (structs : list (string * list fkind)) :
  forallb (fun s => well_ordered (snd s)) structs = true ->
  forall name fs pending, In (name, fs) structs -> teardown fs pending = Safe.
Proof.
  intros H name fs pending Hin. rewrite forallb_forall in H. specialize (H _ Hin). cbn in H. now apply teardown_safe_iff.
Qed.
