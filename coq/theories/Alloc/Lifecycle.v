(* Payload life cycle through a channel (C05): who owns a payload, when its destructor runs.
   One abstract machine for the four ownership disciplines of the crate:
     MOVE   (uni movable)      the queue owns the value, the consumer gets it by value ; teardown drains the ring and drops what is left
     UNIQUE (uni zero-copy)    the queue holds a slot id, the consumer gets an OgreUnique ; teardown does not touch buffered payloads
     SHARED (multi arc / ogre_arc)  one Arc / OgreArc copy per listener queue, consumers may clone ; teardown drops the queued copies
   `refs id` counts the owners of payload id: queued copies + handles held by consumers. *)
From Coq Require Import List Arith Bool Lia ZArith.
Import ListNotations.

Inductive lop :=
| LSend (id : nat)                  (* id is fresh *)
| LRecv (l h : nat)                 (* listener l's next event goes to handle slot h (h is free) *)
| LClone (h h2 : nat)
| LDrop (h : nat)
| LTeardown.

Record lst := {
  queues : list (list nat);         (* one FIFO of payload ids per listener *)
  handles : list (nat * nat);      (* (slot, payload id), slots pairwise distinct *)
  refs : nat -> nat;
  drops : nat -> nat;
  sent : list nat;
  torn : bool
}.

Definition updn {A} (f : nat -> A) (i : nat) (x : A) : nat -> A := fun j => if Nat.eqb j i then x else f j.
Definition hget (hs : list (nat * nat)) (h : nat) : option nat := option_map snd (find (fun e => Nat.eqb (fst e) h) hs).
Fixpoint hdel (hs : list (nat * nat)) (h : nat) : list (nat * nat) :=
  match hs with [] => [] | e :: r => if Nat.eqb (fst e) h then r else e :: hdel r h end.

Section Life.
Variable drains : bool.             (* does the teardown drop buffered payloads / queued copies? *)
Variable clones : bool.             (* are handles clonable? *)

(* one owner of `id` goes away *)
Definition release (r d : nat -> nat) (id : nat) : (nat -> nat) * (nat -> nat) :=
  let n := r id - 1 in (updn r id n, if Nat.eqb n 0 then updn d id (d id + 1) else d).

Definition lstep (s : lst) (o : lop) : lst :=
  match o with
  | LSend id =>
      if torn s || existsb (Nat.eqb id) (sent s) then s else
      let k := length (queues s) in
      {| queues := map (fun q => q ++ [id]) (queues s); handles := handles s; refs := updn (refs s) id k;
         drops := if Nat.eqb k 0 then updn (drops s) id (drops s id + 1) else drops s; sent := id :: sent s; torn := false |}
  | LRecv l h =>
      match nth_error (queues s) l, hget (handles s) h with
      | Some (id :: rest), None =>
          if torn s then s else
          {| queues := firstn l (queues s) ++ [rest] ++ skipn (S l) (queues s); handles := (h, id) :: handles s;
             refs := refs s; drops := drops s; sent := sent s; torn := false |}
      | _, _ => s
      end
  | LClone h h2 =>
      match hget (handles s) h, hget (handles s) h2 with
      | Some id, None =>
          if clones then {| queues := queues s; handles := (h2, id) :: handles s; refs := updn (refs s) id (refs s id + 1);
                            drops := drops s; sent := sent s; torn := torn s |}
          else s
      | _, _ => s
      end
  | LDrop h =>
      match hget (handles s) h with
      | Some id => let '(r, d) := release (refs s) (drops s) id in
                   {| queues := queues s; handles := hdel (handles s) h; refs := r; drops := d; sent := sent s; torn := torn s |}
      | None => s
      end
  | LTeardown =>
      if torn s then s else
      if drains then
        let '(r, d) := fold_left (fun rd id => release (fst rd) (snd rd) id) (concat (queues s)) (refs s, drops s) in
        {| queues := map (fun _ => []) (queues s); handles := handles s; refs := r; drops := d; sent := sent s; torn := true |}
      else {| queues := queues s; handles := handles s; refs := refs s; drops := drops s; sent := sent s; torn := true |}
  end.

Definition linit (k : nat) : lst :=
  {| queues := repeat [] k; handles := []; refs := fun _ => 0; drops := fun _ => 0; sent := []; torn := false |}.

(* what the correspondence check compares: after every operation, the destructor count of every payload sent so far *)
Definition snapshot (s : lst) : list Z := flat_map (fun id => [2; 0; 60; Z.of_nat id; Z.of_nat (drops s id)]%Z) (rev (sent s)).
Fixpoint lrun (s : lst) (ops : list lop) : list Z :=
  match ops with
  | [] => [9%Z]
  | o :: rest => let s' := lstep s o in ([2; 0; 61; 0; 0]%Z ++ snapshot s') ++ lrun s' rest
  end.
End Life.

Definition run_life (drains clones : bool) (k : nat) (ops : list lop) : list Z := lrun drains clones (linit k) ops.
