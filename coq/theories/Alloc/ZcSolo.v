(* C20, positive half for the zero-copy full-sync Uni channel's queue component (Alloc/ZcUni.v over the full-sync ring):
   send_with_async = allocate a pool slot ; await the setter ; publish the slot id.  A producer suspended at the await stands between
   its allocation (completed: the free list's flag is released) and its publication (not started: it has not touched the id ring's
   flag) - it holds NEITHER spin flag.  And whenever no thread holds a flag, any operation of any other thread - send, consume,
   release of a handle - run on its own completes within 4 of its own steps, with its proper result, leaving both flags free again.
   (On the two movable channels the suspended producer does hold what the others need: Suspend.v refutes the property there, F12.) *)
From RM Require Import RingModel FullSync ZeroCopy ZcUni.

Section FsSolo.
Variable N : Z.
Local Notation fstp := (fstepZ N).
Definition fsidle (s : fsst) (t : nat) : bool := match fthr s t with FIdle => true | _ => false end.

(* one operation of the full-sync ring run alone from a state where the flag is free: 2 steps (the CAS, the store) *)
Lemma fs_solo x t o :
  fthr x t = FIdle -> flock x = false ->
  let x1 := fstp (fstart x t o) t in let x2 := fstp x1 t in
  (match o with OpLen => fsidle x1 t = true /\ flock x1 = false /\ exists r, flog x1 = flog x ++ [(t, r)] /\ matches o r
              | _ => fsidle x1 t = false /\ fsidle x2 t = true /\ flock x2 = false /\ (exists r, flog x2 = flog x ++ [(t, r)] /\ matches o r) /\
                     (forall u, u <> t -> fthr x2 u = fthr x u) end).
Proof.
  intros Hi Hl. unfold fstart. rewrite Hi. unfold fstepZ, fstep, fset, idz, fsidle. cbn [fthr flock fhead ftail flog]. rewrite upd_same.
  destruct o as [v| |].
  - rewrite Hl. destruct (ftail x - fhead x <? N); cbn [fthr flock flog]; rewrite !upd_same; cbn [fthr flock flog]; rewrite !upd_same;
      (split; [reflexivity|split; [reflexivity|split; [reflexivity|split; [eexists; split; [reflexivity|cbn; reflexivity]|intros u Hu; now rewrite !upd_other]]]]).
  - rewrite Hl. destruct (0 <? ftail x - fhead x); cbn [fthr flock flog]; rewrite !upd_same; cbn [fthr flock flog]; rewrite !upd_same;
      (split; [reflexivity|split; [reflexivity|split; [reflexivity|split; [eexists; split; [reflexivity|cbn; exact I]|intros u Hu; now rewrite !upd_other]]]]).
  - cbn [fthr flock flog]. rewrite upd_same. split; [reflexivity|split; [exact Hl|eexists; split; [reflexivity|exact I]]].
Qed.
End FsSolo.

Section ZcSolo.
Variable N : Z.

Local Notation ust := (ust fsst).
Local Notation fstp := (fstepZ N).
Definition zstep (s : ust) (t : nat) : ust := ustep fsst fstp fstart fsidle flog false (fun b => ftail b - fhead b) s t.
Definition zstart (s : ust) (t : nat) (o : op) : ust := ustart fsst fstart false s t o.
Definition zrelease (s : ust) (t : nat) : ust := urelease fsst fstart s t.

(* nobody is between a flag CAS and the flag store, in either component *)
Definition unlocked (s : ust) : Prop := flock (ua _ s) = false /\ flock (ub _ s) = false.
Definition comp_idle (s : ust) (t : nat) : Prop := fthr (ua _ s) t = FIdle /\ fthr (ub _ s) t = FIdle.

(* a producer suspended inside send_with_async: its slot is allocated (component A is done with it), the publication of the id has
   not performed its first access *)
Definition suspended (s : ust) (t : nat) : Prop :=
  exists v id, uthr _ s t = UEnqB v id /\ fthr (ua _ s) t = FIdle /\ fthr (ub _ s) t = FPL id.
Lemma suspended_holds_no_flag s t : suspended s t -> holds_lock (fthr (ua _ s) t) = false /\ holds_lock (fthr (ub _ s) t) = false.
Proof. intros (v & id & _ & -> & ->). split; reflexivity. Qed.

Lemma lastres_snoc (x : fsst) l t r : flog x = l ++ [(t, r)] -> lastres fsst flog x = r.
Proof. intros H. unfold lastres. rewrite H, last_last. reflexivity. Qed.

(* unfolding one composite step, by the composite's pc *)
Lemma zstep_enqA s t v : uthr _ s t = UEnqA v ->
  zstep s t = let a := fstp (ua _ s) t in
              if fsidle a t then
                match lastres fsst flog a with
                | RGot id => umk _ a (fstart (ub _ s) t (OpPub id)) (updz (upool _ s) id v) (upd (uthr _ s) t (UEnqB v id)) (ulog _ s) (uheld _ s)
                | _ => umk _ a (ub _ s) (upool _ s) (upd (uthr _ s) t UIdle) (ulog _ s ++ [(t, RFull v)]) (uheld _ s)
                end
              else umk _ a (ub _ s) (upool _ s) (uthr _ s) (ulog _ s) (uheld _ s).
Proof. intros H. unfold zstep, ustep. rewrite H. reflexivity. Qed.
Lemma zstep_enqB s t v id : uthr _ s t = UEnqB v id ->
  zstep s t = let b := fstp (ub _ s) t in
              if fsidle b t then
                match lastres fsst flog b with
                | ROk _ len => umk _ (ua _ s) b (upool _ s) (upd (uthr _ s) t UIdle) (ulog _ s ++ [(t, ROk v len)]) (uheld _ s)
                | _ => umk _ (ua _ s) b (upool _ s) (upd (uthr _ s) t UIdle) (ulog _ s ++ [(t, RFull v)]) (uheld _ s)
                end
              else umk _ (ua _ s) b (upool _ s) (uthr _ s) (ulog _ s) (uheld _ s).
Proof. intros H. unfold zstep, ustep. rewrite H. reflexivity. Qed.
Lemma zstep_deqB s t : uthr _ s t = UDeqB ->
  zstep s t = let b := fstp (ub _ s) t in
              if fsidle b t then
                match lastres fsst flog b with
                | RGot id => umk _ (ua _ s) b (upool _ s) (upd (uthr _ s) t UIdle) (ulog _ s ++ [(t, RGot (upool _ s id))]) (upd (uheld _ s) t (Some id))
                | _ => umk _ (ua _ s) b (upool _ s) (upd (uthr _ s) t UIdle) (ulog _ s ++ [(t, REmpty)]) (uheld _ s)
                end
              else umk _ (ua _ s) b (upool _ s) (uthr _ s) (ulog _ s) (uheld _ s).
Proof. intros H. unfold zstep, ustep. rewrite H. reflexivity. Qed.
Lemma zstep_rel s t id : uthr _ s t = URel id ->
  zstep s t = let a := fstp (ua _ s) t in
              if fsidle a t then umk _ a (ub _ s) (upool _ s) (upd (uthr _ s) t UIdle) (ulog _ s) (uheld _ s)
              else umk _ a (ub _ s) (upool _ s) (uthr _ s) (ulog _ s) (uheld _ s).
Proof. intros H. unfold zstep, ustep. rewrite H. reflexivity. Qed.

Definition solo (n : nat) (s : ust) (t : nat) : ust := Nat.iter n (fun x => zstep x t) s.
Definition done_with (s s' : ust) (t : nat) (o : op) : Prop :=
  uthr _ s' t = UIdle /\ unlocked s' /\ exists r, ulog _ s' = ulog _ s ++ [(t, r)] /\ matches o r.

(* a consume run alone: 2 own steps *)
Theorem solo_consume s t : unlocked s -> uthr _ s t = UIdle -> comp_idle s t -> done_with s (solo 2 (zstart s t OpCons) t) t OpCons.
Proof.
  intros [La Lb] Hi [Ha Hb].
  destruct (fs_solo N (ub _ s) t OpCons Hb Lb) as (B1 & B2 & B3 & (r & Br & _) & _).
  unfold solo. cbn [Nat.iter nat_rect]. unfold zstart, ustart. rewrite Hi. cbn [ua ub upool uthr ulog uheld umk].
  set (s1 := umk _ _ _ _ _ _ _).
  assert (E1 : uthr _ s1 t = UDeqB) by (subst s1; cbn; apply upd_same).
  rewrite (zstep_deqB s1 t E1). cbv zeta. subst s1. cbn [ua ub upool uthr ulog uheld umk]. rewrite B1.
  set (s2 := umk _ _ _ _ _ _ _).
  assert (E2 : uthr _ s2 t = UDeqB) by (subst s2; cbn; apply upd_same).
  rewrite (zstep_deqB s2 t E2). cbv zeta. subst s2. cbn [ua ub upool uthr ulog uheld umk]. rewrite B2, (lastres_snoc _ _ _ _ Br).
  destruct r; unfold done_with, unlocked; cbn [ua ub upool uthr ulog uheld umk]; rewrite !upd_same;
    (split; [reflexivity|split; [split; assumption|eexists; split; [reflexivity|exact I]]]).
Qed.

(* the release of a held handle run alone: 2 own steps, no response *)
Theorem solo_release s t id : unlocked s -> uthr _ s t = UIdle -> comp_idle s t -> uheld _ s t = Some id ->
  let s' := solo 2 (zrelease s t) t in uthr _ s' t = UIdle /\ unlocked s' /\ ulog _ s' = ulog _ s.
Proof.
  intros [La Lb] Hi [Ha Hb] Hh.
  destruct (fs_solo N (ua _ s) t (OpPub id) Ha La) as (A1 & A2 & A3 & _ & _).
  unfold solo. cbn [Nat.iter nat_rect]. unfold zrelease, urelease. rewrite Hi, Hh. cbn [ua ub upool uthr ulog uheld umk].
  set (s1 := umk _ _ _ _ _ _ _).
  assert (E1 : uthr _ s1 t = URel id) by (subst s1; cbn; apply upd_same).
  rewrite (zstep_rel s1 t id E1). cbv zeta. subst s1. cbn [ua ub upool uthr ulog uheld umk]. rewrite A1.
  set (s2 := umk _ _ _ _ _ _ _).
  assert (E2 : uthr _ s2 t = URel id) by (subst s2; cbn; apply upd_same).
  rewrite (zstep_rel s2 t id E2). cbv zeta. subst s2. cbn [ua ub upool uthr ulog uheld umk]. rewrite A2.
  unfold unlocked. cbn [ua ub upool uthr ulog uheld umk]. rewrite upd_same. repeat split; assumption.
Qed.

(* a send run alone: at most 4 own steps (allocation: 2, publication of the id: 2; 2 when no slot is free) *)
Theorem solo_publish s t v : unlocked s -> uthr _ s t = UIdle -> comp_idle s t ->
  exists n, (n <= 4)%nat /\ done_with s (solo n (zstart s t (OpPub v)) t) t (OpPub v).
Proof.
  intros [La Lb] Hi [Ha Hb].
  destruct (fs_solo N (ua _ s) t OpCons Ha La) as (A1 & A2 & A3 & (r & Ar & _) & Aoth).
  unfold zstart, ustart. rewrite Hi. cbn [ua ub upool uthr ulog uheld umk].
  set (s1 := umk _ _ _ _ _ _ _).
  assert (E1 : uthr _ s1 t = UEnqA v) by (subst s1; cbn; apply upd_same).
  set (x1 := fstp (fstart (ua _ s) t OpCons) t) in *. set (x2 := fstp x1 t) in *.
  assert (S1 : zstep s1 t = umk _ x1 (ub _ s) (upool _ s) (uthr _ s1) (ulog _ s) (uheld _ s)).
  { rewrite (zstep_enqA s1 t v E1). cbv zeta. subst s1. cbn [ua ub upool uthr ulog uheld umk]. fold x1. rewrite A1. reflexivity. }
  set (s2 := umk _ x1 (ub _ s) (upool _ s) (uthr _ s1) (ulog _ s) (uheld _ s)) in *.
  assert (E2 : uthr _ s2 t = UEnqA v) by (subst s2; cbn; exact E1).
  destruct r as [w|w l| |id|n0].
  all: try (exists 2%nat; split; [lia|]; unfold solo; cbn [Nat.iter nat_rect]; rewrite S1, (zstep_enqA s2 t v E2); cbv zeta; subst s2;
            cbn [ua ub upool uthr ulog uheld umk]; fold x2; rewrite A2, (lastres_snoc _ _ _ _ Ar);
            unfold done_with, unlocked; cbn [ua ub upool uthr ulog uheld umk]; subst s1; cbn [uthr umk]; rewrite !upd_same;
            (split; [reflexivity|split; [split; assumption|eexists; split; [reflexivity|reflexivity]]]); fail).
  (* a slot was allocated: the id goes into the ring *)
  destruct (fs_solo N (ub _ s) t (OpPub id) Hb Lb) as (B1 & B2 & B3 & (r2 & Br & _) & _).
  set (y1 := fstp (fstart (ub _ s) t (OpPub id)) t) in *. set (y2 := fstp y1 t) in *.
  exists 4%nat. split; [lia|]. unfold solo. cbn [Nat.iter nat_rect]. rewrite S1, (zstep_enqA s2 t v E2). cbv zeta. subst s2.
  cbn [ua ub upool uthr ulog uheld umk]. fold x2. rewrite A2, (lastres_snoc _ _ _ _ Ar).
  set (s3 := umk _ _ _ _ _ _ _).
  assert (E3 : uthr _ s3 t = UEnqB v id) by (subst s3; cbn; apply upd_same).
  rewrite (zstep_enqB s3 t v id E3). cbv zeta. subst s3. cbn [ua ub upool uthr ulog uheld umk]. fold y1. rewrite B1.
  set (s4 := umk _ _ _ _ _ _ _).
  assert (E4 : uthr _ s4 t = UEnqB v id) by (subst s4; cbn; apply upd_same).
  rewrite (zstep_enqB s4 t v id E4). cbv zeta. subst s4. cbn [ua ub upool uthr ulog uheld umk]. fold y2. rewrite B2, (lastres_snoc _ _ _ _ Br).
  destruct r2; unfold done_with, unlocked; cbn [ua ub upool uthr ulog uheld umk]; rewrite !upd_same;
    (split; [reflexivity|split; [split; assumption|eexists; split; [reflexivity|reflexivity]]]).
Qed.

(* which component a composite thread is inside: the other one is idle for it *)
Definition phase_ok (s : ust) (t : nat) : Prop :=
  match uthr _ s t with
  | UIdle => fthr (ua _ s) t = FIdle /\ fthr (ub _ s) t = FIdle
  | UEnqA _ | URel _ => fthr (ub _ s) t = FIdle
  | UEnqB _ _ | UDeqB => fthr (ua _ s) t = FIdle
  | ULenB => fthr (ua _ s) t = FIdle /\ fthr (ub _ s) t = FIdle        (* (the length is a plain read on this kind: no component is entered) *)
  end.
Definition CI (s : ust) : Prop := forall t, phase_ok s t.

Lemma fstp_other x t u : u <> t -> fthr (fstp x t) u = fthr x u.
Proof.
  intros Hn. unfold fstepZ, fstep, idz. destruct (fthr x t) eqn:E; try reflexivity;
  repeat match goal with |- context[if ?b then _ else _] => destruct b end; try reflexivity; cbn [fthr]; now rewrite upd_other.
Qed.
Lemma fstart_other x t o u : u <> t -> fthr (fstart x t o) u = fthr x u.
Proof. intros Hn. unfold fstart. destruct (fthr x t); try reflexivity. cbn. now rewrite upd_other. Qed.
Lemma fsidle_true x t : fsidle x t = true -> fthr x t = FIdle.
Proof. unfold fsidle. destruct (fthr x t); congruence. Qed.

Ltac ci_other Hn := cbn [ua ub upool uthr ulog uheld umk]; rewrite ?upd_other by assumption; rewrite ?fstp_other, ?fstart_other by assumption.

Lemma ci_step s t : CI s -> CI (zstep s t).
Proof.
  intros C u. pose proof (C u) as Cu. pose proof (C t) as Ct. unfold phase_ok in *.
  destruct (uthr _ s t) eqn:E.
  - unfold zstep, ustep. rewrite E. exact Cu.
  - rewrite (zstep_enqA s t v E). cbv zeta. destruct (fsidle (fstp (ua _ s) t) t) eqn:Ei.
    + destruct (lastres fsst flog (fstp (ua _ s) t)); destruct (Nat.eq_dec u t) as [->|Hn];
        try (cbn [ua ub upool uthr ulog uheld umk]; rewrite upd_same; auto using fsidle_true; fail);
        try (ci_other Hn; exact Cu).
    + destruct (Nat.eq_dec u t) as [->|Hn]; [cbn [ua ub upool uthr ulog uheld umk]; rewrite E; exact Ct|ci_other Hn; exact Cu].
  - rewrite (zstep_enqB s t v id E). cbv zeta. destruct (fsidle (fstp (ub _ s) t) t) eqn:Ei.
    + destruct (lastres fsst flog (fstp (ub _ s) t)); destruct (Nat.eq_dec u t) as [->|Hn];
        try (cbn [ua ub upool uthr ulog uheld umk]; rewrite upd_same; auto using fsidle_true; fail);
        try (ci_other Hn; exact Cu).
    + destruct (Nat.eq_dec u t) as [->|Hn]; [cbn [ua ub upool uthr ulog uheld umk]; rewrite E; exact Ct|ci_other Hn; exact Cu].
  - rewrite (zstep_deqB s t E). cbv zeta. destruct (fsidle (fstp (ub _ s) t) t) eqn:Ei.
    + destruct (lastres fsst flog (fstp (ub _ s) t)); destruct (Nat.eq_dec u t) as [->|Hn];
        try (cbn [ua ub upool uthr ulog uheld umk]; rewrite upd_same; auto using fsidle_true; fail);
        try (ci_other Hn; exact Cu).
    + destruct (Nat.eq_dec u t) as [->|Hn]; [cbn [ua ub upool uthr ulog uheld umk]; rewrite E; exact Ct|ci_other Hn; exact Cu].
  - rewrite (zstep_rel s t id E). cbv zeta. destruct (fsidle (fstp (ua _ s) t) t) eqn:Ei.
    + destruct (Nat.eq_dec u t) as [->|Hn]; [cbn [ua ub upool uthr ulog uheld umk]; rewrite upd_same; auto using fsidle_true|ci_other Hn; exact Cu].
    + destruct (Nat.eq_dec u t) as [->|Hn]; [cbn [ua ub upool uthr ulog uheld umk]; rewrite E; exact Ct|ci_other Hn; exact Cu].
  - unfold zstep, ustep. rewrite E. destruct (Nat.eq_dec u t) as [->|Hn]; [cbn [ua ub upool uthr ulog uheld umk]; rewrite upd_same|ci_other Hn; exact Cu].
    exact Ct.
Qed.

Lemma ci_start s t o : CI s -> CI (zstart s t o).
Proof.
  intros C u. pose proof (C u) as Cu. pose proof (C t) as Ct. unfold phase_ok in *. unfold zstart, ustart.
  destruct (uthr _ s t) eqn:E; try exact Cu.
  destruct o; (destruct (Nat.eq_dec u t) as [->|Hn]; [cbn [ua ub upool uthr ulog uheld umk]; rewrite upd_same; tauto|ci_other Hn; exact Cu]).
Qed.
Lemma ci_release s t : CI s -> CI (zrelease s t).
Proof.
  intros C u. pose proof (C u) as Cu. pose proof (C t) as Ct. unfold phase_ok in *. unfold zrelease, urelease.
  destruct (uthr _ s t) eqn:E; try exact Cu. destruct (uheld _ s t); [|exact Cu].
  destruct (Nat.eq_dec u t) as [->|Hn]; [cbn [ua ub upool uthr ulog uheld umk]; rewrite upd_same; tauto|ci_other Hn; exact Cu].
Qed.

End ZcSolo.
