(* PAYLOAD level of the zero-copy FULL-SYNC Uni channel (Alloc/ZcUni.v over two full-sync rings, Alloc/ZcSolo.v, Chan/ChanZInst.v
   Section ZcFullSync): ZcConserveFS.v speaks about slot IDS; here: the VALUES the consumers receive (the full-sync twin of ZcPayload.v).
   The full-sync ring moves its counters ONE STEP BEFORE the operation returns (FPL: `fpublished`/`ftail`, FCL: `fhead`; the return and
   the log entry of the composite - ROk / RGot in `ulog` - come with the flag store FPU / FCU).  So the clean equation
       accepted_of ulog = yielded_of ulog ++ map upool (finring B)
   holds whenever B's flag is free, and while a thread stands between its flag CAS and its flag store (there is at most one: FInv's
   mutual exclusion) the equation is off by exactly that thread's pending answer:
       B at FPU id (Some _)  (a publisher, composite pc UEnqB v id):  finring B = R ++ [id],  accepted = yielded ++ map upool R
                                                                      (and upool id = v: accepted ++ [v] = yielded ++ map upool (finring B))
       B at FCU (Some id)    (a consumer,  composite pc UDeqB)     :  accepted = yielded ++ upool id :: map upool (finring B)
       B at FCU None / FPU _ None                                  :  the clean equation.
   Preservation needs slot conservation (ZcConserveFS.ZIF): the only pool write `updz pool id v` happens in the composite step
   UEnqA v -> UEnqB v id, with id in the custody of the writing thread (taken out of the free list A by its FCL step) - so id is not
   in B, is not the id a consumer standing at B's flag store has just taken out of B, and is not the id of anybody else's transit. *)
From Coq Require Import Permutation.
From RM Require Import RingModel FullSync Chan ZeroCopy PoolRun ZcUni ChanZ ChanZProps ZcSolo ZcView ChanZInst ZcConserve ZcConserveFS.
Import ZC.

(* ------------------------------------------------------------------------------------------------ list helpers *)
Lemma prefix_of_app {A} (y x l : list A) : l = y ++ x -> y = firstn (length y) l.
Proof. intros ->. rewrite firstn_app, Nat.sub_diag, firstn_all. cbn. now rewrite app_nil_r. Qed.
Lemma flat_map_single {B} (f : nat -> list B) ths t :
  NoDup ths -> In t ths -> (forall u, u <> t -> f u = []) -> flat_map f ths = f t.
Proof.
  induction ths as [|a l IH]; intros Hn Hin Ho; [destruct Hin|]. inversion Hn as [|? ? Hnin Hn']; subst. cbn [flat_map].
  destruct (Nat.eq_dec a t) as [->|Hne].
  - assert (E : flat_map f l = []).
    { clear IH Hn Hin Hn'. induction l as [|b l IH]; [reflexivity|]. cbn [flat_map]. rewrite (Ho b), IH; [reflexivity| |].
      - intros H. apply Hnin. now right.
      - intros ->. apply Hnin. now left. }
    now rewrite E, app_nil_r.
  - destruct Hin as [->|Hin]; [contradiction|]. rewrite (Ho a Hne). cbn. now apply IH.
Qed.

(* ------------------------------------------------------------------------------------------------ ring-level facts *)
Section FsFacts2.
Variable N : Z.
Local Notation fstp := (fstepZ N).

Lemma fstp_CL_busy x t : fthr x t = FCL -> fthr (fstp x t) t <> FIdle.
Proof.
  intros E. unfold fstepZ, fstep, idz. rewrite E. destruct (flock x); [rewrite E; discriminate|].
  destruct (0 <? ftail x - fhead x); cbn [fthr]; rewrite upd_same; discriminate.
Qed.
Lemma fstp_PL_busy x t v : fthr x t = FPL v -> fthr (fstp x t) t <> FIdle.
Proof.
  intros E. unfold fstepZ, fstep, idz. rewrite E. destruct (flock x); [rewrite E; discriminate|].
  destruct (ftail x - fhead x <? N); cbn [fthr]; rewrite upd_same; discriminate.
Qed.
Lemma fstart_flog x t o : flog (fstart x t o) = flog x.
Proof. unfold fstart. destruct (fthr x t); reflexivity. Qed.
(* the flag is free: nobody stands between a flag CAS and the flag store *)
Lemma nolock_all x : FInv N x -> flock x = false -> forall u, holds_lock (fthr x u) = false.
Proof. intros I El u. destruct (holds_lock (fthr x u)) eqn:Eh; [|reflexivity]. pose proof (f_flag _ _ I u Eh). congruence. Qed.
(* a thread holds the flag: it is the only one *)
Lemma nolock_others x t : FInv N x -> holds_lock (fthr x t) = true -> forall u, u <> t -> holds_lock (fthr x u) = false.
Proof. intros I Ht u Hn. destruct (holds_lock (fthr x u)) eqn:Eh; [|reflexivity]. exfalso. apply Hn. exact (f_mutex _ _ I u t Eh Ht). Qed.
End FsFacts2.

Section PayloadFS.
Variable N : Z.
Hypothesis Npos : 0 < N.
Local Notation ust := (ust fsst).
Local Notation fstp := (fstepZ N).
Local Notation zstep := (ZcSolo.zstep N).
Local Notation lastres := (lastres fsst flog).

(* what the pc of a thread inside the id ring B says about the payload equation (p the pool, fr the contents of B, ac / yl the
   accepted / yielded values of the composite log) *)
Definition winok (p : Z -> Z) (fr ac yl : list Z) (pc : fpc) : Prop :=
  match pc with
  | FPU id (Some _) => exists R, fr = R ++ [id] /\ ac = yl ++ map p R
  | FCU (Some id) => ac = yl ++ p id :: map p fr
  | FPU _ None | FCU None => ac = yl ++ map p fr
  | _ => True
  end.
Lemma winok_nolock p fr ac yl pc : holds_lock pc = false -> winok p fr ac yl pc.
Proof. destruct pc as [| |? [?|]| |[?|]|]; cbn; intros H; try discriminate; exact I. Qed.

(* the payload invariant *)
Record ContentF (s : ust) : Prop := {
  cf_sync : flock (ub _ s) = false -> accepted_of (ulog _ s) = yielded_of (ulog _ s) ++ map (upool _ s) (finring (ub _ s));
  cf_win  : forall t, winok (upool _ s) (finring (ub _ s)) (accepted_of (ulog _ s)) (yielded_of (ulog _ s)) (fthr (ub _ s) t);
  cf_tr   : forall t v id, uthr _ s t = UEnqB v id -> upool _ s id = v;
  cf_yld  : length (yielded_of (ulog _ s)) = length (yielded_of (flog (ub _ s)))   (* the composite log and B's log count deliveries alike *)
}.
Definition PIF (s : ust) : Prop := ZIF N s /\ ContentF s.

(* the invariant does not mention the free list A, nor the handle registers *)
Lemma contentf_a s a' h' : ContentF s -> ContentF (umk fsst a' (ub _ s) (upool _ s) (uthr _ s) (ulog _ s) h').
Proof. intros [C1 C2 C3 C4]. constructor; assumption. Qed.

(* a move that touches neither the pool, nor the contents / the flag / the flag holder of the id ring, nor the accepted / yielded
   values of the two logs *)
Lemma contentf_frame s a' b' th' l' h' : ContentF s ->
  finring b' = finring (ub _ s) -> flock b' = flock (ub _ s) ->
  (forall u, holds_lock (fthr b' u) = true -> fthr b' u = fthr (ub _ s) u) ->
  yielded_of (flog b') = yielded_of (flog (ub _ s)) ->
  accepted_of l' = accepted_of (ulog _ s) -> yielded_of l' = yielded_of (ulog _ s) ->
  (forall u v id, th' u = UEnqB v id -> uthr _ s u = UEnqB v id) ->
  ContentF (umk fsst a' b' (upool _ s) th' l' h').
Proof.
  intros [C1 C2 C3 C4] Hr Hf Hl Hfy Ha Hy Ht. constructor; cbn [ua ub upool uthr ulog uheld umk].
  - rewrite Hf, Hr, Ha, Hy. exact C1.
  - intros u. destruct (holds_lock (fthr b' u)) eqn:Eh; [|now apply winok_nolock].
    rewrite (Hl u Eh), Hr, Ha, Hy. apply C2.
  - intros t v id E. exact (C3 t v id (Ht _ _ _ E)).
  - now rewrite Hy, Hfy.
Qed.

Ltac same_thr t E := intros u w i; destruct (Nat.eq_dec u t) as [->|Hne];
  [rewrite ?upd_same; try discriminate; try (rewrite E; discriminate); auto|rewrite ?upd_other by assumption; auto].
Ltac snoc_nil := rewrite ?facc_snoc, ?fyld_snoc; cbn [app]; rewrite ?app_nil_r; reflexivity.

(* a consumer between the flag CAS and the flag store of B has custody of the id it took out *)
Lemma win_cons_owned s u id : ZIF N s -> fthr (ub _ s) u = FCU (Some id) -> In id (fheldl s u ++ ftransl s u).
Proof.
  intros Z Eu. apply in_or_app. right. pose proof (zf_ph _ _ Z u) as P. unfold fphase in P. unfold ftransl. rewrite Eu in *.
  destruct (uthr _ s u); cbn in P; destruct P as [P1 P2]; try discriminate. now left.
Qed.
(* a thread carrying id: it has custody of it, or id is already in B *)
Lemma enqB_owned_or_in s u w id : ZIF N s -> ContentF s -> uthr _ s u = UEnqB w id ->
  In id (fheldl s u ++ ftransl s u) \/ In id (finring (ub _ s)).
Proof.
  intros Z C Eu. pose proof (zf_ph _ _ Z u) as P. unfold fphase in P. rewrite Eu in P. cbn [fphase_of] in P. destruct P as [P1 P2].
  pose proof (cf_win _ C u) as W.
  destruct (fthr (ub _ s) u) as [|x|x [len|]| | |] eqn:Eb; cbn in P2; try discriminate; injection P2 as ->.
  - left. apply in_or_app. right. unfold ftransl. rewrite Eu, Eb. now left.
  - right. cbn in W. destruct W as (R & -> & _). apply in_or_app. right. now left.
  - left. apply in_or_app. right. unfold ftransl. rewrite Eu, Eb. now left.
Qed.

Theorem contentf_step s t : ZIF N s -> ContentF s -> ContentF (zstep s t).
Proof.
  intros Z C. destruct (zif_room N s t Z) as [RoomA RoomB].
  pose proof (zf_ia _ _ Z) as Ia. pose proof (zf_ib _ _ Z) as Ib.
  pose proof (zf_ph _ _ Z t) as P. unfold fphase in P.
  pose proof (zf_2a _ _ Z) as H2a. pose proof (zf_2b _ _ Z) as H2b. pose proof (zf_cons _ _ Z) as Cv.
  pose proof (win_cons_owned s) as Wown. pose proof (enqB_owned_or_in s) as Eown.
  destruct s as [a b p th l h]. cbn [ua ub upool uthr ulog uheld] in *. fold (umk fsst a b p th l h) in *.
  assert (Ib' : FInv N (fstp b t)) by now apply finv_step.
  destruct (th t) eqn:E; cbn [fphase_of] in P; destruct P as [P1 P2].
  - (* UIdle *) rewrite (z_idle N _ _ _ _ _ _ _ E). exact C.
  - (* UEnqA v: inside the allocation *)
    destruct (fthr a t) as [| | | |r|] eqn:Ea; cbn in P1; try discriminate.
    + rewrite (z_enqA_busy N a b p th l h t v E (fstp_CL_busy N a t Ea)). exact (contentf_a _ _ _ C).
    + destruct (fstep_CU N a t r Ea) as (Ht & Hp & Hh & Hl & _).
      assert (Hi : fthr (fstp a t) t = FIdle) by (now rewrite Ht, upd_same).
      destruct r as [id|]; cbn [cons_res] in Hl.
      * (* the allocation returns id: the payload is written into slot id *)
        rewrite (z_enqA_got N a b p th l h t v id E Hi (ZcSolo.lastres_snoc _ _ _ _ Hl)).
        destruct (fstart_frame b t (OpPub id)) as [Sp Sh]. destruct (fstart_frame2 b t (OpPub id)) as [_ Sl].
        assert (Hown : In id (fheldl (umk fsst a b p th l h) t ++ ftransl (umk fsst a b p th l h) t)).
        { apply in_or_app. right. unfold ftransl. cbn [ua ub uthr umk]. rewrite E, Ea. now left. }
        destruct (consL_exclusive N _ _ _ _ t id Cv Hown) as (_ & _ & HnB & Huniq). cbn [ua ub umk] in HnB.
        assert (Hmap : forall R, (forall x, In x R -> In x (finring b)) -> map (updz p id v) R = map p R).
        { intros R HR. apply map_ext_in. intros x Hx. apply updz_other. intros ->. apply HnB, HR, Hx. }
        destruct C as [C1 C2 C3 C4]. cbn [ua ub upool uthr ulog uheld umk] in C1, C2, C3, C4.
        constructor; cbn [ua ub upool uthr ulog uheld umk].
        -- rewrite Sl, (finring_same _ _ Sp Sh), (Hmap _ (fun x H => H)). exact C1.
        -- intros u. rewrite (finring_same _ _ Sp Sh). destruct (Nat.eq_dec u t) as [->|Hne].
           { rewrite (fstart_idle b t _ P2). exact I. }
           rewrite fstart_other by assumption. specialize (C2 u).
           destruct (fthr b u) as [| |x [len|]| |[x|]|] eqn:Eu; cbn [winok] in *; try exact I.
           ++ destruct C2 as (R & HR & Hacc). exists R. split; [exact HR|]. rewrite Hmap; [exact Hacc|].
              intros y Hy. rewrite HR. apply in_or_app. now left.
           ++ now rewrite (Hmap _ (fun x H => H)).
           ++ rewrite (Hmap _ (fun x H => H)). rewrite updz_other; [exact C2|].
              intros ->. apply Hne. apply Huniq. exact (Wown u id Z Eu).
           ++ now rewrite (Hmap _ (fun x H => H)).
        -- intros u w i Eu. destruct (Nat.eq_dec u t) as [->|Hne].
           ++ rewrite upd_same in Eu. injection Eu as <- <-. apply updz_same.
           ++ rewrite upd_other in Eu by assumption. rewrite updz_other; [exact (C3 u w i Eu)|]. intros ->.
              destruct (Eown u w id Z (Build_ContentF (umk fsst a b p th l h) C1 C2 C3 C4) Eu) as [Ho|Hin].
              ** apply Hne. now apply Huniq.
              ** exact (HnB Hin).
        -- now rewrite fstart_flog.
      * rewrite (z_enqA_none N a b p th l h t v E Hi (ZcSolo.lastres_snoc _ _ _ _ Hl)).
        apply (contentf_frame _ _ _ _ _ _ C); cbn [ua ub upool uthr ulog uheld umk]; auto; try snoc_nil. same_thr t E.
  - (* UEnqB v id: inside the publication of the id *)
    destruct (fthr b t) as [|w|w r| | |] eqn:Eb; cbn in P2; try discriminate; injection P2 as ->.
    + destruct (flock b) eqn:El.
      { rewrite (z_enqB_busy N a b p th l h t v id E); rewrite (fstep_PL_locked N b t id Eb El); [exact C|rewrite Eb; discriminate]. }
      (* the flag CAS succeeds: id enters B; the answer is still to come *)
      destruct (fstep_PL_ok N b t id Eb El (RoomB id eq_refl)) as (Ht & Hp & Hh & Hl).
      rewrite (z_enqB_busy N a b p th l h t v id E) by (rewrite Ht, upd_same; discriminate).
      assert (Hlk : holds_lock (fthr (fstp b t) t) = true) by (now rewrite Ht, upd_same).
      destruct C as [C1 C2 C3 C4]. cbn [ua ub upool uthr ulog uheld umk] in C1, C2, C3, C4.
      constructor; cbn [ua ub upool uthr ulog uheld umk]; [| |exact C3|now rewrite Hl].
      * intros Hf. pose proof (f_flag _ _ Ib' t Hlk). congruence.
      * intros u. destruct (Nat.eq_dec u t) as [->|Hne]; [|apply winok_nolock; now apply (nolock_others N _ t Ib' Hlk)].
        rewrite Ht, upd_same. cbn [winok]. exists (finring b). split; [exact (finring_pub N b _ id Ib Hp Hh)|exact (C1 El)].
    + (* the flag store: the publish returns, ROk v enters the log *)
      destruct r as [len|]; [|exfalso; exact (H2b t _ Eb)].
      destruct (fstep_PU N b t id _ Eb) as (Ht & Hp & Hh & Hl & Hf). cbn [pub_res] in Hl.
      assert (Hi : fthr (fstp b t) t = FIdle) by (now rewrite Ht, upd_same).
      rewrite (z_enqB_ok N a b p th l h t v id _ _ E Hi (ZcSolo.lastres_snoc _ _ _ _ Hl)).
      destruct C as [C1 C2 C3 C4]. cbn [ua ub upool uthr ulog uheld umk] in C1, C2, C3, C4.
      pose proof (C2 t) as W. rewrite Eb in W. cbn [winok] in W. destruct W as (R & HR & Hacc).
      constructor; cbn [ua ub upool uthr ulog uheld umk].
      * intros _. rewrite facc_snoc, fyld_snoc, app_nil_r, (finring_same _ _ Hp Hh), HR, map_app, Hacc, <- app_assoc. cbn [map].
        now rewrite (C3 t v id E).
      * intros u. apply winok_nolock. now apply (nolock_all N _ Ib' Hf).
      * same_thr t E. apply C3.
      * rewrite Hl, !fyld_snoc, !app_nil_r. exact C4.
  - (* UDeqB: inside the consume on the id ring *)
    destruct (fthr b t) as [| | | |r|] eqn:Eb; cbn in P2; try discriminate.
    + destruct (flock b) eqn:El.
      { rewrite (z_deqB_busy N a b p th l h t E); rewrite (fstep_CL_locked N b t Eb El); [exact C|rewrite Eb; discriminate]. }
      destruct C as [C1 C2 C3 C4]. cbn [ua ub upool uthr ulog uheld umk] in C1, C2, C3, C4.
      destruct (Z_lt_le_dec 0 (ftail b - fhead b)) as [Hlt|Hle].
      * (* the flag CAS succeeds: the head id leaves B; the answer is still to come *)
        destruct (fstep_CL_got N b t Ib Eb El Hlt) as (Ht & Hp & Hh & Hl).
        rewrite (z_deqB_busy N a b p th l h t E) by (rewrite Ht, upd_same; discriminate).
        assert (Hlk : holds_lock (fthr (fstp b t) t) = true) by (now rewrite Ht, upd_same).
        constructor; cbn [ua ub upool uthr ulog uheld umk]; [| |exact C3|now rewrite Hl].
        -- intros Hf. pose proof (f_flag _ _ Ib' t Hlk). congruence.
        -- intros u. destruct (Nat.eq_dec u t) as [->|Hne]; [|apply winok_nolock; now apply (nolock_others N _ t Ib' Hlk)].
           rewrite Ht, upd_same. cbn [winok]. rewrite (C1 El), (finring_cons N b _ Ib Hp Hh ltac:(lia)). reflexivity.
      * destruct (fstep_CL_empty N b t Eb El Hle) as (Ht & Hp & Hh & Hl).
        rewrite (z_deqB_busy N a b p th l h t E) by (rewrite Ht, upd_same; discriminate).
        assert (Hlk : holds_lock (fthr (fstp b t) t) = true) by (now rewrite Ht, upd_same).
        constructor; cbn [ua ub upool uthr ulog uheld umk]; [| |exact C3|now rewrite Hl].
        -- intros Hf. pose proof (f_flag _ _ Ib' t Hlk). congruence.
        -- intros u. destruct (Nat.eq_dec u t) as [->|Hne]; [|apply winok_nolock; now apply (nolock_others N _ t Ib' Hlk)].
           rewrite Ht, upd_same. cbn [winok]. rewrite (finring_same _ _ Hp Hh). exact (C1 El).
    + (* the flag store: the consume returns, RGot (content of the slot) enters the log *)
      destruct (fstep_CU N b t r Eb) as (Ht & Hp & Hh & Hl & Hf).
      assert (Hi : fthr (fstp b t) t = FIdle) by (now rewrite Ht, upd_same).
      destruct C as [C1 C2 C3 C4]. cbn [ua ub upool uthr ulog uheld umk] in C1, C2, C3, C4.
      pose proof (C2 t) as W. rewrite Eb in W.
      destruct r as [id|]; cbn [cons_res] in Hl; cbn [winok] in W.
      * rewrite (z_deqB_got N a b p th l h t id E Hi (ZcSolo.lastres_snoc _ _ _ _ Hl)).
        constructor; cbn [ua ub upool uthr ulog uheld umk].
        -- intros _. rewrite facc_snoc, fyld_snoc, app_nil_r, (finring_same _ _ Hp Hh), <- app_assoc. exact W.
        -- intros u. apply winok_nolock. now apply (nolock_all N _ Ib' Hf).
        -- same_thr t E. apply C3.
        -- rewrite Hl, !fyld_snoc, !app_length. cbn [length]. now rewrite C4.
      * rewrite (z_deqB_empty N a b p th l h t E Hi (ZcSolo.lastres_snoc _ _ _ _ Hl)).
        constructor; cbn [ua ub upool uthr ulog uheld umk].
        -- intros _. rewrite facc_snoc, fyld_snoc, !app_nil_r, (finring_same _ _ Hp Hh). exact W.
        -- intros u. apply winok_nolock. now apply (nolock_all N _ Ib' Hf).
        -- same_thr t E. apply C3.
        -- rewrite Hl, !fyld_snoc, !app_nil_r. exact C4.
  - (* URel id: inside the give-back of the id to the free list *)
    destruct (fthr a t) as [|w|w r| | |] eqn:Ea; cbn in P1; try discriminate; injection P1 as ->.
    + rewrite (z_rel_busy N a b p th l h t id E (fstp_PL_busy N a t id Ea)). exact (contentf_a _ _ _ C).
    + destruct (fstep_PU N a t id _ Ea) as (Ht & _).
      assert (Hi : fthr (fstp a t) t = FIdle) by (now rewrite Ht, upd_same).
      rewrite (z_rel_done N a b p th l h t id E Hi).
      apply (contentf_frame _ _ _ _ _ _ C); cbn [ua ub upool uthr ulog uheld umk]; auto. same_thr t E.
  - (* ULenB: a plain read *)
    rewrite (z_len N a b p th l h t E).
    apply (contentf_frame _ _ _ _ _ _ C); cbn [ua ub upool uthr ulog uheld umk]; auto; try snoc_nil. same_thr t E.
Qed.

Theorem contentf_start s t o : ZIF N s -> ContentF s -> ContentF (zstart s t o).
Proof.
  intros Z C. pose proof (zf_ph _ _ Z t) as P. unfold fphase in P.
  unfold zstart, ustart. destruct s as [a b p th l h]. cbn [ua ub upool uthr ulog uheld] in *. fold (umk fsst a b p th l h) in *.
  destruct (th t) eqn:E; try exact C. cbn [fphase_of] in P. destruct P as [P1 P2].
  destruct o; apply (contentf_frame _ _ _ _ _ _ C); cbn [ua ub upool uthr ulog uheld umk]; auto;
    try (apply finring_same; apply fstart_frame); try apply fstart_frame2; try (now rewrite fstart_flog); try (same_thr t E).
  intros u Hu. destruct (Nat.eq_dec u t) as [->|Hne]; [rewrite (fstart_idle b t _ P2) in Hu; discriminate|now apply fstart_other].
Qed.

Theorem contentf_release s t : ContentF s -> ContentF (zrelease s t).
Proof.
  intros C. unfold zrelease, urelease. destruct s as [a b p th l h]. cbn [ua ub upool uthr ulog uheld] in *. fold (umk fsst a b p th l h) in *.
  destruct (th t) eqn:E; try exact C. destruct (h t) as [id|]; [|exact C].
  apply (contentf_frame _ _ _ _ _ _ C); cbn [ua ub upool uthr ulog uheld umk]; auto. same_thr t E.
Qed.

Theorem contentf_init : ContentF (zcf_q0 N).
Proof. constructor; unfold zcf_q0; cbn [ua ub upool uthr ulog uheld]; [reflexivity|intros t; exact I|discriminate|reflexivity]. Qed.

(* the strengthened invariant through the three kinds of moves of the queue component *)
Theorem pif_step s t : PIF s -> PIF (zstep s t).
Proof. intros [Z C]. split; [now apply (zif_step N Npos)|now apply contentf_step]. Qed.
Theorem pif_start s t o : PIF s -> uheld _ s t = None -> PIF (zstart s t o).
Proof. intros [Z C] H. split; [now apply zif_start|now apply contentf_start]. Qed.
Theorem pif_release s t : PIF s -> PIF (zrelease s t).
Proof. intros [Z C]. split; [now apply zif_release|now apply contentf_release]. Qed.
Theorem pif_init : PIF (zcf_q0 N).
Proof. split; [apply (zif_init N Npos)|apply contentf_init]. Qed.

(* component level: every state reached from `new()` (ZcConserveFS.zfreach) *)
Theorem zfreach_content s : zfreach N s -> PIF s.
Proof.
  induction 1 as [|s t R IH|s t o R IH Hn|s t R IH]; [apply pif_init|now apply pif_step| |now apply pif_release].
  destruct IH as [Z C]. split; [now apply zif_start|now apply contentf_start].
Qed.

(* ---------------------------------------------------------------------------------------------- what ContentF says *)
(* the value of the publish / of the consume standing between its move of the id ring and its return *)
Definition pubwin (s : ust) (t : nat) : list Z :=
  match uthr _ s t, fthr (ub _ s) t with UEnqB v _, FPU _ (Some _) => [v] | _, _ => [] end.
Definition conwin (s : ust) (t : nat) : list Z :=
  match uthr _ s t, fthr (ub _ s) t with UDeqB, FCU (Some id) => [upool _ s id] | _, _ => [] end.

Lemma win_nolock s t : holds_lock (fthr (ub _ s) t) = false -> pubwin s t = [] /\ conwin s t = [].
Proof.
  unfold pubwin, conwin. intros H. destruct (uthr _ s t); destruct (fthr (ub _ s) t) as [| |? [?|]| |[?|]|]; cbn in H; try discriminate; auto.
Qed.

(* the flag of the id ring is free: the clean equation *)
Lemma contentf_unlocked s : PIF s -> flock (ub _ s) = false ->
  yielded_of (ulog _ s) ++ map (upool _ s) (finring (ub _ s)) = accepted_of (ulog _ s).
Proof. intros [Z C] Hf. symmetry. exact (cf_sync _ C Hf). Qed.

(* a thread holds the flag of the id ring: the equation, corrected by that thread's pending answer *)
Lemma contentf_window s t : PIF s -> holds_lock (fthr (ub _ s) t) = true ->
  accepted_of (ulog _ s) ++ pubwin s t = yielded_of (ulog _ s) ++ conwin s t ++ map (upool _ s) (finring (ub _ s)).
Proof.
  intros [Z C] Hl. pose proof (zf_ph _ _ Z t) as P. unfold fphase in P. pose proof (cf_win _ C t) as W.
  unfold pubwin, conwin.
  destruct (fthr (ub _ s) t) as [| |x r| |r|] eqn:Eb; cbn in Hl; try discriminate.
  - destruct (uthr _ s t) eqn:E; cbn in P; destruct P as [P1 P2]; try discriminate. injection P2 as ->.
    destruct r as [len|]; cbn [winok] in W; cbn [app].
    + destruct W as (R & -> & ->). rewrite map_app, <- app_assoc. cbn [map]. now rewrite (cf_tr _ C t v id E).
    + now rewrite app_nil_r.
  - destruct (uthr _ s t) eqn:E; cbn in P; destruct P as [P1 P2]; try discriminate.
    destruct r as [id|]; cbn [winok] in W; cbn [app]; now rewrite app_nil_r.
Qed.

(* ONE equation for every state: `ths` any duplicate-free list of threads containing the holder of B's flag (if any) *)
Lemma contentf_accounted s ths : PIF s -> NoDup ths -> (forall t, holds_lock (fthr (ub _ s) t) = true -> In t ths) ->
  accepted_of (ulog _ s) ++ flat_map (pubwin s) ths =
  yielded_of (ulog _ s) ++ flat_map (conwin s) ths ++ map (upool _ s) (finring (ub _ s)).
Proof.
  intros PI Hn Hin. pose proof (zf_ib _ _ (proj1 PI)) as Ib. destruct (flock (ub _ s)) eqn:El.
  - destruct (f_free _ _ Ib El) as [t Ht].
    rewrite (flat_map_single (pubwin s) ths t Hn (Hin t Ht)), (flat_map_single (conwin s) ths t Hn (Hin t Ht)).
    + now apply contentf_window.
    + intros u Hu. apply win_nolock. now apply (nolock_others N _ t Ib Ht).
    + intros u Hu. apply win_nolock. now apply (nolock_others N _ t Ib Ht).
  - rewrite (flat_map_nil (pubwin s)), (flat_map_nil (conwin s)).
    + rewrite app_nil_r. cbn [app]. symmetry. now apply contentf_unlocked.
    + intros u. apply win_nolock. now apply (nolock_all N _ Ib El).
    + intros u. apply win_nolock. now apply (nolock_all N _ Ib El).
Qed.

(* at most one pending answer *)
Lemma contentf_window_unique s t u : PIF s -> pubwin s t ++ conwin s t <> [] -> pubwin s u ++ conwin s u <> [] -> t = u.
Proof.
  intros [Z C] Ht Hu. apply (f_mutex _ _ (zf_ib _ _ Z)).
  - destruct (holds_lock (fthr (ub _ s) t)) eqn:E; [reflexivity|]. destruct (win_nolock s t E) as [H1 H2]. rewrite H1, H2 in Ht. now contradiction Ht.
  - destruct (holds_lock (fthr (ub _ s) u)) eqn:E; [reflexivity|]. destruct (win_nolock s u E) as [H1 H2]. rewrite H1, H2 in Hu. now contradiction Hu.
Qed.

(* nobody inside an operation on the id ring: the flag is free *)
Lemma quiet_unlocked s : PIF s -> (forall t v id, uthr _ s t <> UEnqB v id) -> (forall t, uthr _ s t <> UDeqB) -> flock (ub _ s) = false.
Proof.
  intros [Z C] He Hd. destruct (flock (ub _ s)) eqn:El; [|reflexivity]. destruct (f_free _ _ (zf_ib _ _ Z) El) as [t Ht].
  pose proof (zf_ph _ _ Z t) as P. unfold fphase in P. specialize (He t). specialize (Hd t).
  destruct (uthr _ s t); cbn in P; destruct P as [P1 P2]; try (rewrite P2 in Ht; discriminate); [now contradiction (He v id)|now contradiction Hd].
Qed.

(* delivered values: a prefix of the accepted values *)
Lemma contentf_prefix s : PIF s ->
  yielded_of (ulog _ s) = firstn (length (yielded_of (ulog _ s))) (accepted_of (ulog _ s)).
Proof.
  intros [Z C]. destruct (flock (ub _ s)) eqn:El; [|exact (prefix_of_app _ _ _ (cf_sync _ C El))].
  destruct (f_free _ _ (zf_ib _ _ Z) El) as [t Ht]. pose proof (cf_win _ C t) as W.
  destruct (fthr (ub _ s) t) as [| |id [len|]| |[id|]|]; cbn in Ht; try discriminate; cbn [winok] in W.
  - destruct W as (R & _ & W). exact (prefix_of_app _ _ _ W).
  - exact (prefix_of_app _ _ _ W).
  - exact (prefix_of_app _ _ _ W).
  - exact (prefix_of_app _ _ _ W).
Qed.

(* the composite log and the id ring count alike, up to the pending answer: with `ths` as above *)
Lemma contentf_positions s ths : PIF s -> NoDup ths -> (forall t, holds_lock (fthr (ub _ s) t) = true -> In t ths) ->
  Z.of_nat (length (yielded_of (ulog _ s))) + Z.of_nat (length (flat_map (conwin s) ths)) = fhead (ub _ s) /\
  Z.of_nat (length (accepted_of (ulog _ s))) + Z.of_nat (length (flat_map (pubwin s) ths)) = ftail (ub _ s).
Proof.
  intros PI Hn Hin. pose proof (contentf_accounted s ths PI Hn Hin) as Hacc. destruct PI as [Z C].
  pose proof (zf_ib _ _ Z) as Ib.
  assert (Hh : Z.of_nat (length (yielded_of (ulog _ s))) + Z.of_nat (length (flat_map (conwin s) ths)) = fhead (ub _ s)).
  { rewrite (cf_yld _ C), <- (f_lend _ _ Ib). destruct (flock (ub _ s)) eqn:El.
    - destruct (f_free _ _ Ib El) as [t Ht].
      rewrite (flat_map_single (conwin s) ths t Hn (Hin t Ht)) by (intros u Hu; apply win_nolock; now apply (nolock_others N _ t Ib Ht)).
      pose proof (f_lag _ _ Ib t) as Hg. pose proof (zf_ph _ _ Z t) as P. unfold fphase in P. unfold conwin.
      destruct (fthr (ub _ s) t) as [| |id [len|]| |[id|]|] eqn:Eb; cbn in Ht; try discriminate;
        destruct (uthr _ s t) eqn:E; cbn in P; destruct P as [P1 P2]; try discriminate; destruct Hg as [_ ->];
        rewrite ?app_length; cbn [length]; lia.
    - rewrite (flat_map_nil (conwin s)) by (intros u; apply win_nolock; now apply (nolock_all N _ Ib El)).
      destruct (f_sync _ _ Ib El) as [_ ->]. cbn [length]. lia. }
  split; [exact Hh|].
  apply (f_equal (@length BinNums.Z)) in Hacc. rewrite !app_length, map_length in Hacc. pose proof (finring_length N _ Ib). lia.
Qed.

End PayloadFS.

(* ------------------------------------------------------------------------------------------------ every channel run *)
Section ChannelRunsFS.
Variable N : Z.
Hypothesis Npos : 0 < N.
Variable M k : nat.
Variable wake_rule : Z -> option nat.
Local Notation run cevs := (q _ (zcf_run N M k wake_rule cevs)).

Theorem zcf_run_content cevs : PIF N (run cevs).
Proof.
  unfold zcf_run.
  apply (zc_guarded_invariant fsst (fstepZ N) fstart fsidle flog false (fun b => ftail b - fhead b) M k wake_rule (PIF N)
           (pif_step N Npos) (pif_start N) (pif_release N) (zcf_q0 N) cevs (pif_init N Npos)).
  - intros t. reflexivity.
  - intros t. cbn. discriminate.
Qed.
End ChannelRunsFS.

(* MAIN THEOREM: the values handed to the consumers are, in order, a prefix of the values accepted *)
Theorem zcf_payload_exactly_once_in_order : forall N, 0 < N -> forall M k wr cevs, let s := q _ (zcf_run N M k wr cevs) in
  yielded_of (ulog _ s) = firstn (length (yielded_of (ulog _ s))) (accepted_of (ulog _ s)).
Proof. intros N Npos M k wr cevs s. apply (contentf_prefix N). apply (zcf_run_content N Npos). Qed.

(* in EVERY state, ONE equation: accepted values ++ the value of the publish whose id is already in B and whose answer is still to come
   = delivered values ++ the value the consume that has already taken its id out of B is about to deliver ++ contents of the queued
   slots.  `ths`: any duplicate-free list of threads that contains the holder of B's flag (if there is one) - e.g. all the threads of
   the run; at most one thread contributes (zcf_payload_window below). *)
Theorem zcf_payload_accounted : forall N, 0 < N -> forall M k wr cevs, let s := q _ (zcf_run N M k wr cevs) in
  forall ths, NoDup ths -> (forall t, holds_lock (fthr (ub _ s) t) = true -> In t ths) ->
  accepted_of (ulog _ s) ++ flat_map (pubwin s) ths =
  yielded_of (ulog _ s) ++ flat_map (conwin s) ths ++ map (upool _ s) (finring (ub _ s)).
Proof. intros N Npos M k wr cevs s ths. apply (contentf_accounted N). apply (zcf_run_content N Npos). Qed.

(* the same, thread by thread: the flag of the id ring free - the clean equation; held by t - corrected by t's pending answer;
   and there is at most one pending answer *)
Theorem zcf_payload_window : forall N, 0 < N -> forall M k wr cevs, let s := q _ (zcf_run N M k wr cevs) in
  (flock (ub _ s) = false -> yielded_of (ulog _ s) ++ map (upool _ s) (finring (ub _ s)) = accepted_of (ulog _ s)) /\
  (forall t, holds_lock (fthr (ub _ s) t) = true ->
     accepted_of (ulog _ s) ++ pubwin s t = yielded_of (ulog _ s) ++ conwin s t ++ map (upool _ s) (finring (ub _ s))) /\
  (forall t, holds_lock (fthr (ub _ s) t) = false -> pubwin s t = [] /\ conwin s t = []) /\
  (forall t u, pubwin s t ++ conwin s t <> [] -> pubwin s u ++ conwin s u <> [] -> t = u) /\
  (forall t, (length (pubwin s t ++ conwin s t) <= 1)%nat).
Proof.
  intros N Npos M k wr cevs s. pose proof (zcf_run_content N Npos M k wr cevs) as PI. fold s in PI.
  split; [now apply (contentf_unlocked N)|]. split; [intros t; now apply (contentf_window N)|]. split; [intros t; apply win_nolock|].
  split; [intros t u; now apply (contentf_window_unique N)|].
  intros t. unfold pubwin, conwin. destruct (uthr _ s t); destruct (fthr (ub _ s) t) as [| |? [?|]| |[?|]|]; cbn; lia.
Qed.

(* no thread inside an operation on the id ring (mid-allocation, mid-release, suspended... all allowed): nothing pending *)
Theorem zcf_payload_accounted_quiet : forall N, 0 < N -> forall M k wr cevs, let s := q _ (zcf_run N M k wr cevs) in
  (forall t v id, uthr _ s t <> UEnqB v id) -> (forall t, uthr _ s t <> UDeqB) ->
  yielded_of (ulog _ s) ++ map (upool _ s) (finring (ub _ s)) = accepted_of (ulog _ s).
Proof.
  intros N Npos M k wr cevs s He Hd. pose proof (zcf_run_content N Npos M k wr cevs) as PI. fold s in PI.
  apply (contentf_unlocked N _ PI). now apply (quiet_unlocked N).
Qed.

Theorem zcf_payload_nothing_lost : forall N, 0 < N -> forall M k wr cevs, let s := q _ (zcf_run N M k wr cevs) in
  (forall t, uthr _ s t = UIdle) ->
  yielded_of (ulog _ s) ++ map (upool _ s) (finring (ub _ s)) = accepted_of (ulog _ s).
Proof.
  intros N Npos M k wr cevs s Hi. apply (zcf_payload_accounted_quiet N Npos); intros t; rewrite Hi; discriminate.
Qed.

(* the slot a producer carries between the rings (allocated, written; its id not yet - or just - published) holds the value it is sending *)
Theorem zcf_transit_payload : forall N, 0 < N -> forall M k wr cevs, let s := q _ (zcf_run N M k wr cevs) in
  forall t v id, uthr _ s t = UEnqB v id -> upool _ s id = v.
Proof. intros N Npos M k wr cevs s. apply cf_tr. apply (zcf_run_content N Npos). Qed.

(* the composite log and the id ring count alike, up to the pending answer *)
Theorem zcf_payload_positions : forall N, 0 < N -> forall M k wr cevs, let s := q _ (zcf_run N M k wr cevs) in
  forall ths, NoDup ths -> (forall t, holds_lock (fthr (ub _ s) t) = true -> In t ths) ->
  Z.of_nat (length (yielded_of (ulog _ s))) + Z.of_nat (length (flat_map (conwin s) ths)) = fhead (ub _ s) /\
  Z.of_nat (length (accepted_of (ulog _ s))) + Z.of_nat (length (flat_map (pubwin s) ths)) = ftail (ub _ s).
Proof. intros N Npos M k wr cevs s ths. apply (contentf_positions N). apply (zcf_run_content N Npos). Qed.

(* ------------------------------------------------------------------------------------------------ non-vacuity
   N = 4, no wake-ups.  Producers 1 and 2 send 70 and 80: 1 allocates first (slot 0; 2 gets slot 1), 2 publishes its id first.
   exf_a: 2 has performed the flag CAS of B's publish (B at FPU 1 (Some 1)): slot 1 IS in the id ring, `ROk 80` is NOT in the log -
          the clean equation fails ([] on the right, [80] on the left), the corrected one holds with pubwin 2 = [80].
   exf_b: 2 has returned, 1 stands in the same window with 70.
   exf_c: both have returned; consumer 3 polls and has performed the flag CAS of B's consume (B at FCU (Some 1)): slot 1 is OUT of the
          id ring, `RGot 80` is NOT in the log: conwin 3 = [80].
   exf_d: 3 has received 80 and given slot 1 back; 1 begins to send 90 and is suspended after the allocation (slot 2 written, UEnqB 90 2
          / B at FPL 2); 2 sends 95 (slot 3).  Nobody holds B's flag: the clean equation, with a slot in transit. *)
Definition exf_steps (l : list nat) : list cev := map CStep l.
Definition exf_ca : list cev := [CStart 1%nat (CoSend 70); CStart 2%nat (CoSend 80)] ++ exf_steps [1;2;1;2; 2;2]%nat.
Definition exf_cb : list cev := exf_ca ++ exf_steps [1;2;1]%nat.
Definition exf_cc : list cev := exf_cb ++ exf_steps [1]%nat ++ [CStart 3%nat (CoPoll 0)] ++ exf_steps [3]%nat.
Definition exf_cd : list cev := exf_cc ++ exf_steps [3;3;3]%nat ++ [CStart 1%nat (CoSend 90)] ++ exf_steps [1;1]%nat ++
                                [CStart 2%nat (CoSend 95)] ++ exf_steps [2;2;2;2]%nat.
Definition exf_st (c : list cev) : ust fsst := q _ (zcf_run 4 2 1 (fun _ => None) c).
Definition exf_ths : list nat := [1; 2; 3]%nat.

Example exf_publisher_window :
  let s := exf_st exf_ca in
  ulog _ s = [] /\ finring (ub _ s) = [1] /\ map (upool _ s) (finring (ub _ s)) = [80] /\
  uthr _ s 2%nat = UEnqB 80 1 /\ fthr (ub _ s) 2%nat = FPU 1 (Some 1) /\ flock (ub _ s) = true /\
  uthr _ s 1%nat = UEnqB 70 0 /\ fthr (ub _ s) 1%nat = FPL 0 /\ upool _ s 0 = 70 /\
  flat_map (pubwin s) exf_ths = [80] /\ flat_map (conwin s) exf_ths = [] /\
  yielded_of (ulog _ s) ++ map (upool _ s) (finring (ub _ s)) <> accepted_of (ulog _ s) /\           (* the clean equation FAILS here *)
  accepted_of (ulog _ s) ++ flat_map (pubwin s) exf_ths =
    yielded_of (ulog _ s) ++ flat_map (conwin s) exf_ths ++ map (upool _ s) (finring (ub _ s)).
Proof. vm_compute. repeat split; try reflexivity. discriminate. Qed.

Example exf_publisher_window2 :
  let s := exf_st exf_cb in
  ulog _ s = [(2%nat, ROk 80 1)] /\ finring (ub _ s) = [1; 0] /\ map (upool _ s) (finring (ub _ s)) = [80; 70] /\
  uthr _ s 1%nat = UEnqB 70 0 /\ fthr (ub _ s) 1%nat = FPU 0 (Some 2) /\ uthr _ s 2%nat = UIdle /\
  flat_map (pubwin s) exf_ths = [70] /\ flat_map (conwin s) exf_ths = [] /\
  accepted_of (ulog _ s) ++ flat_map (pubwin s) exf_ths =
    yielded_of (ulog _ s) ++ flat_map (conwin s) exf_ths ++ map (upool _ s) (finring (ub _ s)).
Proof. vm_compute. repeat split; reflexivity. Qed.

Example exf_consumer_window :
  let s := exf_st exf_cc in
  ulog _ s = [(2%nat, ROk 80 1); (1%nat, ROk 70 2)] /\ finring (ub _ s) = [0] /\ map (upool _ s) (finring (ub _ s)) = [70] /\
  uthr _ s 3%nat = UDeqB /\ fthr (ub _ s) 3%nat = FCU (Some 1) /\ upool _ s 1 = 80 /\ flock (ub _ s) = true /\
  flat_map (pubwin s) exf_ths = [] /\ flat_map (conwin s) exf_ths = [80] /\
  yielded_of (ulog _ s) ++ map (upool _ s) (finring (ub _ s)) <> accepted_of (ulog _ s) /\           (* the clean equation FAILS here *)
  accepted_of (ulog _ s) ++ flat_map (pubwin s) exf_ths =
    yielded_of (ulog _ s) ++ flat_map (conwin s) exf_ths ++ map (upool _ s) (finring (ub _ s)).
Proof. vm_compute. repeat split; try reflexivity. discriminate. Qed.

Example exf_payload :
  let s := exf_st exf_cd in
  ulog _ s = [(2%nat, ROk 80 1); (1%nat, ROk 70 2); (3%nat, RGot 80); (2%nat, ROk 95 2)] /\
  accepted_of (ulog _ s) = [80; 70; 95] /\ yielded_of (ulog _ s) = [80] /\
  finring (ub _ s) = [0; 3] /\ map (upool _ s) (finring (ub _ s)) = [70; 95] /\      (* queued: slots 0 and 3, holding 70 and 95 *)
  finring (ua _ s) = [1] /\ upool _ s 1 = 80 /\                                        (* slot 1 is free again (stale content) *)
  uthr _ s 1%nat = UEnqB 90 2 /\ fthr (ub _ s) 1%nat = FPL 2 /\ upool _ s 2 = 90 /\    (* slot 2 in transit, holding 90 *)
  flock (ub _ s) = false /\ flat_map (pubwin s) exf_ths = [] /\ flat_map (conwin s) exf_ths = [] /\
  yielded_of (ulog _ s) ++ map (upool _ s) (finring (ub _ s)) = accepted_of (ulog _ s) /\
  yielded_of (ulog _ s) = firstn (length (yielded_of (ulog _ s))) (accepted_of (ulog _ s)).
Proof. vm_compute. repeat split; reflexivity. Qed.

Print Assumptions zcf_payload_exactly_once_in_order.
Print Assumptions zcf_payload_accounted.
Print Assumptions zcf_payload_window.
Print Assumptions zcf_payload_accounted_quiet.
Print Assumptions zcf_payload_nothing_lost.
Print Assumptions zcf_transit_payload.
Print Assumptions zcf_payload_positions.
Print Assumptions zfreach_content.
Print Assumptions exf_publisher_window.
Print Assumptions exf_publisher_window2.
Print Assumptions exf_consumer_window.
Print Assumptions exf_payload.
