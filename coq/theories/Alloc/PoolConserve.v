(* SLOT CONSERVATION AND EXCLUSIVE OWNERSHIP FOR THE STAND-ALONE POOL ALLOCATOR `OgreArrayPoolAllocator` over the lock-free ring
   (/repo/src/ogre_std/ogre_alloc/ogre_array_pool_allocator.rs; Alloc/PoolRun.v is its program-driven runner).

   The pool is a ring of slot ids used as a free list: `new()` publishes 0..N-1, alloc = consume, dealloc = publish.  Here the client
   discipline "a thread deallocates only an id it holds" is the SHAPE OF THE EVENTS of the machine (`PStartDealloc t v` is a no-op
   unless v is among the ids thread t holds), not a convention of a program generator.

   Cut points (as in ZcConserve.v): the ring appends to `published` in ONE step (the successful P4 CAS) and bumps `head` in ONE step
   (the successful C4 CAS), and the ring thread becomes Idle in that same step.  With "in the free list" := positions
   head <= i < tail of `published` (`inring`), an id leaves the free list exactly in the step that logs `RGot id` (and `pstep` puts it
   into `pheld t` in that very step), and enters it exactly in the step that ends the publish carrying it.  Every other step leaves the
   three collections (free list, held, in transit) as they were. *)
From Coq Require Import Permutation.
From RM Require Import RingModel RingInv RingProps RingCov RingSolo FullSync PoolRun ZcSoloA ChanZInst ZcConserve.

Ltac simp_st := cbn [head tail etail dhead buf thr published delivered log set_thr] in *.
Ltac perm_count :=
  apply (proj2 (Permutation_count_occ Z.eq_dec _ _)); let z := fresh "z" in intro z;
  repeat match goal with H : Permutation _ _ |- _ => let H' := fresh in pose proof (proj1 (Permutation_count_occ Z.eq_dec _ _) H z) as H'; clear H end;
  rewrite ?count_occ_app in *; cbn [count_occ app] in *; repeat destruct (Z.eq_dec _ _); try lia.

(* ------------------------------------------------------------------------------------------------ list helpers *)
(* remove ONE occurrence of v *)
Fixpoint take_out (v : Z) (l : list Z) : option (list Z) :=
  match l with
  | [] => None
  | a :: l' => if Z.eqb a v then Some l' else match take_out v l' with Some r => Some (a :: r) | None => None end
  end.

Lemma take_out_perm v l r : take_out v l = Some r -> Permutation l (v :: r).
Proof.
  revert r. induction l as [|a l IH]; intros r H; cbn [take_out] in H; [discriminate|].
  destruct (Z.eqb_spec a v) as [->|Hne].
  - injection H as <-. reflexivity.
  - destruct (take_out v l) as [r'|] eqn:E; [|discriminate]. injection H as <-.
    rewrite (IH r' eq_refl). apply perm_swap.
Qed.
Lemma take_out_in v l : In v l <-> exists r, take_out v l = Some r.
Proof.
  split.
  - induction l as [|a l IH]; intros H; [destruct H|]. cbn [take_out].
    destruct (Z.eqb_spec a v) as [->|Hne]; [eauto|]. destruct H as [->|H]; [congruence|].
    destruct (IH H) as [r ->]. eauto.
  - intros [r H]. apply (Permutation_in v (Permutation_sym (take_out_perm _ _ _ H))). now left.
Qed.
Lemma take_out_head v l : take_out v (v :: l) = Some l.
Proof. cbn [take_out]. now rewrite Z.eqb_refl. Qed.

Lemma got_of_same t l : got_of t l l = [].
Proof. unfold got_of. now rewrite skipn_all. Qed.
Lemma got_of_snoc t l e :
  got_of t l (l ++ [e]) = match snd e with RGot v => if Nat.eqb (fst e) t then [v] else [] | _ => [] end.
Proof. unfold got_of. rewrite skipn_app, skipn_all, Nat.sub_diag. cbn [skipn app flat_map]. now rewrite app_nil_r. Qed.

Lemma cons_pval p : is_cons p = true -> pval p = None.
Proof. destruct p; cbn; congruence. Qed.
Lemma pslot_pval p i : pslot p = Some i -> exists v, pval p = Some v.
Proof. destruct p; cbn; try discriminate; eauto. Qed.
Lemma in_rejected t v l : In (t, RFull v) l -> In v (rejected_of l).
Proof. intros H. unfold rejected_of. apply in_flat_map. exists (t, RFull v). split; [exact H|now left]. Qed.
Lemma start_log x t o : log (start x t o) = log x.
Proof. unfold start. destruct (thr x t); reflexivity. Qed.

(* ------------------------------------------------------------------------------------------------ the pool machine *)
Record pst := { pring : st;                    (* the free list: a lock-free ring of slot ids *)
                pheld : nat -> list Z }.       (* the ids each thread holds (allocated, not yet given back) *)

Inductive pev :=
| PStep (t : nat)                              (* one step (= one shared access) of t's ring operation in progress *)
| PStartAlloc (t : nat)                        (* t, idle, begins alloc_ref = consume *)
| PStartDealloc (t : nat) (v : Z).             (* t, idle AND HOLDING v, begins dealloc_id(v) = publish v; otherwise nothing happens *)

Definition ridle (x : st) (t : nat) : bool := match thr x t with Idle => true | _ => false end.

(* exactly PoolRun.pgrant's bookkeeping: an id answered to t by this step (`RGot v`) is put in front of what t holds *)
Definition pstep (N : Z) (s : pst) (t : nat) : pst :=
  let x' := stepZ N (pring s) t in
  {| pring := x'; pheld := upd (pheld s) t (got_of t (log (pring s)) (log x') ++ pheld s t) |}.
Definition pstart_alloc (s : pst) (t : nat) : pst :=                 (* `start` itself does nothing unless t is Idle *)
  {| pring := start (pring s) t OpCons; pheld := pheld s |}.
Definition pstart_dealloc (s : pst) (t : nat) (v : Z) : pst :=
  if ridle (pring s) t then
    match take_out v (pheld s t) with
    | Some rest => {| pring := start (pring s) t (OpPub v); pheld := upd (pheld s) t rest |}
    | None => s
    end
  else s.
Definition pexec (N : Z) (s : pst) (e : pev) : pst :=
  match e with PStep t => pstep N s t | PStartAlloc t => pstart_alloc s t | PStartDealloc t v => pstart_dealloc s t v end.

(* the pool right after `new()`: BY DEFINITION the ring that PoolRun.pfill produces from `init` on 0..N-1 (ChanZInst.zc_fl0 N =
   pfill st (stepZ N) start init (ids_upto N) 0, the very expression run_pool_atomic starts from, at the Z instance), nothing held.
   Its fields are computed in `pool_init_fields` below: published = [0; ...; N-1], head = dhead = 0, tail = etail = N, all Idle. *)
Definition pool_init (N : Z) : pst := {| pring := zc_fl0 N; pheld := fun _ => [] |}.
Definition pool_run (N : Z) (evs : list pev) : pst := fold_left (pexec N) evs (pool_init N).

Lemma pool_init_is_pfill N : pring (pool_init N) = pfill st (stepZ N) start init (ids_upto N) 0.
Proof. reflexivity. Qed.

(* the guard of PStartDealloc, spelled out *)
Lemma pstart_dealloc_guard s t v :
  (thr (pring s) t = Idle /\ In v (pheld s t) ->
     exists rest, Permutation (pheld s t) (v :: rest) /\
       pstart_dealloc s t v = {| pring := start (pring s) t (OpPub v); pheld := upd (pheld s) t rest |}) /\
  (~ (thr (pring s) t = Idle /\ In v (pheld s t)) -> pstart_dealloc s t v = s).
Proof.
  unfold pstart_dealloc, ridle. split.
  - intros [Hi Hin]. rewrite Hi. apply take_out_in in Hin. destruct Hin as [r Hr]. rewrite Hr. exists r. split; [|reflexivity].
    now apply take_out_perm.
  - intros Hn. destruct (thr (pring s) t) eqn:E; try reflexivity.
    destruct (take_out v (pheld s t)) as [r|] eqn:Er; [|reflexivity].
    exfalso. apply Hn. split; [reflexivity|]. apply take_out_in. eauto.
Qed.

(* ------------------------------------------------------------------------------------------------ the invariant *)
Section PoolConserve.
Variable N : Z.
Hypothesis Npos : 0 < N.
Local Notation step := (stepZ N).

(* the id a dealloc in progress carries and has not published yet *)
Definition transit (s : pst) (t : nat) : list Z := match pval (thr (pring s) t) with Some v => [v] | None => [] end.
Definition powned (s : pst) (t : nat) : list Z := pheld s t ++ transit s t.

(* SLOT CONSERVATION: free list ++ held ++ in transit is a permutation of 0..N-1
   (`ths`: any duplicate-free list of threads that contains every thread that holds or carries something) *)
Definition PConserve (s : pst) : Prop :=
  exists ths, NoDup ths /\ (forall t, ~ In t ths -> pheld s t = [] /\ transit s t = []) /\
    Permutation (ids_upto N) (inring (pring s) ++ flat_map (pheld s) ths ++ flat_map (transit s) ths).

Lemma pconserve_owned s :
  PConserve s <-> exists ths, NoDup ths /\ (forall t, ~ In t ths -> powned s t = []) /\
                    Permutation (ids_upto N) (inring (pring s) ++ flat_map (powned s) ths).
Proof.
  split; intros (ths & Hn & Ho & Hp); exists ths; (split; [exact Hn|]); split.
  - intros t Ht. destruct (Ho t Ht) as [H1 H2]. unfold powned. now rewrite H1, H2.
  - rewrite Hp. apply Permutation_app_head. symmetry. apply flat_map_app_perm.
  - intros t Ht. apply app_eq_nil. exact (Ho t Ht).
  - rewrite Hp. apply Permutation_app_head. apply flat_map_app_perm.
Qed.

(* a move that only changes the custody of one thread, and keeps the union of that custody with the free list *)
Lemma pconserve_move s s' t : PConserve s ->
  (forall u, u <> t -> powned s' u = powned s u) ->
  Permutation (inring (pring s) ++ powned s t) (inring (pring s') ++ powned s' t) ->
  PConserve s'.
Proof.
  intros C Ho Hp. apply pconserve_owned in C. apply pconserve_owned. destruct C as (ths & Hn & Hout & Hperm).
  assert (G : exists ths, NoDup ths /\ In t ths /\ (forall u, ~ In u ths -> powned s u = []) /\
                Permutation (ids_upto N) (inring (pring s) ++ flat_map (powned s) ths)).
  { destruct (in_dec Nat.eq_dec t ths) as [Hin|Hnin]; [exists ths; auto|].
    exists (t :: ths). split; [now constructor|]. split; [now left|]. split.
    - intros u Hu. apply Hout. intros Hin. apply Hu. now right.
    - cbn [flat_map]. rewrite (Hout t Hnin). exact Hperm. }
  clear ths Hn Hout Hperm. destruct G as (ths & Hn & Hin & Hout & Hperm).
  exists ths. split; [exact Hn|]. split.
  - intros u Hu. rewrite Ho; [now apply Hout|]. intros ->. contradiction.
  - destruct (flat_map_change (powned s) (powned s') ths t Hn Hin Ho) as (R & H1 & H2).
    rewrite H2. rewrite H1 in Hperm. perm_count.
Qed.

(* reservations + contents of the free list never exceed the capacity: every reserved position is held by a thread inside a
   dealloc, which carries an id *)
Lemma pool_res_bound s : PConserve s -> Inv N (pring s) -> Cov (pring s) -> etail (pring s) - head (pring s) <= N.
Proof.
  intros C I Cv. apply pconserve_owned in C. destruct C as (ths & Hn & Hout & Hp).
  pose proof (i_ord _ _ I) as Hord.
  assert (Hown : forall u i, pslot (thr (pring s) u) = Some i -> (1 <= length (powned s u))%nat).
  { intros u i Hu. destruct (pslot_pval _ _ Hu) as [v Hv]. unfold powned, transit. rewrite Hv, app_length. cbn [length]. lia. }
  destruct (cov_holders (pring s) Cv (Z.to_nat (etail (pring s) - tail (pring s))) ltac:(lia)) as (us & Hl & Hd & Hu).
  assert (Hincl : incl us ths).
  { intros u Hin. destruct (in_dec Nat.eq_dec u ths) as [|Hnin]; [assumption|exfalso].
    destruct (Hu u Hin) as (i & _ & Hp'). specialize (Hown u i Hp'). rewrite (Hout u Hnin) in Hown. cbn in Hown. lia. }
  assert (Hge : (length us <= length (flat_map (powned s) ths))%nat).
  { apply flat_map_length_ge; [exact Hd|exact Hincl|]. intros u Hin. destruct (Hu u Hin) as (i & _ & Hp'). exact (Hown u i Hp'). }
  apply Permutation_length in Hp. rewrite !app_length in Hp. unfold ids_upto in Hp. rewrite map_length, seq_length in Hp.
  pose proof (inring_length N (pring s) I) as Hlen. lia.
Qed.

(* what one ring step does to the three collections: ends a publish (the id enters the free list), ends a consume with the head
   element (the id leaves the free list and is answered), or moves nothing *)
Lemma pool_ring_step x t : Inv N x -> noP2 x ->
  (exists v, pval (thr x t) = Some v /\ thr (step x t) t = Idle /\ got_of t (log x) (log (step x t)) = [] /\
             published (step x t) = published x ++ [v] /\ head (step x t) = head x)
  \/ (is_cons (thr x t) = true /\ thr (step x t) t = Idle /\ got_of t (log x) (log (step x t)) = [nthz (published x) (head x)] /\
      published (step x t) = published x /\ head (step x t) = head x + 1 /\ head x < tail x)
  \/ (pval (thr (step x t) t) = pval (thr x t) /\ got_of t (log x) (log (step x t)) = [] /\
      published (step x t) = published x /\ head (step x t) = head x).
Proof.
  intros I H2. unfold stepZ, RingModel.step, idz. destruct (thr x t) eqn:E.
  - right; right. rewrite E, got_of_same. auto.
  - right; right. simp_st. rewrite upd_same, got_of_same. auto.
  - right; right. destruct (slot - head x <? N); simp_st; rewrite upd_same, got_of_same; auto.
  - exfalso. exact (H2 t _ _ E).
  - right; right. simp_st. rewrite upd_same, got_of_same. auto.
  - destruct (tail x =? slot).
    + left. exists v. simp_st. rewrite upd_same, got_of_snoc. cbn [snd]. auto.
    + right; right. rewrite E, got_of_same. auto.
  - right; right. simp_st. rewrite upd_same, got_of_same. auto.
  - right; right. destruct (0 <? tail x - slot); simp_st; rewrite upd_same, got_of_same; auto.
  - right; right. destruct (dhead x =? slot + 1); simp_st; rewrite upd_same, ?got_of_snoc, ?got_of_same; cbn [snd]; auto.
  - right; right. simp_st. rewrite upd_same, got_of_same. auto.
  - destruct (Z.eqb_spec (head x) slot) as [He|Hne].
    + right; left. simp_st. rewrite upd_same, got_of_snoc. cbn [snd fst]. rewrite Nat.eqb_refl.
      assert (Hcr : cread (thr x t) = Some (slot, v)) by (rewrite E; reflexivity).
      assert (Hcv : cvalid (thr x t) = Some slot) by (rewrite E; reflexivity).
      pose proof (i_cread _ _ I _ _ _ Hcr). pose proof (i_cvalid _ _ I _ _ Hcv). subst. repeat split; auto.
    + right; right. rewrite E, got_of_same. auto.
  - right; right. simp_st. rewrite upd_same, got_of_same. auto.
  - right; right. simp_st. rewrite upd_same, got_of_snoc. cbn [snd]. auto.
Qed.

(* no step outside the "full" path answers RFull *)
Lemma step_rejected x t : noP2 x -> rejected_of (log (step x t)) = rejected_of (log x).
Proof.
  intros H2. unfold stepZ, RingModel.step, idz. destruct (thr x t) eqn:E; try reflexivity;
    try (exfalso; exact (H2 t _ _ E));
    repeat match goal with |- context[if ?b then _ else _] => destruct b end; simp_st;
    rewrite ?rejected_app; cbn [snd]; rewrite ?app_nil_r; reflexivity.
Qed.

(* the invariant carried through every state *)
Record PI (s : pst) : Prop := {
  p_reach : reach N (pring s);                               (* the free list is a ring run: hence Inv N and Cov *)
  p_no2   : noP2 (pring s);                                  (* no dealloc is on the ring's "full" path *)
  p_norej : rejected_of (log (pring s)) = [];                (* ... and none was ever answered "full" *)
  p_cons  : PConserve s
}.

Theorem pi_step s t : PI s -> PI (pstep N s t).
Proof.
  intros P. destruct (reach_invcov N Npos _ (p_reach _ P)) as [I C].
  pose proof (pool_res_bound s (p_cons _ P) I C) as Hb.
  constructor; unfold pstep; cbn [pring pheld].
  - apply reach_step, P.
  - apply (noP2_step N); auto; apply P.
  - rewrite step_rejected; apply P.
  - apply (pconserve_move s _ t (p_cons _ P)).
    + intros u Hu. unfold powned, transit. cbn [pring pheld].
      rewrite upd_other, step_other_threads_gen by assumption. reflexivity.
    + unfold powned, transit. cbn [pring pheld]. rewrite upd_same.
      destruct (pool_ring_step (pring s) t I (p_no2 _ P))
        as [(v & Hv & Hi & Hg & Hp & Hh)|[(Hc & Hi & Hg & Hp & Hh & Hlt)|(Hv & Hg & Hp & Hh)]].
      * rewrite Hg, Hi, Hv, (inring_pub N _ _ v I Hp Hh). cbn [pval]. perm_count.
      * rewrite Hg, Hi, (cons_pval _ Hc), (inring_cons N _ _ I Hp Hh Hlt). cbn [pval]. perm_count.
      * rewrite Hg, Hv, (inring_same _ _ Hp Hh). reflexivity.
Qed.

Theorem pi_start_alloc s t : PI s -> PI (pstart_alloc s t).
Proof.
  intros P. destruct (start_frame (pring s) t OpCons) as [Sp Sh].
  constructor; unfold pstart_alloc; cbn [pring pheld].
  - apply reach_start, P.
  - apply noP2_start, P.
  - rewrite start_log. apply P.
  - apply (pconserve_move s _ t (p_cons _ P)).
    + intros u Hu. unfold powned, transit. cbn [pring pheld]. now rewrite start_other by assumption.
    + unfold powned, transit. cbn [pring pheld]. rewrite (inring_same _ _ Sp Sh).
      assert (Ht : pval (thr (start (pring s) t OpCons) t) = pval (thr (pring s) t)).
      { unfold start. destruct (thr (pring s) t) eqn:E; rewrite ?E; try reflexivity. simp_st. now rewrite upd_same. }
      rewrite Ht. reflexivity.
Qed.

Theorem pi_start_dealloc s t v : PI s -> PI (pstart_dealloc s t v).
Proof.
  intros P. unfold pstart_dealloc, ridle. destruct (thr (pring s) t) eqn:E; try exact P.
  destruct (take_out v (pheld s t)) as [rest|] eqn:Et; [|exact P].
  destruct (start_frame (pring s) t (OpPub v)) as [Sp Sh]. pose proof (take_out_perm _ _ _ Et) as Hperm.
  constructor; cbn [pring pheld].
  - apply reach_start, P.
  - apply noP2_start, P.
  - rewrite start_log. apply P.
  - apply (pconserve_move s _ t (p_cons _ P)).
    + intros u Hu. unfold powned, transit. cbn [pring pheld]. now rewrite upd_other, start_other by assumption.
    + unfold powned, transit. cbn [pring pheld]. rewrite upd_same, (inring_same _ _ Sp Sh).
      destruct (start_idle (pring s) t (OpPub v) E) as (-> & _). rewrite E. cbn [pval]. perm_count.
Qed.

Theorem pi_exec s e : PI s -> PI (pexec N s e).
Proof. intros P. destruct e; cbn [pexec]; [now apply pi_step|now apply pi_start_alloc|now apply pi_start_dealloc]. Qed.

(* ---- the initial state ---- *)
Lemma pfill_rejected ids : forall x, reach N x -> (forall t, thr x t = Idle) -> tail x - head x + Z.of_nat (length ids) <= N ->
  rejected_of (log (pfill st step start x ids 0)) = rejected_of (log x).
Proof.
  induction ids as [|v ids IH]; intros x R Hi Hb; [reflexivity|].
  cbn [pfill]. cbn [length] in Hb.
  pose proof (calm_send_accepted N Npos x 0%nat v R (fun u => or_introl (Hi u)) (Hi 0%nat) ltac:(lia)) as H. cbn zeta in H.
  destruct H as (_ & _ & _ & H4 & H5 & H6 & H7 & H8 & H9 & _).
  cbn [Nat.iter nat_rect].
  set (x4 := step (step (step (step (start x 0%nat (OpPub v)) 0%nat) 0%nat) 0%nat) 0%nat) in *.
  rewrite !(step_idle_noop N x4 0%nat H4).
  assert (R4 : reach N x4) by (unfold x4; repeat apply reach_step; now apply reach_start).
  assert (Hi4 : forall u, thr x4 u = Idle).
  { intros u. destruct (Nat.eq_dec u 0) as [->|Hn]; [exact H4|]. rewrite (H9 u Hn). apply Hi. }
  rewrite (IH x4 R4 Hi4 ltac:(lia)), H5, rejected_app. cbn [snd]. now rewrite app_nil_r.
Qed.

Lemma ids_upto_length : Z.of_nat (length (ids_upto N)) = N.
Proof. unfold ids_upto. rewrite map_length, seq_length. lia. Qed.

(* the state `new()` leaves behind, field by field *)
Theorem pool_init_fields :
  let x := pring (pool_init N) in
  published x = ids_upto N /\ delivered x = [] /\ head x = 0 /\ tail x = N /\ etail x = N /\ dhead x = 0 /\
  (forall t, thr x t = Idle) /\ rejected_of (log x) = [] /\ (forall t, pheld (pool_init N) t = []) /\
  Inv N x /\ Cov x /\ reach N x.
Proof.
  cbn zeta. cbn [pool_init pring pheld].
  destruct (fl0_state N Npos) as (A1 & A2 & A3 & A4).
  destruct (reach_invcov N Npos _ A1) as [I C].
  assert (Hc : calm (zc_fl0 N)) by (intros u; left; apply A2).
  destruct (calm_reach_no_reservations N Npos _ A1 Hc) as [He Hd].
  pose proof (i_lenp _ _ I) as Hl. rewrite A3, ids_upto_length in Hl.
  pose proof (i_deliv _ _ I) as Hdl. rewrite A4 in Hdl. cbn [Z.to_nat firstn] in Hdl.
  assert (Hrej : rejected_of (log (zc_fl0 N)) = []).
  { unfold zc_fl0. rewrite pfill_rejected; [reflexivity|exists []; reflexivity|reflexivity|].
    rewrite ids_upto_length. cbn [init init_at head tail]. lia. }
  split; [exact A3|]. split; [exact Hdl|]. split; [exact A4|]. split; [lia|]. split; [lia|]. split; [lia|].
  split; [exact A2|]. split; [exact Hrej|]. split; [reflexivity|]. split; [exact I|]. split; [exact C|exact A1].
Qed.

Theorem pi_init : PI (pool_init N).
Proof.
  destruct pool_init_fields as (Hp & _ & Hh & _ & _ & _ & Hi & Hr & _ & _ & _ & R). cbn zeta in *.
  constructor; auto.
  - intros t v sl. rewrite Hi. discriminate.
  - exists []. split; [constructor|]. split; [intros t _; split; [reflexivity|]|].
    + unfold transit. now rewrite Hi.
    + unfold inring. rewrite Hp, Hh. cbn. now rewrite app_nil_r.
Qed.

Theorem pool_invariant evs : PI (pool_run N evs).
Proof. unfold pool_run. apply fold_inv; [intros s e; apply pi_exec|apply pi_init]. Qed.

End PoolConserve.

(* ------------------------------------------------------------------------------------------------ results *)
Section PoolResults.
Variable N : Z.
Hypothesis Npos : 0 < N.
Local Notation step := (stepZ N).

Lemma pconserve_nodup s : PConserve N s -> exists ths, NoDup ths /\ (forall t, ~ In t ths -> pheld s t = [] /\ transit s t = []) /\
  Permutation (ids_upto N) (inring (pring s) ++ flat_map (pheld s) ths ++ flat_map (transit s) ths) /\
  NoDup (inring (pring s) ++ flat_map (pheld s) ths ++ flat_map (transit s) ths).
Proof.
  intros (ths & Hn & Ho & Hp). exists ths. split; [exact Hn|]. split; [exact Ho|]. split; [exact Hp|].
  exact (Permutation_NoDup Hp (ids_upto_nodup N)).
Qed.
Lemma held_in_ths s ths t id : (forall u, ~ In u ths -> pheld s u = [] /\ transit s u = []) -> In id (pheld s t) -> In t ths.
Proof. intros Ho Hin. destruct (in_dec Nat.eq_dec t ths) as [|Hn]; [assumption|]. destruct (Ho t Hn) as [E _]. rewrite E in Hin. destruct Hin. Qed.
Lemma transit_in_ths s ths t id : (forall u, ~ In u ths -> pheld s u = [] /\ transit s u = []) -> In id (transit s t) -> In t ths.
Proof. intros Ho Hin. destruct (in_dec Nat.eq_dec t ths) as [|Hn]; [assumption|]. destruct (Ho t Hn) as [_ E]. rewrite E in Hin. destruct Hin. Qed.

(* exclusive ownership, from conservation alone *)
Lemma pconserve_exclusive s : PConserve N s ->
  (forall t u id, In id (pheld s t) -> In id (pheld s u) -> t = u) /\
  (forall t, NoDup (pheld s t)) /\
  (forall t id, In id (pheld s t) -> 0 <= id < N /\ ~ In id (inring (pring s)) /\ forall u, ~ In id (transit s u)).
Proof.
  intros C. destruct (pconserve_nodup s C) as (ths & Hn & Ho & Hp & Hd).
  pose proof (nodup_app_r _ _ Hd) as Hd2. pose proof (nodup_app_l _ _ Hd2) as Hdh.
  split; [|split].
  - intros t u id Ht Hu.
    exact (nodup_flat_map_owner (pheld s) ths t u id Hdh (held_in_ths s ths t id Ho Ht) (held_in_ths s ths u id Ho Hu) Ht Hu).
  - intros t. destruct (in_dec Nat.eq_dec t ths) as [Hin|Hnin]; [|destruct (Ho t Hnin) as [-> _]; constructor].
    destruct (in_split _ _ Hin) as (l1 & l2 & ->). rewrite flat_map_app in Hdh. apply nodup_app_r in Hdh.
    cbn [flat_map] in Hdh. exact (nodup_app_l _ _ Hdh).
  - intros t id Ht. pose proof (held_in_ths s ths t id Ho Ht) as Hin.
    assert (Hf : In id (flat_map (pheld s) ths)) by (apply in_flat_map; eauto).
    split; [|split].
    + apply ids_upto_in. apply (Permutation_in _ (Permutation_sym Hp)). apply in_or_app. right. apply in_or_app. now left.
    + intros Ha. apply (nodup_app_disj _ _ id Hd Ha). apply in_or_app. now left.
    + intros u Hu. pose proof (transit_in_ths s ths u id Ho Hu) as Hin'.
      apply (nodup_app_disj _ _ id Hd2 Hf). apply in_flat_map. eauto.
Qed.

(* a thread with custody of an id (held, or carried by its dealloc in progress): the free list is not full, and does not contain it *)
Lemma pconserve_room s t id : PConserve N s -> Inv N (pring s) -> In id (powned s t) ->
  tail (pring s) - head (pring s) < N /\ ~ In id (inring (pring s)).
Proof.
  intros C I Hin. apply pconserve_owned in C. destruct C as (ths & Hn & Ho & Hp).
  assert (Ht : In t ths).
  { destruct (in_dec Nat.eq_dec t ths) as [|Hnin]; [assumption|]. rewrite (Ho t Hnin) in Hin. destruct Hin. }
  assert (Hf : In id (flat_map (powned s) ths)) by (apply in_flat_map; eauto).
  split.
  - assert (Hge : (length [t] <= length (flat_map (powned s) ths))%nat).
    { apply flat_map_length_ge; [repeat constructor; intros []|intros u [<-|[]]; exact Ht|].
      intros u [<-|[]]. destruct (powned s t); [destruct Hin|cbn; lia]. }
    apply Permutation_length in Hp. rewrite !app_length in Hp. unfold ids_upto in Hp. rewrite map_length, seq_length in Hp.
    pose proof (inring_length N _ I). cbn [length] in Hge. lia.
  - intros Ha. pose proof (Permutation_NoDup Hp (ids_upto_nodup N)) as Hd. exact (nodup_app_disj _ _ id Hd Ha Hf).
Qed.

Lemma pi_never_full s : PI N s ->
  noP2 (pring s) /\
  (forall t v, ~ In (t, RFull v) (log (pring s))) /\
  etail (pring s) - head (pring s) <= N /\
  (forall t v, In v (pheld s t) \/ pval (thr (pring s) t) = Some v ->
     tail (pring s) - head (pring s) < N /\ ~ In v (inring (pring s))) /\
  (forall t v, pval (thr (pring s) t) = Some v ->
     pval (thr (step (pring s) t) t) = Some v \/
     (thr (step (pring s) t) t = Idle /\ exists len, log (step (pring s) t) = log (pring s) ++ [(t, ROk v len)])).
Proof.
  intros P. destruct (reach_invcov N Npos _ (p_reach _ _ P)) as [I C].
  split; [apply P|]. split; [|split; [|split]].
  - intros t v Hin. apply in_rejected in Hin. rewrite (p_norej _ _ P) in Hin. destruct Hin.
  - exact (pool_res_bound N Npos s (p_cons _ _ P) I C).
  - intros t v H. apply (pconserve_room s t v (p_cons _ _ P) I). unfold powned, transit. apply in_or_app.
    destruct H as [H|H]; [now left|right; rewrite H; now left].
  - intros t v Hv. destruct (ring_pub_step N (pring s) t v (p_no2 _ _ P) Hv) as [(Hi & Hl & _)|(Hc & _)]; [right|left]; auto.
Qed.

(* the tail load that decides "empty", at a quiet moment *)
Lemma pi_exhaustion s t slot : PI N s ->
  thr (pring s) t = C1 slot -> tail (pring s) - slot <= 0 ->
  (forall u, u <> t -> thr (pring s) u = Idle) ->
  thr (step (pring s) t) t = C2 slot /\
  inring (pring s) = [] /\
  exists ths, NoDup ths /\ (forall u, ~ In u ths -> pheld s u = []) /\
    Permutation (ids_upto N) (flat_map (pheld s) ths) /\ Z.of_nat (length (flat_map (pheld s) ths)) = N.
Proof.
  intros P E Hemp Hq. destruct (reach_invcov N Npos _ (p_reach _ _ P)) as [I C].
  assert (Hht : head (pring s) = tail (pring s)).
  { destruct (p_reach _ _ P) as [revs Hr]. rewrite Hr in E, Hemp, Hq |- *.
    apply (empty_answer_justified N Npos revs t slot E Hemp).
    intros u x Hu Hx. rewrite (Hq u Hu) in Hx. discriminate. }
  split; [|split].
  - destruct (stepC1 N (pring s) t slot E) as (-> & _).
    destruct (Z.ltb_spec 0 (tail (pring s) - slot)); [lia|reflexivity].
  - pose proof (inring_length N _ I) as Hl. destruct (inring (pring s)); [reflexivity|cbn [length] in Hl; lia].
  - destruct (p_cons _ _ P) as (ths & Hn & Ho & Hp). exists ths. split; [exact Hn|]. split; [intros u Hu; apply Ho, Hu|].
    assert (Hr : inring (pring s) = []).
    { pose proof (inring_length N _ I) as Hl. destruct (inring (pring s)); [reflexivity|cbn [length] in Hl; lia]. }
    assert (Ht : flat_map (transit s) ths = []).
    { apply flat_map_nil. intros u. unfold transit. destruct (Nat.eq_dec u t) as [->|Hu]; [now rewrite E|now rewrite (Hq u Hu)]. }
    rewrite Hr, Ht, app_nil_r in Hp. cbn [app] in Hp. split; [exact Hp|].
    rewrite <- (Permutation_length Hp). apply ids_upto_length. exact Npos.
Qed.

End PoolResults.

(* ================================================================================================ MAIN THEOREMS
   for every pool size, every event list, any number of threads *)

(* 1. SLOT CONSERVATION *)
Theorem pool_slots_conserved : forall N, 0 < N -> forall evs,
  let s := pool_run N evs in
  exists ths, NoDup ths /\ (forall t, ~ In t ths -> pheld s t = [] /\ transit s t = []) /\
    Permutation (ids_upto N)
                (inring (pring s)                       (* (a) the free list *)
                 ++ flat_map (pheld s) ths              (* (b) held by threads *)
                 ++ flat_map (transit s) ths).          (* (c) carried by a dealloc in progress, not yet published *)
Proof. intros N Npos evs. exact (p_cons _ _ (pool_invariant N Npos evs)). Qed.

(* 2. EXCLUSIVE OWNERSHIP *)
Theorem pool_exclusive_ownership : forall N, 0 < N -> forall evs,
  let s := pool_run N evs in
  (forall t u id, In id (pheld s t) -> In id (pheld s u) -> t = u) /\        (* two different threads never hold the same id *)
  (forall t, NoDup (pheld s t)) /\                                           (* no thread holds an id twice *)
  (forall t id, In id (pheld s t) ->
     0 <= id < N /\ ~ In id (inring (pring s)) /\                            (* a held id is a pool id, is not in the free list ... *)
     forall u, ~ In id (transit s u)).                                       (* ... and is not being given back by anybody *)
Proof. intros N Npos evs. exact (pconserve_exclusive N (pool_run N evs) (p_cons _ _ (pool_invariant N Npos evs))). Qed.

(* 3. A DEALLOC NEVER MEETS A FULL RING *)
Theorem pool_dealloc_never_meets_full : forall N, 0 < N -> forall evs,
  let s := pool_run N evs in let x := pring s in
  (forall t v sl, thr x t <> P2 v sl) /\                                     (* nobody ever stands on the "full" path ... *)
  (forall t v, ~ In (t, RFull v) (log x)) /\                                 (* ... and nobody was ever answered "full" *)
  etail x - head x <= N /\                                                   (* reservations included, the capacity is respected *)
  (forall t v, In v (pheld s t) \/ pval (thr x t) = Some v ->                (* whoever holds / is giving back an id finds room *)
     tail x - head x < N /\ ~ In v (inring x)) /\
  (forall t v, pval (thr x t) = Some v ->                                    (* a dealloc's next step: still that dealloc, or accepted *)
     pval (thr (stepZ N x t) t) = Some v \/
     (thr (stepZ N x t) t = Idle /\ exists len, log (stepZ N x t) = log x ++ [(t, ROk v len)])).
Proof. intros N Npos evs. exact (pi_never_full N Npos (pool_run N evs) (pool_invariant N Npos evs)). Qed.

(* 4. EXHAUSTION IS EXACT AT A QUIET MOMENT: thread t's alloc stands at the tail load (C1) that sees "empty" - its next step enters
   the path that answers REmpty - and no other thread is inside a ring operation: then all N ids are held.
   (The moment that matters is the tail LOAD: between it and the recede CAS that logs REmpty another thread may complete a dealloc.
   And without "quiet" the statement is false for the lock-free ring: a consumer holding a lower reservation causes a spurious
   empty, RingCov.empty_answer_justified.) *)
Theorem pool_exhaustion_exact_when_quiet : forall N, 0 < N -> forall evs t slot,
  let s := pool_run N evs in let x := pring s in
  thr x t = C1 slot -> tail x - slot <= 0 ->
  (forall u, u <> t -> thr x u = Idle) ->
  thr (stepZ N x t) t = C2 slot /\
  inring x = [] /\
  exists ths, NoDup ths /\ (forall u, ~ In u ths -> pheld s u = []) /\
    Permutation (ids_upto N) (flat_map (pheld s) ths) /\ Z.of_nat (length (flat_map (pheld s) ths)) = N.
Proof. intros N Npos evs t slot. exact (pi_exhaustion N Npos (pool_run N evs) t slot (pool_invariant N Npos evs)). Qed.

(* ------------------------------------------------------------------------------------------------ 5. the executable runner
   PoolRun.prun instantiated as in `run_pool_atomic`, at the Z instance (stepZ N, start, the idle test on `thr`, `log`; the
   observation function plays no role): every grant of the runner is zero, one or two events of the pool machine, and the runner's
   `held` is the machine's `pheld`.  In particular the runner's PDealloc - "give back the id allocated most recently and still
   held" - is `PStartDealloc t v` with v the head of `held t`: the guard of the event holds. *)
Section PoolRuns.
Variable N : Z.
Variable qobs : st -> nat -> list Z.
Local Notation grant := (pgrant st (stepZ N) start ridle log qobs).
Local Notation runner := (prun st (stepZ N) start ridle log qobs).

Definition agrees (s : pst) (q : st) (held : nat -> list Z) : Prop := pring s = q /\ forall u, pheld s u = held u.

Lemma ridle_true x t : ridle x t = true -> thr x t = Idle.
Proof. unfold ridle. destruct (thr x t); congruence. Qed.

(* one grant *)
Lemma pgrant_simulated s q held progs t q' held' progs' lines :
  agrees s q held -> grant q held progs t = (q', held', progs', lines) ->
  exists evs, (length evs <= 2)%nat /\ agrees (fold_left (pexec N) evs s) q' held'.
Proof.
  intros [Hq Hh] G. subst q. unfold pgrant in G. destruct (ridle (pring s) t) eqn:Ei.
  - destruct (progs t) as [|[|] rest].
    + inversion G; subst. exists []. split; [cbn; lia|]. split; [reflexivity|exact Hh].
    + inversion G; subst. exists [PStartAlloc t; PStep t]. split; [cbn; lia|].
      cbn [fold_left pexec]. unfold agrees, pstep, pstart_alloc. cbn [pring pheld]. split; [reflexivity|].
      intros u. destruct (Nat.eq_dec u t) as [->|Hn]; [rewrite !upd_same, Hh; reflexivity|rewrite !upd_other by assumption; apply Hh].
    + destruct (held t) as [|v hs] eqn:Eh.
      * inversion G; subst. exists []. split; [cbn; lia|]. split; [reflexivity|exact Hh].
      * inversion G; subst. exists [PStartDealloc t v; PStep t]. split; [cbn; lia|].
        cbn [fold_left pexec]. unfold pstart_dealloc. rewrite Ei, Hh, Eh, take_out_head.
        unfold agrees, pstep. cbn [pring pheld]. split; [reflexivity|].
        intros u. destruct (Nat.eq_dec u t) as [->|Hn]; [|rewrite !upd_other by assumption; apply Hh].
        rewrite !upd_same.
        destruct (start_idle (pring s) t (OpPub v) (ridle_true _ _ Ei)) as (S0 & _).
        destruct (stepP0 N _ t v S0) as (_ & _ & _ & _ & _ & _ & -> & _). now rewrite got_of_same.
  - inversion G; subst. exists [PStep t]. split; [cbn; lia|].
    cbn [fold_left pexec]. unfold agrees, pstep. cbn [pring pheld]. split; [reflexivity|].
    intros u. destruct (Nat.eq_dec u t) as [->|Hn]; [rewrite !upd_same, Hh; reflexivity|rewrite !upd_other by assumption; apply Hh].
Qed.

(* the (ring, held) pairs a run goes through, grant by grant *)
Fixpoint prun_states (q : st) (held : nat -> list Z) (progs : nat -> list pop) (sched : list nat) : list (st * (nat -> list Z)) :=
  (q, held) ::
  match sched with
  | [] => []
  | t :: rest => let '(q1, held1, progs1, _) := grant q held progs t in prun_states q1 held1 progs1 rest
  end.

Lemma prun_states_simulated sched : forall s q held progs q' held', agrees s q held ->
  In (q', held') (prun_states q held progs sched) -> exists evs, agrees (fold_left (pexec N) evs s) q' held'.
Proof.
  induction sched as [|t rest IH]; intros s q held progs q' held' A Hin; cbn [prun_states] in Hin.
  - destruct Hin as [E|[]]. inversion E; subst. exists []. exact A.
  - destruct Hin as [E|Hin]; [inversion E; subst; exists []; exact A|].
    destruct (grant q held progs t) as [[[q1 h1] p1] l1] eqn:G.
    destruct (pgrant_simulated s q held progs t q1 h1 p1 l1 A G) as (e1 & _ & A1).
    destruct (IH _ q1 h1 p1 q' held' A1 Hin) as (e2 & A2).
    exists (e1 ++ e2). now rewrite fold_left_app.
Qed.

(* the final state of `prun` is the last of them *)
Lemma prun_final_in_states sched : forall q held progs,
  exists held', In (fst (runner q held progs sched), held') (prun_states q held progs sched).
Proof.
  induction sched as [|t rest IH]; intros q held progs.
  - exists held. now left.
  - cbn [prun prun_states]. destruct (grant q held progs t) as [[[q1 h1] p1] l1] eqn:G.
    destruct (IH q1 h1 p1) as [held' Hin]. destruct (runner q1 h1 p1 rest) as [s2 more] eqn:R.
    cbn [fst] in *. exists held'. now right.
Qed.

End PoolRuns.

Theorem prun_states_reachable : forall N qobs progs sched q' held',
  In (q', held') (prun_states N qobs (pring (pool_init N)) (fun _ => []) progs sched) ->
  exists evs, pring (pool_run N evs) = q' /\ forall u, pheld (pool_run N evs) u = held' u.
Proof.
  intros N qobs progs sched q' held' Hin.
  exact (prun_states_simulated N qobs sched (pool_init N) _ _ progs q' held' (conj eq_refl (fun _ => eq_refl)) Hin).
Qed.

Theorem prun_final_reachable : forall N qobs progs sched,
  exists evs, pring (pool_run N evs) =
              fst (prun st (stepZ N) start ridle log qobs (pfill st (stepZ N) start init (ids_upto N) 0) (fun _ => []) progs sched).
Proof.
  intros N qobs progs sched.
  destruct (prun_final_in_states N qobs sched (pring (pool_init N)) (fun _ => []) progs) as [held' Hin].
  destruct (prun_states_reachable N qobs progs sched _ _ Hin) as (evs & Hq & _). exists evs. exact Hq.
Qed.

(* ... so theorems 1-3 hold of every state of every `prun` run started from pfill's result *)
Theorem prun_states_conserved_exclusive_never_full : forall N, 0 < N -> forall qobs progs sched q' held',
  In (q', held') (prun_states N qobs (pfill st (stepZ N) start init (ids_upto N) 0) (fun _ => []) progs sched) ->
  let s := {| pring := q'; pheld := held' |} in
  (* 1 *) (exists ths, NoDup ths /\ (forall t, ~ In t ths -> held' t = [] /\ transit s t = []) /\
             Permutation (ids_upto N) (inring q' ++ flat_map held' ths ++ flat_map (transit s) ths)) /\
  (* 2 *) ((forall t u id, In id (held' t) -> In id (held' u) -> t = u) /\ (forall t, NoDup (held' t)) /\
           (forall t id, In id (held' t) -> 0 <= id < N /\ ~ In id (inring q') /\ forall u, ~ In id (transit s u))) /\
  (* 3 *) ((forall t v sl, thr q' t <> P2 v sl) /\ (forall t v, ~ In (t, RFull v) (log q')) /\ etail q' - head q' <= N).
Proof.
  intros N Npos qobs progs sched q' held' Hin. cbn zeta.
  destruct (prun_states_reachable N qobs progs sched q' held' Hin) as (evs & Hq & Hh).
  pose proof (pool_invariant N Npos evs) as P. set (s0 := pool_run N evs) in *.
  assert (C : PConserve N {| pring := q'; pheld := held' |}).
  { destruct (p_cons _ _ P) as (ths & Hn & Ho & Hp). exists ths. split; [exact Hn|]. split.
    - intros t Ht. destruct (Ho t Ht) as [H1 H2]. cbn [pheld]. rewrite <- Hh. split; [exact H1|].
      unfold transit in *. cbn [pring]. now rewrite <- Hq.
    - cbn [pring pheld]. rewrite <- Hq.
      rewrite (flat_map_ext_in' held' (pheld s0) ths) by (intros; symmetry; apply Hh).
      rewrite (flat_map_ext_in' (transit {| pring := pring s0; pheld := held' |}) (transit s0) ths) by reflexivity. exact Hp. }
  split; [exact C|]. split; [exact (pconserve_exclusive N _ C)|].
  destruct (pi_never_full N Npos s0 P) as (H1 & H2 & H3 & _). rewrite <- Hq. auto.
Qed.

(* ------------------------------------------------------------------------------------------------ 4', the whole alloc run alone
   From a state in which NO thread is inside a ring operation, an alloc run alone answers "empty" (in 3 steps) IF AND ONLY IF all N
   ids are held; otherwise it hands out (in 4 steps) the head of the free list, which from then on is held by the caller. *)
Section PoolQuiet.
Variable N : Z.
Hypothesis Npos : 0 < N.
Local Notation step := (stepZ N).

Lemma step_busy_log x t : thr (step x t) t <> Idle -> log (step x t) = log x.
Proof.
  unfold stepZ, RingModel.step, idz. destruct (thr x t) eqn:E; try reflexivity;
    repeat match goal with |- context[if ?b then _ else _] => destruct b end; simp_st; rewrite ?upd_same; try reflexivity;
    intros H; exfalso; apply H; reflexivity.
Qed.
Lemma pstep_busy s t x : pring s = x -> thr (step x t) t <> Idle ->
  pring (pstep N s t) = step x t /\ log (step x t) = log x /\ forall u, pheld (pstep N s t) u = pheld s u.
Proof.
  intros <- Hb. split; [reflexivity|]. split; [exact (step_busy_log _ _ Hb)|].
  intros u. unfold pstep. cbn [pring pheld]. rewrite (step_busy_log _ _ Hb), got_of_same.
  destruct (Nat.eq_dec u t) as [->|Hn]; [now rewrite upd_same|now rewrite upd_other].
Qed.
Lemma pstep_answer s t x r : pring s = x -> log (step x t) = log x ++ [(t, r)] ->
  pring (pstep N s t) = step x t /\
  pheld (pstep N s t) t = match r with RGot v => [v] | _ => [] end ++ pheld s t /\ forall u, u <> t -> pheld (pstep N s t) u = pheld s u.
Proof.
  intros <- Hl. split; [reflexivity|]. unfold pstep. cbn [pring pheld]. rewrite Hl, got_of_snoc. cbn [snd fst].
  rewrite Nat.eqb_refl, upd_same. split.
  - destruct r; reflexivity.
  - intros u Hu. now rewrite upd_other.
Qed.

Theorem pool_quiet_alloc_exact evs t :
  let s := pool_run N evs in
  (forall u, thr (pring s) u = Idle) ->
  exists ths, NoDup ths /\ (forall u, ~ In u ths -> pheld s u = []) /\
    Permutation (ids_upto N) (inring (pring s) ++ flat_map (pheld s) ths) /\
    let s3 := pool_run N (evs ++ [PStartAlloc t; PStep t; PStep t; PStep t]) in
    let s4 := pool_run N (evs ++ [PStartAlloc t; PStep t; PStep t; PStep t; PStep t]) in
    (Z.of_nat (length (flat_map (pheld s) ths)) = N ->
       log (pring s3) = log (pring s) ++ [(t, REmpty)] /\ thr (pring s3) t = Idle /\ forall u, pheld s3 u = pheld s u) /\
    (Z.of_nat (length (flat_map (pheld s) ths)) < N ->
       exists v, inring (pring s) = v :: inring (pring s4) /\
                 log (pring s4) = log (pring s) ++ [(t, RGot v)] /\ thr (pring s4) t = Idle /\
                 pheld s4 t = v :: pheld s t /\ forall u, u <> t -> pheld s4 u = pheld s u).
Proof.
  cbn zeta. intros Hq. unfold pool_run. rewrite !fold_left_app. fold (pool_run N evs).
  pose proof (pool_invariant N Npos evs) as P. remember (pool_run N evs) as s eqn:Es. clear Es evs.
  pose proof (p_reach _ _ P) as R. destruct (reach_invcov N Npos _ R) as [I C].
  assert (Hc : calm (pring s)) by (intros u; left; apply Hq).
  destruct (p_cons _ _ P) as (ths & Hn & Ho & Hp).
  assert (Ht : flat_map (transit s) ths = []) by (apply flat_map_nil; intros u; unfold transit; now rewrite Hq).
  rewrite Ht, app_nil_r in Hp.
  exists ths. split; [exact Hn|]. split; [intros u Hu; apply Ho, Hu|]. split; [exact Hp|].
  pose proof (Permutation_length Hp) as Hlen. rewrite app_length in Hlen.
  pose proof (ids_upto_length N Npos) as HN. pose proof (inring_length N _ I) as Hil.
  cbn [fold_left pexec].
  assert (E0 : pring (pstart_alloc s t) = start (pring s) t OpCons) by reflexivity.
  assert (G0 : forall u, pheld (pstart_alloc s t) u = pheld s u) by reflexivity.
  pose proof (start_log (pring s) t OpCons) as L0.
  remember (pstart_alloc s t) as s0 eqn:S0. clear S0.
  remember (start (pring s) t OpCons) as x0 eqn:X0.
  split.
  - intros Hfull.
    destruct (calm_consume_empty N Npos (pring s) t R Hc (Hq t) ltac:(lia)) as (B1 & B2 & B3 & B4 & _). cbn zeta in *.
    rewrite <- X0 in B1, B2, B3, B4. clear X0.
    remember (step x0 t) as x1 eqn:X1.
    remember (step x1 t) as x2 eqn:X2.
    assert (B1' : thr (step x0 t) t <> Idle) by (rewrite <- X1; exact B1).
    destruct (pstep_busy s0 t x0 E0 B1') as (E1 & L1 & G1). rewrite <- X1 in E1, L1. clear B1' X1.
    remember (pstep N s0 t) as s1 eqn:S1. clear S1.
    assert (B2' : thr (step x1 t) t <> Idle) by (rewrite <- X2; exact B2).
    destruct (pstep_busy s1 t x1 E1 B2') as (E2 & L2 & G2). rewrite <- X2 in E2, L2. clear B2' X2.
    remember (pstep N s1 t) as s2 eqn:S2. clear S2.
    assert (B4' : log (step x2 t) = log x2 ++ [(t, REmpty)]) by (rewrite B4, L2, L1, L0; reflexivity).
    destruct (pstep_answer s2 t x2 REmpty E2 B4') as (E3 & G3 & G3').
    rewrite E3. split; [exact B4|]. split; [exact B3|].
    intros u. destruct (Nat.eq_dec u t) as [->|Hu]; [rewrite G3|rewrite (G3' u Hu)]; cbn [app]; now rewrite G2, G1, G0.
  - intros Hroom.
    destruct (calm_consume N Npos (pring s) t R Hc (Hq t) ltac:(lia)) as (B1 & B2 & B3 & B4 & B5 & B6 & B7 & B8 & _). cbn zeta in *.
    rewrite <- X0 in B1, B2, B3, B4, B5, B6, B7, B8. clear X0.
    remember (step x0 t) as x1 eqn:X1.
    remember (step x1 t) as x2 eqn:X2.
    remember (step x2 t) as x3 eqn:X3.
    assert (B1' : thr (step x0 t) t <> Idle) by (rewrite <- X1; exact B1).
    destruct (pstep_busy s0 t x0 E0 B1') as (E1 & L1 & G1). rewrite <- X1 in E1, L1. clear B1' X1.
    remember (pstep N s0 t) as s1 eqn:S1. clear S1.
    assert (B2' : thr (step x1 t) t <> Idle) by (rewrite <- X2; exact B2).
    destruct (pstep_busy s1 t x1 E1 B2') as (E2 & L2 & G2). rewrite <- X2 in E2, L2. clear B2' X2.
    remember (pstep N s1 t) as s2 eqn:S2. clear S2.
    assert (B3' : thr (step x2 t) t <> Idle) by (rewrite <- X3; exact B3).
    destruct (pstep_busy s2 t x2 E2 B3') as (E3 & L3 & G3). rewrite <- X3 in E3, L3. clear B3' X3.
    remember (pstep N s2 t) as s3 eqn:S3. clear S3.
    assert (B5' : log (step x3 t) = log x3 ++ [(t, RGot (nthz (published (pring s)) (head (pring s))))])
      by (rewrite B5, L3, L2, L1, L0; reflexivity).
    destruct (pstep_answer s3 t x3 _ E3 B5') as (E4 & G4 & G4').
    rewrite E4. exists (nthz (published (pring s)) (head (pring s))).
    split; [|split; [|split; [|split]]].
    + apply (inring_cons N _ _ I B8 B6). lia.
    + exact B5.
    + exact B4.
    + rewrite G4. cbn [app]. now rewrite G3, G2, G1, G0.
    + intros u Hu. now rewrite (G4' u Hu), G3, G2, G1, G0.
Qed.
End PoolQuiet.

(* ------------------------------------------------------------------------------------------------ non-vacuity, N = 4 *)
(* what `new()` leaves behind *)
Example pool_init_4 :
  let x := pring (pool_init 4) in
  published x = [0; 1; 2; 3] /\ delivered x = [] /\ head x = 0 /\ tail x = 4 /\ etail x = 4 /\ dhead x = 0 /\
  map (buf x) [0; 1; 2; 3] = [0; 1; 2; 3] /\ map (thr x) [0; 1; 2; 3]%nat = [Idle; Idle; Idle; Idle] /\
  log x = [(0%nat, ROk 0 1); (0%nat, ROk 1 2); (0%nat, ROk 2 3); (0%nat, ROk 3 4)].
Proof. vm_compute. repeat split; reflexivity. Qed.

(* thread 1 allocates (gets id 0), thread 2 allocates (gets id 1), thread 2 begins to give id 1 back and is suspended after its
   reservation was validated (pc P3: about to write the slot): 0 is held, 1 is in transit, 2 and 3 are free *)
Definition pex_evs : list pev :=
  [PStartAlloc 1; PStep 1; PStep 1; PStep 1; PStep 1;
   PStartAlloc 2; PStep 2; PStep 2; PStep 2; PStep 2;
   PStartDealloc 2 1; PStep 2; PStep 2]%nat.
Definition pex_s : pst := pool_run 4 pex_evs.

Example pex_three_collections :
  inring (pring pex_s) = [2; 3] /\                                    (* free list *)
  pheld pex_s 1%nat = [0] /\ pheld pex_s 2%nat = [] /\                (* held *)
  thr (pring pex_s) 2%nat = P3 1 4 2 /\ transit pex_s 2%nat = [1] /\  (* in transit *)
  thr (pring pex_s) 1%nat = Idle /\ transit pex_s 1%nat = [] /\
  head (pring pex_s) = 2 /\ tail (pring pex_s) = 4 /\ etail (pring pex_s) = 5.
Proof. vm_compute. repeat split; reflexivity. Qed.

Example pex_conserved :
  Permutation (ids_upto 4)
    (inring (pring pex_s) ++ flat_map (pheld pex_s) [1%nat; 2%nat] ++ flat_map (transit pex_s) [1%nat; 2%nat]).
Proof.
  vm_compute.                                      (* Permutation [0; 1; 2; 3] [2; 3; 0; 1] *)
  apply (proj2 (Permutation_count_occ Z.eq_dec _ _)); intro z; cbn [count_occ]; repeat destruct (Z.eq_dec _ _); lia.
Qed.

(* the guard at work: thread 1 holds 0 only - its "dealloc 3" is not an event of the pool (nothing moves); and thread 2, inside its
   dealloc, cannot begin another operation *)
Example pex_guard :
  let s' := pool_run 4 (pex_evs ++ [PStartDealloc 1%nat 3; PStartDealloc 2%nat 1; PStartAlloc 2%nat]) in
  inring (pring s') = [2; 3] /\ pheld s' 1%nat = [0] /\ thr (pring s') 1%nat = Idle /\ thr (pring s') 2%nat = P3 1 4 2 /\
  log (pring s') = log (pring pex_s).
Proof. vm_compute. repeat split; reflexivity. Qed.

(* ... and the dealloc completes: id 1 is back in the free list, behind 2 and 3 *)
Example pex_dealloc_completes :
  let s' := pool_run 4 (pex_evs ++ [PStep 2%nat; PStep 2%nat]) in
  inring (pring s') = [2; 3; 1] /\ pheld s' 1%nat = [0] /\ pheld s' 2%nat = [] /\ thr (pring s') 2%nat = Idle /\ transit s' 2%nat = [].
Proof. vm_compute. repeat split; reflexivity. Qed.

Print Assumptions pool_init_fields.
Print Assumptions pool_slots_conserved.
Print Assumptions pool_exclusive_ownership.
Print Assumptions pool_dealloc_never_meets_full.
Print Assumptions pool_exhaustion_exact_when_quiet.
Print Assumptions pool_quiet_alloc_exact.
Print Assumptions pgrant_simulated.
Print Assumptions prun_states_reachable.
Print Assumptions prun_final_reachable.
Print Assumptions prun_states_conserved_exclusive_never_full.
Print Assumptions pex_conserved.
