(* The queue component of the zero-copy Uni channels (/repo/src/uni/channels/zero_copy/{atomic,full_sync}.rs over
   /repo/src/ogre_std/ogre_queues/{atomic/atomic_zero_copy.rs, full_sync/full_sync_zero_copy.rs}): a pool allocator (free-list
   ring A of slot ids + the pool of payload slots) and a ring B transporting slot ids.  Unlike the stand-alone queue of ZeroCopy.v,
   a consumer is handed a payload HANDLE (OgreUnique): the slot goes back to the pool only when that handle is dropped.
     publish v  : alloc (A.consume) ; write pool[id] ; B.publish id          -> accepted with B's len_after, or "full" (no free slot)
     consume    : B.consume                                                   -> the handle of slot id (its content: pool[id]), or "empty"
     release    : the drop of the handle the thread holds: dealloc (A.publish id)
     length     : B.available_elements_count
   Both components are instances of one queue machine (Section variables); each step of a composite operation is one step of the
   component it is in; accesses of component A are shifted by 500 in the trace (as in ZeroCopy.v). *)
From RM Require Import RingModel FullSync ZeroCopy.

Inductive upc := UIdle | UEnqA (v : Z) | UEnqB (v id : Z) | UDeqB | URel (id : Z) | ULenB.

Section ZU.
Variable Q : Type.
Variable qstep : Q -> nat -> Q.
Variable qstart : Q -> nat -> op -> Q.
Variable qidle : Q -> nat -> bool.
Variable qlog : Q -> list (nat * res).
Variable qobs : Q -> nat -> list Z.
Variable len_has_access : bool.
Variable qlen_now : Q -> Z.

Record ust := { ua : Q; ub : Q; upool : Z -> Z; uthr : nat -> upc; ulog : list (nat * res); uheld : nat -> option Z }.
Definition umk a b p th l h : ust := {| ua := a; ub := b; upool := p; uthr := th; ulog := l; uheld := h |}.
Local Notation lastres := (lastres Q qlog).

Definition ustep (s : ust) (t : nat) : ust :=
  match uthr s t with
  | UIdle => s
  | UEnqA v =>
      let a := qstep (ua s) t in
      if qidle a t then
        match lastres a with
        | RGot id => umk a (qstart (ub s) t (OpPub id)) (updz (upool s) id v) (upd (uthr s) t (UEnqB v id)) (ulog s) (uheld s)
        | _ => umk a (ub s) (upool s) (upd (uthr s) t UIdle) (ulog s ++ [(t, RFull v)]) (uheld s)
        end
      else umk a (ub s) (upool s) (uthr s) (ulog s) (uheld s)
  | UEnqB v id =>
      let b := qstep (ub s) t in
      if qidle b t then
        match lastres b with
        | ROk _ len => umk (ua s) b (upool s) (upd (uthr s) t UIdle) (ulog s ++ [(t, ROk v len)]) (uheld s)
        | _ => umk (ua s) b (upool s) (upd (uthr s) t UIdle) (ulog s ++ [(t, RFull v)]) (uheld s)      (* unreachable: B holds N ids *)
        end
      else umk (ua s) b (upool s) (uthr s) (ulog s) (uheld s)
  | UDeqB =>
      let b := qstep (ub s) t in
      if qidle b t then
        match lastres b with
        | RGot id => umk (ua s) b (upool s) (upd (uthr s) t UIdle) (ulog s ++ [(t, RGot (upool s id))]) (upd (uheld s) t (Some id))
        | _ => umk (ua s) b (upool s) (upd (uthr s) t UIdle) (ulog s ++ [(t, REmpty)]) (uheld s)
        end
      else umk (ua s) b (upool s) (uthr s) (ulog s) (uheld s)
  | URel id =>
      let a := qstep (ua s) t in
      if qidle a t then umk a (ub s) (upool s) (upd (uthr s) t UIdle) (ulog s) (uheld s)
      else umk a (ub s) (upool s) (uthr s) (ulog s) (uheld s)
  | ULenB =>
      if len_has_access then
        let b := qstep (ub s) t in
        if qidle b t then
          match lastres b with
          | RLen n => umk (ua s) b (upool s) (upd (uthr s) t UIdle) (ulog s ++ [(t, RLen n)]) (uheld s)
          | _ => umk (ua s) b (upool s) (upd (uthr s) t UIdle) (ulog s) (uheld s)
          end
        else umk (ua s) b (upool s) (uthr s) (ulog s) (uheld s)
      else umk (ua s) (ub s) (upool s) (upd (uthr s) t UIdle) (ulog s ++ [(t, RLen (qlen_now (ub s)))]) (uheld s)
  end.

Definition ustart (s : ust) (t : nat) (o : op) : ust :=
  match uthr s t with
  | UIdle =>
      match o with
      | OpPub v => umk (qstart (ua s) t OpCons) (ub s) (upool s) (upd (uthr s) t (UEnqA v)) (ulog s) (uheld s)
      | OpCons => umk (ua s) (qstart (ub s) t OpCons) (upool s) (upd (uthr s) t UDeqB) (ulog s) (uheld s)
      | OpLen => if len_has_access then umk (ua s) (qstart (ub s) t OpLen) (upool s) (upd (uthr s) t ULenB) (ulog s) (uheld s)
                 else umk (ua s) (ub s) (upool s) (upd (uthr s) t ULenB) (ulog s) (uheld s)
      end
  | _ => s
  end.

(* the thread drops the handle it holds (if it holds one) *)
Definition urelease (s : ust) (t : nat) : ust :=
  match uthr s t, uheld s t with
  | UIdle, Some id => umk (qstart (ua s) t (OpPub id)) (ub s) (upool s) (upd (uthr s) t (URel id)) (ulog s) (upd (uheld s) t None)
  | _, _ => s
  end.

Definition uidle (s : ust) (t : nat) : bool := match uthr s t with UIdle => true | _ => false end.

Definition uobs (s : ust) (t : nat) : list Z :=
  match uthr s t with
  | UIdle => skip t
  | UEnqA _ | URel _ => shiftA (qobs (ua s) t)
  | UEnqB _ _ | UDeqB => qobs (ub s) t
  | ULenB => if len_has_access then qobs (ub s) t else acc t 4 K_YIELD 0 (-1) true
  end.

End ZU.
