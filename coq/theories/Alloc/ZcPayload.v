(* PAYLOAD level of the zero-copy atomic Uni channel (Alloc/ZcUni.v over two lock-free rings, Chan/ChanZ.v, Chan/ChanZInst.v).
   ChanZInst.v / ZcConserve.v speak about slot IDS (handed out exactly once, in order; each id in exactly one place).  Here: the
   VALUES the consumers receive.  In every state of every channel run

       accepted_of ulog = yielded_of ulog ++ map upool (inring B)                                  (Content, clause c_log)

   i.e. the values accepted (ROk entries of the composite log, in the order of `published B`: ROk is appended in the composite step
   in which B's P4 CAS succeeds) are the values delivered (RGot entries: appended in the composite step in which B's C4 CAS
   succeeds, carrying the content of the slot at that moment) followed by the CONTENTS of the slots whose ids are queued in B.
   The second clause: the slot an operation carries between the rings (pc `UEnqB v id`) contains v.
   Preservation needs slot conservation (ZcConserve.ZI): the only pool write `updz pool id v` happens in the composite step
   UEnqA v -> UEnqB v id, with id the head of the free list A - so id is not in B, and is not the id of anybody else's transit. *)
From Coq Require Import Permutation.
From RM Require Import RingModel RingInv RingProps RingCov RingSolo FullSync Chan ZeroCopy PoolRun ZcUni ChanZ ChanZProps ChanZInst ZcSoloA
                       ZcConserve.
Import ZC.

(* ------------------------------------------------------------------------------------------------ log helpers *)
Lemma acc_snoc l t r : accepted_of (l ++ [(t, r)]) = accepted_of l ++ match r with ROk v _ => [v] | _ => [] end.
Proof. unfold accepted_of. rewrite flat_map_app. cbn. now rewrite app_nil_r. Qed.
Lemma yld_snoc l t r : yielded_of (l ++ [(t, r)]) = yielded_of l ++ match r with RGot v => [v] | _ => [] end.
Proof. unfold yielded_of. rewrite flat_map_app. cbn. now rewrite app_nil_r. Qed.
Lemma map_ext_in' {A B} (f g : A -> B) l : (forall a, In a l -> f a = g a) -> map f l = map g l.
Proof. induction l as [|a l IH]; intros H; [reflexivity|]. cbn. rewrite (H a) by now left. rewrite IH; [reflexivity|]. intros; apply H; now right. Qed.

Section Payload.
Variable N : Z.
Hypothesis Npos : 0 < N.
Local Notation ust := (ust st).
Local Notation step := (stepZ N).
Local Notation lastres := (lastres st log).
Local Notation astep := (astep N).

(* the payload invariant *)
Record Content (s : ust) : Prop := {
  c_log : accepted_of (ulog _ s) = yielded_of (ulog _ s) ++ map (upool _ s) (inring (ub _ s));
  c_tr  : forall t v id, uthr _ s t = UEnqB v id -> upool _ s id = v;
  c_head : Z.of_nat (length (yielded_of (ulog _ s))) = head (ub _ s)      (* the composite log and the id ring count deliveries alike *)
}.
Definition PI (s : ust) : Prop := ZI N s /\ Content s.

(* a move that touches neither the pool, nor the contents of the id ring, nor the accepted / yielded values of the log *)
Lemma content_frame s a' b' th' l' h' : Content s ->
  inring b' = inring (ub _ s) -> head b' = head (ub _ s) ->
  accepted_of l' = accepted_of (ulog _ s) -> yielded_of l' = yielded_of (ulog _ s) ->
  (forall u v id, th' u = UEnqB v id -> uthr _ s u = UEnqB v id) ->
  Content (umk st a' b' (upool _ s) th' l' h').
Proof.
  intros [C1 C2 C3] Hr Hh Ha Hy Ht. constructor; cbn [ua ub upool uthr ulog uheld umk].
  - now rewrite Hr, Ha, Hy.
  - intros t v id E. exact (C2 t v id (Ht _ _ _ E)).
  - now rewrite Hy, Hh.
Qed.

Ltac same_thr t E := intros u w i; destruct (Nat.eq_dec u t) as [->|Hne];
  [rewrite ?upd_same; try discriminate; try (rewrite E; discriminate); auto|rewrite ?upd_other by assumption; auto].

Theorem content_step s t : ZI N s -> Content s -> Content (astep s t).
Proof.
  intros Z C.
  destruct (reach_invcov N Npos _ (z_ra _ _ Z)) as [Ia _]. destruct (reach_invcov N Npos _ (z_rb _ _ Z)) as [Ib _].
  pose proof (z_ph _ _ Z t) as P. unfold phase in P.
  pose proof (z_2a _ _ Z) as H2a. pose proof (z_2b _ _ Z) as H2b. pose proof (z_cons _ _ Z) as Cv.
  destruct s as [a b p th l h]. cbn [ua ub upool uthr ulog uheld] in *. fold (umk st a b p th l h) in *.
  destruct (th t) eqn:E; cbn [phase_of] in P; destruct P as [P1 P2].
  - (* UIdle *) rewrite (a_idle N _ _ _ _ _ _ _ E). exact C.
  - (* UEnqA v: the allocation; its last step writes the payload into the slot just taken out of the free list *)
    destruct (ring_cons_step N a t Ia P1) as [(Hi & Hl & Hp & Hh & Hlt)|[(Hi & Hl & Hp & Hh)|(Hc & Hp & Hh)]].
    + rewrite (a_enqA_got N a b p th l h t v _ E Hi (lastres_snoc _ _ _ _ Hl)).
      destruct (start_frame b t (OpPub (nthz (published a) (head a)))) as [Sp Sh].
      set (id := nthz (published a) (head a)) in *.
      (* id is in the free list: by conservation it is neither in the id ring nor in transit *)
      destruct (conserve_nodup N _ Cv) as (ths & Hn & Ho & Hd & _). cbn [ua ub] in Hd.
      assert (HinA : In id (inring a)) by (rewrite (inring_cons N a _ Ia Hp Hh Hlt); now left).
      assert (HnB : ~ In id (inring b)).
      { intros HB. apply (nodup_app_disj _ _ id Hd HinA). apply in_or_app. now left. }
      assert (HnT : forall u w, th u <> UEnqB w id).
      { intros u w Eu. apply (nodup_app_disj _ _ id Hd HinA). apply in_or_app. right.
        assert (Hown : In id (owned (umk st a b p th l h) u)).
        { unfold owned, transl. cbn [uthr umk]. rewrite Eu. apply in_or_app. right. now left. }
        apply in_flat_map. exists u. split; [|exact Hown].
        apply (owned_in_ths _ ths u Ho). intros E0. rewrite E0 in Hown. destruct Hown. }
      destruct C as [C1 C2 C3]. cbn [ua ub upool uthr ulog uheld umk] in C1, C2, C3.
      constructor; cbn [ua ub upool uthr ulog uheld umk].
      * rewrite (inring_same _ _ Sp Sh), C1. f_equal. apply map_ext_in'. intros x Hx. symmetry. apply updz_other. intros Hxi. subst x. contradiction.
      * intros u w i Eu. destruct (Nat.eq_dec u t) as [->|Hne].
        -- rewrite upd_same in Eu. injection Eu as <- <-. apply updz_same.
        -- rewrite upd_other in Eu by assumption. rewrite updz_other; [exact (C2 u w i Eu)|]. intros ->. exact (HnT u w Eu).
      * now rewrite Sh.
    + rewrite (a_enqA_none N a b p th l h t v E Hi (lastres_snoc _ _ _ _ Hl)).
      apply (content_frame _ _ _ _ _ _ C); cbn [ua ub upool uthr ulog uheld umk];
        [reflexivity|reflexivity|now rewrite acc_snoc, app_nil_r|now rewrite yld_snoc, app_nil_r|same_thr t E].
    + rewrite (a_enqA_busy N a b p th l h t v E (cons_busy _ Hc)).
      apply (content_frame _ _ _ _ _ _ C); cbn [ua ub upool uthr ulog uheld umk]; auto.
  - (* UEnqB v id: the publication of the id; its last step appends ROk v to the log and id to the ring *)
    destruct (ring_pub_step N b t id H2b P2) as [(Hi & (len & Hl) & Hp & Hh)|(Hc & Hp & Hh)].
    + rewrite (a_enqB_ok N a b p th l h t v id _ _ E Hi (lastres_snoc _ _ _ _ Hl)).
      destruct C as [C1 C2 C3]. cbn [ua ub upool uthr ulog uheld umk] in C1, C2, C3.
      constructor; cbn [ua ub upool uthr ulog uheld umk].
      * rewrite acc_snoc, yld_snoc, app_nil_r, (inring_pub N b _ id Ib Hp Hh), map_app, C1, <- app_assoc. cbn [map].
        now rewrite (C2 t v id E).
      * intros u w i Eu. destruct (Nat.eq_dec u t) as [->|Hne]; [rewrite upd_same in Eu; discriminate|].
        rewrite upd_other in Eu by assumption. exact (C2 u w i Eu).
      * now rewrite yld_snoc, app_nil_r, Hh.
    + rewrite (a_enqB_busy N a b p th l h t v id E (pval_busy _ _ Hc)).
      apply (content_frame _ _ _ _ _ _ C); cbn [ua ub upool uthr ulog uheld umk]; auto. now apply inring_same.
  - (* UDeqB: the consume; its last step appends RGot (content of the head slot) and removes the head id from the ring *)
    destruct (ring_cons_step N b t Ib P2) as [(Hi & Hl & Hp & Hh & Hlt)|[(Hi & Hl & Hp & Hh)|(Hc & Hp & Hh)]].
    + rewrite (a_deqB_got N a b p th l h t _ E Hi (lastres_snoc _ _ _ _ Hl)).
      destruct C as [C1 C2 C3]. cbn [ua ub upool uthr ulog uheld umk] in C1, C2, C3.
      constructor; cbn [ua ub upool uthr ulog uheld umk].
      * rewrite acc_snoc, yld_snoc, app_nil_r, C1, (inring_cons N b _ Ib Hp Hh Hlt), <- app_assoc. reflexivity.
      * intros u w i Eu. destruct (Nat.eq_dec u t) as [->|Hne]; [rewrite upd_same in Eu; discriminate|].
        rewrite upd_other in Eu by assumption. exact (C2 u w i Eu).
      * rewrite yld_snoc, app_length, Hh. cbn [length]. lia.
    + rewrite (a_deqB_empty N a b p th l h t E Hi (lastres_snoc _ _ _ _ Hl)).
      apply (content_frame _ _ _ _ _ _ C); cbn [ua ub upool uthr ulog uheld umk];
        [now apply inring_same|assumption|now rewrite acc_snoc, app_nil_r|now rewrite yld_snoc, app_nil_r|same_thr t E].
    + rewrite (a_deqB_busy N a b p th l h t E (cons_busy _ Hc)).
      apply (content_frame _ _ _ _ _ _ C); cbn [ua ub upool uthr ulog uheld umk]; auto. now apply inring_same.
  - (* URel id *)
    destruct (ring_pub_step N a t id H2a P1) as [(Hi & (len & Hl) & Hp & Hh)|(Hc & Hp & Hh)].
    + rewrite (a_rel_done N a b p th l h t id E Hi).
      apply (content_frame _ _ _ _ _ _ C); cbn [ua ub upool uthr ulog uheld umk]; auto. same_thr t E.
    + rewrite (a_rel_busy N a b p th l h t id E (pval_busy _ _ Hc)).
      apply (content_frame _ _ _ _ _ _ C); cbn [ua ub upool uthr ulog uheld umk]; auto.
  - (* ULenB *)
    destruct (ring_len_step N b t P2) as ([Hi|Hc] & Hp & Hh).
    + unfold ZcSoloA.astep, ustep; cbn [ua ub upool uthr ulog uheld umk]; rewrite E; cbn [ua ub upool uthr ulog uheld umk].
      rewrite (ridle_true _ _ Hi).
      destruct (lastres (step b t)); apply (content_frame _ _ _ _ _ _ C); cbn [ua ub upool uthr ulog uheld umk];
        try (now apply inring_same); try assumption; try reflexivity; try (now rewrite acc_snoc, app_nil_r); try (now rewrite yld_snoc, app_nil_r); same_thr t E.
    + rewrite (a_len_busy N a b p th l h t E (len_busy _ Hc)).
      apply (content_frame _ _ _ _ _ _ C); cbn [ua ub upool uthr ulog uheld umk]; auto. now apply inring_same.
Qed.


Theorem content_start s t o : Content s -> Content (astart s t o).
Proof.
  intros C. unfold astart, ustart. destruct s as [a b p th l h]. cbn [ua ub upool uthr ulog uheld] in *. fold (umk st a b p th l h) in *.
  destruct (th t) eqn:E; try exact C.
  destruct o; apply (content_frame _ _ _ _ _ _ C); cbn [ua ub upool uthr ulog uheld umk]; auto;
    try (apply inring_same; apply start_frame); try apply start_frame; same_thr t E.
Qed.

Theorem content_release s t : Content s -> Content (arelease s t).
Proof.
  intros C. unfold arelease, urelease. destruct s as [a b p th l h]. cbn [ua ub upool uthr ulog uheld] in *. fold (umk st a b p th l h) in *.
  destruct (th t) eqn:E; try exact C. destruct (h t) as [id|]; [|exact C].
  apply (content_frame _ _ _ _ _ _ C); cbn [ua ub upool uthr ulog uheld umk]; auto. same_thr t E.
Qed.

Theorem content_init : Content (zc_q0 N).
Proof. constructor; unfold zc_q0; cbn [ua ub upool uthr ulog uheld]; [reflexivity|discriminate|reflexivity]. Qed.

(* the strengthened invariant through the three kinds of moves of the queue component *)
Theorem pi_step s t : PI s -> PI (astep s t).
Proof. intros [Z C]. split; [now apply (zi_step N Npos)|now apply content_step]. Qed.
Theorem pi_start s t o : PI s -> uheld _ s t = None -> PI (astart s t o).
Proof. intros [Z C] H. split; [now apply zi_start|now apply content_start]. Qed.
Theorem pi_release s t : PI s -> PI (arelease s t).
Proof. intros [Z C]. split; [now apply zi_release|now apply content_release]. Qed.
Theorem pi_init : PI (zc_q0 N).
Proof. split; [apply (zi_init N Npos)|apply content_init]. Qed.

(* component level: every state reached from `new()` (ZcConserve.zreach) *)
Theorem zreach_content s : zreach N s -> PI s.
Proof. induction 1; [apply pi_init|now apply pi_step|now apply pi_start|now apply pi_release]. Qed.

(* what Content says *)
Lemma content_prefix s : Content s ->
  yielded_of (ulog _ s) = firstn (length (yielded_of (ulog _ s))) (accepted_of (ulog _ s)).
Proof. intros C. rewrite (c_log _ C), firstn_app, Nat.sub_diag, firstn_all. cbn. now rewrite app_nil_r. Qed.

(* the composite log and the id ring count acceptances alike: the p-th ROk of ulog is the answer to the publication of the p-th id *)
Lemma content_tail s : ZI N s -> Content s -> Z.of_nat (length (accepted_of (ulog _ s))) = tail (ub _ s).
Proof.
  intros Z C. destruct (reach_invcov N Npos _ (z_rb _ _ Z)) as [Ib _].
  rewrite (c_log _ C), app_length, map_length, Nat2Z.inj_add, (c_head _ C), (inring_length N _ Ib). lia.
Qed.

End Payload.

(* ------------------------------------------------------------------------------------------------ every channel run *)
Section ChannelRuns.
Variable N : Z.
Hypothesis Npos : 0 < N.
Variable M k : nat.
Variable wake_rule : Z -> option nat.
Local Notation run cevs := (q _ (zc_run N M k wake_rule cevs)).

Theorem zc_atomic_run_content cevs : PI N (run cevs).
Proof.
  unfold zc_run.
  apply (zc_guarded_invariant st (stepZ N) start ring_idle0 log true (fun _ => 0) M k wake_rule (PI N)
           (pi_step N Npos) (pi_start N) (pi_release N) (zc_q0 N) cevs (pi_init N Npos)).
  - intros t. reflexivity.
  - intros t. cbn. discriminate.
Qed.
End ChannelRuns.

(* MAIN THEOREM: the values handed to the consumers are, in order, a prefix of the values accepted *)
Theorem zc_atomic_payload_exactly_once_in_order : forall N, 0 < N -> forall M k wr cevs, let s := q _ (zc_run N M k wr cevs) in
  yielded_of (ulog _ s) = firstn (length (yielded_of (ulog _ s))) (accepted_of (ulog _ s)).
Proof. intros N Npos M k wr cevs s. apply content_prefix. apply (zc_atomic_run_content N Npos). Qed.

(* in EVERY state: delivered values ++ contents of the queued slots = accepted values *)
Theorem zc_atomic_payload_accounted : forall N, 0 < N -> forall M k wr cevs, let s := q _ (zc_run N M k wr cevs) in
  yielded_of (ulog _ s) ++ map (upool _ s) (inring (ub _ s)) = accepted_of (ulog _ s).
Proof. intros N Npos M k wr cevs s. symmetry. apply c_log. apply (zc_atomic_run_content N Npos). Qed.

Theorem zc_atomic_payload_nothing_lost : forall N, 0 < N -> forall M k wr cevs, let s := q _ (zc_run N M k wr cevs) in
  (forall t, uthr _ s t = UIdle) ->
  yielded_of (ulog _ s) ++ map (upool _ s) (inring (ub _ s)) = accepted_of (ulog _ s).
Proof. intros N Npos M k wr cevs s _. now apply zc_atomic_payload_accounted. Qed.

(* the slot a suspended producer carries (allocated, written, id not yet published) holds the value it is sending *)
Theorem zc_atomic_transit_payload : forall N, 0 < N -> forall M k wr cevs, let s := q _ (zc_run N M k wr cevs) in
  forall t v id, uthr _ s t = UEnqB v id -> upool _ s id = v.
Proof. intros N Npos M k wr cevs s. apply c_tr. apply (zc_atomic_run_content N Npos). Qed.

(* acceptance order = publication order of the ids, delivery order = consumption order of the ids: the composite log has as many ROk
   entries as the id ring has published ids (tail B) and as many RGot entries as ids were consumed (head B) *)
Theorem zc_atomic_payload_positions : forall N, 0 < N -> forall M k wr cevs, let s := q _ (zc_run N M k wr cevs) in
  Z.of_nat (length (accepted_of (ulog _ s))) = tail (ub _ s) /\ Z.of_nat (length (yielded_of (ulog _ s))) = head (ub _ s) /\
  length (accepted_of (ulog _ s)) = length (accepted_of (log (ub _ s))) /\
  length (yielded_of (ulog _ s)) = length (yielded_of (log (ub _ s))).
Proof.
  intros N Npos M k wr cevs s. destruct (zc_atomic_run_content N Npos M k wr cevs) as [Z C]. fold s in Z, C.
  destruct (reach_invcov N Npos _ (z_rb _ _ Z)) as [Ib _].
  pose proof (content_tail N Npos s Z C) as Ht. pose proof (c_head _ C) as Hh.
  rewrite (i_acc _ _ Ib), (i_yld _ _ Ib). pose proof (i_lenp _ _ Ib). pose proof (i_lend _ _ Ib). repeat split; lia.
Qed.

(* ------------------------------------------------------------------------------------------------ rejected payloads
   Every answer of a publish - `ROk v _` or `RFull v` at thread t - carries the value of t's own publish, and the answers of t come in
   the order t began its publishes: for each thread, (values answered to t) ++ (value of the publish t is inside, if any) is the list
   of the values of the publishes t BEGAN.  This is a property of the composite alone (any queue machine underneath, no invariant
   needed): stated over explicit histories of the three kinds of moves of the queue component. *)
Section Answers.
Variable Q : Type.
Variable qstep : Q -> nat -> Q.
Variable qstart : Q -> nat -> op -> Q.
Variable qidle : Q -> nat -> bool.
Variable qlog : Q -> list (nat * res).
Variable lha : bool.
Variable qlen_now : Q -> Z.
Local Notation ust := (ust Q).
Local Notation ustep := (ustep Q qstep qstart qidle qlog lha qlen_now).
Local Notation ustart := (ustart Q qstart lha).
Local Notation urelease := (urelease Q qstart).

(* the values of the publish answers thread t received (accepted or handed back), in order *)
Definition answered (l : list (nat * res)) (t : nat) : list Z :=
  flat_map (fun e => if Nat.eqb (fst e) t then match snd e with ROk v _ | RFull v => [v] | _ => [] end else []) l.
(* the value of the publish thread t is inside *)
Definition inprog (s : ust) (t : nat) : list Z := match uthr _ s t with UEnqA v | UEnqB v _ => [v] | _ => [] end.

(* histories of the queue component *)
Inductive zev := ZStep (t : nat) | ZStart (t : nat) (o : op) | ZRel (t : nat).
Definition zexec (s : ust) (e : zev) : ust :=
  match e with ZStep t => ustep s t | ZStart t o => ustart s t o | ZRel t => urelease s t end.
(* the value of the publish event e makes thread t begin in state s (a start by a busy thread is a no-op) *)
Definition begun (s : ust) (e : zev) (t : nat) : list Z :=
  match e with ZStart u (OpPub v) => if Nat.eqb u t && uidle _ s u then [v] else [] | _ => [] end.
Fixpoint started (s : ust) (evs : list zev) (t : nat) : list Z :=
  match evs with [] => [] | e :: r => begun s e t ++ started (zexec s e) r t end.

Lemma answered_snoc l u r t :
  answered (l ++ [(u, r)]) t = answered l t ++ (if Nat.eqb u t then match r with ROk v _ | RFull v => [v] | _ => [] end else []).
Proof. unfold answered. rewrite flat_map_app. cbn. now rewrite app_nil_r. Qed.

Lemma pubvals_exec s e t : answered (ulog _ (zexec s e)) t ++ inprog (zexec s e) t = (answered (ulog _ s) t ++ inprog s t) ++ begun s e t.
Proof.
  destruct e as [u|u o|u]; cbn [zexec begun].
  - (* a step *)
    rewrite app_nil_r. unfold inprog, ZcUni.ustep. destruct (uthr _ s u) eqn:E; [reflexivity| | | | |].
    all: repeat match goal with
         | |- context[if ?b then _ else _] => destruct b
         | |- context[match lastres ?A ?B ?C with _ => _ end] => destruct (lastres A B C)
         end; cbn [ua ub upool uthr ulog uheld umk]; rewrite ?answered_snoc;
         (destruct (Nat.eq_dec u t) as [->|Hn];
          [rewrite ?upd_same, ?Nat.eqb_refl, ?E|rewrite ?upd_other by auto; rewrite ?(proj2 (Nat.eqb_neq u t) Hn)]);
         rewrite ?app_nil_r, <- ?app_assoc; reflexivity.
  - (* a start *)
    unfold inprog, ZcUni.ustart, uidle. destruct (uthr _ s u) eqn:E; rewrite ?andb_false_r; try (destruct o; now rewrite app_nil_r).
    rewrite andb_true_r.
    destruct o; [| |destruct lha]; cbn [ua ub upool uthr ulog uheld umk];
      (destruct (Nat.eq_dec u t) as [->|Hn];
       [rewrite ?upd_same, ?Nat.eqb_refl, ?E|rewrite ?upd_other by auto; rewrite ?(proj2 (Nat.eqb_neq u t) Hn)]);
      rewrite ?app_nil_r; reflexivity.
  - (* a release *)
    rewrite app_nil_r. unfold inprog, ZcUni.urelease. destruct (uthr _ s u) eqn:E; try reflexivity. destruct (uheld _ s u); [|reflexivity].
    cbn [ua ub upool uthr ulog uheld umk].
    destruct (Nat.eq_dec u t) as [->|Hn]; [rewrite upd_same, E|rewrite upd_other by auto]; reflexivity.
Qed.

Theorem answers_are_own_publishes evs : forall s t,
  answered (ulog _ (fold_left zexec evs s)) t ++ inprog (fold_left zexec evs s) t = (answered (ulog _ s) t ++ inprog s t) ++ started s evs t.
Proof.
  induction evs as [|e evs IH]; intros s t; cbn [fold_left started]; [now rewrite app_nil_r|].
  rewrite IH, pubvals_exec, <- !app_assoc. reflexivity.
Qed.

Lemma started_in s evs t v : In v (started s evs t) -> In (ZStart t (OpPub v)) evs.
Proof.
  revert s. induction evs as [|e evs IH]; intros s H; [destruct H|]. cbn [started] in H. apply in_app_or in H. destruct H as [H|H].
  - left. unfold begun in H. destruct e as [u|u [w| |]|u]; try destruct H.
    destruct (Nat.eqb_spec u t) as [->|]; cbn [andb] in H; [|destruct H]. destruct (uidle _ s t); [|destruct H].
    destruct H as [->|[]]. reflexivity.
  - right. exact (IH _ H).
Qed.
Lemma answered_in l t v : In (t, RFull v) l \/ (exists len, In (t, ROk v len) l) -> In v (answered l t).
Proof.
  intros H. unfold answered. apply in_flat_map. destruct H as [H|[len H]]; eexists; (split; [exact H|]); cbn [fst snd]; rewrite Nat.eqb_refl; now left.
Qed.
End Answers.

(* ... in every run of the zero-copy atomic Uni channel: the queue component moved by SOME history `evs` of its three kinds of moves
   (the channel machine makes no other), and for that history each thread's publish answers - accepted or handed back - are, in
   order, the values of the publishes that thread began: in particular every `RFull v` at thread t answers t's own publish of v. *)
Definition azexec (N : Z) := zexec st (stepZ N) start ring_idle0 log true (fun _ => 0).
Definition astarted (N : Z) := started st (stepZ N) start ring_idle0 log true (fun _ => 0).

Theorem zc_atomic_run_has_history N M k wr cevs : exists evs, q _ (zc_run N M k wr cevs) = fold_left (azexec N) evs (zc_q0 N).
Proof.
  unfold zc_run.
  apply (zc_q_invariant st (stepZ N) start ring_idle0 log true (fun _ => 0) M k wr (fun s => exists evs, s = fold_left (azexec N) evs (zc_q0 N))).
  - intros x t [evs ->]. exists (evs ++ [ZStep t]). now rewrite fold_left_app.
  - intros x t o [evs ->]. exists (evs ++ [ZStart t o]). now rewrite fold_left_app.
  - intros x t [evs ->]. exists (evs ++ [ZRel t]). now rewrite fold_left_app.
  - exists []. reflexivity.
Qed.

Theorem zc_atomic_rejected_payload_handed_back : forall N M k wr cevs, let s := q _ (zc_run N M k wr cevs) in
  exists evs, s = fold_left (azexec N) evs (zc_q0 N) /\
    (forall t, answered (ulog _ s) t ++ inprog _ s t = astarted N (zc_q0 N) evs t) /\
    (forall t v, In (t, RFull v) (ulog _ s) -> In (ZStart t (OpPub v)) evs) /\
    (forall t v len, In (t, ROk v len) (ulog _ s) -> In (ZStart t (OpPub v)) evs).
Proof.
  intros N M k wr cevs s. destruct (zc_atomic_run_has_history N M k wr cevs) as [evs H]. fold s in H. exists evs. split; [exact H|].
  assert (E : forall t, answered (ulog _ s) t ++ inprog _ s t = astarted N (zc_q0 N) evs t).
  { intros t. rewrite H. unfold azexec, astarted. rewrite answers_are_own_publishes. reflexivity. }
  split; [exact E|]. split.
  - intros t v Hin. apply (started_in st (stepZ N) start ring_idle0 log true (fun _ => 0) (zc_q0 N)). fold (astarted N). rewrite <- E.
    apply in_or_app. left. apply answered_in. now left.
  - intros t v len Hin. apply (started_in st (stepZ N) start ring_idle0 log true (fun _ => 0) (zc_q0 N)). fold (astarted N). rewrite <- E.
    apply in_or_app. left. apply answered_in. right. now exists len.
Qed.

(* ------------------------------------------------------------------------------------------------ non-vacuity
   N = 4, no wake-ups (wake rule: none).  Producers 1 and 2 send 70 and 80 INTERLEAVED: alternating in the allocation, 1 first (1 gets
   slot 0, 2 gets slot 1), alternating in the publication of the id, 2 first: accepted order 80, 70 - id ring [1; 0].  Consumer 3 polls:
   receives 80 (the content of slot 1) and gives slot 1 back.  Producer 1 begins to send 90 and is suspended after the allocation (slot
   2 written, pc UEnqB 90 2).  Producer 2 sends 95 (slot 3). *)
Definition ex_steps (l : list nat) : list cev := map CStep l.
Definition ex_cevs : list cev :=
  [CStart 1%nat (CoSend 70); CStart 2%nat (CoSend 80)] ++ ex_steps [1;2;1;2;1;2;1;2; 2;1;2;1;2;1;2;1]%nat ++
  [CStart 3%nat (CoPoll 0)] ++ ex_steps [3;3;3;3; 3;3;3;3]%nat ++
  [CStart 1%nat (CoSend 90)] ++ ex_steps [1;1;1;1]%nat ++
  [CStart 2%nat (CoSend 95)] ++ ex_steps [2;2;2;2;2;2;2;2]%nat.
Definition ex_p : ust st := q _ (zc_run 4 2 1 (fun _ => None) ex_cevs).

Example ex_payload :
  ulog _ ex_p = [(2%nat, ROk 80 1); (1%nat, ROk 70 2); (3%nat, RGot 80); (2%nat, ROk 95 2)] /\
  accepted_of (ulog _ ex_p) = [80; 70; 95] /\
  yielded_of (ulog _ ex_p) = [80] /\
  inring (ub _ ex_p) = [0; 3] /\ map (upool _ ex_p) (inring (ub _ ex_p)) = [70; 95] /\   (* queued: slots 0 and 3, holding 70 and 95 *)
  inring (ua _ ex_p) = [1] /\ upool _ ex_p 1 = 80 /\                                      (* slot 1 is free again (stale content) *)
  uthr _ ex_p 1%nat = UEnqB 90 2 /\ upool _ ex_p 2 = 90 /\                                (* slot 2 in transit, holding 90 *)
  yielded_of (ulog _ ex_p) ++ map (upool _ ex_p) (inring (ub _ ex_p)) = accepted_of (ulog _ ex_p) /\
  answered (ulog _ ex_p) 1%nat = [70] /\ inprog _ ex_p 1%nat = [90] /\ answered (ulog _ ex_p) 2%nat = [80; 95].
Proof. vm_compute. repeat split; reflexivity. Qed.

(* a refused publish: thread 1 fills the four slots, thread 2's send of 5 finds the free list empty *)
Definition ex_cevs_full : list cev :=
  [CStart 1%nat (CoSend 1)] ++ ex_steps (repeat 1%nat 8) ++ [CStart 1%nat (CoSend 2)] ++ ex_steps (repeat 1%nat 8) ++
  [CStart 1%nat (CoSend 3)] ++ ex_steps (repeat 1%nat 8) ++ [CStart 1%nat (CoSend 4)] ++ ex_steps (repeat 1%nat 8) ++
  [CStart 2%nat (CoSend 5)] ++ ex_steps (repeat 2%nat 3).
Definition ex_f : ust st := q _ (zc_run 4 2 1 (fun _ => None) ex_cevs_full).
Example ex_rejected :
  ulog _ ex_f = [(1%nat, ROk 1 1); (1%nat, ROk 2 2); (1%nat, ROk 3 3); (1%nat, ROk 4 4); (2%nat, RFull 5)] /\
  answered (ulog _ ex_f) 2%nat = [5] /\ answered (ulog _ ex_f) 1%nat = [1; 2; 3; 4] /\
  map (upool _ ex_f) (inring (ub _ ex_f)) = [1; 2; 3; 4] /\ inring (ua _ ex_f) = [].
Proof. vm_compute. repeat split; reflexivity. Qed.

Print Assumptions zc_atomic_payload_exactly_once_in_order.
Print Assumptions zc_atomic_payload_accounted.
Print Assumptions zc_atomic_payload_nothing_lost.
Print Assumptions zc_atomic_transit_payload.
Print Assumptions zc_atomic_payload_positions.
Print Assumptions zc_atomic_rejected_payload_handed_back.
Print Assumptions zreach_content.
Print Assumptions answers_are_own_publishes.
Print Assumptions ex_payload.
Print Assumptions ex_rejected.
