(* The STAND-ALONE zero-copy queue over the lock-free ring (`NonBlockingQueue` over `AtomicZeroCopy`: Alloc/ZeroCopy.v instantiated with
   the ghost / unbounded-integer ring machine `stepZ N`), for every interleaving of any number of threads issuing enqueue / dequeue /
   length, 0 < N, initial state `zq0 N p`: free list = `pfill` of `ids_upto N`, id ring empty, every thread ZIdle, pool `p` arbitrary.

     (1) zcq_slots_conserved        each slot id 0..N-1 is in exactly one place: free list A / id ring B / in transit inside an enqueue
                                    (ZEnqB v id) / inside a dequeue (ZDeqL id, ZDeqA id v).
     (2) the log-order FIFO statement  dequeued_of log = firstn _ (enqueued_of log)  is FALSE with two overlapping dequeues
         (zcq_log_order_fifo_refuted, by vm_compute): ZGot is logged when the give-back A.publish returns, several steps after B's
         consume took the id.  What is true:
         (2a) zcq_fifo_in_consume_order   every ZGot answer carries a TICKET (ghost: the number of B.consumes completed before its
              own, = head B before its C4 CAS); the answer with ticket k is exactly the k-th enqueued value, which is the payload the
              enqueue that published the k-th id of B wrote into that slot (no torn / stale / foreign payload); tickets are handed out
              once: answered tickets ++ tickets of the dequeues in progress = 0 .. head B - 1.
         (2b) zcq_fifo_single_consumer    all ZDeq issued by one thread: the log-order statement holds.
         (2c) zcq_dequeued_permutation    any number of consumers, no dequeue in progress: the dequeued values are a PERMUTATION of
              the first (head B) enqueued values.
     (3) zcq_nothing_lost           no operation in progress: in ticket order / for a single consumer / up to a permutation,
                                    dequeued ++ map pool (ids in B) = enqueued (in B order), and free + queued = N.
     (4) zcq_full_only_when_free_list_empty   a ZFull answer is only logged by a step of a thread inside the allocation
                                    (full_logged_by_alloc), and in that very step its A.consume answered REmpty;
         zcq_full_justified         RingCov's justified "empty" on the free list + conservation: the deciding tail load, made while no
                                    other allocation holds a lower reservation, sees an EMPTY free list - all N slots are queued in B
                                    or owned by operations in progress.

   Architecture: ONE case analysis of the composite step (q_step) maps every concrete step to a transition of an abstract machine
   `atr` over (contents of A, published ids of B, head B, pool, pcs, log) x ghost; the invariants (QConserve, Pay, Single) are
   proved on the abstract transitions. *)
From Coq Require Import Permutation.
From RM Require Import RingModel RingInv RingProps RingCov RingSolo FullSync Chan ZeroCopy PoolRun ZcUni ChanZ ChanZProps ChanZInst ZcSoloA
                       ZcConserve.
Import ZC.

(* ------------------------------------------------------------------------------------------------ finitely supported families *)
Section FinSupp.
(* `total` is a permutation of `base` ++ the lists f t of the (finitely many) threads t with f t <> [] *)
Definition FS (total base : list Z) (f : nat -> list Z) : Prop :=
  exists ths, NoDup ths /\ (forall t, ~ In t ths -> f t = []) /\ Permutation total (base ++ flat_map f ths).

Lemma FS_with total base f t : FS total base f ->
  exists ths, NoDup ths /\ In t ths /\ (forall u, ~ In u ths -> f u = []) /\ Permutation total (base ++ flat_map f ths).
Proof.
  intros (ths & Hn & Hout & Hperm). destruct (in_dec Nat.eq_dec t ths) as [Hin|Hnin]; [exists ths; auto|].
  exists (t :: ths). split; [now constructor|]. split; [now left|]. split.
  - intros u Hu. apply Hout. intros Hin. apply Hu. now right.
  - cbn [flat_map]. rewrite (Hout t Hnin). exact Hperm.
Qed.

(* a move that changes the list of one thread only *)
Lemma FS_move total total' base base' f f' t : FS total base f ->
  (forall u, u <> t -> f' u = f u) ->
  (forall R, Permutation total (base ++ f t ++ R) -> Permutation total' (base' ++ f' t ++ R)) ->
  FS total' base' f'.
Proof.
  intros C Ho Hp. destruct (FS_with _ _ _ t C) as (ths & Hn & Hin & Hout & Hperm).
  exists ths. split; [exact Hn|]. split.
  - intros u Hu. rewrite Ho; [now apply Hout|]. intros ->. contradiction.
  - destruct (flat_map_change f f' ths t Hn Hin Ho) as (R & H1 & H2).
    rewrite H2. apply Hp. rewrite <- H1. exact Hperm.
Qed.
Lemma FS_same total base f f' : FS total base f -> (forall u, f' u = f u) -> FS total base f'.
Proof.
  intros (ths & Hn & Hout & Hperm) He. exists ths. split; [exact Hn|]. split; [intros u Hu; rewrite He; auto|].
  rewrite (flat_map_ext_in' f' f ths); auto.
Qed.

Lemma FS_in_ths (f : nat -> list Z) ths t : (forall u, ~ In u ths -> f u = []) -> f t <> [] -> In t ths.
Proof. intros Ho Hne. destruct (in_dec Nat.eq_dec t ths) as [|Hn]; [assumption|]. exfalso. apply Hne, Ho, Hn. Qed.

Lemma FS_in total base f t x : FS total base f -> In x (f t) -> In x total.
Proof.
  intros (ths & Hn & Ho & Hp) Hin. apply (Permutation_in _ (Permutation_sym Hp)). apply in_or_app. right. apply in_flat_map.
  exists t. split; [|exact Hin]. apply (FS_in_ths f ths t Ho). intros E. rewrite E in Hin. destruct Hin.
Qed.
Lemma FS_base_in total base f x : FS total base f -> In x base -> In x total.
Proof. intros (ths & Hn & Ho & Hp) Hin. apply (Permutation_in _ (Permutation_sym Hp)). apply in_or_app. now left. Qed.
Lemma FS_total_in total base f x : FS total base f -> In x total -> In x base \/ exists t, In x (f t).
Proof.
  intros (ths & Hn & Ho & Hp) Hin. apply (Permutation_in _ Hp) in Hin. apply in_app_or in Hin. destruct Hin as [|Hin]; [now left|right].
  apply in_flat_map in Hin. destruct Hin as (t & _ & Ht). now exists t.
Qed.

(* no duplicates in `total`: an element of f t is not in `base`, and in no other f u *)
Lemma FS_excl total base f t x : NoDup total -> FS total base f -> In x (f t) -> ~ In x base /\ forall u, In x (f u) -> u = t.
Proof.
  intros Hnd (ths & Hn & Ho & Hp) Hin. pose proof (Permutation_NoDup Hp Hnd) as Hd.
  assert (Ht : In t ths) by (apply (FS_in_ths f ths t Ho); intros E; rewrite E in Hin; destruct Hin).
  split.
  - intros Hb. apply (nodup_app_disj _ _ x Hd Hb). apply in_flat_map. eauto.
  - intros u Hu. assert (Hu' : In u ths) by (apply (FS_in_ths f ths u Ho); intros E; rewrite E in Hu; destruct Hu).
    apply nodup_app_r in Hd. exact (nodup_flat_map_owner f ths u t x Hd Hu' Ht Hu Hin).
Qed.
Lemma FS_base_nodup total base f : NoDup total -> FS total base f -> NoDup base.
Proof. intros Hnd (ths & Hn & Ho & Hp). exact (nodup_app_l _ _ (Permutation_NoDup Hp Hnd)). Qed.

(* counting *)
Lemma FS_count total base f us : FS total base f -> NoDup us -> (forall u, In u us -> (1 <= length (f u))%nat) ->
  (length base + length us <= length total)%nat.
Proof.
  intros (ths & Hn & Ho & Hp) Hd H1.
  assert (Hincl : incl us ths).
  { intros u Hin. apply (FS_in_ths f ths u Ho). intros E. specialize (H1 u Hin). rewrite E in H1. cbn in H1. lia. }
  pose proof (flat_map_length_ge f us ths Hd Hincl H1) as Hge.
  apply Permutation_length in Hp. rewrite app_length in Hp. lia.
Qed.
Lemma FS_quiet total base f : FS total base f -> (forall t, f t = []) -> Permutation total base.
Proof. intros (ths & Hn & Ho & Hp) Hq. rewrite (flat_map_nil f ths Hq), app_nil_r in Hp. exact Hp. Qed.
End FinSupp.

Ltac perm_count :=
  apply (proj2 (Permutation_count_occ Z.eq_dec _ _)); let z := fresh "z" in intro z;
  repeat match goal with H : Permutation _ _ |- _ => let H' := fresh in pose proof (proj1 (Permutation_count_occ Z.eq_dec _ _) H z) as H'; clear H end;
  rewrite ?count_occ_app in *; cbn [count_occ] in *; repeat destruct (Z.eq_dec _ _); try lia.

(* ------------------------------------------------------------------------------------------------ small list facts *)
Lemma ids_upto_length n : 0 <= n -> Z.of_nat (length (ids_upto n)) = n.
Proof. intros H. unfold ids_upto. rewrite map_length, seq_length. lia. Qed.
Lemma ids_upto_succ n : 0 <= n -> ids_upto (n + 1) = ids_upto n ++ [n].
Proof.
  intros H. unfold ids_upto. replace (Z.to_nat (n + 1)) with (S (Z.to_nat n)) by lia. rewrite seq_S, map_app. cbn [map Nat.add].
  now rewrite Z2Nat.id by assumption.
Qed.
Lemma map_nthz_ids_upto (l : list Z) n : 0 <= n <= Z.of_nat (length l) -> map (nthz l) (ids_upto n) = firstn (Z.to_nat n) l.
Proof.
  intros H. unfold ids_upto. rewrite map_map. assert (Hn : (Z.to_nat n <= length l)%nat) by lia. clear H.
  revert Hn. generalize (Z.to_nat n) as k. clear n. intros k. induction k as [|k IH]; intros Hk; [reflexivity|].
  rewrite seq_S, map_app, IH by lia. cbn [map Nat.add]. unfold nthz. rewrite Nat2Z.id. symmetry. apply firstn_S_nth. lia.
Qed.
Lemma map_ext_in'' {A B} (f g : A -> B) l : (forall a, In a l -> f a = g a) -> map f l = map g l.
Proof. induction l as [|a l IH]; intros H; [reflexivity|]. cbn. rewrite (H a) by now left. rewrite IH; [reflexivity|]. intros; apply H; now right. Qed.

(* ------------------------------------------------------------------------------------------------ the instance *)
Notation zqst := (ZeroCopy.zst st).
Notation FA s := (fa st s).
Notation QB s := (qb st s).
Notation POOL s := (pool st s).
Notation ZTHR s := (zthr st s).
Notation ZLOG s := (zlog st s).

Definition qstep (N : Z) (s : zqst) (t : nat) : zqst := ZeroCopy.zstep st (stepZ N) start ring_idle0 log true (fun _ => 0) s t.
Definition qstart (s : zqst) (t : nat) (o : zop) : zqst := ZeroCopy.zstart st start true s t o.
Definition qexec (N : Z) (s : zqst) (e : zev) : zqst := ZeroCopy.zexec st (stepZ N) start ring_idle0 log true (fun _ => 0) s e.
(* `new()`: the free list holds 0..N-1, the id ring is empty, the payload slots hold anything *)
Definition zq0 (N : Z) (p : Z -> Z) : zqst := {| fa := zc_fl0 N; qb := init; pool := p; zthr := fun _ => ZIdle; zlog := [] |}.
Definition zq_run (N : Z) (p : Z -> Z) (evs : list zev) : zqst := fold_left (qexec N) evs (zq0 N p).

(* the values of the answers *)
Definition enqueued_of (l : list (nat * zres)) : list Z := flat_map (fun e => match snd e with ZOk v => [v] | _ => [] end) l.
Definition dequeued_of (l : list (nat * zres)) : list Z := flat_map (fun e => match snd e with ZGot v => [v] | _ => [] end) l.
Lemma enq_snoc l t r : enqueued_of (l ++ [(t, r)]) = enqueued_of l ++ match r with ZOk v => [v] | _ => [] end.
Proof. unfold enqueued_of. rewrite flat_map_app. cbn. now rewrite app_nil_r. Qed.
Lemma deq_snoc l t r : dequeued_of (l ++ [(t, r)]) = dequeued_of l ++ match r with ZGot v => [v] | _ => [] end.
Proof. unfold dequeued_of. rewrite flat_map_app. cbn. now rewrite app_nil_r. Qed.

(* ---- GHOST: tickets.  The ticket of a dequeue is the number of B.consumes completed before its own (= head B before its C4 CAS).
   `gtick t`: the ticket of the dequeue thread t is inside; `gans`: (ticket, value) of every ZGot answer, in the order of the log.
   The ghost is computed from the pcs before / after the composite step; it does not influence the run (gq_run_fst). *)
Record gh := { gtick : nat -> Z; gans : list (Z * Z) }.
Definition g0 : gh := {| gtick := fun _ => 0; gans := [] |}.
Definition gupd (c c' : zpc) (h : Z) (g : gh) (t : nat) : gh :=
  match c, c' with
  | ZDeqB, ZDeqL _ => {| gtick := upd (gtick g) t h; gans := gans g |}
  | ZDeqA _ v, ZIdle => {| gtick := gtick g; gans := gans g ++ [(gtick g t, v)] |}
  | _, _ => g
  end.
Definition gexec (N : Z) (sg : zqst * gh) (e : zev) : zqst * gh :=
  let s := fst sg in
  let s' := qexec N s e in
  match e with
  | ZStep t => (s', gupd (ZTHR s t) (ZTHR s' t) (head (QB s)) (snd sg) t)
  | ZStart _ _ => (s', snd sg)
  end.
Definition gq_run (N : Z) (p : Z -> Z) (evs : list zev) : zqst * gh := fold_left (gexec N) evs (zq0 N p, g0).

Lemma gq_fold_fst N evs : forall sg, fst (fold_left (gexec N) evs sg) = fold_left (qexec N) evs (fst sg).
Proof. induction evs as [|e evs IH]; intros sg; [reflexivity|]. cbn [fold_left]. rewrite IH. destruct e; reflexivity. Qed.
Theorem gq_run_fst N p evs : fst (gq_run N p evs) = zq_run N p evs.
Proof. unfold gq_run, zq_run. now rewrite gq_fold_fst. Qed.

(* ------------------------------------------------------------------------------------------------ the abstract machine *)
Record ab := { aA : list Z;                  (* contents of the free list *)
               aPB : list Z;                 (* every id ever published into B, in order *)
               aH : Z;                       (* head of B: ids consumed so far *)
               aPool : Z -> Z; aThr : nat -> zpc; aLog : list (nat * zres) }.
Definition amk A PB H P T L : ab := {| aA := A; aPB := PB; aH := H; aPool := P; aThr := T; aLog := L |}.
Definition aB (x : ab) : list Z := skipn (Z.to_nat (aH x)) (aPB x).              (* contents of the id ring *)
Definition abs (s : zqst) : ab := amk (inring (FA s)) (published (QB s)) (head (QB s)) (POOL s) (ZTHR s) (ZLOG s).

Definition starter (c : zpc) : Prop := match c with ZEnqA _ | ZDeqB | ZLenB => True | _ => False end.

Inductive atr (x : ab) (g : gh) (t : nat) : ab -> gh -> Prop :=
| A_stutter : atr x g t x g
| A_begin c : aThr x t = ZIdle -> starter c ->
    atr x g t (amk (aA x) (aPB x) (aH x) (aPool x) (upd (aThr x) t c) (aLog x)) g
| A_alloc v id rest : aThr x t = ZEnqA v -> aA x = id :: rest ->
    atr x g t (amk rest (aPB x) (aH x) (updz (aPool x) id v) (upd (aThr x) t (ZEnqB v id)) (aLog x)) g
| A_full v : aThr x t = ZEnqA v ->
    atr x g t (amk (aA x) (aPB x) (aH x) (aPool x) (upd (aThr x) t ZIdle) (aLog x ++ [(t, ZFull v)])) g
| A_pub v id : aThr x t = ZEnqB v id ->
    atr x g t (amk (aA x) (aPB x ++ [id]) (aH x) (aPool x) (upd (aThr x) t ZIdle) (aLog x ++ [(t, ZOk v)])) g
| A_take : aThr x t = ZDeqB -> aH x < Z.of_nat (length (aPB x)) ->
    atr x g t (amk (aA x) (aPB x) (aH x + 1) (aPool x) (upd (aThr x) t (ZDeqL (nthz (aPB x) (aH x)))) (aLog x))
        {| gtick := upd (gtick g) t (aH x); gans := gans g |}
| A_empty : aThr x t = ZDeqB ->
    atr x g t (amk (aA x) (aPB x) (aH x) (aPool x) (upd (aThr x) t ZIdle) (aLog x ++ [(t, ZEmpty)])) g
| A_read id : aThr x t = ZDeqL id ->
    atr x g t (amk (aA x) (aPB x) (aH x) (aPool x) (upd (aThr x) t (ZDeqA id (aPool x id))) (aLog x)) g
| A_back id v : aThr x t = ZDeqA id v ->
    atr x g t (amk (aA x ++ [id]) (aPB x) (aH x) (aPool x) (upd (aThr x) t ZIdle) (aLog x ++ [(t, ZGot v)]))
        {| gtick := gtick g; gans := gans g ++ [(gtick g t, v)] |}
| A_len l' : aThr x t = ZLenB -> (l' = aLog x \/ exists n, l' = aLog x ++ [(t, ZLenIs n)]) ->
    atr x g t (amk (aA x) (aPB x) (aH x) (aPool x) (upd (aThr x) t ZIdle) l') g.
(* ------------------------------------------------------------------------------------------------ the concrete level *)
Section Concrete.
Variable N : Z.
Hypothesis Npos : 0 < N.
Local Notation step := (stepZ N).
Local Notation lastres := (ZeroCopy.lastres st log).
Local Notation zmk := (ZeroCopy.zmk st).

(* the id a composite operation carries between the two rings *)
Definition qtransl (c : zpc) : list Z := match c with ZEnqB _ id | ZDeqL id | ZDeqA id _ => [id] | _ => [] end.
(* SLOT CONSERVATION (abstract form): free list ++ id ring ++ in transit is a permutation of 0..N-1 *)
Definition QConserve (x : ab) : Prop := FS (ids_upto N) (aA x ++ aB x) (fun t => qtransl (aThr x t)).

(* which component a composite thread is inside, and doing what *)
Definition qphase_of (c : zpc) (pa pb : pc) : Prop :=
  match c with
  | ZIdle => pa = Idle /\ pb = Idle
  | ZEnqA _ => is_cons pa = true /\ pb = Idle
  | ZEnqB _ id => pa = Idle /\ pval pb = Some id
  | ZDeqB => pa = Idle /\ is_cons pb = true
  | ZDeqL _ => pa = Idle /\ is_len pb = true
  | ZDeqA id _ => pval pa = Some id /\ pb = Idle
  | ZLenB => pa = Idle /\ is_len pb = true
  end.

(* the ring-level invariant *)
Record RI (s : zqst) : Prop := {
  r_ra : reach N (FA s);
  r_rb : reach N (QB s);
  r_ph : forall t, qphase_of (ZTHR s t) (thr (FA s) t) (thr (QB s) t);
  r_2a : noP2 (FA s);                            (* no publish into either ring is on the "full" path *)
  r_2b : noP2 (QB s)
}.

Lemma res_boundG x base f : Inv N x -> Cov x -> FS (ids_upto N) base f -> (length (inring x) <= length base)%nat ->
  (forall u i, pslot (thr x u) = Some i -> (1 <= length (f u))%nat) -> etail x - head x <= N.
Proof.
  intros I Cv C Hle Hown. pose proof (i_ord _ _ I) as Hord.
  destruct (cov_holders x Cv (Z.to_nat (etail x - tail x)) ltac:(lia)) as (us & Hl & Hd & Hu).
  assert (Hc : (length base + length us <= length (ids_upto N))%nat).
  { apply (FS_count _ _ f us C Hd). intros u Hin. destruct (Hu u Hin) as (i & _ & Hp). exact (Hown u i Hp). }
  pose proof (ids_upto_length N ltac:(lia)). pose proof (inring_length N x I). lia.
Qed.

Lemma q_bounds s : RI s -> QConserve (abs s) -> etail (FA s) - head (FA s) <= N /\ etail (QB s) - head (QB s) <= N.
Proof.
  intros R C. destruct (reach_invcov N Npos _ (r_ra _ R)) as [Ia Ca]. destruct (reach_invcov N Npos _ (r_rb _ R)) as [Ib Cb].
  unfold QConserve in C. split.
  - apply (res_boundG (FA s) _ _ Ia Ca C); [cbn [aA abs amk]; rewrite app_length; lia|]. intros u i Hp.
    pose proof (r_ph _ R u) as P. cbn [aThr abs amk]. destruct (ZTHR s u); cbn [qphase_of] in P; destruct P as [P1 P2];
      try (rewrite P1 in Hp; discriminate); try (cbn; lia).
    destruct (thr (FA s) u); cbn in *; discriminate.
  - apply (res_boundG (QB s) _ _ Ib Cb C); [cbn [aA abs amk]; rewrite app_length; unfold aB, inring; cbn [aH aPB abs amk]; lia|]. intros u i Hp.
    pose proof (r_ph _ R u) as P. cbn [aThr abs amk]. destruct (ZTHR s u); cbn [qphase_of] in P; destruct P as [P1 P2];
      try (rewrite P2 in Hp; discriminate); try (cbn; lia);
      destruct (thr (QB s) u); cbn in *; discriminate.
Qed.

Lemma ri_update s a' b' p' th' l' t : RI s ->
  reach N a' -> reach N b' -> noP2 a' -> noP2 b' ->
  (forall u, u <> t -> thr a' u = thr (FA s) u /\ thr b' u = thr (QB s) u /\ th' u = ZTHR s u) ->
  qphase_of (th' t) (thr a' t) (thr b' t) ->
  RI (zmk a' b' p' th' l').
Proof.
  intros R Ra Rb H2a H2b Ho Hph. constructor; cbn [fa qb pool zthr zlog ZeroCopy.zmk]; auto.
  intros u. destruct (Nat.eq_dec u t) as [->|Hn]; [exact Hph|]. destruct (Ho u Hn) as (-> & -> & ->). apply (r_ph _ R u).
Qed.

(* one composite step, on an explicit state, by the composite's pc and by what the component's step did *)
Ltac qopen E := unfold qstep, ZeroCopy.zstep; cbn [fa qb pool zthr zlog ZeroCopy.zmk]; rewrite E; cbn [fa qb pool zthr zlog ZeroCopy.zmk].

Lemma q_idle a b p th l t : th t = ZIdle -> qstep N (zmk a b p th l) t = zmk a b p th l.
Proof. intros E. qopen E. reflexivity. Qed.
Lemma q_enqA_busy a b p th l t v : th t = ZEnqA v -> thr (step a t) t <> Idle ->
  qstep N (zmk a b p th l) t = zmk (step a t) b p th l.
Proof. intros E Hb. qopen E. rewrite (ridle_false _ _ Hb). reflexivity. Qed.
Lemma q_enqA_got a b p th l t v id : th t = ZEnqA v -> thr (step a t) t = Idle -> lastres (step a t) = RGot id ->
  qstep N (zmk a b p th l) t = zmk (step a t) (start b t (OpPub id)) (updz p id v) (upd th t (ZEnqB v id)) l.
Proof. intros E Hb Hl. qopen E. rewrite (ridle_true _ _ Hb), Hl. reflexivity. Qed.
Lemma q_enqA_none a b p th l t v : th t = ZEnqA v -> thr (step a t) t = Idle -> lastres (step a t) = REmpty ->
  qstep N (zmk a b p th l) t = zmk (step a t) b p (upd th t ZIdle) (l ++ [(t, ZFull v)]).
Proof. intros E Hb Hl. qopen E. rewrite (ridle_true _ _ Hb), Hl. reflexivity. Qed.
Lemma q_enqB_busy a b p th l t v id : th t = ZEnqB v id -> thr (step b t) t <> Idle ->
  qstep N (zmk a b p th l) t = zmk a (step b t) p th l.
Proof. intros E Hb. qopen E. rewrite (ridle_false _ _ Hb). reflexivity. Qed.
Lemma q_enqB_done a b p th l t v id : th t = ZEnqB v id -> thr (step b t) t = Idle ->
  qstep N (zmk a b p th l) t = zmk a (step b t) p (upd th t ZIdle) (l ++ [(t, ZOk v)]).
Proof. intros E Hb. qopen E. rewrite (ridle_true _ _ Hb). reflexivity. Qed.
Lemma q_deqB_busy a b p th l t : th t = ZDeqB -> thr (step b t) t <> Idle ->
  qstep N (zmk a b p th l) t = zmk a (step b t) p th l.
Proof. intros E Hb. qopen E. rewrite (ridle_false _ _ Hb). reflexivity. Qed.
Lemma q_deqB_got a b p th l t id : th t = ZDeqB -> thr (step b t) t = Idle -> lastres (step b t) = RGot id ->
  qstep N (zmk a b p th l) t = zmk a (start (step b t) t OpLen) p (upd th t (ZDeqL id)) l.
Proof. intros E Hb Hl. qopen E. rewrite (ridle_true _ _ Hb), Hl. reflexivity. Qed.
Lemma q_deqB_empty a b p th l t : th t = ZDeqB -> thr (step b t) t = Idle -> lastres (step b t) = REmpty ->
  qstep N (zmk a b p th l) t = zmk a (step b t) p (upd th t ZIdle) (l ++ [(t, ZEmpty)]).
Proof. intros E Hb Hl. qopen E. rewrite (ridle_true _ _ Hb), Hl. reflexivity. Qed.
Lemma q_deqL_busy a b p th l t id : th t = ZDeqL id -> thr (step b t) t <> Idle ->
  qstep N (zmk a b p th l) t = zmk a (step b t) p th l.
Proof. intros E Hb. qopen E. rewrite (ridle_false _ _ Hb). reflexivity. Qed.
Lemma q_deqL_done a b p th l t id : th t = ZDeqL id -> thr (step b t) t = Idle ->
  qstep N (zmk a b p th l) t = zmk (start a t (OpPub id)) (step b t) p (upd th t (ZDeqA id (p id))) l.
Proof. intros E Hb. qopen E. rewrite (ridle_true _ _ Hb). reflexivity. Qed.
Lemma q_deqA_busy a b p th l t id v : th t = ZDeqA id v -> thr (step a t) t <> Idle ->
  qstep N (zmk a b p th l) t = zmk (step a t) b p th l.
Proof. intros E Hb. qopen E. rewrite (ridle_false _ _ Hb). reflexivity. Qed.
Lemma q_deqA_done a b p th l t id v : th t = ZDeqA id v -> thr (step a t) t = Idle ->
  qstep N (zmk a b p th l) t = zmk (step a t) b p (upd th t ZIdle) (l ++ [(t, ZGot v)]).
Proof. intros E Hb. qopen E. rewrite (ridle_true _ _ Hb). reflexivity. Qed.
Lemma q_len_busy a b p th l t : th t = ZLenB -> thr (step b t) t <> Idle ->
  qstep N (zmk a b p th l) t = zmk a (step b t) p th l.
Proof. intros E Hb. qopen E. rewrite (ridle_false _ _ Hb). reflexivity. Qed.
Lemma q_len_done a b p th l t : th t = ZLenB -> thr (step b t) t = Idle ->
  exists l', qstep N (zmk a b p th l) t = zmk a (step b t) p (upd th t ZIdle) l' /\ (l' = l \/ exists n, l' = l ++ [(t, ZLenIs n)]).
Proof. intros E Hb. qopen E. rewrite (ridle_true _ _ Hb). destruct (lastres (step b t)); eexists; split; try reflexivity; eauto. Qed.

Ltac others := intros u Hu; cbn [fa qb pool zthr zlog ZeroCopy.zmk];
  rewrite ?start_other, ?step_other_threads_gen, ?start_other, ?upd_other by assumption; auto.
Ltac absview E := unfold abs; cbn [fa qb pool zthr zlog ZeroCopy.zmk]; rewrite ?upd_same, ?E; cbn [gupd].

(* EVERY composite step is a transition of the abstract machine (and keeps the ring-level invariant) *)
Theorem q_step s g t : RI s -> QConserve (abs s) ->
  RI (qstep N s t) /\ atr (abs s) g t (abs (qstep N s t)) (gupd (ZTHR s t) (ZTHR (qstep N s t) t) (head (QB s)) g t).
Proof.
  intros R C. destruct (q_bounds s R C) as [Ba Bb].
  destruct (reach_invcov N Npos _ (r_ra _ R)) as [Ia _]. destruct (reach_invcov N Npos _ (r_rb _ R)) as [Ib _].
  pose proof (r_ph _ R t) as P. pose proof (r_ra _ R) as Ra. pose proof (r_rb _ R) as Rb.
  pose proof (r_2a _ R) as H2a. pose proof (r_2b _ R) as H2b. clear C.
  destruct s as [a b p th l]. cbn [fa qb pool zthr zlog] in *. fold (zmk a b p th l) in *.
  pose (x0 := amk (inring a) (published b) (head b) p th l).
  destruct (th t) eqn:E; cbn [qphase_of] in P; destruct P as [P1 P2].
  - (* ZIdle *) rewrite (q_idle _ _ _ _ _ _ E). split; [exact R|]. absview E. apply A_stutter.
  - (* ZEnqA v: inside the allocation (a consume on the free list) *)
    destruct (ring_cons_step N a t Ia P1) as [(Hi & Hl & Hp & Hh & Hlt)|[(Hi & Hl & Hp & Hh)|(Hc & Hp & Hh)]].
    + rewrite (q_enqA_got a b p th l t v _ E Hi (lastres_snoc _ _ _ _ Hl)).
      destruct (start_idle b t (OpPub (nthz (published a) (head a))) P2) as (S0 & _).
      destruct (start_frame b t (OpPub (nthz (published a) (head a)))) as [Sp Sh].
      split.
      * apply (ri_update _ _ _ _ _ _ t R); cbn [fa qb pool zthr zlog ZeroCopy.zmk];
          [now apply reach_step|now apply reach_start|now apply noP2_step|now apply noP2_start|others|].
        rewrite upd_same, Hi, S0. cbn. auto.
      * absview E. rewrite Sp, Sh.
        exact (A_alloc x0 g t v _ (inring (step a t)) E (inring_cons N a _ Ia Hp Hh Hlt)).
    + rewrite (q_enqA_none a b p th l t v E Hi (lastres_snoc _ _ _ _ Hl)). split.
      * apply (ri_update _ _ _ _ _ _ t R); cbn [fa qb pool zthr zlog ZeroCopy.zmk];
          [now apply reach_step|assumption|now apply noP2_step|assumption|others|].
        rewrite upd_same, Hi, P2. cbn. auto.
      * absview E. rewrite (inring_same _ _ Hp Hh). exact (A_full x0 g t v E).
    + rewrite (q_enqA_busy a b p th l t v E (cons_busy _ Hc)). split.
      * apply (ri_update _ _ _ _ _ _ t R); cbn [fa qb pool zthr zlog ZeroCopy.zmk];
          [now apply reach_step|assumption|now apply noP2_step|assumption|others|].
        rewrite E. cbn. auto.
      * absview E. rewrite (inring_same _ _ Hp Hh). apply A_stutter.
  - (* ZEnqB v id: inside the publication of the id *)
    destruct (ring_pub_step N b t id H2b P2) as [(Hi & (len & Hl) & Hp & Hh)|(Hc & Hp & Hh)].
    + rewrite (q_enqB_done a b p th l t v id E Hi). split.
      * apply (ri_update _ _ _ _ _ _ t R); cbn [fa qb pool zthr zlog ZeroCopy.zmk];
          [assumption|now apply reach_step|assumption|now apply noP2_step|others|].
        rewrite upd_same, Hi, P1. cbn. auto.
      * absview E. rewrite Hp, Hh. exact (A_pub x0 g t v id E).
    + rewrite (q_enqB_busy a b p th l t v id E (pval_busy _ _ Hc)). split.
      * apply (ri_update _ _ _ _ _ _ t R); cbn [fa qb pool zthr zlog ZeroCopy.zmk];
          [assumption|now apply reach_step|assumption|now apply noP2_step|others|].
        rewrite E. cbn. auto.
      * absview E. rewrite Hp, Hh. apply A_stutter.
  - (* ZDeqB: inside the consume on the id ring *)
    destruct (ring_cons_step N b t Ib P2) as [(Hi & Hl & Hp & Hh & Hlt)|[(Hi & Hl & Hp & Hh)|(Hc & Hp & Hh)]].
    + rewrite (q_deqB_got a b p th l t _ E Hi (lastres_snoc _ _ _ _ Hl)).
      destruct (start_idle (step b t) t OpLen Hi) as (S0 & _).
      destruct (start_frame (step b t) t OpLen) as [Sp Sh].
      split.
      * apply (ri_update _ _ _ _ _ _ t R); cbn [fa qb pool zthr zlog ZeroCopy.zmk];
          [assumption|now apply reach_start, reach_step|assumption|now apply noP2_start, noP2_step|others|].
        rewrite upd_same, S0, P1. cbn. auto.
      * absview E. rewrite Sp, Sh, Hp, Hh.
        refine (A_take x0 g t E _). unfold x0. cbn [aH aPB amk]. pose proof (i_lenp _ _ Ib). lia.
    + rewrite (q_deqB_empty a b p th l t E Hi (lastres_snoc _ _ _ _ Hl)). split.
      * apply (ri_update _ _ _ _ _ _ t R); cbn [fa qb pool zthr zlog ZeroCopy.zmk];
          [assumption|now apply reach_step|assumption|now apply noP2_step|others|].
        rewrite upd_same, Hi, P1. cbn. auto.
      * absview E. rewrite Hp, Hh. exact (A_empty x0 g t E).
    + rewrite (q_deqB_busy a b p th l t E (cons_busy _ Hc)). split.
      * apply (ri_update _ _ _ _ _ _ t R); cbn [fa qb pool zthr zlog ZeroCopy.zmk];
          [assumption|now apply reach_step|assumption|now apply noP2_step|others|].
        rewrite E. cbn. auto.
      * absview E. rewrite Hp, Hh. apply A_stutter.
  - (* ZDeqL id: inside available_elements_count (the result is dropped); its last step reads the payload *)
    destruct (ring_len_step N b t P2) as ([Hi|Hc] & Hp & Hh).
    + rewrite (q_deqL_done a b p th l t id E Hi).
      destruct (start_idle a t (OpPub id) P1) as (S0 & _). destruct (start_frame a t (OpPub id)) as [Sp Sh].
      split.
      * apply (ri_update _ _ _ _ _ _ t R); cbn [fa qb pool zthr zlog ZeroCopy.zmk];
          [now apply reach_start|now apply reach_step|now apply noP2_start|now apply noP2_step|others|].
        rewrite upd_same, S0, Hi. cbn. auto.
      * absview E. rewrite Hp, Hh, (inring_same _ _ Sp Sh). exact (A_read x0 g t id E).
    + rewrite (q_deqL_busy a b p th l t id E (len_busy _ Hc)). split.
      * apply (ri_update _ _ _ _ _ _ t R); cbn [fa qb pool zthr zlog ZeroCopy.zmk];
          [assumption|now apply reach_step|assumption|now apply noP2_step|others|].
        rewrite E. cbn. auto.
      * absview E. rewrite Hp, Hh. apply A_stutter.
  - (* ZDeqA id v: inside the give-back of the id to the free list *)
    destruct (ring_pub_step N a t id H2a P1) as [(Hi & (len & Hl) & Hp & Hh)|(Hc & Hp & Hh)].
    + rewrite (q_deqA_done a b p th l t id v E Hi). split.
      * apply (ri_update _ _ _ _ _ _ t R); cbn [fa qb pool zthr zlog ZeroCopy.zmk];
          [now apply reach_step|assumption|now apply noP2_step|assumption|others|].
        rewrite upd_same, Hi, P2. cbn. auto.
      * absview E. rewrite (inring_pub N a _ id Ia Hp Hh). exact (A_back x0 g t id v E).
    + rewrite (q_deqA_busy a b p th l t id v E (pval_busy _ _ Hc)). split.
      * apply (ri_update _ _ _ _ _ _ t R); cbn [fa qb pool zthr zlog ZeroCopy.zmk];
          [now apply reach_step|assumption|now apply noP2_step|assumption|others|].
        rewrite E. cbn. auto.
      * absview E. rewrite (inring_same _ _ Hp Hh). apply A_stutter.
  - (* ZLenB *)
    destruct (ring_len_step N b t P2) as ([Hi|Hc] & Hp & Hh).
    + destruct (q_len_done a b p th l t E Hi) as (l' & -> & Hl'). split.
      * apply (ri_update _ _ _ _ _ _ t R); cbn [fa qb pool zthr zlog ZeroCopy.zmk];
          [assumption|now apply reach_step|assumption|now apply noP2_step|others|].
        rewrite upd_same, Hi, P1. cbn. auto.
      * absview E. rewrite Hp, Hh. exact (A_len x0 g t l' E Hl').
    + rewrite (q_len_busy a b p th l t E (len_busy _ Hc)). split.
      * apply (ri_update _ _ _ _ _ _ t R); cbn [fa qb pool zthr zlog ZeroCopy.zmk];
          [assumption|now apply reach_step|assumption|now apply noP2_step|others|].
        rewrite E. cbn. auto.
      * absview E. rewrite Hp, Hh. apply A_stutter.
Qed.

(* ... and so is the beginning of an operation *)
Theorem q_start s g t o : RI s -> RI (qstart s t o) /\ atr (abs s) g t (abs (qstart s t o)) g.
Proof.
  intros R. pose proof (r_ph _ R t) as P. pose proof (r_ra _ R) as Ra. pose proof (r_rb _ R) as Rb.
  pose proof (r_2a _ R) as H2a. pose proof (r_2b _ R) as H2b.
  unfold qstart, ZeroCopy.zstart. destruct s as [a b p th l]. cbn [fa qb pool zthr zlog] in *. fold (zmk a b p th l) in *.
  pose (x0 := amk (inring a) (published b) (head b) p th l).
  destruct (th t) eqn:E; try (split; [exact R|apply A_stutter]).
  cbn [qphase_of] in P. destruct P as [P1 P2]. destruct o.
  - destruct (start_idle a t OpCons P1) as (S0 & _). destruct (start_frame a t OpCons) as [Sp Sh]. split.
    + apply (ri_update _ _ _ _ _ _ t R); cbn [fa qb pool zthr zlog ZeroCopy.zmk];
        [now apply reach_start|assumption|now apply noP2_start|assumption|others|].
      rewrite upd_same, S0, P2. cbn. auto.
    + unfold abs; cbn [fa qb pool zthr zlog ZeroCopy.zmk]. rewrite (inring_same _ _ Sp Sh). exact (A_begin x0 g t (ZEnqA v) E I).
  - destruct (start_idle b t OpCons P2) as (S0 & _). destruct (start_frame b t OpCons) as [Sp Sh]. split.
    + apply (ri_update _ _ _ _ _ _ t R); cbn [fa qb pool zthr zlog ZeroCopy.zmk];
        [assumption|now apply reach_start|assumption|now apply noP2_start|others|].
      rewrite upd_same, S0, P1. cbn. auto.
    + unfold abs; cbn [fa qb pool zthr zlog ZeroCopy.zmk]. rewrite Sp, Sh. exact (A_begin x0 g t ZDeqB E I).
  - destruct (start_idle b t OpLen P2) as (S0 & _). destruct (start_frame b t OpLen) as [Sp Sh]. split.
    + apply (ri_update _ _ _ _ _ _ t R); cbn [fa qb pool zthr zlog ZeroCopy.zmk];
        [assumption|now apply reach_start|assumption|now apply noP2_start|others|].
      rewrite upd_same, S0, P1. cbn. auto.
    + unfold abs; cbn [fa qb pool zthr zlog ZeroCopy.zmk]. rewrite Sp, Sh. exact (A_begin x0 g t ZLenB E I).
Qed.

Lemma ri_init p : RI (zq0 N p).
Proof.
  destruct (fl0_state N Npos) as (A1 & A2 & A3 & A4).
  constructor; unfold zq0; cbn [fa qb pool zthr zlog].
  - exact A1.
  - exact (reach_init N).
  - intros t. cbn [qphase_of]. split; [apply A2|reflexivity].
  - intros t v sl. rewrite A2. discriminate.
  - intros t v sl. cbn. discriminate.
Qed.
Lemma abs_init p : abs (zq0 N p) = amk (ids_upto N) [] 0 p (fun _ => ZIdle) [].
Proof.
  destruct (fl0_state N Npos) as (A1 & A2 & A3 & A4). unfold abs, zq0, inring. cbn [fa qb pool zthr zlog]. rewrite A3, A4. reflexivity.
Qed.
End Concrete.
(* ------------------------------------------------------------------------------------------------ invariants of the abstract machine *)
Section Abstract.
Variable N : Z.
Hypothesis Npos : 0 < N.

Definition W (x : ab) : Prop := 0 <= aH x <= Z.of_nat (length (aPB x)).
Definition aE (x : ab) : list Z := enqueued_of (aLog x).

Lemma aB_pub x id A P T L : W x -> aB (amk A (aPB x ++ [id]) (aH x) P T L) = aB x ++ [id].
Proof. intros Hw. unfold aB, W in *. cbn [aH aPB amk]. apply skipn_snoc. lia. Qed.
Lemma aB_take x A P T L : 0 <= aH x < Z.of_nat (length (aPB x)) ->
  aB x = nthz (aPB x) (aH x) :: aB (amk A (aPB x) (aH x + 1) P T L).
Proof.
  intros Hw. unfold aB, nthz. cbn [aH aPB amk]. replace (Z.to_nat (aH x + 1)) with (S (Z.to_nat (aH x))) by lia.
  apply skipn_nth_cons. lia.
Qed.
Lemma W_atr x g t x' g' : atr x g t x' g' -> W x -> W x'.
Proof. intros T Hw. unfold W in *. destruct T; cbn [aH aPB amk]; rewrite ?app_length; cbn [length]; lia. Qed.

Ltac fs_move t C E := apply (FS_move _ _ _ _ _ _ t C);
  [intros u Hu; cbn [aThr amk]; now rewrite upd_other by assumption
  |cbn [aThr aA amk]; rewrite E, upd_same; cbn [qtransl]; intros R HP].

(* (1) slot conservation is kept by every transition *)
Theorem cons_atr x g t x' g' : atr x g t x' g' -> W x -> QConserve N x -> QConserve N x'.
Proof.
  intros T Hw C. unfold QConserve in *.
  destruct T as [ |c E0 Hs|v id rest E0 HA|v E0|v id E0|E0 Hlt|E0|id E0|id v E0|l' E0 Hl'].
  - exact C.
  - fs_move t C E0. change (aB (amk _ (aPB x) (aH x) _ _ _)) with (aB x).
    replace (qtransl c) with (@nil Z) by (destruct c; cbn in Hs; try contradiction; reflexivity). exact HP.
  - fs_move t C E0. change (aB (amk _ (aPB x) (aH x) _ _ _)) with (aB x). rewrite HA in HP. perm_count.
  - fs_move t C E0. exact HP.
  - fs_move t C E0. rewrite (aB_pub x id _ _ _ _ Hw). perm_count.
  - fs_move t C E0. rewrite (aB_take x (aA x) (aPool x) (upd (aThr x) t (ZDeqL (nthz (aPB x) (aH x)))) (aLog x)) in HP by (unfold W in Hw; lia).
    perm_count.
  - fs_move t C E0. exact HP.
  - fs_move t C E0. exact HP.
  - fs_move t C E0. change (aB (amk _ (aPB x) (aH x) _ _ _)) with (aB x). perm_count.
  - fs_move t C E0. exact HP.
Qed.

(* ---- the payload invariant ---- *)
(* the ticket a dequeue in progress holds *)
Definition qtick (c : zpc) (k : Z) : list Z := match c with ZDeqL _ | ZDeqA _ _ => [k] | _ => [] end.
(* ticket k stands for the k-th id published into B, and for the k-th value enqueued *)
Definition Tk (x : ab) (k id v : Z) : Prop := 0 <= k < aH x /\ nthz (aPB x) k = id /\ v = nthz (aE x) k.

Record Pay (x : ab) (g : gh) : Prop := {
  p_w   : W x;
  p_len : length (aE x) = length (aPB x);                              (* one ZOk answer per id published into B, same order *)
  p_q   : map (aPool x) (aB x) = skipn (Z.to_nat (aH x)) (aE x);       (* the queued slots hold the enqueued values not yet taken *)
  p_tr  : forall t v id, aThr x t = ZEnqB v id -> aPool x id = v;      (* slot in transit inside an enqueue: holds the value *)
  p_L   : forall t id, aThr x t = ZDeqL id -> Tk x (gtick g t) id (aPool x id);   (* taken, not yet read: the slot still holds it *)
  p_A   : forall t id v, aThr x t = ZDeqA id v -> Tk x (gtick g t) id v;          (* read: the value read is the right one *)
  p_ans : forall k v, In (k, v) (gans g) -> 0 <= k < aH x /\ v = nthz (aE x) k;
  p_log : map snd (gans g) = dequeued_of (aLog x);
  p_tk  : FS (ids_upto (aH x)) (map fst (gans g)) (fun t => qtick (aThr x t) (gtick g t))
}.

Lemma qtick_nil c k : qtransl c = [] -> qtick c k = [].
Proof. destruct c; cbn; congruence. Qed.

Ltac open_aE := repeat match goal with |- context[aE (amk ?a ?b ?c ?d ?e ?l)] => change (aE (amk a b c d e l)) with (enqueued_of l) end.
Ltac simp_ab := cbn [aA aPB aH aPool aThr aLog amk gtick gans] in *.

(* a move of thread t between two pcs that carry no slot, which touches neither B nor the pool nor the values of the log *)
Lemma pay_quiet x g t c' l' A' : Pay x g -> qtransl (aThr x t) = [] -> qtransl c' = [] ->
  enqueued_of l' = aE x -> dequeued_of l' = dequeued_of (aLog x) ->
  Pay (amk A' (aPB x) (aH x) (aPool x) (upd (aThr x) t c') l') g.
Proof.
  intros [Pw Pl Pq Ptr PL PA Pans Plog Ptk] H0 H1 He Hd.
  assert (Hth : forall u c, upd (aThr x) t c' u = c -> qtransl c <> [] -> aThr x u = c).
  { intros u c Hu Hc. destruct (Nat.eq_dec u t) as [->|Hn]; [rewrite upd_same in Hu; congruence|now rewrite upd_other in Hu]. }
  constructor; unfold Tk, W, aE in *; simp_ab; rewrite ?He, ?Hd; auto.
  - intros u v id Hu. apply (Ptr u). apply Hth; [exact Hu|discriminate].
  - intros u id Hu. apply (PL u). apply Hth; [exact Hu|discriminate].
  - intros u id v Hu. apply (PA u). apply Hth; [exact Hu|discriminate].
  - apply (FS_same _ _ _ _ Ptk). intros u. destruct (Nat.eq_dec u t) as [->|Hn]; [|now rewrite upd_other].
    rewrite upd_same, !qtick_nil; auto.
Qed.

Lemma nthz_snoc_l (l : list Z) w k : 0 <= k < Z.of_nat (length l) -> nthz (l ++ [w]) k = nthz l k.
Proof. apply nthz_app_l. Qed.

Theorem pay_atr x g t x' g' : atr x g t x' g' -> QConserve N x -> Pay x g -> Pay x' g'.
Proof.
  intros T C P.
  destruct T as [ |c E0 Hs|v id rest E0 HA|v E0|v id E0|E0 Hlt|E0|id E0|id v E0|l' E0 Hl'].
  - exact P.
  - apply pay_quiet; auto; [now rewrite E0|destruct c; cbn in Hs; try contradiction; reflexivity].
  - (* the allocation writes the payload into a slot that is in the free list: not queued, not carried by anybody *)
    destruct P as [Pw Pl Pq Ptr PL PA Pans Plog Ptk].
    pose proof (ids_upto_nodup N) as Hnd. unfold QConserve in C.
    assert (HnB : ~ In id (aB x)).
    { pose proof (FS_base_nodup _ _ _ Hnd C) as Hb. rewrite HA in Hb. cbn in Hb. inversion Hb as [|? ? Hni _]; subst.
      intros Hin. apply Hni. apply in_or_app. now right. }
    assert (HnT : forall u, ~ In id (qtransl (aThr x u))).
    { intros u Hin. destruct (FS_excl _ _ _ u id Hnd C Hin) as [Hnb _]. apply Hnb. rewrite HA. now left. }
    constructor; unfold Tk, W, aE in *; simp_ab; auto.
    + change (aB (amk _ (aPB x) (aH x) _ _ _)) with (aB x). rewrite <- Pq. apply map_ext_in''. intros i Hi. apply updz_other. intros ->. contradiction.
    + intros u w i Hu. destruct (Nat.eq_dec u t) as [->|Hn].
      * rewrite upd_same in Hu. injection Hu as <- <-. apply updz_same.
      * rewrite upd_other in Hu by assumption. rewrite updz_other; [exact (Ptr u w i Hu)|]. intros ->. apply (HnT u). rewrite Hu. now left.
    + intros u i Hu. destruct (Nat.eq_dec u t) as [->|Hn]; [rewrite upd_same in Hu; discriminate|].
      rewrite upd_other in Hu by assumption. rewrite updz_other; [exact (PL u i Hu)|]. intros ->. apply (HnT u). rewrite Hu. now left.
    + intros u i w Hu. destruct (Nat.eq_dec u t) as [->|Hn]; [rewrite upd_same in Hu; discriminate|].
      rewrite upd_other in Hu by assumption. exact (PA u i w Hu).
    + apply (FS_same _ _ _ _ Ptk). intros u. destruct (Nat.eq_dec u t) as [->|Hn]; [|now rewrite upd_other].
      rewrite upd_same, E0. reflexivity.
  - apply pay_quiet; auto; [now rewrite E0|unfold aE; now rewrite enq_snoc, app_nil_r|now rewrite deq_snoc, app_nil_r].
  - (* the publication of the id: ZOk v is logged in the very step in which the id enters B *)
    destruct P as [Pw Pl Pq Ptr PL PA Pans Plog Ptk].
    assert (Hk : forall k, 0 <= k < aH x -> nthz (aPB x ++ [id]) k = nthz (aPB x) k /\ nthz (aE x ++ [v]) k = nthz (aE x) k).
    { intros k Hk. unfold W in Pw. split; apply nthz_snoc_l; lia. }
    constructor; unfold Tk, W in *; open_aE; simp_ab; rewrite ?enq_snoc, ?deq_snoc, ?app_nil_r; fold (aE x).
    + rewrite app_length. cbn [length]. lia.
    + rewrite !app_length. cbn [length]. lia.
    + rewrite (aB_pub x id _ _ _ _ Pw), map_app, Pq. cbn [map]. rewrite (Ptr t v id E0). symmetry. apply skipn_snoc. lia.
    + intros u w i Hu. destruct (Nat.eq_dec u t) as [->|Hn]; [rewrite upd_same in Hu; discriminate|].
      rewrite upd_other in Hu by assumption. exact (Ptr u w i Hu).
    + intros u i Hu. destruct (Nat.eq_dec u t) as [->|Hn]; [rewrite upd_same in Hu; discriminate|].
      rewrite upd_other in Hu by assumption. destruct (PL u i Hu) as (H1 & H2 & H3). destruct (Hk _ H1) as [-> ->]. auto.
    + intros u i w Hu. destruct (Nat.eq_dec u t) as [->|Hn]; [rewrite upd_same in Hu; discriminate|].
      rewrite upd_other in Hu by assumption. destruct (PA u i w Hu) as (H1 & H2 & H3). destruct (Hk _ H1) as [-> ->]. auto.
    + intros k w Hin. destruct (Pans k w Hin) as [H1 H2]. destruct (Hk _ H1) as [_ ->]. auto.
    + exact Plog.
    + apply (FS_same _ _ _ _ Ptk). intros u. destruct (Nat.eq_dec u t) as [->|Hn]; [|now rewrite upd_other].
      rewrite upd_same, E0. reflexivity.
  - (* the consume of the id: the thread receives ticket `head B` *)
    destruct P as [Pw Pl Pq Ptr PL PA Pans Plog Ptk].
    assert (Hh : 0 <= aH x < Z.of_nat (length (aPB x))) by (unfold W in Pw; lia).
    rewrite (aB_take x (aA x) (aPool x) (upd (aThr x) t (ZDeqL (nthz (aPB x) (aH x)))) (aLog x) Hh) in Pq. cbn [map] in Pq.
    rewrite (skipn_nth_cons (aE x) (Z.to_nat (aH x)) 0) in Pq by lia. injection Pq as Pq0 Pq.
    constructor; unfold Tk, W in *; open_aE; simp_ab; fold (aE x).
    + lia.
    + exact Pl.
    + replace (Z.to_nat (aH x + 1)) with (S (Z.to_nat (aH x))) by lia. exact Pq.
    + intros u w i Hu. destruct (Nat.eq_dec u t) as [->|Hn]; [rewrite upd_same in Hu; discriminate|].
      rewrite upd_other in Hu by assumption. exact (Ptr u w i Hu).
    + intros u i Hu. destruct (Nat.eq_dec u t) as [->|Hn].
      * rewrite upd_same in Hu. injection Hu as <-. rewrite upd_same. split; [lia|]. split; [reflexivity|exact Pq0].
      * rewrite upd_other in Hu by assumption. rewrite upd_other by assumption. destruct (PL u i Hu) as (H1 & H2 & H3). repeat split; auto; lia.
    + intros u i w Hu. destruct (Nat.eq_dec u t) as [->|Hn]; [rewrite upd_same in Hu; discriminate|].
      rewrite upd_other in Hu by assumption. rewrite upd_other by assumption. destruct (PA u i w Hu) as (H1 & H2 & H3). repeat split; auto; lia.
    + intros k w Hin. destruct (Pans k w Hin) as [H1 H2]. split; [lia|exact H2].
    + exact Plog.
    + rewrite (ids_upto_succ (aH x)) by lia. apply (FS_move _ _ _ _ _ _ t Ptk).
      * intros u Hu. now rewrite !upd_other by assumption.
      * rewrite E0, !upd_same. cbn [qtick]. intros R HP. perm_count.
  - apply pay_quiet; auto; [now rewrite E0|unfold aE; now rewrite enq_snoc, app_nil_r|now rewrite deq_snoc, app_nil_r].
  - (* the read of the payload *)
    destruct P as [Pw Pl Pq Ptr PL PA Pans Plog Ptk].
    constructor; unfold Tk, W in *; open_aE; simp_ab; fold (aE x); auto.
    + intros u w i Hu. destruct (Nat.eq_dec u t) as [->|Hn]; [rewrite upd_same in Hu; discriminate|].
      rewrite upd_other in Hu by assumption. exact (Ptr u w i Hu).
    + intros u i Hu. destruct (Nat.eq_dec u t) as [->|Hn]; [rewrite upd_same in Hu; discriminate|].
      rewrite upd_other in Hu by assumption. exact (PL u i Hu).
    + intros u i w Hu. destruct (Nat.eq_dec u t) as [->|Hn].
      * rewrite upd_same in Hu. injection Hu as <- <-. exact (PL t id E0).
      * rewrite upd_other in Hu by assumption. exact (PA u i w Hu).
    + apply (FS_same _ _ _ _ Ptk). intros u. destruct (Nat.eq_dec u t) as [->|Hn]; [|now rewrite upd_other].
      rewrite upd_same, E0. reflexivity.
  - (* the give-back: ZGot v is logged, with the ticket of the dequeue *)
    destruct P as [Pw Pl Pq Ptr PL PA Pans Plog Ptk].
    constructor; unfold Tk, W in *; open_aE; simp_ab; rewrite ?enq_snoc, ?deq_snoc, ?app_nil_r; fold (aE x); auto.
    + intros u w i Hu. destruct (Nat.eq_dec u t) as [->|Hn]; [rewrite upd_same in Hu; discriminate|].
      rewrite upd_other in Hu by assumption. exact (Ptr u w i Hu).
    + intros u i Hu. destruct (Nat.eq_dec u t) as [->|Hn]; [rewrite upd_same in Hu; discriminate|].
      rewrite upd_other in Hu by assumption. exact (PL u i Hu).
    + intros u i w Hu. destruct (Nat.eq_dec u t) as [->|Hn]; [rewrite upd_same in Hu; discriminate|].
      rewrite upd_other in Hu by assumption. exact (PA u i w Hu).
    + intros k w Hin. apply in_app_or in Hin. destruct Hin as [Hin|[Hin|[]]]; [exact (Pans k w Hin)|].
      injection Hin as <- <-. destruct (PA t id v E0) as (H1 & H2 & H3). auto.
    + rewrite map_app, Plog. reflexivity.
    + rewrite map_app. cbn [map fst]. apply (FS_move _ _ _ _ _ _ t Ptk).
      * intros u Hu. now rewrite !upd_other by assumption.
      * rewrite E0, !upd_same. cbn [qtick]. intros R HP. perm_count.
  - apply pay_quiet; auto; [now rewrite E0| |]; destruct Hl' as [->|[n ->]]; unfold aE; rewrite ?enq_snoc, ?deq_snoc, ?app_nil_r; reflexivity.
Qed.
End Abstract.
(* ------------------------------------------------------------------------------------------------ a single consumer thread *)
Section SingleConsumer.
Variable c : nat.

Definition indeq (k : zpc) : Prop := match k with ZDeqB | ZDeqL _ | ZDeqA _ _ => True | _ => False end.
Definition nans (g : gh) : Z := Z.of_nat (length (gans g)).
Record Single (x : ab) (g : gh) : Prop := {
  s_only : forall t, t <> c -> ~ indeq (aThr x t);                            (* only c dequeues *)
  s_ord  : map fst (gans g) = ids_upto (nans g);                              (* its answers come in ticket order *)
  s_cur  : match aThr x c with
           | ZDeqL _ | ZDeqA _ _ => gtick g c = nans g /\ aH x = nans g + 1
           | _ => aH x = nans g
           end
}.

Ltac simp_ab := cbn [aA aPB aH aPool aThr aLog amk gtick gans] in *.

Theorem single_atr x g t x' g' : atr x g t x' g' -> (t <> c -> aThr x t = ZIdle -> aThr x' t <> ZDeqB) -> Single x g -> Single x' g'.
Proof.
  intros T Hside [S1 S2 S3].
  assert (Hup : forall k, (t = c \/ ~ indeq k) -> forall u, u <> c -> ~ indeq (upd (aThr x) t k u)).
  { intros k Hk u Hu. destruct (Nat.eq_dec u t) as [->|Hn]; [rewrite upd_same; destruct Hk; [congruence|assumption]|rewrite upd_other by assumption; auto]. }
  assert (Hnd : indeq (aThr x t) -> t = c).
  { intros Hi. destruct (Nat.eq_dec t c) as [|Hn]; [assumption|]. exfalso. exact (S1 t Hn Hi). }
  destruct T as [ |k E0 Hs|v id rest E0 HA|v E0|v id E0|E0 Hlt|E0|id E0|id v E0|l' E0 Hl'].
  - now constructor.
  - constructor; unfold nans in *; simp_ab; [ |exact S2| ].
    + apply Hup. destruct (Nat.eq_dec t c) as [|Hn]; [now left|right]. specialize (Hside Hn E0). simp_ab. rewrite upd_same in Hside.
      destruct k; cbn in Hs |- *; auto.
    + destruct (Nat.eq_dec t c) as [->|Hn]; [|now rewrite upd_other by auto]. rewrite upd_same. rewrite E0 in S3. destruct k; cbn in Hs; try contradiction; auto.
  - constructor; unfold nans in *; simp_ab; [ |exact S2| ].
    + apply Hup. right. cbn. auto.
    + destruct (Nat.eq_dec t c) as [->|Hn]; [|now rewrite upd_other by auto]. rewrite upd_same. now rewrite E0 in S3.
  - constructor; unfold nans in *; simp_ab; [ |exact S2| ].
    + apply Hup. right. cbn. auto.
    + destruct (Nat.eq_dec t c) as [->|Hn]; [|now rewrite upd_other by auto]. rewrite upd_same. now rewrite E0 in S3.
  - constructor; unfold nans in *; simp_ab; [ |exact S2| ].
    + apply Hup. right. cbn. auto.
    + destruct (Nat.eq_dec t c) as [->|Hn]; [|now rewrite upd_other by auto]. rewrite upd_same. now rewrite E0 in S3.
  - assert (t = c) as -> by (apply Hnd; now rewrite E0). rewrite E0 in S3.
    constructor; unfold nans in *; simp_ab; [ |exact S2| ].
    + apply Hup. now left.
    + rewrite !upd_same. split; lia.
  - assert (t = c) as -> by (apply Hnd; now rewrite E0). rewrite E0 in S3.
    constructor; unfold nans in *; simp_ab; [ |exact S2| ].
    + apply Hup. now left.
    + now rewrite upd_same.
  - assert (t = c) as -> by (apply Hnd; now rewrite E0). rewrite E0 in S3.
    constructor; unfold nans in *; simp_ab; [ |exact S2| ].
    + apply Hup. now left.
    + now rewrite upd_same.
  - assert (t = c) as -> by (apply Hnd; now rewrite E0). rewrite E0 in S3. destruct S3 as [S3 S4].
    constructor; unfold nans in *; simp_ab.
    + apply Hup. now left.
    + rewrite map_app, app_length, S2, S3. cbn [map fst length]. rewrite Nat2Z.inj_add. cbn [Z.of_nat Pos.of_succ_nat].
      symmetry. apply ids_upto_succ. lia.
    + rewrite upd_same, app_length. cbn [length]. lia.
  - constructor; unfold nans in *; simp_ab; [ |exact S2| ].
    + apply Hup. right. cbn. auto.
    + destruct (Nat.eq_dec t c) as [->|Hn]; [|now rewrite upd_other by auto]. rewrite upd_same. now rewrite E0 in S3.
Qed.
End SingleConsumer.

(* ------------------------------------------------------------------------------------------------ every run *)
Section Runs.
Variable N : Z.
Hypothesis Npos : 0 < N.

Definition Good (sg : zqst * gh) : Prop := RI N (fst sg) /\ QConserve N (abs (fst sg)) /\ Pay (abs (fst sg)) (snd sg).

(* every event of the instrumented run is a transition of the abstract machine by the thread of the event *)
Definition ev_thread (e : zev) : nat := match e with ZStep t | ZStart t _ => t end.
Lemma good_exec_atr sg e : Good sg ->
  RI N (fst (gexec N sg e)) /\ atr (abs (fst sg)) (snd sg) (ev_thread e) (abs (fst (gexec N sg e))) (snd (gexec N sg e)).
Proof.
  intros (R & C & P). destruct sg as [s g]. cbn [fst snd] in *. destruct e as [t|t o]; cbn [gexec fst snd ev_thread].
  - exact (q_step N Npos s g t R C).
  - exact (q_start N s g t o R).
Qed.
Lemma good_exec sg e : Good sg -> Good (gexec N sg e).
Proof.
  intros G. destruct (good_exec_atr sg e G) as [R' T]. destruct G as (R & C & P).
  split; [exact R'|]. split; [exact (cons_atr N _ _ _ _ _ T (p_w _ _ P) C)|exact (pay_atr N _ _ _ _ _ T C P)].
Qed.
Lemma good_init p : Good (zq0 N p, g0).
Proof.
  split; [apply (ri_init N Npos)|]. cbn [fst snd]. rewrite (abs_init N Npos). split.
  - exists []. split; [constructor|]. split; [reflexivity|]. unfold aB. cbn. rewrite !app_nil_r. reflexivity.
  - constructor; unfold W, Tk, aE, aB; cbn; try discriminate; try lia; auto.
    exists []. split; [constructor|]. split; [reflexivity|]. reflexivity.
Qed.
Theorem good_run p evs : Good (gq_run N p evs).
Proof. unfold gq_run. apply (fold_inv (gexec N) Good good_exec). apply good_init. Qed.

(* a single consumer *)
Lemma qstep_idle s t : ZTHR s t = ZIdle -> qstep N s t = s.
Proof. intros H. unfold qstep, ZeroCopy.zstep. now rewrite H. Qed.
Lemma qstart_not_deq s t o : ZTHR s t = ZIdle -> o <> ZDeq -> ZTHR (qstart s t o) t <> ZDeqB.
Proof. intros H Ho. unfold qstart, ZeroCopy.zstart. rewrite H. destruct o; cbn [zthr ZeroCopy.zmk]; rewrite upd_same; congruence. Qed.

Lemma single_exec c sg e : Good sg -> Single c (abs (fst sg)) (snd sg) -> (forall t, e = ZStart t ZDeq -> t = c) ->
  Single c (abs (fst (gexec N sg e))) (snd (gexec N sg e)).
Proof.
  intros G S He. destruct (good_exec_atr sg e G) as [_ T]. apply (single_atr c _ _ _ _ _ T); [|exact S].
  destruct sg as [s g]. cbn [fst snd abs aThr amk] in *. intros Hn Hi. destruct e as [t|t o]; cbn [gexec fst ev_thread] in *.
  - change (qexec N s (ZStep t)) with (qstep N s t). rewrite (qstep_idle s t Hi), Hi. discriminate.
  - change (qexec N s (ZStart t o)) with (qstart s t o). apply (qstart_not_deq s t o Hi). intros ->. apply Hn. now apply He.
Qed.
Lemma single_fold c evs : forall sg, Good sg -> Single c (abs (fst sg)) (snd sg) -> (forall t, In (ZStart t ZDeq) evs -> t = c) ->
  Single c (abs (fst (fold_left (gexec N) evs sg))) (snd (fold_left (gexec N) evs sg)).
Proof.
  induction evs as [|e evs IH]; intros sg G S He; [exact S|]. cbn [fold_left]. apply IH.
  - now apply good_exec.
  - apply single_exec; auto. intros t ->. apply He. now left.
  - intros t Ht. apply He. now right.
Qed.
Theorem single_run c p evs : (forall t, In (ZStart t ZDeq) evs -> t = c) ->
  Single c (abs (fst (gq_run N p evs))) (snd (gq_run N p evs)).
Proof.
  intros He. unfold gq_run. apply single_fold; [apply good_init| |exact He]. cbn [fst snd]. rewrite (abs_init N Npos).
  constructor; cbn; auto.
Qed.
End Runs.
(* ------------------------------------------------------------------------------------------------ results *)
Lemma pairs_map (l : list (Z * Z)) (f : Z -> Z) : (forall k v, In (k, v) l -> v = f k) -> map snd l = map f (map fst l).
Proof.
  induction l as [|[k v] l IH]; intros H; [reflexivity|]. cbn [map fst snd]. rewrite (H k v) by now left.
  rewrite IH; [reflexivity|]. intros k' v' Hin. apply H. now right.
Qed.
Lemma flat_map_singleton {A B} (f : A -> B) l : flat_map (fun a => [f a]) l = map f l.
Proof. induction l as [|a l IH]; [reflexivity|]. cbn. now rewrite IH. Qed.
(* the answers with ticket k *)
Definition ans_at (g : gh) (k : Z) : list Z := map snd (filter (fun e => fst e =? k) (gans g)).
Lemma filter_key_nil (l : list (Z * Z)) k : ~ In k (map fst l) -> filter (fun e => fst e =? k) l = [].
Proof.
  induction l as [|[k0 v0] l IH]; intros H; [reflexivity|]. cbn [filter fst]. destruct (Z.eqb_spec k0 k) as [->|Hne].
  - exfalso. apply H. now left.
  - apply IH. intros Hin. apply H. now right.
Qed.
Lemma filter_key_one (l : list (Z * Z)) k v : NoDup (map fst l) -> In (k, v) l -> map snd (filter (fun e => fst e =? k) l) = [v].
Proof.
  induction l as [|[k0 v0] l IH]; intros Hn Hin; [destruct Hin|]. cbn [map fst] in Hn. inversion Hn as [|? ? Hni Hn']; subst.
  cbn [filter fst]. destruct Hin as [Heq|Hin].
  - injection Heq as -> ->. rewrite Z.eqb_refl. cbn [map snd]. now rewrite (filter_key_nil l k Hni).
  - destruct (Z.eqb_spec k0 k) as [->|Hne]; [|now apply IH].
    exfalso. apply Hni. apply in_map_iff. exists (k, v). auto.
Qed.

Section Results.
Variable N : Z.
Hypothesis Npos : 0 < N.
Variable p : Z -> Z.                               (* the initial content of the payload slots: anything *)
Local Notation run evs := (zq_run N p evs).
Local Notation ghost evs := (snd (gq_run N p evs)).

(* the id a thread carries between the rings: inside an enqueue (allocated, not yet in B) / inside a dequeue (out of B, not yet back in A) *)
Definition enq_transit (s : zqst) (t : nat) : list Z := match ZTHR s t with ZEnqB _ id => [id] | _ => [] end.
Definition deq_transit (s : zqst) (t : nat) : list Z := match ZTHR s t with ZDeqL id | ZDeqA id _ => [id] | _ => [] end.
Lemma qtransl_split s t : qtransl (ZTHR s t) = enq_transit s t ++ deq_transit s t.
Proof. unfold enq_transit, deq_transit. destruct (ZTHR s t); reflexivity. Qed.
Lemma qtick_deq_transit s g t : deq_transit s t = [] -> qtick (ZTHR s t) (gtick g t) = [].
Proof. unfold deq_transit. destruct (ZTHR s t); cbn; congruence. Qed.

Lemma run_good evs : RI N (run evs) /\ QConserve N (abs (run evs)) /\ Pay (abs (run evs)) (ghost evs).
Proof. rewrite <- gq_run_fst. apply (good_run N Npos). Qed.

(* ---- (1) SLOT CONSERVATION ---- *)
Theorem zcq_slots_conserved evs : let s := run evs in
  exists ths, NoDup ths /\ (forall t, ~ In t ths -> enq_transit s t = [] /\ deq_transit s t = []) /\
    Permutation (ids_upto N)
                (inring (FA s) ++ inring (QB s) ++ flat_map (enq_transit s) ths ++ flat_map (deq_transit s) ths).
Proof.
  intros s. destruct (run_good evs) as (_ & (ths & Hn & Ho & Hp) & _). fold s in Ho, Hp. exists ths. split; [exact Hn|]. split.
  - intros t Ht. specialize (Ho t Ht). cbn [aThr abs amk] in Ho. rewrite qtransl_split in Ho. now apply app_eq_nil.
  - rewrite Hp. cbn [aA aThr abs amk]. change (aB (abs s)) with (inring (QB s)). rewrite <- app_assoc. do 2 apply Permutation_app_head.
    rewrite (flat_map_ext_in' _ (fun t => enq_transit s t ++ deq_transit s t) ths) by (intros; apply qtransl_split).
    apply flat_map_app_perm.
Qed.

(* what it means for one id: the slot an operation carries is in neither ring and nobody else carries it - in particular the slot a
   dequeue has taken out of B cannot be allocated again (it is not in the free list) before that dequeue has given it back *)
Theorem zcq_slot_owned_exclusively evs : let s := run evs in
  forall t id, In id (enq_transit s t ++ deq_transit s t) ->
    0 <= id < N /\ ~ In id (inring (FA s)) /\ ~ In id (inring (QB s)) /\
    forall u, In id (enq_transit s u ++ deq_transit s u) -> u = t.
Proof.
  intros s t id Hin. destruct (run_good evs) as (_ & C & _). fold s in C. unfold QConserve in C. cbn [aA aThr abs amk] in C.
  change (aB (abs s)) with (inring (QB s)) in C. rewrite <- qtransl_split in Hin.
  destruct (FS_excl _ _ _ t id (ids_upto_nodup N) C Hin) as [Hnb Hu]. split; [|split; [|split]].
  - apply ids_upto_in. exact (FS_in _ _ _ t id C Hin).
  - intros H. apply Hnb, in_or_app. now left.
  - intros H. apply Hnb, in_or_app. now right.
  - intros u Hin'. rewrite <- qtransl_split in Hin'. now apply Hu.
Qed.

(* ---- (2a) FIFO IN CONSUME ORDER (any number of consumers) ---- *)
Theorem zcq_fifo_in_consume_order evs :
  let s := run evs in let g := ghost evs in let E := enqueued_of (ZLOG s) in let h := head (QB s) in
  (* the ghost answer list mirrors the ZGot answers of the log, one for one, in log order *)
  map snd (gans g) = dequeued_of (ZLOG s) /\
  (* the ZOk answers are logged in the order the ids enter B; h of them have been consumed *)
  length E = length (published (QB s)) /\ 0 <= h <= Z.of_nat (length E) /\
  (* the answer with ticket k is the k-th enqueued value *)
  (forall k v, In (k, v) (gans g) -> 0 <= k < h /\ v = nthz E k) /\
  (* a dequeue that owns ticket k took the k-th id published into B; until it reads, that slot holds the k-th enqueued value ... *)
  (forall t id, ZTHR s t = ZDeqL id -> 0 <= gtick g t < h /\ nthz (published (QB s)) (gtick g t) = id /\ POOL s id = nthz E (gtick g t)) /\
  (* ... and that is the value it has read *)
  (forall t id v, ZTHR s t = ZDeqA id v -> 0 <= gtick g t < h /\ nthz (published (QB s)) (gtick g t) = id /\ v = nthz E (gtick g t)) /\
  (* the slot an enqueue is about to publish holds its value; the queued slots hold the enqueued values not yet taken, in order *)
  (forall t v id, ZTHR s t = ZEnqB v id -> POOL s id = v) /\
  map (POOL s) (inring (QB s)) = skipn (Z.to_nat h) E /\
  (* every ticket 0 .. h-1 is either answered or owned by exactly one dequeue in progress; none twice *)
  NoDup (map fst (gans g)) /\
  exists ths, NoDup ths /\ (forall t, ~ In t ths -> qtick (ZTHR s t) (gtick g t) = []) /\
    Permutation (ids_upto h) (map fst (gans g) ++ flat_map (fun t => qtick (ZTHR s t) (gtick g t)) ths).
Proof.
  intros s g E h. destruct (run_good evs) as (_ & _ & [Pw Pl Pq Ptr PL PA Pans Plog Ptk]). fold s g in Pw, Pl, Pq, Ptr, PL, PA, Pans, Plog, Ptk.
  unfold W, Tk, aE in *. cbn [aA aPB aH aPool aThr aLog abs amk] in *. change (aB (abs s)) with (inring (QB s)) in Pq. fold E h in Pl, Pq, PL, PA, Pans, Ptk, Pw.
  repeat (split; [first [assumption|lia]|]). split; [|exact Ptk].
  exact (FS_base_nodup _ _ _ (ids_upto_nodup h) Ptk).
Qed.

(* no dequeue is between its B.consume and its answer: the answers, read in ticket (= B.consume) order, are exactly the first h
   enqueued values *)
Theorem zcq_fifo_in_consume_order_complete evs :
  let s := run evs in let g := ghost evs in let E := enqueued_of (ZLOG s) in let h := head (QB s) in
  (forall t, deq_transit s t = []) ->
  Permutation (map fst (gans g)) (ids_upto h) /\ flat_map (ans_at g) (ids_upto h) = firstn (Z.to_nat h) E.
Proof.
  intros s g E h Hq. destruct (zcq_fifo_in_consume_order evs) as (_ & Hl & Hh & Hans & _ & _ & _ & _ & Hnd & (ths & Hn & Ho & Hp)).
  fold s g E h in Hl, Hh, Hans, Hnd, Ho, Hp.
  assert (Hperm : Permutation (map fst (gans g)) (ids_upto h)).
  { rewrite (flat_map_nil _ ths), app_nil_r in Hp; [now symmetry|]. intros t. now apply qtick_deq_transit. }
  split; [exact Hperm|].
  rewrite (flat_map_ext_in' (ans_at g) (fun k => [nthz E k])).
  - rewrite flat_map_singleton. now apply map_nthz_ids_upto.
  - intros k Hk. apply (Permutation_in _ (Permutation_sym Hperm)) in Hk. apply in_map_iff in Hk. destruct Hk as ([k' v] & Hf & Hin).
    cbn [fst] in Hf. subst k'. destruct (Hans k v Hin) as [_ ->]. unfold ans_at. now apply filter_key_one.
Qed.

Lemma dequeued_by_ticket evs : let s := run evs in let g := ghost evs in
  dequeued_of (ZLOG s) = map (nthz (enqueued_of (ZLOG s))) (map fst (gans g)).
Proof.
  intros s g. destruct (zcq_fifo_in_consume_order evs) as (Hlog & _ & _ & Hans & _). fold s g in Hlog, Hans.
  rewrite <- Hlog. apply pairs_map. intros k v Hin. now destruct (Hans k v Hin).
Qed.

(* ---- (2c) the LOG-level statement for any number of consumers: a permutation of the prefix ---- *)
Theorem zcq_dequeued_permutation evs : let s := run evs in
  (forall t, deq_transit s t = []) ->
  Permutation (dequeued_of (ZLOG s)) (firstn (Z.to_nat (head (QB s))) (enqueued_of (ZLOG s))).
Proof.
  intros s Hq. destruct (zcq_fifo_in_consume_order_complete evs Hq) as [Hperm _].
  destruct (zcq_fifo_in_consume_order evs) as (_ & _ & Hh & _). fold s in Hperm, Hh.
  pose proof (dequeued_by_ticket evs) as Hd. cbn zeta in Hd. fold s in Hd. rewrite Hd, <- (map_nthz_ids_upto _ _ Hh). now apply Permutation_map.
Qed.

(* ---- (2b) a SINGLE CONSUMER thread: the log-order statement ---- *)
Lemma single_consumer_prefix c evs : (forall t, In (ZStart t ZDeq) evs -> t = c) -> let s := run evs in
  exists n, 0 <= n <= head (QB s) /\ (deq_transit s c = [] -> n = head (QB s)) /\
    dequeued_of (ZLOG s) = firstn (Z.to_nat n) (enqueued_of (ZLOG s)) /\ length (dequeued_of (ZLOG s)) = Z.to_nat n.
Proof.
  intros Hc s. pose proof (single_run N Npos c p evs Hc) as [S1 S2 S3]. rewrite gq_run_fst in S1, S3. fold s in S1, S3.
  destruct (zcq_fifo_in_consume_order evs) as (Hlog & _ & Hh & _). fold s in Hlog, Hh.
  cbn [aThr aH abs amk] in S3. set (g := ghost evs) in *. exists (nans g).
  assert (Hn : 0 <= nans g <= head (QB s) /\ (deq_transit s c = [] -> nans g = head (QB s))).
  { unfold nans in *. unfold deq_transit. destruct (ZTHR s c); try (split; [lia|intros _; lia]); (split; [lia|discriminate]). }
  destruct Hn as [Hn Hn']. split; [exact Hn|]. split; [exact Hn'|]. split.
  - pose proof (dequeued_by_ticket evs) as Hd. cbn zeta in Hd. fold s g in Hd. rewrite Hd, S2. apply map_nthz_ids_upto. lia.
  - rewrite <- Hlog, map_length. unfold nans. lia.
Qed.
Theorem zcq_fifo_single_consumer c evs : (forall t, In (ZStart t ZDeq) evs -> t = c) -> let s := run evs in
  dequeued_of (ZLOG s) = firstn (length (dequeued_of (ZLOG s))) (enqueued_of (ZLOG s)).
Proof. intros Hc s. destruct (single_consumer_prefix c evs Hc) as (n & _ & _ & H1 & H2). fold s in H1, H2. now rewrite H2. Qed.

(* ---- (3) NOTHING LOST ---- *)
(* in every state, whatever is in progress: the queued slots hold the enqueued values not yet taken *)
Theorem zcq_queued_payloads evs : let s := run evs in
  map (POOL s) (inring (QB s)) = skipn (Z.to_nat (head (QB s))) (enqueued_of (ZLOG s)).
Proof. intros s. now destruct (zcq_fifo_in_consume_order evs) as (_ & _ & _ & _ & _ & _ & _ & H & _). Qed.

Theorem zcq_nothing_lost evs : let s := run evs in let g := ghost evs in let E := enqueued_of (ZLOG s) in
  (forall t, ZTHR s t = ZIdle) ->
  (* in B.consume order: exactly *)
  flat_map (ans_at g) (ids_upto (head (QB s))) ++ map (POOL s) (inring (QB s)) = E /\
  (* in log order: up to the order of the answers of overlapping dequeues *)
  Permutation (dequeued_of (ZLOG s) ++ map (POOL s) (inring (QB s))) E /\
  (* free + queued = N: every slot is in the free list or in the id ring *)
  Permutation (ids_upto N) (inring (FA s) ++ inring (QB s)) /\
  (tail (FA s) - head (FA s)) + (tail (QB s) - head (QB s)) = N.
Proof.
  intros s g E Hi.
  assert (Hq : forall t, deq_transit s t = []) by (intros t; unfold deq_transit; now rewrite Hi).
  destruct (zcq_fifo_in_consume_order_complete evs Hq) as [_ H1]. pose proof (zcq_dequeued_permutation evs Hq) as H2.
  pose proof (zcq_queued_payloads evs) as H3. fold s g E in H1, H2, H3.
  split; [rewrite H1, H3; apply firstn_skipn|]. split; [rewrite H2, H3, firstn_skipn; reflexivity|].
  destruct (zcq_slots_conserved evs) as (ths & _ & _ & Hp). fold s in Hp.
  rewrite (flat_map_nil _ ths), (flat_map_nil _ ths), !app_nil_r in Hp;
    [|intros t; unfold deq_transit; now rewrite Hi|intros t; unfold enq_transit; now rewrite Hi].
  split; [exact Hp|].
  destruct (run_good evs) as (R & _ & _). fold s in R.
  destruct (reach_invcov N Npos _ (r_ra _ _ R)) as [Ia _]. destruct (reach_invcov N Npos _ (r_rb _ _ R)) as [Ib _].
  apply Permutation_length in Hp. rewrite app_length in Hp.
  pose proof (ids_upto_length N ltac:(lia)). pose proof (inring_length N _ Ia). pose proof (inring_length N _ Ib). lia.
Qed.

(* single consumer, not inside a dequeue (producers may be): exactly, in log order *)
Theorem zcq_nothing_lost_single_consumer c evs : (forall t, In (ZStart t ZDeq) evs -> t = c) -> let s := run evs in
  deq_transit s c = [] ->
  dequeued_of (ZLOG s) ++ map (POOL s) (inring (QB s)) = enqueued_of (ZLOG s).
Proof.
  intros Hc s Hi. destruct (single_consumer_prefix c evs Hc) as (n & _ & Hn & H1 & _). fold s in Hn, H1.
  pose proof (zcq_queued_payloads evs) as H3. cbn zeta in H3. fold s in H3. rewrite H1, (Hn Hi), H3. apply firstn_skipn.
Qed.
End Results.
(* ------------------------------------------------------------------------------------------------ (4) the "full" answer *)
Section FullAnswer.
Variable N : Z.
Hypothesis Npos : 0 < N.
Variable p : Z -> Z.
Local Notation run evs := (zq_run N p evs).
Local Notation zmk := (ZeroCopy.zmk st).

(* a ZFull answer is only ever logged by a step of the thread that is inside the allocation of that very enqueue (any state) *)
Lemma full_logged_by_alloc s t u v : ZLOG (qstep N s t) = ZLOG s ++ [(u, ZFull v)] -> u = t /\ ZTHR s t = ZEnqA v.
Proof.
  assert (Hsame : forall l : list (nat * zres), forall r, l = l ++ [r] -> False).
  { intros l r H. apply (f_equal (@length _)) in H. rewrite app_length in H. cbn in H. lia. }
  unfold qstep, ZeroCopy.zstep. destruct (ZTHR s t) eqn:E;
    repeat match goal with
    | |- context[if ?b then _ else _] => destruct b
    | |- context[match ZeroCopy.lastres ?A ?B ?C with _ => _ end] => destruct (ZeroCopy.lastres A B C)
    end; cbn [zlog ZeroCopy.zmk]; intros H;
    try (exfalso; exact (Hsame _ _ H)); apply app_inv_head in H; try discriminate H; injection H as <- <-; auto.
Qed.

(* one step of a thread inside the allocation, in any state of any run: still allocating / got a slot that was in the free list /
   answers ZFull - and then, in that very step, its A.consume answered REmpty *)
Theorem zcq_full_only_when_free_list_empty evs t v : let s := run evs in let s' := qstep N s t in
  ZTHR s t = ZEnqA v ->
     (ZTHR s' t = ZEnqA v /\ ZLOG s' = ZLOG s)
  \/ (exists id, ZTHR s' t = ZEnqB v id /\ ZLOG s' = ZLOG s /\ log (FA s') = log (FA s) ++ [(t, RGot id)] /\
                 In id (inring (FA s)) /\ POOL s' id = v)
  \/ (ZTHR s' t = ZIdle /\ ZLOG s' = ZLOG s ++ [(t, ZFull v)] /\ log (FA s') = log (FA s) ++ [(t, REmpty)]).
Proof.
  intros s s' E. destruct (run_good N Npos p evs) as (R & _ & _). fold s in R.
  destruct (reach_invcov N Npos _ (r_ra _ _ R)) as [Ia _]. pose proof (r_ph _ _ R t) as P. rewrite E in P. cbn [qphase_of] in P. destruct P as [P1 P2].
  unfold s'. clearbody s. clear s'. destruct s as [a b q th l]. cbn [fa qb pool zthr zlog] in *. fold (zmk a b q th l).
  destruct (ring_cons_step N a t Ia P1) as [(Hi & Hl & Hp & Hh & Hlt)|[(Hi & Hl & Hp & Hh)|(Hc & Hp & Hh)]].
  - right; left. rewrite (q_enqA_got N a b q th l t v _ E Hi (lastres_snoc _ _ _ _ Hl)). cbn [fa qb pool zthr zlog ZeroCopy.zmk].
    exists (nthz (published a) (head a)). rewrite upd_same, updz_same. repeat split; auto.
    rewrite (inring_cons N a _ Ia Hp Hh Hlt). now left.
  - right; right. rewrite (q_enqA_none N a b q th l t v E Hi (lastres_snoc _ _ _ _ Hl)). cbn [fa qb pool zthr zlog ZeroCopy.zmk].
    rewrite upd_same. auto.
  - left. rewrite (q_enqA_busy N a b q th l t v E (cons_busy _ Hc)). cbn [fa qb pool zthr zlog ZeroCopy.zmk]. auto.
Qed.

(* RingCov's justified "empty" (C02) transferred to the free list inside the queue, with conservation: the tail load that decides the
   answer, made while no other allocation holds a lower reservation, sees a free list that IS empty - every one of the N slots is
   queued in B or owned by an operation in progress *)
Theorem zcq_full_justified evs t v slot : let s := run evs in
  ZTHR s t = ZEnqA v -> thr (FA s) t = C1 slot -> tail (FA s) - slot <= 0 ->
  (forall u x, u <> t -> cslot (thr (FA s) u) = Some x -> slot < x) ->
  inring (FA s) = [] /\
  exists ths, NoDup ths /\
    Permutation (ids_upto N) (inring (QB s) ++ flat_map (enq_transit s) ths ++ flat_map (deq_transit s) ths).
Proof.
  intros s _ E Hemp Hsolo. destruct (run_good N Npos p evs) as (R & _ & _). fold s in R.
  destruct (reach_invcov N Npos _ (r_ra _ _ R)) as [Ia _]. destruct (r_ra _ _ R) as [evs' Ha].
  assert (He : head (FA s) = tail (FA s)).
  { rewrite Ha in E, Hemp, Hsolo |- *. exact (empty_answer_justified N Npos evs' t slot E Hemp Hsolo). }
  assert (Hnil : inring (FA s) = []).
  { apply length_zero_iff_nil. pose proof (inring_length N _ Ia). lia. }
  split; [exact Hnil|]. destruct (zcq_slots_conserved N Npos p evs) as (ths & Hn & _ & Hp). fold s in Hp. rewrite Hnil in Hp.
  exists ths. split; [exact Hn|exact Hp].
Qed.
End FullAnswer.

(* ------------------------------------------------------------------------------------------------ the refuted guess, non-vacuity *)
Definition op_ev (t : nat) (o : zop) (n : nat) : list zev := ZStart t o :: repeat (ZStep t) n.

(* N = 2.  Thread 0 enqueues 10 and 20.  Thread 1 begins a dequeue and is suspended right after its B.consume (id 0, ticket 0);
   thread 2 runs a whole dequeue (id 1, ticket 1) and logs ZGot 20; thread 1 resumes and logs ZGot 10. *)
Definition cx_evs : list zev :=
  op_ev 0 (ZEnq 10) 8 ++ op_ev 0 (ZEnq 20) 8 ++ op_ev 1 ZDeq 4 ++ op_ev 2 ZDeq 10 ++ repeat (ZStep 1%nat) 6.

Example zcq_log_order_fifo_refuted : let s := zq_run 2 (fun _ => 0) cx_evs in
  ZLOG s = [(0%nat, ZOk 10); (0%nat, ZOk 20); (2%nat, ZGot 20); (1%nat, ZGot 10)] /\
  enqueued_of (ZLOG s) = [10; 20] /\ dequeued_of (ZLOG s) = [20; 10] /\
  dequeued_of (ZLOG s) <> firstn (length (dequeued_of (ZLOG s))) (enqueued_of (ZLOG s)) /\
  (* ... while in B.consume order everything is in place: the answer with ticket 0 is 10, the answer with ticket 1 is 20 *)
  gans (snd (gq_run 2 (fun _ => 0) cx_evs)) = [(1, 20); (0, 10)] /\
  flat_map (ans_at (snd (gq_run 2 (fun _ => 0) cx_evs))) (ids_upto (head (QB s))) = [10; 20].
Proof. vm_compute. repeat split; try reflexivity. discriminate. Qed.

(* N = 2: fill; thread 1's dequeue takes slot 0 out of B and is suspended (ZDeqL 0); thread 2's enqueue of 30 finds no free slot:
   slot 0 is NOT re-allocated while the dequeue owns it ... *)
Definition nv_evs1 : list zev := op_ev 0 (ZEnq 10) 8 ++ op_ev 0 (ZEnq 20) 8 ++ op_ev 1 ZDeq 5 ++ op_ev 2 (ZEnq 30) 3.
(* ... thread 1 finishes (ZGot 10, slot 0 free again); thread 2's second attempt re-uses slot 0; thread 3 asks the length; thread 1
   begins another dequeue and is suspended after its B.consume (slot 1, ticket 1); thread 2 has allocated nothing more *)
Definition nv_evs2 : list zev := nv_evs1 ++ repeat (ZStep 1%nat) 5 ++ op_ev 2 (ZEnq 30) 8 ++ op_ev 3 ZLen 2 ++ op_ev 1 ZDeq 4.

Example zcq_nonvacuous_1 : let s := zq_run 2 (fun _ => 0) nv_evs1 in
  ZLOG s = [(0%nat, ZOk 10); (0%nat, ZOk 20); (2%nat, ZFull 30)] /\
  inring (FA s) = [] /\ inring (QB s) = [1] /\ ZTHR s 1%nat = ZDeqL 0 /\ deq_transit s 1%nat = [0] /\
  map (POOL s) [0; 1] = [10; 20] /\ gtick (snd (gq_run 2 (fun _ => 0) nv_evs1)) 1%nat = 0.
Proof. vm_compute. repeat split; reflexivity. Qed.

Example zcq_nonvacuous_2 : let s := zq_run 2 (fun _ => 0) nv_evs2 in
  ZLOG s = [(0%nat, ZOk 10); (0%nat, ZOk 20); (2%nat, ZFull 30); (1%nat, ZGot 10); (2%nat, ZOk 30); (3%nat, ZLenIs 2)] /\
  enqueued_of (ZLOG s) = [10; 20; 30] /\ dequeued_of (ZLOG s) = [10] /\
  inring (FA s) = [] /\ inring (QB s) = [0] /\ published (QB s) = [0; 1; 0] /\ head (QB s) = 2 /\
  ZTHR s 1%nat = ZDeqL 1 /\ map (POOL s) [0; 1] = [30; 20] /\
  gans (snd (gq_run 2 (fun _ => 0) nv_evs2)) = [(0, 10)] /\ gtick (snd (gq_run 2 (fun _ => 0) nv_evs2)) 1%nat = 1 /\
  map (POOL s) (inring (QB s)) = skipn 2 (enqueued_of (ZLOG s)).
Proof. vm_compute. repeat split; reflexivity. Qed.

(* the conservation statement on that state, with ths = [1] *)
Example zcq_nonvacuous_conserved : let s := zq_run 2 (fun _ => 0) nv_evs2 in
  Permutation (ids_upto 2) (inring (FA s) ++ inring (QB s) ++ flat_map (enq_transit s) [1%nat] ++ flat_map (deq_transit s) [1%nat]).
Proof. vm_compute. apply (proj2 (Permutation_count_occ Z.eq_dec _ _)); intro z; cbn [count_occ]; repeat destruct (Z.eq_dec _ _); lia. Qed.

Print Assumptions zcq_slots_conserved.
Print Assumptions zcq_slot_owned_exclusively.
Print Assumptions zcq_fifo_in_consume_order.
Print Assumptions zcq_fifo_in_consume_order_complete.
Print Assumptions zcq_dequeued_permutation.
Print Assumptions zcq_fifo_single_consumer.
Print Assumptions zcq_queued_payloads.
Print Assumptions zcq_nothing_lost.
Print Assumptions zcq_nothing_lost_single_consumer.
Print Assumptions full_logged_by_alloc.
Print Assumptions zcq_full_only_when_free_list_empty.
Print Assumptions zcq_full_justified.
Print Assumptions gq_run_fst.
Print Assumptions zcq_log_order_fifo_refuted.
Print Assumptions zcq_nonvacuous_1.
Print Assumptions zcq_nonvacuous_2.
Print Assumptions zcq_nonvacuous_conserved.
