(* SLOT CONSERVATION AND EXCLUSIVE OWNERSHIP FOR THE STAND-ALONE POOL ALLOCATOR over the FULL-SYNC free list
   (`AllocatorFullSyncArray`: the ring of Ring/FullSync.v guarded by the spin flag; runner instance `PoolRun.run_pool_fullsync`).
   The port of Alloc/PoolConserve.v: same events (`PoolConserve.pev`: PStep / PStartAlloc / PStartDealloc, the client discipline
   "a thread deallocates only an id it holds" being the guard of PStartDealloc), same bookkeeping as PoolRun.pgrant.

   Cut points.  Unlike the lock-free ring, the full-sync ring does NOT finish an operation in the step that moves the counters
   (see ZcConserveFS.v): a publish appends to `fpublished` in its FPL step (flag CAS + the plain code under the flag) and returns in
   its NEXT step (FPU: the flag store); a consume bumps `fhead` in its FCL step and returns - the step that logs `RGot id`, hence the
   step in which `fpstep` puts id into `fheld t` - in its FCU step.  So "in transit" is, by the pc inside the ring:
     FPL v            v      (dealloc begun, id not yet back in the free list)
     FPU v (Some _)   -      (already back in the free list, the publish has not yet returned)
     FPU v None       v      (unreachable - `noFull`)
     FCL              -      (alloc begun, nothing taken yet)
     FCU (Some id)    id     (taken out of the free list under the flag, the alloc has not yet returned)
     FCU None         -      (the alloc will answer "empty") *)
From Coq Require Import Permutation.
From RM Require Import RingModel RingInv FullSync PoolRun ZcSolo ChanZInst ZcConserve ZcConserveFS PoolConserve.

Ltac fsimp := cbn [fhead ftail flock fbuf fthr fpublished fdelivered flog fset] in *.

(* ------------------------------------------------------------------------------------------------ the pool machine *)
Record fpst := { fring : fsst;                  (* the free list: a full-sync ring of slot ids *)
                 fheld : nat -> list Z }.       (* the ids each thread holds (allocated, not yet given back) *)

Definition fpstep (N : Z) (s : fpst) (t : nat) : fpst :=
  let x' := fstepZ N (fring s) t in
  {| fring := x'; fheld := upd (fheld s) t (got_of t (flog (fring s)) (flog x') ++ fheld s t) |}.
Definition fpstart_alloc (s : fpst) (t : nat) : fpst :=              (* `fstart` itself does nothing unless t is FIdle *)
  {| fring := fstart (fring s) t OpCons; fheld := fheld s |}.
Definition fpstart_dealloc (s : fpst) (t : nat) (v : Z) : fpst :=
  if fsidle (fring s) t then
    match take_out v (fheld s t) with
    | Some rest => {| fring := fstart (fring s) t (OpPub v); fheld := upd (fheld s) t rest |}
    | None => s
    end
  else s.
Definition fpexec (N : Z) (s : fpst) (e : pev) : fpst :=
  match e with PStep t => fpstep N s t | PStartAlloc t => fpstart_alloc s t | PStartDealloc t v => fpstart_dealloc s t v end.

(* the pool right after `new()`: BY DEFINITION the ring PoolRun.pfill produces from `finit` on 0..N-1 (ChanZInst.zcf_fl0 N =
   pfill fsst (fstepZ N) fstart finit (ids_upto N) 0, the expression run_pool_fullsync starts from, at the Z instance) *)
Definition fpool_init (N : Z) : fpst := {| fring := zcf_fl0 N; fheld := fun _ => [] |}.
Definition fpool_run (N : Z) (evs : list pev) : fpst := fold_left (fpexec N) evs (fpool_init N).

Lemma fpool_init_is_pfill N : fring (fpool_init N) = pfill fsst (fstepZ N) fstart finit (ids_upto N) 0.
Proof. reflexivity. Qed.

(* the guard of PStartDealloc, spelled out *)
Lemma fpstart_dealloc_guard s t v :
  (fthr (fring s) t = FIdle /\ In v (fheld s t) ->
     exists rest, Permutation (fheld s t) (v :: rest) /\
       fpstart_dealloc s t v = {| fring := fstart (fring s) t (OpPub v); fheld := upd (fheld s) t rest |}) /\
  (~ (fthr (fring s) t = FIdle /\ In v (fheld s t)) -> fpstart_dealloc s t v = s).
Proof.
  unfold fpstart_dealloc, fsidle. split.
  - intros [Hi Hin]. rewrite Hi. apply take_out_in in Hin. destruct Hin as [r Hr]. rewrite Hr. exists r. split; [|reflexivity].
    now apply take_out_perm.
  - intros Hn. destruct (fthr (fring s) t) eqn:E; try reflexivity.
    destruct (take_out v (fheld s t)) as [r|] eqn:Er; [|reflexivity].
    exfalso. apply Hn. split; [reflexivity|]. apply take_out_in. eauto.
Qed.

(* the id a thread's ring operation in progress has custody of (table at the top) *)
Definition ftr (p : fpc) : list Z := match p with FPL v | FPU v None => [v] | FCU (Some id) => [id] | _ => [] end.
Definition ftransit (s : fpst) (t : nat) : list Z := ftr (fthr (fring s) t).

(* ------------------------------------------------------------------------------------------------ the invariant *)
Section PoolConserveFS.
Variable N : Z.
Hypothesis Npos : 0 < N.
Local Notation fstp := (fstepZ N).

(* SLOT CONSERVATION: free list ++ held ++ in transit is a permutation of 0..N-1
   (`ths`: any duplicate-free list of threads that contains every thread that holds or carries something) *)
Definition FPConserve (s : fpst) : Prop :=
  exists ths, NoDup ths /\ (forall t, ~ In t ths -> fheld s t = [] /\ ftransit s t = []) /\
    Permutation (ids_upto N) (finring (fring s) ++ flat_map (fheld s) ths ++ flat_map (ftransit s) ths).

(* = ZcConserveFS's list-level custody predicate with an empty second ring *)
Lemma fpconserve_consL s : FPConserve s <-> ConsL N (finring (fring s)) [] (fheld s) (ftransit s).
Proof. reflexivity. Qed.

(* what one ring step does to the three collections *)
Lemma fpool_ring_step x t : FInv N x -> noFull x -> (forall v, fthr x t = FPL v -> ftail x - fhead x < N) ->
  (* the publish happens: the id enters the free list *)
  (exists v len, fthr x t = FPL v /\ fthr (fstp x t) t = FPU v (Some len) /\ got_of t (flog x) (flog (fstp x t)) = [] /\
     fpublished (fstp x t) = fpublished x ++ [v] /\ fhead (fstp x t) = fhead x)
  (* the consume happens: the head id leaves the free list, in transit *)
  \/ (fthr x t = FCL /\ fthr (fstp x t) t = FCU (Some (nthz (fpublished x) (fhead x))) /\ got_of t (flog x) (flog (fstp x t)) = [] /\
      fpublished (fstp x t) = fpublished x /\ fhead (fstp x t) = fhead x + 1 /\ fhead x < ftail x)
  (* the consume returns: the id is answered *)
  \/ (exists id, fthr x t = FCU (Some id) /\ fthr (fstp x t) t = FIdle /\ got_of t (flog x) (flog (fstp x t)) = [id] /\
      fpublished (fstp x t) = fpublished x /\ fhead (fstp x t) = fhead x)
  (* nothing moves *)
  \/ (ftr (fthr (fstp x t) t) = ftr (fthr x t) /\ got_of t (flog x) (flog (fstp x t)) = [] /\
      fpublished (fstp x t) = fpublished x /\ fhead (fstp x t) = fhead x).
Proof.
  intros I H2 Hroom. destruct (fthr x t) as [|v|v r| |r|] eqn:E.
  - right; right; right. rewrite (fstp_idle_noop N x t E), E, got_of_same. auto.
  - destruct (flock x) eqn:El.
    + right; right; right. rewrite (fstep_PL_locked N x t v E El), E, got_of_same. auto.
    + left. destruct (fstep_PL_ok N x t v E El (Hroom v eq_refl)) as (Ht & Hp & Hh & Hl).
      exists v, (ftail x - fhead x + 1). rewrite Ht, upd_same, Hl, got_of_same. auto.
  - destruct (fstep_PU N x t v r E) as (Ht & Hp & Hh & Hl & _). right; right; right.
    rewrite Ht, upd_same, Hl, got_of_snoc. destruct r as [len|]; [|exfalso; exact (H2 t v E)]. cbn. auto.
  - destruct (flock x) eqn:El.
    + right; right; right. rewrite (fstep_CL_locked N x t E El), E, got_of_same. auto.
    + destruct (Z_lt_le_dec 0 (ftail x - fhead x)) as [Hlt|Hle].
      * right; left. destruct (fstep_CL_got N x t I E El Hlt) as (Ht & Hp & Hh & Hl).
        rewrite Ht, upd_same, Hl, got_of_same. repeat split; auto; lia.
      * right; right; right. destruct (fstep_CL_empty N x t E El Hle) as (Ht & Hp & Hh & Hl).
        rewrite Ht, upd_same, Hl, got_of_same. auto.
  - destruct (fstep_CU N x t r E) as (Ht & Hp & Hh & Hl & _). destruct r as [id|].
    + right; right; left. exists id. rewrite Ht, upd_same, Hl, got_of_snoc. cbn [snd fst cons_res]. rewrite Nat.eqb_refl. auto.
    + right; right; right. rewrite Ht, upd_same, Hl, got_of_snoc. cbn. auto.
  - right; right; right. unfold fstepZ, fstep, idz. rewrite E. fsimp. rewrite upd_same, got_of_snoc. cbn. auto.
Qed.

(* no step answers RFull unless it stands at the store of a publish that saw the ring full *)
Lemma fstep_rejected x t : noFull x -> rejected_of (flog (fstp x t)) = rejected_of (flog x).
Proof.
  intros H2. destruct (fthr x t) as [|v|v r| |r|] eqn:E.
  - now rewrite (fstp_idle_noop N x t E).
  - unfold fstepZ, fstep, idz. rewrite E. destruct (flock x); [reflexivity|]. destruct (ftail x - fhead x <? N); reflexivity.
  - destruct (fstep_PU N x t v r E) as (_ & _ & _ & -> & _). rewrite rejected_app. cbn [snd].
    destruct r as [len|]; [cbn; now rewrite app_nil_r|exfalso; exact (H2 t v E)].
  - unfold fstepZ, fstep, idz. rewrite E. destruct (flock x); [reflexivity|]. destruct (0 <? ftail x - fhead x); reflexivity.
  - destruct (fstep_CU N x t r E) as (_ & _ & _ & -> & _). rewrite rejected_app. cbn [snd]. destruct r; cbn; now rewrite app_nil_r.
  - unfold fstepZ, fstep, idz. rewrite E. fsimp. rewrite rejected_app. cbn. now rewrite app_nil_r.
Qed.
Lemma fstart_log x t o : flog (fstart x t o) = flog x.
Proof. unfold fstart. destruct (fthr x t); reflexivity. Qed.
Lemma fstep_PL_log x t v : fthr x t = FPL v -> flog (fstp x t) = flog x.
Proof.
  intros E. unfold fstepZ, fstep, idz. rewrite E. destruct (flock x); [reflexivity|]. destruct (ftail x - fhead x <? N); reflexivity.
Qed.

(* the invariant carried through every state *)
Record FPI (s : fpst) : Prop := {
  fp_inv   : FInv N (fring s);                                (* mutual exclusion under the flag, counters, ghost lists *)
  fp_no2   : noFull (fring s);                                (* no dealloc has seen the ring full *)
  fp_norej : rejected_of (flog (fring s)) = [];               (* ... and none was ever answered "full" *)
  fp_cons  : FPConserve s
}.

Lemma fp_consL s : FPI s -> ConsL N (finring (fring s)) [] (fheld s) (ftransit s).
Proof. intros P. exact (proj1 (fpconserve_consL s) (fp_cons _ P)). Qed.

(* whoever has custody of an id finds room in the free list *)
Lemma fpi_room s t id : FPI s -> In id (fheld s t ++ ftransit s t) ->
  ftail (fring s) - fhead (fring s) < N /\ ~ In id (finring (fring s)).
Proof.
  intros P Hin. pose proof (finring_length N _ (fp_inv _ P)) as Hl.
  pose proof (consL_room N _ _ _ _ t id (fp_consL _ P) Hin) as Hr. cbn [length] in Hr.
  destruct (consL_exclusive N _ _ _ _ t id (fp_consL _ P) Hin) as (_ & Ha & _). split; [lia|exact Ha].
Qed.
Lemma fpi_room_PL s t v : FPI s -> fthr (fring s) t = FPL v -> ftail (fring s) - fhead (fring s) < N.
Proof.
  intros P E. apply (fpi_room s t v P). apply in_or_app. right. unfold ftransit. rewrite E. now left.
Qed.

Theorem fpi_step s t : FPI s -> FPI (fpstep N s t).
Proof.
  intros P. pose proof (fp_inv _ P) as I. pose proof (fun v => fpi_room_PL s t v P) as Hroom.
  constructor; unfold fpstep; cbn [fring fheld].
  - now apply finv_step.
  - apply noFull_step; [intros v Hv _; exact (Hroom v Hv)|apply P].
  - rewrite fstep_rejected; apply P.
  - apply fpconserve_consL. apply (consL_move N _ _ _ _ (finring _) [] _ _ t (fp_consL _ P)).
    + intros u Hu. unfold ftransit. cbn [fring fheld]. rewrite upd_other, (fstp_other N) by assumption. split; reflexivity.
    + unfold ftransit. cbn [fring fheld]. rewrite upd_same.
      destruct (fpool_ring_step (fring s) t I (fp_no2 _ P) Hroom)
        as [(v & len & Hv & Hi & Hg & Hp & Hh)|[(Hc & Hi & Hg & Hp & Hh & Hlt)|[(id & Hc & Hi & Hg & Hp & Hh)|(Hv & Hg & Hp & Hh)]]].
      * rewrite Hg, Hi, Hv, (finring_pub N _ _ v I Hp Hh). cbn [ftr]. perm_count.
      * rewrite Hg, Hi, Hc, (finring_cons N _ _ I Hp Hh Hlt). cbn [ftr]. perm_count.
      * rewrite Hg, Hi, Hc, (finring_same _ _ Hp Hh). cbn [ftr]. perm_count.
      * rewrite Hg, Hv, (finring_same _ _ Hp Hh). reflexivity.
Qed.

Lemma ftr_fstart_cons x t : ftr (fthr (fstart x t OpCons) t) = ftr (fthr x t).
Proof. unfold fstart. destruct (fthr x t) eqn:E; rewrite ?E; try reflexivity. fsimp. now rewrite upd_same. Qed.

Theorem fpi_start_alloc s t : FPI s -> FPI (fpstart_alloc s t).
Proof.
  intros P. destruct (fstart_frame (fring s) t OpCons) as [Sp Sh].
  constructor; unfold fpstart_alloc; cbn [fring fheld].
  - apply finv_start, P.
  - apply noFull_start, P.
  - rewrite fstart_log. apply P.
  - apply fpconserve_consL. apply (consL_move N _ _ _ _ (finring _) [] _ _ t (fp_consL _ P)).
    + intros u Hu. unfold ftransit. cbn [fring fheld]. rewrite fstart_other by assumption. split; reflexivity.
    + unfold ftransit. cbn [fring fheld]. rewrite (finring_same _ _ Sp Sh), ftr_fstart_cons. reflexivity.
Qed.

Theorem fpi_start_dealloc s t v : FPI s -> FPI (fpstart_dealloc s t v).
Proof.
  intros P. unfold fpstart_dealloc, fsidle. destruct (fthr (fring s) t) eqn:E; try exact P.
  destruct (take_out v (fheld s t)) as [rest|] eqn:Et; [|exact P].
  destruct (fstart_frame (fring s) t (OpPub v)) as [Sp Sh]. pose proof (take_out_perm _ _ _ Et) as Hperm.
  constructor; cbn [fring fheld].
  - apply finv_start, P.
  - apply noFull_start, P.
  - rewrite fstart_log. apply P.
  - apply fpconserve_consL. apply (consL_move N _ _ _ _ (finring _) [] _ _ t (fp_consL _ P)).
    + intros u Hu. unfold ftransit. cbn [fring fheld]. rewrite upd_other, fstart_other by assumption. split; reflexivity.
    + unfold ftransit. cbn [fring fheld]. rewrite upd_same, (finring_same _ _ Sp Sh), (fstart_idle _ t _ E), E. cbn [ftr]. perm_count.
Qed.

Theorem fpi_exec s e : FPI s -> FPI (fpexec N s e).
Proof. intros P. destruct e; cbn [fpexec]; [now apply fpi_step|now apply fpi_start_alloc|now apply fpi_start_dealloc]. Qed.

(* ---- the initial state ---- *)
Lemma fs_fill_one_rejected x v : FInv N x -> all_idle x -> ftail x - fhead x < N ->
  rejected_of (flog (Nat.iter 6 (fun x => fstp x 0%nat) (fstart x 0%nat (OpPub v)))) = rejected_of (flog x).
Proof.
  intros I [Ai Al] Hlt. cbn [Nat.iter nat_rect].
  set (x0 := fstart x 0%nat (OpPub v)).
  assert (E0 : fthr x0 0%nat = FPL v) by (unfold x0; now rewrite (fstart_idle x 0%nat _ (Ai 0%nat))).
  destruct (fstart_frame x 0%nat (OpPub v)) as [Sp Sh]. destruct (fstart_frame2 x 0%nat (OpPub v)) as [St Sl]. fold x0 in Sp, Sh, St, Sl.
  assert (L0 : flock x0 = false) by congruence.
  destruct (fstep_PL_ok N x0 0%nat v E0 L0 ltac:(lia)) as (Ht1 & _ & _ & Hl1).
  set (x1 := fstp x0 0%nat) in *.
  assert (E1 : fthr x1 0%nat = FPU v (Some (ftail x0 - fhead x0 + 1))) by (now rewrite Ht1, upd_same).
  destruct (fstep_PU N x1 0%nat v _ E1) as (Ht2 & _ & _ & Hl2 & _).
  set (x2 := fstp x1 0%nat) in *.
  assert (Hi2 : fthr x2 0%nat = FIdle) by (now rewrite Ht2, upd_same).
  rewrite !(fstp_idle_noop N x2 0%nat Hi2), Hl2, rejected_app, Hl1. cbn. rewrite app_nil_r. unfold x0. now rewrite fstart_log.
Qed.

Lemma fs_pfill_rejected ids : forall x, FInv N x -> all_idle x -> ftail x - fhead x + Z.of_nat (length ids) <= N ->
  rejected_of (flog (pfill fsst fstp fstart x ids 0)) = rejected_of (flog x).
Proof.
  induction ids as [|v ids IH]; intros x I A Hb; [reflexivity|].
  cbn [pfill]. cbn [length] in Hb.
  destruct (fs_fill_one N Npos x v I A ltac:(lia)) as (I1 & A1 & P1 & H1). cbn zeta in *.
  pose proof (fs_fill_one_rejected x v I A ltac:(lia)) as R1.
  set (x1 := Nat.iter 6 (fun x => fstp x 0%nat) (fstart x 0%nat (OpPub v))) in *.
  assert (T1 : ftail x1 = ftail x + 1).
  { pose proof (f_lenp _ _ I1) as L1. pose proof (f_lenp _ _ I) as L. rewrite P1, app_length in L1. cbn [length] in L1. lia. }
  rewrite (IH x1 I1 A1 ltac:(lia)). exact R1.
Qed.

(* the state `new()` leaves behind, field by field *)
Theorem fpool_init_fields :
  let x := fring (fpool_init N) in
  fpublished x = ids_upto N /\ fdelivered x = [] /\ fhead x = 0 /\ ftail x = N /\ flock x = false /\
  (forall t, fthr x t = FIdle) /\ rejected_of (flog x) = [] /\ (forall t, fheld (fpool_init N) t = []) /\ FInv N x.
Proof.
  cbn zeta. cbn [fpool_init fring fheld].
  destruct (fl0_state_fs N Npos) as (I & [A2 A2'] & A3 & A4).
  pose proof (f_lenp _ _ I) as Hl. rewrite A3, (ids_upto_length N Npos) in Hl.
  pose proof (f_del _ _ I) as Hdl. rewrite A4 in Hdl. cbn [Z.to_nat firstn] in Hdl.
  assert (Hrej : rejected_of (flog (zcf_fl0 N)) = []).
  { unfold zcf_fl0. rewrite fs_pfill_rejected; [reflexivity|exact (finv_init N Npos)|split; reflexivity|].
    rewrite (ids_upto_length N Npos). cbn [finit finit_at fhead ftail]. lia. }
  split; [exact A3|]. split; [exact Hdl|]. split; [exact A4|]. split; [lia|]. split; [exact A2'|].
  split; [exact A2|]. split; [exact Hrej|]. split; [reflexivity|exact I].
Qed.

Theorem fpi_init : FPI (fpool_init N).
Proof.
  destruct fpool_init_fields as (Hp & _ & Hh & _ & _ & Hi & Hr & _ & I). cbn zeta in *.
  constructor; auto.
  - intros t v. rewrite Hi. discriminate.
  - exists []. split; [constructor|]. split; [intros t _; split; [reflexivity|]|].
    + unfold ftransit. now rewrite Hi.
    + unfold finring. rewrite Hp, Hh. cbn. now rewrite app_nil_r.
Qed.

Theorem fpool_invariant evs : FPI (fpool_run N evs).
Proof. unfold fpool_run. apply fold_inv; [intros s e; apply fpi_exec|apply fpi_init]. Qed.

(* ---- consequences of the invariant ---- *)
Lemma fpconserve_exclusive s : FPConserve s ->
  (forall t u id, In id (fheld s t) -> In id (fheld s u) -> t = u) /\
  (forall t, NoDup (fheld s t)) /\
  (forall t id, In id (fheld s t) -> 0 <= id < N /\ ~ In id (finring (fring s)) /\ forall u, ~ In id (ftransit s u)) /\
  (forall t u id, In id (ftransit s t) -> In id (ftransit s u) -> t = u).
Proof.
  intros C0. assert (C : ConsL N (finring (fring s)) [] (fheld s) (ftransit s)) by exact (proj1 (fpconserve_consL s) C0).
  clear C0. split; [|split; [|split]].
  - intros t u id Ht Hu.
    destruct (consL_exclusive N _ _ _ _ u id C (in_or_app _ _ _ (or_introl Hu))) as (_ & _ & _ & Huniq).
    apply Huniq. apply in_or_app. now left.
  - intros t. destruct (fheld s t) as [|a l] eqn:Eh; [constructor|]. rewrite <- Eh.
    destruct (consL_nodup N _ _ _ _ C) as (ths & Hn & Ho & Hd & _).
    assert (Hin : In t ths).
    { apply (in_ths (fun t => fheld s t ++ ftransit s t) ths t Ho). rewrite Eh. discriminate. }
    apply nodup_app_r, nodup_app_r in Hd. destruct (in_split _ _ Hin) as (l1 & l2 & ->).
    rewrite flat_map_app in Hd. apply nodup_app_r in Hd. cbn [flat_map] in Hd. apply nodup_app_l, nodup_app_l in Hd. exact Hd.
  - intros t id Ht.
    destruct (consL_exclusive N _ _ _ _ t id C (in_or_app _ _ _ (or_introl Ht))) as (Hr & Ha & _ & _).
    split; [exact Hr|]. split; [exact Ha|]. exact (consL_held_not_carried N _ _ _ _ t id C Ht).
  - intros t u id Ht Hu.
    destruct (consL_exclusive N _ _ _ _ u id C (in_or_app _ _ _ (or_intror Hu))) as (_ & _ & _ & Huniq).
    apply Huniq. apply in_or_app. now right.
Qed.

Lemma fpi_never_full s : FPI s ->
  noFull (fring s) /\
  (forall t v, ~ In (t, RFull v) (flog (fring s))) /\
  (forall t v, In v (fheld s t) \/ In v (ftransit s t) ->
     ftail (fring s) - fhead (fring s) < N /\ ~ In v (finring (fring s))) /\
  (forall t v, fthr (fring s) t = FPL v -> flock (fring s) = false ->
     fthr (fstp (fring s) t) t = FPU v (Some (ftail (fring s) - fhead (fring s) + 1))) /\
  (forall t v r, fthr (fring s) t = FPU v r -> exists len, r = Some len /\ flog (fstp (fring s) t) = flog (fring s) ++ [(t, ROk v len)]).
Proof.
  intros P. split; [apply P|]. split; [|split; [|split]].
  - intros t v Hin. apply in_rejected in Hin. rewrite (fp_norej _ P) in Hin. destruct Hin.
  - intros t v H. apply (fpi_room s t v P). apply in_or_app. exact H.
  - intros t v E El. destruct (fstep_PL_ok N _ t v E El (fpi_room_PL s t v P E)) as (Ht & _). now rewrite Ht, upd_same.
  - intros t v r E. destruct r as [len|]; [|exfalso; exact (fp_no2 _ P t v E)].
    exists len. split; [reflexivity|]. destruct (fstep_PU N _ t v _ E) as (_ & _ & _ & Hl & _). exact Hl.
Qed.

(* EXHAUSTION IS EXACT, without any quiet hypothesis: at the decisive step (the successful flag CAS of an alloc) *)
Lemma fpi_exhaustion s t : FPI s -> fthr (fring s) t = FCL -> flock (fring s) = false ->
  exists ths, NoDup ths /\ (forall u, ~ In u ths -> fheld s u = [] /\ ftransit s u = []) /\
    (fthr (fstp (fring s) t) t = FCU None <-> finring (fring s) = []) /\
    (fthr (fstp (fring s) t) t = FCU None <->
       Permutation (ids_upto N) (flat_map (fheld s) ths ++ flat_map (ftransit s) ths)) /\
    (fthr (fstp (fring s) t) t = FCU None <->
       Z.of_nat (length (flat_map (fheld s) ths)) + Z.of_nat (length (flat_map (ftransit s) ths)) = N) /\
    (fthr (fstp (fring s) t) t <> FCU None ->
       fthr (fstp (fring s) t) t = FCU (Some (nthz (fpublished (fring s)) (fhead (fring s)))) /\
       exists rest, finring (fring s) = nthz (fpublished (fring s)) (fhead (fring s)) :: rest).
Proof.
  intros P E El. pose proof (fp_inv _ P) as I. pose proof (finring_length N _ I) as Hl. pose proof (f_ord _ _ I) as Ho.
  destruct (fp_cons _ P) as (ths & Hn & Hout & Hp). exists ths. split; [exact Hn|]. split; [exact Hout|].
  pose proof (Permutation_length Hp) as Hlen. rewrite !app_length in Hlen. pose proof (ids_upto_length N Npos) as HN.
  assert (Hdec : fthr (fstp (fring s) t) t = FCU None <-> finring (fring s) = []).
  { split.
    - intros H. destruct (Z_lt_le_dec 0 (ftail (fring s) - fhead (fring s))) as [Hlt|Hle].
      + destruct (fstep_CL_got N _ t I E El Hlt) as (Ht & _). rewrite Ht, upd_same in H. discriminate.
      + destruct (finring (fring s)); [reflexivity|cbn [length] in Hl; lia].
    - intros H. rewrite H in Hl. cbn [length] in Hl.
      destruct (fstep_CL_empty N _ t E El ltac:(lia)) as (Ht & _). now rewrite Ht, upd_same. }
  split; [exact Hdec|]. split; [|split].
  - rewrite Hdec. split.
    + intros H. rewrite H in Hp. exact Hp.
    + intros H. apply Permutation_length in H. rewrite app_length in H.
      destruct (finring (fring s)); [reflexivity|cbn [length] in Hlen; lia].
  - rewrite Hdec. split.
    + intros H. rewrite H in Hlen. cbn [length] in Hlen. lia.
    + intros H. destruct (finring (fring s)); [reflexivity|cbn [length] in Hlen; lia].
  - intros Hne. destruct (Z_lt_le_dec 0 (ftail (fring s) - fhead (fring s))) as [Hlt|Hle].
    + destruct (fstep_CL_got N _ t I E El Hlt) as (Ht & Hpb & Hh & _). split; [now rewrite Ht, upd_same|].
      eexists. apply (finring_cons N _ _ I Hpb Hh). lia.
    + exfalso. apply Hne. destruct (fstep_CL_empty N _ t E El Hle) as (Ht & _). now rewrite Ht, upd_same.
Qed.

End PoolConserveFS.

(* ================================================================================================ MAIN THEOREMS
   for every pool size, every event list, any number of threads *)

(* 1. SLOT CONSERVATION *)
Theorem fpool_slots_conserved : forall N, 0 < N -> forall evs,
  let s := fpool_run N evs in
  exists ths, NoDup ths /\ (forall t, ~ In t ths -> fheld s t = [] /\ ftransit s t = []) /\
    Permutation (ids_upto N)
                (finring (fring s)                      (* (a) the free list *)
                 ++ flat_map (fheld s) ths              (* (b) held by threads *)
                 ++ flat_map (ftransit s) ths).         (* (c) in custody of an alloc / dealloc in progress *)
Proof. intros N Npos evs. exact (fp_cons _ _ (fpool_invariant N Npos evs)). Qed.

(* 2. EXCLUSIVE OWNERSHIP *)
Theorem fpool_exclusive_ownership : forall N, 0 < N -> forall evs,
  let s := fpool_run N evs in
  (forall t u id, In id (fheld s t) -> In id (fheld s u) -> t = u) /\       (* two different threads never hold the same id *)
  (forall t, NoDup (fheld s t)) /\                                          (* no thread holds an id twice *)
  (forall t id, In id (fheld s t) ->
     0 <= id < N /\ ~ In id (finring (fring s)) /\                          (* a held id is a pool id, is not in the free list ... *)
     forall u, ~ In id (ftransit s u)) /\                                   (* ... and no operation in progress has custody of it *)
  (forall t u id, In id (ftransit s t) -> In id (ftransit s u) -> t = u).   (* nor do two operations in progress carry the same id *)
Proof. intros N Npos evs. exact (fpconserve_exclusive N (fpool_run N evs) (fp_cons _ _ (fpool_invariant N Npos evs))). Qed.

(* 3. A DEALLOC NEVER MEETS A FULL RING *)
Theorem fpool_dealloc_never_meets_full : forall N, 0 < N -> forall evs,
  let s := fpool_run N evs in let x := fring s in
  (forall t v, fthr x t <> FPU v None) /\                                   (* no publish under the flag ever takes the "full" branch *)
  (forall t v, ~ In (t, RFull v) (flog x)) /\                               (* nobody was ever answered "full" *)
  (forall t v, In v (fheld s t) \/ In v (ftransit s t) ->                   (* whoever has custody of an id finds room *)
     ftail x - fhead x < N /\ ~ In v (finring x)) /\
  (forall t v, fthr x t = FPL v -> flock x = false ->                       (* the decisive step of a dealloc takes the "room" branch *)
     fthr (fstepZ N x t) t = FPU v (Some (ftail x - fhead x + 1))) /\
  (forall t v r, fthr x t = FPU v r ->                                      (* and its return answers Ok *)
     exists len, r = Some len /\ flog (fstepZ N x t) = flog x ++ [(t, ROk v len)]).
Proof. intros N Npos evs. exact (fpi_never_full N (fpool_run N evs) (fpool_invariant N Npos evs)). Qed.

(* 4. EXHAUSTION IS EXACT - no quiet hypothesis: whatever the other threads are doing, at the decisive step of an alloc (thread t
   at FCL, the flag free: this step takes the flag and decides) the alloc will answer "empty" (pc FCU None: its next step logs REmpty)
   IF AND ONLY IF every one of the N ids is held by a thread or in custody of an operation in progress; otherwise it takes the head
   of the free list.  (`ths` is the conservation witness: it covers every thread that holds or carries something.) *)
Theorem fpool_exhaustion_exact : forall N, 0 < N -> forall evs t,
  let s := fpool_run N evs in let x := fring s in
  fthr x t = FCL -> flock x = false ->
  exists ths, NoDup ths /\ (forall u, ~ In u ths -> fheld s u = [] /\ ftransit s u = []) /\
    (fthr (fstepZ N x t) t = FCU None <-> finring x = []) /\
    (fthr (fstepZ N x t) t = FCU None <->
       Permutation (ids_upto N) (flat_map (fheld s) ths ++ flat_map (ftransit s) ths)) /\
    (fthr (fstepZ N x t) t = FCU None <->
       Z.of_nat (length (flat_map (fheld s) ths)) + Z.of_nat (length (flat_map (ftransit s) ths)) = N) /\
    (fthr (fstepZ N x t) t <> FCU None ->
       fthr (fstepZ N x t) t = FCU (Some (nthz (fpublished x) (fhead x))) /\
       exists rest, finring x = nthz (fpublished x) (fhead x) :: rest).
Proof. intros N Npos evs t. exact (fpi_exhaustion N Npos (fpool_run N evs) t (fpool_invariant N Npos evs)). Qed.

(* ------------------------------------------------------------------------------------------------ 5. the executable runner
   PoolRun.prun instantiated as in `run_pool_fullsync`, at the Z instance (fstepZ N, fstart, the idle test on `fthr` - ZcSolo.fsidle
   is literally that test -, `flog`; the observation function plays no role): every grant of the runner is zero, one or two events of
   the pool machine, and the runner's `held` is the machine's `fheld`. *)
Section PoolRunsFS.
Variable N : Z.
Variable qobs : fsst -> nat -> list Z.
Local Notation grant := (pgrant fsst (fstepZ N) fstart fsidle flog qobs).
Local Notation runner := (prun fsst (fstepZ N) fstart fsidle flog qobs).

Lemma fsidle_is_the_runner's_test : fsidle = (fun s t => match fthr s t with FIdle => true | _ => false end).
Proof. reflexivity. Qed.

Definition fagrees (s : fpst) (q : fsst) (held : nat -> list Z) : Prop := fring s = q /\ forall u, fheld s u = held u.

(* one grant *)
Lemma fpgrant_simulated s q held progs t q' held' progs' lines :
  fagrees s q held -> grant q held progs t = (q', held', progs', lines) ->
  exists evs, (length evs <= 2)%nat /\ fagrees (fold_left (fpexec N) evs s) q' held'.
Proof.
  intros [Hq Hh] G. subst q. unfold pgrant in G. destruct (fsidle (fring s) t) eqn:Ei.
  - destruct (progs t) as [|[|] rest].
    + inversion G; subst. exists []. split; [cbn; lia|]. split; [reflexivity|exact Hh].
    + inversion G; subst. exists [PStartAlloc t; PStep t]. split; [cbn; lia|].
      cbn [fold_left fpexec]. unfold fagrees, fpstep, fpstart_alloc. cbn [fring fheld]. split; [reflexivity|].
      intros u. destruct (Nat.eq_dec u t) as [->|Hn]; [rewrite !upd_same, Hh; reflexivity|rewrite !upd_other by assumption; apply Hh].
    + destruct (held t) as [|v hs] eqn:Eh.
      * inversion G; subst. exists []. split; [cbn; lia|]. split; [reflexivity|exact Hh].
      * inversion G; subst. exists [PStartDealloc t v; PStep t]. split; [cbn; lia|].
        cbn [fold_left fpexec]. unfold fpstart_dealloc. rewrite Ei, Hh, Eh, take_out_head.
        unfold fagrees, fpstep. cbn [fring fheld]. split; [reflexivity|].
        intros u. destruct (Nat.eq_dec u t) as [->|Hn]; [|rewrite !upd_other by assumption; apply Hh].
        rewrite !upd_same.
        rewrite (fstep_PL_log N _ t v (fstart_idle (fring s) t (OpPub v) (fsidle_true _ _ Ei))). now rewrite got_of_same.
  - inversion G; subst. exists [PStep t]. split; [cbn; lia|].
    cbn [fold_left fpexec]. unfold fagrees, fpstep. cbn [fring fheld]. split; [reflexivity|].
    intros u. destruct (Nat.eq_dec u t) as [->|Hn]; [rewrite !upd_same, Hh; reflexivity|rewrite !upd_other by assumption; apply Hh].
Qed.

(* the (ring, held) pairs a run goes through, grant by grant *)
Fixpoint fprun_states (q : fsst) (held : nat -> list Z) (progs : nat -> list pop) (sched : list nat) : list (fsst * (nat -> list Z)) :=
  (q, held) ::
  match sched with
  | [] => []
  | t :: rest => let '(q1, held1, progs1, _) := grant q held progs t in fprun_states q1 held1 progs1 rest
  end.

Lemma fprun_states_simulated sched : forall s q held progs q' held', fagrees s q held ->
  In (q', held') (fprun_states q held progs sched) -> exists evs, fagrees (fold_left (fpexec N) evs s) q' held'.
Proof.
  induction sched as [|t rest IH]; intros s q held progs q' held' A Hin; cbn [fprun_states] in Hin.
  - destruct Hin as [E|[]]. inversion E; subst. exists []. exact A.
  - destruct Hin as [E|Hin]; [inversion E; subst; exists []; exact A|].
    destruct (grant q held progs t) as [[[q1 h1] p1] l1] eqn:G.
    destruct (fpgrant_simulated s q held progs t q1 h1 p1 l1 A G) as (e1 & _ & A1).
    destruct (IH _ q1 h1 p1 q' held' A1 Hin) as (e2 & A2).
    exists (e1 ++ e2). now rewrite fold_left_app.
Qed.

(* the final state of `prun` is the last of them *)
Lemma fprun_final_in_states sched : forall q held progs,
  exists held', In (fst (runner q held progs sched), held') (fprun_states q held progs sched).
Proof.
  induction sched as [|t rest IH]; intros q held progs.
  - exists held. now left.
  - cbn [prun fprun_states]. destruct (grant q held progs t) as [[[q1 h1] p1] l1] eqn:G.
    destruct (IH q1 h1 p1) as [held' Hin]. destruct (runner q1 h1 p1 rest) as [s2 more] eqn:R.
    cbn [fst] in *. exists held'. now right.
Qed.

End PoolRunsFS.

Theorem fprun_states_reachable : forall N qobs progs sched q' held',
  In (q', held') (fprun_states N qobs (fring (fpool_init N)) (fun _ => []) progs sched) ->
  exists evs, fring (fpool_run N evs) = q' /\ forall u, fheld (fpool_run N evs) u = held' u.
Proof.
  intros N qobs progs sched q' held' Hin.
  exact (fprun_states_simulated N qobs sched (fpool_init N) _ _ progs q' held' (conj eq_refl (fun _ => eq_refl)) Hin).
Qed.

Theorem fprun_final_reachable : forall N qobs progs sched,
  exists evs, fring (fpool_run N evs) =
              fst (prun fsst (fstepZ N) fstart (fun s t => match fthr s t with FIdle => true | _ => false end) flog qobs
                        (pfill fsst (fstepZ N) fstart finit (ids_upto N) 0) (fun _ => []) progs sched).
Proof.
  intros N qobs progs sched.
  destruct (fprun_final_in_states N qobs sched (fring (fpool_init N)) (fun _ => []) progs) as [held' Hin].
  destruct (fprun_states_reachable N qobs progs sched _ _ Hin) as (evs & Hq & _). exists evs. exact Hq.
Qed.

(* ... so theorems 1-3 hold of every state of every `prun` run started from pfill's result *)
Theorem fprun_states_conserved_exclusive_never_full : forall N, 0 < N -> forall qobs progs sched q' held',
  In (q', held') (fprun_states N qobs (pfill fsst (fstepZ N) fstart finit (ids_upto N) 0) (fun _ => []) progs sched) ->
  let s := {| fring := q'; fheld := held' |} in
  (* 1 *) (exists ths, NoDup ths /\ (forall t, ~ In t ths -> held' t = [] /\ ftransit s t = []) /\
             Permutation (ids_upto N) (finring q' ++ flat_map held' ths ++ flat_map (ftransit s) ths)) /\
  (* 2 *) ((forall t u id, In id (held' t) -> In id (held' u) -> t = u) /\ (forall t, NoDup (held' t)) /\
           (forall t id, In id (held' t) -> 0 <= id < N /\ ~ In id (finring q') /\ forall u, ~ In id (ftransit s u)) /\
           (forall t u id, In id (ftransit s t) -> In id (ftransit s u) -> t = u)) /\
  (* 3 *) ((forall t v, fthr q' t <> FPU v None) /\ (forall t v, ~ In (t, RFull v) (flog q')) /\
           (forall t v, In v (held' t) \/ In v (ftransit s t) -> ftail q' - fhead q' < N /\ ~ In v (finring q'))).
Proof.
  intros N Npos qobs progs sched q' held' Hin. cbn zeta.
  destruct (fprun_states_reachable N qobs progs sched q' held' Hin) as (evs & Hq & Hh).
  pose proof (fpool_invariant N Npos evs) as P. set (s0 := fpool_run N evs) in *.
  assert (C : FPConserve N {| fring := q'; fheld := held' |}).
  { destruct (fp_cons _ _ P) as (ths & Hn & Ho & Hp). exists ths. split; [exact Hn|]. split.
    - intros t Ht. destruct (Ho t Ht) as [H1 H2]. cbn [fheld]. rewrite <- Hh. split; [exact H1|].
      unfold ftransit in *. cbn [fring]. now rewrite <- Hq.
    - cbn [fring fheld]. rewrite <- Hq.
      rewrite (flat_map_ext_in' held' (fheld s0) ths) by (intros; symmetry; apply Hh).
      rewrite (flat_map_ext_in' (ftransit {| fring := fring s0; fheld := held' |}) (ftransit s0) ths) by reflexivity. exact Hp. }
  split; [exact C|]. split; [exact (fpconserve_exclusive N _ C)|].
  destruct (fpi_never_full N s0 P) as (H1 & H2 & H3 & _). rewrite <- Hq. split; [exact H1|]. split; [exact H2|].
  intros t v H. apply (H3 t v). rewrite Hh. exact H.
Qed.

(* ------------------------------------------------------------------------------------------------ non-vacuity, N = 4 *)
Example fpool_init_4 :
  let x := fring (fpool_init 4) in
  fpublished x = [0; 1; 2; 3] /\ fdelivered x = [] /\ fhead x = 0 /\ ftail x = 4 /\ flock x = false /\
  map (fbuf x) [0; 1; 2; 3] = [0; 1; 2; 3] /\ map (fthr x) [0; 1; 2; 3]%nat = [FIdle; FIdle; FIdle; FIdle] /\
  flog x = [(0%nat, ROk 0 1); (0%nat, ROk 1 2); (0%nat, ROk 2 3); (0%nat, ROk 3 4)].
Proof. vm_compute. repeat split; reflexivity. Qed.

(* thread 1 allocates (gets id 0), thread 2 allocates (gets id 1) and begins to give it back (pc FPL 1), thread 3 begins an alloc
   and takes the flag (pc FCU (Some 2): id 2 taken out of the free list, not yet answered); thread 2's attempt on the flag fails:
   0 is held, 1 and 2 are in transit, 3 is free *)
Definition fpex_evs : list pev :=
  [PStartAlloc 1; PStep 1; PStep 1;
   PStartAlloc 2; PStep 2; PStep 2;
   PStartDealloc 2 1;
   PStartAlloc 3; PStep 3;
   PStep 2]%nat.
Definition fpex_s : fpst := fpool_run 4 fpex_evs.

Example fpex_three_collections :
  finring (fring fpex_s) = [3] /\                                        (* free list *)
  fheld fpex_s 1%nat = [0] /\ fheld fpex_s 2%nat = [] /\ fheld fpex_s 3%nat = [] /\       (* held *)
  fthr (fring fpex_s) 2%nat = FPL 1 /\ ftransit fpex_s 2%nat = [1] /\    (* in transit: a dealloc that has not yet got the flag *)
  fthr (fring fpex_s) 3%nat = FCU (Some 2) /\ ftransit fpex_s 3%nat = [2] /\  (* in transit: an alloc that has not yet returned *)
  fthr (fring fpex_s) 1%nat = FIdle /\ ftransit fpex_s 1%nat = [] /\
  flock (fring fpex_s) = true /\ fhead (fring fpex_s) = 3 /\ ftail (fring fpex_s) = 4.
Proof. vm_compute. repeat split; reflexivity. Qed.

Example fpex_conserved :
  Permutation (ids_upto 4)
    (finring (fring fpex_s) ++ flat_map (fheld fpex_s) [1%nat; 2%nat; 3%nat] ++ flat_map (ftransit fpex_s) [1%nat; 2%nat; 3%nat]).
Proof.
  vm_compute.                                      (* Permutation [0; 1; 2; 3] [3; 0; 1; 2] *)
  apply (proj2 (Permutation_count_occ Z.eq_dec _ _)); intro z; cbn [count_occ]; repeat destruct (Z.eq_dec _ _); lia.
Qed.

(* the guard at work: thread 1 holds 0 only - its "dealloc 3" is not an event of the pool *)
Example fpex_guard :
  let s' := fpool_run 4 (fpex_evs ++ [PStartDealloc 1%nat 3]) in
  finring (fring s') = [3] /\ fheld s' 1%nat = [0] /\ fthr (fring s') 1%nat = FIdle /\ flog (fring s') = flog (fring fpex_s).
Proof. vm_compute. repeat split; reflexivity. Qed.

(* ... the alloc returns (thread 3 now holds 2), the dealloc gets the flag (1 is back in the free list before it returns), returns;
   then allocs by threads 1 and 3 take 3 and 1; thread 2's alloc stands at the decisive step with the flag free: every id is held,
   and it takes the "empty" branch (theorem 4, both sides of the equivalence true) *)
Example fpex_exhaustion :
  let s1 := fpool_run 4 (fpex_evs ++ [PStep 3; PStep 2; PStep 2]%nat) in
  let s2 := fpool_run 4 (fpex_evs ++ [PStep 3; PStep 2; PStep 2; PStartAlloc 1; PStep 1; PStep 1;
                                      PStartAlloc 3; PStep 3; PStep 3; PStartAlloc 2]%nat) in
  finring (fring s1) = [3; 1] /\ fheld s1 3%nat = [2] /\ fheld s1 2%nat = [] /\ fthr (fring s1) 2%nat = FIdle /\
  finring (fring s2) = [] /\ fheld s2 1%nat = [3; 0] /\ fheld s2 3%nat = [1; 2] /\ fheld s2 2%nat = [] /\
  fthr (fring s2) 2%nat = FCL /\ flock (fring s2) = false /\ fthr (fstepZ 4 (fring s2) 2%nat) 2%nat = FCU None.
Proof. vm_compute. repeat split; reflexivity. Qed.

Print Assumptions fpool_init_fields.
Print Assumptions fpool_slots_conserved.
Print Assumptions fpool_exclusive_ownership.
Print Assumptions fpool_dealloc_never_meets_full.
Print Assumptions fpool_exhaustion_exact.
Print Assumptions fpgrant_simulated.
Print Assumptions fprun_states_reachable.
Print Assumptions fprun_final_reachable.
Print Assumptions fprun_states_conserved_exclusive_never_full.
Print Assumptions fpex_conserved.
