(* The ownership invariant of the payload life-cycle machine (Lifecycle.v), for every history. *)
From Coq Require Import List Arith Bool Lia.
Import ListNotations.
From RM Require Import Lifecycle.

Definition cnt (id : nat) (l : list nat) : nat := count_occ Nat.eq_dec l id.
Definition owners (s : lst) (id : nat) : nat := cnt id (concat (queues s)) + cnt id (map snd (handles s)).
Definition is_sent (s : lst) (id : nat) : bool := existsb (Nat.eqb id) (sent s).

Record LI (s : lst) : Prop := {
  l_refs : forall id, refs s id = owners s id;
  l_drops : forall id, drops s id = if is_sent s id && (refs s id =? 0) then 1 else 0;
  l_sent : forall id, 0 < owners s id -> is_sent s id = true
}.

Lemma cnt_app x a b : cnt x (a ++ b) = cnt x a + cnt x b.
Proof. apply count_occ_app. Qed.
Lemma cnt_cons x a l : cnt x (a :: l) = (if Nat.eqb a x then 1 else 0) + cnt x l.
Proof. unfold cnt. cbn. destruct (Nat.eq_dec a x) as [->|H]; [rewrite Nat.eqb_refl; reflexivity|]. apply Nat.eqb_neq in H. now rewrite H. Qed.

Lemma concat_repeat_nil {A} k : concat (repeat (@nil A) k) = [].
Proof. induction k; cbn; auto. Qed.

Lemma cnt_snoc_all x id qs : cnt x (concat (map (fun q => q ++ [id]) qs)) = cnt x (concat qs) + (if Nat.eqb id x then length qs else 0).
Proof.
  induction qs as [|q qs IH]; cbn [map concat length]; [destruct (Nat.eqb id x); reflexivity|].
  rewrite !cnt_app, IH. change (q ++ [id]) with (q ++ id :: []). rewrite (cnt_cons x id []). change (cnt x []) with 0. destruct (Nat.eqb id x); lia.
Qed.

Lemma nth_error_split_list {A} (qs : list A) l q : nth_error qs l = Some q -> qs = firstn l qs ++ q :: skipn (S l) qs.
Proof.
  revert l. induction qs as [|a qs IH]; intros l H; destruct l; cbn in *; try discriminate.
  - now inversion H.
  - f_equal. now apply IH.
Qed.

Lemma cnt_pop x id rest qs l :
  nth_error qs l = Some (id :: rest) ->
  cnt x (concat (firstn l qs ++ [rest] ++ skipn (S l) qs)) + (if Nat.eqb id x then 1 else 0) = cnt x (concat qs).
Proof.
  intros H. rewrite (nth_error_split_list qs l _ H) at 3.
  rewrite !concat_app. cbn [concat app]. rewrite !cnt_app, cnt_cons, ?cnt_app. change (cnt x []) with 0. lia.
Qed.

Lemma hget_cons a b r h : hget ((a, b) :: r) h = if Nat.eqb a h then Some b else hget r h.
Proof. unfold hget. cbn [find fst]. destruct (Nat.eqb a h); reflexivity. Qed.
Lemma hdel_cons a b r h : hdel ((a, b) :: r) h = if Nat.eqb a h then r else (a, b) :: hdel r h.
Proof. reflexivity. Qed.
Lemma map_snd_cons (a b : nat) r : map snd ((a, b) :: r) = b :: map snd r.
Proof. reflexivity. Qed.

Lemma hget_some_cnt hs h id : hget hs h = Some id -> 0 < cnt id (map snd hs).
Proof.
  induction hs as [|[a b] r IH]; [discriminate|]. rewrite hget_cons, map_snd_cons, cnt_cons.
  destruct (Nat.eqb a h).
  - intros H. inversion H; subst. rewrite Nat.eqb_refl. lia.
  - intros H. specialize (IH H). lia.
Qed.

Lemma cnt_hdel x hs h id : hget hs h = Some id -> cnt x (map snd (hdel hs h)) + (if Nat.eqb id x then 1 else 0) = cnt x (map snd hs).
Proof.
  induction hs as [|[a b] r IH]; [discriminate|]. rewrite hget_cons, hdel_cons, map_snd_cons, cnt_cons.
  destruct (Nat.eqb a h).
  - intros H. inversion H; subst. lia.
  - intros H. rewrite map_snd_cons, cnt_cons. specialize (IH H). lia.
Qed.

Lemma li_init k : LI (linit k).
Proof.
  constructor; unfold owners, is_sent; cbn; intros id; rewrite ?concat_repeat_nil; cbn; auto. lia.
Qed.

(* one owner goes away: the counters after `release`, given the owner exists *)
Lemma release_spec r d id x :
  1 <= r id ->
  let '(r', d') := release r d id in
  r' x = (if Nat.eqb x id then r id - 1 else r x) /\
  d' x = (if Nat.eqb x id then (if Nat.eqb (r id - 1) 0 then d id + 1 else d id) else d x).
Proof.
  intros H. unfold release, updn. destruct (Nat.eqb x id) eqn:E.
  - apply Nat.eqb_eq in E. subst x. split; [reflexivity|]. destruct (Nat.eqb (r id - 1) 0); rewrite ?Nat.eqb_refl; reflexivity.
  - split; [reflexivity|]. destruct (Nat.eqb (r id - 1) 0); rewrite ?E; reflexivity.
Qed.

(* the drain of a teardown: every queued copy is released, one after the other *)
Lemma drain_spec (snt : nat -> bool) (b : nat -> nat) l : forall r d,
  (forall x, r x = cnt x l + b x) ->
  (forall x, d x = if snt x && (r x =? 0) then 1 else 0) ->
  (forall x, 0 < cnt x l + b x -> snt x = true) ->
  let '(r', d') := fold_left (fun rd id => release (fst rd) (snd rd) id) l (r, d) in
  (forall x, r' x = b x) /\ (forall x, d' x = if snt x && (r' x =? 0) then 1 else 0).
Proof.
  induction l as [|a l IH]; intros r d Hr Hd Hs; cbn [fold_left].
  - split; [intros x; rewrite Hr; cbn; reflexivity|exact Hd].
  - cbn [fst snd]. assert (H1 : 1 <= r a). { rewrite Hr, cnt_cons, Nat.eqb_refl. lia. }
    destruct (release r d a) as [r1 d1] eqn:E.
    assert (Spec : forall x, r1 x = (if Nat.eqb x a then r a - 1 else r x) /\
                             d1 x = (if Nat.eqb x a then (if Nat.eqb (r a - 1) 0 then d a + 1 else d a) else d x)).
    { intros x. pose proof (release_spec r d a x H1) as S. rewrite E in S. exact S. }
    apply IH.
    + intros x. destruct (Spec x) as [-> _]. destruct (Nat.eqb x a) eqn:Ex.
      * apply Nat.eqb_eq in Ex. subst x. pose proof (Hr a) as Ha. rewrite cnt_cons, Nat.eqb_refl in Ha. lia.
      * pose proof (Hr x) as Hx. rewrite cnt_cons in Hx. rewrite Nat.eqb_sym, Ex in Hx. lia.
    + intros x. destruct (Spec x) as [Hrx ->]. rewrite Hrx. destruct (Nat.eqb x a) eqn:Ex; [|apply Hd].
      apply Nat.eqb_eq in Ex. subst x.
      assert (Sa : snt a = true). { apply Hs. rewrite cnt_cons, Nat.eqb_refl. lia. }
      rewrite (Hd a), Sa. cbn [andb]. destruct (Nat.eqb_spec (r a) 0) as [H0|H0]; [lia|].
      destruct (Nat.eqb (r a - 1) 0); reflexivity.
    + intros x Hx. apply Hs. rewrite cnt_cons. lia.
Qed.

Section Steps.
Variables drains clones : bool.

Lemma li_step s o : LI s -> LI (lstep drains clones s o).
Proof.
  intros [Hr Hd Hs]. destruct o as [id|l h|h h2|h|]; cbn [lstep].
  - (* send *)
    destruct (torn s || existsb (Nat.eqb id) (sent s)) eqn:G; [constructor; assumption|].
    apply orb_false_iff in G. destruct G as [_ Gs].
    assert (Fresh : owners s id = 0). { destruct (owners s id) eqn:E; [reflexivity|]. assert (H : is_sent s id = true) by (apply Hs; lia). unfold is_sent in H. congruence. }
    assert (Sent' : forall x, existsb (Nat.eqb x) (id :: sent s) = Nat.eqb x id || is_sent s x) by (intros x; reflexivity).
    constructor; unfold owners, is_sent; cbn [queues handles refs drops sent].
    + intros x. rewrite cnt_snoc_all. unfold updn. destruct (Nat.eqb_spec x id) as [->|Hne].
      * rewrite Nat.eqb_refl. unfold owners in Fresh. lia.
      * destruct (Nat.eqb_spec id x); [congruence|]. rewrite Hr. unfold owners. lia.
    + intros x. rewrite Sent'. unfold updn. destruct (Nat.eqb_spec x id) as [->|Hne]; cbn [orb].
      * assert (D0 : drops s id = 0). { rewrite Hd. unfold is_sent. rewrite Gs. reflexivity. }
        destruct (Nat.eqb_spec (length (queues s)) 0) as [K|K]; [rewrite Nat.eqb_refl|]; rewrite D0; reflexivity.
      * destruct (Nat.eqb (length (queues s)) 0); [destruct (Nat.eqb_spec x id); [contradiction|]|]; apply Hd.
    + intros x. rewrite cnt_snoc_all, Sent'. destruct (Nat.eqb_spec x id) as [->|Hne]; [reflexivity|]. cbn [orb].
      destruct (Nat.eqb_spec id x); [congruence|]. intros H. apply Hs. unfold owners. lia.
  - (* receive *)
    destruct (nth_error (queues s) l) as [[|id rest]|] eqn:En; try (constructor; assumption).
    destruct (hget (handles s) h) eqn:Eh; [constructor; assumption|].
    destruct (torn s); [constructor; assumption|].
    assert (C := fun x => cnt_pop x id rest (queues s) l En).
    constructor; unfold owners, is_sent; cbn [queues handles refs drops sent map snd].
    + intros x. rewrite Hr. unfold owners. rewrite cnt_cons. specialize (C x). lia.
    + exact Hd.
    + intros x. rewrite cnt_cons. intros H. apply Hs. unfold owners. specialize (C x). lia.
  - (* clone *)
    destruct (hget (handles s) h) as [id|] eqn:Eh; [|constructor; assumption].
    destruct (hget (handles s) h2) eqn:Eh2; [constructor; assumption|].
    destruct clones; [|constructor; assumption].
    pose proof (hget_some_cnt _ _ _ Eh) as Own.
    constructor; unfold owners, is_sent; cbn [queues handles refs drops sent map snd].
    + intros x. unfold updn. rewrite cnt_cons. destruct (Nat.eqb_spec x id) as [->|Hne].
      * rewrite Nat.eqb_refl, Hr. unfold owners. lia.
      * destruct (Nat.eqb_spec id x); [congruence|]. rewrite Hr. unfold owners. lia.
    + intros x. unfold updn. destruct (Nat.eqb_spec x id) as [->|Hne]; [|apply Hd].
      rewrite Hd. assert (R1 : 1 <= refs s id) by (rewrite Hr; unfold owners; lia).
      destruct (Nat.eqb_spec (refs s id) 0); [lia|]. destruct (Nat.eqb_spec (refs s id + 1) 0); [lia|]. reflexivity.
    + intros x. rewrite cnt_cons. intros H. destruct (Nat.eqb id x) eqn:Ex; [apply Nat.eqb_eq in Ex; subst x|]; apply Hs; unfold owners; lia.
  - (* drop of a handle *)
    destruct (hget (handles s) h) as [id|] eqn:Eh; [|constructor; assumption].
    pose proof (hget_some_cnt _ _ _ Eh) as Own.
    assert (R1 : 1 <= refs s id) by (rewrite Hr; unfold owners; lia).
    destruct (release (refs s) (drops s) id) as [r d] eqn:E.
    assert (Spec : forall x, r x = (if Nat.eqb x id then refs s id - 1 else refs s x) /\
                             d x = (if Nat.eqb x id then (if Nat.eqb (refs s id - 1) 0 then drops s id + 1 else drops s id) else drops s x)).
    { intros x. pose proof (release_spec (refs s) (drops s) id x R1) as S. rewrite E in S. exact S. }
    assert (C := fun x => cnt_hdel x (handles s) h id Eh).
    constructor; unfold owners, is_sent; cbn [queues handles refs drops sent].
    + intros x. destruct (Spec x) as [-> _]. specialize (C x). destruct (Nat.eqb x id) eqn:Ex.
      * apply Nat.eqb_eq in Ex. subst x. rewrite Nat.eqb_refl in C. rewrite Hr. unfold owners. lia.
      * rewrite Nat.eqb_sym, Ex in C. rewrite Hr. unfold owners. lia.
    + intros x. destruct (Spec x) as [Hrx ->]. rewrite Hrx. destruct (Nat.eqb x id) eqn:Ex; [|apply Hd].
      apply Nat.eqb_eq in Ex. subst x.
      assert (Sa : is_sent s id = true) by (apply Hs; unfold owners; lia). unfold is_sent in Sa. rewrite Sa. cbn [andb].
      rewrite (Hd id). unfold is_sent. rewrite Sa. cbn [andb]. destruct (Nat.eqb_spec (refs s id) 0); [lia|]. destruct (Nat.eqb (refs s id - 1) 0); reflexivity.
    + intros x H. apply Hs. unfold owners. specialize (C x). lia.
  - (* teardown *)
    destruct (torn s); [constructor; assumption|]. destruct drains.
    + pose proof (drain_spec (is_sent s) (fun x => cnt x (map snd (handles s))) (concat (queues s)) (refs s) (drops s)) as D.
      destruct (fold_left (fun rd id => release (fst rd) (snd rd) id) (concat (queues s)) (refs s, drops s)) as [r d].
      destruct D as [D1 D2]; [intros x; rewrite Hr; reflexivity|exact Hd|intros x H; apply Hs; exact H|].
      assert (Z : forall x, cnt x (concat (map (fun _ : list nat => @nil nat) (queues s))) = 0).
      { intros x. induction (queues s); cbn; auto. }
      constructor; unfold owners, is_sent; cbn [queues handles refs drops sent].
      * intros x. rewrite Z, D1. reflexivity.
      * exact D2.
      * intros x. rewrite Z. intros H. apply Hs. unfold owners. lia.
    + constructor; assumption.
Qed.
End Steps.

Theorem li_reachable drains clones k ops : LI (fold_left (lstep drains clones) ops (linit k)).
Proof.
  assert (G : forall s, LI s -> LI (fold_left (lstep drains clones) ops s)).
  { induction ops as [|o r IH]; intros s H; [exact H|]. cbn [fold_left]. apply IH. now apply li_step. }
  apply G, li_init.
Qed.

(* the property's clauses, for every history of send / receive / clone / drop / teardown, every number of listeners and both
   teardown disciplines *)
Theorem destroyed_at_most_once drains clones k ops id : drops (fold_left (lstep drains clones) ops (linit k)) id <= 1.
Proof. rewrite (l_drops _ (li_reachable drains clones k ops)). destruct (_ && _); lia. Qed.

Theorem not_destroyed_while_owned drains clones k ops id :
  let s := fold_left (lstep drains clones) ops (linit k) in 0 < owners s id -> drops s id = 0.
Proof.
  cbn zeta. intros H. pose proof (li_reachable drains clones k ops) as I. rewrite (l_drops _ I), (l_refs _ I).
  destruct (Nat.eqb_spec (owners (fold_left (lstep drains clones) ops (linit k)) id) 0); [lia|]. now rewrite andb_false_r.
Qed.

Theorem destroyed_as_soon_as_released drains clones k ops id :
  let s := fold_left (lstep drains clones) ops (linit k) in is_sent s id = true -> owners s id = 0 -> drops s id = 1.
Proof.
  cbn zeta. intros Hs H. pose proof (li_reachable drains clones k ops) as I. rewrite (l_drops _ I), (l_refs _ I), Hs, H. reflexivity.
Qed.
