(* Executable model of the atomic-flag stack (/repo/src/ogre_std/ogre_stacks/non_blocking_atomic_stack.rs):
   `flag.swap(true)` spin, a critical section over the plain `head` / `buffer`, `flag.store(false)`.
   One step per flag access; the critical section belongs to the successful swap.  The parking-lot stack has the same
   critical sections under a library mutex (modelled as the same atomic lock).

   Theorems: mutual exclusion; forward simulation to a bounded LIFO list (linearisation point = the successful swap), with
   exact full / empty answers; every response is the answer computed at that operation's linearisation point. *)
From RM Require Import Util.

Inductive sop := SPush (v : Z) | SPop | SLen.
Inductive sres := SPushed (v : Z) | SFull (v : Z) | SPopped (v : Z) | SEmpty | SLenIs (n : Z).
Inductive spc := SIdle | SPL (v : Z) | SPU (r : sres) | SQL | SQU (r : sres) | SLN.

Record sst := {
  shead : Z; sbuf : Z -> Z; sflag : bool; sthr : nat -> spc;
  slog : list (nat * sres);
  (* ghost: the answers in linearisation order *)
  slin : list sres
}.

Section Stack.
Variable N : Z.

Definition sstep (s : sst) (t : nat) : sst :=
  match sthr s t with
  | SIdle => s
  | SPL v =>
      if sflag s then s else
      if N <=? shead s then
        {| shead := shead s; sbuf := sbuf s; sflag := true; sthr := upd (sthr s) t (SPU (SFull v)); slog := slog s; slin := slin s ++ [SFull v] |}
      else
        {| shead := shead s + 1; sbuf := updz (sbuf s) (shead s) v; sflag := true; sthr := upd (sthr s) t (SPU (SPushed v));
           slog := slog s; slin := slin s ++ [SPushed v] |}
  | SQL =>
      if sflag s then s else
      if shead s =? 0 then
        {| shead := shead s; sbuf := sbuf s; sflag := true; sthr := upd (sthr s) t (SQU SEmpty); slog := slog s; slin := slin s ++ [SEmpty] |}
      else
        {| shead := shead s - 1; sbuf := sbuf s; sflag := true; sthr := upd (sthr s) t (SQU (SPopped (sbuf s (shead s - 1))));
           slog := slog s; slin := slin s ++ [SPopped (sbuf s (shead s - 1))] |}
  | SPU r | SQU r =>
      {| shead := shead s; sbuf := sbuf s; sflag := false; sthr := upd (sthr s) t SIdle; slog := slog s ++ [(t, r)]; slin := slin s |}
  | SLN =>
      {| shead := shead s; sbuf := sbuf s; sflag := sflag s; sthr := upd (sthr s) t SIdle; slog := slog s ++ [(t, SLenIs (shead s))]; slin := slin s |}
  end.

Definition sstart (s : sst) (t : nat) (o : sop) : sst :=
  match sthr s t with
  | SIdle => {| shead := shead s; sbuf := sbuf s; sflag := sflag s;
                sthr := upd (sthr s) t (match o with SPush v => SPL v | SPop => SQL | SLen => SLN end); slog := slog s; slin := slin s |}
  | _ => s
  end.

Inductive sev := SStep (t : nat) | SStart (t : nat) (o : sop).
Definition sexec (s : sst) (e : sev) : sst := match e with SStep t => sstep s t | SStart t o => sstart s t o end.

Definition sobs (s : sst) (t : nat) : list Z :=
  match sthr s t with
  | SIdle => skip t
  | SPL _ | SQL => acc t 0 K_SWAP (if sflag s then 1 else 0) 1 true
  | SPU _ | SQU _ => acc t 0 K_STORE 0 0 true
  | SLN => acc t 0 K_YIELD 0 (-1) true
  end.
End Stack.

Definition sinit : sst := {| shead := 0; sbuf := fun _ => 0; sflag := false; sthr := fun _ => SIdle; slog := []; slin := [] |}.

(* ------------------------------------------------------------------------------------ the sequential specification *)
Definition lifo_apply (N : Z) (l : list Z) (o : sop) : list Z * sres :=
  match o with
  | SPush v => if N <=? Z.of_nat (length l) then (l, SFull v) else (v :: l, SPushed v)
  | SPop => match l with [] => ([], SEmpty) | v :: r => (r, SPopped v) end
  | SLen => (l, SLenIs (Z.of_nat (length l)))
  end.

(* abstraction: the buffer below head, top first *)
Fixpoint below (b : Z -> Z) (n : nat) : list Z := match n with O => [] | S k => b (Z.of_nat k) :: below b k end.
Definition sabs (s : sst) : list Z := below (sbuf s) (Z.to_nat (shead s)).

Section StackInv.
Variable N : Z.
Hypothesis Npos : 0 < N.

Definition sholds (p : spc) : bool := match p with SPU _ | SQU _ => true | _ => false end.
(* the responses of push / pop operations, in return order (length queries are plain racy reads of `head`) *)
Definition is_len (r : sres) : bool := match r with SLenIs _ => true | _ => false end.
Definition resp (s : sst) : list sres := filter (fun r => negb (is_len r)) (map snd (slog s)).
Definition not_len_pc (p : spc) : Prop := match p with SPU r | SQU r => is_len r = false | _ => True end.

Record SInv (s : sst) : Prop := {
  s_range : 0 <= shead s <= N;
  s_mutex : forall t u, sholds (sthr s t) = true -> sholds (sthr s u) = true -> t = u;
  s_flag  : forall t, sholds (sthr s t) = true -> sflag s = true;
  s_free  : sflag s = true -> exists t, sholds (sthr s t) = true;
  (* responses lag the linearisation order by exactly the current holder's answer *)
  s_sync  : sflag s = false -> resp s = slin s;
  s_lag   : forall t r, (sthr s t = SPU r \/ sthr s t = SQU r) -> slin s = resp s ++ [r] /\ is_len r = false
}.

Lemma resp_snoc s l t r : slog s = l ++ [(t, r)] -> resp s = filter (fun r => negb (is_len r)) (map snd l) ++ (if is_len r then [] else [r]).
Proof. intros H. unfold resp. rewrite H, map_app, filter_app. cbn. destruct (is_len r); reflexivity. Qed.

Lemma below_updz b n v : below (updz b (Z.of_nat n) v) n = below b n.
Proof.
  induction n as [|k IH]; [reflexivity|]. cbn [below]. rewrite updz_other by lia. f_equal.
  replace (below (updz b (Z.of_nat (S k)) v) k) with (below b k); [reflexivity|].
  clear IH. induction k as [|j IHj] in |- *; [reflexivity|]. cbn [below]. rewrite updz_other by lia. f_equal.
  assert (forall m, (m <= j)%nat -> below (updz b (Z.of_nat (S (S j))) v) m = below b m).
  { induction m as [|m IHm]; intros Hm; [reflexivity|]. cbn [below]. rewrite updz_other by lia. f_equal. apply IHm. lia. }
  symmetry. apply H. lia.
Qed.

(* the successful swap of a push / pop transforms the abstract stack exactly as the LIFO specification says and computes
   the specification's answer *)
Lemma push_lp s t v : SInv s -> sthr s t = SPL v -> sflag s = false ->
  let s' := sstep N s t in
  (sabs s', last (slin s') SEmpty) = lifo_apply N (sabs s) (SPush v) /\ slin s' = slin s ++ [snd (lifo_apply N (sabs s) (SPush v))].
Proof.
  intros I E Ef. cbn zeta. unfold sstep. rewrite E, Ef. pose proof (s_range _ I) as Hr.
  unfold lifo_apply, sabs.
  assert (Hlen : forall b n, length (below b n) = n) by (intros b n; induction n; cbn; auto).
  rewrite Hlen, Z2Nat.id by lia.
  destruct (N <=? shead s) eqn:Efull; cbn [shead sbuf slin]; rewrite last_last; [split; reflexivity|].
  split; [|reflexivity]. f_equal.
  replace (Z.to_nat (shead s + 1)) with (S (Z.to_nat (shead s))) by lia. cbn [below].
  rewrite Z2Nat.id by lia. rewrite updz_same. f_equal.
  rewrite <- (Z2Nat.id (shead s)) at 1 by lia. apply below_updz.
Qed.

Lemma pop_lp s t : SInv s -> sthr s t = SQL -> sflag s = false ->
  let s' := sstep N s t in
  (sabs s', last (slin s') SEmpty) = lifo_apply N (sabs s) SPop /\ slin s' = slin s ++ [snd (lifo_apply N (sabs s) SPop)].
Proof.
  intros I E Ef. cbn zeta. unfold sstep. rewrite E, Ef. pose proof (s_range _ I) as Hr.
  unfold lifo_apply, sabs.
  destruct (Z.eqb_spec (shead s) 0) as [Hz|Hnz]; cbn [shead sbuf slin]; rewrite last_last.
  - rewrite Hz. cbn. split; reflexivity.
  - replace (Z.to_nat (shead s)) with (S (Z.to_nat (shead s - 1))) by lia. cbn [below].
    rewrite Z2Nat.id by lia. split; reflexivity.
Qed.

Lemma sinv_init : SInv sinit.
Proof. constructor; cbn; try lia; auto; try discriminate. intros t r [H|H]; discriminate. Qed.

Ltac ss := cbn [shead sbuf sflag sthr slog slin] in *.

Lemma sinv_start s t o : SInv s -> SInv (sstart s t o).
Proof.
  intros I. unfold sstart. destruct (sthr s t) eqn:E; auto. destruct I as [Hr Hm Hf Hfr Hs Hl].
  constructor; ss; auto.
  - intros u w. upd_cases t u; upd_cases t w; auto; destruct o; cbn; try discriminate.
  - intros u. upd_cases t u; eauto. destruct o; discriminate.
  - intros H. destruct (Hfr H) as [u Hu]. exists u. upd_cases t u; auto. rewrite E in Hu. discriminate.
  - intros u r. upd_cases t u; [destruct o; intros [H|H]; discriminate|apply Hl].
Qed.

Lemma sinv_step s t : SInv s -> SInv (sstep N s t).
Proof.
  intros I. pose proof I as I0. destruct I as [Hr Hm Hf Hfr Hs Hl]. unfold sstep.
  destruct (sthr s t) eqn:E; [exact I0| | | | |].
  - (* SPL *)
    destruct (sflag s) eqn:Ef; [exact I0|].
    assert (Hnone : forall u, sholds (sthr s u) = false).
    { intros u. destruct (sholds (sthr s u)) eqn:Eh; auto. specialize (Hf u Eh). congruence. }
    assert (Hnl : forall u r, u <> t -> ~ (sthr s u = SPU r \/ sthr s u = SQU r)).
    { intros u r _ [H|H]; specialize (Hnone u); rewrite H in Hnone; discriminate. }
    specialize (Hs eq_refl).
    destruct (N <=? shead s) eqn:Efull; constructor; ss; auto; try lia; try discriminate.
    + intros u w. upd_cases t u; upd_cases t w; auto; cbn; intros; try congruence;
        match goal with H : sholds (sthr s ?x) = true |- _ => rewrite Hnone in H; discriminate end.
    + exists t. now rewrite upd_same.
    + intros u r. upd_cases t u; [intros [H|H]; inversion H; subst; (split; [unfold resp in *; ss; now rewrite Hs|reflexivity])|intros H; exfalso; eapply Hnl; eauto].
    + intros u w. upd_cases t u; upd_cases t w; auto; cbn; intros; try congruence;
        match goal with H : sholds (sthr s ?x) = true |- _ => rewrite Hnone in H; discriminate end.
    + exists t. now rewrite upd_same.
    + intros u r. upd_cases t u; [intros [H|H]; inversion H; subst; (split; [unfold resp in *; ss; now rewrite Hs|reflexivity])|intros H; exfalso; eapply Hnl; eauto].
  - (* SPU *)
    assert (Ht : sholds (sthr s t) = true) by (rewrite E; reflexivity).
    constructor; ss; auto.
    + intros u w. upd_cases t u; upd_cases t w; auto; cbn; try discriminate.
    + intros u. upd_cases t u; cbn; [discriminate|]. intros Hu. exfalso. apply n. apply Hm; assumption.
    + discriminate.
    + intros _. destruct (Hl t r (or_introl E)) as [Hlin Hnl]. unfold resp in *. ss. rewrite map_app, filter_app. cbn. rewrite Hnl. cbn. now symmetry.
    + intros u r0. upd_cases t u; [intros [H|H]; discriminate|]. intros H. exfalso. apply n. apply Hm; [|assumption].
      destruct H as [H|H]; rewrite H; reflexivity.
  - (* SQL *)
    destruct (sflag s) eqn:Ef; [exact I0|].
    assert (Hnone : forall u, sholds (sthr s u) = false).
    { intros u. destruct (sholds (sthr s u)) eqn:Eh; auto. specialize (Hf u Eh). congruence. }
    assert (Hnl : forall u r, u <> t -> ~ (sthr s u = SPU r \/ sthr s u = SQU r)).
    { intros u r _ [H|H]; specialize (Hnone u); rewrite H in Hnone; discriminate. }
    specialize (Hs eq_refl).
    destruct (Z.eqb_spec (shead s) 0); constructor; ss; auto; try lia; try discriminate.
    + intros u w. upd_cases t u; upd_cases t w; auto; cbn; intros; try congruence;
        match goal with H : sholds (sthr s ?x) = true |- _ => rewrite Hnone in H; discriminate end.
    + exists t. now rewrite upd_same.
    + intros u r. upd_cases t u; [intros [H|H]; inversion H; subst; (split; [unfold resp in *; ss; now rewrite Hs|reflexivity])|intros H; exfalso; eapply Hnl; eauto].
    + intros u w. upd_cases t u; upd_cases t w; auto; cbn; intros; try congruence;
        match goal with H : sholds (sthr s ?x) = true |- _ => rewrite Hnone in H; discriminate end.
    + exists t. now rewrite upd_same.
    + intros u r. upd_cases t u; [intros [H|H]; inversion H; subst; (split; [unfold resp in *; ss; now rewrite Hs|reflexivity])|intros H; exfalso; eapply Hnl; eauto].
  - (* SQU *)
    assert (Ht : sholds (sthr s t) = true) by (rewrite E; reflexivity).
    constructor; ss; auto.
    + intros u w. upd_cases t u; upd_cases t w; auto; cbn; try discriminate.
    + intros u. upd_cases t u; cbn; [discriminate|]. intros Hu. exfalso. apply n. apply Hm; assumption.
    + discriminate.
    + intros _. destruct (Hl t r (or_intror E)) as [Hlin Hnl]. unfold resp in *. ss. rewrite map_app, filter_app. cbn. rewrite Hnl. cbn. now symmetry.
    + intros u r0. upd_cases t u; [intros [H|H]; discriminate|]. intros H. exfalso. apply n. apply Hm; [|assumption].
      destruct H as [H|H]; rewrite H; reflexivity.
  - (* SLN: a racy, lock-free look at head *)
    constructor; ss; auto.
    + intros u w. upd_cases t u; upd_cases t w; auto; cbn; try discriminate.
    + intros u. upd_cases t u; cbn; [discriminate|]. apply Hf.
    + intros H. destruct (Hfr H) as [u Hu]. exists u. upd_cases t u; auto. rewrite E in Hu. discriminate.
    + intros H. unfold resp in *. ss. rewrite map_app, filter_app. cbn. rewrite app_nil_r. now apply Hs.
    + intros u r. upd_cases t u; [intros [H|H]; discriminate|]. intros H. destruct (Hl u r H) as [H1 H2]. split; [|assumption].
      unfold resp in *. ss. rewrite map_app, filter_app. cbn. now rewrite app_nil_r.
Qed.

Theorem sinv_reachable evs : SInv (fold_left (sexec N) evs sinit).
Proof.
  apply fold_inv; [|apply sinv_init]. intros s e I. destruct e; cbn; [apply sinv_step|apply sinv_start]; assumption.
Qed.

(* every push / pop response is the answer the specification gave at that operation's linearisation point: the responses,
   in return order, are a prefix of the linearisation-order answers *)
Theorem responses_are_lp_answers evs :
  let s := fold_left (sexec N) evs sinit in exists x, slin s = resp s ++ x.
Proof.
  cbn zeta. pose proof (sinv_reachable evs) as I. set (s := fold_left (sexec N) evs sinit) in *.
  destruct (sflag s) eqn:Ef.
  - destruct (s_free _ I Ef) as [t Ht]. destruct (sthr s t) eqn:E; cbn in Ht; try discriminate.
    + exists [r]. apply (s_lag _ I t r). now left.
    + exists [r]. apply (s_lag _ I t r). now right.
  - exists []. rewrite app_nil_r. symmetry. apply (s_sync _ I Ef).
Qed.

Theorem stack_mutual_exclusion evs t u :
  let s := fold_left (sexec N) evs sinit in sholds (sthr s t) = true -> sholds (sthr s u) = true -> t = u.
Proof. cbn zeta. apply (s_mutex _ (sinv_reachable evs)). Qed.

End StackInv.

(* ---------------------------------------------------------------------------------------------------- runner *)
Definition sres_code (r : sres) : list Z :=
  match r with SPushed v => [20; v; 0] | SFull v => [21; v; 0] | SPopped v => [22; v; 0] | SEmpty => [23; 0; 0] | SLenIs n => [24; n; 0] end.
Definition semit (before after : list (nat * sres)) : list (list Z) :=
  map (fun e => 2 :: Z.of_nat (fst e) :: sres_code (snd e)) (skipn (length before) after).
Definition sgrant (N : Z) (s : sst) (progs : nat -> list sop) (t : nat) : sst * (nat -> list sop) * list (list Z) :=
  match sthr s t with
  | SIdle =>
      match progs t with
      | [] => (s, progs, [skip t])
      | o :: rest => let s1 := sstart s t o in let s2 := sstep N s1 t in (s2, upd progs t rest, sobs s1 t :: semit (slog s1) (slog s2))
      end
  | _ => let s2 := sstep N s t in (s2, progs, sobs s t :: semit (slog s) (slog s2))
  end.
Fixpoint srun (N : Z) (s : sst) (progs : nat -> list sop) (sched : list nat) : sst * list (list Z) :=
  match sched with
  | [] => (s, [])
  | t :: rest => let '(s1, progs1, lines) := sgrant N s progs t in let '(s2, more) := srun N s1 progs1 rest in (s2, lines ++ more)
  end.
Definition run_stack (N : Z) (progs : list (list sop)) (sched : list nat) : list Z :=
  let '(s, lines) := srun N sinit (fun t => nth t progs []) sched in
  concat lines ++ [9; shead s; if sflag s then 1 else 0].
