(* Executable model of `AtomicIncrementalAverage64` (/repo/src/incremental_averages.rs): a (counter : u32, average : f32) pair
   packed in one AtomicU64, updated by a load + compare-exchange loop, read by one load.
   The float arithmetic is Coq's own IEEE-754 specification `Floats.SpecFloat` at binary32 (prec 24, emax 128) with bit-level
   conversions, so that the executable model is bit-exact with the Rust code; the concurrency theorems are generic in the
   update function. *)
From RM Require Import Util.
From Coq Require Import Floats.SpecFloat QArith.
Open Scope Z_scope.

(* ------------------------------------------------------------------------------------------------ binary32 *)
Definition prec32 := 24. Definition emax32 := 128.
Definition of_bits32 (b : Z) : spec_float :=
  let s := 2147483648 <=? b in
  let e := (b / 8388608) mod 256 in
  let m := b mod 8388608 in
  if e =? 0 then (if m =? 0 then S754_zero s else match m with Zpos p => S754_finite s p (-149) | _ => S754_zero s end)
  else if e =? 255 then (if m =? 0 then S754_infinity s else S754_nan)
  else match m + 8388608 with Zpos p => S754_finite s p (e - 150) | _ => S754_zero s end.
Definition to_bits32 (f : spec_float) : Z :=
  match f with
  | S754_zero s => if s then 2147483648 else 0
  | S754_infinity s => (if s then 2147483648 else 0) + 2139095040
  | S754_nan => 2143289344
  | S754_finite s m e =>
      (if s then 2147483648 else 0) +
      (if Zpos m <? 8388608 then Zpos m else (e + 150) * 8388608 + (Zpos m - 8388608))
  end.
Definition f32_of_u32 (c : Z) : spec_float := binary_normalize prec32 emax32 c 0 false.
Definition f32_one : spec_float := f32_of_u32 1.

(* ((counter as f32 / (1.0 + counter as f32)) * average) + (measurement / (1.0 + counter as f32)) *)
Definition upd32 (c abits mbits : Z) : Z :=
  let cf := f32_of_u32 c in
  let d := SFadd prec32 emax32 f32_one cf in
  to_bits32 (SFadd prec32 emax32 (SFmul prec32 emax32 (SFdiv prec32 emax32 cf d) (of_bits32 abits))
                                 (SFdiv prec32 emax32 (of_bits32 mbits) d)).

(* ------------------------------------------------------------------------------------------------ the machine *)
Inductive aop := AInc (m : Z) | AProbe.
Inductive ares := AIncDone (m : Z) | AProbed (c a : Z).
Inductive apc := AIdle | ALoad (m : Z) | ACas (m cur_c cur_a : Z) | APr.

Record ast := { acnt : Z; aavg : Z; athr : nat -> apc; alog : list (nat * ares);
                applied : list Z   (* ghost: the measurements in the order of their successful compare-exchange *) }.

Section Avg.
Variable updf : Z -> Z -> Z -> Z.            (* counter -> average -> measurement -> new average *)

Definition U32MAX := 4294967295.
Definition stepf (ca : Z * Z) (m : Z) : Z * Z :=
  let c := if fst ca =? U32MAX then 100 else fst ca in (c + 1, updf c (snd ca) m).

Definition astep (s : ast) (t : nat) : ast :=
  match athr s t with
  | AIdle => s
  | ALoad m => {| acnt := acnt s; aavg := aavg s; athr := upd (athr s) t (ACas m (acnt s) (aavg s)); alog := alog s; applied := applied s |}
  | ACas m c a =>
      if (acnt s =? c) && (aavg s =? a) then
        let ca := stepf (c, a) m in
        {| acnt := fst ca; aavg := snd ca; athr := upd (athr s) t AIdle; alog := alog s ++ [(t, AIncDone m)]; applied := applied s ++ [m] |}
      else {| acnt := acnt s; aavg := aavg s; athr := upd (athr s) t (ACas m (acnt s) (aavg s)); alog := alog s; applied := applied s |}
  | APr => {| acnt := acnt s; aavg := aavg s; athr := upd (athr s) t AIdle; alog := alog s ++ [(t, AProbed (acnt s) (aavg s))]; applied := applied s |}
  end.
Definition astart (s : ast) (t : nat) (o : aop) : ast :=
  match athr s t with
  | AIdle => {| acnt := acnt s; aavg := aavg s; athr := upd (athr s) t (match o with AInc m => ALoad m | AProbe => APr end);
                alog := alog s; applied := applied s |}
  | _ => s
  end.
Inductive aev := AStep (t : nat) | AStart (t : nat) (o : aop).
Definition aexec (s : ast) (e : aev) : ast := match e with AStep t => astep s t | AStart t o => astart s t o end.

Definition joined (c a : Z) : Z := c + a * 4294967296.
Definition aobs (s : ast) (t : nat) : list Z :=
  match athr s t with
  | AIdle => skip t
  | ALoad _ | APr => acc t 0 K_LOAD (joined (acnt s) (aavg s)) (-1) true
  | ACas m c a => if (acnt s =? c) && (aavg s =? a) then acc t 0 K_CAS (joined c a) (joined (fst (stepf (c, a) m)) (snd (stepf (c, a) m))) true
                  else acc t 0 K_CAS (joined (acnt s) (aavg s)) (-1) false
  end.

Definition ainit : ast := {| acnt := 0; aavg := 0; athr := fun _ => AIdle; alog := []; applied := [] |}.

(* ---- invariant: the packed pair is always the fold of the applied measurements: no update is lost, no pair is mixed ---- *)
Definition incs (l : list (nat * ares)) : list Z := flat_map (fun e => match snd e with AIncDone m => [m] | _ => [] end) l.

Record AInv (s : ast) : Prop := {
  a_pair : (acnt s, aavg s) = fold_left stepf (applied s) (0, 0);
  a_log  : incs (alog s) = applied s
}.

Lemma ainv_init : AInv ainit. Proof. constructor; reflexivity. Qed.
Lemma incs_snoc l t r : incs (l ++ [(t, r)]) = incs l ++ match r with AIncDone m => [m] | _ => [] end.
Proof. unfold incs. rewrite flat_map_app. cbn. now rewrite app_nil_r. Qed.

Lemma ainv_exec s e : AInv s -> AInv (aexec s e).
Proof.
  intros [Hp Hl]. destruct e as [t|t o]; cbn.
  - unfold astep. destruct (athr s t) eqn:E; try (constructor; assumption).
    + destruct ((acnt s =? cur_c) && (aavg s =? cur_a)) eqn:Ec; constructor; cbn; auto.
      * apply andb_true_iff in Ec. destruct Ec as [E1 E2]. apply Z.eqb_eq in E1, E2. subst.
        rewrite fold_left_app. cbn [fold_left]. rewrite <- Hp. reflexivity.
      * rewrite incs_snoc. cbn. now rewrite Hl.
    + constructor; cbn; auto. rewrite incs_snoc. cbn. now rewrite app_nil_r.
  - unfold astart. destruct (athr s t); constructor; assumption.
Qed.

Theorem ainv_reachable evs : AInv (fold_left aexec evs ainit).
Proof. apply fold_inv; [apply ainv_exec|apply ainv_init]. Qed.

(* every probe returns a pair that is the fold of a prefix-in-CAS-order of the measurements: count and average belong together *)
Theorem probe_consistent evs t c a :
  In (t, AProbed c a) (alog (fold_left aexec evs ainit)) -> exists l, (c, a) = fold_left stepf l (0, 0).
Proof.
  assert (G : forall s, AInv s -> (forall t c a, In (t, AProbed c a) (alog s) -> exists l, (c, a) = fold_left stepf l (0, 0)) ->
              forall t c a, In (t, AProbed c a) (alog (fold_left aexec evs s)) -> exists l, (c, a) = fold_left stepf l (0, 0)).
  { induction evs as [|e evs IH]; intros s I H; [exact H|]. cbn [fold_left]. apply IH; [now apply ainv_exec|].
    intros t0 c0 a0 Hin. destruct e as [u|u o]; cbn in Hin.
    - unfold astep in Hin. destruct (athr s u) eqn:E; try (now apply (H t0 c0 a0)).
      + destruct ((acnt s =? cur_c) && (aavg s =? cur_a)); cbn in Hin; [|now apply (H t0 c0 a0)].
        apply in_app_or in Hin. destruct Hin as [Hin|[Hin|[]]]; [now apply (H t0 c0 a0)|discriminate].
      + cbn in Hin. apply in_app_or in Hin. destruct Hin as [Hin|[Hin|[]]]; [now apply (H t0 c0 a0)|].
        injection Hin as _ <- <-. exists (applied s). apply (a_pair _ I).
    - unfold astart in Hin. destruct (athr s u); now apply (H t0 c0 a0). }
  apply G; [apply ainv_init|]. intros ? ? ? [].
Qed.

(* below the documented reset the counter is exactly the number of recorded measurements *)
Lemma count_is_length l : Z.of_nat (length l) < U32MAX -> fst (fold_left stepf l (0, 0)) = Z.of_nat (length l).
Proof.
  induction l as [|m l IH] using rev_ind; [reflexivity|]. rewrite app_length. cbn [length]. intros H.
  rewrite fold_left_app. cbn. rewrite IH by lia. destruct (Z.eqb_spec (Z.of_nat (length l)) U32MAX); lia.
Qed.

Theorem counts_every_inc evs :
  let s := fold_left aexec evs ainit in
  Z.of_nat (length (incs (alog s))) < U32MAX -> acnt s = Z.of_nat (length (incs (alog s))).
Proof.
  cbn zeta. intros H. pose proof (ainv_reachable evs) as [Hp Hl]. rewrite Hl in *.
  replace (acnt _) with (fst (acnt (fold_left aexec evs ainit), aavg (fold_left aexec evs ainit))) by reflexivity.
  rewrite Hp. now apply count_is_length.
Qed.

End Avg.

(* ---- the update formula over the rationals is the arithmetic mean ---- *)
Definition updQ (c : nat) (a m : Q) : Q := ((inject_Z (Z.of_nat c)) / (1 + inject_Z (Z.of_nat c))) * a + m / (1 + inject_Z (Z.of_nat c)).
Fixpoint avgQ (l : list Q) : nat * Q := match l with [] => (O, 0%Q) | m :: r => let '(c, a) := avgQ r in (S c, updQ c a m) end.
Definition sumQ (l : list Q) : Q := fold_right Qplus 0%Q l.

Theorem mean_exact (l : list Q) :
  fst (avgQ l) = length l /\ (l <> [] -> snd (avgQ l) == sumQ l / inject_Z (Z.of_nat (length l)))%Q.
Proof.
  induction l as [|m r [IHc IHa]]; [split; [reflexivity|congruence]|].
  cbn [avgQ]. destruct (avgQ r) as [c a] eqn:E. cbn in IHc, IHa. subst c. split; [reflexivity|]. intros _.
  cbn [snd length sumQ fold_right]. unfold updQ.
  destruct r as [|m' r'].
  - cbn. field.
  - rewrite IHa by congruence. set (n := length (m' :: r')). fold (sumQ (m' :: r')).
    assert (Hn : ~ inject_Z (Z.of_nat n) == 0) by (unfold n; cbn [length]; unfold Qeq; cbn; lia).
    assert (Hn1 : ~ 1 + inject_Z (Z.of_nat n) == 0) by (unfold Qeq; cbn; lia).
    replace (inject_Z (Z.of_nat (S n))) with (inject_Z (Z.of_nat n + 1)) by (f_equal; lia).
    rewrite inject_Z_plus. field. split; [|assumption]. unfold Qeq in *. cbn in *. lia.
Qed.

(* ---- runner ---- *)
Definition ares_code (r : ares) : list Z := match r with AIncDone m => [40; m; 0] | AProbed c a => [41; c; a] end.
Definition aemit (before after : list (nat * ares)) : list (list Z) :=
  map (fun e => 2 :: Z.of_nat (fst e) :: ares_code (snd e)) (skipn (length before) after).
Definition agrant (s : ast) (progs : nat -> list aop) (t : nat) : ast * (nat -> list aop) * list (list Z) :=
  match athr s t with
  | AIdle => match progs t with
             | [] => (s, progs, [skip t])
             | o :: rest => let s1 := astart s t o in let s2 := astep upd32 s1 t in (s2, upd progs t rest, aobs upd32 s1 t :: aemit (alog s1) (alog s2))
             end
  | _ => let s2 := astep upd32 s t in (s2, progs, aobs upd32 s t :: aemit (alog s) (alog s2))
  end.
Fixpoint arun (s : ast) (progs : nat -> list aop) (sched : list nat) : ast * list (list Z) :=
  match sched with
  | [] => (s, [])
  | t :: rest => let '(s1, p1, lines) := agrant s progs t in let '(s2, more) := arun s1 p1 rest in (s2, lines ++ more)
  end.
Definition run_avg (progs : list (list aop)) (sched : list nat) : list Z :=
  let '(s, lines) := arun ainit (fun t => nth t progs []) sched in concat lines ++ [9; acnt s; aavg s].
