(* Shared small definitions: functional maps over nat / Z, list helpers, the trace encoding. *)
From Coq Require Export List Arith ZArith Lia Bool.
Export ListNotations.
Open Scope Z_scope.

Definition upd {A} (f : nat -> A) (t : nat) (x : A) : nat -> A :=
  fun u => if Nat.eqb u t then x else f u.
Definition updz {A} (f : Z -> A) (i : Z) (x : A) : Z -> A :=
  fun j => if Z.eqb j i then x else f j.

Lemma upd_same {A} (f : nat -> A) t x : upd f t x t = x.
Proof. unfold upd. now rewrite Nat.eqb_refl. Qed.
Lemma upd_other {A} (f : nat -> A) t u x : u <> t -> upd f t x u = f u.
Proof. unfold upd. intros H. destruct (Nat.eqb_spec u t); congruence. Qed.
Lemma updz_same {A} (f : Z -> A) i x : updz f i x i = x.
Proof. unfold updz. now rewrite Z.eqb_refl. Qed.
Lemma updz_other {A} (f : Z -> A) i j x : j <> i -> updz f i x j = f j.
Proof. unfold updz. intros H. destruct (Z.eqb_spec j i); congruence. Qed.

Ltac upd_cases t u :=
  destruct (Nat.eq_dec u t) as [->|?];
  [rewrite ?upd_same in * | rewrite ?upd_other in * by assumption].

Definition nthz (l : list Z) (i : Z) : Z := nth (Z.to_nat i) l 0.

Lemma nthz_app_l l v i : 0 <= i < Z.of_nat (length l) -> nthz (l ++ [v]) i = nthz l i.
Proof. intros H. unfold nthz. apply app_nth1. lia. Qed.
Lemma nthz_app_r l v : nthz (l ++ [v]) (Z.of_nat (length l)) = v.
Proof. unfold nthz. rewrite Nat2Z.id, app_nth2, Nat.sub_diag; auto. Qed.

Lemma firstn_S_nth {A} (l : list A) n d : (n < length l)%nat -> firstn (S n) l = firstn n l ++ [nth n l d].
Proof.
  revert n; induction l as [|a l IH]; intros n H; cbn in *; [lia|].
  destruct n; cbn; [reflexivity|]. f_equal. apply IH. lia.
Qed.

Lemma mod_neq N a b : 0 < N -> 0 < b - a < N -> a mod N <> b mod N.
Proof.
  intros HN H E.
  assert (Hd : (b - a) mod N = 0).
  { rewrite Zminus_mod, E, Z.sub_diag. apply Z.mod_0_l. lia. }
  rewrite Z.mod_small in Hd; lia.
Qed.

(* lifting an inductive invariant to every event list *)
Lemma fold_inv {S E} (exec : S -> E -> S) (Inv : S -> Prop) :
  (forall s e, Inv s -> Inv (exec s e)) -> forall evs s, Inv s -> Inv (fold_left exec evs s).
Proof. intros H evs. induction evs as [|e evs IH]; cbn; intros s Hs; auto. Qed.

(* ---- trace encoding shared by all executable models (what the correspondence check compares) ----
   access : [1; tid; loc; kind; seen; wrote (or -1); ok]
   return : [2; tid; rescode; a; b]
   skip   : [0; tid]                    (a grant to a thread whose program is over) *)
Definition K_LOAD := 0. Definition K_STORE := 1. Definition K_FAA := 2. Definition K_CAS := 3.
Definition K_SWAP := 4. Definition K_FAS := 5. Definition K_SLOTW := 6. Definition K_SLOTR := 7.
Definition K_YIELD := 8.
Definition acc (t : nat) (loc kind seen wrote : Z) (ok : bool) : list Z :=
  [1; Z.of_nat t; loc; kind; seen; wrote; if ok then 1 else 0].
Definition ret (t : nat) (code a b : Z) : list Z := [2; Z.of_nat t; code; a; b].
Definition skip (t : nat) : list Z := [0; Z.of_nat t].

Lemma NoDup_app_one {A} (l : list A) x : NoDup l -> ~ In x l -> NoDup (l ++ [x]).
Proof.
  induction l as [|a l IH]; intros Hn Hx; cbn; [constructor; [intros []|constructor]|].
  inversion Hn; subst. constructor.
  - intros Hin. apply in_app_or in Hin. destruct Hin as [Hin|[Hin|[]]]; [contradiction|]. apply Hx. now left.
  - apply IH; [assumption|]. intros Hin. apply Hx. now right.
Qed.
